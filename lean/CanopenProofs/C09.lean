/-
C09 — Saving a PDO configuration follows the safe procedure and reads back identically.

Theorems about `CanopenModel/Pdo/Config.lean` (the model of `PdoMap.save`, `PdoMap.read`,
`PdoMap.subscribe`, `PdoMaps.__init__`, `RemoteNode.load_configuration`) composed with the strict
device `CanopenModel/Spec/StrictPdoDevice.lean`, instantiated with the **generated** constants
`PDO_NOT_VALID`, `RTR_NOT_ALLOWED` and the probed `PdoMaps` numbering.

Quantification: every configuration (COB-ID < 2²⁹, both flags, optional parameters, any list of
mapped objects), every dictionary layout, every prior device state, and — for the ordering
theorem — every device whatsoever (any state-passing answer function), with no bound on sizes.

Vocabulary of the statements (defined in the lemma files, restated here):
* `attempted evs`   — the downloads `(index, sub, byte count, value)` in a list of SDO events;
  `plan od cfg cob m` — invalidate, parameters, count := 0, entries of `m`, count := |m|,
  validate-iff-enabled, as such a list; `zeroRefused od c` — the event "count := 0 aborted with c"
  (Lemmas/PdoConfig.lean).
* `strictDev`       — the strict device of Spec/StrictPdoDevice.lean as the client's peer;
  `AllOk evs`       — every event is a download the device accepted;
  `Domain od d cfg cob` — the property's hypotheses (COB-ID < 2²⁹; the parameters that are set
  fit their CiA 301 type and exist in dictionary and device; every mapped object has a 16 bit
  index, 8 bit sub-index, 1 ≤ length < 256 and is mappable by the device; total length ≤ 64 bits;
  the device has room for the entries and is strict; **nothing** about its prior COB-ID, validity,
  count or entries);
  `Reader odB d cfg` — the second node's dictionary describes the same device and knows the
  mapped objects; `finalDev d cfg cob` — the device image after `save`
  (Lemmas/PdoStrict.lean).
-/
import CanopenModel.Pdo.Config
import CanopenModel.Spec.StrictPdoDevice
import CanopenProofs.Lemmas.PdoConfig
import CanopenProofs.Lemmas.PdoStrict

namespace Canopen.C09
open Canopen.Pdo Canopen.Spec.StrictPdo Canopen.Gen.PdoConfig

/-! ## T save_order_any_device — the order of writes against *any* device -/

/-- Whatever the device answers (any `Dev σ`, any state, any abort at any point): the writes
    `save` puts on the bus are a prefix of the safe procedure
    `invalidate, parameters, count := 0, entries, count := n, validate-iff-enabled`
    for the mapping `cfg.map` extended by `n` dummy entries, where `n = 0` unless the device
    refused the zeroing of the count (the fixed-length-array work-around); and they are the
    whole procedure whenever `save` returns normally. -/
theorem save_order_any_device {σ} (D : Dev σ) (od : Od) (cfg : Cfg) (cob : Nat) (st : Run σ)
    (hc : cfg.cob = some cob) :
    ∃ evs n, (save D od cfg st).1.log = st.log ++ evs ∧
      attempted evs <+: plan od cfg cob (fillMap cfg.map n) ∧
      (∀ out, (save D od cfg st).2 = .ok out →
        attempted evs = plan od cfg cob (fillMap cfg.map n) ∧ out.map = fillMap cfg.map n ∧
        out.subs = if cfg.enabled then [cob] else []) ∧
      ((∀ c, zeroRefused od c ∉ evs) → n = 0) := by
  simp only [save, hc]
  unfold saveBody
  obtain ⟨e1, hl1, hp1, hok1⟩ := Script_writeAll D od (comWrites cfg cob) st
  cases h1 : writeAll D od (comWrites cfg cob) st with
  | mk st1 r1 =>
  rw [h1] at hl1 hok1; simp only [] at hl1
  cases r1 with
  | error e =>
    rw [bind_err h1]
    refine ⟨e1, 0, hl1, ?_, (by intro out h; cases h), fun _ => rfl⟩
    exact List.IsPrefix.trans hp1 (List.prefix_append _ _)
  | ok u =>
    rw [bind_ok h1]
    obtain ⟨ha1, _⟩ := hok1 u rfl
    obtain ⟨e2, hl2, hp2, hok2⟩ := zeroStep_spec D od cfg.map st1
    cases h2 : zeroStep D od cfg.map st1 with
    | mk st2 r2 =>
    rw [h2] at hl2 hok2; simp only [] at hl2
    cases r2 with
    | error e =>
      rw [bind_err h2]
      refine ⟨e1 ++ e2, 0, by rw [hl2, hl1, List.append_assoc], ?_,
        (by intro out h; cases h), fun _ => rfl⟩
      rw [attempted_append, ha1]
      unfold plan
      refine (List.prefix_append_right_inj _).mpr ?_
      exact List.IsPrefix.trans hp2 (List.prefix_append _ _)
    | ok map' =>
      rw [bind_ok h2]
      obtain ⟨ha2, n, hn, hzero⟩ := hok2 map' rfl
      subst hn
      have ht : Script
          (M.bind (writeAll D od (entryWrites od.curtis 1 (fillMap cfg.map n))) fun _ =>
            M.bind (countStep D od (fillMap cfg.map n).length) fun _ =>
            M.bind (validateStep D od cfg cob) fun _ =>
            (M.pure { map := fillMap cfg.map n, subs := if cfg.enabled then [cob] else [] }
              : M σ SaveOut))
          (tailPlan od cfg cob (fillMap cfg.map n))
          (fun out => out.map = fillMap cfg.map n ∧
            out.subs = if cfg.enabled then [cob] else []) :=
        Script_bind (Script_writeAll D od _) fun _ _ =>
          Script_bind (Script_countStep D od _) fun _ _ =>
            Script_bind (Script_validateStep D od cfg cob) fun _ _ =>
              Script_pure _ _ ⟨rfl, rfl⟩
      obtain ⟨e3, hl3, hp3, hok3⟩ := ht st2
      refine ⟨e1 ++ e2 ++ e3, n, by rw [hl3, hl2, hl1]; simp [List.append_assoc], ?_, ?_, ?_⟩
      · rw [attempted_append, attempted_append, ha1, ha2]
        unfold plan
        rw [List.append_assoc]
        exact (List.prefix_append_right_inj _).mpr ((List.prefix_append_right_inj _).mpr hp3)
      · intro out hout
        obtain ⟨ha3, hq1, hq2⟩ := hok3 out hout
        refine ⟨?_, hq1, hq2⟩
        rw [attempted_append, attempted_append, ha1, ha2, ha3]
        unfold plan
        rw [List.append_assoc]
      · intro hno
        exact hzero fun c hmem => hno c (by simp [hmem])

/-! ## T save_order — what the procedure is, in the property's words -/
/-- The safe procedure spelled out.  For a COB-ID below 2²⁹ the write list of `save` is

      (com,1) := cob + 2³¹ + (¬rtr)·2³⁰          -- first: the PDO is invalidated (bit 31), bit 30 = no RTR
      (com,2|3|5|6) := …                          -- only the parameters that are set, in that order
      (map,0) := 0                                 -- before any mapping entry
      (map,i) := entryWord(map[i-1])  i = 1..n     -- the entries, in order
      (map,0) := n                                 -- after the entries
      (com,1) := cob + (¬rtr)·2³⁰                 -- last and only if enabled: bit 31 cleared

    and the write that clears bit 31 is in the list only when the configuration is enabled. -/
theorem save_order (od : Od) (cfg : Cfg) (cob : Nat) (map' : List MapEntry) (hcob : cob < 2 ^ 29) :
    ∃ params entries : List W,
      plan od cfg cob map' =
        (od.comIdx, 1, 4, cob + 2 ^ 31 + (if cfg.rtr then 0 else 2 ^ 30)) :: (params ++
          ((od.mapIdx, 0, 1, 0) :: (entries ++ ((od.mapIdx, 0, 1, map'.length) ::
            (if cfg.enabled then [(od.comIdx, 1, 4, cob + (if cfg.rtr then 0 else 2 ^ 30))]
             else []))))) ∧
      (∀ w ∈ params, w.1 = od.comIdx ∧ (w.2.1 = 2 ∨ w.2.1 = 3 ∨ w.2.1 = 5 ∨ w.2.1 = 6)) ∧
      entries.length = map'.length ∧
      (∀ i, entries[i]? = map'[i]?.map fun e => (od.mapIdx, 1 + i, 4, entryWord od.curtis e)) ∧
      -- the encodings, bit by bit
      (cob + 2 ^ 31 + (if cfg.rtr then 0 else 2 ^ 30)).testBit 31 = true ∧
      (cob + 2 ^ 31 + (if cfg.rtr then 0 else 2 ^ 30)).testBit 30 = !cfg.rtr ∧
      (cob + 2 ^ 31 + (if cfg.rtr then 0 else 2 ^ 30)) % 2 ^ 29 = cob ∧
      (cob + (if cfg.rtr then 0 else 2 ^ 30)).testBit 31 = false ∧
      (cob + (if cfg.rtr then 0 else 2 ^ 30)).testBit 30 = !cfg.rtr ∧
      (cob + (if cfg.rtr then 0 else 2 ^ 30)) % 2 ^ 29 = cob := by
  refine ⟨(optW 2 cfg.tt ++ optW 3 cfg.inhibit ++ optW 5 cfg.event ++ optW 6 cfg.sync).map (toW od),
    (entryWrites od.curtis 1 map').map (toW od), ?_, ?_, entryWrites_length od map' 1,
    fun i => entryWrites_getElem? od map' 1 i (by decide), ?_⟩
  · unfold plan tailPlan comWrites
    rw [cobWord_invalid cob hcob, cobWord_valid cob hcob]
    cases cfg.enabled <;> simp [toW, Od.index, width]
  · intro w hw
    simp only [List.map_append, List.mem_append] at hw
    rcases hw with ((hw | hw) | hw) | hw
    · have := optW_mem 2 _ od w hw; exact ⟨this.1, Or.inl this.2⟩
    · have := optW_mem 3 _ od w hw; exact ⟨this.1, Or.inr (Or.inl this.2)⟩
    · have := optW_mem 5 _ od w hw; exact ⟨this.1, Or.inr (Or.inr (Or.inl this.2))⟩
    · have := optW_mem 6 _ od w hw; exact ⟨this.1, Or.inr (Or.inr (Or.inr this.2))⟩
  · simp only [testBit_arith]
    cases cfg.rtr <;> simp <;> omega

/-! ## T entry_encoding -/

/-- A mapping entry is written as `index<<16 | sub<<8 | length`, i.e. the number
    `index·2¹⁶ + sub·2⁸ + length`, from which the three fields are recovered by the shifts and
    masks of CiA 301; it fits 32 bits for a 16 bit index. -/
theorem entry_encoding (e : MapEntry) (hs : e.sub < 256) (hl : e.len < 256) :
    entryWord false e = e.idx * 65536 + e.sub * 256 + e.len ∧
    entryWord false e >>> 16 = e.idx ∧
    (entryWord false e >>> 8) &&& 0xFF = e.sub ∧
    entryWord false e % 256 = e.len ∧
    (e.len < 128 → entryWord false e &&& 0x7F = e.len) ∧
    (e.idx < 65536 → entryWord false e < 2 ^ 32) := by
  obtain ⟨h1, h2, h3⟩ := decode_entryWord (entryWord false e)
  rw [h1, h2, h3, entryWord_add e hs hl]
  refine ⟨rfl, by omega, by omega, by omega, fun _ => by omega, fun _ => by omega⟩

/-! ## T pdo_numbering -/

/-- `node.rpdo[n]` / `node.tpdo[n]` exist exactly for n = 1..512 and sit at the CiA 301 object
    ranges 1400h+ / 1600h+ (RPDO) and 1800h+ / 1A00h+ (TPDO); PDOs 1..4 carry the COB-ID of
    the pre-defined connection set (200h/300h/400h/500h + node id for RPDOs,
    180h/280h/380h/480h + node id for TPDOs), the others none. -/
theorem pdo_numbering (isTx : Bool) (n nodeId : Nat) :
    slot isTx n nodeId =
      if 1 ≤ n ∧ n ≤ 512 then
        some { comIdx := (if isTx then 0x1800 else 0x1400) + (n - 1),
               mapIdx := (if isTx then 0x1A00 else 0x1600) + (n - 1),
               predefined :=
                 if n ≤ 4 then some ((if isTx then 0x180 else 0x200) + (n - 1) * 0x100 + nodeId)
                 else none }
      else none := by
  unfold slot
  cases isTx <;>
    simp only [RPDO_COUNT, RPDO_COM_BASE, RPDO_MAP_BASE, RPDO_COB_BASE, RPDO_PREDEF_COUNT,
      RPDO_PREDEF_STEP, TPDO_COUNT, TPDO_COM_BASE, TPDO_MAP_BASE, TPDO_COB_BASE, TPDO_PREDEF_COUNT,
      TPDO_PREDEF_STEP, Bool.false_eq_true, if_false, if_true] <;>
    by_cases h : 1 ≤ n ∧ n ≤ 512
  all_goals first
    | (rw [if_pos h, if_neg (by omega)])
    | (rw [if_neg h, if_pos (by omega)])

/-! ## T strict_device_accepts -/

/-- Saving a well-formed configuration to a strict device **in any prior state** succeeds: no
    write is refused, no read is needed, the writes are exactly the safe procedure, `save`
    subscribes iff the configuration is enabled, and the device ends in `finalDev`. -/
theorem strict_device_accepts (od : Od) (d : PdoDev) (cfg : Cfg) (cob : Nat)
    (h : Domain od d cfg cob) (log : List Ev) :
    ∃ evs, save strictDev od cfg ⟨d, log⟩
        = (⟨finalDev d cfg cob, log ++ evs⟩,
           .ok { map := cfg.map, subs := if cfg.enabled then [cob] else [] }) ∧
      AllOk evs ∧ attempted evs = plan od cfg cob cfg.map := by
  obtain ⟨evs, he, hok⟩ := Runs_save od d cfg cob h log
  refine ⟨evs, he, hok, ?_⟩
  obtain ⟨evs', n, hl, hp, hfull, hz⟩ :=
    save_order_any_device strictDev od cfg cob ⟨d, log⟩ h.cob_eq
  rw [he] at hl hfull
  simp only [] at hl
  have : evs = evs' := List.append_cancel_left hl
  subst this
  have hn : n = 0 := hz fun c hmem => by
    obtain ⟨i, s, k, v, e⟩ := hok _ hmem
    simp [zeroRefused] at e
  obtain ⟨ha, _, _⟩ := hfull _ rfl
  rw [ha, hn, fillMap_zero]

/-- **Read-back.**  After `save` of a well-formed configuration to a strict device in any prior
    state, a *fresh* node object (any dictionary `odB` that describes the device and knows the
    mapped objects) reads: the same COB-ID, enabled and RTR flags, transmission type and mapping;
    for transmission types 254/255 the same inhibit time, event timer and SYNC start value (where
    the configuration sets them), for the others none of the three; and it subscribes to the
    COB-ID exactly when the configuration is enabled.  The device is not changed by reading. -/
theorem read_back (od odB : Od) (d : PdoDev) (cfg : Cfg) (cob : Nat) (h : Domain od d cfg cob)
    (hB : Reader odB d cfg) (log logB : List Ev) :
    (save strictDev od cfg ⟨d, log⟩).1.dev = finalDev d cfg cob ∧
    ∃ r logB', Pdo.read strictDev odB .live Cfg.fresh ⟨finalDev d cfg cob, logB⟩
        = (⟨finalDev d cfg cob, logB'⟩, .ok r) ∧
      r.cfg.cob = some cob ∧ r.cfg.enabled = cfg.enabled ∧ r.cfg.rtr = cfg.rtr ∧
      r.cfg.tt = some (cfg.tt.getD d.tt) ∧ (∀ t, cfg.tt = some t → r.cfg.tt = some t) ∧
      r.cfg.map = cfg.map ∧
      (cfg.tt.getD d.tt ≥ 254 →
        (∀ v, cfg.inhibit = some v → r.cfg.inhibit = some v) ∧
        (∀ v, cfg.event = some v → r.cfg.event = some v) ∧
        (∀ v, cfg.sync = some v → r.cfg.sync = some v)) ∧
      (cfg.tt.getD d.tt < 254 →
        r.cfg.inhibit = none ∧ r.cfg.event = none ∧ r.cfg.sync = none) ∧
      r.subs = if cfg.enabled then [cob] else [] := by
  obtain ⟨evs, he, _, _⟩ := strict_device_accepts od d cfg cob h log
  refine ⟨by rw [he], ?_⟩
  let F := finalDev d cfg cob
  have hci : odB.index true = F.comIdx := hB.comIdx
  have hmi : odB.index false = F.mapIdx := hB.mapIdx
  have hne : ¬ F.mapIdx = F.comIdx := fun e => h.distinct e.symm
  have r1 : Spec.StrictPdo.read F (odB.index true) 1 = .ok F.cobWord := by
    rw [hci]; simp [Spec.StrictPdo.read]
  have r2 : Spec.StrictPdo.read F (odB.index true) 2 = .ok F.tt := by
    rw [hci]; simp [Spec.StrictPdo.read]
  have r0 : Spec.StrictPdo.read F (odB.index false) 0 = .ok cfg.map.length := by
    rw [hmi]; simp [Spec.StrictPdo.read, hne]; rfl
  have rE : ∀ j (hj : j < cfg.map.length),
      Spec.StrictPdo.read F (odB.index false) (0 + j + 1) = .ok (entryWord false cfg.map[j]) := by
    intro j hj
    rw [hmi]
    have hat := putEntries_at d.entries 0 (cfg.map.map (entryWord false)) j
      (by simp; exact h.fits) (by simpa using hj)
    simp only [Nat.zero_add] at hat
    have : F.entries[j]? = some (entryWord false cfg.map[j]) := by
      show (putEntries d.entries 0 (cfg.map.map (entryWord false)))[j]? = _
      rw [hat]; simp [hj]
    simp [Spec.StrictPdo.read, hne, this, optRead]
  have hdec : ∀ e ∈ cfg.map, decodeEntry odB (entryWord false e) = [e] := by
    intro e he
    obtain ⟨_, h2, h3, _, _⟩ := h.entries e he
    obtain ⟨k1, k2, k3⟩ := hB.knows e he
    exact decodeEntry_word odB e hB.noCurtis k2 h2 h3 k3 k1
  obtain ⟨logB', hr⟩ := Reads_read strictDev odB .live Cfg.fresh F F.cobWord F.tt
    (optLive odB F 3 none) (optLive odB F 5 none) (optLive odB F 6 none) cfg.map
    (Reads_live odB true 1 F _ hB.od1 r1) (Reads_live odB true 2 F _ hB.od2 r2)
    (fun _ => Reads_optParam_live odB F 3 none) (fun _ => Reads_optParam_live odB F 5 none)
    (fun _ => Reads_optParam_live odB F 6 none)
    (Reads_live odB false 0 F _ hB.od0 r0)
    (fun j hj => Reads_live odB false (0 + j + 1) F _ (by simpa using hB.odEntries j hj) (rE j hj))
    hdec logB
  refine ⟨_, logB', hr, ?_⟩
  -- decoding of the COB-ID word
  have hw : F.cobWord = cob + (if !cfg.enabled then 2 ^ 31 else 0) + (if cfg.rtr then 0 else 2 ^ 30) := by
    show (if cfg.enabled then cob ||| rtrBit cfg.rtr else cob ||| PDO_NOT_VALID ||| rtrBit cfg.rtr) = _
    cases cfg.enabled
    · simpa using cobWord_invalid cob h.cob_lt cfg.rtr
    · simpa using cobWord_valid cob h.cob_lt cfg.rtr
  obtain ⟨c1, c2, c3⟩ := decode_cobWord cob h.cob_lt (!cfg.enabled) cfg.rtr F.cobWord hw
  have htt : F.tt = cfg.tt.getD d.tt := rfl
  simp only [c1, c2, c3, Bool.not_not, htt]
  refine ⟨trivial, trivial, trivial, trivial, ?_, trivial, ?_, ?_, ?_⟩
  · intro t ht; simp [ht]
  · intro hge
    simp only [hge, if_true]
    refine ⟨fun v hv => ?_, fun v hv => ?_, fun v hv => ?_⟩
    · refine optLive_some odB F 3 v none (hB.opt3 (by simp [hv])) ?_
      have hF : F.inhibit = some v := ovr_some cfg.inhibit d.inhibit v hv
      rw [hci]; simp [Spec.StrictPdo.read, optRead, hF]
    · refine optLive_some odB F 5 v none (hB.opt5 (by simp [hv])) ?_
      have hF : F.event = some v := ovr_some cfg.event d.event v hv
      rw [hci]; simp [Spec.StrictPdo.read, optRead, hF]
    · refine optLive_some odB F 6 v none (hB.opt6 (by simp [hv])) ?_
      have hF : F.sync = some v := ovr_some cfg.sync d.sync v hv
      rw [hci]; simp [Spec.StrictPdo.read, optRead, hF]
  · intro hlt
    have : ¬ cfg.tt.getD d.tt ≥ 254 := by omega
    simp only [this, if_false]
    exact ⟨rfl, rfl, rfl⟩
  · cases cfg.enabled <;> simp


/-! ## T from_od — configuration taken from the dictionary -/
/-- **Configuration from the dictionary** (`read(from_od=True)`, any device, any state):
    every number is the entry's DCF `value`, else its `default`; a missing entry is a
    `KeyError`; no SDO transaction is made and the device is untouched; and when the dictionary
    holds a COB-ID word, a transmission type, a count and that many mapping words of known
    objects, the result is exactly their CiA 301 decoding (optional parameters only for
    transmission types 254/255), subscribing iff bit 31 is clear. -/
theorem from_od {σ} (D : Dev σ) (od : Od) (old : Cfg) (st : Run σ) :
    (∀ c s, rawFrom D od .od c s st
      = (st, match odValue od c s with | some ov => .ok ov | none => .error .key)) ∧
    (Pdo.read D od .od old st).1 = st ∧
    ∀ (w tt : Nat) (es : List MapEntry),
      odValue od true 1 = some (some w) → odValue od true 2 = some (some tt) →
      odValue od false 0 = some (some es.length) →
      (∀ j (hj : j < es.length), odValue od false (j + 1) = some (some (entryWord false es[j]))) →
      (∀ e ∈ es, decodeEntry od (entryWord false e) = [e]) →
      (Pdo.read D od .od old st).2 = .ok
        { cfg := { cob := some (w &&& 0x1FFFFFFF), enabled := w &&& PDO_NOT_VALID == 0,
                   rtr := w &&& RTR_NOT_ALLOWED == 0, tt := some tt,
                   inhibit := if tt ≥ 254 then optOd od 3 old.inhibit else old.inhibit,
                   event := if tt ≥ 254 then optOd od 5 old.event else old.event,
                   sync := if tt ≥ 254 then optOd od 6 old.sync else old.sync, map := es },
          subs := if (w &&& PDO_NOT_VALID == 0) = true then [w &&& 0x1FFFFFFF] else [] } := by
  refine ⟨fun c s => rawFrom_od D od c s st, Quiet_read_od D od old st, ?_⟩
  intro w tt es h1 h2 h0 he hdec
  obtain ⟨log', hr⟩ := Reads_read D od .od old st.dev w tt _ _ _ es
    (Reads_od D od true 1 _ _ h1) (Reads_od D od true 2 _ _ h2)
    (fun _ => Reads_optParam_od D od 3 _ _) (fun _ => Reads_optParam_od D od 5 _ _)
    (fun _ => Reads_optParam_od D od 6 _ _) (Reads_od D od false 0 _ _ h0)
    (fun j hj => Reads_od D od false (0 + j + 1) _ _ (by simpa using he j hj)) hdec st.log
  rw [hr]


/-! ## T strict_device_refuses_shortcuts -/

/-- The strict device is strict: while the PDO is valid it refuses every write to the mapping
    object and to the communication parameters other than the COB-ID word, and a COB-ID word that
    keeps the PDO valid with another CAN-ID; while the count is not zero it refuses every mapping
    entry.  A refused write changes nothing.  (So none of the steps of the safe procedure can be
    dropped or reordered against this device.) -/
theorem strict_device_refuses_shortcuts (d : PdoDev) (hne : d.comIdx ≠ d.mapIdx)
    (hs : d.fixedCount = false) :
    (d.valid = true → ∀ sub size v,
      (write d d.mapIdx sub size v).2 ≠ none ∧ (write d d.mapIdx sub size v).1 = d) ∧
    (d.valid = true → ∀ sub size v, sub ≠ 1 →
      (write d d.comIdx sub size v).2 ≠ none ∧ (write d d.comIdx sub size v).1 = d) ∧
    (d.valid = true → ∀ v, v.testBit 31 = false → v % 2 ^ 30 ≠ d.cobWord % 2 ^ 30 →
      write d d.comIdx 1 4 v = (d, some abInvalidValue)) ∧
    (d.count ≠ 0 → ∀ sub size v, sub ≠ 0 →
      (write d d.mapIdx sub size v).2 ≠ none ∧ (write d d.mapIdx sub size v).1 = d) := by
  obtain ⟨ci, mi, cw, tt, inh, ev, sy, cnt, ents, mp, fx⟩ := d
  simp only at hne hs
  have h1 : ¬ mi = ci := fun h => hne h.symm
  refine ⟨?_, ?_, ?_, ?_⟩
  · intro hv sub size v
    simp only [write, h1, if_false, writeMap, hs]
    repeat' split
    all_goals simp_all
  · intro hv sub size v hsub
    simp only [write, if_true, writeCom, hsub, if_false, hv, writeOpt]
    repeat' split
    all_goals simp_all
  · intro hv v hb hc
    simp [write, writeCom, hv, hb, hc]
  · intro hc sub size v hsub
    simp only [write, h1, if_false, writeMap, hsub, hs]
    repeat' split
    all_goals simp_all

/-! ## T load_configuration_round_trip -/

/-- the dictionary (DCF values, else defaults) holds the CiA 301 encoding of `cfg` -/
structure OdHolds (od : Od) (cfg : Cfg) (cob tt : Nat) : Prop where
  cob_eq : cfg.cob = some cob
  tt_eq : cfg.tt = some tt
  word : odValue od true 1 = some (some
    (cob + (if !cfg.enabled then 2 ^ 31 else 0) + (if cfg.rtr then 0 else 2 ^ 30)))
  ttv : odValue od true 2 = some (some tt)
  inhibit : cfg.inhibit = if tt ≥ 254 then optOd od 3 none else none
  event : cfg.event = if tt ≥ 254 then optOd od 5 none else none
  sync : cfg.sync = if tt ≥ 254 then optOd od 6 none else none
  count : odValue od false 0 = some (some cfg.map.length)
  words : ∀ j (hj : j < cfg.map.length),
    odValue od false (j + 1) = some (some (entryWord false cfg.map[j]))
  knows : ∀ e ∈ cfg.map, od.knows e.idx e.sub = true ∧ e.idx ≠ 0 ∧ e.len < 128

/-- `RemoteNode.load_configuration` on a fresh node: `read(from_od=True)` then `save()` -/
def loadConfiguration {σ} (D : Dev σ) (od : Od) : M σ SaveOut :=
  M.bind (Pdo.read D od .od Cfg.fresh) fun r => save D od r.cfg

/-- **Dictionary → device → fresh node.**  When the dictionary holds a well-formed configuration,
    `load_configuration` reads exactly it (without SDO traffic), saves it to the strict device
    (any prior state) by exactly the safe procedure with no refusal, and a fresh node then reads
    back the same COB-ID, flags, transmission type, mapping, (for 254/255) timers, and subscribes
    iff enabled. -/
theorem load_configuration_round_trip (od odB : Od) (d : PdoDev) (cfg : Cfg) (cob tt : Nat)
    (hod : OdHolds od cfg cob tt) (h : Domain od d cfg cob) (hB : Reader odB d cfg)
    (log logB : List Ev) :
    ∃ evs, loadConfiguration strictDev od ⟨d, log⟩
        = (⟨finalDev d cfg cob, log ++ evs⟩,
           .ok { map := cfg.map, subs := if cfg.enabled then [cob] else [] }) ∧
      AllOk evs ∧ attempted evs = plan od cfg cob cfg.map ∧
      ∃ r logB', Pdo.read strictDev odB .live Cfg.fresh ⟨finalDev d cfg cob, logB⟩
          = (⟨finalDev d cfg cob, logB'⟩, .ok r) ∧
        r.cfg.cob = cfg.cob ∧ r.cfg.enabled = cfg.enabled ∧ r.cfg.rtr = cfg.rtr ∧
        r.cfg.tt = cfg.tt ∧ r.cfg.map = cfg.map ∧
        (tt ≥ 254 → (∀ v, cfg.inhibit = some v → r.cfg.inhibit = some v) ∧
          (∀ v, cfg.event = some v → r.cfg.event = some v) ∧
          (∀ v, cfg.sync = some v → r.cfg.sync = some v)) ∧
        r.subs = if cfg.enabled then [cob] else [] := by
  have hdec : ∀ e ∈ cfg.map, decodeEntry od (entryWord false e) = [e] := by
    intro e he
    obtain ⟨_, h2, h3, _, _⟩ := h.entries e he
    obtain ⟨k1, k2, k3⟩ := hod.knows e he
    exact decodeEntry_word od e h.noCurtis k2 h2 h3 k3 k1
  obtain ⟨_, hq, hfrom⟩ := from_od strictDev od Cfg.fresh ⟨d, log⟩
  have h2 := hfrom _ tt cfg.map hod.word hod.ttv hod.count hod.words hdec
  obtain ⟨c1, c2, c3⟩ := decode_cobWord cob h.cob_lt (!cfg.enabled) cfg.rtr _ rfl
  -- the configuration read from the dictionary is `cfg`
  have hcfg : ∀ r, (Pdo.read strictDev od .od Cfg.fresh ⟨d, log⟩).2 = .ok r → r.cfg = cfg ∧
      r.subs = if cfg.enabled then [cob] else [] := by
    intro r hr
    rw [h2] at hr
    simp only [Except.ok.injEq] at hr
    subst hr
    simp only [c1, c2, c3, Bool.not_not]
    obtain ⟨c, en, rt, t, i, ev, sy, mp⟩ := cfg
    have e1 := hod.cob_eq; have e2 := hod.tt_eq
    have e3 := hod.inhibit; have e4 := hod.event; have e5 := hod.sync
    simp only [Cfg.fresh] at *
    subst e1 e2 e3 e4 e5
    exact ⟨rfl, by cases en <;> simp⟩
  cases hrd : Pdo.read strictDev od .od Cfg.fresh ⟨d, log⟩ with
  | mk st' res =>
    rw [hrd] at hq h2 hcfg
    simp only [] at hq h2
    subst hq h2
    obtain ⟨hc, _⟩ := hcfg _ rfl
    obtain ⟨evs, he, hok, hplan⟩ := strict_device_accepts od d cfg cob h log
    refine ⟨evs, ?_, hok, hplan, ?_⟩
    · unfold loadConfiguration
      rw [bind_ok hrd, hc]
      exact he
    · obtain ⟨_, r, logB', hr, r1, r2, r3, r4, r5, r6, r7, _, r9⟩ :=
        read_back od odB d cfg cob h hB log logB
      refine ⟨r, logB', hr, by rw [r1, hod.cob_eq], r2, r3, ?_, r6, ?_, r9⟩
      · rw [r5 tt hod.tt_eq, hod.tt_eq]
      · intro hge
        have : cfg.tt.getD d.tt ≥ 254 := by rw [hod.tt_eq]; exact hge
        exact r7 this


/-! ## Non-vacuity: a concrete dictionary, device and configuration satisfy every hypothesis -/

/-- TPDO1: COB-ID 185h, enabled, no RTR, event driven, two mapped objects -/
def exCfg : Cfg :=
  { cob := some 0x185, enabled := true, rtr := false, tt := some 255, inhibit := some 10,
    event := some 100, sync := none, map := [⟨0x6041, 0, 16⟩, ⟨0x6064, 0, 32⟩] }

/-- its dictionary: DCF value for the COB-ID, defaults elsewhere, mapping object an array whose
    third entry exists only through the template -/
def exOd : Od :=
  { comIdx := 0x1800, mapIdx := 0x1A00,
    com := [⟨0, none, some 5⟩, ⟨1, some 0x40000185, some 0x80000185⟩, ⟨2, none, some 255⟩,
            ⟨3, some 10, some 0⟩, ⟨5, none, some 100⟩],
    map := [⟨0, some 2, some 0⟩, ⟨1, some 0x60410010, none⟩, ⟨2, some 0x60640020, none⟩],
    mapIsArray := true, objs := [(0x6041, none), (0x6064, some [0])], curtis := false }

/-- a strict device that starts **enabled** with another COB-ID and another mapping -/
def exDev : PdoDev :=
  { comIdx := 0x1800, mapIdx := 0x1A00, cobWord := 0x40000201, tt := 1, inhibit := some 0,
    event := some 0, sync := none, count := 1, entries := [0x60400010, 0, 0, 0, 0, 0, 0, 0],
    mappable := [0x60400010, 0x60410010, 0x60640020], fixedCount := false }

example : exDev.valid = true := by decide

example : Domain exOd exDev exCfg 0x185 where
  cob_eq := rfl
  cob_lt := by decide
  strict := rfl
  noCurtis := rfl
  comIdx := rfl
  mapIdx := rfl
  distinct := by decide
  od1 := by decide
  tt := by intro t h; cases h; decide
  inhibit := by intro v h; cases h; decide
  event := by intro v h; cases h; decide
  sync := by intro v h; cases h
  od0 := by decide
  odEntries := by
    intro j hj
    have : j = 0 ∨ j = 1 := by simp [exCfg] at hj; omega
    rcases this with rfl | rfl <;> decide
  fits := by decide
  entries := by
    intro e he
    simp only [exCfg, List.mem_cons, List.not_mem_nil, or_false] at he
    rcases he with rfl | rfl <;> decide
  total := by decide

example : Reader exOd exDev exCfg where
  noCurtis := rfl
  comIdx := rfl
  mapIdx := rfl
  od1 := by decide
  od2 := by decide
  opt3 := fun _ => by decide
  opt5 := fun _ => by decide
  opt6 := fun h => by cases h
  od0 := by decide
  odEntries := by
    intro j hj
    have : j = 0 ∨ j = 1 := by simp [exCfg] at hj; omega
    rcases this with rfl | rfl <;> decide
  knows := by
    intro e he
    simp only [exCfg, List.mem_cons, List.not_mem_nil, or_false] at he
    rcases he with rfl | rfl <;> decide

example : OdHolds exOd exCfg 0x185 255 where
  cob_eq := rfl
  tt_eq := rfl
  word := by decide
  ttv := by decide
  inhibit := by decide
  event := by decide
  sync := by decide
  count := by decide
  words := by
    intro j hj
    have : j = 0 ∨ j = 1 := by simp [exCfg] at hj; omega
    rcases this with rfl | rfl <;> decide +revert
  knows := by
    intro e he
    simp only [exCfg, List.mem_cons, List.not_mem_nil, or_false] at he
    rcases he with rfl | rfl <;> decide

/-- the whole scenario evaluated: the eight writes, the final device, what the fresh node reads -/
example : (attempted (save strictDev exOd exCfg ⟨exDev, []⟩).1.log,
           (save strictDev exOd exCfg ⟨exDev, []⟩).2.toOption) =
    ([(0x1800, 1, 4, 0xC0000185), (0x1800, 2, 1, 255), (0x1800, 3, 2, 10), (0x1800, 5, 2, 100),
      (0x1A00, 0, 1, 0), (0x1A00, 1, 4, 0x60410010), (0x1A00, 2, 4, 0x60640020), (0x1A00, 0, 1, 2),
      (0x1800, 1, 4, 0x40000185)],
     some { map := exCfg.map, subs := [0x185] }) := by decide

example : (Pdo.read strictDev exOd .live Cfg.fresh ⟨finalDev exDev exCfg 0x185, []⟩).2.toOption
    = some { cfg := exCfg, subs := [0x185] } := by decide

/-- … and the strict device really is strict: each shortcut is refused -/
example : (write exDev 0x1A00 1 4 0x60410010).2 = some abDeviceState := by decide   -- entry while valid
example : (write exDev 0x1A00 0 1 0).2 = some abDeviceState := by decide            -- count while valid
example : (write exDev 0x1800 2 1 255).2 = some abDeviceState := by decide          -- type while valid
example : (write exDev 0x1800 1 4 0x40000185).2 = some abInvalidValue := by decide  -- COB-ID while valid
example : (write { exDev with cobWord := 0xC0000201 } 0x1A00 1 4 0x60410010).2
    = some abUnsupported := by decide                                               -- entry while count ≠ 0
example : (write { exDev with cobWord := 0xC0000201 } 0x1A00 0 1 9).2
    = some abValueHigh := by decide                                                 -- count > entries
example : (write { exDev with cobWord := 0xC0000201, count := 0 } 0x1A00 1 4 0x12345678).2
    = some abNotMappable := by decide                                               -- unknown object

end Canopen.C09
