/-
C10 — Frames reach exactly the handlers subscribed at that moment.

Property theorems about `CanopenModel/Net/Network.lean` (model of `Network.subscribe /
unsubscribe / notify / __setitem__ / __delitem__ / send_message`, `PeriodicMessageTask`,
`MessageListener`, `NodeScanner`, `RemoteNode/LocalNode.associate_network / remove_network`,
`RemoteNode.add_sdo`) with the **generated** (de)registration call lists, against the specs
`Spec/Multimap.lean` and `Spec/ConnectionSet.lean`.  Every statement quantifies over all
histories (lists of operations of any length), all environments (node objects, which callbacks
raise), all CAN ids / data / timestamps.  Helper lemmas: `Lemmas/Network.lean`.
-/
import CanopenProofs.Lemmas.Network

namespace Canopen.C10
open Canopen Canopen.Net Canopen.Gen.Network
open Canopen.Spec
open Canopen.Spec.Multimap (MM Prim Call activeStep Active)

/-! ## T refines_multimap -/

/-- prefix of `l` up to and including the first element satisfying `p` -/
def throughFirst {α : Type} (p : α → Bool) : List α → List α
  | [] => []
  | a :: r => if p a then [a] else a :: throughFirst p r

theorem invoked_map (raises : Cb → Bool) (id : Nat) (data : Bytes) (ts : Nat) (l : List Cb) :
    (invoked raises l).map (fun cb => (⟨cb, id, data, ts⟩ : Call Cb)) =
      throughFirst (fun c => raises c.cb) (l.map fun cb => ⟨cb, id, data, ts⟩) := by
  induction l with
  | nil => rfl
  | cons c r ih =>
    simp only [invoked, List.map_cons, throughFirst]
    by_cases h : raises c = true
    · simp [h]
    · simp [h, ih]

theorem throughFirst_none {α : Type} (p : α → Bool) (l : List α) (h : ∀ a ∈ l, p a = false) :
    throughFirst p l = l := by
  induction l with
  | nil => rfl
  | cons a r ih =>
    have ha : p a = false := h a (by simp)
    simp only [throughFirst, ha, Bool.false_eq_true, if_false]
    rw [ih (fun b hb => h b (by simp [hb]))]

theorem throughFirst_sublist {α : Type} (p : α → Bool) (l : List α) :
    (throughFirst p l).Sublist l := by
  induction l with
  | nil => exact List.Sublist.refl _
  | cons a r ih =>
    simp only [throughFirst]
    split
    · simp
    · exact ih.cons_cons a

/-- the multimap the spec holds after the history `pre` on a fresh `Network` -/
def specAfter (E : Env) (pre : List Op) : MM Cb :=
  Multimap.run specInit (trace E init pre)

theorem abs_after (E : Env) (pre : List Op) :
    abs (run E init pre).1.subs = specAfter E pre := by
  rw [run_abs, abs_init]
  rfl

theorem notify_calls (E : Env) (n : Net) (f : Frame) :
    (notify E n f).2.calls =
      throughFirst (fun c => E.raises c.cb) (Multimap.deliver (abs n.subs) f.id f.data f.ts) ∧
    ((notify E n f).2.ok = true ↔ ∀ cb ∈ abs n.subs f.id, E.raises cb = false) := by
  unfold notify
  simp only [Multimap.deliver, abs]
  constructor
  · split <;> exact invoked_map _ _ _ _ _
  · split
    · rename_i h
      simp only [Bool.false_eq_true, false_iff]
      intro hall
      simp only [List.any_eq_true] at h
      obtain ⟨c, hc, hr⟩ := h
      rw [hall c hc] at hr
      exact absurd hr (by simp)
    · rename_i h
      simp only [true_iff]
      intro cb hcb
      simp only [List.any_eq_true, not_exists, not_and] at h
      simpa using h cb hcb

/-- **Refinement.**  After *any* history `pre` on a fresh network, a received frame `f` invokes
    the callbacks of the spec multimap's list for `f.id` — the multimap obtained by replaying the
    primitive subscribe/unsubscribe calls the history made — each with the frame's own id, data
    and timestamp, in list order, stopping after the first callback that raises; that list has
    no duplicates; and when no subscribed callback raises the invocations are exactly
    `deliver` (every subscribed callback, once, in subscription order) and `notify` returns
    normally. -/
theorem refines_multimap (E : Env) (pre : List Op) (f : Frame) :
    let out := (step E (run E init pre).1 (.notify f)).2
    let m := specAfter E pre
    out.calls = throughFirst (fun c => E.raises c.cb) (Multimap.deliver m f.id f.data f.ts)
    ∧ (m f.id).Nodup
    ∧ (out.ok = true ↔ ∀ cb ∈ m f.id, E.raises cb = false)
    ∧ ((∀ cb ∈ m f.id, E.raises cb = false) →
        out.calls = Multimap.deliver m f.id f.data f.ts) := by
  intro out m
  have h := notify_calls E (run E init pre).1 f
  rw [abs_after] at h
  refine ⟨h.1, ?_, h.2, ?_⟩
  · exact nodupAll_run _ nodupAll_specInit _ f.id
  · intro hall
    show (notify E (run E init pre).1 f).2.calls = _
    rw [h.1]
    apply throughFirst_none
    intro c hc
    simp only [Multimap.deliver, List.mem_map] at hc
    obtain ⟨cb, hcb, rfl⟩ := hc
    exact hall cb hcb

/-- the output a history records for an operation is the one `refines_multimap` talks about -/
theorem output_in_history (E : Env) (pre post : List Op) (op : Op) :
    (run E init (pre ++ op :: post)).2[pre.length]? = some (step E (run E init pre).1 op).2 := by
  rw [run_app]
  simp only [run]
  have hl : (run E init pre).2.length = pre.length := by
    generalize init = n
    induction pre generalizing n with
    | nil => rfl
    | cons o r ih => simp [run, ih]
  rw [List.getElem?_append_right (by omega)]
  simp [hl]

example : (step ⟨fun _ => 1, fun _ => false, fun _ => false⟩
    (run ⟨fun _ => 1, fun _ => false, fun _ => false⟩ init
      [.subscribe 0x701 (.user 0), .setNode 0, .subscribe 0x701 (.user 0)]).1
    (.notify ⟨0x701, [5], 9⟩)).2.calls =
    [⟨.user 0, 0x701, [5], 9⟩, ⟨.node 0 .heartbeat, 0x701, [5], 9⟩] := by decide

/-! ## T spec_membership, T spec_order_stable — what the multimap spec means -/

/-- **"Currently subscribed".**  In the spec multimap reached by any sequence of primitive
    calls, a callback is in the list of an id iff the *last* call that concerns that
    (id, callback) pair was a subscribe — every pair behaves as an independent on/off bit. -/
theorem spec_membership (ps : List (Prim Cb)) (id : Nat) (cb : Cb) :
    cb ∈ Multimap.run specInit ps id ↔ Active id cb (decide (cb ∈ specInit id)) ps = true := by
  have gen : ∀ (m : MM Cb), NodupAll m →
      (cb ∈ Multimap.run m ps id ↔ Active id cb (decide (cb ∈ m id)) ps = true) := by
    induction ps with
    | nil => intro m _; simp [Multimap.run, Active]
    | cons p r ih =>
      intro m hm
      simp only [Multimap.run, Active]
      rw [ih _ (nodupAll_step m hm p)]
      have h := mem_step_iff m hm p id cb
      by_cases hc : cb ∈ Multimap.step m p id
      · rw [(h.mp hc)]; simp [hc]
      · have : activeStep id cb (decide (cb ∈ m id)) p = false := by
          cases hb : activeStep id cb (decide (cb ∈ m id)) p with
          | false => rfl
          | true => exact absurd (h.mpr hb) hc
        rw [this]; simp [hc]
  exact gen specInit nodupAll_specInit

theorem filter_all {α : Type} (l : List α) : l.filter (fun _ => true) = l := by
  induction l with
  | nil => rfl
  | cons a r ih => simp [List.filter, ih]

/-- **"In subscription order".**  One primitive call never reorders: the new list of every id is
    the old list with some entries dropped (survivors keep their relative order), followed by at
    most one new entry — and only a `subscribe` of a callback not yet in the list adds one. -/
theorem spec_order_stable (m : MM Cb) (hm : NodupAll m) (p : Prim Cb) (id : Nat) :
    ∃ (keep : Cb → Bool) (tail : List Cb),
      Multimap.step m p id = (m id).filter keep ++ tail ∧
      (tail = [] ∨ ∃ cb, p = .sub id cb ∧ cb ∉ m id ∧ tail = [cb]) := by
  cases p with
  | sub i c =>
    by_cases hi : id = i
    · subst hi
      by_cases hc : c ∈ m id
      · exact ⟨fun _ => true, [], by simp [Multimap.step, Multimap.subscribe, hc, filter_all], Or.inl rfl⟩
      · exact ⟨fun _ => true, [c], by simp [Multimap.step, Multimap.subscribe, hc, filter_all],
          Or.inr ⟨c, rfl, hc, rfl⟩⟩
    · exact ⟨fun _ => true, [], by simp [Multimap.step, Multimap.subscribe, hi, filter_all], Or.inl rfl⟩
  | unsub i c =>
    by_cases hi : id = i
    · subst hi
      refine ⟨fun x => x != c, [], ?_, Or.inl rfl⟩
      simp only [Multimap.step, Multimap.unsubscribe, if_true, List.append_nil]
      exact (hm id).erase_eq_filter c
    · exact ⟨fun _ => true, [], by simp [Multimap.step, Multimap.unsubscribe, hi, filter_all], Or.inl rfl⟩
  | unsubAll i =>
    by_cases hi : id = i
    · subst hi
      exact ⟨fun _ => false, [], by simp [Multimap.step, Multimap.unsubscribeAll], Or.inl rfl⟩
    · exact ⟨fun _ => true, [], by simp [Multimap.step, Multimap.unsubscribeAll, hi, filter_all], Or.inl rfl⟩

example : Multimap.run specInit [.sub 5 (.user 1), .sub 5 (.user 2), .sub 5 (.user 1),
    .unsub 5 (.user 1), .sub 5 (.user 1)] 5 = [.user 2, .user 1] := by decide

/-! ## T no_dup_on_resubscribe -/

theorem subs_ext (a b : Subs) (h : ∀ j, a.get j = b.get j) : a = b := by
  cases a; cases b
  congr
  funext j
  exact h j

/-- Subscribing the same callback to the same id a second time changes nothing; after any
    history no frame is handed to the same callback twice; in particular a frame received right
    after a double `subscribe(id, cb)` reaches `cb` at most once. -/
theorem no_dup_on_resubscribe :
    (∀ (s : Subs) (id : Nat) (cb : Cb),
        subscribe (subscribe s id cb) id cb = subscribe s id cb) ∧
    (∀ (E : Env) (pre : List Op) (f : Frame) (cb : Cb),
        ((step E (run E init pre).1 (.notify f)).2.calls.map (·.cb)).Nodup ∧
        ((step E (run E init (pre ++ [.subscribe f.id cb, .subscribe f.id cb])).1
            (.notify f)).2.calls.filter (fun c => c.cb = cb)).length ≤ 1) := by
  constructor
  · intro s id cb
    apply subs_ext
    intro j
    by_cases hj : j = id
    · subst hj
      by_cases hc : cb ∈ (s.get j).getD []
      · simp [subscribe, Subs.set, hc]
      · simp [subscribe, Subs.set, hc]
    · simp [subscribe, Subs.set, hj]
  · intro E pre f cb
    have nd : ∀ pre, ((step E (run E init pre).1 (.notify f)).2.calls.map (·.cb)).Nodup := by
      intro pre
      have h := refines_multimap E pre f
      simp only [] at h
      rw [h.1]
      have hs := throughFirst_sublist (fun c : Call Cb => E.raises c.cb)
        (Multimap.deliver (specAfter E pre) f.id f.data f.ts)
      have hs' := hs.map (·.cb)
      refine List.Nodup.sublist hs' ?_
      simp only [Multimap.deliver, List.map_map]
      have : ((fun c : Call Cb => c.cb) ∘ fun cb => (⟨cb, f.id, f.data, f.ts⟩ : Call Cb)) = id := by
        funext x; rfl
      rw [this, List.map_id]
      exact h.2.1
    refine ⟨nd pre, ?_⟩
    have h := nd (pre ++ [.subscribe f.id cb, .subscribe f.id cb])
    generalize (step E (run E init (pre ++ [.subscribe f.id cb, .subscribe f.id cb])).1
      (.notify f)).2.calls = cs at h ⊢
    induction cs with
    | nil => simp
    | cons c r ih =>
      simp only [List.map_cons, List.nodup_cons] at h
      simp only [List.filter_cons]
      by_cases hc : c.cb = cb
      · simp only [hc, decide_true, if_true, List.length_cons]
        have : r.filter (fun c => decide (c.cb = cb)) = [] := by
          rw [List.filter_eq_nil_iff]
          intro x hx hxe
          apply h.1
          rw [hc]
          simp only [decide_eq_true_eq] at hxe
          rw [← hxe]
          exact List.mem_map_of_mem hx
        rw [this]
        simp
      · simp only [hc, decide_false, Bool.false_eq_true, if_false]
        exact ih h.2

/-! ## T frame_format -/

/-- An outgoing frame (`send_message`, `PeriodicMessageTask`) carries exactly the given id and
    remote flag, uses the extended format exactly for ids above 0x7FF, and carries exactly the
    given data (python-can keeps no data bytes in a remote frame); `send_message` without a bus
    sends nothing. -/
theorem frame_format (id : Nat) (data : Bytes) (remote : Bool) :
    (∃ m, sendMessage true id data remote = some m ∧ periodicMessage id data remote = m ∧
      m.id = id ∧ m.remote = remote ∧ (m.extended = true ↔ id > 0x7FF) ∧
      (remote = false → m.data = data) ∧ (remote = true → m.data = [])) ∧
    sendMessage false id data remote = none := by
  refine ⟨⟨mkMessage id data remote, rfl, rfl, rfl, rfl, ?_, ?_, ?_⟩, rfl⟩
  · simp [mkMessage]
  · intro h; simp [mkMessage, h]
  · intro h; simp [mkMessage, h]

example : sendMessage true 0x7FF [1, 2] false = some ⟨0x7FF, false, [1, 2], false⟩ ∧
    sendMessage true 0x800 [1, 2] false = some ⟨0x800, true, [1, 2], false⟩ := by decide

/-- A periodic message whose payload is updated any number of times (`PeriodicMessageTask.update`)
    keeps exactly its id, its format and its remote flag, and carries the last payload given. -/
theorem periodic_update_frame (id : Nat) (data : Bytes) (remote : Bool) (ups : List Bytes) :
    let m := ups.foldl periodicUpdate (periodicMessage id data remote)
    m.id = id ∧ m.remote = remote ∧ (m.extended = true ↔ id > 0x7FF) ∧
    (∀ last, ups.getLast? = some last → m.data = last) := by
  have key : ∀ (ups : List Bytes) (m0 : CanMsg),
      (ups.foldl periodicUpdate m0).id = m0.id ∧ (ups.foldl periodicUpdate m0).remote = m0.remote ∧
      (ups.foldl periodicUpdate m0).extended = m0.extended ∧
      (∀ last, ups.getLast? = some last → (ups.foldl periodicUpdate m0).data = last) := by
    intro ups
    induction ups with
    | nil => intro m0; simp
    | cons u us ih =>
      intro m0
      obtain ⟨h1, h2, h3, h4⟩ := ih (periodicUpdate m0 u)
      refine ⟨by simpa [periodicUpdate] using h1, by simpa [periodicUpdate] using h2,
        by simpa [periodicUpdate] using h3, ?_⟩
      intro last hl
      cases us with
      | nil => simp at hl; subst hl; simp [periodicUpdate]
      | cons v vs => exact h4 last (by simpa using hl)
  obtain ⟨h1, h2, h3, h4⟩ := key ups (periodicMessage id data remote)
  refine ⟨by simpa [periodicMessage, mkMessage] using h1, by simpa [periodicMessage, mkMessage] using h2, ?_, h4⟩
  rw [h3]; simp [periodicMessage, mkMessage]

example : ([[3], [4, 5]].foldl periodicUpdate (periodicMessage 0x181 [1] false)) = ⟨0x181, false, [4, 5], false⟩ := by
  decide

/-! ## T listener_filter -/

/-- The bus listener never dispatches an error frame or a remote frame (no callback runs, no
    state changes, the scanner does not see it); every other frame is dispatched exactly like
    `notify(msg.arbitration_id, msg.data, msg.timestamp)`, except that a callback's exception
    does not escape. -/
theorem listener_filter (E : Env) (n : Net) (m : BusMsg) :
    ((m.isError = true ∨ m.isRemote = true) →
        (step E n (.receive m)).1 = n ∧ (step E n (.receive m)).2 = ⟨true, []⟩) ∧
    ((m.isError = false ∧ m.isRemote = false) →
        (step E n (.receive m)).1 = (step E n (.notify ⟨m.id, m.data, m.ts⟩)).1 ∧
        (step E n (.receive m)).2.calls = (step E n (.notify ⟨m.id, m.data, m.ts⟩)).2.calls ∧
        (step E n (.receive m)).2.ok = true) := by
  constructor
  · intro h
    have : (m.isError || m.isRemote) = true := by
      rcases h with h | h <;> simp [h]
    simp [step, receive, this]
  · intro h
    simp [step, receive, h.1, h.2]

/-- what `MessageListener` hands on or decides by: id, data, timestamp, error flag, remote flag -/
def SameFrame (m m' : BusMsg) : Prop :=
  m.id = m'.id ∧ m.data = m'.data ∧ m.ts = m'.ts ∧ m.isError = m'.isError ∧ m.isRemote = m'.isRemote

/-- **Only the error and the remote flag suppress dispatch.**  Two received messages that agree in
    id, data, timestamp, error flag and remote flag are treated alike — same callbacks, same
    arguments, same scanner update — whatever `is_rx` (the echo of an own transmission),
    `is_extended_id`, `is_fd`, `bitrate_switch`, `error_state_indicator`, `dlc` and `channel` say;
    so a data frame with any such attributes is dispatched exactly like the plain
    `notify(id, data, timestamp)` (exceptions of callbacks not escaping). -/
theorem listener_flags_irrelevant (E : Env) (n : Net) (m m' : BusMsg) (h : SameFrame m m') :
    step E n (.receive m) = step E n (.receive m') ∧
    ((m.isError = false ∧ m.isRemote = false) →
      (step E n (.receive m)).1 = (step E n (.notify ⟨m'.id, m'.data, m'.ts⟩)).1 ∧
      (step E n (.receive m)).2.calls = (step E n (.notify ⟨m'.id, m'.data, m'.ts⟩)).2.calls) := by
  obtain ⟨h1, h2, h3, h4, h5⟩ := h
  constructor
  · simp only [step, receive, h1, h2, h3, h4, h5]
  · intro hd
    rw [← h1, ← h2, ← h3]
    simp [step, receive, hd.1, hd.2]

/-- the echo of an own transmission on a flexible-data-rate bus, with a dlc that is not the data
    length, reaches the subscribed callback like any data frame -/
example :
    let E : Env := ⟨fun _ => 1, fun _ => false, fun _ => false⟩
    let n := (run E init [.subscribe 0x123 (.user 0)]).1
    SameFrame { id := 0x123, data := [4, 5, 6], ts := 11, isError := false, isRemote := false,
                isRx := false, isFd := true, brs := true, dlc := 15, channel := 2 }
              { id := 0x123, data := [4, 5, 6], ts := 11, isError := false, isRemote := false } ∧
    (step E n (.receive { id := 0x123, data := [4, 5, 6], ts := 11, isError := false,
                          isRemote := false, isRx := false, isFd := true, brs := true, dlc := 15,
                          channel := 2 })).2.calls = [⟨.user 0, 0x123, [4, 5, 6], 11⟩] := by
  exact ⟨⟨rfl, rfl, rfl, rfl, rfl⟩, by decide⟩

/-! ## T scanner, T scanner_in_network -/

/-- the 2 048 11-bit ids, evaluated in the kernel (two halves to keep each fact small) -/
theorem scan_table_lo : (List.range' 0 1024).all
    (fun id => scanNodeOf id == ConnectionSet.nodeOf ConnectionSet.txServices id) = true := by
  decide +kernel

theorem scan_table_hi : (List.range' 1024 1024).all
    (fun id => scanNodeOf id == ConnectionSet.nodeOf ConnectionSet.txServices id) = true := by
  decide +kernel

theorem scanNodeOf_small (id : Nat) (h : id < 2048) :
    scanNodeOf id = ConnectionSet.nodeOf ConnectionSet.txServices id := by
  by_cases hlo : id < 1024
  · have := List.all_eq_true.mp scan_table_lo id (List.mem_range'_1.mpr ⟨by omega, by omega⟩)
    simpa using this
  · have := List.all_eq_true.mp scan_table_hi id (List.mem_range'_1.mpr ⟨by omega, by omega⟩)
    simpa using this

/-- the generated `NodeScanner.SERVICES` are, as a set, the transmit services of the predefined
    connection set -/
theorem services_match : ∀ s, s ∈ SERVICES ↔ s ∈ ConnectionSet.txServices := by
  intro s
  simp only [SERVICES, ConnectionSet.txServices, List.mem_cons, List.not_mem_nil, or_false]
  omega

/-- the code's mask arithmetic over the generated `SERVICES` is the predefined connection set's
    "function code base + node id", for **every** CAN id (11-bit ids by kernel evaluation of all
    2 048, larger ids are ignored by both) -/
theorem scanNodeOf_eq (id : Nat) :
    scanNodeOf id = ConnectionSet.nodeOf ConnectionSet.txServices id := by
  by_cases h : id ≤ 0x7FF
  · exact scanNodeOf_small id (by omega)
  · simp [scanNodeOf, ConnectionSet.nodeOf, h]

theorem ite_some_iff {c : Prop} [Decidable c] (a b : Nat) :
    (if c then some a else none) = some b ↔ c ∧ a = b := by
  by_cases h : c <;> simp [h]

theorem ite_none_iff {c : Prop} [Decidable c] (a : Nat) :
    (if c then some a else none) = none ↔ ¬ c := by
  by_cases h : c <;> simp [h]

set_option maxRecDepth 4000 in
/-- what the spec's `nodeOf` says, in the property's words -/
theorem nodeOf_iff (id n : Nat) :
    ConnectionSet.nodeOf ConnectionSet.txServices id = some n ↔
      id ≤ 0x7FF ∧ 1 ≤ n ∧ n ≤ 127 ∧ ∃ s ∈ ConnectionSet.txServices, id = s + n := by
  simp only [ConnectionSet.nodeOf, ConnectionSet.txServices, List.findSome?_cons,
    List.findSome?_nil, List.mem_cons, List.not_mem_nil, or_false, exists_eq_or_imp,
    exists_eq_left]
  constructor
  · intro h
    repeat' split at h
    all_goals simp only [ite_some_iff, ite_none_iff, Option.some.injEq, reduceCtorEq] at *
    all_goals omega
  · intro h
    repeat' split
    all_goals simp only [ite_some_iff, ite_none_iff, Option.some.injEq, reduceCtorEq] at *
    all_goals omega

theorem scanFeed_eq (acc ids : List Nat) :
    scanFeed acc ids =
      acc ++ (ConnectionSet.dedup (ids.filterMap scanNodeOf)).filter (fun x => decide (x ∉ acc)) := by
  induction ids generalizing acc with
  | nil => simp [scanFeed, ConnectionSet.dedup]
  | cons id r ih =>
    simp only [scanFeed, scanStep]
    rw [ih]
    cases hf : scanNodeOf id with
    | none => simp [hf]
    | some n =>
      simp only [List.filterMap_cons, hf, ConnectionSet.dedup]
      by_cases hn : n ∈ acc
      · simp only [hn, if_true, List.filter_cons, not_true_eq_false, decide_false,
          Bool.false_eq_true, if_false, List.filter_filter]
        congr 1
        apply List.filter_congr
        intro x _
        by_cases hx : x ∈ acc
        · simp [hx]
        · have : x ≠ n := fun e => hx (e ▸ hn)
          simp [hx, this]
      · simp only [hn, if_false, List.filter_cons, not_false_eq_true, decide_true, if_true,
          List.filter_filter, List.append_assoc, List.singleton_append]
        congr 2
        apply List.filter_congr
        intro x _
        by_cases hx : x ∈ acc
        · simp [hx]
        · by_cases hxn : x = n
          · simp [hxn, hn]
          · simp [hx, hxn]

theorem mem_dedup (l : List Nat) (x : Nat) : x ∈ ConnectionSet.dedup l ↔ x ∈ l := by
  induction l with
  | nil => simp [ConnectionSet.dedup]
  | cons a r ih =>
    simp only [ConnectionSet.dedup, List.mem_cons, List.mem_filter, ih]
    by_cases h : x = a <;> simp [h]

theorem nodup_dedup (l : List Nat) : (ConnectionSet.dedup l).Nodup := by
  induction l with
  | nil => simp [ConnectionSet.dedup]
  | cons a r ih =>
    simp only [ConnectionSet.dedup, List.nodup_cons, List.mem_filter]
    refine ⟨by simp, ?_⟩
    exact List.Nodup.sublist List.filter_sublist ih

/-- **Scanner.**  For every sequence of received CAN ids (any ids, 11- or 29-bit), a fresh
    scanner lists exactly the first occurrences, in order, of the node ids named by ids of the
    predefined connection set: each node id once; `n` is listed iff some received id is an 11-bit
    id `s + n` with `s` a transmit service and `1 ≤ n ≤ 127`; ids above 0x7FF never list
    anything. -/
theorem scanner (ids : List Nat) :
    scanFeed [] ids = ConnectionSet.scanned ConnectionSet.txServices ids ∧
    (scanFeed [] ids).Nodup ∧
    (∀ n, n ∈ scanFeed [] ids ↔
      ∃ id ∈ ids, id ≤ 0x7FF ∧ 1 ≤ n ∧ n ≤ 127 ∧ ∃ s ∈ ConnectionSet.txServices, id = s + n) := by
  have h1 : scanFeed [] ids = ConnectionSet.scanned ConnectionSet.txServices ids := by
    rw [scanFeed_eq]
    have : scanNodeOf = ConnectionSet.nodeOf ConnectionSet.txServices := funext scanNodeOf_eq
    simp only [this, ConnectionSet.scanned, List.nil_append, List.not_mem_nil, not_false_eq_true,
      decide_true]
    exact filter_all _
  refine ⟨h1, ?_, ?_⟩
  · rw [h1]; exact nodup_dedup _
  · intro n
    rw [h1, ConnectionSet.scanned, mem_dedup, List.mem_filterMap]
    constructor
    · rintro ⟨id, hid, hn⟩
      exact ⟨id, hid, (nodeOf_iff id n).mp hn⟩
    · rintro ⟨id, hid, hn⟩
      exact ⟨id, hid, (nodeOf_iff id n).mpr hn⟩

example : scanFeed [] [0x701, 0x10000702, 0x583, 0x701, 0x80, 0x603, 0x181] = [1, 3] := by decide

/-- CAN ids the scanner has been shown since its last `reset`, in order: the frames whose
    dispatch completed (a raising callback ends `notify` before the scanner is reached) -/
def shown (E : Env) : Net → List Op → List Nat → List Nat
  | _, [], acc => acc
  | n, op :: r, acc =>
    shown E (step E n op).1 r
      (match op with
       | .scanReset => []
       | .notify f => if (notify E n f).2.ok then acc ++ [f.id] else acc
       | .receive m =>
         if !(m.isError || m.isRemote) && (notify E n ⟨m.id, m.data, m.ts⟩).2.ok
         then acc ++ [m.id] else acc
       | _ => acc)

theorem scanFeed_append (acc a b : List Nat) :
    scanFeed acc (a ++ b) = scanFeed (scanFeed acc a) b := by
  induction a generalizing acc with
  | nil => rfl
  | cons x r ih => simp [scanFeed, ih]

theorem notify_scan (E : Env) (n : Net) (f : Frame) :
    (notify E n f).1.scan = if (notify E n f).2.ok then scanStep n.scan f.id else n.scan := by
  unfold notify
  simp only []
  split <;> simp

theorem setNode_scan (E : Env) (n : Net) (o : Nat) : (setNode E n o).1.scan = n.scan := by
  unfold setNode
  split
  · dsimp only
    split <;> rfl
  · rfl

theorem delNode_scan (E : Env) (n : Net) (nid : Nat) : (delNode E n nid).1.scan = n.scan := by
  unfold delNode
  split
  · rfl
  · dsimp only
    split <;> rfl

theorem addSdo_scan (E : Env) (n : Net) (o tx : Nat) : (addSdo E n o tx).1.scan = n.scan := by
  unfold addSdo
  split <;> rfl

/-- the mapping mix-ins do not touch the scanner -/
theorem composite_scan (E : Env) (n : Net) (op : Op) (hop : ¬ Basic op) :
    (step E n op).1.scan = n.scan := by
  refine step_lift E (fun m => m.scan = n.scan)
    (fun x => (∃ o, x = .setNode o) ∨ ∃ k, x = .delNode k) ?_ n op ?_ rfl
  · intro m x _ hx hm
    rcases hx with ⟨o, rfl⟩ | ⟨k, rfl⟩
    · simp only [step]; rw [setNode_scan]; exact hm
    · simp only [step]; rw [delNode_scan]; exact hm
  · exact fun x hx => itemOps_composite E n op x hop hx

theorem shown_scan (E : Env) (ops : List Op) (n : Net) (acc : List Nat)
    (h : n.scan = scanFeed [] acc) :
    (run E n ops).1.scan = scanFeed [] (shown E n ops acc) := by
  induction ops generalizing n acc with
  | nil => exact h
  | cons op r ih =>
    simp only [run, shown]
    apply ih
    cases op with
    | subscribe id cb => exact h
    | unsubscribe id cb =>
      simp only [step]
      split <;> exact h
    | setNode o => simp only [step]; rw [setNode_scan]; exact h
    | delNode nid => simp only [step]; rw [delNode_scan]; exact h
    | addSdo o tx => simp only [step]; rw [addSdo_scan]; exact h
    | notify f =>
      simp only [step]
      rw [notify_scan]
      split
      · rw [scanFeed_append, ← h]; rfl
      · exact h
    | receive m =>
      simp only [step, receive]
      by_cases hf : (m.isError || m.isRemote) = true
      · simp only [hf, if_true, Bool.not_true, Bool.false_and, Bool.false_eq_true, if_false]
        exact h
      · simp only [hf, Bool.false_eq_true, if_false, Bool.not_false, Bool.true_and]
        rw [notify_scan]
        split
        · rw [scanFeed_append, ← h]; rfl
        · exact h
    | scanReset => rfl
    | popNode nid d => rw [composite_scan E n _ (by simp [Basic])]; exact h
    | popItem => rw [composite_scan E n _ (by simp [Basic])]; exact h
    | clear => rw [composite_scan E n _ (by simp [Basic])]; exact h
    | update os => rw [composite_scan E n _ (by simp [Basic])]; exact h
    | setDefault o => rw [composite_scan E n _ (by simp [Basic])]; exact h

/-- **Scanner inside the network.**  After any history on a fresh network, `scanner.nodes` is
    the spec's list for the CAN ids of the frames dispatched (completely) since the last
    `scanner.reset()`. -/
theorem scanner_in_network (E : Env) (pre : List Op) :
    (run E init pre).1.scan =
      ConnectionSet.scanned ConnectionSet.txServices (shown E init pre []) := by
  rw [shown_scan E pre init [] rfl]
  exact (scanner _).1

/-! ## T removed_node_silent -/

/-- no bound method of node object `o` is subscribed anywhere -/
def Silent (o : Nat) (n : Net) : Prop := ∀ id h, Cb.node o h ∉ abs n.subs id

theorem silent_of_unregistered (E : Env) (n : Net) (o : Nat) (hI : Inv E n)
    (hu : n.nodes (E.nid o) ≠ some o) : Silent o n :=
  fun id h hm => hu (hI.owned id o h hm).1

theorem unregistered_step_basic (E : Env) (n : Net) (op : Op) (o : Nat) (hb : Basic op)
    (hu : n.nodes (E.nid o) ≠ some o) (hop : op ≠ .setNode o) :
    (step E n op).1.nodes (E.nid o) ≠ some o := by
  cases op with
  | popNode nid d => simp only [Basic] at hb
  | popItem => simp only [Basic] at hb
  | clear => simp only [Basic] at hb
  | update os => simp only [Basic] at hb
  | setDefault o => simp only [Basic] at hb
  | subscribe id cb => exact hu
  | unsubscribe id cb =>
    simp only [step]
    split <;> exact hu
  | setNode o' =>
    have hne : o' ≠ o := fun e => hop (by rw [e])
    have hset : setNodes n.nodes (E.nid o') (some o') (E.nid o) ≠ some o := by
      simp only [setNodes]
      split
      · simp [hne]
      · exact hu
    simp only [step, setNode]
    split
    · split
      · exact hset
      · exact hu
    · exact hset
  | delNode nid =>
    simp only [step, delNode]
    split
    · exact hu
    · split
      · simp only [setNodes]
        split
        · simp
        · exact hu
      · exact hu
  | addSdo o' tx =>
    simp only [step, addSdo]
    split <;> exact hu
  | notify f => simp only [step]; rw [(notify_frame E n f).2.1]; exact hu
  | receive m => simp only [step]; rw [(receive_frame E n m).2.1]; exact hu
  | scanReset => exact hu

/-- an object that is not in the network stays out under every operation that does not name it
    (`network[o.id] = o`, `add_node(o)`, `update` with `o` among the items, `setdefault(o.id, o)`) -/
theorem unregistered_step (E : Env) (n : Net) (op : Op) (o : Nat)
    (hu : n.nodes (E.nid o) ≠ some o) (hop : ¬ Adds o op) :
    (step E n op).1.nodes (E.nid o) ≠ some o := by
  refine step_lift E (fun m => m.nodes (E.nid o) ≠ some o) (fun x => x ≠ .setNode o)
    (fun m x hb hx hm => unregistered_step_basic E m x o hb hm hx) n op ?_ hu
  intro x hx
  rcases itemOps_mem E n op x hx with ⟨rfl, _⟩ | ⟨o', rfl, ha⟩ | ⟨k, rfl⟩
  · intro e
    subst e
    exact hop rfl
  · intro e
    cases e
    exact hop ha
  · intro e
    cases e

theorem unregistered_run (E : Env) (ops : List Op) (n : Net) (o : Nat)
    (hu : n.nodes (E.nid o) ≠ some o) (hops : ∀ op ∈ ops, ¬ Adds o op) :
    (run E n ops).1.nodes (E.nid o) ≠ some o := by
  induction ops generalizing n with
  | nil => exact hu
  | cons op r ih =>
    simp only [run]
    exact ih _ (unregistered_step E n op o hu (hops op (by simp)))
      (fun x hx => hops x (by simp [hx]))

/-- the ways the `Network` mapping takes the node object `o` filed under `nid` out of the network
    in state `n`: `del network[nid]`, `pop(nid)`, `pop(nid, default)`, `popitem()` when `nid` is the
    first id of the iteration, `clear()` (when it leaves `nid` behind — it swallows a `KeyError` —
    the node is still in the network and nothing is claimed), `network[nid] = o'` / `add_node(o')`
    for another object, `update` with another object for `nid` and without `o` -/
def Removes (E : Env) (n : Net) (nid o : Nat) : Op → Prop
  | .delNode k => k = nid
  | .popNode k _ => k = nid
  | .popItem => n.keys.head? = some nid
  | .clear => nid ∉ (step E n .clear).1.keys
  | .setNode o' => E.nid o' = nid ∧ o' ≠ o
  | .update os => (∃ o' ∈ os, E.nid o' = nid) ∧ o ∉ os
  | _ => False

theorem delNode_unregisters (E : Env) (n : Net) (o nid : Nat)
    (hok : (delNode E n nid).2 = true) : (delNode E n nid).1.nodes nid ≠ some o := by
  rw [((delNode_table E n nid).1 hok).1]
  simp [setNodes]

/-- a removal / replacement that returns normally takes the old object out of `Network.nodes` -/
theorem removal_unregisters (E : Env) (n : Net) (hI : Inv E n) (hK : KeysInv n) (op : Op)
    (o nid : Nat) (hreg : n.nodes nid = some o) (hop : Removes E n nid o op)
    (hok : (step E n op).2.ok = true) :
    (step E n op).1.nodes (E.nid o) ≠ some o := by
  have hk : E.nid o = nid := hI.keyed nid o hreg
  rw [hk]
  cases op with
  | subscribe id cb => simp only [Removes] at hop
  | unsubscribe id cb => simp only [Removes] at hop
  | addSdo o' tx => simp only [Removes] at hop
  | notify f => simp only [Removes] at hop
  | receive m => simp only [Removes] at hop
  | scanReset => simp only [Removes] at hop
  | setDefault o' => simp only [Removes] at hop
  | delNode k =>
    simp only [Removes] at hop
    subst hop
    exact delNode_unregisters E n o k hok
  | popNode k d =>
    simp only [Removes] at hop
    subst hop
    simp only [step, popNode, hreg] at hok ⊢
    exact delNode_unregisters E n o k hok
  | popItem =>
    simp only [Removes] at hop
    cases hks : n.keys with
    | nil => simp [hks] at hop
    | cons k r =>
      simp only [hks, List.head?_cons, Option.some.injEq] at hop
      subst hop
      simp only [step, popItem, hks] at hok ⊢
      exact delNode_unregisters E n o k hok
  | clear =>
    simp only [Removes] at hop
    have hK' := keysInv_step E n .clear hK
    intro e
    exact hop ((hK'.mem nid).mpr (by rw [e]; simp))
  | setNode o' =>
    obtain ⟨hn, hne⟩ := hop
    simp only [step] at hok ⊢
    rw [((setNode_table E n o').1 hok).1, hn]
    simp [setNodes, hne]
  | update os =>
    obtain ⟨hex, hno⟩ := hop
    simp only [step] at hok ⊢
    obtain ⟨o'', ho'', hn⟩ := updateNodes_nodes E os n nid hok hex
    rw [hn]
    intro e
    simp only [Option.some.injEq] at e
    exact hno (e ▸ ho'')

theorem calls_subset (E : Env) (n : Net) (f : Frame) :
    ∀ c ∈ (notify E n f).2.calls, c.cb ∈ abs n.subs f.id := by
  intro c hc
  rw [(notify_calls E n f).1] at hc
  have h := (throughFirst_sublist _ _).subset hc
  simp only [Multimap.deliver, List.mem_map] at h
  obtain ⟨cb, hcb, rfl⟩ := h
  exact hcb

/-- **A node that is not in the network hears nothing.**  After *any* history on a fresh network —
    subscribe, unsubscribe, `network[id] = node`, `add_node`, `del`, `pop`, `popitem`, `clear`,
    `update`, `setdefault`, `add_sdo`, frames — in which nobody subscribed a node's bound method by
    hand: for every node object `o` that is not what the network holds under `o`'s node id
    (`network.get(o.id) is not o`: never added, removed, or replaced), no frame — through `notify`
    or through the bus listener — reaches any of the SDO, heartbeat, EMCY or NMT handlers of `o`. -/
theorem absent_node_silent (E : Env) (hist : List Op) (o : Nat)
    (hh : ∀ x ∈ hist, NoManualNodeSub x)
    (habs : (run E init hist).1.nodes (E.nid o) ≠ some o) :
    (∀ f, ∀ c ∈ (step E (run E init hist).1 (.notify f)).2.calls, ∀ h, c.cb ≠ .node o h) ∧
    (∀ m, ∀ c ∈ (step E (run E init hist).1 (.receive m)).2.calls, ∀ h, c.cb ≠ .node o h) := by
  have hI : Inv E (run E init hist).1 := inv_run E hist init (inv_init E) hh
  have hs := silent_of_unregistered E _ o hI habs
  have key : ∀ f, ∀ c ∈ (notify E (run E init hist).1 f).2.calls, ∀ h, c.cb ≠ .node o h := by
    intro f c hc h e
    exact hs f.id h (e ▸ calls_subset E _ f c hc)
  refine ⟨key, ?_⟩
  intro m c hc
  simp only [step, receive] at hc
  split at hc
  · simp at hc
  · exact key _ c hc

/-- **The node table is coherent.**  After any history, the iteration over the network lists every
    node id that holds a node exactly once (`len`, `in`, `keys()` agree with `network[id]`). -/
theorem node_table_coherent (E : Env) (hist : List Op) :
    (run E init hist).1.keys.Nodup ∧
    (∀ nid, nid ∈ (run E init hist).1.keys ↔ (run E init hist).1.nodes nid ≠ none) :=
  let h := keysInv_run E hist init keysInv_init
  ⟨h.nodup, h.mem⟩

/-- **Removed or replaced nodes are silent.**  Take any history `pre` on a fresh network in which
    nobody subscribed a node's bound method by hand, after which node object `o` is registered
    under `nid`; then *any* of the ways the mapping API removes or replaces it (`Removes`:
    `del network[nid]`, `pop(nid)`, `pop(nid, default)`, `popitem()` with `nid` first in the
    iteration, `clear()` after which `nid` is no longer listed, `network[nid] = o'` / `add_node(o')`
    / `update` with another object for `nid`) that *returns normally*; then any further history
    `post` in which `o` is not added again (and again nobody subscribes node methods by hand).
    Then no frame — through `notify` or through the bus listener — ever reaches any of the SDO,
    heartbeat, EMCY or NMT handlers of `o`. -/
theorem removed_node_silent (E : Env) (pre post : List Op) (op : Op) (o nid : Nat)
    (hpre : ∀ x ∈ pre, NoManualNodeSub x)
    (hpost : ∀ x ∈ post, NoManualNodeSub x ∧ ¬ Adds o x)
    (hreg : (run E init pre).1.nodes nid = some o)
    (hop : Removes E (run E init pre).1 nid o op)
    (hok : (step E (run E init pre).1 op).2.ok = true) :
    (∀ f, ∀ c ∈ (step E (run E init (pre ++ op :: post)).1 (.notify f)).2.calls,
        ∀ h, c.cb ≠ .node o h) ∧
    (∀ m, ∀ c ∈ (step E (run E init (pre ++ op :: post)).1 (.receive m)).2.calls,
        ∀ h, c.cb ≠ .node o h) := by
  have hI0 : Inv E (run E init pre).1 := inv_run E pre init (inv_init E) hpre
  have hK0 : KeysInv (run E init pre).1 := keysInv_run E pre init keysInv_init
  have hopm : NoManualNodeSub op := by
    cases op <;> first | trivial | (simp only [Removes] at hop)
  have hu1 := removal_unregisters E _ hI0 hK0 op o nid hreg hop hok
  have hst : (run E init (pre ++ op :: post)).1 = (run E (step E (run E init pre).1 op).1 post).1 := by
    rw [run_app]; rfl
  apply absent_node_silent
  · intro x hx
    rcases List.mem_append.mp hx with hx | hx
    · exact hpre x hx
    · rcases List.mem_cons.mp hx with rfl | hx
      · exact hopm
      · exact (hpost x hx).1
  · rw [hst]
    exact unregistered_run E post _ o hu1 (fun x hx => (hpost x hx).2)

/-- `clear()` needs no more than one `popitem()` per node and one to find the network empty -/
theorem clear_fuel (E : Env) (n : Net) (extra : Nat) :
    clearLoop E (n.keys.length + 1 + extra) n = clearNodes E n := by
  have key : ∀ (len : Nat) (n : Net), n.keys.length = len → ∀ f1 f2, len < f1 → len < f2 →
      clearLoop E f1 n = clearLoop E f2 n := by
    intro len
    induction len with
    | zero =>
      intro n hl f1 f2 h1 h2
      have hk : n.keys = [] := List.length_eq_zero_iff.mp hl
      obtain ⟨a, rfl⟩ : ∃ a, f1 = a + 1 := ⟨f1 - 1, by omega⟩
      obtain ⟨b, rfl⟩ : ∃ b, f2 = b + 1 := ⟨f2 - 1, by omega⟩
      simp [clearLoop, popItem, hk]
    | succ len ih =>
      intro n hl f1 f2 h1 h2
      obtain ⟨a, rfl⟩ : ∃ a, f1 = a + 1 := ⟨f1 - 1, by omega⟩
      obtain ⟨b, rfl⟩ : ∃ b, f2 = b + 1 := ⟨f2 - 1, by omega⟩
      cases hk : n.keys with
      | nil => simp [hk] at hl
      | cons k r =>
        by_cases hok : (delNode E n k).2 = true
        · simp only [clearLoop, popItem, hk, hok, if_true]
          apply ih
          · rw [((delNode_table E n k).1 hok).2.1, hk]
            simp only [List.erase_cons_head]
            simpa [hk] using hl
          · omega
          · omega
        · simp [clearLoop, popItem, hk, hok]
  exact key _ n rfl _ _ (by omega) (by omega)

/-- `clear()` = `popitem()` until the network is empty: it ends with an empty network unless one
    of its `del network[k]` raised (and then stops right there) -/
theorem clear_stops_only_on_failure (E : Env) (n : Net) :
    (clearNodes E n).1.keys = [] ∨
    ∃ m k, m.keys.head? = some k ∧ (delNode E m k).2 = false ∧
      (clearNodes E n).1 = (delNode E m k).1 := by
  have key : ∀ (len : Nat) (n : Net), n.keys.length = len → ∀ f, len < f →
      (clearLoop E f n).1.keys = [] ∨
      ∃ m k, m.keys.head? = some k ∧ (delNode E m k).2 = false ∧
        (clearLoop E f n).1 = (delNode E m k).1 := by
    intro len
    induction len with
    | zero =>
      intro n hl f h
      have hk : n.keys = [] := List.length_eq_zero_iff.mp hl
      obtain ⟨a, rfl⟩ : ∃ a, f = a + 1 := ⟨f - 1, by omega⟩
      left
      simp [clearLoop, popItem, hk]
    | succ len ih =>
      intro n hl f h
      obtain ⟨a, rfl⟩ : ∃ a, f = a + 1 := ⟨f - 1, by omega⟩
      cases hk : n.keys with
      | nil => simp [hk] at hl
      | cons k r =>
        by_cases hok : (delNode E n k).2 = true
        · simp only [clearLoop, popItem, hk, hok, if_true]
          apply ih
          · rw [((delNode_table E n k).1 hok).2.1, hk]
            simp only [List.erase_cons_head]
            simpa [hk] using hl
          · omega
        · right
          refine ⟨n, k, by simp [hk], by simpa using hok, ?_⟩
          simp [clearLoop, popItem, hk, hok]
  exact key _ n rfl _ (by omega)

/-- the hypotheses are satisfiable: a remote node is added, replaced by a local one, and its
    heartbeat handler is gone while the user's callback still sees the frame -/
example :
    let E : Env := ⟨fun _ => 1, fun o => o == 1, fun _ => false⟩
    let pre : List Op := [.subscribe 0x701 (.user 0), .setNode 0, .addSdo 0 0x5C1]
    (run E init pre).1.nodes 1 = some 0 ∧
    (step E (run E init pre).1 (.setNode 1)).2.ok = true ∧
    (step E (run E init pre).1 (.notify ⟨0x701, [5], 1⟩)).2.calls.map (·.cb) =
      [.user 0, .node 0 .heartbeat] ∧
    (step E (run E init (pre ++ [.setNode 1])).1 (.notify ⟨0x701, [5], 2⟩)).2.calls.map (·.cb) =
      [.user 0] := by decide

/-- why "returns normally" is needed: if the user removed *all* callbacks of CAN id 0,
    `remove_network` raises half-way (after the SDO, heartbeat and EMCY handlers are gone); with a
    node whose removal raises at its first call, the old handlers stay subscribed -/
example :
    let E : Env := ⟨fun _ => 1, fun _ => false, fun _ => false⟩
    let pre : List Op := [.setNode 0, .unsubscribe 0x581 none]
    (step E (run E init pre).1 (.delNode 1)).2.ok = false ∧
    (step E (run E init (pre ++ [.delNode 1])).1 (.notify ⟨0x701, [5], 2⟩)).2.calls.map (·.cb) =
      [.node 0 .heartbeat] := by decide

/-- `clear()`: two nodes (remote 5, local 6) leave at once; `popitem()` takes the first of the
    iteration; `update` replaces; the hypotheses of `removed_node_silent` hold for each -/
example :
    let E : Env := ⟨fun o => if o == 1 then 6 else 5, fun o => o == 1 || o == 2, fun _ => false⟩
    let pre : List Op := [.subscribe 0x705 (.user 0), .setNode 0, .setNode 1]
    let s := (run E init pre).1
    s.nodes 5 = some 0 ∧ s.keys = [5, 6] ∧
    Removes E s 5 0 .clear ∧ Removes E s 6 1 .clear ∧ (step E s .clear).2.ok = true ∧
    Removes E s 5 0 .popItem ∧ (step E s .popItem).2.ok = true ∧
    Removes E s 5 0 (.popNode 5 true) ∧ Removes E s 5 0 (.update [1, 2]) ∧
    (step E s (.update [1, 2])).2.ok = true ∧
    (step E s (.notify ⟨0x705, [5], 1⟩)).2.calls.map (·.cb) = [.user 0, .node 0 .heartbeat] ∧
    (step E (run E init (pre ++ [.clear])).1 (.notify ⟨0x705, [5], 2⟩)).2.calls.map (·.cb) =
      [.user 0] ∧
    (step E (run E init (pre ++ [.clear])).1 (.notify ⟨0x606, [0x40], 3⟩)).2.calls = [] ∧
    (step E (run E init (pre ++ [.update [1, 2]])).1 (.notify ⟨0x605, [0x40], 3⟩)).2.calls.map
      (·.cb) = [.node 2 .sdoRequest] := by
  refine ⟨by decide, by decide, ?_, ?_, by decide, ?_, by decide, rfl, ?_, by decide,
    by decide, by decide, by decide, by decide⟩
  · show (5 : Nat) ∉ _
    decide
  · show (6 : Nat) ∉ _
    decide
  · show List.head? _ = some 5
    decide
  · exact ⟨⟨2, by decide, by decide⟩, by decide⟩

/-- why `clear()` is only claimed for the ids it no longer lists: it swallows the `KeyError` of a
    removal that stopped half-way (the user had dropped *all* callbacks of CAN id 0) and returns
    normally with the node still in the network -/
example :
    let E : Env := ⟨fun _ => 5, fun _ => false, fun _ => false⟩
    let pre : List Op := [.setNode 0, .unsubscribe 0 none]
    (step E (run E init pre).1 .clear).2.ok = true ∧
    (step E (run E init pre).1 .clear).1.keys = [5] ∧
    (step E (run E init pre).1 .clear).1.nodes 5 = some 0 := by decide
end Canopen.C10
