/-
C10 — Frames reach exactly the handlers subscribed at that moment.

Property theorems about `CanopenModel/Net/Network.lean` (model of `Network.subscribe /
unsubscribe / notify / __setitem__ / __delitem__ / send_message`, `PeriodicMessageTask`,
`MessageListener`, `NodeScanner`, `RemoteNode/LocalNode.associate_network / remove_network`,
`RemoteNode.add_sdo`) with the **generated** (de)registration call lists, against the specs
`Spec/Multimap.lean` and `Spec/ConnectionSet.lean`.  Every statement quantifies over all
histories (lists of operations of any length), all environments (node objects, which callbacks
raise), all CAN ids / data / timestamps.  Helper lemmas: `Lemmas/Network.lean`.
-/
import CanopenProofs.Lemmas.Network

namespace Canopen.C10
open Canopen Canopen.Net Canopen.Gen.Network
open Canopen.Spec
open Canopen.Spec.Multimap (MM Prim Call activeStep Active)

/-! ## T refines_multimap -/

/-- prefix of `l` up to and including the first element satisfying `p` -/
def throughFirst {α : Type} (p : α → Bool) : List α → List α
  | [] => []
  | a :: r => if p a then [a] else a :: throughFirst p r

theorem invoked_map (raises : Cb → Bool) (id : Nat) (data : Bytes) (ts : Nat) (l : List Cb) :
    (invoked raises l).map (fun cb => (⟨cb, id, data, ts⟩ : Call Cb)) =
      throughFirst (fun c => raises c.cb) (l.map fun cb => ⟨cb, id, data, ts⟩) := by
  induction l with
  | nil => rfl
  | cons c r ih =>
    simp only [invoked, List.map_cons, throughFirst]
    by_cases h : raises c = true
    · simp [h]
    · simp [h, ih]

theorem throughFirst_none {α : Type} (p : α → Bool) (l : List α) (h : ∀ a ∈ l, p a = false) :
    throughFirst p l = l := by
  induction l with
  | nil => rfl
  | cons a r ih =>
    have ha : p a = false := h a (by simp)
    simp only [throughFirst, ha, Bool.false_eq_true, if_false]
    rw [ih (fun b hb => h b (by simp [hb]))]

theorem throughFirst_sublist {α : Type} (p : α → Bool) (l : List α) :
    (throughFirst p l).Sublist l := by
  induction l with
  | nil => exact List.Sublist.refl _
  | cons a r ih =>
    simp only [throughFirst]
    split
    · simp
    · exact ih.cons_cons a

/-- the multimap the spec holds after the history `pre` on a fresh `Network` -/
def specAfter (E : Env) (pre : List Op) : MM Cb :=
  Multimap.run specInit (trace E init pre)

theorem abs_after (E : Env) (pre : List Op) :
    abs (run E init pre).1.subs = specAfter E pre := by
  rw [run_abs, abs_init]
  rfl

theorem notify_calls (E : Env) (n : Net) (f : Frame) :
    (notify E n f).2.calls =
      throughFirst (fun c => E.raises c.cb) (Multimap.deliver (abs n.subs) f.id f.data f.ts) ∧
    ((notify E n f).2.ok = true ↔ ∀ cb ∈ abs n.subs f.id, E.raises cb = false) := by
  unfold notify
  simp only [Multimap.deliver, abs]
  constructor
  · split <;> exact invoked_map _ _ _ _ _
  · split
    · rename_i h
      simp only [Bool.false_eq_true, false_iff]
      intro hall
      simp only [List.any_eq_true] at h
      obtain ⟨c, hc, hr⟩ := h
      rw [hall c hc] at hr
      exact absurd hr (by simp)
    · rename_i h
      simp only [true_iff]
      intro cb hcb
      simp only [List.any_eq_true, not_exists, not_and] at h
      simpa using h cb hcb

/-- **Refinement.**  After *any* history `pre` on a fresh network, a received frame `f` invokes
    the callbacks of the spec multimap's list for `f.id` — the multimap obtained by replaying the
    primitive subscribe/unsubscribe calls the history made — each with the frame's own id, data
    and timestamp, in list order, stopping after the first callback that raises; that list has
    no duplicates; and when no subscribed callback raises the invocations are exactly
    `deliver` (every subscribed callback, once, in subscription order) and `notify` returns
    normally. -/
theorem refines_multimap (E : Env) (pre : List Op) (f : Frame) :
    let out := (step E (run E init pre).1 (.notify f)).2
    let m := specAfter E pre
    out.calls = throughFirst (fun c => E.raises c.cb) (Multimap.deliver m f.id f.data f.ts)
    ∧ (m f.id).Nodup
    ∧ (out.ok = true ↔ ∀ cb ∈ m f.id, E.raises cb = false)
    ∧ ((∀ cb ∈ m f.id, E.raises cb = false) →
        out.calls = Multimap.deliver m f.id f.data f.ts) := by
  intro out m
  have h := notify_calls E (run E init pre).1 f
  rw [abs_after] at h
  refine ⟨h.1, ?_, h.2, ?_⟩
  · exact nodupAll_run _ nodupAll_specInit _ f.id
  · intro hall
    show (notify E (run E init pre).1 f).2.calls = _
    rw [h.1]
    apply throughFirst_none
    intro c hc
    simp only [Multimap.deliver, List.mem_map] at hc
    obtain ⟨cb, hcb, rfl⟩ := hc
    exact hall cb hcb

/-- the output a history records for an operation is the one `refines_multimap` talks about -/
theorem output_in_history (E : Env) (pre post : List Op) (op : Op) :
    (run E init (pre ++ op :: post)).2[pre.length]? = some (step E (run E init pre).1 op).2 := by
  rw [run_app]
  simp only [run]
  have hl : (run E init pre).2.length = pre.length := by
    generalize init = n
    induction pre generalizing n with
    | nil => rfl
    | cons o r ih => simp [run, ih]
  rw [List.getElem?_append_right (by omega)]
  simp [hl]

example : (step ⟨fun _ => 1, fun _ => false, fun _ => false⟩
    (run ⟨fun _ => 1, fun _ => false, fun _ => false⟩ init
      [.subscribe 0x701 (.user 0), .setNode 0, .subscribe 0x701 (.user 0)]).1
    (.notify ⟨0x701, [5], 9⟩)).2.calls =
    [⟨.user 0, 0x701, [5], 9⟩, ⟨.node 0 .heartbeat, 0x701, [5], 9⟩] := by decide

/-! ## T spec_membership, T spec_order_stable — what the multimap spec means -/

/-- **"Currently subscribed".**  In the spec multimap reached by any sequence of primitive
    calls, a callback is in the list of an id iff the *last* call that concerns that
    (id, callback) pair was a subscribe — every pair behaves as an independent on/off bit. -/
theorem spec_membership (ps : List (Prim Cb)) (id : Nat) (cb : Cb) :
    cb ∈ Multimap.run specInit ps id ↔ Active id cb (decide (cb ∈ specInit id)) ps = true := by
  have gen : ∀ (m : MM Cb), NodupAll m →
      (cb ∈ Multimap.run m ps id ↔ Active id cb (decide (cb ∈ m id)) ps = true) := by
    induction ps with
    | nil => intro m _; simp [Multimap.run, Active]
    | cons p r ih =>
      intro m hm
      simp only [Multimap.run, Active]
      rw [ih _ (nodupAll_step m hm p)]
      have h := mem_step_iff m hm p id cb
      by_cases hc : cb ∈ Multimap.step m p id
      · rw [(h.mp hc)]; simp [hc]
      · have : activeStep id cb (decide (cb ∈ m id)) p = false := by
          cases hb : activeStep id cb (decide (cb ∈ m id)) p with
          | false => rfl
          | true => exact absurd (h.mpr hb) hc
        rw [this]; simp [hc]
  exact gen specInit nodupAll_specInit

theorem filter_all {α : Type} (l : List α) : l.filter (fun _ => true) = l := by
  induction l with
  | nil => rfl
  | cons a r ih => simp [List.filter, ih]

/-- **"In subscription order".**  One primitive call never reorders: the new list of every id is
    the old list with some entries dropped (survivors keep their relative order), followed by at
    most one new entry — and only a `subscribe` of a callback not yet in the list adds one. -/
theorem spec_order_stable (m : MM Cb) (hm : NodupAll m) (p : Prim Cb) (id : Nat) :
    ∃ (keep : Cb → Bool) (tail : List Cb),
      Multimap.step m p id = (m id).filter keep ++ tail ∧
      (tail = [] ∨ ∃ cb, p = .sub id cb ∧ cb ∉ m id ∧ tail = [cb]) := by
  cases p with
  | sub i c =>
    by_cases hi : id = i
    · subst hi
      by_cases hc : c ∈ m id
      · exact ⟨fun _ => true, [], by simp [Multimap.step, Multimap.subscribe, hc, filter_all], Or.inl rfl⟩
      · exact ⟨fun _ => true, [c], by simp [Multimap.step, Multimap.subscribe, hc, filter_all],
          Or.inr ⟨c, rfl, hc, rfl⟩⟩
    · exact ⟨fun _ => true, [], by simp [Multimap.step, Multimap.subscribe, hi, filter_all], Or.inl rfl⟩
  | unsub i c =>
    by_cases hi : id = i
    · subst hi
      refine ⟨fun x => x != c, [], ?_, Or.inl rfl⟩
      simp only [Multimap.step, Multimap.unsubscribe, if_true, List.append_nil]
      exact (hm id).erase_eq_filter c
    · exact ⟨fun _ => true, [], by simp [Multimap.step, Multimap.unsubscribe, hi, filter_all], Or.inl rfl⟩
  | unsubAll i =>
    by_cases hi : id = i
    · subst hi
      exact ⟨fun _ => false, [], by simp [Multimap.step, Multimap.unsubscribeAll], Or.inl rfl⟩
    · exact ⟨fun _ => true, [], by simp [Multimap.step, Multimap.unsubscribeAll, hi, filter_all], Or.inl rfl⟩

example : Multimap.run specInit [.sub 5 (.user 1), .sub 5 (.user 2), .sub 5 (.user 1),
    .unsub 5 (.user 1), .sub 5 (.user 1)] 5 = [.user 2, .user 1] := by decide

/-! ## T no_dup_on_resubscribe -/

theorem subs_ext (a b : Subs) (h : ∀ j, a.get j = b.get j) : a = b := by
  cases a; cases b
  congr
  funext j
  exact h j

/-- Subscribing the same callback to the same id a second time changes nothing; after any
    history no frame is handed to the same callback twice; in particular a frame received right
    after a double `subscribe(id, cb)` reaches `cb` at most once. -/
theorem no_dup_on_resubscribe :
    (∀ (s : Subs) (id : Nat) (cb : Cb),
        subscribe (subscribe s id cb) id cb = subscribe s id cb) ∧
    (∀ (E : Env) (pre : List Op) (f : Frame) (cb : Cb),
        ((step E (run E init pre).1 (.notify f)).2.calls.map (·.cb)).Nodup ∧
        ((step E (run E init (pre ++ [.subscribe f.id cb, .subscribe f.id cb])).1
            (.notify f)).2.calls.filter (fun c => c.cb = cb)).length ≤ 1) := by
  constructor
  · intro s id cb
    apply subs_ext
    intro j
    by_cases hj : j = id
    · subst hj
      by_cases hc : cb ∈ (s.get j).getD []
      · simp [subscribe, Subs.set, hc]
      · simp [subscribe, Subs.set, hc]
    · simp [subscribe, Subs.set, hj]
  · intro E pre f cb
    have nd : ∀ pre, ((step E (run E init pre).1 (.notify f)).2.calls.map (·.cb)).Nodup := by
      intro pre
      have h := refines_multimap E pre f
      simp only [] at h
      rw [h.1]
      have hs := throughFirst_sublist (fun c : Call Cb => E.raises c.cb)
        (Multimap.deliver (specAfter E pre) f.id f.data f.ts)
      have hs' := hs.map (·.cb)
      refine List.Nodup.sublist hs' ?_
      simp only [Multimap.deliver, List.map_map]
      have : ((fun c : Call Cb => c.cb) ∘ fun cb => (⟨cb, f.id, f.data, f.ts⟩ : Call Cb)) = id := by
        funext x; rfl
      rw [this, List.map_id]
      exact h.2.1
    refine ⟨nd pre, ?_⟩
    have h := nd (pre ++ [.subscribe f.id cb, .subscribe f.id cb])
    generalize (step E (run E init (pre ++ [.subscribe f.id cb, .subscribe f.id cb])).1
      (.notify f)).2.calls = cs at h ⊢
    induction cs with
    | nil => simp
    | cons c r ih =>
      simp only [List.map_cons, List.nodup_cons] at h
      simp only [List.filter_cons]
      by_cases hc : c.cb = cb
      · simp only [hc, decide_true, if_true, List.length_cons]
        have : r.filter (fun c => decide (c.cb = cb)) = [] := by
          rw [List.filter_eq_nil_iff]
          intro x hx hxe
          apply h.1
          rw [hc]
          simp only [decide_eq_true_eq] at hxe
          rw [← hxe]
          exact List.mem_map_of_mem hx
        rw [this]
        simp
      · simp only [hc, decide_false, Bool.false_eq_true, if_false]
        exact ih h.2

/-! ## T frame_format -/

/-- An outgoing frame (`send_message`, `PeriodicMessageTask`) carries exactly the given id and
    remote flag, uses the extended format exactly for ids above 0x7FF, and carries exactly the
    given data (python-can keeps no data bytes in a remote frame); `send_message` without a bus
    sends nothing. -/
theorem frame_format (id : Nat) (data : Bytes) (remote : Bool) :
    (∃ m, sendMessage true id data remote = some m ∧ periodicMessage id data remote = m ∧
      m.id = id ∧ m.remote = remote ∧ (m.extended = true ↔ id > 0x7FF) ∧
      (remote = false → m.data = data) ∧ (remote = true → m.data = [])) ∧
    sendMessage false id data remote = none := by
  refine ⟨⟨mkMessage id data remote, rfl, rfl, rfl, rfl, ?_, ?_, ?_⟩, rfl⟩
  · simp [mkMessage]
  · intro h; simp [mkMessage, h]
  · intro h; simp [mkMessage, h]

example : sendMessage true 0x7FF [1, 2] false = some ⟨0x7FF, false, [1, 2], false⟩ ∧
    sendMessage true 0x800 [1, 2] false = some ⟨0x800, true, [1, 2], false⟩ := by decide

/-- A periodic message whose payload is updated any number of times (`PeriodicMessageTask.update`)
    keeps exactly its id, its format and its remote flag, and carries the last payload given. -/
theorem periodic_update_frame (id : Nat) (data : Bytes) (remote : Bool) (ups : List Bytes) :
    let m := ups.foldl periodicUpdate (periodicMessage id data remote)
    m.id = id ∧ m.remote = remote ∧ (m.extended = true ↔ id > 0x7FF) ∧
    (∀ last, ups.getLast? = some last → m.data = last) := by
  have key : ∀ (ups : List Bytes) (m0 : CanMsg),
      (ups.foldl periodicUpdate m0).id = m0.id ∧ (ups.foldl periodicUpdate m0).remote = m0.remote ∧
      (ups.foldl periodicUpdate m0).extended = m0.extended ∧
      (∀ last, ups.getLast? = some last → (ups.foldl periodicUpdate m0).data = last) := by
    intro ups
    induction ups with
    | nil => intro m0; simp
    | cons u us ih =>
      intro m0
      obtain ⟨h1, h2, h3, h4⟩ := ih (periodicUpdate m0 u)
      refine ⟨by simpa [periodicUpdate] using h1, by simpa [periodicUpdate] using h2,
        by simpa [periodicUpdate] using h3, ?_⟩
      intro last hl
      cases us with
      | nil => simp at hl; subst hl; simp [periodicUpdate]
      | cons v vs => exact h4 last (by simpa using hl)
  obtain ⟨h1, h2, h3, h4⟩ := key ups (periodicMessage id data remote)
  refine ⟨by simpa [periodicMessage, mkMessage] using h1, by simpa [periodicMessage, mkMessage] using h2, ?_, h4⟩
  rw [h3]; simp [periodicMessage, mkMessage]

example : ([[3], [4, 5]].foldl periodicUpdate (periodicMessage 0x181 [1] false)) = ⟨0x181, false, [4, 5], false⟩ := by
  decide

/-! ## T listener_filter -/

/-- The bus listener never dispatches an error frame or a remote frame (no callback runs, no
    state changes, the scanner does not see it); every other frame is dispatched exactly like
    `notify(msg.arbitration_id, msg.data, msg.timestamp)`, except that a callback's exception
    does not escape. -/
theorem listener_filter (E : Env) (n : Net) (m : BusMsg) :
    ((m.isError = true ∨ m.isRemote = true) →
        (step E n (.receive m)).1 = n ∧ (step E n (.receive m)).2 = ⟨true, []⟩) ∧
    ((m.isError = false ∧ m.isRemote = false) →
        (step E n (.receive m)).1 = (step E n (.notify ⟨m.id, m.data, m.ts⟩)).1 ∧
        (step E n (.receive m)).2.calls = (step E n (.notify ⟨m.id, m.data, m.ts⟩)).2.calls ∧
        (step E n (.receive m)).2.ok = true) := by
  constructor
  · intro h
    have : (m.isError || m.isRemote) = true := by
      rcases h with h | h <;> simp [h]
    simp [step, receive, this]
  · intro h
    simp [step, receive, h.1, h.2]

/-! ## T scanner, T scanner_in_network -/

/-- the 2 048 11-bit ids, evaluated in the kernel (two halves to keep each fact small) -/
theorem scan_table_lo : (List.range' 0 1024).all
    (fun id => scanNodeOf id == ConnectionSet.nodeOf ConnectionSet.txServices id) = true := by
  decide +kernel

theorem scan_table_hi : (List.range' 1024 1024).all
    (fun id => scanNodeOf id == ConnectionSet.nodeOf ConnectionSet.txServices id) = true := by
  decide +kernel

theorem scanNodeOf_small (id : Nat) (h : id < 2048) :
    scanNodeOf id = ConnectionSet.nodeOf ConnectionSet.txServices id := by
  by_cases hlo : id < 1024
  · have := List.all_eq_true.mp scan_table_lo id (List.mem_range'_1.mpr ⟨by omega, by omega⟩)
    simpa using this
  · have := List.all_eq_true.mp scan_table_hi id (List.mem_range'_1.mpr ⟨by omega, by omega⟩)
    simpa using this

/-- the generated `NodeScanner.SERVICES` are, as a set, the transmit services of the predefined
    connection set -/
theorem services_match : ∀ s, s ∈ SERVICES ↔ s ∈ ConnectionSet.txServices := by
  intro s
  simp only [SERVICES, ConnectionSet.txServices, List.mem_cons, List.not_mem_nil, or_false]
  omega

/-- the code's mask arithmetic over the generated `SERVICES` is the predefined connection set's
    "function code base + node id", for **every** CAN id (11-bit ids by kernel evaluation of all
    2 048, larger ids are ignored by both) -/
theorem scanNodeOf_eq (id : Nat) :
    scanNodeOf id = ConnectionSet.nodeOf ConnectionSet.txServices id := by
  by_cases h : id ≤ 0x7FF
  · exact scanNodeOf_small id (by omega)
  · simp [scanNodeOf, ConnectionSet.nodeOf, h]

theorem ite_some_iff {c : Prop} [Decidable c] (a b : Nat) :
    (if c then some a else none) = some b ↔ c ∧ a = b := by
  by_cases h : c <;> simp [h]

theorem ite_none_iff {c : Prop} [Decidable c] (a : Nat) :
    (if c then some a else none) = none ↔ ¬ c := by
  by_cases h : c <;> simp [h]

set_option maxRecDepth 4000 in
/-- what the spec's `nodeOf` says, in the property's words -/
theorem nodeOf_iff (id n : Nat) :
    ConnectionSet.nodeOf ConnectionSet.txServices id = some n ↔
      id ≤ 0x7FF ∧ 1 ≤ n ∧ n ≤ 127 ∧ ∃ s ∈ ConnectionSet.txServices, id = s + n := by
  simp only [ConnectionSet.nodeOf, ConnectionSet.txServices, List.findSome?_cons,
    List.findSome?_nil, List.mem_cons, List.not_mem_nil, or_false, exists_eq_or_imp,
    exists_eq_left]
  constructor
  · intro h
    repeat' split at h
    all_goals simp only [ite_some_iff, ite_none_iff, Option.some.injEq, reduceCtorEq] at *
    all_goals omega
  · intro h
    repeat' split
    all_goals simp only [ite_some_iff, ite_none_iff, Option.some.injEq, reduceCtorEq] at *
    all_goals omega

theorem scanFeed_eq (acc ids : List Nat) :
    scanFeed acc ids =
      acc ++ (ConnectionSet.dedup (ids.filterMap scanNodeOf)).filter (fun x => decide (x ∉ acc)) := by
  induction ids generalizing acc with
  | nil => simp [scanFeed, ConnectionSet.dedup]
  | cons id r ih =>
    simp only [scanFeed, scanStep]
    rw [ih]
    cases hf : scanNodeOf id with
    | none => simp [hf]
    | some n =>
      simp only [List.filterMap_cons, hf, ConnectionSet.dedup]
      by_cases hn : n ∈ acc
      · simp only [hn, if_true, List.filter_cons, not_true_eq_false, decide_false,
          Bool.false_eq_true, if_false, List.filter_filter]
        congr 1
        apply List.filter_congr
        intro x _
        by_cases hx : x ∈ acc
        · simp [hx]
        · have : x ≠ n := fun e => hx (e ▸ hn)
          simp [hx, this]
      · simp only [hn, if_false, List.filter_cons, not_false_eq_true, decide_true, if_true,
          List.filter_filter, List.append_assoc, List.singleton_append]
        congr 2
        apply List.filter_congr
        intro x _
        by_cases hx : x ∈ acc
        · simp [hx]
        · by_cases hxn : x = n
          · simp [hxn, hn]
          · simp [hx, hxn]

theorem mem_dedup (l : List Nat) (x : Nat) : x ∈ ConnectionSet.dedup l ↔ x ∈ l := by
  induction l with
  | nil => simp [ConnectionSet.dedup]
  | cons a r ih =>
    simp only [ConnectionSet.dedup, List.mem_cons, List.mem_filter, ih]
    by_cases h : x = a <;> simp [h]

theorem nodup_dedup (l : List Nat) : (ConnectionSet.dedup l).Nodup := by
  induction l with
  | nil => simp [ConnectionSet.dedup]
  | cons a r ih =>
    simp only [ConnectionSet.dedup, List.nodup_cons, List.mem_filter]
    refine ⟨by simp, ?_⟩
    exact List.Nodup.sublist List.filter_sublist ih

/-- **Scanner.**  For every sequence of received CAN ids (any ids, 11- or 29-bit), a fresh
    scanner lists exactly the first occurrences, in order, of the node ids named by ids of the
    predefined connection set: each node id once; `n` is listed iff some received id is an 11-bit
    id `s + n` with `s` a transmit service and `1 ≤ n ≤ 127`; ids above 0x7FF never list
    anything. -/
theorem scanner (ids : List Nat) :
    scanFeed [] ids = ConnectionSet.scanned ConnectionSet.txServices ids ∧
    (scanFeed [] ids).Nodup ∧
    (∀ n, n ∈ scanFeed [] ids ↔
      ∃ id ∈ ids, id ≤ 0x7FF ∧ 1 ≤ n ∧ n ≤ 127 ∧ ∃ s ∈ ConnectionSet.txServices, id = s + n) := by
  have h1 : scanFeed [] ids = ConnectionSet.scanned ConnectionSet.txServices ids := by
    rw [scanFeed_eq]
    have : scanNodeOf = ConnectionSet.nodeOf ConnectionSet.txServices := funext scanNodeOf_eq
    simp only [this, ConnectionSet.scanned, List.nil_append, List.not_mem_nil, not_false_eq_true,
      decide_true]
    exact filter_all _
  refine ⟨h1, ?_, ?_⟩
  · rw [h1]; exact nodup_dedup _
  · intro n
    rw [h1, ConnectionSet.scanned, mem_dedup, List.mem_filterMap]
    constructor
    · rintro ⟨id, hid, hn⟩
      exact ⟨id, hid, (nodeOf_iff id n).mp hn⟩
    · rintro ⟨id, hid, hn⟩
      exact ⟨id, hid, (nodeOf_iff id n).mpr hn⟩

example : scanFeed [] [0x701, 0x10000702, 0x583, 0x701, 0x80, 0x603, 0x181] = [1, 3] := by decide

/-- CAN ids the scanner has been shown since its last `reset`, in order: the frames whose
    dispatch completed (a raising callback ends `notify` before the scanner is reached) -/
def shown (E : Env) : Net → List Op → List Nat → List Nat
  | _, [], acc => acc
  | n, op :: r, acc =>
    shown E (step E n op).1 r
      (match op with
       | .scanReset => []
       | .notify f => if (notify E n f).2.ok then acc ++ [f.id] else acc
       | .receive m =>
         if !(m.isError || m.isRemote) && (notify E n ⟨m.id, m.data, m.ts⟩).2.ok
         then acc ++ [m.id] else acc
       | _ => acc)

theorem scanFeed_append (acc a b : List Nat) :
    scanFeed acc (a ++ b) = scanFeed (scanFeed acc a) b := by
  induction a generalizing acc with
  | nil => rfl
  | cons x r ih => simp [scanFeed, ih]

theorem notify_scan (E : Env) (n : Net) (f : Frame) :
    (notify E n f).1.scan = if (notify E n f).2.ok then scanStep n.scan f.id else n.scan := by
  unfold notify
  simp only []
  split <;> simp

theorem setNode_scan (E : Env) (n : Net) (o : Nat) : (setNode E n o).1.scan = n.scan := by
  unfold setNode
  split
  · dsimp only
    split <;> rfl
  · rfl

theorem delNode_scan (E : Env) (n : Net) (nid : Nat) : (delNode E n nid).1.scan = n.scan := by
  unfold delNode
  split
  · rfl
  · dsimp only
    split <;> rfl

theorem addSdo_scan (E : Env) (n : Net) (o tx : Nat) : (addSdo E n o tx).1.scan = n.scan := by
  unfold addSdo
  split <;> rfl

theorem shown_scan (E : Env) (ops : List Op) (n : Net) (acc : List Nat)
    (h : n.scan = scanFeed [] acc) :
    (run E n ops).1.scan = scanFeed [] (shown E n ops acc) := by
  induction ops generalizing n acc with
  | nil => exact h
  | cons op r ih =>
    simp only [run, shown]
    apply ih
    cases op with
    | subscribe id cb => exact h
    | unsubscribe id cb =>
      simp only [step]
      split <;> exact h
    | setNode o => simp only [step]; rw [setNode_scan]; exact h
    | delNode nid => simp only [step]; rw [delNode_scan]; exact h
    | addSdo o tx => simp only [step]; rw [addSdo_scan]; exact h
    | notify f =>
      simp only [step]
      rw [notify_scan]
      split
      · rw [scanFeed_append, ← h]; rfl
      · exact h
    | receive m =>
      simp only [step, receive]
      by_cases hf : (m.isError || m.isRemote) = true
      · simp only [hf, if_true, Bool.not_true, Bool.false_and, Bool.false_eq_true, if_false]
        exact h
      · simp only [hf, Bool.false_eq_true, if_false, Bool.not_false, Bool.true_and]
        rw [notify_scan]
        split
        · rw [scanFeed_append, ← h]; rfl
        · exact h
    | scanReset => rfl

/-- **Scanner inside the network.**  After any history on a fresh network, `scanner.nodes` is
    the spec's list for the CAN ids of the frames dispatched (completely) since the last
    `scanner.reset()`. -/
theorem scanner_in_network (E : Env) (pre : List Op) :
    (run E init pre).1.scan =
      ConnectionSet.scanned ConnectionSet.txServices (shown E init pre []) := by
  rw [shown_scan E pre init [] rfl]
  exact (scanner _).1

/-! ## T removed_node_silent -/

/-- no bound method of node object `o` is subscribed anywhere -/
def Silent (o : Nat) (n : Net) : Prop := ∀ id h, Cb.node o h ∉ abs n.subs id

theorem silent_of_unregistered (E : Env) (n : Net) (o : Nat) (hI : Inv E n)
    (hu : n.nodes (E.nid o) ≠ some o) : Silent o n :=
  fun id h hm => hu (hI.owned id o h hm).1

theorem unregistered_step (E : Env) (n : Net) (op : Op) (o : Nat)
    (hu : n.nodes (E.nid o) ≠ some o) (hop : op ≠ .setNode o) :
    (step E n op).1.nodes (E.nid o) ≠ some o := by
  cases op with
  | subscribe id cb => exact hu
  | unsubscribe id cb =>
    simp only [step]
    split <;> exact hu
  | setNode o' =>
    have hne : o' ≠ o := fun e => hop (by rw [e])
    have hset : setNodes n.nodes (E.nid o') (some o') (E.nid o) ≠ some o := by
      simp only [setNodes]
      split
      · simp [hne]
      · exact hu
    simp only [step, setNode]
    split
    · split
      · exact hset
      · exact hu
    · exact hset
  | delNode nid =>
    simp only [step, delNode]
    split
    · exact hu
    · split
      · simp only [setNodes]
        split
        · simp
        · exact hu
      · exact hu
  | addSdo o' tx =>
    simp only [step, addSdo]
    split <;> exact hu
  | notify f => simp only [step]; rw [(notify_frame E n f).2.1]; exact hu
  | receive m => simp only [step]; rw [(receive_frame E n m).2.1]; exact hu
  | scanReset => exact hu

theorem unregistered_run (E : Env) (ops : List Op) (n : Net) (o : Nat)
    (hu : n.nodes (E.nid o) ≠ some o) (hops : ∀ op ∈ ops, op ≠ .setNode o) :
    (run E n ops).1.nodes (E.nid o) ≠ some o := by
  induction ops generalizing n with
  | nil => exact hu
  | cons op r ih =>
    simp only [run]
    exact ih _ (unregistered_step E n op o hu (hops op (by simp)))
      (fun x hx => hops x (by simp [hx]))

/-- a successful delete / replacement takes the old object out of `Network.nodes` -/
theorem unregistered_after (E : Env) (n : Net) (hI : Inv E n) (op : Op) (o nid : Nat)
    (hreg : n.nodes nid = some o)
    (hop : op = .delNode nid ∨ ∃ o', op = .setNode o' ∧ E.nid o' = nid ∧ o' ≠ o)
    (hok : (step E n op).2.ok = true) :
    (step E n op).1.nodes (E.nid o) ≠ some o := by
  have hk : E.nid o = nid := hI.keyed nid o hreg
  rw [hk]
  rcases hop with rfl | ⟨o', rfl, hn, hne⟩
  · simp only [step, delNode, hreg] at hok ⊢
    by_cases hd : (detach E n o).2 = true
    · simp [hd, setNodes]
    · simp [hd] at hok
  · simp only [step, setNode, hn, hreg] at hok ⊢
    by_cases hd : (detach E n o).2 = true
    · simp [hd, setNodes, hne]
    · simp [hd] at hok

theorem calls_subset (E : Env) (n : Net) (f : Frame) :
    ∀ c ∈ (notify E n f).2.calls, c.cb ∈ abs n.subs f.id := by
  intro c hc
  rw [(notify_calls E n f).1] at hc
  have h := (throughFirst_sublist _ _).subset hc
  simp only [Multimap.deliver, List.mem_map] at h
  obtain ⟨cb, hcb, rfl⟩ := h
  exact hcb

/-- **Removed or replaced nodes are silent.**  Take any history `pre` on a fresh network in which
    nobody subscribed a node's bound method by hand, after which node object `o` is registered
    under `nid`; then `del network[nid]`, or `network[nid] = o'` for another object `o'`, that
    *returns normally*; then any further history `post` in which `o` is not added again (and
    again nobody subscribes node methods by hand).  Then no frame — through `notify` or through
    the bus listener — ever reaches any of the SDO, heartbeat, EMCY or NMT handlers of `o`. -/
theorem removed_node_silent (E : Env) (pre post : List Op) (op : Op) (o nid : Nat)
    (hpre : ∀ x ∈ pre, NoManualNodeSub x)
    (hpost : ∀ x ∈ post, NoManualNodeSub x ∧ x ≠ .setNode o)
    (hreg : (run E init pre).1.nodes nid = some o)
    (hop : op = .delNode nid ∨ ∃ o', op = .setNode o' ∧ E.nid o' = nid ∧ o' ≠ o)
    (hok : (step E (run E init pre).1 op).2.ok = true) :
    (∀ f, ∀ c ∈ (step E (run E init (pre ++ op :: post)).1 (.notify f)).2.calls,
        ∀ h, c.cb ≠ .node o h) ∧
    (∀ m, ∀ c ∈ (step E (run E init (pre ++ op :: post)).1 (.receive m)).2.calls,
        ∀ h, c.cb ≠ .node o h) := by
  have hI0 : Inv E (run E init pre).1 := inv_run E pre init (inv_init E) hpre
  have hopm : NoManualNodeSub op := by
    rcases hop with rfl | ⟨o', rfl, _, _⟩ <;> simp [NoManualNodeSub]
  have hI1 : Inv E (step E (run E init pre).1 op).1 := inv_step E _ op hI0 hopm
  have hu1 := unregistered_after E _ hI0 op o nid hreg hop hok
  have hst : (run E init (pre ++ op :: post)).1 = (run E (step E (run E init pre).1 op).1 post).1 := by
    rw [run_app]; rfl
  have hI2 : Inv E (run E init (pre ++ op :: post)).1 := by
    rw [hst]; exact inv_run E post _ hI1 (fun x hx => (hpost x hx).1)
  have hu2 : (run E init (pre ++ op :: post)).1.nodes (E.nid o) ≠ some o := by
    rw [hst]; exact unregistered_run E post _ o hu1 (fun x hx => (hpost x hx).2)
  have hs := silent_of_unregistered E _ o hI2 hu2
  have key : ∀ f, ∀ c ∈ (notify E (run E init (pre ++ op :: post)).1 f).2.calls,
      ∀ h, c.cb ≠ .node o h := by
    intro f c hc h e
    exact hs f.id h (e ▸ calls_subset E _ f c hc)
  refine ⟨key, ?_⟩
  intro m c hc
  simp only [step, receive] at hc
  split at hc
  · simp at hc
  · exact key _ c hc

/-- the hypotheses are satisfiable: a remote node is added, replaced by a local one, and its
    heartbeat handler is gone while the user's callback still sees the frame -/
example :
    let E : Env := ⟨fun _ => 1, fun o => o == 1, fun _ => false⟩
    let pre : List Op := [.subscribe 0x701 (.user 0), .setNode 0, .addSdo 0 0x5C1]
    (run E init pre).1.nodes 1 = some 0 ∧
    (step E (run E init pre).1 (.setNode 1)).2.ok = true ∧
    (step E (run E init pre).1 (.notify ⟨0x701, [5], 1⟩)).2.calls.map (·.cb) =
      [.user 0, .node 0 .heartbeat] ∧
    (step E (run E init (pre ++ [.setNode 1])).1 (.notify ⟨0x701, [5], 2⟩)).2.calls.map (·.cb) =
      [.user 0] := by decide

/-- why "returns normally" is needed: if the user removed *all* callbacks of CAN id 0,
    `remove_network` raises half-way (after the SDO, heartbeat and EMCY handlers are gone); with a
    node whose removal raises at its first call, the old handlers stay subscribed -/
example :
    let E : Env := ⟨fun _ => 1, fun _ => false, fun _ => false⟩
    let pre : List Op := [.setNode 0, .unsubscribe 0x581 none]
    (step E (run E init pre).1 (.delNode 1)).2.ok = false ∧
    (step E (run E init (pre ++ [.delNode 1])).1 (.notify ⟨0x701, [5], 2⟩)).2.calls.map (·.cb) =
      [.node 0 .heartbeat] := by decide
end Canopen.C10
