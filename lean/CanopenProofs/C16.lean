/-
C16 — The EMCY consumer's log and active list mirror the received history; producer → consumer;
descriptions; wait.

Property theorems about `CanopenModel/Emcy.lean` (the model of canopen/emcy.py) instantiated with
the **generated** `EMCY_STRUCT` format and `EmcyError.DESCRIPTIONS` table, compared with the
independent reading of CiA 301 §7.2.7 in `Spec/Cia301Emcy.lean`.

Histories are arbitrary lists of events (`Ev`): frames handed to `on_emcy`, frames on the bus
(`Network.notify`, any COB-ID), `add_callback`, `reset()`; frames may be malformed.  Nothing is
bounded.  Vocabulary (`delivered`, `registered`, `clears`, `arrivals`, `waitSpec`,
`NoApiReset`) is defined in `Lemmas/Emcy.lean`.
-/
import CanopenModel.Emcy
import CanopenModel.Spec.Cia301Emcy
import CanopenProofs.Lemmas.Emcy

namespace Canopen.C16
open Canopen Canopen.Emcy Canopen.Gen.Emcy Canopen.Spec

/-! ## T frame_layout — `EMCY_STRUCT` is the CiA 301 frame -/

/-- The generated format is code (16 bit, LSB first), register (8 bit), five manufacturer bytes,
    8 bytes in all as CPython computes it; `decode` of a CiA 301 frame gives back its three fields;
    every 8-byte frame is such a frame; anything that is not 8 bytes long is refused. -/
theorem frame_layout :
    emcyFields = some [.uint 2, .uint 1, .bytes 5] ∧
    (emcyFields.map structSize) = some EMCY_STRUCT_SIZE ∧
    (∀ code reg : Nat, ∀ mfr : Bytes, code < 65536 → reg < 256 → mfr.length = 5 →
        decode (emcyFrame code reg mfr) = some (code, reg, mfr)) ∧
    (∀ data : Bytes, AllBytes data → data.length = 8 →
        ∃ code reg mfr, code < 65536 ∧ reg < 256 ∧ mfr.length = 5 ∧ data = emcyFrame code reg mfr) ∧
    (∀ data : Bytes, data.length ≠ 8 → decode data = none) := by
  refine ⟨emcyFields_eq, by decide, ?_, ?_, decode_wrong_length⟩
  · intro code reg mfr hc hr hm
    match mfr, hm with
    | [d, e, f, g, k], _ =>
      simp only [emcyFrame, List.cons_append, List.nil_append, decode_eight]
      have : code % 256 + 256 * (code / 256 % 256) = code := by omega
      rw [this]
  · intro data hb h8
    obtain ⟨a, b, c, d, e, f, g, k, rfl⟩ := length_eight h8
    have ha : a < 256 := hb a (by simp)
    have hb' : b < 256 := hb b (by simp)
    have hc : c < 256 := hb c (by simp)
    refine ⟨a + 256 * b, c, [d, e, f, g, k], by omega, hc, rfl, ?_⟩
    simp only [emcyFrame, List.cons_append, List.nil_append]
    have h1 : (a + 256 * b) % 256 = a := by omega
    have h2 : (a + 256 * b) / 256 % 256 = b := by omega
    rw [h1, h2]

/-! ## T log_mirrors -/

/-- The log is the list of delivered entries since the last `reset()` call, in arrival order —
    for every history.  In particular, for a history that consists of well-formed frames only,
    `log = frames.map decode` with the frame's own time stamp. -/
theorem log_mirrors (nid : Nat) (evs : List Ev) :
    (Ev.reset ∉ evs → (run nid Consumer.init evs).log = evs.filterMap (delivered nid)) ∧
    (∀ pre post, evs = pre ++ Ev.reset :: post → Ev.reset ∉ post →
        (run nid Consumer.init evs).log = post.filterMap (delivered nid)) ∧
    (∀ fs : List (Bytes × Nat), evs = fs.map (fun f => Ev.frame f.1 f.2) →
        (∀ f ∈ fs, f.1.length = 8) →
        ((run nid Consumer.init evs).log.map some = fs.map (fun f => entryOfFrame f.1 f.2) ∧
         (run nid Consumer.init evs).log.length = fs.length)) := by
  refine ⟨fun h => ?_, fun pre post he hp => ?_, fun fs he hv => ?_⟩
  · simpa [Consumer.init] using run_log nid evs Consumer.init h
  · subst he
    rw [run_append, run_cons, run_log nid post _ hp]
    simp [step]
  · subst he
    have hnr : Ev.reset ∉ fs.map (fun f => Ev.frame f.1 f.2) := by
      intro h; simp at h
    rw [run_log nid _ Consumer.init hnr]
    have key : ∀ l : List (Bytes × Nat), (∀ f ∈ l, f.1.length = 8) →
        ((l.map (fun f => Ev.frame f.1 f.2)).filterMap (delivered nid)).map some
          = l.map (fun f => entryOfFrame f.1 f.2) := by
      intro l hl
      induction l with
      | nil => rfl
      | cons f l ih =>
        have h8 := hl f (by simp)
        obtain ⟨a, b, c, d, e, g, h, k, hf⟩ := length_eight h8
        have ih' := ih (fun f' hf' => hl f' (by simp [hf']))
        simp only [List.map_cons, List.filterMap_cons, delivered]
        have : ∃ x, entryOfFrame f.1 f.2 = some x := by
          rw [entryOfFrame, hf, decode_eight]; exact ⟨_, rfl⟩
        obtain ⟨x, hx⟩ := this
        rw [hx]; simp only [List.map_cons, ih']
    have hk := key fs hv
    refine ⟨by simpa [Consumer.init] using hk, ?_⟩
    have := congrArg List.length hk
    simpa [Consumer.init] using this

/-! ## T active_since_reset -/

/-- `code & 0xFF00 == 0` is exactly "the code is in CiA 301 class 00xx (error reset / no error)",
    for every code. -/
theorem reset_code_is_class_00 (code : Nat) :
    isResetCode code = isErrorReset code ∧
    (isResetCode code = true ↔ classOfCode code = .errorReset) := by
  refine ⟨isResetCode_highbyte code, ?_⟩
  rw [isResetCode_highbyte]
  have key : ∀ k : Fin 256, (decide (k.val = 0) = true ↔ classOfHighByte k.val = .errorReset) := by
    decide +kernel
  exact key ⟨code / 256 % 256, Nat.mod_lt _ (by decide)⟩

/-- The active list is the list of entries delivered since the last clearing event (an
    error-reset frame, i.e. a delivered frame of class 00xx, or a `reset()` call), that event
    excluded — for every history. -/
theorem active_since_reset (nid : Nat) (evs : List Ev) :
    ((∀ ev ∈ evs, clears nid ev = false) →
        (run nid Consumer.init evs).active = evs.filterMap (delivered nid)) ∧
    (∀ pre r post, evs = pre ++ r :: post → clears nid r = true →
        (∀ ev ∈ post, clears nid ev = false) →
        (run nid Consumer.init evs).active = post.filterMap (delivered nid)) := by
  refine ⟨fun h => ?_, fun pre r post he hr hp => ?_⟩
  · simpa [Consumer.init] using run_active nid evs Consumer.init h
  · subst he
    rw [run_append, run_cons, run_active nid post _ hp, step_clears hr]
    simp

/-! ## T callbacks_in_order -/

/-- Every event of a history produces one trace element; a delivered frame invokes exactly the
    callbacks registered before it, once per registration, in registration order, each with the
    frame's entry; nothing else invokes a callback.  (`trace … [pre.length]` is what the event
    after `pre` did.) -/
theorem callbacks_in_order (nid : Nat) (evs : List Ev) :
    (trace nid Consumer.init evs).length = evs.length ∧
    ∀ pre ev post, evs = pre ++ ev :: post →
      ((trace nid Consumer.init evs)[pre.length]?).map (·.invoked) =
        some (((delivered nid ev).map fun e => (registered pre).map fun k => (k, e)).getD []) := by
  refine ⟨trace_length nid evs _, fun pre ev post he => ?_⟩
  subst he
  rw [trace_append]
  have hl : (trace nid Consumer.init pre).length = pre.length := trace_length nid pre _
  rw [List.getElem?_append_right (by omega), hl, Nat.sub_self]
  simp only [trace, List.getElem?_cons_zero, Option.map_some]
  have hcb : (run nid Consumer.init pre).callbacks = registered pre := by
    simpa [Consumer.init] using run_callbacks nid pre Consumer.init
  cases hd : delivered nid ev with
  | some e => rw [step_delivered hd]; simp [hcb]
  | none =>
    by_cases hr : ev = .reset
    · subst hr; simp [step]
    · simp [(step_undelivered_fst (c := run nid Consumer.init pre) hd hr).2]

/-! ## T producer_consumer, producer_rejects -/

/-- the padded data field always has five bytes -/
theorem padTo_take_length (data : Bytes) : (padTo 5 (data.take 5)).length = 5 := by
  simp only [padTo, List.length_append, List.length_replicate, List.length_take]
  omega

/-- For **every** code < 2¹⁶, register < 2⁸ and data of at most five bytes: the producer's frame
    is the CiA 301 frame with the data zero-padded to five bytes, and the consumer of the same
    node decodes it into exactly that code, register and padded data, stamps it with the frame's
    time and appends it to the log (and to the active list unless the code is an error reset). -/
theorem producer_consumer (code reg : Nat) (data : Bytes) (hc : code < 65536) (hr : reg < 256)
    (hd : data.length ≤ 5) :
    producerFrame (.send code reg data) = some (emcyFrame code reg (padTo 5 data)) ∧
    (code = 0 → producerFrame (.reset reg data) = some (emcyFrame 0 reg (padTo 5 data))) ∧
    (padTo 5 data).length = 5 ∧
    decode (emcyFrame code reg (padTo 5 data)) = some (code, reg, padTo 5 data) ∧
    ∀ (nid ts : Nat) (c : Consumer),
      step nid c (.notify (producerCobId nid) (emcyFrame code reg (padTo 5 data)) ts) =
        (record c ⟨code, reg, padTo 5 data, ts⟩,
         ⟨false, c.callbacks.map fun k => (k, ⟨code, reg, padTo 5 data, ts⟩)⟩) := by
  have ht : data.take 5 = data := List.take_of_length_le hd
  have hl : (padTo 5 data).length = 5 := by have := padTo_take_length data; rwa [ht] at this
  have hdec := frame_layout.2.2.1 code reg (padTo 5 data) hc hr hl
  refine ⟨?_, ?_, hl, hdec, ?_⟩
  · have := encode_in_range code reg data hc hr
    rw [ht] at this; exact this
  · intro h0
    have := encode_in_range 0 reg data (by decide) hr
    rw [ht] at this; exact this
  · intro nid ts c
    apply step_delivered
    simp [delivered, producerCobId, emcyCobId, entryOfFrame, hdec]

/-- A code or register that does not fit its field is refused (`struct.error`): no frame is
    built, nothing reaches the bus or the consumer. -/
theorem producer_rejects (code reg : Int) (data : Bytes)
    (h : code < 0 ∨ 65536 ≤ code ∨ reg < 0 ∨ 256 ≤ reg) :
    producerFrame (.send code reg data) = none ∧
    ((reg < 0 ∨ 256 ≤ reg) → producerFrame (.reset reg data) = none) ∧
    ∀ lnid rnid ts0 c sent ps,
      produceConsume lnid rnid ts0 c sent (.send code reg data :: ps) =
        ((produceConsume lnid rnid ts0 c sent ps).1, (produceConsume lnid rnid ts0 c sent ps).2.1,
          true :: (produceConsume lnid rnid ts0 c sent ps).2.2) := by
  have key : ∀ code : Int, (code < 0 ∨ 65536 ≤ code ∨ reg < 0 ∨ 256 ≤ reg) →
      encode code reg data = none := by
    intro code h
    rw [encode_eq]
    by_cases h1 : (0 : Int) ≤ code ∧ code < 65536
    · have h2 : ¬ ((0 : Int) ≤ reg ∧ reg < 256) := by omega
      rw [if_pos h1, if_neg h2]
    · rw [if_neg h1]
  refine ⟨key code h, fun hr => key 0 (Or.inr (Or.inr hr)), ?_⟩
  intro lnid rnid ts0 c sent ps
  rw [produceConsume]
  simp only [producerFrame, key code h]

/-- the bus composition is nothing but delivery of the producer's frames, in order, stamped by the
    bus; a refused call leaves no trace -/
theorem produceConsume_eq (lnid rnid ts0 : Nat) (ps : List PCall) (c : Consumer) (sent : List Bytes) :
    (produceConsume lnid rnid ts0 c sent ps).1 =
      run rnid c ((ps.filterMap producerFrame).mapIdx fun i f =>
        Ev.notify (producerCobId lnid) f (ts0 + sent.length + i)) ∧
    (produceConsume lnid rnid ts0 c sent ps).2.1 = sent ++ ps.filterMap producerFrame ∧
    (produceConsume lnid rnid ts0 c sent ps).2.2 = ps.map fun p => (producerFrame p).isNone := by
  induction ps generalizing c sent with
  | nil => simp [produceConsume, run_nil]
  | cons p ps ih =>
    rw [produceConsume]
    cases hp : producerFrame p with
    | none =>
      have := ih c sent
      simp only [List.filterMap_cons, hp, List.map_cons, Option.isNone_none]
      exact ⟨this.1, this.2.1, by rw [this.2.2]⟩
    | some f =>
      have := ih (step rnid c (.notify (producerCobId lnid) f (ts0 + sent.length))).1 (sent ++ [f])
      simp only [List.filterMap_cons, hp, List.map_cons, Option.isNone_some, List.mapIdx_cons,
        run_cons, Nat.add_zero]
      refine ⟨?_, ?_, by rw [this.2.2]⟩
      · rw [this.1]
        simp only [List.length_append, List.length_cons, List.length_nil]
        congr 2
        funext i f
        congr 1
        omega
      · rw [this.2.1]; simp

theorem producer_history_aux (nid ts0 : Nat) (calls : List (Nat × Nat × Bytes))
    (hv : ∀ p ∈ calls, p.1 < 65536 ∧ p.2.1 < 256 ∧ p.2.2.length ≤ 5) (c : Consumer) (sent : List Bytes) :
    (produceConsume nid nid ts0 c sent (calls.map fun p => PCall.send p.1 p.2.1 p.2.2)).1.log =
      c.log ++ calls.mapIdx (fun i p => (⟨p.1, p.2.1, padTo 5 p.2.2, ts0 + sent.length + i⟩ : Entry)) := by
  induction calls generalizing c sent with
  | nil => simp [produceConsume]
  | cons p calls ih =>
    obtain ⟨h1, h2, h3⟩ := hv p (by simp)
    have pc := producer_consumer p.1 p.2.1 p.2.2 h1 h2 h3
    simp only [List.map_cons]
    rw [produceConsume, pc.1]
    simp only
    rw [ih (fun q hq => hv q (by simp [hq])), pc.2.2.2.2 nid (ts0 + sent.length) c]
    simp only [record, List.mapIdx_cons, List.length_append, List.length_cons, List.length_nil,
      Nat.add_zero, List.append_assoc, List.cons_append, List.nil_append]
    congr 3
    funext i q
    congr 1
    omega

/-- Producer → bus → consumer for **every** history of sends with fields in range: the frames on
    the bus are the CiA 301 frames in call order, nothing is refused, and the consumer's log is
    exactly the list of (code, register, zero-padded data) the producer was given, stamped by the
    bus, in order. -/
theorem producer_history (nid ts0 : Nat) (calls : List (Nat × Nat × Bytes))
    (hv : ∀ p ∈ calls, p.1 < 65536 ∧ p.2.1 < 256 ∧ p.2.2.length ≤ 5) :
    (produceConsume nid nid ts0 Consumer.init [] (calls.map fun p => PCall.send p.1 p.2.1 p.2.2)).1.log =
      calls.mapIdx (fun i p => (⟨p.1, p.2.1, padTo 5 p.2.2, ts0 + i⟩ : Entry)) ∧
    (produceConsume nid nid ts0 Consumer.init [] (calls.map fun p => PCall.send p.1 p.2.1 p.2.2)).2.1 =
      calls.map (fun p => emcyFrame p.1 p.2.1 (padTo 5 p.2.2)) ∧
    (produceConsume nid nid ts0 Consumer.init [] (calls.map fun p => PCall.send p.1 p.2.1 p.2.2)).2.2 =
      calls.map (fun _ => false) := by
  have hf : ∀ l : List (Nat × Nat × Bytes), (∀ p ∈ l, p.1 < 65536 ∧ p.2.1 < 256 ∧ p.2.2.length ≤ 5) →
      (l.map fun p => PCall.send p.1 p.2.1 p.2.2).filterMap producerFrame =
        l.map (fun p => emcyFrame p.1 p.2.1 (padTo 5 p.2.2)) ∧
      ((l.map fun p => PCall.send p.1 p.2.1 p.2.2).map fun p => (producerFrame p).isNone) =
        l.map (fun _ => false) := by
    intro l hl
    induction l with
    | nil => simp
    | cons p l ih =>
      obtain ⟨h1, h2, h3⟩ := hl p (by simp)
      have pc := (producer_consumer p.1 p.2.1 p.2.2 h1 h2 h3).1
      have ih' := ih (fun q hq => hl q (by simp [hq]))
      rw [List.map_cons, List.filterMap_cons_some pc, List.map_cons, List.map_cons, List.map_cons, pc,
        ih'.1, ih'.2]
      exact ⟨rfl, rfl⟩
  have he := produceConsume_eq nid nid ts0 (calls.map fun p => PCall.send p.1 p.2.1 p.2.2)
    Consumer.init []
  refine ⟨?_, ?_, ?_⟩
  · have := producer_history_aux nid ts0 calls hv Consumer.init []
    simpa [Consumer.init] using this
  · rw [he.2.1, (hf calls hv).1]; simp
  · rw [he.2.2, (hf calls hv).2]

/-! ## T descriptions -/

/-- For **every** code (the 65 536 frame codes and beyond), `get_desc` is the text of the
    CiA 301 class of the code's high byte, and the empty text for a code without class. -/
theorem descriptions (code : Nat) : getDesc code = className (classOfCode code) := by
  unfold getDesc classOfCode
  rw [descIn_highbyte DESCRIPTIONS code descriptions_masks]
  exact descriptions_highbytes ⟨code / 256 % 256, Nat.mod_lt _ (by decide)⟩

/-! ## T wait_* — `EmcyConsumer.wait` over all wake-up sequences -/

/-- (clock, arrivals) of every wake-up -/
def view (nid : Nat) (ws : List Wake) : List (Nat × List Entry) := ws.map fun w => (w.now, arrivals nid w)

/-- "A waiting caller is handed the next matching entry or nothing on time-out", all schedules:
    as long as nobody calls `reset()` meanwhile, the result of `wait` is `waitSpec` of the
    arrivals — the first entry, in arrival order, that matches the filter, provided the waiter
    learns of it before the deadline; nothing if a wake-up brings no entry (time-out of the
    condition variable) or comes after the deadline.  `wait` never raises, and the consumer's
    state is the one produced by the events of the wake-ups consumed — `wait` itself changes
    nothing. -/
theorem wait_next_matching (nid : Nat) (filter : Option Nat) (t0 timeout : Nat) (c : Consumer)
    (ws : List Wake) (h : NoApiReset ws) :
    (wait nid filter t0 timeout c ws).res = waitSpec filter (t0 + timeout) (view nid ws) ∧
    (wait nid filter t0 timeout c ws).res ≠ .raised ∧
    (wait nid filter t0 timeout c ws).state =
      run nid c ((ws.take (wait nid filter t0 timeout c ws).waits).flatMap (·.evs)) := by
  unfold wait view
  generalize t0 + timeout = deadline
  induction ws generalizing c with
  | nil => simp [waitLoop, waitSpec, run_nil]
  | cons w ws ih =>
    have hw : Ev.reset ∉ w.evs := h w (by simp)
    have ih' := ih (run nid c w.evs) (fun w' hw' => h w' (by simp [hw']))
    rw [waitLoop_cons nid filter deadline c w ws hw]
    simp only [List.map_cons, waitSpec]
    by_cases he : (arrivals nid w).isEmpty = true
    · simp [he]
    · by_cases hl : w.now > deadline
      · simp [he, hl]
      · simp only [he, hl, if_false, Bool.false_eq_true]
        cases hf : (arrivals nid w).find? (matchesFilter filter) with
        | some e => simp
        | none =>
          simp only
          refine ⟨ih'.1, ih'.2.1, ?_⟩
          rw [ih'.2.2]
          simp [List.take_succ_cons, run_append]

/-- Soundness, all schedules: an entry handed to the caller matches the filter, arrived during
    the wait in a wake-up whose clock reading was not past the deadline, and is in the log. -/
theorem wait_sound (nid : Nat) (filter : Option Nat) (t0 timeout : Nat) (c : Consumer) (ws : List Wake)
    (h : NoApiReset ws) (e : Entry) (he : (wait nid filter t0 timeout c ws).res = .entry e) :
    matchesFilter filter e = true ∧
    (∃ w ∈ ws, e ∈ arrivals nid w ∧ w.now ≤ t0 + timeout) ∧
    e ∈ (wait nid filter t0 timeout c ws).state.log := by
  unfold wait at *
  generalize t0 + timeout = deadline at *
  induction ws generalizing c with
  | nil => simp [waitLoop] at he
  | cons w ws ih =>
    have hw : Ev.reset ∉ w.evs := h w (by simp)
    have ih' := ih (run nid c w.evs) (fun w' hw' => h w' (by simp [hw']))
    rw [waitLoop_cons nid filter deadline c w ws hw] at he ⊢
    by_cases hem : (arrivals nid w).isEmpty = true
    · simp [hem] at he
    · by_cases hl : w.now > deadline
      · simp [hem, hl] at he
      · simp only [hem, hl, if_false, Bool.false_eq_true] at he ⊢
        cases hf : (arrivals nid w).find? (matchesFilter filter) with
        | some x =>
          simp only [hf, WaitRes.entry.injEq] at he ⊢
          subst he
          have hxmem : x ∈ arrivals nid w := List.mem_of_find?_eq_some hf
          refine ⟨List.find?_some hf, ⟨w, by simp, hxmem, by omega⟩, ?_⟩
          rw [run_log nid w.evs c hw]
          exact List.mem_append_right _ hxmem
        | none =>
          simp only [hf] at he ⊢
          obtain ⟨h1, ⟨w', hw', h2⟩, h3⟩ := ih' he
          exact ⟨h1, ⟨w', by simp [hw'], h2⟩, h3⟩

/-- Time-out, all schedules: if no arriving entry matches the filter, or if every wake-up comes
    after the deadline, the caller is handed nothing. -/
theorem wait_nothing_without_match (nid : Nat) (filter : Option Nat) (t0 timeout : Nat) (c : Consumer)
    (ws : List Wake) (h : NoApiReset ws) :
    ((∀ w ∈ ws, ∀ e ∈ arrivals nid w, matchesFilter filter e = false) →
        (wait nid filter t0 timeout c ws).res = .nothing) ∧
    ((∀ w ∈ ws, w.now > t0 + timeout) → (wait nid filter t0 timeout c ws).res = .nothing) := by
  rw [(wait_next_matching nid filter t0 timeout c ws h).1]
  unfold view
  generalize t0 + timeout = deadline
  constructor
  · intro hn
    induction ws with
    | nil => rfl
    | cons w ws ih =>
      simp only [List.map_cons, waitSpec]
      have hnone : (arrivals nid w).find? (matchesFilter filter) = none := by
        rw [List.find?_eq_none]
        intro x hx
        simp [hn w (by simp) x hx]
      rw [hnone]
      split
      · rfl
      · split
        · rfl
        · exact ih (fun w' hw' => h w' (by simp [hw'])) (fun w' hw' => hn w' (by simp [hw']))
  · intro hn
    cases ws with
    | nil => rfl
    | cons w ws =>
      simp only [List.map_cons, waitSpec]
      split
      · rfl
      · simp [hn w (by simp)]

/-- Regression for the repaired burst defect (recorded as `fixed` in known_findings.json): node 5,
    filter 0x2001, deadline 110; one wake-up at time 105 in which frame `01 20 …` (code 0x2001) and
    then frame `01 30 …` (code 0x3001) arrived.  The matching entry is handed over although it is
    not the newest one; without filter the caller gets the oldest new entry. -/
theorem wait_burst_regression :
    let x : Bytes := [0x01, 0x20, 1, 1, 2, 3, 4, 5]
    let y : Bytes := [0x01, 0x30, 2, 0, 0, 0, 0, 0]
    let ws : List Wake := [⟨105, [.frame x 1, .frame y 2]⟩]
    NoApiReset ws ∧
    (wait 5 (some 0x2001) 100 10 Consumer.init ws).res = .entry ⟨0x2001, 1, [1, 2, 3, 4, 5], 1⟩ ∧
    (wait 5 (some 0x3001) 100 10 Consumer.init ws).res = .entry ⟨0x3001, 2, [0, 0, 0, 0, 0], 2⟩ ∧
    (wait 5 none 100 10 Consumer.init ws).res = .entry ⟨0x2001, 1, [1, 2, 3, 4, 5], 1⟩ := by
  decide

/-! ## T long histories — nothing bounds the log, the active list or the invocations -/

/-- The driver's linear runner computes what the model defines: consumer state (`run`), callback
    invocations and raised events (`trace`) and the sizes of the active list (`activeLens`), for
    every history from every state. -/
theorem runFast_spec (nid : Nat) (c : Consumer) (evs : List Ev) :
    (runFast nid (Fast.ofConsumer c) evs).consumer = run nid c evs ∧
    (runFast nid (Fast.ofConsumer c) evs).rinv.reverse = (trace nid c evs).flatMap (·.invoked) ∧
    (runFast nid (Fast.ofConsumer c) evs).nraised = countRaised (trace nid c evs) ∧
    (runFast nid (Fast.ofConsumer c) evs).ralens.reverse = activeLens nid c evs := by
  have h := runFast_spec_aux nid evs (Fast.ofConsumer c) (fast_ofConsumer_WF c)
  rw [fast_consumer_ofConsumer] at h
  obtain ⟨h1, _, h3, h4, h5⟩ := h
  refine ⟨h1, ?_, ?_, ?_⟩
  · simpa [Fast.ofConsumer] using h3
  · simpa [Fast.ofConsumer] using h4
  · simpa [Fast.ofConsumer] using h5

/-- One entry per frame, however long the history: from any state and for any history without
    `reset()` call the log grows by exactly the delivered frames (no bound, nothing dropped); a run
    of `n` frames (`repEvs`, the run-length token of the line protocol) appends its `n` entries in
    order, and to the active list as well when none of its codes is an error reset. -/
theorem long_history (nid : Nat) (c : Consumer) :
    (∀ evs, Ev.reset ∉ evs →
      (run nid c evs).log.length = c.log.length + (evs.filterMap (delivered nid)).length) ∧
    (∀ n code0 cstep reg0 ts0,
      (run nid c (repEvs n code0 cstep reg0 ts0)).log =
        c.log ++ (List.range n).map (repEntry code0 cstep reg0 ts0) ∧
      (run nid c (repEvs n code0 cstep reg0 ts0)).log.length = c.log.length + n ∧
      ((∀ i, i < n → isResetCode ((code0 + i * cstep) % 65536) = false) →
        (run nid c (repEvs n code0 cstep reg0 ts0)).active =
          c.active ++ (List.range n).map (repEntry code0 cstep reg0 ts0) ∧
        (run nid c (repEvs n code0 cstep reg0 ts0)).active.length = c.active.length + n)) := by
  refine ⟨fun evs h => by rw [run_log nid evs c h]; simp, fun n code0 cstep reg0 ts0 => ?_⟩
  have hl := run_log nid _ c (repEvs_no_reset n code0 cstep reg0 ts0)
  rw [repEvs_delivered] at hl
  refine ⟨hl, by rw [hl]; simp, fun hc => ?_⟩
  have hcl : ∀ ev ∈ repEvs n code0 cstep reg0 ts0, clears nid ev = false := by
    intro ev hev
    simp only [repEvs, List.mem_map, List.mem_range] at hev
    obtain ⟨i, hi, rfl⟩ := hev
    simp [clears, delivered, entryOfFrame_repFrame, hc i hi]
  have ha := run_active nid _ c hcl
  rw [repEvs_delivered] at ha
  exact ⟨ha, by rw [ha]; simp⟩

/-! ## T several threads in `wait` at once -/

/-- Waiting threads do not consume entries or notifications: the program with `k` threads is the
    juxtaposition of `k` programs with one thread each (same consumer, same schedule), and the
    consumer is the one produced by the schedule's events — the threads change nothing. -/
theorem waiters_independent (nid : Nat) (c : Consumer) (ws : List Waiter) (sched : List SEv) :
    (sysRun nid (c, ws) sched).1 = run nid c (evsOf sched) ∧
    (sysRun nid (c, ws) sched).2 = ws.flatMap (fun w => (sysRun nid (c, [w]) sched).2) ∧
    (sysRun nid (c, ws) sched).2.length = ws.length := by
  refine ⟨by rw [sysRun_eq], ?_, by rw [sysRun_eq]; simp⟩
  rw [sysRun_eq]
  simp only [sysRun_eq, List.map_cons, List.map_nil]
  induction ws with
  | nil => rfl
  | cons w ws ih => simp [List.flatMap_cons, ih]

/-- Each of the threads behaves as the single-waiter model `waitLoop` (to which `wait_next_matching`,
    `wait_sound`, `wait_nothing_without_match` apply) run on the thread's own view of the schedule:
    it has returned iff the loop returns within the wake-ups of the view, and then with that result
    — whatever the other threads wait for, whenever they run. -/
theorem mwait_refines_wait (nid : Nat) (c : Consumer) (specs : List (Option Nat × Nat)) (sched : List SEv)
    (i : Nat) (f : Option Nat) (d : Nat) (hi : specs[i]? = some (f, d)) :
    ((sysRun nid (c, enterAll c specs) sched).2[i]?).map (·.res) =
      some (if (waitLoop nid f d c (viewFrom i [] sched).1).waits ≤ (viewFrom i [] sched).1.length
            then some (waitLoop nid f d c (viewFrom i [] sched).1).res else none) := by
  rw [sysRun_eq]
  simp only [enterAll, List.getElem?_map, List.getElem?_zipIdx, hi, Option.map_some, Nat.zero_add,
    Waiter.enter]
  have := wRun_blocked nid i f d sched c [] false
  rw [run_nil] at this
  rw [this]

/-- No lost wake-up: a thread that is still blocked after a schedule is marked runnable
    (`notify_all` reached it) exactly when a frame was received since it last looked. -/
theorem mwait_no_lost_wakeup (nid : Nat) (c : Consumer) (specs : List (Option Nat × Nat)) (sched : List SEv)
    (i : Nat) (f : Option Nat) (d : Nat) (hi : specs[i]? = some (f, d)) :
    ∃ w, (sysRun nid (c, enterAll c specs) sched).2[i]? = some w ∧
      (w.res = none → w.notified = (viewFrom i [] sched).2.any (notifies nid)) := by
  rw [sysRun_eq]
  simp only [enterAll, List.getElem?_map, List.getElem?_zipIdx, hi, Option.map_some, Nat.zero_add,
    Waiter.enter]
  refine ⟨_, rfl, ?_⟩
  have := wRun_notified nid i f d sched c []
  rw [run_nil] at this
  simpa using this

/-- "A waiting caller is handed the next matching entry", every caller: if thread `i` came back from
    `Condition.wait` only because a frame had been received, and by its deadline (`FairView`), then
    it has been handed the FIRST entry matching its filter among the entries received since it
    started to wait and up to its last look, and it is still waiting iff there is none —
    irrespective of how many other threads wait, of their filters and of the order in which the
    threads run.  When nothing was received after its last look these are all the entries received
    since it started to wait. -/
theorem mwait_first_matching (nid : Nat) (c : Consumer) (specs : List (Option Nat × Nat)) (sched : List SEv)
    (i : Nat) (f : Option Nat) (d : Nat) (hi : specs[i]? = some (f, d))
    (hfair : FairView nid d (viewFrom i [] sched)) :
    ((sysRun nid (c, enterAll c specs) sched).2[i]?).map (·.res) =
      some ((((viewFrom i [] sched).1.flatMap (arrivals nid)).find? (matchesFilter f)).map .entry) ∧
    ((viewFrom i [] sched).2.filterMap (delivered nid) = [] →
      (viewFrom i [] sched).1.flatMap (arrivals nid) = (evsOf sched).filterMap (delivered nid)) := by
  refine ⟨?_, fun ht => ?_⟩
  · rw [mwait_refines_wait nid c specs sched i f d hi,
      waitLoop_fair nid f d (viewFrom i [] sched).1 c hfair.1 hfair.2]
  · have h := viewFrom_evs i sched []
    rw [arrivals_flatMap]
    have h2 := congrArg (List.filterMap (delivered nid)) h
    rw [List.filterMap_append, ht] at h2
    simpa using h2

/-! ## observation (outside the property's quantifier): `reset()` racing with `wait()` -/

/-- `EmcyConsumer.reset()` called while another thread waits confuses the length test of `wait`:
    with one entry in the log, `reset()` followed by a matching frame leaves the length unchanged,
    so the caller is told "time-out" although the entry arrived.  The property speaks of sequences
    of frames only; this is recorded, not claimed as a violation. -/
theorem wait_reset_race_observation :
    let x : Bytes := [0x01, 0x20, 1, 1, 2, 3, 4, 5]
    let c := run 5 Consumer.init [.frame x 1]
    (wait 5 none 100 10 c [⟨105, [.reset, .frame x 2]⟩]).res = .nothing ∧
    (wait 5 none 100 10 c [⟨105, [.reset]⟩]).res = .nothing := by
  decide

/-! ## non-vacuity: the hypotheses above are satisfiable by non-trivial states -/

/-- a history with callbacks, two errors, a malformed frame, an error reset (class 00xx, non-zero
    low byte), a foreign COB-ID, `reset()` and another error -/
def sampleHistory : List Ev :=
  [.addCb 1, .frame [0x01, 0x20, 2, 0, 1, 2, 3, 4] 1000, .addCb 2,
   .notify 0x85 [0x10, 0x90, 1, 4, 3, 2, 1, 0] 2000, .frame [0x01, 0x20] 2001,
   .notify 0x86 [0x10, 0x90, 1, 4, 3, 2, 1, 0] 2002,
   .frame [0x7F, 0x00, 0, 0, 0, 0, 0, 0] 2003, .frame [0x00, 0x81, 0x11, 9, 8, 7, 6, 5] 2004,
   .reset, .frame [0x00, 0xFF, 0x80, 1, 1, 1, 1, 1] 2005]

example : (run 5 Consumer.init sampleHistory).log = [⟨0xFF00, 0x80, [1, 1, 1, 1, 1], 2005⟩] ∧
    (run 5 Consumer.init sampleHistory).active = [⟨0xFF00, 0x80, [1, 1, 1, 1, 1], 2005⟩] ∧
    (run 5 Consumer.init (sampleHistory.take 8)).log.length = 4 ∧
    (run 5 Consumer.init (sampleHistory.take 8)).active = [⟨0x8100, 0x11, [9, 8, 7, 6, 5], 2004⟩] ∧
    ((trace 5 Consumer.init sampleHistory).flatMap (·.invoked)).length = 1 + 2 + 2 + 2 + 2 := by
  decide

/-- `log_mirrors`, second clause: the split exists and its hypothesis holds -/
example : ∃ pre post, sampleHistory = pre ++ Ev.reset :: post ∧ Ev.reset ∉ post ∧
    post.filterMap (delivered 5) ≠ [] := by
  refine ⟨sampleHistory.take 8, sampleHistory.drop 9, by decide, by decide, by decide⟩

/-- `active_since_reset`, second clause, with an error-reset *frame* as the clearing event and a
    non-empty remainder -/
example : ∃ pre r post, sampleHistory.take 8 = pre ++ r :: post ∧ clears 5 r = true ∧
    (∀ ev ∈ post, clears 5 ev = false) ∧ post.filterMap (delivered 5) ≠ [] := by
  refine ⟨sampleHistory.take 6, sampleHistory[6], (sampleHistory.take 8).drop 7, by decide, by decide,
    by decide, by decide⟩

/-- `callbacks_in_order`: a delivered frame with two registered callbacks -/
example : delivered 5 sampleHistory[3] ≠ none ∧ registered (sampleHistory.take 3) = [1, 2] := by
  decide

/-- `producer_consumer` / `producer_rejects`: both hypotheses are inhabited at the boundaries -/
example : producerFrame (.send 0xFFFF 0xFF [1, 2, 3, 4, 5]) = some [0xFF, 0xFF, 0xFF, 1, 2, 3, 4, 5] ∧
    producerFrame (.send 0x2001 2 [7]) = some [0x01, 0x20, 2, 7, 0, 0, 0, 0] ∧
    producerFrame (.reset 0 []) = some [0, 0, 0, 0, 0, 0, 0, 0] ∧
    producerFrame (.send 0x10000 0 []) = none ∧ producerFrame (.send (-1) 0 []) = none ∧
    producerFrame (.send 0 256 []) = none := by
  decide

/-- `wait_*`: a script without `reset()`, one arrival per wake-up, that hands over an entry after a
    non-matching one, and one that times out -/
example :
    let x : Bytes := [0x01, 0x20, 1, 1, 2, 3, 4, 5]
    let y : Bytes := [0x01, 0x30, 2, 0, 0, 0, 0, 0]
    let ws : List Wake := [⟨105, [.frame y 1]⟩, ⟨110, [.addCb 3, .frame x 2]⟩]
    NoApiReset ws ∧ (∀ w ∈ ws, (arrivals 5 w).length ≤ 1) ∧
    (wait 5 (some 0x2001) 100 10 Consumer.init ws).res = .entry ⟨0x2001, 1, [1, 2, 3, 4, 5], 2⟩ ∧
    (wait 5 (some 0x2001) 100 9 Consumer.init ws).res = .nothing ∧
    (wait 5 (some 0x2001) 100 10 Consumer.init (ws.take 1)).res = .nothing ∧
    (wait 5 (some 0x2001) 100 10 Consumer.init (ws.take 1)).waits = 2 := by
  decide

/-- `long_history`: a run whose codes are never error resets (constant 0x2001), and one whose codes
    sweep through class 00xx (log keeps growing, active list is cut) -/
example : (∀ i, i < 1200 → isResetCode ((0x2001 + i * 0) % 65536) = false) ∧
    (run 5 Consumer.init (repEvs 1200 0x2001 0 0 0)).log.length = 1200 ∧
    (run 5 Consumer.init (repEvs 30 0x00F0 1 250 7)).log.length = 30 ∧
    (run 5 Consumer.init (repEvs 30 0x00F0 1 250 7)).active.length = 14 ∧
    ((runFast 5 (Fast.ofConsumer Consumer.init) (.addCb 1 :: repEvs 30 0x00F0 1 250 7)).rinv.length = 30) := by
  refine ⟨fun i _ => by simp [isResetCode], ?_, by decide, by decide, by decide⟩
  simpa [Consumer.init] using ((long_history 5 Consumer.init).2 1200 0x2001 0 0 0).2.1

/-- `mwait_*`: three threads on node 4 (any code, 0x8110, 0x5000), one frame 0x8110, then 0x2001:
    the harness's schedule hands the first frame to threads 0 and 1 and nothing to thread 2; the
    hypotheses of `mwait_first_matching` hold for thread 1 in a schedule where thread 0 runs first,
    and for thread 2 (whose filter matches nothing) while it is still blocked and not runnable -/
example :
    let x : Bytes := [0x10, 0x81, 0x11, 0x78, 0x79, 0x7a, 0, 0]
    let y : Bytes := [0x01, 0x20, 1, 1, 2, 3, 4, 5]
    let specs : List (Option Nat × Nat) := [(none, 120), (some 0x8110, 120), (some 0x5000, 120)]
    let sched : List SEv := [.ev (.frame x 2), .runs 0 105, .runs 2 105, .runs 1 105, .ev (.frame y 3), .runs 2 106]
    ((sysRun 4 (Consumer.init, enterAll Consumer.init specs)
        (rigSchedule 4 [0, 1, 2] [⟨105, [.frame x 2]⟩, ⟨106, [.frame y 3]⟩] 1000000100)).2.map (·.res)) =
      [some (.entry ⟨0x8110, 0x11, [0x78, 0x79, 0x7a, 0, 0], 2⟩),
       some (.entry ⟨0x8110, 0x11, [0x78, 0x79, 0x7a, 0, 0], 2⟩), some .nothing] ∧
    FairView 4 120 (viewFrom 1 [] sched) ∧ FairView 4 120 (viewFrom 2 [] sched) ∧
    (viewFrom 2 [] sched).2.filterMap (delivered 4) = [] ∧
    ((sysRun 4 (Consumer.init, enterAll Consumer.init specs) sched).2.map (fun w => (w.res, w.notified))) =
      [(some (.entry ⟨0x8110, 0x11, [0x78, 0x79, 0x7a, 0, 0], 2⟩), false),
       (some (.entry ⟨0x8110, 0x11, [0x78, 0x79, 0x7a, 0, 0], 2⟩), false), (none, false)] := by
  refine ⟨by decide, ⟨by decide, by decide⟩, ⟨by decide, by decide⟩, by decide, by decide⟩

/-- `descriptions`: classes with and without sub-classes, and a code without class -/
example : getDesc 0x2310 = "Current".toList ∧ getDesc 0x5000 = "Device Hardware".toList ∧
    getDesc 0x5100 = [] ∧ getDesc 0xFF42 = "Device Specific".toList ∧ getDesc 0x00FF = "Error Reset / No Error".toList := by
  decide

end Canopen.C16
