/-
C18 — reply latency.  `LssMaster.__send_command` waits `RESPONSE_TIMEOUT` for the answer to every
confirmed service (fast scan included).  `Lss.delayedStep T lats step` is an arbitrary peer `step`
whose reaction to the k-th request reaches the master's queue `lats[k]` ticks after the request, seen
through a wait of `T` ticks (`Lss.awaitReply`).

* `latency_transparent`, `latency_transparent_history`: as long as every listed latency is below `T`,
  every API call — and every history of calls — returns what it returns without latency, leaves the
  peer where it leaves it without latency, and has sent the same frames (any peer, any `T`, any
  latencies; simulation through every function of the model, the two scan loops by induction);
* `fastscan_finds_latency`: hence fast scan against the CiA 305 slave finds every 128-bit address
  whatever the latencies below the time-out;
* `services_latency`, `selective_switch_confirmed_latency`: the same for configure / store / inquire
  and the selective switch;
* `fastscan_silence_latency`, `services_silence_latency`: an answer at or after the time-out (or
  never) is silence: fast scan fails after the opening request, the services raise the LSS error.
-/
import CanopenProofs.C18

namespace Canopen.C18
open Canopen Canopen.Lss Canopen.Gen.Lss Canopen.Spec.Lss Canopen.LssProofs

/-- every listed reaction is there before the time-out -/
def AllInTime (T : Nat) (lats : Latencies) : Prop := ∀ p ∈ lats, inTime T p.2 = true

instance (T : Nat) (lats : Latencies) : Decidable (AllInTime T lats) := by
  unfold AllInTime; infer_instance

theorem inTime_iff (T : Nat) (l : Option Nat) : inTime T l = true ↔ ∃ d, l = some d ∧ d < T := by
  cases l with
  | none => simp [inTime, awaitReply]
  | some d =>
    by_cases h : d < T <;> simp [inTime, awaitReply, h]

theorem awaitReply_inTime {α : Type} {T : Nat} {l : Option Nat} (h : inTime T l = true) (r : α) :
    awaitReply T l r = some r := by
  obtain ⟨d, rfl, hd⟩ := (inTime_iff T l).mp h
  simp [awaitReply, hd]

theorem awaitReply_late {α : Type} {T : Nat} {l : Option Nat} (h : inTime T l = false) (r : α) :
    awaitReply T l r = none := by
  cases l with
  | none => rfl
  | some d =>
    by_cases hd : d < T
    · simp [inTime, awaitReply, hd] at h
    · simp [awaitReply, hd]

theorem latencyOf_mem {lats : Latencies} {n : Nat} {l : Option Nat} (h : latencyOf lats n = some l) :
    (n, l) ∈ lats := by
  induction lats with
  | nil => simp [latencyOf] at h
  | cons p rest ih =>
    obtain ⟨k, l'⟩ := p
    simp only [latencyOf] at h
    by_cases hk : k = n
    · simp only [hk, if_true, Option.some.injEq] at h
      simp [hk, h]
    · simp only [hk, if_false] at h
      exact List.mem_cons_of_mem _ (ih h)

/-- with every latency below the time-out the delayed peer reacts as the peer itself -/
theorem delayedStep_inTime {σ : Type} {T : Nat} {lats : Latencies} (h : AllInTime T lats)
    (step : PeerStep σ) (d : Delayed σ) (hl : d.late = []) (f : Frame) :
    delayedStep T lats step d f =
      ({ inner := (step d.inner f).1, count := d.count + 1, late := [] }, (step d.inner f).2) := by
  unfold delayedStep
  simp only
  cases hk : latencyOf lats d.count with
  | none => simp [hl]
  | some l =>
    have := h _ (latencyOf_mem hk)
    simp only [awaitReply_inTime this, hl, List.nil_append]

/-- a reaction that is not there in time: nothing is on 0x7E4 while the master waits -/
theorem delayedStep_late {σ : Type} {T : Nat} {lats : Latencies} (step : PeerStep σ) (d : Delayed σ)
    (hl : d.late = []) {l : Option Nat} (hk : latencyOf lats d.count = some l) (h : inTime T l = false)
    (f : Frame) : (delayedStep T lats step d f).2 = [] := by
  unfold delayedStep
  simp only [hk, awaitReply_late h, hl]

/-! ## simulation -/

/-- the master against the delayed peer and the master against the peer itself are in step -/
structure Sim {σ : Type} (a : MSt (Delayed σ)) (b : MSt σ) : Prop where
  peer : a.peer.inner = b.peer
  late : a.peer.late = []
  queue : a.queue = b.queue
  sent : a.sent = b.sent

def SimR {σ α : Type} (ra : MSt (Delayed σ) × α) (rb : MSt σ × α) : Prop := Sim ra.1 rb.1 ∧ ra.2 = rb.2

section
variable {σ : Type} {T : Nat} {lats : Latencies} (hin : AllInTime T lats) (step : PeerStep σ)
include hin

theorem sendCommand_sim {a : MSt (Delayed σ)} {b : MSt σ} (s : Sim a b) (m : Bytes) :
    SimR (sendCommand (delayedStep T lats step) a m) (sendCommand step b m) := by
  obtain ⟨h1, h2, _, h4⟩ := s
  simp only [SimR, sendCommand, delayedStep_inTime hin step a.peer h2, h1, h4]
  exact ⟨⟨rfl, rfl, rfl, rfl⟩, trivial⟩

theorem request_sim {α : Type} {a : MSt (Delayed σ)} {b : MSt σ} (s : Sim a b) (msg : Option Bytes)
    (dec : Except Err (Option Bytes) → Except Err α) :
    SimR (request (delayedStep T lats step) a msg dec) (request step b msg dec) := by
  cases msg with
  | none => exact ⟨s, rfl⟩
  | some m =>
    have h := sendCommand_sim hin step s m
    exact ⟨h.1, by simp only [request]; rw [h.2]⟩

omit hin in
theorem andThen_sim {α : Type} {ra : MSt (Delayed σ) × Except Err (Option Bytes)}
    {rb : MSt σ × Except Err (Option Bytes)} (hr : SimR ra rb)
    {ka : MSt (Delayed σ) → MSt (Delayed σ) × Except Err α} {kb : MSt σ → MSt σ × Except Err α}
    (hk : ∀ a b, Sim a b → SimR (ka a) (kb b)) : SimR (andThen ra ka) (andThen rb kb) := by
  obtain ⟨h1, h2⟩ := hr
  unfold andThen
  rw [h2]
  split
  · exact ⟨h1, rfl⟩
  · exact hk _ _ h1

theorem fastScanMessage_sim {a : MSt (Delayed σ)} {b : MSt σ} (s : Sim a b) (idn bc sub nxt : Nat) :
    SimR (fastScanMessage (delayedStep T lats step) a idn bc sub nxt) (fastScanMessage step b idn bc sub nxt) :=
  request_sim hin step s _ _

theorem scanBits_sim : ∀ (n : Nat) {a : MSt (Delayed σ)} {b : MSt σ}, Sim a b → ∀ idn sub nxt : Nat,
    SimR (scanBits (delayedStep T lats step) n a idn sub nxt) (scanBits step n b idn sub nxt) := by
  intro n
  induction n with
  | zero => intro a b s idn sub nxt; exact ⟨s, rfl⟩
  | succ n ih =>
    intro a b s idn sub nxt
    have hm := fastScanMessage_sim hin step s idn n sub nxt
    rw [scanBits, scanBits]
    generalize fastScanMessage (delayedStep T lats step) a idn n sub nxt = ra at hm
    generalize fastScanMessage step b idn n sub nxt = rb at hm
    obtain ⟨sa, xa⟩ := ra
    obtain ⟨sb, xb⟩ := rb
    obtain ⟨hs, hx⟩ := hm
    simp only at hx hs
    subst hx
    cases xa with
    | error e => exact ⟨hs, rfl⟩
    | ok v => exact ih hs _ _ _

theorem scanParts_sim : ∀ (k : Nat) {a : MSt (Delayed σ)} {b : MSt σ}, Sim a b →
    ∀ (ids : List Nat) (sub nxt : Nat),
    SimR (scanParts (delayedStep T lats step) k a ids sub nxt) (scanParts step k b ids sub nxt) := by
  intro k
  induction k with
  | zero => intro a b s ids sub nxt; exact ⟨s, rfl⟩
  | succ k ih =>
    intro a b s ids sub nxt
    have hb := scanBits_sim hin step 32 s (ids.getD sub 0) sub nxt
    rw [scanParts, scanParts]
    generalize scanBits (delayedStep T lats step) 32 a (ids.getD sub 0) sub nxt = ra at hb
    generalize scanBits step 32 b (ids.getD sub 0) sub nxt = rb at hb
    obtain ⟨sa, xa⟩ := ra
    obtain ⟨sb, xb⟩ := rb
    obtain ⟨hs, hx⟩ := hb
    simp only at hx hs
    subst hx
    cases xa with
    | error e => exact ⟨hs, rfl⟩
    | ok idv =>
      simp only
      have hc := fastScanMessage_sim hin step hs idv 0 sub ((sub + 1) &&& 3)
      generalize fastScanMessage (delayedStep T lats step) sa idv 0 sub ((sub + 1) &&& 3) = ra2 at hc
      generalize fastScanMessage step sb idv 0 sub ((sub + 1) &&& 3) = rb2 at hc
      obtain ⟨sa2, xa2⟩ := ra2
      obtain ⟨sb2, xb2⟩ := rb2
      obtain ⟨hs2, hx2⟩ := hc
      simp only at hx2 hs2
      subst hx2
      cases xa2 with
      | error e => exact ⟨hs2, rfl⟩
      | ok v =>
        cases v with
        | false => exact ⟨hs2, rfl⟩
        | true => exact ih hs2 _ _ _

theorem fastScan_sim {a : MSt (Delayed σ)} {b : MSt σ} (s : Sim a b) :
    SimR (fastScan (delayedStep T lats step) a) (fastScan step b) := by
  have hm := fastScanMessage_sim hin step s 0 128 0 0
  rw [fastScan, fastScan]
  generalize fastScanMessage (delayedStep T lats step) a 0 128 0 0 = ra at hm
  generalize fastScanMessage step b 0 128 0 0 = rb at hm
  obtain ⟨sa, xa⟩ := ra
  obtain ⟨sb, xb⟩ := rb
  obtain ⟨hs, hx⟩ := hm
  simp only at hx hs
  subst hx
  cases xa with
  | error e => exact ⟨hs, rfl⟩
  | ok v =>
    cases v with
    | false => exact ⟨hs, rfl⟩
    | true => exact scanParts_sim hin step 4 hs _ _ _

omit hin in
theorem mapRet_sim {α : Type} (f : α → Ret) {ra : MSt (Delayed σ) × Except Err α}
    {rb : MSt σ × Except Err α} (h : SimR ra rb) : SimR (mapRet f ra) (mapRet f rb) := by
  obtain ⟨h1, h2⟩ := h
  exact ⟨h1, by simp only [mapRet]; rw [h2]⟩

theorem selective_sim {a : MSt (Delayed σ)} {b : MSt σ} (s : Sim a b) (v p r sn : Nat) :
    SimR (sendSwitchStateSelective (delayedStep T lats step) a v p r sn)
      (sendSwitchStateSelective step b v p r sn) := by
  unfold sendSwitchStateSelective sendLssAddress
  exact andThen_sim (request_sim hin step s _ _) fun a1 b1 s1 =>
    andThen_sim (request_sim hin step s1 _ _) fun a2 b2 s2 =>
    andThen_sim (request_sim hin step s2 _ _) fun a3 b3 s3 => request_sim hin step s3 _ _

theorem identifyRemote_sim {a : MSt (Delayed σ)} {b : MSt σ} (s : Sim a b) (v p rl rh sl sh : Nat) :
    SimR (sendIdentifyRemoteSlave (delayedStep T lats step) a v p rl rh sl sh)
      (sendIdentifyRemoteSlave step b v p rl rh sl sh) := by
  unfold sendIdentifyRemoteSlave sendLssAddress
  exact andThen_sim (request_sim hin step s _ _) fun a1 b1 s1 =>
    andThen_sim (request_sim hin step s1 _ _) fun a2 b2 s2 =>
    andThen_sim (request_sim hin step s2 _ _) fun a3 b3 s3 =>
    andThen_sim (request_sim hin step s3 _ _) fun a4 b4 s4 =>
    andThen_sim (request_sim hin step s4 _ _) fun a5 b5 s5 => request_sim hin step s5 _ _

theorem runCall_sim {a : MSt (Delayed σ)} {b : MSt σ} (s : Sim a b) (c : Call) :
    SimR (runCall (delayedStep T lats step) a c) (runCall step b c) := by
  cases c with
  | switchGlobal m => exact mapRet_sim _ (request_sim hin step s _ _)
  | selective v p r sn => exact mapRet_sim _ (selective_sim hin step s v p r sn)
  | inquireNodeId => exact mapRet_sim _ (request_sim hin step s _ _)
  | inquireAddress cs => exact mapRet_sim _ (request_sim hin step s _ _)
  | configureNodeId n => exact mapRet_sim _ (request_sim hin step s _ _)
  | configureBitTiming n => exact mapRet_sim _ (request_sim hin step s _ _)
  | activateBitTiming d => exact mapRet_sim _ (request_sim hin step s _ _)
  | store => exact mapRet_sim _ (request_sim hin step s _ _)
  | identifyRemote v p rl rh sl sh => exact mapRet_sim _ (identifyRemote_sim hin step s v p rl rh sl sh)
  | identifyNonConfigured => exact mapRet_sim _ (request_sim hin step s _ _)
  | fastScan => exact mapRet_sim _ (fastScan_sim hin step s)

end

/-- the master's state against the peer itself that corresponds to a state against the delayed peer -/
def undelayed {σ : Type} (st : MSt (Delayed σ)) : MSt σ :=
  { peer := st.peer.inner, queue := st.queue, sent := st.sent }

theorem sim_undelayed {σ : Type} (st : MSt (Delayed σ)) (h : st.peer.late = []) : Sim st (undelayed st) :=
  ⟨rfl, h, rfl, rfl⟩

/-! ## T latency_transparent -/

/-- Any peer, any time-out `T`, any latencies below it, any call of the API, any state of the master
    with nothing left on its way: the call returns what it returns without latency, the peer ends
    where it ends without latency, the same frames have been sent, the queue holds the same, and
    again nothing is left on its way. -/
theorem latency_transparent {σ : Type} (T : Nat) (lats : Latencies) (hin : AllInTime T lats)
    (step : PeerStep σ) (st : MSt (Delayed σ)) (hl : st.peer.late = []) (c : Call) :
    let d := runCall (delayedStep T lats step) st c
    let z := runCall step (undelayed st) c
    d.2 = z.2 ∧ d.1.peer.inner = z.1.peer ∧ d.1.peer.late = [] ∧ d.1.queue = z.1.queue ∧
      d.1.sent = z.1.sent := by
  intro d z
  obtain ⟨⟨h1, h2, h3, h4⟩, h5⟩ := runCall_sim hin step (sim_undelayed st hl) c
  exact ⟨h5, h1, h2, h3, h4⟩

/-- a history of calls with frames from third parties in between; `post` is what happens after a call
    has returned (`settle` with latency, nothing without); the results are collected -/
def runHistoryWith {σ : Type} (step : PeerStep σ) (post : MSt σ → MSt σ) :
    MSt σ → List (Call × List Frame) → MSt σ × List (Except Err Ret)
  | st, [] => (st, [])
  | st, (c, rx) :: rest =>
    let r := runCall step st c
    let t := runHistoryWith step post (deliver (post r.1) rx) rest
    (t.1, r.2 :: t.2)

theorem settle_sim {σ : Type} {a : MSt (Delayed σ)} {b : MSt σ} (s : Sim a b) : Sim (settle a) b := by
  obtain ⟨h1, h2, h3, h4⟩ := s
  exact ⟨h1, rfl, by simp [settle, h2, h3, received], h4⟩

theorem deliver_sim {σ : Type} {a : MSt (Delayed σ)} {b : MSt σ} (s : Sim a b) (rx : List Frame) :
    Sim (deliver a rx) (deliver b rx) := by
  obtain ⟨h1, h2, h3, h4⟩ := s
  exact ⟨h1, h2, by simp [deliver, h3], h4⟩

/-- the same over histories of any length: every call of the history returns what it returns without
    latency -/
theorem latency_transparent_history {σ : Type} (T : Nat) (lats : Latencies) (hin : AllInTime T lats)
    (step : PeerStep σ) (h : List (Call × List Frame)) (st : MSt (Delayed σ)) (hl : st.peer.late = []) :
    let d := runHistoryWith (delayedStep T lats step) settle st h
    let z := runHistoryWith step id (undelayed st) h
    d.2 = z.2 ∧ d.1.peer.inner = z.1.peer ∧ d.1.sent = z.1.sent := by
  suffices hs : ∀ (a : MSt (Delayed σ)) (b : MSt σ), Sim a b →
      SimR (runHistoryWith (delayedStep T lats step) settle a h) (runHistoryWith step id b h) by
    intro d z
    obtain ⟨⟨h1, _, _, h4⟩, h5⟩ := hs st (undelayed st) (sim_undelayed st hl)
    exact ⟨h5, h1, h4⟩
  induction h with
  | nil => intro a b s; exact ⟨s, rfl⟩
  | cons e rest ih =>
    intro a b s
    obtain ⟨c, rx⟩ := e
    obtain ⟨h1, h2⟩ := runCall_sim hin step s c
    obtain ⟨h3, h4⟩ := ih _ _ (deliver_sim (settle_sim h1) rx)
    exact ⟨h3, by simp only [runHistoryWith, id]; rw [h2, h4]⟩

/-! ## T fastscan_finds_latency -/

/-- `fastscan_finds` whatever the latencies, as long as they are below the time-out (whatever the
    time-out is): every 128-bit address is found bit for bit, the slave ends in configuration state,
    1 + 4·33 requests were sent. -/
theorem fastscan_finds_latency (T : Nat) (lats : Latencies) (hin : AllInTime T lats)
    (i : Ident) (hv : i.vendor < 2 ^ 32) (hp : i.product < 2 ^ 32)
    (hr : i.revision < 2 ^ 32) (hsn : i.serial < 2 ^ 32)
    (s : Slave) (hi : s.ident = i) (hw : s.config = false) (hu : s.unconfigured = true)
    (n : Nat) (queue : List Bytes) (log : List Frame) :
    ∃ st', fastScan (delayedStep T lats step)
          { peer := { inner := s, count := n, late := [] }, queue := queue, sent := log } =
        (st', .ok (true, some [i.vendor, i.product, i.revision, i.serial])) ∧
      st'.peer.inner = { s with pos := 0, config := true } ∧ st'.peer.late = [] ∧
      ∃ l, st'.sent = log ++ l ∧ l.length = 133 := by
  obtain ⟨z, hz, hpeer, l, hsent, hlen⟩ := fastscan_finds i hv hp hr hsn s hi hw hu queue log
  have hs := fastScan_sim hin step
    (a := { peer := { inner := s, count := n, late := [] }, queue := queue, sent := log })
    (b := { peer := s, queue := queue, sent := log }) ⟨rfl, rfl, rfl, rfl⟩
  rw [hz] at hs
  obtain ⟨⟨h1, h2, _, h4⟩, h5⟩ := hs
  refine ⟨_, Prod.ext rfl h5, ?_, h2, l, ?_, hlen⟩
  · rw [h1]; exact hpeer
  · rw [h4]; exact hsent

/-- the hypothesis is satisfiable: answers after 0 %, 20 %, 50 %, 99 % of a time-out of 100 ticks -/
example : AllInTime 100 [(0, some 20), (1, some 50), (33, some 0), (66, some 99), (132, some 60)] := by decide

/-! ## T fastscan_silence_latency, services_silence_latency -/

theorem answers_late {σ : Type} {T : Nat} {lats : Latencies} (step : PeerStep σ) (st : MSt (Delayed σ))
    (hl : st.peer.late = []) {l : Option Nat} (hk : latencyOf lats st.peer.count = some l)
    (h : inTime T l = false) (m : Bytes) : answers (delayedStep T lats step) st m = [] := by
  simp only [answers, delayedStep_late step st.peer hl hk h, received, List.filter_nil, List.map_nil]

/-- Whatever the peer is: when its reaction to the opening request of a fast scan comes at or after
    the time-out (latency `≥ T`) or never, the scan fails after exactly that one request — to the
    master nobody is there. -/
theorem fastscan_silence_latency {σ : Type} (T : Nat) (lats : Latencies) (step : PeerStep σ)
    (st : MSt (Delayed σ)) (hl : st.peer.late = []) (l : Option Nat)
    (hk : latencyOf lats st.peer.count = some l) (hlate : ∀ d, l = some d → T ≤ d) :
    (fastScan (delayedStep T lats step) st).2 = .ok (false, none) ∧
    (fastScan (delayedStep T lats step) st).1.sent = st.sent ++ [frameOf (.fastScan 0 128 0 0)] := by
  have h : inTime T l = false := by
    cases hx : inTime T l with
    | false => rfl
    | true =>
      obtain ⟨d, hd, hlt⟩ := (inTime_iff T l).mp hx
      have := hlate d hd
      omega
  exact fastscan_empty_bus _ st (answers_late step st hl hk h _)

/-- Whatever the peer is: configure node-ID (every n < 256), configure bit timing (every index < 256),
    store configuration, the four identity inquiries and inquire node-ID raise the LSS error when the
    answer comes at or after the time-out or never. -/
theorem services_silence_latency {σ : Type} (T : Nat) (lats : Latencies) (step : PeerStep σ)
    (st : MSt (Delayed σ)) (hl : st.peer.late = []) (l : Option Nat)
    (hk : latencyOf lats st.peer.count = some l) (hlate : ∀ d, l = some d → T ≤ d) :
    (∀ n, n < 256 → (configureNodeId (delayedStep T lats step) st n).2 = .error .lss) ∧
    (∀ b, b < 256 → (configureBitTiming (delayedStep T lats step) st b).2 = .error .lss) ∧
    (storeConfiguration (delayedStep T lats step) st).2 = .error .lss ∧
    (∀ k, k < 4 → (inquireLssAddress (delayedStep T lats step) st (0x5A + k)).2 = .error .lss) ∧
    (inquireNodeId (delayedStep T lats step) st).2 = .error .lss := by
  have h : inTime T l = false := by
    cases hx : inTime T l with
    | false => rfl
    | true =>
      obtain ⟨d, hd, hlt⟩ := (inTime_iff T l).mp hx
      have := hlate d hd
      omega
  have ha := fun m => answers_late step st hl hk h m
  have hf : ∀ m, FirstIsFrame (answers (delayedStep T lats step) st m) := by
    intro m; rw [ha]; intro r hr; simp at hr
  obtain ⟨⟨c1, c2, c3⟩, c4, c5⟩ := services (delayedStep T lats step) st
  refine ⟨fun n hn => ?_, fun b hb => ?_, ?_, fun k hk4 => ?_, ?_⟩
  · rw [c1 n hn (hf _), ha]; rfl
  · rw [c2 b hb (hf _), ha]; rfl
  · rw [c3 (hf _), ha]; rfl
  · rw [c4 k hk4 (hf _), ha]; rfl
  · rw [c5 (hf _), ha]; rfl

/-! ## T services_latency, selective_switch_confirmed_latency -/

/-- `services` whatever the latencies below the time-out: configure / store / inquire return the
    answer the peer gives (or the LSS error on an error code, a wrong specifier, silence), exactly as
    without latency. -/
theorem services_latency {σ : Type} (T : Nat) (lats : Latencies) (hin : AllInTime T lats)
    (step : PeerStep σ) (st : MSt (Delayed σ)) (hl : st.peer.late = []) :
    let z := undelayed st
    ((∀ n, n < 256 → FirstIsFrame (answers step z (encode (.configNodeId n))) →
      (configureNodeId (delayedStep T lats step) st n).2 =
        expectConfigure 0x11 (answers step z (encode (.configNodeId n)))) ∧
    (∀ b, b < 256 → FirstIsFrame (answers step z (encode (.configBitTiming 0 b))) →
      (configureBitTiming (delayedStep T lats step) st b).2 =
        expectConfigure 0x13 (answers step z (encode (.configBitTiming 0 b)))) ∧
    (FirstIsFrame (answers step z (encode .store)) →
      (storeConfiguration (delayedStep T lats step) st).2 =
        expectConfigure 0x17 (answers step z (encode .store)))) ∧
    ((∀ k, k < 4 → FirstIsFrame (answers step z (encode (.inquire k))) →
      (inquireLssAddress (delayedStep T lats step) st (0x5A + k)).2 =
        expectInquireAddress (0x5A + k) (answers step z (encode (.inquire k)))) ∧
    (FirstIsFrame (answers step z (encode (.inquire 4))) →
      (inquireNodeId (delayedStep T lats step) st).2 =
        expectInquireNodeId (answers step z (encode (.inquire 4))))) := by
  intro z
  have s := sim_undelayed st hl
  obtain ⟨⟨c1, c2, c3⟩, c4, c5⟩ := services step z
  refine ⟨⟨fun n hn hf => ?_, fun b hb hf => ?_, fun hf => ?_⟩, fun k hk hf => ?_, fun hf => ?_⟩
  · rw [← c1 n hn hf]; exact (request_sim hin step s _ _).2
  · rw [← c2 b hb hf]; exact (request_sim hin step s _ _).2
  · rw [← c3 hf]; exact (request_sim hin step s _ _).2
  · rw [← c4 k hk hf]; exact (request_sim hin step s _ _).2
  · rw [← c5 hf]; exact (request_sim hin step s _ _).2

/-- a selective switch addressed to the slave's own identity is confirmed whatever the latency of the
    confirmation below the time-out -/
theorem selective_switch_confirmed_latency (T : Nat) (lats : Latencies) (hin : AllInTime T lats)
    (s : Slave) (hw : s.config = false)
    (hv : s.ident.vendor < 2 ^ 32) (hp : s.ident.product < 2 ^ 32) (hr : s.ident.revision < 2 ^ 32)
    (hsn : s.ident.serial < 2 ^ 32) (n : Nat) (queue : List Bytes) (log : List Frame) :
    let res := sendSwitchStateSelective (delayedStep T lats step)
      { peer := { inner := s, count := n, late := [] }, queue := queue, sent := log }
      s.ident.vendor s.ident.product s.ident.revision s.ident.serial
    res.2 = .ok true ∧ res.1.peer.inner = { s with sel := 0, config := true } ∧ res.1.peer.late = [] := by
  intro res
  have hs := selective_sim hin step
    (a := { peer := { inner := s, count := n, late := [] }, queue := queue, sent := log })
    (b := { peer := s, queue := queue, sent := log }) ⟨rfl, rfl, rfl, rfl⟩
    s.ident.vendor s.ident.product s.ident.revision s.ident.serial
  rw [selective_switch_confirmed s hw hv hp hr hsn queue log] at hs
  obtain ⟨⟨h1, h2, _, _⟩, h5⟩ := hs
  exact ⟨h5, h1, h2⟩

/-! ## concrete runs -/

-- a whole scan with answers after 20 %, 50 % and 99 % of the time-out …
example : (fastScan (delayedStep 100 [(0, some 20), (1, some 50), (40, some 99)] Spec.Lss.step)
      ⟨⟨Slave.fresh ⟨0, 0xFFFFFFFF, 0x12345678, 0x80000001⟩, 0, []⟩, [], []⟩).2 =
    .ok (true, some [0, 0xFFFFFFFF, 0x12345678, 0x80000001]) := by decide +kernel
-- … and with the opening answer exactly at the time-out, or lost
example : (fastScan (delayedStep 100 [(0, some 100)] Spec.Lss.step)
      ⟨⟨Slave.fresh ⟨0, 0xFFFFFFFF, 0x12345678, 0x80000001⟩, 0, []⟩, [], []⟩).2 = .ok (false, none) := by
  decide +kernel
example : (fastScan (delayedStep 100 [(0, none)] Spec.Lss.step)
      ⟨⟨Slave.fresh ⟨1, 2, 3, 4⟩, 0, []⟩, [], []⟩).2 = .ok (false, none) := by decide +kernel
-- the late answer is on its way when the call returns, in the queue before the next call, and is not
-- taken for the answer to the next request
example :
    let st0 : MSt (Delayed Slave) := ⟨⟨{ Slave.fresh ⟨1, 2, 3, 4⟩ with config := true }, 0, []⟩, [], []⟩
    let r1 := inquireNodeId (delayedStep 100 [(0, some 150)] Spec.Lss.step) st0
    let st1 := settle r1.1
    r1.2 = .error .lss ∧ r1.1.peer.late.length = 1 ∧ st1.queue.length = 1 ∧
      (inquireLssAddress (delayedStep 100 [(0, some 150)] Spec.Lss.step) st1 0x5D).2 = .ok 4 := by
  decide +kernel

end Canopen.C18
