/-
C07 for block transfers — a disturbed block download / upload fails loudly and does not poison the
next transfer.  Theorems about `CanopenModel/Sdo/BlockDown.lean` and `BlockUp.lean` (models of
`BlockDownloadStream` / `BlockUploadStream`, repaired code: every time-out wait aborts with
0x05040000) with one response disturbed on its way into the client's queue.

(a) `BD.initiate_lost_aborts`, `BD.ack_lost_aborts`, `BD.end_lost_aborts`, `BU.request_lost_aborts`,
    `BU.segment_lost_aborts`, `BU.end_lost_aborts`: at every wait of the two streams, in every state
    and for every environment, a response that does not arrive makes the client emit
    `80 00 00 00 00 00 04 05` and raise SdoCommunicationError.
(b) `BD.*_abort_raises`, `BU.*_abort_raises`: an abort frame at any wait raises SdoAbortedError with
    exactly its code, nothing is emitted.
(c) `BD.block_download_ok_exact_partial` + `BD.dup_ack_counterexample`: a block download that returns
    normally has committed exactly the payload when the disturbance is a lost response, an abort
    frame or a wrong command specifier (any response index); FALSE for a duplicated acknowledge.
    `BU.block_upload_lost_ok_exact`, `BU.block_upload_lost_segment_repaired` (repaired
    re-synchronisation of `BlockUploadStream`): whichever response of a block upload is lost, a
    normal return yields exactly the server's value, and a lost segment is repaired.  Late and
    duplicated segments: closed instances `BU.late_dup_instances` (repaired, or an SDO error where
    the surplus frame lands in front of the end response) and the protocol-inherent
    `BU.deferred_dup_counterexample`; every position is exercised by the `bdist up` operations.
(d) `BD.between_idle`, `BU.between_idle`, `BD.next_block_download_clean` (+ `C07.next_transfer_clean`
    for a following expedited / segmented transfer, which assumes nothing about queue or server phase).
-/
import CanopenModel.Sdo.BlockDown
import CanopenModel.Sdo.BlockUp
import CanopenProofs.Lemmas.BlockDown
import CanopenProofs.Lemmas.BlockUp
import CanopenProofs.Lemmas.BlockDist
import CanopenProofs.Lemmas.BlockUpLoss

namespace Canopen.C07
open Canopen Canopen.Crc Canopen.Gen.SdoBlock
open Canopen.Sdo (CErr Kind)

/-- the time-out abort frame `80 00 00 00 00 00 04 05` -/
def timeoutAbort : Bytes := [0x80, 0, 0, 0, 0x00, 0x00, 0x04, 0x05]

namespace BD
open Canopen.Sdo.BlockDown Canopen.C12

/-- every frame the client has emitted (delivered or lost on the way), newest first -/
def sent (s : Sys) : List Bytes := (s.log.filter fun e => e.kind == 0 || e.kind == 1).map (·.frame)

theorem filter_mk (k : Nat) (hk : (k == 0 || k == 1) = false) (l : List Bytes) :
    ((l.map (Ev.mk k)).filter fun e => e.kind == 0 || e.kind == 1) = [] := by
  induction l with
  | nil => rfl
  | cons x l ih => simp [List.filter_cons, hk, ih]

theorem sent_sendReq (E : Env) (s : Sys) (f : Bytes) : sent (sendReq E s f) = f :: sent s := by
  unfold sendReq
  split
  · simp [sent, List.filter_cons]
  · split
    · simp [sent, List.filter_cons, List.filter_append, List.filter_reverse, filter_mk 2 rfl]
    · simp [sent, List.filter_cons, List.filter_append, List.filter_reverse, filter_mk 5 rfl]

theorem abort_timeout_frame (E : Env) (s : Sys) : sent (abort E s 0x05040000) = timeoutAbort :: sent s := by
  rw [abort, sent_sendReq]; simp [timeoutAbort, REQUEST_ABORTED, leBytes]


theorem sent_fail (s : Sys) (e : CErr) : sent (fail s e) = sent s := rfl

theorem classify_abort (a b d code : Nat) (hc : code < 2 ^ 32) :
    classify (abortFrame a b d code) = .aborted code := classify_abortFrame a b d code hc

/-- **(a) block download, waiting for a sub-block acknowledge**: whenever nothing arrives (in any
    state, for any environment), the client emits the time-out abort frame and raises
    SdoCommunicationError (repaired `_block_ack`). -/
theorem ack_timeout_aborts (E : Env) (s : Sys) (h : (readResponse E s).2 = .timeout) :
    ∃ s', blockAck E s = (s', .err) ∧ s'.raised = some .comm ∧
      sent s' = timeoutAbort :: sent (readResponse E s).1 := by
  unfold blockAck
  generalize readResponse E s = x at h ⊢
  obtain ⟨s1, r⟩ := x
  simp only at h; subst h
  exact ⟨_, rfl, rfl, by rw [sent_fail, abort_timeout_frame]⟩

/-- the wait is a time-out whenever the queue is empty and the server's own time-out does not fire -/
theorem read_timeout_of_empty (E : Env) (s : Sys) (hq : s.queue = []) (ht : E.srvTimeout = false) :
    readResponse E s = (s, .timeout) := by
  simp [readResponse, hq, ht]

/-- **(a) block download, initiate and end request** (`request_response`): no response → the
    time-out abort frame follows the request, SdoCommunicationError. -/
theorem request_timeout_aborts (E : Env) (s : Sys) (req : Bytes)
    (h : (readResponse E (sendReq E { s with queue := [] } req)).2 = .timeout) :
    ∃ s', requestResponse E s req = (s', .timeout) ∧ s'.raised = some .comm ∧
      sent s' = timeoutAbort :: sent (readResponse E (sendReq E { s with queue := [] } req)).1 := by
  simp only [Canopen.Sdo.BlockDown.requestResponse, MAX_RETRIES, Canopen.Sdo.BlockDown.rrLoop]
  generalize readResponse E (sendReq E { s with queue := [] } req) = x at h ⊢
  obtain ⟨s1, r⟩ := x
  simp only at h; subst h
  exact ⟨_, rfl, rfl, by rw [sent_fail, abort_timeout_frame]⟩

/-- **(b) block download: an abort frame at the head of the queue raises SdoAbortedError with its
    code**, at the acknowledge wait … -/
theorem ack_abort_raises (E : Env) (s : Sys) (a b d code : Nat) (rest : List Bytes) (hc : code < 2 ^ 32)
    (hq : s.queue = abortFrame a b d code :: rest) :
    ∃ s', blockAck E s = (s', .err) ∧ s'.raised = some (.aborted code) ∧ sent s' = sent s := by
  simp only [blockAck, readResponse, hq, classify_abort a b d code hc]
  exact ⟨_, rfl, rfl, rfl⟩

/-- … and at the initiate / end request. -/
theorem request_abort_raises (E : Env) (s : Sys) (req : Bytes) (a b d code : Nat) (rest : List Bytes)
    (hc : code < 2 ^ 32) (hq : (sendReq E { s with queue := [] } req).queue = abortFrame a b d code :: rest) :
    ∃ s', requestResponse E s req = (s', .aborted code) ∧ s'.raised = some (.aborted code) ∧
      sent s' = req :: sent s := by
  simp only [Canopen.Sdo.BlockDown.requestResponse, MAX_RETRIES, Canopen.Sdo.BlockDown.rrLoop, readResponse, hq, classify_abort a b d code hc]
  refine ⟨_, rfl, rfl, ?_⟩
  simp only [fail]
  show sent { sendReq E { s with queue := [] } req with queue := rest } = _
  have := sent_sendReq E { s with queue := [] } req
  simpa [sent] using this

/-- the initiate request of `BlockDownloadStream.__init__` -/
def initReq (idx sub : Nat) (size : Option Nat) (crcReq : Bool) : Bytes :=
  [REQUEST_BLOCK_DOWNLOAD ||| INITIATE_BLOCK_TRANSFER ||| (if crcReq then CRC_SUPPORTED else 0)
    ||| (if size.isSome then BLOCK_SIZE_SPECIFIED else 0), idx % 256, idx / 256, sub] ++ leBytes 4 (size.getD 0)

/-- the end request of `close()` -/
def endReq (c : Cl) : Bytes :=
  (REQUEST_BLOCK_DOWNLOAD ||| END_BLOCK_TRANSFER ||| ((7 - c.lastBytesSent) <<< 2)) ::
    (if c.crcSupported then leBytes 2 c.crc else [0, 0]) ++ [0, 0, 0, 0, 0]

/-- **(a) lost initiate response**: `__init__` raises SdoCommunicationError after the time-out abort -/
theorem initiate_lost_aborts (E : Env) (s : Sys) (idx sub : Nat) (size : Option Nat) (crcReq : Bool)
    (ht : E.srvTimeout = false)
    (hq : (sendReq E { s with cl := { size := size }, queue := [] } (initReq idx sub size crcReq)).queue = []) :
    ∃ s', init E s idx sub size crcReq = (s', false) ∧ s'.raised = some .comm ∧
      sent s' = timeoutAbort :: initReq idx sub size crcReq :: sent s := by
  have hr := read_timeout_of_empty E _ hq ht
  obtain ⟨s', h1, h2, h3⟩ := request_timeout_aborts E { s with cl := { size := size } }
    (initReq idx sub size crcReq) (by rw [hr])
  refine ⟨s', ?_, h2, ?_⟩
  · simp only [init]
    rw [show ([REQUEST_BLOCK_DOWNLOAD ||| INITIATE_BLOCK_TRANSFER ||| (if crcReq = true then CRC_SUPPORTED else 0)
      ||| (if size.isSome = true then BLOCK_SIZE_SPECIFIED else 0), idx % 256, idx / 256, sub] ++ leBytes 4 (size.getD 0))
      = initReq idx sub size crcReq from rfl, h1]
  · rw [h3, hr, sent_sendReq]; rfl

/-- **(a) lost end response**: `close()` raises SdoCommunicationError after the time-out abort (`hk`: the
    last segment is out or nothing is kept back in `_pending`, so that `close()` is the end request alone) -/
theorem end_lost_aborts (E : Env) (s : Sys) (ht : E.srvTimeout = false)
    (hk : s.cl.done = true ∨ s.cl.pend = [])
    (hq : (sendReq E { s with queue := [] } (endReq s.cl)).queue = []) :
    ∃ s', close E s = (s', .err) ∧ s'.raised = some .comm ∧ sent s' = timeoutAbort :: endReq s.cl :: sent s := by
  have hr := read_timeout_of_empty E _ hq ht
  obtain ⟨s', h1, h2, h3⟩ := request_timeout_aborts E s (endReq s.cl) (by rw [hr])
  refine ⟨s', ?_, h2, ?_⟩
  · rw [C12.close_nokeep E s hk]
    simp only [closeEnd]
    rw [show ((REQUEST_BLOCK_DOWNLOAD ||| END_BLOCK_TRANSFER ||| ((7 - s.cl.lastBytesSent) <<< 2)) ::
      (if s.cl.crcSupported = true then leBytes 2 s.cl.crc else [0, 0]) ++ [0, 0, 0, 0, 0]) = endReq s.cl from rfl, h1]
  · rw [h3, hr, sent_sendReq]; rfl

/-- **(a) lost sub-block acknowledge** -/
theorem ack_lost_aborts (E : Env) (s : Sys) (ht : E.srvTimeout = false) (hq : s.queue = []) :
    ∃ s', blockAck E s = (s', .err) ∧ s'.raised = some .comm ∧ sent s' = timeoutAbort :: sent s := by
  have hr := read_timeout_of_empty E s hq ht
  obtain ⟨s', h1, h2, h3⟩ := ack_timeout_aborts E s (by rw [hr])
  exact ⟨s', h1, h2, by rw [h3, hr]⟩

/-- **(b) abort frame instead of the initiate response** -/
theorem initiate_abort_raises (E : Env) (s : Sys) (idx sub : Nat) (size : Option Nat) (crcReq : Bool)
    (a b d code : Nat) (rest : List Bytes) (hc : code < 2 ^ 32)
    (hq : (sendReq E { s with cl := { size := size }, queue := [] } (initReq idx sub size crcReq)).queue
      = abortFrame a b d code :: rest) :
    ∃ s', init E s idx sub size crcReq = (s', false) ∧ s'.raised = some (.aborted code) := by
  obtain ⟨s', h1, h2, -⟩ := request_abort_raises E { s with cl := { size := size } }
    (initReq idx sub size crcReq) a b d code rest hc hq
  refine ⟨s', ?_, h2⟩
  simp only [init]
  rw [show ([REQUEST_BLOCK_DOWNLOAD ||| INITIATE_BLOCK_TRANSFER ||| (if crcReq = true then CRC_SUPPORTED else 0)
    ||| (if size.isSome = true then BLOCK_SIZE_SPECIFIED else 0), idx % 256, idx / 256, sub] ++ leBytes 4 (size.getD 0))
    = initReq idx sub size crcReq from rfl, h1]

/-- **(b) abort frame instead of the end response** (`hk` as in `end_lost_aborts`) -/
theorem end_abort_raises (E : Env) (s : Sys) (a b d code : Nat) (rest : List Bytes) (hc : code < 2 ^ 32)
    (hk : s.cl.done = true ∨ s.cl.pend = [])
    (hq : (sendReq E { s with queue := [] } (endReq s.cl)).queue = abortFrame a b d code :: rest) :
    ∃ s', close E s = (s', .err) ∧ s'.raised = some (.aborted code) := by
  obtain ⟨s', h1, h2, -⟩ := request_abort_raises E s (endReq s.cl) a b d code rest hc hq
  refine ⟨s', ?_, h2⟩
  rw [C12.close_nokeep E s hk]
  simp only [closeEnd]
  rw [show ((REQUEST_BLOCK_DOWNLOAD ||| END_BLOCK_TRANSFER ||| ((7 - s.cl.lastBytesSent) <<< 2)) ::
    (if s.cl.crcSupported = true then leBytes 2 s.cl.crc else [0, 0]) ++ [0, 0, 0, 0, 0]) = endReq s.cl from rfl, h1]

/-- time passing between two transfers leaves the server idle and nothing held back -/
theorem between_idle (s : Sys) : (between s).srv.phase = .idle ∧ (between s).pending = [] := ⟨rfl, rfl⟩

/-- **(c), what holds**: whatever stale frames sit in the queue, whichever response (index `at_`) is
    hit, if the disturbance is a lost response, an abort frame in its place or a wrong command
    specifier, then a block download that returns normally has committed exactly the payload. -/
theorem block_download_ok_exact_partial (E : Env) (at_ : Nat) (k : Kind) (hT : Tame E at_ k) (fuel : Nat)
    (cap crcReq : Bool) (idx sub : Nat) (payload : Bytes) (q : List Bytes) (h1 : 1 ≤ payload.length)
    (h2 : payload.length < 2 ^ 32)
    (hok : (blockDownloadFrom E fuel (startSys cap q) idx sub payload (some payload.length) crcReq).2 = .ok) :
    (blockDownloadFrom E fuel (startSys cap q) idx sub payload (some payload.length) crcReq).1.srv.committed
      = some payload := by
  unfold blockDownloadFrom at hok ⊢
  have hinit := init_dist E at_ k hT payload h1 h2 cap crcReq idx sub q
  generalize init E (startSys cap q) idx sub (some payload.length) crcReq = ri at hinit hok ⊢
  obtain ⟨s, b⟩ := ri
  cases b with
  | false => simp at hok
  | true =>
    obtain ⟨hinv, hs, hp⟩ := hinit s rfl
    have hrun := run_safe_dist E at_ k hT payload fuel s _ hinv hs hp
    simp only at hok ⊢
    generalize run E fuel s (List.map (fun b => Item.write b false) (chunks payload)) = rr at hrun hok ⊢
    obtain ⟨s1, r⟩ := rr
    cases r with
    | ok => exact close_dist E at_ k hT payload s1 (hrun rfl).1 (hrun rfl).2 hok
    | err => simp at hok
    | fuel => simp at hok

/-- block sizes 1, 2, 1, 2, …; no CRC; the server's response number 1 (the first acknowledge)
    arrives twice -/
def dupEnv : Env :=
  { blkOf := fun k => [1, 2].getD (k % 2) 0, lost := fun _ => false, dist := some (1, .dup), srvTimeout := false }

/-- **(c), FULL STATEMENT IS FALSE**: "a block download that returns normally under any single
    response disturbance has committed exactly the payload".  Closed counterexample: 32 bytes, a
    duplicated acknowledge — the call returns normally, the server has committed 32 bytes that
    differ from the payload (bytes 15..21 twice, bytes 22..28 missing). -/
theorem dup_ack_counterexample :
    (blockDownload dupEnv 200 false 0x2000 3 (List.range' 1 32) (some 32) false).2 = .ok ∧
    (blockDownload dupEnv 200 false 0x2000 3 (List.range' 1 32) (some 32) false).1.srv.committed =
      some (List.range' 1 14 ++ List.range' 15 7 ++ List.range' 15 7 ++ List.range' 29 4) ∧
    (List.range' 1 14 ++ List.range' 15 7 ++ List.range' 15 7 ++ List.range' 29 4) ≠ List.range' 1 32 := by
  decide +kernel


/-- `__init__` against an idle server in any other state (what an earlier transfer left behind),
    with anything in the client's queue -/
theorem init_idle (E : Env) (hE : Plain E) (s0 : Sys) (hidle : s0.srv.phase = .idle) (hl : E.lost s0.nreq = false)
    (idx sub n : Nat) (hn : n < 2 ^ 32) (crcReq : Bool) :
    ∃ s, init E s0 idx sub (some n) crcReq = (s, true) ∧ s.srv.phase = .recv ∧
      s.cl = { size := some n, blksize := E.blkOf s0.srv.k, crcSupported := s0.srv.crcCapable } ∧
      s.srv.blk = E.blkOf s0.srv.k ∧ s.srv.sseq = 0 ∧ s.srv.buf = [] ∧ s.srv.size = some n ∧
      s.srv.crc = (crcReq && s0.srv.crcCapable) ∧ s.queue = [] ∧ s.nreq = s0.nreq + 1 := by
  have hv : leVal (leBytes 4 n) = n := by
    rw [leVal_leBytes]; exact Nat.mod_eq_of_lt (by simpa using hn)
  have hmux : idx % 256 + 256 * (idx / 256) = idx := by omega
  have hl' : E.lost ({ s0 with cl := { size := some n }, queue := [] } : Sys).nreq = false := hl
  unfold init
  simp only [requestResponse, MAX_RETRIES, rrLoop]
  rw [sendReq_deliv E _ _ hl' hE.dist]
  cases crcReq <;> cases hc : s0.srv.crcCapable <;>
    simp [Spec.BlockDown.step, hidle, Spec.BlockDown.idleStep, REQUEST_BLOCK_DOWNLOAD, INITIATE_BLOCK_TRANSFER,
      CRC_SUPPORTED, BLOCK_SIZE_SPECIFIED, RESPONSE_ABORTED, RESPONSE_BLOCK_DOWNLOAD, hv, hmux,
      Spec.BlockDown.flagIf, readResponse, classify, hc]

/-- **(d) a following block download is clean**: on the same client and the same server, whatever the
    earlier (disturbed) transfer left in the client's queue and in the server's record — the server
    being idle again (`between_idle`) — an undisturbed block download completes and commits exactly
    its payload. -/
theorem next_block_download_clean (E : Env) (hE : Plain E) (hnl : ∀ n, E.lost n = false) (s0 : Sys)
    (hidle : s0.srv.phase = .idle) (fuel : Nat) (crcReq : Bool) (idx sub : Nat) (payload : Bytes)
    (h1 : 1 ≤ payload.length) (h2 : payload.length < 2 ^ 32) (hf : (chunks payload).length + 1 ≤ fuel) :
    (blockDownloadFrom E fuel s0 idx sub payload (some payload.length) crcReq).2 = .ok ∧
    (blockDownloadFrom E fuel s0 idx sub payload (some payload.length) crcReq).1.srv.committed = some payload := by
  obtain ⟨s, hi, e1, e2, e3, e4, e5, e6, e7, e8, e9⟩ :=
    init_idle E hE s0 hidle (hnl _) idx sub payload.length h2 crcReq
  have hck := chunks7_props payload.length payload (Nat.le_refl _)
  have hb := hE.blk s0.srv.k
  have hinv : Inv payload s ((chunks payload).map fun b => Item.write b false) := by
    refine ⟨e1, by rw [e2], by rw [e2, e3], by rw [e2]; rfl, by rw [e2]; simp; omega, by rw [e2]; simp; omega,
      by rw [e4, e2]; simp, ?_, ?_, by rw [e2], Or.inl e6, by rw [e2]; simp, hck.2, e8, ?_, by rw [e2]⟩
    · rw [e5, e2]; simp [chunks, hck.1]
    · rw [e2]; simp [chunks, hck.1]
    · simp only [chunks, hck.1]; intro h0; rw [h0] at h1; simp at h1
  obtain ⟨s1, hr, hd, hc, hsup, hsc, -, -, -, -⟩ :=
    run_fresh E hE payload (chunks payload) s fuel hinv (by rw [e4, e2]) (fun n _ => hnl n) (by rw [e2])
      (by intro _; rw [e2, e5]; rfl) hf
  have hcl := close_ok E hE payload s1 hd (hnl _)
    (by rw [hsc, hsup, e7, e2]; intro h; simp only [Bool.and_eq_true] at h; exact h.2) hc
  unfold blockDownloadFrom
  rw [hi]; simp only
  rw [hr]; simp only
  exact ⟨hcl.1, hcl.2.1⟩


/-! ### non-vacuity -/

/-- a lost first acknowledge (response 1) of a real transfer: SdoCommunicationError, the time-out
    abort is among the frames sent, nothing committed; `Tame` is satisfiable -/
def lostEnv : Env :=
  { blkOf := fun k => [3, 2].getD (k % 2) 0, lost := fun _ => false, dist := some (1, .lost), srvTimeout := false }

example : Tame lostEnv 1 .lost :=
  ⟨fun k => by have h : k % 2 = 0 ∨ k % 2 = 1 := by omega
               rcases h with h | h <;> simp [lostEnv, h], fun _ => rfl, rfl, rfl, .lost⟩

example : (blockDownload lostEnv 200 true 0x2000 3 (List.range' 1 30) (some 30) true).2 = .err ∧
    (blockDownload lostEnv 200 true 0x2000 3 (List.range' 1 30) (some 30) true).1.srv.committed = none ∧
    timeoutAbort ∈ sent (blockDownload lostEnv 200 true 0x2000 3 (List.range' 1 30) (some 30) true).1 := by
  decide +kernel

/-- the same transfer with the wrong command specifier on the end response (bit 0 intact): success,
    and the payload is committed -/
example : (blockDownload { lostEnv with dist := some (3, .setScs 3) } 200 true 0x2000 3 (List.range' 1 30)
      (some 30) true).2 = .ok ∧
    (blockDownload { lostEnv with dist := some (3, .setScs 3) } 200 true 0x2000 3 (List.range' 1 30)
      (some 30) true).1.srv.committed = some (List.range' 1 30) := by
  decide +kernel

end BD

namespace BU
open Canopen.Sdo.BlockUp

/-- every frame the client has emitted, newest first -/
def sent (s : Sys) : List Bytes := (s.log.filter fun e => e.kind == 0).map (·.frame)

theorem sent_deliver (E : Env) (rs : List Bytes) : ∀ s, sent (deliver E s rs) = sent s := by
  induction rs with
  | nil => intro s; rfl
  | cons r rs ih =>
    intro s
    simp only [deliver, ih]
    unfold deliver1
    split
    · split <;> simp [sent, List.filter_cons]
      split <;> simp
    · split
      · have : ∀ l : List Bytes, ((l.map (Ev.mk 5)).filter fun e => e.kind == 0) = [] := by
          intro l; induction l with
          | nil => rfl
          | cons x l ih => simp [List.filter_cons, ih]
        simp [sent, List.filter_append, List.filter_reverse, this]
      · simp [sent, List.filter_cons]

theorem sent_sendReq (E : Env) (s : Sys) (f : Bytes) : sent (sendReq E s f) = f :: sent s := by
  have h5 : ∀ l : List Bytes, ((l.map (Ev.mk 5)).filter fun e => e.kind == 0) = [] := by
    intro l; induction l with
    | nil => rfl
    | cons x l ih => simp [List.filter_cons, ih]
  unfold sendReq
  split
  · rw [sent_deliver]; simp [sent, List.filter_cons]
  · rw [sent_deliver]; simp [sent, List.filter_cons, List.filter_append, List.filter_reverse, h5]

theorem abort_timeout_frame (E : Env) (s : Sys) : sent (abort E s 0x05040000) = timeoutAbort :: sent s := by
  rw [abort, sent_sendReq]; simp [timeoutAbort, REQUEST_ABORTED, leBytes]

theorem classify_abort (a b d code : Nat) (hc : code < 2 ^ 32) :
    classify (BD.abortFrame a b d code) = .aborted code := by
  have hv : leVal (leBytes 4 code) = code := by
    rw [leVal_leBytes]; exact Nat.mod_eq_of_lt (by simpa using hc)
  have : List.take 4 (leBytes 4 code) = leBytes 4 code := by simp [leBytes]
  simp [classify, BD.abortFrame, RESPONSE_ABORTED, this, hv]

/-- **(a) block upload, `_retransmit`**: when the queue runs out without the expected segment the
    client emits the time-out abort frame and raises SdoCommunicationError (repaired loop) -/
theorem retransmit_timeout_aborts (E : Env) (s : Sys)
    (h : scan (ackBlock E s).cl.ackseq (ackBlock E s).queue = .timeout) :
    ∃ s', retransmit E s = (s', none) ∧ s'.raised = some .comm ∧ s'.cl.error = true ∧
      sent s' = timeoutAbort :: sent (ackBlock E s) := by
  simp only [retransmit, h]
  refine ⟨_, rfl, rfl, ?_, ?_⟩
  · simp [fail, setError]
  · show sent (abort E (setError { ackBlock E s with queue := [] }) 0x05040000) = _
    rw [abort_timeout_frame]; rfl

/-- **(a) a segment that never arrives** (`read` finds the queue empty, asks for retransmission,
    and nothing that fits comes): time-out abort, SdoCommunicationError -/
theorem segment_lost_aborts (E : Env) (s : Sys) (hq : s.queue = [])
    (h : scan (ackBlock E s).cl.ackseq (ackBlock E s).queue = .timeout) :
    ∃ s', readStep E s = (s', none) ∧ s'.raised = some .comm ∧
      sent s' = timeoutAbort :: sent (ackBlock E s) := by
  obtain ⟨s', h1, h2, -, h4⟩ := retransmit_timeout_aborts E s h
  refine ⟨s', ?_, h2, h4⟩
  simp only [readStep, readResponse, hq, andThen, h1]

/-- **(a) lost end response** (`_end_upload`) -/
theorem end_lost_aborts (E : Env) (s : Sys) (hq : s.queue = []) :
    ∃ s', endUpload E s = (s', none) ∧ s'.raised = some .comm ∧ s'.cl.error = true ∧
      sent s' = timeoutAbort :: sent s := by
  simp only [endUpload, readResponse, hq]
  refine ⟨_, rfl, rfl, ?_, ?_⟩
  · simp [fail, setError]
  · show sent (abort E (setError s) 0x05040000) = _
    rw [abort_timeout_frame]; rfl

/-- **(a) lost initiate response** (`request_response`) -/
theorem request_lost_aborts (E : Env) (s : Sys) (req : Bytes)
    (hq : (sendReq E { s with queue := [] } req).queue = []) :
    ∃ s', requestResponse E s req = (s', .timeout) ∧ s'.raised = some .comm ∧
      sent s' = timeoutAbort :: req :: sent s := by
  simp only [requestResponse, MAX_RETRIES, rrLoop, readResponse, hq]
  refine ⟨_, rfl, rfl, ?_⟩
  show sent (abort E (sendReq E { s with queue := [] } req) 0x05040000) = _
  rw [abort_timeout_frame, sent_sendReq]; rfl

/-- **(b) block upload: an abort frame raises SdoAbortedError with its code** — where a segment
    is expected … -/
theorem segment_abort_raises (E : Env) (s : Sys) (a b d code : Nat) (rest : List Bytes) (hc : code < 2 ^ 32)
    (hq : s.queue = BD.abortFrame a b d code :: rest) :
    ∃ s', readStep E s = (s', none) ∧ s'.raised = some (.aborted code) ∧ sent s' = sent s := by
  simp only [readStep, readResponse, hq, classify_abort a b d code hc]
  exact ⟨_, rfl, rfl, rfl⟩

/-- … where the end response is expected … -/
theorem end_abort_raises (E : Env) (s : Sys) (a b d code : Nat) (rest : List Bytes) (hc : code < 2 ^ 32)
    (hq : s.queue = BD.abortFrame a b d code :: rest) :
    ∃ s', endUpload E s = (s', none) ∧ s'.raised = some (.aborted code) ∧ sent s' = sent s := by
  simp only [endUpload, readResponse, hq, classify_abort a b d code hc]
  exact ⟨_, rfl, rfl, rfl⟩

/-- … and where the initiate response is expected. -/
theorem request_abort_raises (E : Env) (s : Sys) (req : Bytes) (a b d code : Nat) (rest : List Bytes)
    (hc : code < 2 ^ 32) (hq : (sendReq E { s with queue := [] } req).queue = BD.abortFrame a b d code :: rest) :
    ∃ s', requestResponse E s req = (s', .aborted code) ∧ s'.raised = some (.aborted code) := by
  simp only [requestResponse, MAX_RETRIES, rrLoop, readResponse, hq, classify_abort a b d code hc]
  exact ⟨_, rfl, rfl⟩

theorem between_idle (s : Sys) : (between s).srv.phase = .idle ∧ (between s).pending = [] := ⟨rfl, rfl⟩

/-- the lost-response disturbance of C07 as a channel -/
def lostPar (E : Env) (at_ : Nat) (crcReq : Bool) (idx sub : Nat) : C13.Par :=
  { cfg := E.cfg, chan := (C13.distChan at_ Kind.lost), g := (C13.trueG E.cfg), crcReq := crcReq, idx := idx,
    sub := sub }

theorem lostPar_lossOnly (E : Env) (at_ : Nat) (crcReq : Bool) (idx sub : Nat) :
    C13.LossOnly (lostPar E at_ crcReq idx sub) := by
  intro n f
  simp only [lostPar, C13.distChan, Canopen.Sdo.BlockDown.distort]
  split
  · exact Or.inl rfl
  · exact Or.inr rfl

/-- **(c) block upload, lost response**: conformant server holding any value (1 ≤ length < 2^32),
    CRC negotiated or not, anything sitting in the client's queue beforehand, whichever of the
    server's responses (index `at_`: initiate response, any segment, end response) is lost — a
    block upload that returns normally returns exactly the server's value. -/
theorem block_upload_lost_ok_exact (E : Env) (at_ : Nat) (hd : E.dist = some (at_, .lost))
    (hx : E.cfg.crcXor = 0) (he : E.cfg.endB0 = none) (h1 : 1 ≤ E.cfg.data.length)
    (h2 : E.cfg.data.length < 2 ^ 32) (fuel idx sub : Nat) (crcReq : Bool) (q : List Bytes) (v : Bytes)
    (hok : (blockUploadFrom E fuel (C13.startQ q) idx sub crcReq).2 = .ok v) : v = E.cfg.data :=
  C13.upload_loss_safe E (lostPar E at_ crcReq idx sub) (C13.deliv_dist E at_ .lost hd C13.spot_lost)
    (lostPar_lossOnly E at_ crcReq idx sub) hx he h1 h2 fuel q v hok

/-- **(c) block upload, a lost segment is repaired**: the response lost is a segment frame
    (1 ≤ `at_` ≤ number of segments) — the upload completes with exactly the server's value. -/
theorem block_upload_lost_segment_repaired (E : Env) (at_ : Nat) (hd : E.dist = some (at_, .lost))
    (hx : E.cfg.crcXor = 0) (he : E.cfg.endB0 = none) (h1 : 1 ≤ E.cfg.data.length)
    (h2 : E.cfg.data.length < 2 ^ 32) (hat1 : 1 ≤ at_) (hat : at_ ≤ Spec.BlockUp.nseg E.cfg)
    (fuel idx sub : Nat) (crcReq : Bool) (hf : Spec.BlockUp.nseg E.cfg + 1 ≤ fuel) (q : List Bytes) :
    (blockUploadFrom E fuel (C13.startQ q) idx sub crcReq).2 = .ok E.cfg.data :=
  C13.upload_single_loss E (lostPar E at_ crcReq idx sub) (C13.deliv_dist E at_ .lost hd C13.spot_lost)
    (lostPar_lossOnly E at_ crcReq idx sub) hx he h1 h2 at_ hat1 hat
    (fun n f hn => by simp [lostPar, C13.distChan, hn]) fuel hf q

/-- non-vacuity: 30 bytes, no CRC, the fourth segment lost, a stale frame queued beforehand -/
def lostDemo : Env :=
  { cfg := { data := List.range' 1 30, crcCapable := false, sizeInd := true },
    chan := (fun _ f => some f), dist := some (4, .lost) }

example : (blockUploadFrom lostDemo 100 (C13.startQ [[0x60, 0, 0x20, 3, 0, 0, 0, 0]]) 0x2000 3 false).2 =
    .ok (List.range' 1 30) := by
  decide +kernel

/-- 30 bytes (5 segments), no CRC, one response hit by `k` -/
def distDemo (n at_ : Nat) (k : Kind) : Env :=
  { cfg := { data := List.range' 1 n, crcCapable := false, sizeInd := true },
    chan := (fun _ f => some f), dist := some (at_, k) }

/-- **Late and duplicated segments, closed instances** (not proved in general; every position is
    exercised by the `bdist up` operations): a segment that arrives late (with the repetition the
    client asked for) or twice is repaired — first, middle and last segment of the value — except
    where the surplus frame lands in front of the end response, which fails loudly
    (SdoCommunicationError after abort 0x05040001): a duplicate of the last segment, a late only
    segment, a duplicate delivered with the client's next frame. -/
theorem late_dup_instances :
    (blockUpload (distDemo 30 1 .late) 100 0x2000 3 false).2 = .ok (List.range' 1 30) ∧
    (blockUpload (distDemo 30 3 .late) 100 0x2000 3 false).2 = .ok (List.range' 1 30) ∧
    (blockUpload (distDemo 30 5 .late) 100 0x2000 3 false).2 = .ok (List.range' 1 30) ∧
    (blockUpload (distDemo 30 1 .dup) 100 0x2000 3 false).2 = .ok (List.range' 1 30) ∧
    (blockUpload (distDemo 30 3 .dup) 100 0x2000 3 false).2 = .ok (List.range' 1 30) ∧
    (blockUpload (distDemo 30 5 .dup) 100 0x2000 3 false).2 = .err ∧
    (blockUpload (distDemo 30 5 .dup) 100 0x2000 3 false).1.raised = some .comm ∧
    (blockUpload (distDemo 5 1 .late) 100 0x2000 3 false).2 = .err ∧
    (blockUpload (distDemo 5 1 .late) 100 0x2000 3 false).1.raised = some .comm ∧
    (blockUpload (distDemo 30 3 .dupDeferred) 100 0x2000 3 false).2 = .err ∧
    (blockUpload (distDemo 30 3 .dupDeferred) 100 0x2000 3 false).1.raised = some .comm := by
  decide +kernel

/-- **Inherent in the protocol, not a defect of the client**: sequence numbers restart at 1 with
    every sub-block, so a duplicate of the FIRST segment of a sub-block that arrives only after that
    sub-block has been acknowledged (here: 900 bytes = 127 + 2 segments, no CRC, the duplicate of
    segment 1 delivered with the client's acknowledge) cannot be told from the first segment of
    the next sub-block: bytes 890 … 896 of the value returned are bytes 1 … 7.  With CRC
    negotiated the transfer fails (`C13.crc_guard`). -/
theorem deferred_dup_counterexample :
    (blockUpload (distDemo 900 1 .dupDeferred) 200 0x2000 3 false).2 =
      .ok (List.range' 1 889 ++ List.range' 1 7 ++ List.range' 897 4) := by
  decide +kernel

end BU
end Canopen.C07
