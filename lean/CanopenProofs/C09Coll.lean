/-
C09, collections — saving and reading back *all* PDOs of a node (`node.rpdo.save()`,
`node.tpdo.save()`, `node.pdo.save()`, `node.pdo.read()`, …).

Theorems about `CanopenModel/Pdo/Collection.lean` (the model of `PdoBase.save`, `PdoBase.read`,
`PdoMaps.__init__`, `PDO.__init__`) over the single-PDO model `CanopenModel/Pdo/Config.lean`,
composed with the strict device with several PDOs (`writeMulti` / `readMulti` of
Spec/StrictPdoDevice.lean).  They lift the single-PDO theorems of CanopenProofs/C09.lean to any
number of PDOs.

Vocabulary (Lemmas/PdoColl.lean):
* `saveAll D ms` / `readAll D src ms` — the loop over the maps `ms` (dictionary view and attributes of
  each `PdoMap`), in list order; `multiDev` — the strict device with several PDOs as the client's peer;
* `Item` — one PDO: dictionary view `od`, attributes `cfg`, the device's PDO `dev` in its prior state;
  `Item.Ok` — the COB-ID was never set (`cfg.cob = none`: never read, never set up), or `Domain`
  holds (well-formed configuration, strict PDO in *any* prior state);
  `Item.plan` — `[]` for an untouched PDO, else the safe procedure `plan od cfg cob cfg.map`;
  `Item.final` — the device's PDO afterwards: unchanged for an untouched one, else `finalDev`;
  `Item.out` — what `PdoMap.save` returns (mapping, COB-IDs subscribed to);
* `Apart ds` — the PDOs of the device are different objects (no PDO owns an object of a later one);
* subscriptions: `Net.Subs` is `Network.subscribers` (the C10 model), `abs t j` the list of callbacks
  subscribed to CAN id `j` (an absent key and an empty list both give `[]`), `NodupAll` "no callback
  twice in a list" (an invariant of every table built through `Network.subscribe`, C10);
  `mapCb o isTx n` — `on_message` of map `(isTx, n)` of node object `o`; `MapSt.subs` — the COB-IDs a
  map handed to `network.subscribe` (by `read`, `save` or `subscribe`); `tableAfter o t visited` — the
  table after the subscribe calls of the maps `visited`, starting from the table `t`;
* `planAll ms ns` — concatenation, in list order, of the plans of the maps whose COB-ID is set, the
  mappings extended by `ns` dummy entries (`ns` all zero unless a device refuses to zero a count).
-/
import CanopenModel.Pdo.Config
import CanopenModel.Pdo.Collection
import CanopenModel.Spec.StrictPdoDevice
import CanopenProofs.Lemmas.PdoConfig
import CanopenProofs.Lemmas.PdoStrict
import CanopenProofs.Lemmas.PdoColl
import CanopenProofs.Lemmas.Network
import CanopenProofs.C09

namespace Canopen.C09
open Canopen.Pdo Canopen.Spec.StrictPdo Canopen.Gen.PdoConfig

/-! ## T save_all_order_any_device — the write order of a whole collection against *any* device -/

/-- Whatever the device answers: the writes `PdoBase.save` puts on the bus are a prefix of the
    concatenation, **in the order of the collection**, of the safe procedures of the maps whose
    COB-ID is set — a map that was never read nor set up contributes **no write at all** and does
    not end the loop — and they are the whole concatenation whenever the call returns normally
    (one result per map).  No dummy entries are involved unless the device refused to zero a count. -/
theorem save_all_order_any_device {σ} (D : Dev σ) (ms : List (Od × Cfg)) :
    ∀ st : Run σ, ∃ evs ns, (saveAll D ms st).1.log = st.log ++ evs ∧
      attempted evs <+: planAll ms ns ∧
      (∀ outs, (saveAll D ms st).2 = .ok outs →
        attempted evs = planAll ms ns ∧ outs.length = ms.length) ∧
      ((∀ m ∈ ms, ∀ c, zeroRefused m.1 c ∉ evs) → planAll ms ns = planAll ms []) := by
  induction ms with
  | nil =>
    intro st
    refine ⟨[], [], by simp [saveAll, M.pure], by simp [attempted, planAll], ?_, fun _ => rfl⟩
    intro outs h
    simp only [saveAll, M.pure, Except.ok.injEq] at h
    subst h
    exact ⟨rfl, rfl⟩
  | cons m rest ih =>
    intro st
    obtain ⟨od, cfg⟩ := m
    cases hcob : cfg.cob with
    | none =>
      have hs : save D od cfg st = (st, .ok { map := cfg.map, subs := [] }) := by
        simp [save, hcob, M.pure]
      obtain ⟨e2, ns', hl2, hp2, hf2, hz2⟩ := ih st
      cases h2 : saveAll D rest st with
      | mk st2 r2 =>
        rw [h2] at hl2 hf2
        rw [saveAll_cons_ok D od cfg rest hs h2]
        have hpl : ∀ ns, planAll ((od, cfg) :: rest) ns = planAll rest ns.tail := by
          intro ns; simp only [planAll, hcob, planOf, List.nil_append]
        refine ⟨e2, 0 :: ns', hl2, by rw [hpl]; exact hp2, ?_, ?_⟩
        · intro outs h
          cases r2 with
          | error e => cases h
          | ok os =>
            simp only [Except.map, Except.ok.injEq] at h
            subst h
            obtain ⟨a, b⟩ := hf2 os rfl
            exact ⟨by rw [hpl]; exact a, by simp [b]⟩
        · intro hno
          rw [hpl, hpl]
          exact hz2 fun m hm c => hno m (by simp [hm]) c
    | some cob =>
      obtain ⟨e1, n, hl1, hp1, hfull1, hz1⟩ := save_order_any_device D od cfg cob st hcob
      have hpl : ∀ ns, planAll ((od, cfg) :: rest) ns
          = plan od cfg cob (fillMap cfg.map (ns.headD 0)) ++ planAll rest ns.tail := by
        intro ns; simp only [planAll, hcob, planOf]
      cases h1 : save D od cfg st with
      | mk st1 r1 =>
        rw [h1] at hl1 hfull1
        simp only [] at hl1 hfull1
        cases r1 with
        | error e =>
          rw [saveAll_cons_err D od cfg rest h1]
          refine ⟨e1, [n], hl1, ?_, (by intro outs h; cases h), ?_⟩
          · rw [hpl]
            exact List.IsPrefix.trans hp1 (List.prefix_append _ _)
          · intro hno
            have hn : n = 0 := hz1 fun c => hno (od, cfg) (by simp) c
            subst hn
            exact planAll_nil _ [0] (by simp)
        | ok o =>
          obtain ⟨ha1, _, _⟩ := hfull1 o rfl
          obtain ⟨e2, ns', hl2, hp2, hf2, hz2⟩ := ih st1
          cases h2 : saveAll D rest st1 with
          | mk st2 r2 =>
            rw [h2] at hl2 hf2
            simp only [] at hl2 hf2
            rw [saveAll_cons_ok D od cfg rest h1 h2]
            refine ⟨e1 ++ e2, n :: ns', by simp only []; rw [hl2, hl1, List.append_assoc], ?_, ?_, ?_⟩
            · rw [hpl, attempted_append, ha1]
              exact (List.prefix_append_right_inj _).mpr hp2
            · intro outs h
              cases r2 with
              | error e => cases h
              | ok os =>
                simp only [Except.map, Except.ok.injEq] at h
                subst h
                obtain ⟨a, b⟩ := hf2 os rfl
                refine ⟨?_, by simp [b]⟩
                rw [hpl, attempted_append, ha1, a]
                rfl
            · intro hno
              have hn : n = 0 := hz1 fun c hmem =>
                hno (od, cfg) (by simp) c (List.mem_append_left _ hmem)
              have hr := hz2 fun m hm c hmem =>
                hno m (by simp [hm]) c (List.mem_append_right _ hmem)
              subst hn
              rw [hpl, hpl]
              simp only [List.headD_cons, List.tail_cons, List.headD_nil, List.tail_nil]
              rw [hr]

/-- `node.pdo.save()` is `node.rpdo.save()` followed by `node.tpdo.save()`: a loop over a
    concatenation is the loops one after the other. -/
theorem save_all_append {σ} (D : Dev σ) (a b : List (Od × Cfg)) :
    saveAll D (a ++ b)
      = M.bind (saveAll D a) fun x => M.bind (saveAll D b) fun y => M.pure (x ++ y) := by
  induction a with
  | nil =>
    funext st
    simp only [List.nil_append, saveAll, M.bind, M.pure]
    cases saveAll D b st with
    | mk st' r => cases r <;> rfl
  | cons m a ih =>
    obtain ⟨od, cfg⟩ := m
    funext st
    simp only [List.cons_append, saveAll, ih, M.bind, M.pure]
    cases save D od cfg st with
    | mk st1 r1 =>
      cases r1 with
      | error e => rfl
      | ok o =>
        simp only []
        cases saveAll D a st1 with
        | mk st2 r2 =>
          cases r2 with
          | error e => rfl
          | ok os =>
            simp only []
            cases saveAll D b st2 with
            | mk st3 r3 => cases r3 <;> rfl

/-! ## T save_all_strict_device -/

theorem saveAll_strict_aux : ∀ (items : List Item) (pre : List PdoDev) (log : List Ev),
    (∀ it ∈ items, it.Ok) →
    (∀ p ∈ pre, ∀ it ∈ items, p.owns it.dev.comIdx = false ∧ p.owns it.dev.mapIdx = false) →
    Apart (items.map (·.dev)) →
    ∃ evs, saveAll multiDev (items.map fun it => (it.od, it.cfg)) ⟨pre ++ items.map (·.dev), log⟩
        = (⟨pre ++ items.map Item.final, log ++ evs⟩, .ok (items.map Item.out)) ∧
      AllOk evs ∧ attempted evs = items.flatMap Item.plan := by
  intro items
  induction items with
  | nil =>
    intro pre log _ _ _
    exact ⟨[], by simp [saveAll, M.pure], AllOk_nil, by simp [attempted]⟩
  | cons it rest ih =>
    intro pre log hok hpre hap
    have hap' : (∀ b ∈ rest.map (·.dev), it.dev.owns b.comIdx = false ∧ it.dev.owns b.mapIdx = false) ∧
        Apart (rest.map (·.dev)) := by
      simpa [Apart, List.pairwise_cons] using hap
    -- this PDO alone
    have hone : ∃ e1, save multiDev it.od it.cfg ⟨pre ++ it.dev :: rest.map (·.dev), log⟩
        = (⟨pre ++ it.final :: rest.map (·.dev), log ++ e1⟩, .ok it.out) ∧ AllOk e1 ∧
        attempted e1 = it.plan := by
      cases hcob : it.cfg.cob with
      | none =>
        refine ⟨[], ?_, AllOk_nil, by simp [attempted, Item.plan, planOf, hcob]⟩
        simp [save, hcob, M.pure, Item.final, finalOf, Item.out, subsOf]
      | some cob =>
        have h : Domain it.od it.dev it.cfg cob := hok it (by simp) cob hcob
        have hfree : Free pre it.od.comIdx it.od.mapIdx := by
          intro p hp
          rw [h.comIdx, h.mapIdx]
          exact hpre p hp it (by simp)
        obtain ⟨e1, he, hall, hplan⟩ := strict_device_accepts it.od it.dev it.cfg cob h log
        obtain ⟨eq, _, _⟩ := Sim_save it.od pre (rest.map (·.dev)) hfree it.cfg it.dev log
          h.comIdx.symm h.mapIdx.symm
        rw [he] at eq
        refine ⟨e1, ?_, hall, ?_⟩
        · rw [eq]; simp [Item.final, finalOf, Item.out, subsOf, hcob]
        · rw [hplan]; simp [Item.plan, planOf, hcob, fillMap_zero]
    obtain ⟨e1, hs1, hall1, hpl1⟩ := hone
    obtain ⟨e2, hs2, hall2, hpl2⟩ := ih (pre ++ [it.final]) (log ++ e1)
      (fun x hx => hok x (by simp [hx]))
      (by
        intro p hp x hx
        rcases List.mem_append.mp hp with hp | hp
        · exact hpre p hp x (by simp [hx])
        · simp only [List.mem_singleton] at hp
          subst hp
          rw [Item.final_owns, Item.final_owns]
          exact hap'.1 x.dev (List.mem_map.mpr ⟨x, hx, rfl⟩))
      hap'.2
    have r1 : pre ++ [it.final] ++ rest.map (·.dev) = pre ++ it.final :: rest.map (·.dev) := by simp
    have r2 : pre ++ [it.final] ++ rest.map Item.final = pre ++ it.final :: rest.map Item.final := by
      simp
    rw [r1, r2] at hs2
    refine ⟨e1 ++ e2, ?_, AllOk_append hall1 hall2, ?_⟩
    · simp only [List.map_cons]
      rw [saveAll_cons_ok multiDev it.od it.cfg _ hs1 hs2]
      simp [Except.map, List.append_assoc]
    · rw [attempted_append, hpl1, hpl2]; simp [List.flatMap_cons]

/-- **Saving a whole collection to a strict device.**  Every PDO of the node is either untouched
    (COB-ID never set) or holds a well-formed configuration, the device's PDOs are strict, distinct
    and in **any** prior state (enabled with other mappings, …): then `PdoBase.save` returns
    normally, no write is refused, the write sequence is the safe procedure of every configured PDO,
    one after the other in the order of the collection; afterwards every configured PDO holds the
    CiA 301 encoding of its configuration (`finalDev`) and every untouched PDO is exactly as it
    was — it received no write. -/
theorem save_all_strict_device (items : List Item) (hok : ∀ it ∈ items, it.Ok)
    (hap : Apart (items.map (·.dev))) (log : List Ev) :
    ∃ evs, saveAll multiDev (items.map fun it => (it.od, it.cfg)) ⟨items.map (·.dev), log⟩
        = (⟨items.map Item.final, log ++ evs⟩, .ok (items.map Item.out)) ∧
      AllOk evs ∧ attempted evs = items.flatMap Item.plan ∧
      (∀ it ∈ items, it.cfg.cob = none → it.final = it.dev ∧ it.plan = []) ∧
      (∀ it ∈ items, ∀ cob, it.cfg.cob = some cob →
        it.final = finalDev it.dev it.cfg cob ∧ it.plan = plan it.od it.cfg cob it.cfg.map) := by
  obtain ⟨evs, h1, h2, h3⟩ := saveAll_strict_aux items [] log hok (by intro p hp; cases hp) hap
  refine ⟨evs, by simpa using h1, h2, h3, ?_, ?_⟩
  · intro it _ hc
    simp [Item.final, finalOf, Item.plan, planOf, hc]
  · intro it _ cob hc
    simp [Item.final, finalOf, Item.plan, planOf, hc, fillMap_zero]

/-! ## T read_all_back -/

theorem readAll_focus_aux {ι : Type} (od : ι → Od) (dev : ι → PdoDev) (P : ι → ReadOut → Prop) :
    ∀ (xs : List ι) (pre : List PdoDev) (log : List Ev),
    (∀ x ∈ xs, (od x).comIdx = (dev x).comIdx ∧ (od x).mapIdx = (dev x).mapIdx ∧
      ∀ l, ∃ r l', Pdo.read strictDev (od x) .live Cfg.fresh ⟨dev x, l⟩ = (⟨dev x, l'⟩, .ok r) ∧
        P x r) →
    (∀ p ∈ pre, ∀ x ∈ xs, p.owns (dev x).comIdx = false ∧ p.owns (dev x).mapIdx = false) →
    Apart (xs.map dev) →
    ∃ rs log', readAll multiDev .live (xs.map fun x => (od x, Cfg.fresh)) ⟨pre ++ xs.map dev, log⟩
        = (⟨pre ++ xs.map dev, log'⟩, .ok rs) ∧ rs.length = xs.length ∧
      ∀ (i : Nat) (x : ι) (r : ReadOut), xs[i]? = some x → rs[i]? = some r → P x r := by
  intro xs
  induction xs with
  | nil =>
    intro pre log _ _ _
    exact ⟨[], log, by simp [readAll, M.pure], rfl, by intro i x r h; simp at h⟩
  | cons x rest ih =>
    intro pre log hx hpre hap
    have hap' : (∀ b ∈ rest.map dev, (dev x).owns b.comIdx = false ∧ (dev x).owns b.mapIdx = false) ∧
        Apart (rest.map dev) := by
      simpa [Apart, List.pairwise_cons] using hap
    obtain ⟨hci, hmi, hrd⟩ := hx x (by simp)
    obtain ⟨r, l', hr, hP⟩ := hrd log
    have hfree : Free pre (od x).comIdx (od x).mapIdx := by
      intro p hp
      rw [hci, hmi]
      exact hpre p hp x (by simp)
    obtain ⟨eq, _, _⟩ := Sim_read (od x) pre (rest.map dev) hfree .live Cfg.fresh (dev x) log
      hci.symm hmi.symm
    rw [hr] at eq
    simp only [] at eq
    obtain ⟨rs, log'', hs2, hlen2, hf2⟩ := ih (pre ++ [dev x]) l'
      (fun y hy => hx y (by simp [hy]))
      (by
        intro p hp y hy
        rcases List.mem_append.mp hp with hp | hp
        · exact hpre p hp y (by simp [hy])
        · simp only [List.mem_singleton] at hp
          subst hp
          exact hap'.1 (dev y) (List.mem_map.mpr ⟨y, hy, rfl⟩))
      hap'.2
    have r1 : pre ++ [dev x] ++ rest.map dev = pre ++ dev x :: rest.map dev := by simp
    rw [r1] at hs2
    refine ⟨r :: rs, log'', ?_, by simp [hlen2], ?_⟩
    · simp only [List.map_cons]
      rw [readAll_cons_ok multiDev .live (od x) Cfg.fresh _ eq hs2]
      rfl
    · intro i y r' hy hr'
      cases i with
      | zero =>
        simp only [List.getElem?_cons_zero, Option.some.injEq] at hy hr'
        subst hy hr'
        exact hP
      | succ i =>
        simp only [List.getElem?_cons_succ] at hy hr'
        exact hf2 i y r' hy hr'

/-- one PDO together with the dictionary view the second, fresh node has of it -/
structure RItem where
  it : Item
  odB : Od

/-- what the fresh node needs: for a configured PDO a dictionary that describes it and knows the
    mapped objects (`Reader`); for an untouched PDO, that it can read whatever the device holds -/
def RItem.Readable (x : RItem) : Prop :=
  (∀ cob, x.it.cfg.cob = some cob → Reader x.odB x.it.dev x.it.cfg) ∧
  (x.it.cfg.cob = none →
    x.odB.comIdx = x.it.dev.comIdx ∧ x.odB.mapIdx = x.it.dev.mapIdx ∧
    ∀ l, ∃ r l', Pdo.read strictDev x.odB .live Cfg.fresh ⟨x.it.dev, l⟩ = (⟨x.it.dev, l'⟩, .ok r))

/-- what the fresh node reads for this PDO: the saved configuration (COB-ID, flags, transmission
    type, mapping, for 254/255 the timers; subscribed iff enabled), or — for an untouched PDO —
    what reading the PDO in its *prior* state gives -/
def RItem.ReadsBack (x : RItem) (r : ReadOut) : Prop :=
  (∀ cob, x.it.cfg.cob = some cob →
    r.cfg.cob = some cob ∧ r.cfg.enabled = x.it.cfg.enabled ∧ r.cfg.rtr = x.it.cfg.rtr ∧
    r.cfg.tt = some (x.it.cfg.tt.getD x.it.dev.tt) ∧ r.cfg.map = x.it.cfg.map ∧
    (x.it.cfg.tt.getD x.it.dev.tt ≥ 254 →
      (∀ v, x.it.cfg.inhibit = some v → r.cfg.inhibit = some v) ∧
      (∀ v, x.it.cfg.event = some v → r.cfg.event = some v) ∧
      (∀ v, x.it.cfg.sync = some v → r.cfg.sync = some v)) ∧
    r.subs = if x.it.cfg.enabled then [cob] else []) ∧
  (x.it.cfg.cob = none →
    ∃ l l', Pdo.read strictDev x.odB .live Cfg.fresh ⟨x.it.dev, l⟩ = (⟨x.it.dev, l'⟩, .ok r))

/-- **Read-back of the whole collection.**  After `PdoBase.save` of the collection to the strict
    device (any prior state), `PdoBase.read` on a *fresh* node returns normally with one result per
    PDO, in the order of the collection, does not change the device, and for every PDO: a
    configured one reads back identically (`ReadsBack`), an untouched one reads what the device held
    before — nothing else was written to it. -/
theorem read_all_back (xs : List RItem) (hok : ∀ x ∈ xs, x.it.Ok) (hrd : ∀ x ∈ xs, x.Readable)
    (hap : Apart (xs.map (·.it.dev))) (log logB : List Ev) :
    (saveAll multiDev (xs.map fun x => (x.it.od, x.it.cfg)) ⟨xs.map (·.it.dev), log⟩).1.dev
        = xs.map (·.it.final) ∧
    ∃ rs logB', readAll multiDev .live (xs.map fun x => (x.odB, Cfg.fresh))
          ⟨xs.map (·.it.final), logB⟩ = (⟨xs.map (·.it.final), logB'⟩, .ok rs) ∧
      rs.length = xs.length ∧
      ∀ (i : Nat) (x : RItem) (r : ReadOut), xs[i]? = some x → rs[i]? = some r → x.ReadsBack r := by
  constructor
  · obtain ⟨evs, h, _⟩ := save_all_strict_device (xs.map (·.it))
      (by intro it hit; obtain ⟨x, hx, rfl⟩ := List.mem_map.mp hit; exact hok x hx)
      (by simpa [List.map_map, Function.comp_def] using hap) log
    simp only [List.map_map, Function.comp_def] at h
    rw [h]
  · have hap2 : Apart (xs.map fun x => x.it.final) := by
      unfold Apart at hap ⊢
      rw [List.pairwise_map] at hap ⊢
      refine hap.imp ?_
      intro a b hab
      rw [Item.final_owns, Item.final_owns]
      obtain ⟨h1, h2⟩ := finalOf_idx b.it.dev b.it.cfg b.it.cfg.cob
      simp only [Item.final, h1, h2]
      exact hab
    have hxs : ∀ x ∈ xs, x.odB.comIdx = x.it.final.comIdx ∧ x.odB.mapIdx = x.it.final.mapIdx ∧
        ∀ l, ∃ r l', Pdo.read strictDev x.odB .live Cfg.fresh ⟨x.it.final, l⟩
          = (⟨x.it.final, l'⟩, .ok r) ∧ x.ReadsBack r := ?_
    · obtain ⟨rs, logB', h, hlen, hf⟩ := readAll_focus_aux (fun x : RItem => x.odB)
        (fun x => x.it.final) RItem.ReadsBack xs [] logB hxs (by intro p hp; cases hp) hap2
      exact ⟨rs, logB', by simpa using h, hlen, hf⟩
    · intro x hx
      obtain ⟨hR, hU⟩ := hrd x hx
      obtain ⟨i1, i2⟩ := finalOf_idx x.it.dev x.it.cfg x.it.cfg.cob
      cases hcob : x.it.cfg.cob with
      | some cob =>
        have hD : Domain x.it.od x.it.dev x.it.cfg cob := hok x hx cob hcob
        have hB : Reader x.odB x.it.dev x.it.cfg := hR cob hcob
        have hfin : x.it.final = finalDev x.it.dev x.it.cfg cob := by
          simp [Item.final, finalOf, hcob]
        refine ⟨by rw [hB.comIdx]; exact i1.symm, by rw [hB.mapIdx]; exact i2.symm, ?_⟩
        intro l
        obtain ⟨_, r, l', hr, q1, q2, q3, q4, _, q6, q7, _, q9⟩ :=
          read_back x.it.od x.odB x.it.dev x.it.cfg cob hD hB [] l
        refine ⟨r, l', by rw [hfin]; exact hr, ?_, ?_⟩
        · intro cob' hc'
          rw [hcob] at hc'
          cases hc'
          exact ⟨q1, q2, q3, q4, q6, q7, q9⟩
        · intro hn; rw [hcob] at hn; cases hn
      | none =>
        obtain ⟨u1, u2, u3⟩ := hU hcob
        have hfin : x.it.final = x.it.dev := by simp [Item.final, finalOf, hcob]
        refine ⟨by rw [hfin]; exact u1, by rw [hfin]; exact u2, ?_⟩
        intro l
        obtain ⟨r, l', hr⟩ := u3 l
        refine ⟨r, l', by rw [hfin]; exact hr, ?_, fun _ => ⟨l, l', hr⟩⟩
        intro cob' hc'
        rw [hcob] at hc'
        cases hc'

/-! ## T pdo_maps_order — which maps a collection visits, and in which order -/

/-- `node.rpdo` / `node.tpdo` hold exactly the maps of their direction that the dictionary
    describes with a number in 1..512, each once, in **increasing PDO number** (the order in which
    CiA 301 lays their objects out in the dictionary), and `node.pdo` holds the receive maps followed
    by the transmit maps. -/
theorem pdo_maps_order (isTx : Bool) (maps : List MapSt) :
    (pdoMaps isTx maps).Pairwise (fun a b => a.n < b.n) ∧
    (∀ m ∈ pdoMaps isTx maps, m ∈ maps ∧ m.isTx = isTx ∧ 1 ≤ m.n ∧ m.n ≤ 512) ∧
    (∀ m ∈ maps, m.isTx = isTx → 1 ≤ m.n → m.n ≤ 512 → ∃ m' ∈ pdoMaps isTx maps, m'.n = m.n) ∧
    collMaps .pdo maps = collMaps .rpdo maps ++ collMaps .tpdo maps := by
  have hN : (if isTx then TPDO_COUNT else RPDO_COUNT) = 512 := by cases isTx <;> rfl
  have hkey : ∀ k m, maps.find? (MapSt.isKey isTx (k + 1)) = some m →
      m ∈ maps ∧ m.isTx = isTx ∧ m.n = k + 1 := by
    intro k m h
    have hp := List.find?_some h
    simp only [MapSt.isKey, Bool.and_eq_true, beq_iff_eq] at hp
    exact ⟨List.mem_of_find?_eq_some h, hp.1, hp.2⟩
  refine ⟨?_, ?_, ?_, rfl⟩
  · unfold pdoMaps
    refine List.Pairwise.filterMap _ ?_ List.pairwise_lt_range
    intro k k' hlt b hb b' hb'
    rw [(hkey k b hb).2.2, (hkey k' b' hb').2.2]
    omega
  · intro m hm
    unfold pdoMaps at hm
    obtain ⟨k, hk, hf⟩ := List.mem_filterMap.mp hm
    rw [hN, List.mem_range] at hk
    obtain ⟨h1, h2, h3⟩ := hkey k m hf
    exact ⟨h1, h2, by omega, by omega⟩
  · intro m hm ht h1 h512
    have hsome : (maps.find? (MapSt.isKey isTx (m.n - 1 + 1))).isSome := by
      rw [List.find?_isSome]
      refine ⟨m, hm, ?_⟩
      simp only [MapSt.isKey, Bool.and_eq_true, beq_iff_eq]
      exact ⟨ht, by omega⟩
    obtain ⟨m', hm'⟩ := Option.isSome_iff_exists.mp hsome
    refine ⟨m', ?_, by rw [(hkey _ _ hm').2.2]; omega⟩
    unfold pdoMaps
    refine List.mem_filterMap.mpr ⟨m.n - 1, ?_, hm'⟩
    rw [hN, List.mem_range]
    omega

/-! ## Non-vacuity: a node with three TPDOs, the first one never touched -/

/-- TPDO1 on the device: **enabled** under COB-ID 201h, nothing mapped -/
def exDev1 : PdoDev := { exDev with count := 0 }

/-- TPDO1 of the node was never read nor set up -/
def exUntouched : Item :=
  { od := exOd, cfg := Cfg.fresh, dev := exDev1 }

/-- TPDO2, configured: the dictionary and device of `C09.lean`'s example moved to 1801h / 1A01h -/
def exItem2 : Item :=
  { od := { exOd with comIdx := 0x1801, mapIdx := 0x1A01 }, cfg := exCfg,
    dev := { exDev with comIdx := 0x1801, mapIdx := 0x1A01 } }

/-- TPDO3, configured, disabled, empty mapping -/
def exItem3 : Item :=
  { od := { exOd with comIdx := 0x1802, mapIdx := 0x1A02 },
    cfg := { exCfg with cob := some 0x3C5, enabled := false, map := [], inhibit := none },
    dev := { exDev with comIdx := 0x1802, mapIdx := 0x1A02, cobWord := 0x80000385 } }

example : Apart ([exUntouched, exItem2, exItem3].map (·.dev)) := by
  simp [Apart, exUntouched, exItem2, exItem3, exDev1, exDev, PdoDev.owns]

example : exUntouched.Ok := by intro cob h; cases h

example : exItem2.Ok := by
  intro cob hc
  have : cob = 0x185 := by simp [exItem2, exCfg] at hc; omega
  subst this
  exact {
    cob_eq := rfl
    cob_lt := by decide
    strict := rfl
    noCurtis := rfl
    comIdx := rfl
    mapIdx := rfl
    distinct := by decide
    od1 := by decide
    tt := by intro t h; cases h; decide
    inhibit := by intro v h; cases h; decide
    event := by intro v h; cases h; decide
    sync := by intro v h; cases h
    od0 := by decide
    odEntries := by
      intro j hj
      have : j = 0 ∨ j = 1 := by simp [exItem2, exCfg] at hj; omega
      rcases this with rfl | rfl <;> decide
    fits := by decide
    entries := by
      intro e he
      simp only [exItem2, exCfg, List.mem_cons, List.not_mem_nil, or_false] at he
      rcases he with rfl | rfl <;> decide
    total := by decide }

example : exItem3.Ok := by
  intro cob hc
  have : cob = 0x3C5 := by simp [exItem3] at hc; omega
  subst this
  exact {
    cob_eq := rfl
    cob_lt := by decide
    strict := rfl
    noCurtis := rfl
    comIdx := rfl
    mapIdx := rfl
    distinct := by decide
    od1 := by decide
    tt := by intro t h; cases h; decide
    inhibit := by intro v h; cases h
    event := by intro v h; cases h; decide
    sync := by intro v h; cases h
    od0 := by decide
    odEntries := by intro j hj; simp [exItem3] at hj
    fits := by decide
    entries := by intro e he; simp [exItem3] at he
    total := by decide }

/-- the fresh node can read the untouched TPDO1 (still enabled under 201h) -/
example : (⟨exUntouched, exOd⟩ : RItem).Readable := by
  refine ⟨fun cob h => (by cases h), fun _ => ⟨rfl, rfl, fun l => ?_⟩⟩
  obtain ⟨l', h⟩ := Reads_read strictDev exOd .live Cfg.fresh exDev1 0x40000201 1 none none none []
    (Reads_live exOd true 1 exDev1 _ (by decide) rfl)
    (Reads_live exOd true 2 exDev1 _ (by decide) rfl)
    (fun h => absurd h (by decide)) (fun h => absurd h (by decide)) (fun h => absurd h (by decide))
    (Reads_live exOd false 0 exDev1 0 (by decide) rfl)
    (fun j hj => absurd hj (by simp)) (fun e he => by cases he) l
  exact ⟨_, l', h⟩

/-- the whole scenario evaluated on the model: TPDO1 receives no write and keeps its (enabled!)
    state, TPDO2 and TPDO3 get their safe procedures in that order -/
example :
    (attempted (saveAll multiDev ([exUntouched, exItem2, exItem3].map fun it => (it.od, it.cfg))
        ⟨[exUntouched, exItem2, exItem3].map (·.dev), []⟩).1.log,
     (saveAll multiDev ([exUntouched, exItem2, exItem3].map fun it => (it.od, it.cfg))
        ⟨[exUntouched, exItem2, exItem3].map (·.dev), []⟩).1.dev.map (·.cobWord)) =
    ([(0x1801, 1, 4, 0xC0000185), (0x1801, 2, 1, 255), (0x1801, 3, 2, 10), (0x1801, 5, 2, 100),
      (0x1A01, 0, 1, 0), (0x1A01, 1, 4, 0x60410010), (0x1A01, 2, 4, 0x60640020), (0x1A01, 0, 1, 2),
      (0x1801, 1, 4, 0x40000185),
      (0x1802, 1, 4, 0xC00003C5), (0x1802, 2, 1, 255), (0x1802, 5, 2, 100),
      (0x1A02, 0, 1, 0), (0x1A02, 0, 1, 0)],
     [0x40000201, 0x40000185, 0xC00003C5]) := by decide +kernel

example : ((pdoMaps true [⟨true, 3, exOd, Cfg.fresh, []⟩, ⟨false, 1, exOd, Cfg.fresh, []⟩,
    ⟨true, 1, exOd, Cfg.fresh, []⟩]).map (·.n)) = [1, 3] := by decide +kernel

/-! ## T subscribe_independent_of_table -/

section subs
open Canopen.Net (Subs Cb subscribeMany)
open Canopen.C10 (abs NodupAll)

theorem count_one_of_mem : ∀ {l : List Cb}, l.Nodup → ∀ {x : Cb}, x ∈ l → l.count x = 1 := by
  intro l
  induction l with
  | nil => intro _ x hx; cases hx
  | cons a l ih =>
    intro h x hx
    obtain ⟨ha, hl⟩ := List.nodup_cons.mp h
    rw [List.count_cons]
    by_cases e : a = x
    · subst e
      simp [List.count_eq_zero.mpr ha]
    · have hx' : x ∈ l := by
        rcases List.mem_cons.mp hx with h' | h'
        · exact absurd h'.symm e
        · exact h'
      simp [e, ih hl hx']

/-- **Subscribing does not depend on what the subscriber table held before.**  Whatever
    `Network.subscribers` contained (no entry for the COB-ID, an entry with an empty list left by an
    earlier unsubscribe, an application listener, the map of another node object consuming the same
    PDO, the map itself from an earlier call): after the maps `visited` made their
    `network.subscribe(cob, on_message)` calls (through `read()`, `save()`, `PdoMap.subscribe()` or
    `PdoBase.subscribe()`), each of them is among the subscribers of every COB-ID it subscribed to
    **exactly once**; every list still starts with what it held before, in the same order (no
    foreign subscription is lost or moved); and the number of occurrences of any other callback —
    foreign ones, maps that did not subscribe — is what it was, in every list. -/
theorem subscribe_independent_of_table (o : Nat) (s : Subs) (hs : NodupAll (abs s))
    (visited : List MapSt) :
    (∀ m ∈ visited, ∀ c ∈ m.subs,
      (abs (tableAfter o s visited) c).count (mapCb o m.isTx m.n) = 1) ∧
    (∀ j, abs s j <+: abs (tableAfter o s visited) j) ∧
    (∀ j x, (∀ m ∈ visited, x = mapCb o m.isTx m.n → j ∉ m.subs) →
      (abs (tableAfter o s visited) j).count x = (abs s j).count x) ∧
    NodupAll (abs (tableAfter o s visited)) := by
  unfold tableAfter
  refine ⟨?_, fun j => subscribeMany_prefix s _ j, ?_, C10.nodup_subscribeMany s _ hs⟩
  · intro m hm c hc
    rw [subscribeMany_count]
    split
    · exact count_one_of_mem (hs c) ‹_›
    · have : (c, mapCb o m.isTx m.n) ∈ subsCalls o visited :=
        List.mem_flatMap.mpr ⟨m, hm, List.mem_map.mpr ⟨c, hc, rfl⟩⟩
      rw [if_pos this]
  · intro j x h
    rw [subscribeMany_count]
    split
    · rfl
    · rename_i hx
      have : (j, x) ∉ subsCalls o visited := by
        intro hmem
        obtain ⟨m, hm, hin⟩ := List.mem_flatMap.mp hmem
        obtain ⟨c, hcs, heq⟩ := List.mem_map.mp hin
        simp only [Prod.mk.injEq] at heq
        obtain ⟨e1, e2⟩ := heq
        subst e1
        exact h m hm e2.symm hcs
      rw [if_neg this, List.count_eq_zero.mpr hx]

/-- **`PdoBase.subscribe()`** (`node.rpdo/tpdo/pdo.subscribe()`, `setup_pdos(upload=False)`) on the
    maps `sel` of a node (each key once), from **any** prior subscriber table: every map that is
    enabled and has a COB-ID is subscribed to it exactly once; a map that is not enabled is not
    subscribed by the call (its count is unchanged in every list); what was subscribed before is
    still there, in order; and no other callback is added or removed anywhere. -/
theorem collection_subscribe (o : Nat) (s : Subs) (hs : NodupAll (abs s)) (sel : List MapSt)
    (hkeys : ∀ a ∈ sel, ∀ b ∈ sel, a.isTx = b.isTx → a.n = b.n → a = b)
    (hfresh : ∀ m ∈ sel, m.subs = []) :
    (∀ m ∈ sel, ∀ c, m.cfg.enabled = true → m.cfg.cob = some c →
      (abs (tableAfter o s (sel.map MapSt.subscribe)) c).count (mapCb o m.isTx m.n) = 1) ∧
    (∀ m ∈ sel, m.cfg.enabled = false → ∀ j,
      (abs (tableAfter o s (sel.map MapSt.subscribe)) j).count (mapCb o m.isTx m.n)
        = (abs s j).count (mapCb o m.isTx m.n)) ∧
    (∀ j, abs s j <+: abs (tableAfter o s (sel.map MapSt.subscribe)) j) ∧
    (∀ j x, (∀ m ∈ sel, x ≠ mapCb o m.isTx m.n) →
      (abs (tableAfter o s (sel.map MapSt.subscribe)) j).count x = (abs s j).count x) := by
  obtain ⟨h1, h2, h3, _⟩ := subscribe_independent_of_table o s hs (sel.map MapSt.subscribe)
  refine ⟨?_, ?_, h2, ?_⟩
  · intro m hm c he hc
    have := h1 (MapSt.subscribe m) (List.mem_map.mpr ⟨m, hm, rfl⟩) c
      (by simp [MapSt.subscribe, subscribeCalls, he, hc])
    simpa [MapSt.subscribe] using this
  · intro m hm he j
    refine h3 j _ ?_
    intro m' hm' heq
    obtain ⟨m0, hm0, rfl⟩ := List.mem_map.mp hm'
    obtain ⟨e1, e2⟩ := mapCb_inj o _ _ _ _ heq
    have : m = m0 := hkeys m hm m0 hm0 (by simpa [MapSt.subscribe] using e1)
      (by simpa [MapSt.subscribe] using e2)
    subst this
    simp [MapSt.subscribe, subscribeCalls, he, hfresh m hm]
  · intro j x hx
    refine h3 j x ?_
    intro m' hm' heq
    obtain ⟨m0, hm0, rfl⟩ := List.mem_map.mp hm'
    exact absurd (by simpa [MapSt.subscribe] using heq) (hx m0 hm0)

/-- PDO linking: a map of another node object already listens on 183h, an application listener on
    184h, and 304h was subscribed and unsubscribed before (the key stays with an empty list) -/
def exTable : Subs :=
  ((Net.unsubscribe (Net.subscribe (Net.subscribe (Net.subscribe ⟨fun _ => none⟩
    0x183 (mapCb 2 true 1)) 0x184 (.user 1)) 0x304 (.user 0)) 0x304 (some (.user 0))).getD
      ⟨fun _ => none⟩)

/-- RPDO1 (183h, enabled), RPDO2 (304h, disabled), TPDO1 (184h, enabled) of node object 1 -/
def exMaps : List MapSt :=
  [⟨false, 1, exOd, { exCfg with cob := some 0x183 }, []⟩,
   ⟨false, 2, exOd, { exCfg with cob := some 0x304, enabled := false }, []⟩,
   ⟨true, 1, exOd, { exCfg with cob := some 0x184 }, []⟩]

example : (exTable.get 0x304, exTable.get 0x305) = (some [], none) := by decide +kernel

example :
    (abs (tableAfter 1 exTable (exMaps.map MapSt.subscribe)) 0x183,
     abs (tableAfter 1 exTable (exMaps.map MapSt.subscribe)) 0x184,
     abs (tableAfter 1 exTable (exMaps.map MapSt.subscribe)) 0x304) =
    ([mapCb 2 true 1, mapCb 1 false 1], [.user 1, mapCb 1 true 1], []) := by decide +kernel

end subs

end Canopen.C09
