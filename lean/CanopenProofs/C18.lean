/-
C18 — LSS fast scan finds the one unconfigured device's identity, bit for bit; LSS services.

Property theorems about `CanopenModel/Lss.lean` (the model of `canopen/lss.py` `LssMaster` as wired
by `Network.__init__`) over the **generated** constants of `Generated/Lss.lean`, composed with the
independent CiA 305 slave and request grammar of `Spec/LssSlave.lean`.

* `fastscan_finds`: every 128-bit address (induction over the 32 bit positions, then the four parts);
* `fastscan_empty_bus`, `fastscan_not_for_configured`: failure when nobody takes part;
* `frames_wellformed` (+ `_history`): every request of every API call, against **any** peer;
* `services_configure`, `services_inquire`: answer / LSS error for every reply of any peer;
  `services_conformant_slave`: the same calls against the CiA 305 slave;
* `selective_switch_confirmed`, `selective_switch_other_address`;
* `tables_match_cia305`: the generated constants are the standard's.
Helper lemmas are in `CanopenProofs/Lemmas/Lss.lean`; reply latency below the response time-out
(and silence at or above it) is in `CanopenProofs/C18Latency.lean`.
-/
import CanopenProofs.Lemmas.Lss

namespace Canopen.C18
open Canopen Canopen.Lss Canopen.Gen.Lss Canopen.Spec.Lss Canopen.LssProofs

/-! ## T fastscan_finds -/

/-- For every LSS address (each part < 2³²), every slave state that is *unconfigured and waiting*
    (any `LSSPos`, any half-done selective switch, anything stored), every content of the master's
    response queue and every earlier traffic: `fast_scan()` returns `(True, [vendor, product,
    revision, serial])`, the slave ends in configuration state with nothing else changed but
    `LSSPos`, and exactly 1 + 4·33 requests were sent. -/
theorem fastscan_finds (i : Ident) (hv : i.vendor < 2 ^ 32) (hp : i.product < 2 ^ 32)
    (hr : i.revision < 2 ^ 32) (hsn : i.serial < 2 ^ 32)
    (s : Slave) (hi : s.ident = i) (hw : s.config = false) (hu : s.unconfigured = true)
    (queue : List Bytes) (log : List Frame) :
    ∃ st', fastScan step { peer := s, queue := queue, sent := log } =
        (st', .ok (true, some [i.vendor, i.product, i.revision, i.serial])) ∧
      st'.peer = { s with pos := 0, config := true } ∧
      ∃ l, st'.sent = log ++ l ∧ l.length = 133 := by
  have hv0 : (Req.fastScan 0 128 0 0).Valid := by simp [Req.Valid]
  rw [fastScan, fastScanMessage_slave _ _ _ _ _ hv0, onFastScan_reset hw hu]
  simp only [List.isEmpty_cons, Bool.not_false]
  -- part 0
  obtain ⟨st1, e1, p1, l1, s1, n1⟩ := scanParts_step (i := i) (sub := 0) (by omega) hv 3
    { peer := { s with pos := 0 }, queue := [], sent := log ++ [(masterCobId, encode (.fastScan 0 128 0 0))] }
    ⟨hi, hw, hu, rfl⟩ [0, 0, 0, 0] rfl
  rw [e1]
  obtain ⟨st2, e2, p2, l2, s2, n2⟩ := scanParts_step (i := i) (sub := 1) (by omega) hp 2 st1
    (by rw [p1]; exact ⟨hi, by simp, hu, rfl⟩) ([0, 0, 0, 0].set 0 (i.part 0)) rfl
  rw [show scanParts step 3 st1 _ (0 + 1) (0 + 1 &&& 3) = _ from e2]
  obtain ⟨st3, e3, p3, l3, s3, n3⟩ := scanParts_step (i := i) (sub := 2) (by omega) hr 1 st2
    (by rw [p2, p1]; exact ⟨hi, by simp, hu, rfl⟩)
    (([0, 0, 0, 0].set 0 (i.part 0)).set 1 (i.part 1)) rfl
  rw [show scanParts step 2 st2 _ (1 + 1) (1 + 1 &&& 3) = _ from e3]
  obtain ⟨st4, e4, p4, l4, s4, n4⟩ := scanParts_step (i := i) (sub := 3) (by omega) hsn 0 st3
    (by rw [p3, p2, p1]; exact ⟨hi, by simp, hu, rfl⟩)
    ((([0, 0, 0, 0].set 0 (i.part 0)).set 1 (i.part 1)).set 2 (i.part 2)) rfl
  rw [show scanParts step 1 st3 _ (2 + 1) (2 + 1 &&& 3) = _ from e4]
  refine ⟨st4, by simp [scanParts, Ident.part], by simp [p4, p3, p2, p1], 
    (masterCobId, encode (.fastScan 0 128 0 0)) :: (l1 ++ l2 ++ l3 ++ l4), ?_, by simp [n1, n2, n3, n4]⟩
  simp [s4, s3, s2, s1]

/-- the hypotheses are satisfiable by a slave with leftovers of earlier traffic -/
example : ∃ s : Slave, s.ident = ⟨0x12345678, 0x9ABCDEF0, 1, 0x80000000⟩ ∧ s.config = false ∧
    s.unconfigured = true ∧ s.pos = 3 ∧ s.sel = 2 :=
  ⟨{ Slave.fresh ⟨0x12345678, 0x9ABCDEF0, 1, 0x80000000⟩ with pos := 3, sel := 2 }, by decide⟩

/-! ## T services (configure / store / inquire), for every reply of any peer -/

/-- the frames that are on the slave→master COB-ID after the master's request `m` has gone out -/
def answers {σ : Type} (step : PeerStep σ) (st : MSt σ) (m : Bytes) : List Bytes :=
  received (step st.peer (masterCobId, m)).2

/-- what the property demands of configure node-ID / configure bit timing / store configuration:
    silence, a wrong command specifier and a non-zero error code are all the LSS error -/
def expectConfigure (cs : Nat) : List Bytes → Except Err Unit
  | [] => .error .lss
  | r :: _ => if r.headD 0 = cs ∧ r.getD 1 0 = 0 then .ok () else .error .lss

def expectInquireAddress (cs : Nat) : List Bytes → Except Err Nat
  | [] => .error .lss
  | r :: _ => if r.headD 0 = cs then .ok (leVal ((r.drop 1).take 4)) else .error .lss

def expectInquireNodeId : List Bytes → Except Err Nat
  | [] => .error .lss
  | r :: _ => if r.headD 0 = 0x5E then .ok (r.getD 1 0) else .error .lss

/-- the first answer, if there is one, is a full LSS frame -/
def FirstIsFrame (l : List Bytes) : Prop := ∀ r ∈ l.head?, r.length = 8

theorem sendConfigure_spec {σ : Type} (step : PeerStep σ) (st : MSt σ) (cs v1 v2 : Nat)
    (hcs : cs < 256) (hn : needsResponse cs = true) (h1 : v1 < 256) (h2 : v2 < 256)
    (hf : FirstIsFrame (answers step st [cs, v1, v2, 0, 0, 0, 0, 0])) :
    (sendConfigure step st cs v1 v2).2 =
      expectConfigure cs (answers step st [cs, v1, v2, 0, 0, 0, 0, 0]) := by
  simp only [sendConfigure, request, msg3, hcs, h1, h2, and_self, if_true, sendCommand, List.headD_cons, hn]
  simp only [answers, masterCobId, LSS_TX_COBID] at hf ⊢
  generalize received (step st.peer (2021, [cs, v1, v2, 0, 0, 0, 0, 0])).2 = l at hf
  cases l with
  | nil => rfl
  | cons r rest =>
    obtain ⟨a, b, c, d, e, f, g, k, rfl⟩ := len8 (hf r (by simp))
    simp only [takeResponse, if_true, decConfigure, expectConfigure, List.headD_cons, List.getD_cons_succ,
      List.getD_cons_zero, ERROR_NONE]
    by_cases ha : a = cs <;> by_cases hb : b = 0 <;> simp [ha, hb]


/-- configure node-ID (every n < 256), configure bit timing (every index < 256), store configuration,
    against **any** peer and from **any** master state (stale queue content included): the outcome is
    a function of the first frame that is on 0x7E4 after the request — `ok` iff it carries the
    request's specifier and error code 0; every non-zero error code, every other specifier, and
    silence give `LssError`. -/
theorem services_configure {σ : Type} (step : PeerStep σ) (st : MSt σ) :
    (∀ n, n < 256 → FirstIsFrame (answers step st (encode (.configNodeId n))) →
      (configureNodeId step st n).2 = expectConfigure 0x11 (answers step st (encode (.configNodeId n)))) ∧
    (∀ b, b < 256 → FirstIsFrame (answers step st (encode (.configBitTiming 0 b))) →
      (configureBitTiming step st b).2 =
        expectConfigure 0x13 (answers step st (encode (.configBitTiming 0 b)))) ∧
    (FirstIsFrame (answers step st (encode .store)) →
      (storeConfiguration step st).2 = expectConfigure 0x17 (answers step st (encode .store))) := by
  refine ⟨fun n hn hf => ?_, fun b hb hf => ?_, fun hf => ?_⟩
  · exact sendConfigure_spec step st CS_CONFIGURE_NODE_ID n 0 (by decide) (by decide) hn (by decide) hf
  · exact sendConfigure_spec step st CS_CONFIGURE_BIT_TIMING 0 b (by decide) (by decide) (by decide) hb hf
  · exact sendConfigure_spec step st CS_STORE_CONFIGURATION 0 0 (by decide) (by decide) (by decide) (by decide) hf

/-- inquire vendor-id / product-code / revision / serial (cs 0x5A + k) and inquire node-ID: the
    call returns the little-endian value (resp. the byte) of the first answer when it carries the
    request's specifier; another specifier or silence give `LssError`. -/
theorem services_inquire {σ : Type} (step : PeerStep σ) (st : MSt σ) :
    (∀ k, k < 4 → FirstIsFrame (answers step st (encode (.inquire k))) →
      (inquireLssAddress step st (0x5A + k)).2 =
        expectInquireAddress (0x5A + k) (answers step st (encode (.inquire k)))) ∧
    (FirstIsFrame (answers step st (encode (.inquire 4))) →
      (inquireNodeId step st).2 = expectInquireNodeId (answers step st (encode (.inquire 4)))) := by
  refine ⟨fun k hk hf => ?_, fun hf => ?_⟩
  · have hn : needsResponse (0x5A + k) = true := by
      have : k = 0 ∨ k = 1 ∨ k = 2 ∨ k = 3 := by omega
      rcases this with rfl | rfl | rfl | rfl <;> decide
    have hc : 0x5A + k < 256 := by omega
    simp only [inquireLssAddress, request, msg3, hc, and_self, if_true, sendCommand, List.headD_cons, hn,
      Nat.zero_lt_succ]
    simp only [answers, masterCobId, LSS_TX_COBID, encode, Req.cs, Req.params] at hf ⊢
    generalize received (step st.peer (2021, [0x5A + k, 0, 0, 0, 0, 0, 0, 0])).2 = l at hf
    cases l with
    | nil => rfl
    | cons r rest =>
      obtain ⟨a, b, c, d, e, f, g, j, rfl⟩ := len8 (hf r (by simp))
      simp only [takeResponse, if_true, decInquireAddress, expectInquireAddress, List.headD_cons]
      by_cases ha : a = 0x5A + k <;> simp [ha]
  · have hn : needsResponse 94 = true := by decide
    simp only [inquireNodeId, request, msg3, CS_INQUIRE_NODE_ID, Nat.reduceLT, and_self, if_true, sendCommand,
      List.headD_cons, hn]
    simp only [answers, masterCobId, LSS_TX_COBID, encode, Req.cs, Req.params] at hf ⊢
    generalize received (step st.peer (2021, [94, 0, 0, 0, 0, 0, 0, 0])).2 = l at hf
    cases l with
    | nil => rfl
    | cons r rest =>
      obtain ⟨a, b, c, d, e, f, g, j, rfl⟩ := len8 (hf r (by simp))
      simp only [if_true, takeResponse, decInquireNodeId, expectInquireNodeId,
        List.headD_cons, CS_INQUIRE_NODE_ID]
      by_cases ha : a = 94 <;> simp [ha]


/-- DESIGN §5 names one theorem `services`; it is the conjunction of the two above: for every node
    id / bit-timing index 0..255 and every peer, the call returns the answer, or raises the LSS error
    on a non-zero error code, a wrong command specifier, or silence. -/
theorem services {σ : Type} (step : PeerStep σ) (st : MSt σ) :
    ((∀ n, n < 256 → FirstIsFrame (answers step st (encode (.configNodeId n))) →
      (configureNodeId step st n).2 = expectConfigure 0x11 (answers step st (encode (.configNodeId n)))) ∧
    (∀ b, b < 256 → FirstIsFrame (answers step st (encode (.configBitTiming 0 b))) →
      (configureBitTiming step st b).2 =
        expectConfigure 0x13 (answers step st (encode (.configBitTiming 0 b)))) ∧
    (FirstIsFrame (answers step st (encode .store)) →
      (storeConfiguration step st).2 = expectConfigure 0x17 (answers step st (encode .store)))) ∧
    ((∀ k, k < 4 → FirstIsFrame (answers step st (encode (.inquire k))) →
      (inquireLssAddress step st (0x5A + k)).2 =
        expectInquireAddress (0x5A + k) (answers step st (encode (.inquire k)))) ∧
    (FirstIsFrame (answers step st (encode (.inquire 4))) →
      (inquireNodeId step st).2 = expectInquireNodeId (answers step st (encode (.inquire 4))))) :=
  And.intro (services_configure step st) (services_inquire step st)

/-! ## T services against the CiA 305 slave -/

/-- the same calls against the CiA 305 slave in configuration state: admissible node-IDs and bit
    timings are accepted and become pending, others are refused with `LssError` and change nothing;
    store succeeds or raises according to the device; the inquiries return the slave's own values. -/
theorem services_conformant_slave (s : Slave) (hc : s.config = true) (queue : List Bytes) (log : List Frame) :
    let st : MSt Slave := { peer := s, queue := queue, sent := log }
    (∀ n, n < 256 →
      (configureNodeId step st n).2 = (if nodeIdAdmissible n then .ok () else .error .lss) ∧
      (configureNodeId step st n).1.peer = (if nodeIdAdmissible n then { s with pending := n } else s)) ∧
    (∀ b, b < 256 →
      (configureBitTiming step st b).2 = (if bitTimingAdmissible 0 b then .ok () else .error .lss) ∧
      (configureBitTiming step st b).1.peer =
        (if bitTimingAdmissible 0 b then { s with bitIdx := some b } else s)) ∧
    (s.storeErr < 256 →
      (storeConfiguration step st).2 = (if s.storeErr = 0 then .ok () else .error .lss) ∧
      (storeConfiguration step st).1.peer =
        (if s.storeErr = 0 then { s with stored := some (s.pending, s.bitIdx) } else s)) ∧
    (s.nodeId < 256 → (inquireNodeId step st).2 = .ok s.nodeId ∧ (inquireNodeId step st).1.peer = s) ∧
    (∀ k, k < 4 → s.ident.part k < 2 ^ 32 →
      (inquireLssAddress step st (0x5A + k)).2 = .ok (s.ident.part k) ∧
      (inquireLssAddress step st (0x5A + k)).1.peer = s) := by
  intro st
  refine ⟨fun n hn => ?_, fun b hb => ?_, fun hse => ?_, fun hnid => ?_, fun k hk hp => ?_⟩
  · have hm : msg3 CS_CONFIGURE_NODE_ID n 0 = some (encode (.configNodeId n)) := by
      simp [msg3, hn, CS_CONFIGURE_NODE_ID, encode, Req.cs, Req.params]
    have hv : (Req.configNodeId n).Valid := hn
    simp only [configureNodeId, sendConfigure, request, hm, sendCommand_slave _ _ hv, handle, onConfigNodeId,
      hc, st]
    by_cases ha : nodeIdAdmissible n = true <;>
      simp [ha, Req.cs, needsResponse, ListMessageNeedResponse, takeResponse, resp, padTo, decConfigure,
        CS_CONFIGURE_NODE_ID, ERROR_NONE]
  · have hm : msg3 CS_CONFIGURE_BIT_TIMING 0 b = some (encode (.configBitTiming 0 b)) := by
      simp [msg3, hb, CS_CONFIGURE_BIT_TIMING, encode, Req.cs, Req.params]
    have hv : (Req.configBitTiming 0 b).Valid := ⟨by decide, hb⟩
    simp only [configureBitTiming, sendConfigure, request, hm, sendCommand_slave _ _ hv, handle,
      onConfigBitTiming, hc, st]
    by_cases ha : bitTimingAdmissible 0 b = true <;>
      simp [ha, Req.cs, needsResponse, ListMessageNeedResponse, takeResponse, resp, padTo, decConfigure,
        CS_CONFIGURE_BIT_TIMING, ERROR_NONE]
  · have hm : msg3 CS_STORE_CONFIGURATION 0 0 = some (encode .store) := by
      simp [msg3, CS_STORE_CONFIGURATION, encode, Req.cs, Req.params]
    have hv : Req.store.Valid := trivial
    simp only [storeConfiguration, sendConfigure, request, hm, sendCommand_slave _ _ hv, handle, onStore,
      hc, st]
    by_cases ha : s.storeErr = 0
    · simp [ha, Req.cs, needsResponse, ListMessageNeedResponse, takeResponse, resp, padTo, decConfigure,
        CS_STORE_CONFIGURATION, ERROR_NONE]
    · have : s.storeErr % 256 ≠ 0 := by omega
      simp [ha, this, Req.cs, needsResponse, ListMessageNeedResponse, takeResponse, resp, padTo, decConfigure,
        CS_STORE_CONFIGURATION, ERROR_NONE]
  · have hm : msg3 CS_INQUIRE_NODE_ID 0 0 = some (encode (.inquire 4)) := by
      simp [msg3, CS_INQUIRE_NODE_ID, encode, Req.cs, Req.params]
    have hv : (Req.inquire 4).Valid := by simp [Req.Valid]
    simp only [inquireNodeId, request, hm, sendCommand_slave _ _ hv, handle, onInquire, hc, st]
    simp [Req.cs, needsResponse, ListMessageNeedResponse, takeResponse, resp, padTo, decInquireNodeId,
      CS_INQUIRE_NODE_ID, Nat.mod_eq_of_lt hnid]
  · have hm : msg3 (0x5A + k) 0 0 = some (encode (.inquire k)) := by
      have : 0x5A + k < 256 := by omega
      simp [msg3, this, encode, Req.cs, Req.params]
    have hv : (Req.inquire k).Valid := by simp only [Req.Valid]; omega
    have hn : needsResponse (0x5A + k) = true := by
      have : k = 0 ∨ k = 1 ∨ k = 2 ∨ k = 3 := by omega
      rcases this with rfl | rfl | rfl | rfl <;> decide
    simp only [inquireLssAddress, request, hm, sendCommand_slave _ _ hv, handle, onInquire, hc, st]
    simp [Req.cs, hn, hk, takeResponse, resp, padTo, decInquireAddress, leBytes, leVal4_leBytes _ hp]


/-! ## T selective_switch_confirmed -/

/-- a selective switch addressed to the slave's own identity is confirmed: the call returns `True`
    and the slave is in configuration state (whatever was left of an earlier sequence, whatever was in
    the master's queue) -/
theorem selective_switch_confirmed (s : Slave) (hw : s.config = false)
    (hv : s.ident.vendor < 2 ^ 32) (hp : s.ident.product < 2 ^ 32) (hr : s.ident.revision < 2 ^ 32)
    (hsn : s.ident.serial < 2 ^ 32) (queue : List Bytes) (log : List Frame) :
    sendSwitchStateSelective step { peer := s, queue := queue, sent := log }
        s.ident.vendor s.ident.product s.ident.revision s.ident.serial =
      ({ peer := { s with sel := 0, config := true }, queue := [],
         sent := log ++ [frameOf (.selective 0 s.ident.vendor), frameOf (.selective 1 s.ident.product),
                         frameOf (.selective 2 s.ident.revision), frameOf (.selective 3 s.ident.serial)] },
       .ok true) := by
  rw [selective_run _ _ _ _ _ hv hp hr hsn]
  simp [onSelective, hw, takeResponse, decSelective, resp, padTo, CS_SWITCH_STATE_SELECTIVE_RESPONSE]

/-- addressed to any other identity the slave stays silent and in waiting state, and the call
    raises the LSS error -/
theorem selective_switch_other_address (s : Slave) (hw : s.config = false) (v p r sn : Nat)
    (hv : v < 2 ^ 32) (hp : p < 2 ^ 32) (hr : r < 2 ^ 32) (hsn : sn < 2 ^ 32)
    (hne : (⟨v, p, r, sn⟩ : Ident) ≠ s.ident) (queue : List Bytes) (log : List Frame) :
    let res := sendSwitchStateSelective step { peer := s, queue := queue, sent := log } v p r sn
    res.2 = .error .lss ∧ res.1.peer = { s with sel := 0 } := by
  intro res
  have hne' : ¬ (v = s.ident.vendor ∧ p = s.ident.product ∧ r = s.ident.revision ∧ sn = s.ident.serial) := by
    intro ⟨h1, h2, h3, h4⟩
    apply hne
    cases hs : s.ident
    simp [hs] at h1 h2 h3 h4
    simp [h1, h2, h3, h4]
  simp only [res]
  rw [selective_run _ _ _ _ _ hv hp hr hsn]
  by_cases h1 : v = s.ident.vendor <;> by_cases h2 : p = s.ident.product <;>
    by_cases h3 : r = s.ident.revision <;> by_cases h4 : sn = s.ident.serial <;>
    simp_all [onSelective, takeResponse, decSelective]


/-! ## T fastscan_empty_bus, fastscan_not_for_configured -/

/-- nobody answers the opening request (no slave present): failure after exactly one frame -/
theorem fastscan_empty_bus {σ : Type} (step : PeerStep σ) (st : MSt σ)
    (h : answers step st (encode (.fastScan 0 128 0 0)) = []) :
    (fastScan step st).2 = .ok (false, none) ∧
    (fastScan step st).1.sent = st.sent ++ [frameOf (.fastScan 0 128 0 0)] := by
  have hm : msgFastScan 0 128 0 0 = some (encode (.fastScan 0 128 0 0)) :=
    msgFastScan_eq _ _ _ _ (by simp [Req.Valid])
  have hn : needsResponse ((encode (.fastScan 0 128 0 0)).headD 0) = true := by decide
  simp only [answers, masterCobId] at h
  simp only [fastScan, fastScanMessage, request, hm, sendCommand, hn, LSS_TX_COBID, h, takeResponse,
    decFastScan, frameOf, masterCobId]
  simp

/-- the bus without any LSS slave -/
def silent : PeerStep Unit := fun p _ => (p, [])

example (q : List Bytes) (log : List Frame) :
    (fastScan silent { peer := (), queue := q, sent := log }).2 = .ok (false, none) :=
  (fastscan_empty_bus silent _ rfl).1

/-- a slave that has a node-ID, or is already in configuration state, does not take part:
    the scan fails and the slave is untouched -/
theorem fastscan_not_for_configured (s : Slave) (h : s.config = true ∨ s.unconfigured = false)
    (queue : List Bytes) (log : List Frame) :
    let res := fastScan Spec.Lss.step { peer := s, queue := queue, sent := log }
    res.2 = .ok (false, none) ∧ res.1.peer = s := by
  intro res
  have hv : (Req.fastScan 0 128 0 0).Valid := by simp [Req.Valid]
  simp only [res, fastScan, fastScanMessage_slave _ _ _ _ _ hv, onFastScan_ignored h]
  simp

/-! ## T tables_match_cia305 -/

/-- the generated constants are the CiA 305 ones -/
theorem tables_match_cia305 :
    LSS_TX_COBID = masterCobId ∧ LSS_RX_COBID = slaveCobId ∧
    CS_SWITCH_STATE_GLOBAL = (Req.switchGlobal 0).cs ∧
    CS_CONFIGURE_NODE_ID = (Req.configNodeId 0).cs ∧
    CS_CONFIGURE_BIT_TIMING = (Req.configBitTiming 0 0).cs ∧
    CS_ACTIVATE_BIT_TIMING = (Req.activateBitTiming 0).cs ∧
    CS_STORE_CONFIGURATION = Req.store.cs ∧
    [CS_SWITCH_STATE_SELECTIVE_VENDOR_ID, CS_SWITCH_STATE_SELECTIVE_PRODUCT_CODE,
      CS_SWITCH_STATE_SELECTIVE_REVISION_NUMBER, CS_SWITCH_STATE_SELECTIVE_SERIAL_NUMBER] =
      (List.range 4).map (fun k => (Req.selective k 0).cs) ∧
    [CS_IDENTIFY_REMOTE_SLAVE_VENDOR_ID, CS_IDENTIFY_REMOTE_SLAVE_PRODUCT_CODE,
      CS_IDENTIFY_REMOTE_SLAVE_REVISION_NUMBER_LOW, CS_IDENTIFY_REMOTE_SLAVE_REVISION_NUMBER_HIGH,
      CS_IDENTIFY_REMOTE_SLAVE_SERIAL_NUMBER_LOW, CS_IDENTIFY_REMOTE_SLAVE_SERIAL_NUMBER_HIGH] =
      (List.range 6).map (fun k => (Req.identifyRemote k 0).cs) ∧
    CS_IDENTIFY_NON_CONFIGURED_REMOTE_SLAVE = Req.identifyNonConfigured.cs ∧
    CS_FAST_SCAN = (Req.fastScan 0 0 0 0).cs ∧
    [CS_INQUIRE_VENDOR_ID, CS_INQUIRE_PRODUCT_CODE, CS_INQUIRE_REVISION_NUMBER, CS_INQUIRE_SERIAL_NUMBER,
      CS_INQUIRE_NODE_ID] = (List.range 5).map (fun k => (Req.inquire k).cs) ∧
    [CS_SWITCH_STATE_SELECTIVE_RESPONSE, CS_IDENTIFY_SLAVE, CS_IDENTIFY_NON_CONFIGURED_SLAVE] =
      [0x44, 0x4F, 0x50] ∧
    ERROR_NONE = 0 ∧
    -- the services the master waits for are confirmed services of the standard, and they include
    -- every service whose answer the property talks about
    (∀ cs ∈ ListMessageNeedResponse, cs ∈ [0x11, 0x13, 0x17, 0x43, 0x4B, 0x4C, 0x51, 0x5A, 0x5B, 0x5C, 0x5D, 0x5E]) ∧
    (∀ cs ∈ [0x11, 0x13, 0x17, 0x43, 0x51, 0x5A, 0x5B, 0x5C, 0x5D, 0x5E], needsResponse cs = true) ∧
    (∀ cs ∈ [0x04, 0x15, 0x40, 0x41, 0x42], needsResponse cs = false) := by
  decide


/-! ## T frames_wellformed -/

/-- Every request that any API call puts on the bus — whatever the peer answers, whatever state the
    master is in — is a CiA 305 request of that call (`Allowed`): on COB-ID 0x7E5, exactly 8 bytes,
    first the standard command specifier, the fields little-endian where the standard puts them
    (`Spec.Lss.encode`), reserved bytes zero. -/
theorem frames_wellformed {σ : Type} (step : PeerStep σ) (st : MSt σ) (c : Call) (hc : InDomain c) :
    ∃ reqs : List Req,
      (runCall step st c).1.sent = st.sent ++ reqs.map (fun r => (0x7E5, encode r)) ∧
      ∀ r ∈ reqs, r.Valid ∧ Allowed c r ∧
        (encode r).length = 8 ∧ AllBytes (encode r) ∧ (encode r).head? = some r.cs ∧ r.cs < 256 := by
  obtain ⟨reqs, h1, h2⟩ := runCall_sends step st c hc
  exact ⟨reqs, h1, fun r hr => ⟨(h2 r hr).1, (h2 r hr).2, encode_shape r (h2 r hr).1⟩⟩

/-- the same over any history of calls (unbounded length), with frames from third parties arriving
    in between -/
def runHistory {σ : Type} (step : PeerStep σ) : MSt σ → List (Call × List Frame) → MSt σ
  | st, [] => st
  | st, (c, rx) :: rest => runHistory step (deliver (runCall step st c).1 rx) rest

theorem frames_wellformed_history {σ : Type} (step : PeerStep σ) (h : List (Call × List Frame))
    (hd : ∀ e ∈ h, InDomain e.1) (st : MSt σ) :
    ∃ reqs : List Req,
      (runHistory step st h).sent = st.sent ++ reqs.map (fun r => (0x7E5, encode r)) ∧
      ∀ r ∈ reqs, r.Valid ∧ (∃ e ∈ h, Allowed e.1 r) ∧
        (encode r).length = 8 ∧ AllBytes (encode r) ∧ (encode r).head? = some r.cs := by
  induction h generalizing st with
  | nil => exact ⟨[], by simp [runHistory], by simp⟩
  | cons e rest ih =>
    obtain ⟨c, rx⟩ := e
    obtain ⟨r1, e1, v1⟩ := frames_wellformed step st c (hd (c, rx) (by simp))
    obtain ⟨r2, e2, v2⟩ := ih (fun e he => hd e (by simp [he])) (deliver (runCall step st c).1 rx)
    refine ⟨r1 ++ r2, ?_, ?_⟩
    · rw [runHistory, e2]
      simp only [deliver]
      rw [e1]; simp
    · intro r hr
      rcases List.mem_append.mp hr with hr | hr
      · obtain ⟨a, b, c1, c2, c3, _⟩ := v1 r hr
        exact ⟨a, ⟨(c, rx), by simp, b⟩, c1, c2, c3⟩
      · obtain ⟨a, ⟨e, he, b⟩, c1, c2, c3⟩ := v2 r hr
        exact ⟨a, ⟨e, by simp [he], b⟩, c1, c2, c3⟩

/-! ## non-vacuity and concrete runs -/

deriving instance DecidableEq for Except

/-- a peer that answers every request with the same frame -/
def always (reply : Bytes) : PeerStep Unit := fun p _ => (p, [(0x7E4, reply)])

-- every error code of a configure service is the LSS error; code 0 is success
example : (configureNodeId (always [0x11, 1, 0, 0, 0, 0, 0, 0]) ⟨(), [], []⟩ 5).2 = .error .lss := by decide
example : (configureNodeId (always [0x11, 255, 0, 0, 0, 0, 0, 0]) ⟨(), [], []⟩ 5).2 = .error .lss := by decide
example : (configureNodeId (always [0x11, 0, 0, 0, 0, 0, 0, 0]) ⟨(), [[0x11, 1]], []⟩ 5).2 = .ok () := by decide
example : (configureNodeId (always [0x13, 0, 0, 0, 0, 0, 0, 0]) ⟨(), [], []⟩ 5).2 = .error .lss := by decide
example : (storeConfiguration silent ⟨(), [[0x17, 0, 0, 0, 0, 0, 0, 0]], []⟩).2 = .error .lss := by decide
example : (inquireLssAddress (always [0x5A, 0x78, 0x56, 0x34, 0x12, 0, 0, 0]) ⟨(), [], []⟩ 0x5A).2 =
    .ok 0x12345678 := by decide
example : FirstIsFrame (answers (always [0x11, 1, 0, 0, 0, 0, 0, 0]) ⟨(), [], []⟩ (encode (.configNodeId 5))) := by
  simp [FirstIsFrame, answers, always, received, LSS_RX_COBID]

-- a whole scan, computed: address with the top and the bottom bit set in the serial number
example : (fastScan Spec.Lss.step ⟨Slave.fresh ⟨0, 0xFFFFFFFF, 0x12345678, 0x80000001⟩, [], []⟩).2 =
    .ok (true, some [0, 0xFFFFFFFF, 0x12345678, 0x80000001]) := by decide +kernel
example : (fastScan Spec.Lss.step ⟨Slave.fresh ⟨0, 0xFFFFFFFF, 0x12345678, 0x80000001⟩, [], []⟩).1.peer.config =
    true := by decide +kernel

-- selective switch then configure / store / inquire against the slave
example :
    let s := Slave.fresh ⟨1, 2, 3, 4⟩
    let st1 := (sendSwitchStateSelective Spec.Lss.step ⟨s, [], []⟩ 1 2 3 4).1
    let st2 := (configureNodeId Spec.Lss.step st1 42).1
    let st3 := (storeConfiguration Spec.Lss.step st2).1
    st1.peer.config = true ∧ st3.peer.stored = some (42, none) ∧
      (configureNodeId Spec.Lss.step st1 128).2 = .error .lss ∧
      (inquireLssAddress Spec.Lss.step st3 0x5D).2 = .ok 4 := by decide +kernel

end Canopen.C18
