/-
C03 — Typed values survive the client → bus → server → client round trip.

Theorems about the library's client model talking to the library's *own* server model
(`CanopenModel/Sdo/Pair.lean`), composed with the codec theorems of C04 and the evaluated
server exchanges of C02.
-/
import CanopenModel.Sdo.Pair
import CanopenProofs.C02
import CanopenProofs.C04
import CanopenProofs.C01
import CanopenProofs.C05
import CanopenProofs.C06
import CanopenModel.Od
import Mathlib.Data.List.Nodup

namespace Canopen.C03
open Canopen Canopen.Sdo Canopen.Spec Canopen.Codec Canopen.Gen.SdoConst Canopen.Gen.Datatypes
open Canopen.C02

/-! ## the client's frames are the frames of C02's reference client -/

theorem frames_eq :
    (∀ t : Bool, tb t = tbit t) ∧
    (∀ t : Bool, ∀ l ∈ [0, 1, 2, 3, 4, 5, 6, 7], ∀ last : Bool, segDownCmd (tb t) l last = segDownReq t l last) ∧
    (∀ t : Bool, REQUEST_SEGMENT_DOWNLOAD ||| NO_MORE_DATA ||| tb t ||| (7 <<< 1) = segDownReq t 0 true) ∧
    (∀ l ∈ [1, 2, 3, 4], REQUEST_DOWNLOAD ||| EXPEDITED ||| SIZE_SPECIFIED ||| ((4 - l) <<< 2) = expDownReq l) ∧
    (REQUEST_DOWNLOAD ||| SIZE_SPECIFIED = 0x21) ∧ (REQUEST_UPLOAD = 0x40) ∧
    (∀ t : Bool, REQUEST_SEGMENT_UPLOAD ||| tb t = segUpReq t) := by decide

theorem muxB_eq (idx sub : Nat) : muxB idx sub = mux idx sub := by simp [muxB, mux, leBytes]

/-- `request_response` when the library server answers with exactly one non-abort frame -/
theorem rr_lib_one (c : Chan (Srv × Node)) (req r : Bytes) (s' : Srv) (n' : Node) (c0 : Nat) (rt : Bytes)
    (hstep : srvStep c.peer.1 c.peer.2 req = ⟨s', n', [r], false⟩) (hr : r = c0 :: rt)
    (hne : c0 ≠ RESPONSE_ABORTED) :
    requestResponse libPeer c req = ({ peer := (s', n'), queue := [], sent := c.sent ++ [req] }, .ok r) := by
  obtain ⟨⟨s, n⟩, q, snt⟩ := c
  simp only [requestResponse, send, libPeer] at hstep ⊢
  simp only [hstep, List.nil_append]
  subst hr
  simp [decodeResponse, hne]

/-! ## download -/

/-- state of client and server in the middle of a segmented download of `payload` -/
structure DInv (payload : Bytes) (idx sub : Nat) (c : Chan (Srv × Node)) (w : WS) (buf : Bytes) (tg : Bool) : Prop where
  sbuf : c.peer.1.buffer = some buf
  stog : c.peer.1.toggle = tbit tg
  sidx : c.peer.1.index = some idx
  ssub : c.peer.1.sub = some sub
  wexp : w.expHeader = none
  wdone : w.done = false
  wtog : w.toggle = tb tg
  wpos : w.pos = buf.length
  wsize : w.size = some payload.length

theorem wsWrite_lib (payload : Bytes) (idx sub : Nat) (n' : Node) (c : Chan (Srv × Node)) (w : WS)
    (buf rem : Bytes) (tg : Bool) (b : Bytes) (hinv : DInv payload idx sub c w buf tg)
    (hacc : buf ++ rem = payload) (hb : b ≠ []) (hpre : ∃ k, b = rem.take k)
    (hset : setData c.peer.2 (some idx) (some sub) payload true = .ok n') :
    wsWrite libPeer c w b =
      ({ peer := ({ c.peer.1 with buffer := some (buf ++ b.take (min b.length 7)), toggle := tbit (!tg) },
                  if decide (rem.drop (min b.length 7) = []) then n' else c.peer.2),
         queue := [],
         sent := c.sent ++ [segDownCmd (tb tg) (min b.length 7) (decide (rem.drop (min b.length 7) = []))
                             :: padTo 7 (b.take (min b.length 7))] },
       .ok ({ w with toggle := tb (!tg), done := decide (rem.drop (min b.length 7) = []),
                     pos := buf.length + min b.length 7 }, min b.length 7)) := by
  obtain ⟨k, hk⟩ := hpre
  have hbl : 1 ≤ b.length := by
    cases b with
    | nil => exact absurd rfl hb
    | cons x xs => simp
  have hbrem' : b.length ≤ rem.length := by rw [hk, List.length_take]; omega
  have hplen : payload.length = buf.length + rem.length := by rw [← hacc]; simp
  have hlast : reachesSize w.size (w.pos + min b.length 7) = decide (rem.drop (min b.length 7) = []) := by
    rw [hinv.wsize, hinv.wpos]
    simp only [reachesSize]
    by_cases hd : rem.drop (min b.length 7) = []
    · have : rem.length ≤ min b.length 7 := by
        by_cases h : rem.length ≤ min b.length 7
        · exact h
        · have := congrArg List.length hd; simp at this; omega
      simp [hd]; omega
    · have : min b.length 7 < rem.length := by
        by_cases h : min b.length 7 < rem.length
        · exact h
        · exact absurd (List.drop_eq_nil_of_le (by omega)) hd
      simp [hd]; omega
  have hbrem : b.take (min b.length 7) = rem.take (min b.length 7) := by
    rw [hk, List.take_take]; congr 1
    simp only [List.length_take]; omega
  generalize hsent : min b.length 7 = sent at *
  have hs7 : sent ≤ 7 := by omega
  have hsl : (b.take sent).length = sent := by simp only [List.length_take]; omega
  generalize hlastv : decide (rem.drop sent = []) = last at *
  obtain ⟨_, fq, _, _, _, _, _⟩ := frames_eq
  have hcmd := fq tg sent (le7_mem _ hs7) last
  have hfin : (if last then setData c.peer.2 c.peer.1.index c.peer.1.sub (buf ++ b.take sent) true else .ok c.peer.2)
      = .ok (if last then n' else c.peer.2) := by
    by_cases hl : last = true
    · simp only [hl, if_true]
      have hd : rem.drop sent = [] := by rw [hl] at hlastv; simpa using hlastv
      have : rem.take sent = rem := by
        have := List.take_append_drop sent rem
        rw [hd, List.append_nil] at this; exact this
      rw [hinv.sidx, hinv.ssub, hbrem, this, hacc, hset]
    · simp [hl]
  have hstep := segDown_step c.peer.1 c.peer.2 (if last then n' else c.peer.2) tg last buf (b.take sent)
    hinv.sbuf hinv.stog (by rw [hsl]; exact hs7) hfin
  rw [hsl, ← hcmd] at hstep
  have hne : 0x20 + tbit tg ≠ RESPONSE_ABORTED := by cases tg <;> decide
  have hrr := rr_lib_one c _ _ _ _ (0x20 + tbit tg) (List.replicate 7 0) hstep rfl hne
  have hscs : (0x20 + tbit tg) &&& 0xE0 = RESPONSE_SEGMENT_DOWNLOAD := by cases tg <;> decide
  simp only [wsWrite, hinv.wdone, Bool.false_eq_true, if_false, hinv.wexp, hinv.wtog, tb_xor, hsent, hlast]
  rw [hrr]
  simp only [List.headD_cons, hscs, ne_eq, not_true_eq_false, if_false, hinv.wpos]

/-- feeding the rest of the payload: at the end the server has stored it and the stream is done -/
theorem wsFeed_lib (payload : Bytes) (idx sub : Nat) (n n' : Node)
    (hset : setData n (some idx) (some sub) payload true = .ok n') :
    ∀ (fuel : Nat) (c : Chan (Srv × Node)) (w : WS) (rem : Bytes) (offers : List Nat) (buf : Bytes) (tg : Bool),
      c.peer.2 = n → DInv payload idx sub c w buf tg → buf ++ rem = payload → rem ≠ [] → rem.length < fuel →
      ∃ c' w', wsFeed libPeer fuel c w rem offers = (c', .ok w') ∧ w'.done = true ∧ w'.expHeader = none ∧
        c'.peer.2 = n' ∧ SrvWF c'.peer.1 := by
  intro fuel
  induction fuel with
  | zero => intro c w rem offers buf tg _ _ _ _ hf; omega
  | succ fuel ih =>
    intro c w rem offers buf tg hn hinv hacc hrne hf
    have hre : rem.isEmpty = false := by
      cases rem with
      | nil => exact absurd rfl hrne
      | cons x xs => rfl
    have hrl : 1 ≤ rem.length := by
      cases rem with
      | nil => exact absurd rfl hrne
      | cons x xs => simp
    unfold wsFeed
    simp only [hre, Bool.false_eq_true, if_false]
    generalize hk : nextOffer offers rem.length = k
    have hk1 : 1 ≤ k := by
      cases offers with
      | nil => simp [nextOffer] at hk; omega
      | cons a as => simp [nextOffer] at hk; omega
    have hbne : rem.take k ≠ [] := by
      intro h
      have := congrArg List.length h
      simp only [List.length_take, List.length_nil] at this
      omega
    have hw := wsWrite_lib payload idx sub n' c w buf rem tg (rem.take k) hinv hacc hbne ⟨k, rfl⟩ (by rw [hn]; exact hset)
    rw [hw]
    simp only []
    generalize hsent : min (rem.take k).length 7 = sent at *
    have hsent1 : 1 ≤ sent := by rw [← hsent, List.length_take]; omega
    have hsle : sent ≤ rem.length := by rw [← hsent, List.length_take]; omega
    have htt : (rem.take k).take sent = rem.take sent := by
      rw [List.take_take]; congr 1; rw [← hsent, List.length_take]; omega
    by_cases hd : rem.drop sent = []
    · -- the last segment: stored; the loop finds nothing left
      simp only [hd, decide_true, if_true]
      cases fuel with
      | zero => omega
      | succ f =>
        unfold wsFeed
        simp only [List.isEmpty_nil, if_true]
        exact ⟨_, _, rfl, rfl, hinv.wexp, rfl, wf_of_tbit _ (!tg) rfl⟩
    · simp only [hd, decide_false, Bool.false_eq_true, if_false]
      rw [htt]
      refine ih _ _ _ _ (buf ++ rem.take sent) (!tg) hn ?_ ?_ hd ?_
      · exact ⟨rfl, rfl, hinv.sidx, hinv.ssub, hinv.wexp, rfl, rfl, by simp [List.length_take]; omega, hinv.wsize⟩
      · rw [List.append_assoc, List.take_append_drop]; exact hacc
      · simp only [List.length_drop]; omega

/-- the raw write that completes an expedited download (what was collected before plus this offer
    make up the payload), against the library server -/
theorem wsWrite_exp_lib (c : Chan (Srv × Node)) (w : WS) (idx sub : Nat) (payload b : Bytes) (n' : Node)
    (hidx : idx < 65536) (hsub : sub < 256) (h1 : 1 ≤ payload.length) (h4 : payload.length ≤ 4)
    (hnd : w.done = false) (hsz : w.size = some payload.length)
    (hexp : w.expHeader = some ((REQUEST_DOWNLOAD ||| EXPEDITED ||| SIZE_SPECIFIED |||
      ((4 - payload.length) <<< 2)) :: muxB idx sub))
    (hcat : w.pending ++ b = payload)
    (hset : setData c.peer.2 (some idx) (some sub) payload true = .ok n') :
    ∃ c', wsWrite libPeer c w b =
        (c', .ok ({ w with done := true, pos := w.pos + b.length, pending := [] }, b.length)) ∧
      c'.peer.2 = n' ∧ c'.peer.1 = { c.peer.1 with index := some idx, sub := some sub } := by
  obtain ⟨_, _, _, fe, _, _, _⟩ := frames_eq
  have hcmd := fe payload.length (in14_mem _ h1 h4)
  have hstep := expDown_step c.peer.1 c.peer.2 n' idx sub payload hidx hsub h1 h4 hset
  have hrr := rr_lib_one c _ _ _ _ 0x60 _ hstep rfl (by decide)
  have hlen : w.pending.length + b.length = payload.length := by rw [← hcat]; simp
  have hn1 : ¬ b.length < payload.length - w.pending.length := by omega
  have htake : expTake w b = b := by
    unfold expTake
    split
    · rfl
    · rw [hsz]; simp only [Option.getD_some]; exact List.take_of_length_le (by omega)
  have hn2 : (w.pending.isEmpty && decide (b.length > 4)) = false := by
    cases hp : w.pending with
    | nil => rw [hp] at hlen; simp at hlen ⊢; omega
    | cons x xs => simp
  refine ⟨{ peer := ({ c.peer.1 with index := some idx, sub := some sub }, n'), queue := [],
             sent := c.sent ++ [expDownReq payload.length :: (mux idx sub ++ padTo 4 payload)] }, ?_, rfl, rfl⟩
  simp only [wsWrite, hnd, Bool.false_eq_true, if_false, hexp, hsz, Option.getD_some, hn1, hn2, htake, hcat, hcmd,
    muxB_eq, List.cons_append]
  rw [hrr]
  simp [RESPONSE_DOWNLOAD]

theorem wsFeed_exp_lib (idx sub : Nat) (payload : Bytes) (n n' : Node) (hidx : idx < 65536) (hsub : sub < 256)
    (h1 : 1 ≤ payload.length) (h4 : payload.length ≤ 4)
    (hset : setData n (some idx) (some sub) payload true = .ok n') :
    ∀ (fuel : Nat) (c : Chan (Srv × Node)) (w : WS) (rem : Bytes) (offers : List Nat),
      c.peer.2 = n → SrvWF c.peer.1 → w.done = false → w.size = some payload.length →
      w.expHeader = some ((REQUEST_DOWNLOAD ||| EXPEDITED ||| SIZE_SPECIFIED |||
        ((4 - payload.length) <<< 2)) :: muxB idx sub) →
      w.pending ++ rem = payload → rem ≠ [] → rem.length < fuel →
      ∃ c' w', wsFeed libPeer fuel c w rem offers = (c', .ok w') ∧ w'.done = true ∧
        c'.peer.2 = n' ∧ SrvWF c'.peer.1 := by
  intro fuel
  induction fuel with
  | zero => intro c w rem offers _ _ _ _ _ _ _ hf; omega
  | succ fuel ih =>
    intro c w rem offers hn hwf hnd hsz hexp hcat hne hf
    have hre : rem.isEmpty = false := by
      cases rem with
      | nil => exact absurd rfl hne
      | cons x xs => rfl
    unfold wsFeed
    simp only [hre, Bool.false_eq_true, if_false]
    generalize hk : nextOffer offers rem.length = k
    have hk1 : 1 ≤ k := by
      have hrl : 1 ≤ rem.length := by
        cases rem with
        | nil => exact absurd rfl hne
        | cons x xs => simp
      cases offers with
      | nil => simp [nextOffer] at hk; omega
      | cons a as => simp [nextOffer] at hk; omega
    have hplen : w.pending.length + rem.length = payload.length := by rw [← hcat]; simp
    by_cases hshort : k < rem.length
    · -- the offer does not complete the payload: collected, nothing sent
      have hbl : (rem.take k).length = k := by simp only [List.length_take]; omega
      have hlt : (rem.take k).length < payload.length - w.pending.length := by rw [hbl]; omega
      have hw : wsWrite libPeer c w (rem.take k) =
          (c, .ok ({ w with pending := w.pending ++ rem.take k, pos := w.pos + (rem.take k).length },
                   (rem.take k).length)) := by
        simp only [wsWrite, hnd, Bool.false_eq_true, if_false, hexp, hsz, Option.getD_some, hlt, if_true]
      rw [hw]
      simp only [hbl]
      have hdne : rem.drop k ≠ [] := by
        intro h
        have := congrArg List.length h
        simp only [List.length_drop, List.length_nil] at this
        omega
      exact ih c { w with pending := w.pending ++ rem.take k, pos := w.pos + k } (rem.drop k) offers.tail
        hn hwf hnd hsz hexp (by simp only [List.append_assoc, List.take_append_drop]; exact hcat) hdne
        (by simp only [List.length_drop]; omega)
    · have htk : rem.take k = rem := List.take_of_length_le (by omega)
      obtain ⟨c1, hw, hn1, hs1⟩ := wsWrite_exp_lib c w idx sub payload rem n' hidx hsub h1 h4 hnd hsz hexp hcat
        (by rw [hn]; exact hset)
      rw [htk, hw]
      simp only [List.drop_length]
      have hfin : ∀ (f : Nat) (c : Chan (Srv × Node)) (w : WS) (o : List Nat),
          wsFeed libPeer f c w [] o = (c, .ok w) := by
        intro f c w o; cases f <;> simp [wsFeed]
      rw [hfin]
      exact ⟨_, _, rfl, rfl, hn1, by rw [hs1]; exact hwf⟩

/-- **A download through the library client to the library server stores exactly the payload.**
    For every server state (any history before), every payload and caller chunking, forced
    segmentation or not: if the local node accepts the payload for `idx:sub` (entry exists, is
    writable, numeric length right) the call returns normally and the node is exactly the node
    after `set_data(idx, sub, payload)` — payload stored, write callbacks told once. -/
theorem download_lib (c : Chan (Srv × Node)) (idx sub : Nat) (payload : Bytes) (force : Bool)
    (offers : List Nat) (n' : Node) (hwf : SrvWF c.peer.1) (hidx : idx < 65536) (hsub : sub < 256)
    (hset : setData c.peer.2 (some idx) (some sub) payload true = .ok n') :
    ∃ c', download libPeer c idx sub payload true force offers = (c', .ok ()) ∧ c'.peer.2 = n' ∧
      SrvWF c'.peer.1 := by
  unfold download
  simp only [if_true]
  by_cases hseg : isSegmented (some payload.length) force = true
  · -- segmented
    obtain ⟨_, _, fcl, _, f21, _, _⟩ := frames_eq
    have hinit := segDownInit_step c.peer.1 c.peer.2 idx sub payload.length hidx hsub
    have hrr := rr_lib_one c _ _ _ _ 0x60 _ hinit rfl (by decide)
    simp only [wsInit, hseg, if_true, Option.isSome_some, f21, muxB_eq, sizeField]
    rw [hrr]
    simp only [List.headD_cons, RESPONSE_DOWNLOAD, ne_eq, not_true_eq_false, if_false]
    by_cases hp : payload = []
    · -- nothing to write: `close()` sends the empty last segment, which stores the empty value
      subst hp
      have hfeed : ∀ (cc : Chan (Srv × Node)) (ww : WS),
          wsFeed libPeer (2 * ([] : Bytes).length + offers.length + 2) cc ww [] offers = (cc, .ok ww) := by
        intro cc ww; simp [wsFeed]
      rw [hfeed]
      simp only [wsClose, Bool.not_false, Option.isNone_none, Bool.and_self, if_true]
      have hstep := segDown_step { c.peer.1 with index := some idx, sub := some sub, buffer := some [], toggle := 0 }
        c.peer.2 n' false true [] [] rfl rfl (by simp) (by simpa using hset)
      simp only [List.length_nil, padTo, List.nil_append, Nat.sub_zero, List.append_nil] at hstep
      have hc := fcl false
      simp only [tb, Bool.false_eq_true, if_false] at hc
      have hrr2 := rr_lib_one
        { peer := ({ c.peer.1 with index := some idx, sub := some sub, buffer := some [], toggle := 0 }, c.peer.2),
          queue := [], sent := c.sent ++ [0x21 :: (mux idx sub ++ leBytes 4 0)] }
        _ _ _ _ (0x20 + tbit false) (List.replicate 7 0) hstep rfl (by decide)
      simp only [List.length_nil] at hrr2 ⊢
      rw [hc, hrr2]
      exact ⟨_, rfl, rfl, wf_of_tbit _ true rfl⟩
    · obtain ⟨c2, w2, hfeed, hd2, he2, hn2, hwf2⟩ :=
        wsFeed_lib payload idx sub c.peer.2 n' hset (2 * payload.length + offers.length + 2)
          { peer := ({ c.peer.1 with index := some idx, sub := some sub, buffer := some [], toggle := 0 }, c.peer.2),
            queue := [], sent := c.sent ++ [0x21 :: (mux idx sub ++ leBytes 4 payload.length)] }
          { size := some payload.length, pos := 0, toggle := 0, expHeader := none, done := false }
          payload offers [] false rfl ⟨rfl, rfl, rfl, rfl, rfl, rfl, rfl, rfl, rfl⟩ (by simp) hp (by omega)
      rw [hfeed]
      simp only [wsClose, hd2, Bool.not_true, Bool.false_and, Bool.false_eq_true, if_false]
      exact ⟨c2, rfl, hn2, hwf2⟩
  · -- expedited: 1..4 bytes, not forced
    have hnseg : isSegmented (some payload.length) force = false := by simpa using hseg
    have h14 : 1 ≤ payload.length ∧ payload.length ≤ 4 := by
      simp only [isSegmented, Bool.or_eq_false_iff, decide_eq_false_iff_not] at hnseg
      omega
    simp only [wsInit, hnseg, Bool.false_eq_true, if_false, Option.getD_some]
    have hpne : payload ≠ [] := by
      intro h; rw [h] at h14; simp at h14
    obtain ⟨c2, w2, hfeed, hd2, hn2, hwf2⟩ :=
      wsFeed_exp_lib idx sub payload c.peer.2 n' hidx hsub h14.1 h14.2 hset
        (2 * payload.length + offers.length + 2) c
        { size := some payload.length, pos := 0, toggle := 0,
          expHeader := some ((REQUEST_DOWNLOAD ||| EXPEDITED ||| SIZE_SPECIFIED |||
            ((4 - payload.length) <<< 2)) :: muxB idx sub), done := false }
        payload offers rfl hwf rfl rfl rfl rfl hpne (by omega)
    rw [hfeed]
    simp only [wsClose, hd2, Bool.not_true, Bool.false_and, Bool.false_eq_true, if_false]
    exact ⟨c2, rfl, hn2, hwf2⟩

/-! ## upload -/

/-- the library server's response commands, as the library client decodes them -/
theorem lib_resp_fields :
    (∀ l ∈ [1, 2, 3, 4], expUpCmd l ≠ RESPONSE_ABORTED ∧ expUpCmd l &&& 0xE0 = RESPONSE_UPLOAD ∧
      expUpCmd l &&& EXPEDITED ≠ 0 ∧ expUpCmd l &&& SIZE_SPECIFIED ≠ 0 ∧ 4 - ((expUpCmd l >>> 2) &&& 3) = l) ∧
    ((RESPONSE_UPLOAD ||| SIZE_SPECIFIED) ≠ RESPONSE_ABORTED ∧ (RESPONSE_UPLOAD ||| SIZE_SPECIFIED) &&& 0xE0 = RESPONSE_UPLOAD ∧
      (RESPONSE_UPLOAD ||| SIZE_SPECIFIED) &&& EXPEDITED = 0 ∧ (RESPONSE_UPLOAD ||| SIZE_SPECIFIED) &&& SIZE_SPECIFIED ≠ 0) ∧
    (∀ t : Bool, ∀ l ∈ [0, 1, 2, 3, 4, 5, 6, 7], ∀ last : Bool,
      segUpCmd (tbit t) l last ≠ RESPONSE_ABORTED ∧ segUpCmd (tbit t) l last &&& 0xE0 = RESPONSE_SEGMENT_UPLOAD ∧
      segUpCmd (tbit t) l last &&& TOGGLE_BIT = tbit t ∧ 7 - ((segUpCmd (tbit t) l last >>> 1) &&& 7) = l ∧
      decide (segUpCmd (tbit t) l last &&& NO_MORE_DATA ≠ 0) = last) := by decide

/-- the upload initiate exchange at the library server, fully evaluated -/
theorem initUp_step (s : Srv) (n : Node) (idx sub : Nat) (v : Bytes) (hidx : idx < 65536) (hsub : sub < 256)
    (hv : getData n idx sub true = .ok v) (hlen : v.length < 2 ^ 32) :
    srvStep s n (0x40 :: (mux idx sub ++ [0, 0, 0, 0])) =
      if 1 ≤ v.length ∧ v.length ≤ 4 then
        ⟨{ s with index := some idx, sub := some sub }, n, [expUpCmd v.length :: (mux idx sub ++ padTo 4 v)], false⟩
      else
        ⟨{ s with index := some idx, sub := some sub, buffer := some v, toggle := 0 }, n,
         [(RESPONSE_UPLOAD ||| SIZE_SPECIFIED) :: (mux idx sub ++ leBytes 4 v.length)], false⟩ := by
  have hmux : idx % 256 + 256 * (idx / 256 % 256) = idx := by omega
  have hsub' : sub % 256 = sub := Nat.mod_eq_of_lt hsub
  simp only [srvStep, mux, List.cons_append, List.nil_append, dispatch, req_cmds.1, if_true, initUpload,
    hmux, hsub', hv]
  by_cases hsz : 1 ≤ v.length ∧ v.length ≤ 4
  · simp [hsz, finish, muxBytes, leBytes, hsub']
  · simp [hsz, hlen, finish, muxBytes, leBytes, hsub']

/-- `ReadableStream.__init__` against the library server -/
theorem rsInit_lib (c : Chan (Srv × Node)) (idx sub : Nat) (v : Bytes) (hidx : idx < 65536) (hsub : sub < 256)
    (hv : getData c.peer.2 idx sub true = .ok v) (hlen : v.length < 2 ^ 32) :
    ∃ c' s, rsInit libPeer c idx sub = (c', .ok s) ∧ c'.peer.2 = c.peer.2 ∧ s.done = false ∧
      s.size = some v.length ∧
      ((1 ≤ v.length ∧ v.length ≤ 4 ∧ s.expData = some v ∧ c'.peer.1 = { c.peer.1 with index := some idx, sub := some sub }) ∨
       (¬ (1 ≤ v.length ∧ v.length ≤ 4) ∧ s.expData = none ∧ s.toggle = tb false ∧
          c'.peer.1 = { c.peer.1 with index := some idx, sub := some sub, buffer := some v, toggle := 0 })) := by
  obtain ⟨f1, f2, _⟩ := lib_resp_fields
  have hstep := initUp_step c.peer.1 c.peer.2 idx sub v hidx hsub hv hlen
  have hsub' : sub % 256 = sub := Nat.mod_eq_of_lt hsub
  have hmux : idx % 256 + 256 * (idx / 256 % 256) = idx := by omega
  obtain ⟨_, _, _, _, _, f40, _⟩ := frames_eq
  unfold rsInit
  simp only [f40, muxB_eq]
  by_cases hsz : 1 ≤ v.length ∧ v.length ≤ 4
  · rw [if_pos hsz] at hstep
    obtain ⟨a1, a2, a3, a4, a5⟩ := f1 v.length (in14_mem _ hsz.1 hsz.2)
    have hrr := rr_lib_one c _ _ _ _ _ _ hstep rfl a1
    rw [hrr]
    have hpl : (padTo 4 v).length = 4 := padTo_length 4 v hsz.2
    generalize expUpCmd v.length = cmd at *
    simp only [rsInitDecode, mux, List.cons_append, List.nil_append, List.length_cons, hpl,
      show ¬ (4 + 1 + 1 + 1 + 1 < 4) from by omega, if_false, List.headD_cons, a2, ne_eq, not_true_eq_false,
      List.getD_cons_succ, List.getD_cons_zero, hmux, hsub', not_or, and_self, a3, not_false_eq_true, if_true, a4, a5,
      List.drop_succ_cons, List.drop_zero, List.take_of_length_le (Nat.le_of_eq hpl), padTo_take]
    exact ⟨_, _, rfl, rfl, rfl, rfl, Or.inl ⟨hsz.1, hsz.2, rfl, rfl⟩⟩
  · rw [if_neg hsz] at hstep
    obtain ⟨a1, a2, a3, a4⟩ := f2
    have hrr := rr_lib_one c _ _ _ _ _ _ hstep rfl a1
    rw [hrr]
    have hval : leVal (leBytes 4 v.length) = v.length := by
      rw [leVal_leBytes]; exact Nat.mod_eq_of_lt (by simpa using hlen)
    generalize (RESPONSE_UPLOAD ||| SIZE_SPECIFIED) = cmd at *
    simp only [rsInitDecode, mux, List.cons_append, List.nil_append, List.length_cons, leBytes_length,
      show ¬ (4 + 1 + 1 + 1 + 1 < 4) from by omega, if_false, List.headD_cons, a2, ne_eq, not_true_eq_false,
      List.getD_cons_succ, List.getD_cons_zero, hmux, hsub', not_or, and_self, a3, a4, not_false_eq_true, if_true,
      List.drop_succ_cons, List.drop_zero, List.take_of_length_le (Nat.le_of_eq (leBytes_length 4 v.length)), hval]
    exact ⟨_, _, rfl, rfl, rfl, rfl, Or.inr ⟨hsz, rfl, rfl, rfl⟩⟩

/-- `readall()` over the library server's segments -/
theorem rsReadAll_lib (v : Bytes) (n : Node) :
    ∀ (fuel : Nat) (c : Chan (Srv × Node)) (s : RS) (acc rem : Bytes) (tg : Bool),
      c.peer.2 = n → c.peer.1.buffer = some rem → c.peer.1.toggle = tbit tg → s.done = false → s.expData = none →
      s.toggle = tb tg → acc ++ rem = v → rem.length + 2 ≤ fuel →
      ∃ c' s', rsReadAll libPeer fuel c s acc = (c', .ok (s', v)) ∧ c'.peer.2 = n ∧ SrvWF c'.peer.1 := by
  intro fuel
  induction fuel with
  | zero => intro c s acc rem tg _ _ _ _ _ _ _ hf; omega
  | succ fuel ih =>
    intro c s acc rem tg hn hb ht hnd hexp htg hacc hf
    obtain ⟨_, _, f3⟩ := lib_resp_fields
    obtain ⟨_, _, _, _, _, _, fsu⟩ := frames_eq
    have hl7 : (rem.take 7).length ≤ 7 := by simp only [List.length_take]; omega
    obtain ⟨a1, a2, a3, a4, a5⟩ := f3 tg _ (le7_mem _ hl7) (rem.drop 7).isEmpty
    have hstep := C02.segUp_step c.peer.1 c.peer.2 tg rem hb ht
    have hrr := rr_lib_one c _ _ _ _ _ _ hstep rfl a1
    -- one raw read
    have hread : rsRead libPeer c s =
        ({ peer := ({ c.peer.1 with buffer := some (rem.drop 7), toggle := tbit (!tg) }, c.peer.2), queue := [],
           sent := c.sent ++ [segUpReq tg :: List.replicate 7 0] },
         .ok ({ s with done := (rem.drop 7).isEmpty, toggle := tb (!tg), pos := s.pos + (rem.take 7).length },
              rem.take 7)) := by
      simp only [rsRead, hnd, Bool.false_eq_true, if_false, hexp, htg, fsu]
      rw [hrr]
      generalize segUpCmd (tbit tg) (rem.take 7).length (rem.drop 7).isEmpty = cmd at *
      have htb : tb tg = tbit tg := (frames_eq.1 tg)
      simp only [rsReadDecode, List.headD_cons, a2, ne_eq, not_true_eq_false, if_false, htg, htb, a3, a4,
        List.drop_succ_cons, List.drop_zero, padTo_take, hnd, Bool.false_or]
      cases hE : (rem.drop 7).isEmpty
      · rw [hE] at a5
        have hP : cmd &&& NO_MORE_DATA = 0 := by simpa using a5
        simp [hP, ← htb, tb_xor, hexp]
      · rw [hE] at a5
        have hP : ¬ (cmd &&& NO_MORE_DATA = 0) := by simpa using a5
        simp [hP, ← htb, tb_xor, hexp]
    unfold rsReadAll
    rw [hread]
    simp only []
    by_cases hre : rem = []
    · subst hre
      simp only [List.take_nil, List.isEmpty_nil, if_true]
      simp only [List.append_nil] at hacc
      subst hacc
      exact ⟨_, _, rfl, hn, wf_of_tbit _ (!tg) rfl⟩
    · have hne : (rem.take 7).isEmpty = false := by
        cases rem with
        | nil => exact absurd rfl hre
        | cons x xs => rfl
      simp only [hne, Bool.false_eq_true, if_false]
      by_cases hlast : (rem.drop 7).isEmpty = true
      · have hdrop : rem.drop 7 = [] := by simpa using hlast
        have htake : rem.take 7 = rem := by
          have := List.take_append_drop 7 rem
          rw [hdrop, List.append_nil] at this; exact this
        cases fuel with
        | zero => omega
        | succ f =>
          unfold rsReadAll
          simp only [rsRead, hlast, if_true, List.isEmpty_nil, htake, hacc]
          exact ⟨_, _, rfl, hn, wf_of_tbit _ (!tg) rfl⟩
      · have hl' : (rem.drop 7).isEmpty = false := by simpa using hlast
        have hlong : 7 < rem.length := by
          by_cases h : 7 < rem.length
          · exact h
          · have : rem.drop 7 = [] := List.drop_eq_nil_of_le (by omega)
            rw [this] at hl'; simp at hl'
        exact ih _ _ (acc ++ rem.take 7) (rem.drop 7) (!tg) hn rfl rfl hl' hexp rfl
          (by rw [List.append_assoc, List.take_append_drop]; exact hacc)
          (by simp only [List.length_drop]; omega)

/-- **An upload through the library client from the library server returns exactly the node's
    value** (first present source; cut to the dictionary size for fixed-size types), from any
    server state; the node is unchanged. -/
theorem upload_lib (c : Chan (Srv × Node)) (idx sub : Nat) (v : Bytes) (odType : Option (Option Nat)) (fuel : Nat)
    (hidx : idx < 65536) (hsub : sub < 256) (hv : getData c.peer.2 idx sub true = .ok v)
    (hlen : v.length < 2 ^ 32) (hfuel : v.length + 2 ≤ fuel) :
    ∃ c', upload libPeer c idx sub odType fuel = (c', .ok (truncate odType (some v.length) v)) ∧
      c'.peer.2 = c.peer.2 ∧ (SrvWF c.peer.1 → SrvWF c'.peer.1) := by
  obtain ⟨c1, s, hinit, hn1, hnd, hsz, hcase⟩ := rsInit_lib c idx sub v hidx hsub hv hlen
  unfold upload
  rw [hinit]
  simp only []
  rcases hcase with ⟨_, _, hexp, hs1⟩ | ⟨_, hexp, htg, hs1⟩
  · simp only [hexp, hsz]
    exact ⟨c1, rfl, hn1, fun h => by rw [hs1]; exact h⟩
  · simp only [hexp]
    obtain ⟨c2, s2, hall, hn2, hwf2⟩ := rsReadAll_lib v c.peer.2 fuel c1 s [] v false hn1
      (by rw [hs1]) (by rw [hs1]; rfl) hnd hexp htg rfl hfuel
    rw [hall]
    simp only [hsz]
    exact ⟨c2, rfl, hn2, fun _ => hwf2⟩

/-! ## typed accessors -/

/-- the entry `idx:sub` exists in the node's dictionary with data type `t`, is readable and
    writable, and no application read callback overrides it -/
structure RWEntry (n : Node) (idx sub : Nat) (t : Option Nat) : Prop where
  found : ∃ obj, findObject n (some idx) (some sub) = .ok obj ∧ obj.dtype = t ∧
    accReadable obj.access = true ∧ accWritable obj.access = true
  nocb : lookup (idx, sub) n.readCb = none
  /-- no application write callback refuses downloads to it -/
  norefuse : lookup (idx, sub) n.refuse = none

theorem setData_accepts (n : Node) (idx sub : Nat) (t : Option Nat) (data : Bytes) (h : RWEntry n idx sub t)
    (hlen : isNumberType t = true → 8 * data.length = bitLen t) :
    setData n (some idx) (some sub) data true =
      .ok { n with writeLog := n.writeLog ++ [(idx, sub, data)], store := ((idx, sub), data) :: n.store } := by
  obtain ⟨obj, hf, ht, _, hw⟩ := h.found
  unfold setData
  rw [hf]
  simp only [hw, Bool.not_true, Bool.and_false, Bool.false_eq_true, if_false, ht]
  by_cases hn : isNumberType t = true
  · simp [hn, hlen hn, h.norefuse]
  · simp [hn, h.norefuse]

theorem getData_stored (n : Node) (idx sub : Nat) (t : Option Nat) (data : Bytes) (chk : Bool)
    (h : RWEntry n idx sub t) :
    getData { n with writeLog := n.writeLog ++ [(idx, sub, data)], store := ((idx, sub), data) :: n.store }
      idx sub chk = .ok data := by
  obtain ⟨obj, hf, _, hr, _⟩ := h.found
  have hf' : findObject { n with writeLog := n.writeLog ++ [(idx, sub, data)], store := ((idx, sub), data) :: n.store }
      (some idx) (some sub) = .ok obj := by simpa [findObject] using hf
  unfold getData
  rw [hf']
  simp [hr, h.nocb, lookup]

/-- **Generic round trip through the typed accessors.**  If the value encodes to `enc`, `enc`
    decodes to `v'`, the entry is read-write, and the dictionary-size rule does not cut (`enc` has
    the type's size, or the type has no fixed size), then after `remote[x].raw = v`:
    the local node holds exactly `enc`, and reading back remotely and locally both give `v'`. -/
theorem roundtrip_generic (c : Chan (Srv × Node)) (idx sub : Nat) (t : Option Nat) (v v' : Val) (enc : Bytes)
    (hwf : SrvWF c.peer.1) (hidx : idx < 65536) (hsub : sub < 256) (hentry : RWEntry c.peer.2 idx sub t)
    (henc : encodeRaw t v = some enc) (hdec : decodeRaw t enc = some v')
    (hnum : isNumberType t = true → 8 * enc.length = bitLen t)
    (hcut : ∀ r, t.bind findRow = some r → r.size = enc.length) (hlen : enc.length < 2 ^ 32) :
    ∃ c1, remoteSet c idx sub t v = (c1, .ok ()) ∧
      lookup (idx, sub) c1.peer.2.store = some enc ∧
      (∃ c2, remoteGet c1 idx sub t (enc.length + 2) = (c2, .ok v') ∧ c2.peer.2 = c1.peer.2) ∧
      localGet c1.peer.2 idx sub t = some v' := by
  have hset := setData_accepts c.peer.2 idx sub t enc hentry hnum
  obtain ⟨c1, hdl, hn1, hwf1⟩ := download_lib c idx sub enc (t == some DOMAIN) [] _ hwf hidx hsub hset
  refine ⟨c1, by simp only [remoteSet, henc, hdl], by rw [hn1]; simp [lookup], ?_, ?_⟩
  · have hget : getData c1.peer.2 idx sub true = .ok enc := by
      rw [hn1]; exact getData_stored c.peer.2 idx sub t enc true hentry
    obtain ⟨c2, hup, hn2, _⟩ := upload_lib c1 idx sub enc (some t) (enc.length + 2) hidx hsub hget hlen (by omega)
    have htr : truncate (some t) (some enc.length) enc = enc := by
      cases hr : t.bind findRow with
      | none => simp only [truncate, hr]
      | some r =>
        have hs := hcut r hr
        have hb : bitLen t / 8 = r.size := by
          cases t with
          | none => simp at hr
          | some tt => simp only [Option.bind_some] at hr; simp [bitLen, hr]
        simp only [truncate, hr, hb, hs, Nat.lt_irrefl, if_false]
    refine ⟨c2, ?_, hn2⟩
    simp only [remoteGet, hup, htr, hdec]
  · have hget : getData c1.peer.2 idx sub false = .ok enc := by
      rw [hn1]; exact getData_stored c.peer.2 idx sub t enc false hentry
    simp only [localGet, hget, hdec]

/-- **Every integer type, every value in its range**: after `remote[x].raw = v` the local node
    holds exactly the CiA 301 little-endian two's-complement encoding of `v`, and both
    `remote[x].raw` and `local[x].raw` read `v`. -/
theorem typed_roundtrip : ∀ e ∈ C04.intTypes, ∀ (c : Chan (Srv × Node)) (idx sub : Nat) (v : Int),
    SrvWF c.peer.1 → idx < 65536 → sub < 256 → RWEntry c.peer.2 idx sub (some e.1) →
    inRange e.2.1 e.2.2 v = true →
    ∃ c1, remoteSet c idx sub (some e.1) (.int v) = (c1, .ok ()) ∧
      lookup (idx, sub) c1.peer.2.store = some (leBytes (e.2.1 / 8) (ofSigned e.2.1 v)) ∧
      (∃ c2, remoteGet c1 idx sub (some e.1) (e.2.1 / 8 + 2) = (c2, .ok (.int v)) ∧ c2.peer.2 = c1.peer.2) ∧
      localGet c1.peer.2 idx sub (some e.1) = some (.int v) := by
  intro e he c idx sub v hwf hidx hsub hentry hv
  have henc := C04.encode_is_twos_complement_le e he v hv
  have hdec := C04.decode_encode e he v hv
  rw [henc, Option.bind_some] at hdec
  obtain ⟨hbl, _, h8⟩ := Canopen.C05.intTypes_bitLen e he
  have hl : (leBytes (e.2.1 / 8) (ofSigned e.2.1 v)).length = e.2.1 / 8 := leBytes_length _ _
  have hw64 : e.2.1 ≤ 64 := by
    have : ∀ x ∈ C04.intTypes, x.2.1 ≤ 64 := by decide
    exact this e he
  have := roundtrip_generic c idx sub (some e.1) (.int v) (.int v) _ hwf hidx hsub hentry henc hdec
    (by intro _; rw [hl, hbl]; omega)
    (by
      intro r hr
      simp only [Option.bind_some] at hr
      have : bitLen (some e.1) = r.size * 8 := by simp [bitLen, hr]
      rw [hl]; rw [hbl] at this; omega)
    (by rw [hl]; omega)
  rw [hl] at this
  exact this

/-- **Byte strings of any length** through entries whose type has no fixed size and is not a text
    type (OCTET_STRING, DOMAIN — the latter with forced segmentation —, unknown types): the local
    node holds exactly the bytes, both sides read them back; the empty value included. -/
theorem bytes_roundtrip (c : Chan (Srv × Node)) (idx sub t : Nat) (bs : Bytes)
    (hwf : SrvWF c.peer.1) (hidx : idx < 65536) (hsub : sub < 256) (hentry : RWEntry c.peer.2 idx sub (some t))
    (hrow : findRow t = none) (hvis : t ≠ VISIBLE_STRING) (huni : t ≠ UNICODE_STRING) (hlen : bs.length < 2 ^ 32) :
    ∃ c1, remoteSet c idx sub (some t) (.bytes bs) = (c1, .ok ()) ∧
      lookup (idx, sub) c1.peer.2.store = some bs ∧
      (∃ c2, remoteGet c1 idx sub (some t) (bs.length + 2) = (c2, .ok (.bytes bs)) ∧ c2.peer.2 = c1.peer.2) ∧
      localGet c1.peer.2 idx sub (some t) = some (.bytes bs) := by
  have hnn : isNumberType (some t) = false := by
    have hall : ∀ x ∈ NUMBER_TYPES, findRow x ≠ none := by decide
    cases hc : isNumberType (some t) with
    | false => rfl
    | true =>
      simp only [isNumberType, List.contains_iff_mem] at hc
      exact absurd hrow (hall t (by simpa using hc))
  exact roundtrip_generic c idx sub (some t) (.bytes bs) (.bytes bs) bs hwf hidx hsub hentry rfl
    (by simp [decodeRaw, hvis, huni, hrow])
    (by intro h; rw [hnn] at h; cases h)
    (by intro r hr; simp [hrow] at hr) hlen

/-! ## access types: write-only entries, and entries the application assigns itself

The bus may assign an entry whose access type has a "w" (`rw`, `wo`, `rwr`, `rww`) and may read one
whose access type has an "r" or is `const` (all but `wo`).  The local node's own accessors — the
application side — are not subject to access rights: `local.sdo[x].raw` reads what a master wrote
into a write-only entry and assigns read-only / constant ones. -/

/-- the entry `idx:sub` exists in the node's dictionary with data type `t` and access type `a`
    (any of the six, as a code), no application read callback overrides it and no application
    write callback refuses downloads to it -/
structure Entry (n : Node) (idx sub : Nat) (t : Option Nat) (a : Nat) : Prop where
  found : ∃ obj, findObject n (some idx) (some sub) = .ok obj ∧ obj.dtype = t ∧ obj.access = a
  nocb : lookup (idx, sub) n.readCb = none
  norefuse : lookup (idx, sub) n.refuse = none

theorem RWEntry.toEntry {n : Node} {idx sub : Nat} {t : Option Nat} (h : RWEntry n idx sub t) :
    ∃ a, Entry n idx sub t a ∧ accReadable a = true ∧ accWritable a = true := by
  obtain ⟨obj, hf, ht, hr, hw⟩ := h.found
  exact ⟨obj.access, ⟨⟨obj, hf, ht, rfl⟩, h.nocb, h.norefuse⟩, hr, hw⟩

/-- the node after `set_data(idx, sub, data)` went through: stored, write callbacks told once -/
def stored (n : Node) (idx sub : Nat) (data : Bytes) : Node :=
  { n with writeLog := n.writeLog ++ [(idx, sub, data)], store := ((idx, sub), data) :: n.store }

/-- `set_data` accepts: over the bus (`chk`) only when the access type has a "w"; from the
    application always -/
theorem setData_entry (n : Node) (idx sub : Nat) (t : Option Nat) (a : Nat) (data : Bytes) (chk : Bool)
    (h : Entry n idx sub t a) (hw : chk = true → accWritable a = true)
    (hlen : isNumberType t = true → 8 * data.length = bitLen t) :
    setData n (some idx) (some sub) data chk = .ok (stored n idx sub data) := by
  obtain ⟨obj, hf, ht, ha⟩ := h.found
  have hchk : (chk && !accWritable obj.access) = false := by
    cases chk with
    | false => rfl
    | true => rw [ha, hw rfl]; rfl
  unfold setData
  rw [hf]
  simp only [hchk, Bool.false_eq_true, if_false, ht]
  by_cases hn : isNumberType t = true
  · simp [hn, hlen hn, h.norefuse, stored]
  · simp [hn, h.norefuse, stored]

/-- `get_data` after the store: the stored bytes — except over the bus (`chk`) for an entry the
    bus may not read, which is refused with 0x06010001 -/
theorem getData_entry (n : Node) (idx sub : Nat) (t : Option Nat) (a : Nat) (data : Bytes) (chk : Bool)
    (h : Entry n idx sub t a) :
    getData (stored n idx sub data) idx sub chk =
      if chk && !accReadable a then .error (.abort 0x06010001) else .ok data := by
  obtain ⟨obj, hf, _, ha⟩ := h.found
  subst ha
  have hf' : findObject (stored n idx sub data) (some idx) (some sub) = .ok obj := by
    simpa [findObject, stored] using hf
  unfold getData
  rw [hf']
  simp only []
  by_cases hc : (chk && !accReadable obj.access) = true
  · simp [hc]
  · have hnocb : lookup (idx, sub) (stored n idx sub data).readCb = none := h.nocb
    simp only [hc, Bool.false_eq_true, if_false, hnocb]
    simp [stored, lookup]

/-- `request_response` when the library server answers with one abort frame -/
theorem rr_lib_abort (c : Chan (Srv × Node)) (req : Bytes) (s' : Srv) (n' : Node) (idx sub code : Nat)
    (hc : code < 2 ^ 32)
    (hstep : srvStep c.peer.1 c.peer.2 req = ⟨s', n', [0x80 :: (mux idx sub ++ leBytes 4 code)], false⟩) :
    requestResponse libPeer c req =
      ({ peer := (s', n'), queue := [], sent := c.sent ++ [req] }, .error (.aborted code)) := by
  obtain ⟨⟨s, n⟩, q, snt⟩ := c
  have hval : leVal (leBytes 4 code) = code := by
    rw [leVal_leBytes]; exact Nat.mod_eq_of_lt (by simpa using hc)
  simp only [requestResponse, send, libPeer] at hstep ⊢
  simp only [hstep, List.nil_append]
  simp [decodeResponse, RESPONSE_ABORTED, mux, List.take_of_length_le (Nat.le_of_eq (leBytes_length 4 code)), hval]

/-- **A read the node refuses reaches the caller as `SdoAbortedError` with the node's code**, from
    any server state; the node is unchanged (no value, and in particular no other value, comes back). -/
theorem upload_lib_refused (c : Chan (Srv × Node)) (idx sub code : Nat) (odType : Option (Option Nat)) (fuel : Nat)
    (hidx : idx < 65536) (hsub : sub < 256) (hc : code < 2 ^ 32)
    (hv : getData c.peer.2 idx sub true = .error (.abort code)) :
    ∃ c', upload libPeer c idx sub odType fuel = (c', .error (.aborted code)) ∧ c'.peer.2 = c.peer.2 ∧
      (SrvWF c.peer.1 → SrvWF c'.peer.1) := by
  have hmux : idx % 256 + 256 * (idx / 256 % 256) = idx := by omega
  have hsub' : sub % 256 = sub := Nat.mod_eq_of_lt hsub
  have hstep : srvStep c.peer.1 c.peer.2 (0x40 :: (mux idx sub ++ [0, 0, 0, 0])) =
      ⟨{ c.peer.1 with index := some idx, sub := some sub }, c.peer.2,
       [0x80 :: (mux idx sub ++ leBytes 4 code)], false⟩ := by
    simp only [srvStep, mux, List.cons_append, List.nil_append, dispatch, req_cmds.1, if_true, initUpload,
      hmux, hsub', hv, finish, errCode]
    have := Canopen.C06.abortFrame_eq { c.peer.1 with index := some idx, sub := some sub } idx sub code rfl rfl hidx hsub
    simp only [mux, List.cons_append, List.nil_append, hsub'] at this
    rw [this]
  have hrr := rr_lib_abort c _ _ _ idx sub code hc hstep
  obtain ⟨_, _, _, _, _, f40, _⟩ := frames_eq
  refine ⟨{ peer := ({ c.peer.1 with index := some idx, sub := some sub }, c.peer.2), queue := [],
             sent := c.sent ++ [0x40 :: (mux idx sub ++ [0, 0, 0, 0])] }, ?_, rfl, fun h => h⟩
  unfold upload rsInit
  simp only [f40, muxB_eq, hrr, rsInitDecode]

/-- what both sides see once `enc` is stored at an entry of access type `a`: the local side reads
    the value (typed accessor and `sdo.upload`) whatever `a` is; the remote side reads it when the
    bus may read the entry and is refused with 0x06010001 when it may not -/
theorem reads_after_store (n : Node) (idx sub : Nat) (t : Option Nat) (a : Nat) (v' : Val) (enc : Bytes)
    (hidx : idx < 65536) (hsub : sub < 256) (hentry : Entry n idx sub t a)
    (hdec : decodeRaw t enc = some v')
    (hcut : ∀ r, t.bind findRow = some r → r.size = enc.length) (hlen : enc.length < 2 ^ 32) :
    lookup (idx, sub) (stored n idx sub enc).store = some enc ∧
    localGet (stored n idx sub enc) idx sub t = some v' ∧
    localUpload (stored n idx sub enc) idx sub = some enc ∧
    ∀ c1 : Chan (Srv × Node), c1.peer.2 = stored n idx sub enc →
      (accReadable a = true → ∀ fuel, enc.length + 2 ≤ fuel →
        ∃ c2, remoteGet c1 idx sub t fuel = (c2, .ok v') ∧ c2.peer.2 = c1.peer.2) ∧
      (accReadable a = false → ∀ fuel,
        ∃ c2, remoteGet c1 idx sub t fuel = (c2, .error (.aborted 0x06010001)) ∧ c2.peer.2 = c1.peer.2) := by
  have hloc : getData (stored n idx sub enc) idx sub false = .ok enc := by
    rw [getData_entry n idx sub t a enc false hentry]; simp
  refine ⟨by simp [stored, lookup], by simp only [localGet, hloc, hdec], by simp only [localUpload, hloc], ?_⟩
  intro c1 hn1
  constructor
  · intro hr fuel hfuel
    have hget : getData c1.peer.2 idx sub true = .ok enc := by
      rw [hn1, getData_entry n idx sub t a enc true hentry]; simp [hr]
    obtain ⟨c2, hup, hn2, _⟩ := upload_lib c1 idx sub enc (some t) fuel hidx hsub hget hlen hfuel
    have htr : truncate (some t) (some enc.length) enc = enc := by
      cases hrw : t.bind findRow with
      | none => simp only [truncate, hrw]
      | some r =>
        have hs := hcut r hrw
        have hb : bitLen t / 8 = r.size := by
          cases t with
          | none => simp at hrw
          | some tt => simp only [Option.bind_some] at hrw; simp [bitLen, hrw]
        simp only [truncate, hrw, hb, hs, Nat.lt_irrefl, if_false]
    exact ⟨c2, by simp only [remoteGet, hup, htr, hdec], hn2⟩
  · intro hr fuel
    have hget : getData c1.peer.2 idx sub true = .error (.abort 0x06010001) := by
      rw [hn1, getData_entry n idx sub t a enc true hentry]; simp [hr]
    obtain ⟨c2, hup, hn2, _⟩ := upload_lib_refused c1 idx sub 0x06010001 (some t) fuel hidx hsub (by decide) hget
    exact ⟨c2, by simp only [remoteGet, hup], hn2⟩

/-- **The remote side never reads a different value.**  Once `enc` (the encoding of `v'`) is stored
    at an entry of *any* access type, every remote read that returns a value returns `v'` — a
    write-only entry yields no value at all, never another one. -/
theorem remote_read_never_differs (n : Node) (idx sub : Nat) (t : Option Nat) (a : Nat) (v' : Val) (enc : Bytes)
    (hidx : idx < 65536) (hsub : sub < 256) (hentry : Entry n idx sub t a)
    (hdec : decodeRaw t enc = some v')
    (hcut : ∀ r, t.bind findRow = some r → r.size = enc.length) (hlen : enc.length < 2 ^ 32)
    (c1 : Chan (Srv × Node)) (hn1 : c1.peer.2 = stored n idx sub enc) (fuel : Nat) (hfuel : enc.length + 2 ≤ fuel)
    (c2 : Chan (Srv × Node)) (r : Val) (hread : remoteGet c1 idx sub t fuel = (c2, .ok r)) : r = v' := by
  obtain ⟨_, _, _, hrem⟩ := reads_after_store n idx sub t a v' enc hidx hsub hentry hdec hcut hlen
  obtain ⟨hyes, hno⟩ := hrem c1 hn1
  cases hr : accReadable a with
  | true =>
    obtain ⟨c2', h2, _⟩ := hyes hr fuel hfuel
    rw [h2] at hread
    cases hread; rfl
  | false =>
    obtain ⟨c2', h2, _⟩ := hno hr fuel
    rw [h2] at hread
    cases hread

/-- **Generic round trip for every access type that admits the write.**  If the access type of the
    entry has a "w" (`rw`, `wo`, `rwr`, `rww`), then after `remote[x].raw = v` the local node holds
    exactly `enc`; the local node's own accessor reads `v'` and `local.sdo.upload` gives `enc` —
    also for a write-only entry; the remote side reads `v'` when the entry is readable over the bus,
    and is refused with abort 0x06010001 (node unchanged) when it is not. -/
theorem access_roundtrip (c : Chan (Srv × Node)) (idx sub : Nat) (t : Option Nat) (a : Nat) (v v' : Val) (enc : Bytes)
    (hwf : SrvWF c.peer.1) (hidx : idx < 65536) (hsub : sub < 256) (hentry : Entry c.peer.2 idx sub t a)
    (hw : accWritable a = true)
    (henc : encodeRaw t v = some enc) (hdec : decodeRaw t enc = some v')
    (hnum : isNumberType t = true → 8 * enc.length = bitLen t)
    (hcut : ∀ r, t.bind findRow = some r → r.size = enc.length) (hlen : enc.length < 2 ^ 32) :
    ∃ c1, remoteSet c idx sub t v = (c1, .ok ()) ∧
      lookup (idx, sub) c1.peer.2.store = some enc ∧
      localGet c1.peer.2 idx sub t = some v' ∧
      localUpload c1.peer.2 idx sub = some enc ∧
      (accReadable a = true → ∀ fuel, enc.length + 2 ≤ fuel →
        ∃ c2, remoteGet c1 idx sub t fuel = (c2, .ok v') ∧ c2.peer.2 = c1.peer.2) ∧
      (accReadable a = false → ∀ fuel,
        ∃ c2, remoteGet c1 idx sub t fuel = (c2, .error (.aborted 0x06010001)) ∧ c2.peer.2 = c1.peer.2) := by
  have hset := setData_entry c.peer.2 idx sub t a enc true hentry (fun _ => hw) hnum
  obtain ⟨c1, hdl, hn1, _⟩ := download_lib c idx sub enc (t == some DOMAIN) [] _ hwf hidx hsub hset
  obtain ⟨h1, h2, h3, hrem⟩ := reads_after_store c.peer.2 idx sub t a v' enc hidx hsub hentry hdec hcut hlen
  obtain ⟨hyes, hno⟩ := hrem c1 hn1
  refine ⟨c1, by simp only [remoteSet, henc, hdl], ?_, ?_, ?_, hyes, hno⟩
  · rw [hn1]; exact h1
  · rw [hn1]; exact h2
  · rw [hn1]; exact h3

/-- **Generic round trip of a value the application assigns itself**, for every access type
    (read-only and constant entries included — the application is not subject to access rights):
    after `local[x].raw = v` the node holds exactly `enc`, the local side reads `v'` back, and every
    client on the bus reads `v'` (entry readable over the bus) or is refused with 0x06010001
    (write-only). -/
theorem local_assign_roundtrip (n : Node) (idx sub : Nat) (t : Option Nat) (a : Nat) (v v' : Val) (enc : Bytes)
    (hidx : idx < 65536) (hsub : sub < 256) (hentry : Entry n idx sub t a)
    (henc : encodeRaw t v = some enc) (hdec : decodeRaw t enc = some v')
    (hnum : isNumberType t = true → 8 * enc.length = bitLen t)
    (hcut : ∀ r, t.bind findRow = some r → r.size = enc.length) (hlen : enc.length < 2 ^ 32) :
    ∃ n1, localSet n idx sub t v = .ok n1 ∧
      lookup (idx, sub) n1.store = some enc ∧
      localGet n1 idx sub t = some v' ∧
      localUpload n1 idx sub = some enc ∧
      ∀ c1 : Chan (Srv × Node), c1.peer.2 = n1 →
        (accReadable a = true → ∀ fuel, enc.length + 2 ≤ fuel →
          ∃ c2, remoteGet c1 idx sub t fuel = (c2, .ok v') ∧ c2.peer.2 = c1.peer.2) ∧
        (accReadable a = false → ∀ fuel,
          ∃ c2, remoteGet c1 idx sub t fuel = (c2, .error (.aborted 0x06010001)) ∧ c2.peer.2 = c1.peer.2) := by
  have hset := setData_entry n idx sub t a enc false hentry (fun h => by cases h) hnum
  obtain ⟨h1, h2, h3, hrem⟩ := reads_after_store n idx sub t a v' enc hidx hsub hentry hdec hcut hlen
  exact ⟨stored n idx sub enc, by simp only [localSet, henc, hset], h1, h2, h3, hrem⟩

/-- the codec facts the generic theorems need, for an integer type and a value in its range -/
theorem int_codec (e : Nat × Nat × Bool) (he : e ∈ C04.intTypes) (v : Int) (hv : inRange e.2.1 e.2.2 v = true) :
    encodeRaw (some e.1) (.int v) = some (leBytes (e.2.1 / 8) (ofSigned e.2.1 v)) ∧
    decodeRaw (some e.1) (leBytes (e.2.1 / 8) (ofSigned e.2.1 v)) = some (.int v) ∧
    (leBytes (e.2.1 / 8) (ofSigned e.2.1 v)).length = e.2.1 / 8 ∧
    (isNumberType (some e.1) = true → 8 * (e.2.1 / 8) = bitLen (some e.1)) ∧
    (∀ r, (some e.1).bind findRow = some r → r.size = e.2.1 / 8) ∧ e.2.1 / 8 < 2 ^ 32 := by
  have henc := C04.encode_is_twos_complement_le e he v hv
  have hdec := C04.decode_encode e he v hv
  rw [henc, Option.bind_some] at hdec
  obtain ⟨hbl, _, h8⟩ := Canopen.C05.intTypes_bitLen e he
  have hw64 : e.2.1 ≤ 64 := by
    have : ∀ x ∈ C04.intTypes, x.2.1 ≤ 64 := by decide
    exact this e he
  refine ⟨henc, hdec, leBytes_length _ _, ?_, ?_, by omega⟩
  · intro _; rw [hbl]; omega
  · intro r hr
    simp only [Option.bind_some] at hr
    have : bitLen (some e.1) = r.size * 8 := by simp [bitLen, hr]
    rw [hbl] at this; omega

/-- **Every integer type, every value in its range, every access type the bus may write** (`rw`,
    `wo`, `rwr`, `rww`): after `remote[x].raw = v` the local node holds exactly the CiA 301
    little-endian two's-complement encoding of `v` and `local[x].raw` reads `v` — a write-only entry
    included; `remote[x].raw` reads `v` when the bus may read the entry and raises
    `SdoAbortedError(0x06010001)` when it may not. -/
theorem typed_roundtrip_access : ∀ e ∈ C04.intTypes, ∀ (c : Chan (Srv × Node)) (idx sub a : Nat) (v : Int),
    SrvWF c.peer.1 → idx < 65536 → sub < 256 → Entry c.peer.2 idx sub (some e.1) a → accWritable a = true →
    inRange e.2.1 e.2.2 v = true →
    ∃ c1, remoteSet c idx sub (some e.1) (.int v) = (c1, .ok ()) ∧
      lookup (idx, sub) c1.peer.2.store = some (leBytes (e.2.1 / 8) (ofSigned e.2.1 v)) ∧
      localGet c1.peer.2 idx sub (some e.1) = some (.int v) ∧
      localUpload c1.peer.2 idx sub = some (leBytes (e.2.1 / 8) (ofSigned e.2.1 v)) ∧
      (accReadable a = true → ∀ fuel, e.2.1 / 8 + 2 ≤ fuel →
        ∃ c2, remoteGet c1 idx sub (some e.1) fuel = (c2, .ok (.int v)) ∧ c2.peer.2 = c1.peer.2) ∧
      (accReadable a = false → ∀ fuel,
        ∃ c2, remoteGet c1 idx sub (some e.1) fuel = (c2, .error (.aborted 0x06010001)) ∧ c2.peer.2 = c1.peer.2) := by
  intro e he c idx sub a v hwf hidx hsub hentry hw hv
  obtain ⟨henc, hdec, hl, hnum, hcut, hlen⟩ := int_codec e he v hv
  have := access_roundtrip c idx sub (some e.1) a (.int v) (.int v) _ hwf hidx hsub hentry hw henc hdec
    (by rw [hl]; exact hnum) (by rw [hl]; exact hcut) (by rw [hl]; exact hlen)
  rw [hl] at this
  exact this

/-- the codec facts for byte strings through an entry whose type has no fixed size and is not text -/
theorem bytes_codec (t : Nat) (bs : Bytes) (hrow : findRow t = none) (hvis : t ≠ VISIBLE_STRING)
    (huni : t ≠ UNICODE_STRING) :
    encodeRaw (some t) (.bytes bs) = some bs ∧ decodeRaw (some t) bs = some (.bytes bs) ∧
    (isNumberType (some t) = true → 8 * bs.length = bitLen (some t)) ∧
    (∀ r, (some t).bind findRow = some r → r.size = bs.length) := by
  have hnn : isNumberType (some t) = false := by
    have hall : ∀ x ∈ NUMBER_TYPES, findRow x ≠ none := by decide
    cases hc : isNumberType (some t) with
    | false => rfl
    | true =>
      simp only [isNumberType, List.contains_iff_mem] at hc
      exact absurd hrow (hall t (by simpa using hc))
  refine ⟨rfl, by simp [decodeRaw, hvis, huni, hrow], ?_, ?_⟩
  · intro h; rw [hnn] at h; cases h
  · intro r hr; simp [hrow] at hr

/-- **Byte strings of any length, every access type the bus may write** (OCTET_STRING, DOMAIN with
    forced segmentation, unknown types; the empty value included): the local node holds exactly the
    bytes and reads them back — also from a write-only entry; the remote side reads them or is
    refused with 0x06010001. -/
theorem bytes_roundtrip_access (c : Chan (Srv × Node)) (idx sub t a : Nat) (bs : Bytes)
    (hwf : SrvWF c.peer.1) (hidx : idx < 65536) (hsub : sub < 256) (hentry : Entry c.peer.2 idx sub (some t) a)
    (hw : accWritable a = true)
    (hrow : findRow t = none) (hvis : t ≠ VISIBLE_STRING) (huni : t ≠ UNICODE_STRING) (hlen : bs.length < 2 ^ 32) :
    ∃ c1, remoteSet c idx sub (some t) (.bytes bs) = (c1, .ok ()) ∧
      lookup (idx, sub) c1.peer.2.store = some bs ∧
      localGet c1.peer.2 idx sub (some t) = some (.bytes bs) ∧
      localUpload c1.peer.2 idx sub = some bs ∧
      (accReadable a = true → ∀ fuel, bs.length + 2 ≤ fuel →
        ∃ c2, remoteGet c1 idx sub (some t) fuel = (c2, .ok (.bytes bs)) ∧ c2.peer.2 = c1.peer.2) ∧
      (accReadable a = false → ∀ fuel,
        ∃ c2, remoteGet c1 idx sub (some t) fuel = (c2, .error (.aborted 0x06010001)) ∧ c2.peer.2 = c1.peer.2) := by
  obtain ⟨henc, hdec, hnum, hcut⟩ := bytes_codec t bs hrow hvis huni
  exact access_roundtrip c idx sub (some t) a (.bytes bs) (.bytes bs) bs hwf hidx hsub hentry hw henc hdec hnum hcut hlen

/-- **Every integer type, every value in its range, every access type, assigned by the
    application** (`local[x].raw = v`, read-only and constant entries included): the node holds the
    little-endian encoding, the local side reads `v`, every client on the bus reads `v` or (write-only
    entry) is refused with 0x06010001. -/
theorem local_assign_typed : ∀ e ∈ C04.intTypes, ∀ (n : Node) (idx sub a : Nat) (v : Int),
    idx < 65536 → sub < 256 → Entry n idx sub (some e.1) a → inRange e.2.1 e.2.2 v = true →
    ∃ n1, localSet n idx sub (some e.1) (.int v) = .ok n1 ∧
      lookup (idx, sub) n1.store = some (leBytes (e.2.1 / 8) (ofSigned e.2.1 v)) ∧
      localGet n1 idx sub (some e.1) = some (.int v) ∧
      localUpload n1 idx sub = some (leBytes (e.2.1 / 8) (ofSigned e.2.1 v)) ∧
      ∀ c1 : Chan (Srv × Node), c1.peer.2 = n1 →
        (accReadable a = true → ∀ fuel, e.2.1 / 8 + 2 ≤ fuel →
          ∃ c2, remoteGet c1 idx sub (some e.1) fuel = (c2, .ok (.int v)) ∧ c2.peer.2 = c1.peer.2) ∧
        (accReadable a = false → ∀ fuel,
          ∃ c2, remoteGet c1 idx sub (some e.1) fuel = (c2, .error (.aborted 0x06010001)) ∧ c2.peer.2 = c1.peer.2) := by
  intro e he n idx sub a v hidx hsub hentry hv
  obtain ⟨henc, hdec, hl, hnum, hcut, hlen⟩ := int_codec e he v hv
  have := local_assign_roundtrip n idx sub (some e.1) a (.int v) (.int v) _ hidx hsub hentry henc hdec
    (by rw [hl]; exact hnum) (by rw [hl]; exact hcut) (by rw [hl]; exact hlen)
  rw [hl] at this
  exact this

/-- **Byte strings of any length, every access type, assigned by the application.** -/
theorem local_assign_bytes (n : Node) (idx sub t a : Nat) (bs : Bytes)
    (hidx : idx < 65536) (hsub : sub < 256) (hentry : Entry n idx sub (some t) a)
    (hrow : findRow t = none) (hvis : t ≠ VISIBLE_STRING) (huni : t ≠ UNICODE_STRING) (hlen : bs.length < 2 ^ 32) :
    ∃ n1, localSet n idx sub (some t) (.bytes bs) = .ok n1 ∧
      lookup (idx, sub) n1.store = some bs ∧
      localGet n1 idx sub (some t) = some (.bytes bs) ∧
      localUpload n1 idx sub = some bs ∧
      ∀ c1 : Chan (Srv × Node), c1.peer.2 = n1 →
        (accReadable a = true → ∀ fuel, bs.length + 2 ≤ fuel →
          ∃ c2, remoteGet c1 idx sub (some t) fuel = (c2, .ok (.bytes bs)) ∧ c2.peer.2 = c1.peer.2) ∧
        (accReadable a = false → ∀ fuel,
          ∃ c2, remoteGet c1 idx sub (some t) fuel = (c2, .error (.aborted 0x06010001)) ∧ c2.peer.2 = c1.peer.2) := by
  obtain ⟨henc, hdec, hnum, hcut⟩ := bytes_codec t bs hrow hvis huni
  exact local_assign_roundtrip n idx sub (some t) a (.bytes bs) (.bytes bs) bs hidx hsub hentry henc hdec hnum hcut hlen

/-! ## index, name and 'Parent.Child' reach the same object -/

open Canopen.Od in
/-- well-formed dictionary: unique indexes, unique names without '.', records non-empty, unique
    sub-indices and member names inside each record / array -/
structure WFDict (od : Dict) : Prop where
  idxNodup : (od.map OObj.index).Nodup
  nameNodup : (od.map OObj.name).Nodup
  nonempty : ∀ o ∈ od, o.truthy = true
  noDot : ∀ o ∈ od, '.' ∉ o.name
  members : ∀ b i n ms, OObj.group b i n ms ∈ od →
    (ms.map (·.sub)).Nodup ∧ (ms.map (·.name)).Nodup

theorem find?_unique {α} (l : List α) (p : α → Bool) (x : α) (hx : x ∈ l) (hp : p x = true)
    (hu : ∀ y ∈ l, p y = true → y = x) : l.find? p = some x := by
  induction l with
  | nil => simp at hx
  | cons a l ih =>
    simp only [List.find?_cons]
    by_cases ha : p a = true
    · rw [ha]; simp [hu a (by simp) ha]
    · have hax : a ≠ x := fun h => ha (h ▸ hp)
      simp only [Bool.not_eq_true] at ha
      rw [ha]
      exact ih (by rcases List.mem_cons.mp hx with h | h; exact absurd h.symm hax; exact h)
        (fun y hy => hu y (by simp [hy]))

theorem rfind_key {α β} [DecidableEq β] (l : List α) (f : α → β) (x : α) (hx : x ∈ l) (hn : (l.map f).Nodup) :
    l.reverse.find? (fun y => decide (f y = f x)) = some x := by
  apply find?_unique _ _ x (List.mem_reverse.mpr hx) (by simp)
  intro y hy hfy
  exact List.inj_on_of_nodup_map hn (List.mem_reverse.mp hy) hx (by simpa using hfy)

open Canopen.Od in
theorem splitDot_append (a b : List Char) (h : '.' ∉ a) : splitDot (a ++ '.' :: b) = some (a, b) := by
  induction a with
  | nil => simp [splitDot]
  | cons c r ih =>
    have hc : c ≠ '.' := fun hh => h (by simp [hh])
    have hr : '.' ∉ r := fun hh => h (by simp [hh])
    simp [splitDot, hc, ih hr]

open Canopen.Od in
/-- **Looking an object up by index, by name, or by 'Parent.Child' reaches the same object**, in
    every well-formed dictionary; members of a record / array are reached alike by sub-index and
    by name. -/
theorem lookup_agree (od : Dict) (hwf : WFDict od) :
    (∀ o ∈ od, getItem od (.idx o.index) = some (.inl o) ∧ getItem od (.name o.name) = some (.inl o)) ∧
    (∀ b i n ms, OObj.group b i n ms ∈ od → ∀ m ∈ ms,
      memberGet (.group b i n ms) (.idx m.sub) = some m ∧
      memberGet (.group b i n ms) (.name m.name) = some m ∧
      getItem od (.name (n ++ '.' :: m.name)) = some (.inr m)) := by
  have hidx : ∀ o ∈ od, od.reverse.find? (fun y => decide (y.index = o.index)) = some o :=
    fun o ho => rfind_key od OObj.index o ho hwf.idxNodup
  have hname : ∀ o ∈ od, od.reverse.find? (fun y => decide (y.name = o.name)) = some o :=
    fun o ho => rfind_key od OObj.name o ho hwf.nameNodup
  constructor
  · intro o ho
    constructor
    · simp [getItem, namesGet, indicesGet, pyOr, hidx o ho]
    · simp [getItem, namesGet, indicesGet, pyOr, hname o ho, hwf.nonempty o ho]
  · intro b i n ms hg m hm
    obtain ⟨hs, hn⟩ := hwf.members b i n ms hg
    have h1 : ms.reverse.find? (fun y => decide (y.sub = m.sub)) = some m := rfind_key ms (·.sub) m hm hs
    have h2 : ms.reverse.find? (fun y => decide (y.name = m.name)) = some m := rfind_key ms (·.name) m hm hn
    refine ⟨by simp [memberGet, h1], by simp [memberGet, h2], ?_⟩
    -- the dotted string is no object's name (names have no '.'), so the fallback splits it
    have hnone : od.reverse.find? (fun y => decide (y.name = n ++ '.' :: m.name)) = none := by
      apply List.find?_eq_none.mpr
      intro y hy
      have := hwf.noDot y (List.mem_reverse.mp hy)
      simp only [decide_eq_true_eq]
      intro h
      exact this (by rw [h]; simp)
    have hpar : od.reverse.find? (fun y => decide (y.name = n)) = some (.group b i n ms) :=
      hname (.group b i n ms) hg
    have hnd := hwf.noDot (.group b i n ms) hg
    simp only [OObj.name] at hnd
    have htr := hwf.nonempty (.group b i n ms) hg
    simp only [getItem, namesGet, indicesGet, pyOr, hnone, splitDot_append n m.name hnd, hpar, htr, if_true]
    simp [memberGet, h2, hpar, htr]

/-! ## transfers to different nodes do not see each other -/

/-- the requests addressed to node `nid`, in order -/
def toNode (nid : Nat) (fs : List (Nat × Bytes)) : List Bytes :=
  (fs.filter fun f => f.1 = 0x600 + nid).map (·.2)

/-- a node's server run on its own requests only -/
def runAlone (sn : Srv × Node) (reqs : List Bytes) : (Srv × Node) × List Bytes :=
  reqs.foldl (fun acc r => let o := srvStep acc.1.1 acc.1.2 r; ((o.srv, o.node), acc.2 ++ o.sent)) (sn, [])

theorem runAlone_cons (sn : Srv × Node) (r : Bytes) (rs : List Bytes) :
    runAlone sn (r :: rs) =
      (let o := srvStep sn.1 sn.2 r
       let x := runAlone (o.srv, o.node) rs
       (x.1, o.sent ++ x.2)) := by
  have gen : ∀ (rs : List Bytes) (sn : Srv × Node) (pre : List Bytes),
      rs.foldl (fun acc r => let o := srvStep acc.1.1 acc.1.2 r; ((o.srv, o.node), acc.2 ++ o.sent)) (sn, pre) =
      ((runAlone sn rs).1, pre ++ (runAlone sn rs).2) := by
    intro rs
    induction rs with
    | nil => intro sn pre; simp [runAlone]
    | cons a as ih =>
      intro sn pre
      simp only [List.foldl_cons, runAlone]
      rw [ih, ih _ ([] ++ _)]
      simp [List.append_assoc]
  simp only [runAlone, List.foldl_cons, List.nil_append]
  rw [gen]
  simp [runAlone]

/-- **Concurrent transfers to different nodes never see each other's data.**  For any
    interleaving of request frames on the bus (two local nodes with distinct ids, plus arbitrary
    unrelated traffic): each node's server ends exactly where it ends when run on its own requests
    alone, and the responses on its COB-ID are exactly its own — whatever was interleaved. -/
theorem channel_isolation (bus : Bus2) (hne : bus.idA ≠ bus.idB) (fs : List (Nat × Bytes)) :
    (busRun bus fs).1.a = (runAlone bus.a (toNode bus.idA fs)).1 ∧
    (busRun bus fs).1.b = (runAlone bus.b (toNode bus.idB fs)).1 ∧
    (busRun bus fs).1.idA = bus.idA ∧ (busRun bus fs).1.idB = bus.idB ∧
    ((busRun bus fs).2.filter fun r => r.1 = 0x580 + bus.idA).map (·.2) = (runAlone bus.a (toNode bus.idA fs)).2 ∧
    ((busRun bus fs).2.filter fun r => r.1 = 0x580 + bus.idB).map (·.2) = (runAlone bus.b (toNode bus.idB fs)).2 := by
  induction fs generalizing bus with
  | nil => simp [busRun, toNode, runAlone]
  | cons f fs ih =>
    have hAB : 0x600 + bus.idA ≠ 0x600 + bus.idB := by omega
    have hAB' : 0x580 + bus.idA ≠ 0x580 + bus.idB := by omega
    simp only [busRun]
    by_cases hA : f.1 = 0x600 + bus.idA
    · have hB : ¬ f.1 = 0x600 + bus.idB := by rw [hA]; exact hAB
      have hstep : busStep bus f =
          ({ bus with a := ((srvStep bus.a.1 bus.a.2 f.2).srv, (srvStep bus.a.1 bus.a.2 f.2).node) },
           (srvStep bus.a.1 bus.a.2 f.2).sent.map fun r => (0x580 + bus.idA, r)) := by
        simp [busStep, hA]
      rw [hstep]
      obtain ⟨i1, i2, i3, i4, i5, i6⟩ := ih
        { bus with a := ((srvStep bus.a.1 bus.a.2 f.2).srv, (srvStep bus.a.1 bus.a.2 f.2).node) } hne
      simp only at i1 i2 i3 i4 i5 i6 ⊢
      have htA : toNode bus.idA (f :: fs) = f.2 :: toNode bus.idA fs := by simp [toNode, hA]
      have htB : toNode bus.idB (f :: fs) = toNode bus.idB fs := by simp [toNode, hB]
      rw [htA, htB, runAlone_cons]
      refine ⟨i1, i2, i3, i4, ?_, ?_⟩
      · simp only [List.filter_append, List.map_append, i5]
        congr 1
        simp [List.filter_map, Function.comp_def]
      · simp only [List.filter_append, List.map_append, i6]
        have : (List.filter (fun r => decide (r.1 = 0x580 + bus.idB))
            ((srvStep bus.a.1 bus.a.2 f.2).sent.map fun r => (0x580 + bus.idA, r))) = [] := by
          apply List.filter_eq_nil_iff.mpr
          intro r hr
          simp only [List.mem_map] at hr
          obtain ⟨x, _, rfl⟩ := hr
          simpa using hAB'
        simp [this]
    · by_cases hB : f.1 = 0x600 + bus.idB
      · have hstep : busStep bus f =
            ({ bus with b := ((srvStep bus.b.1 bus.b.2 f.2).srv, (srvStep bus.b.1 bus.b.2 f.2).node) },
             (srvStep bus.b.1 bus.b.2 f.2).sent.map fun r => (0x580 + bus.idB, r)) := by
          simp [busStep, hA, hB, hne.symm, hne]
        rw [hstep]
        obtain ⟨i1, i2, i3, i4, i5, i6⟩ := ih
          { bus with b := ((srvStep bus.b.1 bus.b.2 f.2).srv, (srvStep bus.b.1 bus.b.2 f.2).node) } hne
        simp only at i1 i2 i3 i4 i5 i6 ⊢
        have htA : toNode bus.idA (f :: fs) = toNode bus.idA fs := by simp [toNode, hA]
        have htB : toNode bus.idB (f :: fs) = f.2 :: toNode bus.idB fs := by simp [toNode, hB]
        rw [htA, htB, runAlone_cons]
        refine ⟨i1, i2, i3, i4, ?_, ?_⟩
        · simp only [List.filter_append, List.map_append, i5]
          have : (List.filter (fun r => decide (r.1 = 0x580 + bus.idA))
              ((srvStep bus.b.1 bus.b.2 f.2).sent.map fun r => (0x580 + bus.idB, r))) = [] := by
            apply List.filter_eq_nil_iff.mpr
            intro r hr
            simp only [List.mem_map] at hr
            obtain ⟨x, _, rfl⟩ := hr
            simpa using (Ne.symm hAB')
          simp [this]
        · simp only [List.filter_append, List.map_append, i6]
          congr 1
          simp [List.filter_map, Function.comp_def]
      · have hstep : busStep bus f = (bus, []) := by simp [busStep, hA, hB]
        rw [hstep]
        obtain ⟨i1, i2, i3, i4, i5, i6⟩ := ih bus hne
        have htA : toNode bus.idA (f :: fs) = toNode bus.idA fs := by simp [toNode, hA]
        have htB : toNode bus.idB (f :: fs) = toNode bus.idB fs := by simp [toNode, hB]
        rw [htA, htB]
        simp only [List.nil_append]
        exact ⟨i1, i2, i3, i4, i5, i6⟩

/-! ## non-vacuity -/

def exNode : Node :=
  { od := [(0x2000, .var ⟨some INTEGER16, 0, none, none⟩)], store := [], readCb := [], writeLog := [] }

example : RWEntry exNode 0x2000 0 (some INTEGER16) := ⟨⟨_, rfl, rfl, rfl, rfl⟩, rfl, rfl⟩
example : (INTEGER16, 16, true) ∈ C04.intTypes ∧ inRange 16 true (-5) = true := by decide

/-- a write-only UNSIGNED32 command word, a read-only UNSIGNED16 status word, a constant -/
def accNode : Node :=
  { od := [(0x2200, .var ⟨some UNSIGNED32, 2, none, none⟩), (0x2201, .var ⟨some UNSIGNED16, 1, none, some (.int 9)⟩),
           (0x2202, .record [(1, ⟨some OCTET_STRING, 3, none, none⟩)])],
    store := [], readCb := [], writeLog := [] }

example : Entry accNode 0x2200 0 (some UNSIGNED32) 2 ∧ accWritable 2 = true ∧ accReadable 2 = false :=
  ⟨⟨⟨_, rfl, rfl, rfl⟩, rfl, rfl⟩, rfl, rfl⟩
example : Entry accNode 0x2201 0 (some UNSIGNED16) 1 ∧ accWritable 1 = false ∧ accReadable 1 = true :=
  ⟨⟨⟨_, rfl, rfl, rfl⟩, rfl, rfl⟩, rfl, rfl⟩
example : Entry accNode 0x2202 1 (some OCTET_STRING) 3 ∧ accReadable 3 = true :=
  ⟨⟨⟨_, rfl, rfl, rfl⟩, rfl, rfl⟩, rfl⟩
example : (UNSIGNED32, 32, false) ∈ C04.intTypes ∧ inRange 32 false 0xDEADBEEF = true := by decide
/-- the access types that admit the write over the bus, and those the bus may read -/
example : [0, 1, 2, 3, 4, 5].filter accWritable = [0, 2, 4, 5] ∧ [0, 1, 2, 3, 4, 5].filter accReadable = [0, 1, 3, 4, 5] := by
  decide
/-- the write-only round trip, evaluated: stored little-endian, read locally, refused remotely -/
example :
    let c0 : Chan (Srv × Node) := { peer := (srvInit, accNode), queue := [], sent := [] }
    let c1 := (remoteSet c0 0x2200 0 (some UNSIGNED32) (.int 0xDEADBEEF)).1
    lookup (0x2200, 0) c1.peer.2.store = some [0xEF, 0xBE, 0xAD, 0xDE] ∧
    localGet c1.peer.2 0x2200 0 (some UNSIGNED32) = some (.int 0xDEADBEEF) ∧
    (remoteGet c1 0x2200 0 (some UNSIGNED32) 10).2 = .error (.aborted 0x06010001) := by
  decide

end Canopen.C03
