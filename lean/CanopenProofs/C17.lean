/-
C17 — Periodic transmissions run exactly when and with what the API state says.

Theorems about `CanopenModel/Periodic.lean` (SYNC producer, PDO maps — including `start()` without a
period after the period was given by an earlier start, by assignment to the `period` attribute or
measured by `on_message` —, heartbeat producer with the 0x1017 hook and the NMT state, node guarding, `PeriodicMessageTask.update` on buses with and
without `modify_data`, `Network.disconnect`).  Every statement quantifies over every configuration
`c` (bus flavour, SYNC COB-ID, any set of nodes and PDO maps), every fresh network `s0` (no task
registered, no handle set; every attribute — COB-IDs, payloads, periods, NMT states, heartbeat
times — arbitrary) and every history `ops : List Op` of API calls, of any length.

`liveOwned s o` are the creation indices of the live cyclic tasks at the simulated bus that
producer `o` created (`owner` is a ghost field of the bus task).

The model follows the repaired code for findings F3 (`SyncProducer.start` stops a running task
first) and F13 (`PeriodicMessageTask` snapshots the payload it is given); the counterexample for
the unrepaired `start` is `unrepaired_sync_start_leaks`.
-/
import CanopenProofs.Lemmas.PeriodicPeriod

namespace Canopen.C17
open Canopen Canopen.Periodic

/-- a network on which nothing periodic has been started yet -/
def Fresh (s : State) : Prop := s.bus.n = 0 ∧ ∀ o, s.slots o = none

variable {c : Cfg} {s : State}

theorem Fresh.inv (h : Fresh s) : Inv c s := by
  constructor
  · intro i hi; rw [h.1] at hi; omega
  · intro o t ht; rw [h.2 o] at ht; cases ht
  · intro o t _ ht; rw [h.2 o] at ht; cases ht
  · intro o t ht; rw [h.2 o] at ht; cases ht

theorem Fresh.current (h : Fresh s) : Current c s := by
  intro o t _ ht; rw [h.2 o] at ht; cases ht

/-! ### lists of live tasks -/

theorem mem_liveOwned {o : Owner} {i : Nat} :
    i ∈ liveOwned s o ↔ i < s.bus.n ∧ (s.bus.task i).live = true ∧ (s.bus.task i).owner = o := by
  simp [liveOwned, List.mem_filter, List.mem_range]

theorem mem_liveTasks {i : Nat} : i ∈ liveTasks s ↔ i < s.bus.n ∧ (s.bus.task i).live = true := by
  simp [liveTasks, List.mem_filter, List.mem_range]

theorem liveOwned_nodup (s : State) (o : Owner) : (liveOwned s o).Nodup :=
  List.Nodup.sublist List.filter_sublist List.nodup_range

theorem liveOwned_nil_iff {o : Owner} : liveOwned s o = [] ↔ NoLive s o := by
  unfold liveOwned NoLive
  rw [List.filter_eq_nil_iff]
  constructor
  · intro h i hi hl ho
    exact h i (List.mem_range.2 hi) (by simp [hl, ho])
  · intro h i hi hp
    simp only [Bool.and_eq_true, decide_eq_true_eq] at hp
    exact h i (List.mem_range.1 hi) hp.1 hp.2

theorem length_le_one_of_all_eq {l : List Nat} (hn : l.Nodup) (k : Nat) (h : ∀ x ∈ l, x = k) :
    l.length ≤ 1 := by
  match l, hn, h with
  | [], _, _ => simp
  | [_], _, _ => simp
  | a :: b :: r, hn, h =>
    have ha := h a (by simp)
    have hb := h b (by simp)
    rw [List.nodup_cons] at hn
    exact absurd (by rw [ha, hb]; simp) hn.1

theorem eq_singleton_of_all_eq {l : List Nat} (hn : l.Nodup) (k : Nat) (hk : k ∈ l) (h : ∀ x ∈ l, x = k) :
    l = [k] := by
  have hl := length_le_one_of_all_eq hn k h
  match l, hk, h, hl with
  | [a], _, h, _ => rw [h a (by simp)]
  | _ :: _ :: _, _, _, hl => simp at hl

/-! ## T at_most_one -/

/-- At every moment of every history each producer has at most one cyclic task running. -/
theorem at_most_one (c : Cfg) (s0 : State) (h0 : Fresh s0) (ops : List Op) (o : Owner) :
    (liveOwned (run c s0 ops) o).length ≤ 1 := by
  have hi : Inv c (run c s0 ops) := inv_run h0.inv ops
  cases hs : (run c s0 ops).slots o with
  | none =>
    rw [liveOwned_nil_iff.2 (hi.noLive_of_none hs)]; simp
  | some t =>
    refine length_le_one_of_all_eq (liveOwned_nodup _ _) t.idx ?_
    intro i hm
    obtain ⟨hlt, hl, ho⟩ := mem_liveOwned.1 hm
    obtain ⟨t', ht', hidx⟩ := hi.liveSlot i hlt hl
    rw [ho, hs] at ht'; cases ht'; exact hidx.symm

example : ∃ c s0 ops, Fresh s0 ∧ (liveOwned (run c s0 ops) .sync).length = 1 :=
  ⟨⟨false, 0x80, [], [], []⟩,
   ⟨⟨0, fun _ => ⟨0, [], false, 0, .sync, false⟩⟩, true, fun _ => none, none,
    fun _ _ => ⟨none, 0, [], none, none⟩, fun _ => ⟨0, 0, none⟩, 0⟩,
   [.syncStart (some 100000), .syncStart (some 200000)], ⟨rfl, fun _ => rfl⟩, by decide⟩

/-! ## T running_iff_api -/

/-- A cyclic task of a PDO map, heartbeat producer or node-guarding master is running exactly when
    the producer's handle (`_task`, `_send_task`, `_node_guarding_producer`) is set, and it is the
    task the handle points to; a running SYNC task is the one `sync._task` points to. -/
theorem running_iff_api (c : Cfg) (s0 : State) (h0 : Fresh s0) (ops : List Op) (o : Owner) :
    let s := run c s0 ops
    (∀ i, i ∈ liveOwned s o → ∃ t, s.slots o = some t ∧ t.idx = i) ∧
    (o ≠ .sync → ∀ t, s.slots o = some t → liveOwned s o = [t.idx]) ∧
    (s.slots o = none → liveOwned s o = []) := by
  intro s
  have hi : Inv c s := inv_run h0.inv ops
  have h1 : ∀ i, i ∈ liveOwned s o → ∃ t, s.slots o = some t ∧ t.idx = i := by
    intro i hm
    obtain ⟨hlt, hl, ho⟩ := mem_liveOwned.1 hm
    obtain ⟨t', ht', hidx⟩ := hi.liveSlot i hlt hl
    rw [ho] at ht'; exact ⟨t', ht', hidx⟩
  refine ⟨h1, ?_, fun hs => liveOwned_nil_iff.2 (hi.noLive_of_none hs)⟩
  intro ho t ht
  have ag := hi.slotBus o t ht
  refine eq_singleton_of_all_eq (liveOwned_nodup _ _) t.idx ?_ ?_
  · exact mem_liveOwned.2 ⟨ag.1, hi.slotLive o t ho ht, ag.2.1⟩
  · intro i hm
    obtain ⟨t', ht', hidx⟩ := h1 i hm
    rw [ht] at ht'; cases ht'; exact hidx.symm

/-! ## T live_is_current -/

/-- Whatever runs carries its producer's current CAN id, payload, remote flag and period:
    SYNC: `sync.cob_id`, no data, `sync.period`; PDO map: `cob_id`, `data`, `period`;
    heartbeat: `0x700 + id`, `[nmt._state]`, `_heartbeat_time_ms`; node guarding: RTR on `0x700 + id`.
    Holds after every history in which no `NmtSlave.send_command` / state setter raised after having
    changed the NMT state and nobody assigned the `period` attribute of a producer whose task was
    running (`CleanRun`; see `raising_state_change_breaks_current` and
    `period_assignment_while_running_breaks_current` for why). -/
theorem live_is_current (c : Cfg) (s0 : State) (h0 : Fresh s0) (ops : List Op) (hcl : CleanRun c s0 ops) :
    let s := run c s0 ops
    ∀ i, i ∈ liveTasks s →
      Wanted c s (s.bus.task i).owner (s.bus.task i).canId (s.bus.task i).data (s.bus.task i).remote
        (s.bus.task i).period := by
  intro s i hm
  have hi : Inv c s := inv_run h0.inv ops
  have hc : Current c s := cur_run h0.inv h0.current ops hcl
  obtain ⟨hlt, hl⟩ := mem_liveTasks.1 hm
  obtain ⟨t, ht, hidx⟩ := hi.liveSlot i hlt hl
  have ag := hi.slotBus _ t ht
  unfold Agrees at ag
  rw [hidx] at ag
  have w := hc _ t (by simp) ht (by rw [hidx]; exact hl)
  rw [ag.2.2.1, ag.2.2.2.1, ag.2.2.2.2.1, ag.2.2.2.2.2]
  exact w

/-- histories made of calls that are neither NMT state changes nor assignments to a `period`
    attribute are clean, whatever they do -/
theorem cleanRun_of_no_state_change (c : Cfg) (s : State) (ops : List Op)
    (h : ∀ op ∈ ops, op.nmtNode = none ∧ op.assigns = none) : CleanRun c s ops := by
  induction ops generalizing s with
  | nil => trivial
  | cons op r ih =>
    refine ⟨⟨?_, ?_⟩, ih _ (fun op' hm => h op' (List.mem_cons_of_mem _ hm))⟩
    · intro n hn; rw [(h op (by simp)).1] at hn; cases hn
    · intro o ho; rw [(h op (by simp)).2] at ho; cases ho

theorem applyCmd_connected (s : State) (n code : Nat) : (applyCmd s n code).connected = s.connected := by
  unfold applyCmd; split <;> rfl
theorem applyCmd_od1017 (s : State) (n code : Nat) :
    ((applyCmd s n code).slave n).od1017 = (s.slave n).od1017 := by
  unfold applyCmd; split <;> simp

theorem hbStart_ok (s : State) (n : Nat) (ms : Int) (hc : s.connected = true) : (hbStart s n ms).2 = true := by
  unfold hbStart hbStop
  simp only []
  split
  · rw [startSlot_ok _ _ _ _ _ _ (by simpa using hc)]
  · rfl

theorem sendCommand_ok (c : Cfg) (s : State) (n code : Nat) (hc : s.connected = true)
    (hr : (s.slave n).od1017.isSome = true) : (sendCommand c s n code).2 = true := by
  unfold sendCommand
  simp only []
  have hc1 := applyCmd_connected s n code
  rw [if_neg (by rw [hc1, hc]; simp)]
  unfold sendCommandTail
  split
  · cases hod : ((applyCmd s n code).slave n).od1017 with
    | none => rw [applyCmd_od1017] at hod; rw [hod] at hr; cases hr
    | some v => exact hbStart_ok _ _ _ (by rw [hc1]; exact hc)
  · rfl

/-- On a connected network whose local node can read object 0x1017 every NMT state change of that
    node is clean, and so is every other call that is not an assignment to the `period` attribute of
    a producer whose task is running: the hypothesis of `live_is_current` only excludes state changes
    after `disconnect()`, boots of nodes without a value for 0x1017, and such assignments. -/
theorem state_change_clean (c : Cfg) (s : State) (op : Op) (hc : s.connected = true)
    (hr : ∀ n, op.nmtNode = some n → (s.slave n).od1017.isSome = true)
    (hp : ∀ o, op.assigns = some o → Idle s o) : Clean c s op := by
  refine ⟨?_, hp⟩
  intro n hn
  unfold step
  by_cases hw : op.wellAddressed c = true
  · simp only [hw, if_true]
    cases op with
    | sendCommand n' code =>
      cases hn
      left; exact sendCommand_ok c s n code hc (hr n rfl)
    | setState n' name =>
      cases hn
      simp only [exec, setState]
      split
      · left; exact sendCommand_ok c s n _ hc (hr n rfl)
      · right; rfl
    | _ => cases hn
  · simp only [hw]; right; trivial

def exCfg : Cfg := ⟨false, 0x80, [(7, 1)], [5], [7]⟩
def exState : State :=
  ⟨⟨0, fun _ => ⟨0, [], false, 0, .sync, false⟩⟩, true, fun _ => none, none,
   fun _ _ => ⟨some 0x207, 2, [0, 0], none, none⟩, fun _ => ⟨0, 0, some 100⟩, 0⟩
theorem exState_fresh : Fresh exState := ⟨rfl, fun _ => rfl⟩

/-- non-vacuity: a clean history with state changes, updates and restarts that leaves four
    producers running -/
example : CleanRun exCfg exState
      [.sendCommand 5 128, .pdoStart 7 1 (some 1000), .pdoSetByte 7 1 0 9, .sendCommand 5 1,
       .syncStart (some 5000), .guardStart 7 20000] ∧
    liveTasks (run exCfg exState
      [.sendCommand 5 128, .pdoStart 7 1 (some 1000), .pdoSetByte 7 1 0 9, .sendCommand 5 1,
       .syncStart (some 5000), .guardStart 7 20000]) = [2, 3, 4, 5] := by
  refine ⟨⟨?_, ?_, ?_, ?_, ?_, ?_, trivial⟩, by decide⟩ <;>
    refine ⟨fun n hn => ?_, fun o ho => by cases ho⟩ <;>
    first | (left; decide) | (cases hn)

/-! ## T restart_replaces -/

/-- the producer a call (re)starts, if any -/
def starts : Op → Option Owner
  | .syncStart _ => some .sync
  | .pdoStart n k _ => some (.pdo n k)
  | .hbStart n ms => if ms > 0 then some (.hb n) else none
  | .guardStart n _ => some (.guard n)
  | _ => none

/-- the period a call asks for, in µs -/
def asksPeriod : Op → Option Nat
  | .syncStart p => p
  | .pdoStart _ _ p => p
  | .hbStart _ ms => some (ms.toNat * 1000)
  | .guardStart _ p => some p
  | _ => none

theorem liveOwned_send (hn : NoLive s o) (id : Nat) (d : Bytes) (p : Nat) (r : Bool) (v : Option PTask) :
    liveOwned (setSlot { s with bus := s.bus.send ⟨id, d, r, p, o, true⟩ } o v) o = [s.bus.n] := by
  refine eq_singleton_of_all_eq (liveOwned_nodup _ _) _ ?_ ?_
  · exact mem_liveOwned.2 ⟨by simp, by simp [Bus.send_task], by simp [Bus.send_task]⟩
  · intro i hm
    obtain ⟨hlt, hl, ho⟩ := mem_liveOwned.1 hm
    simp only [setSlot_bus, Bus.send_n, Bus.send_task] at hlt hl ho
    by_cases hin : i = s.bus.n
    · exact hin
    · simp only [hin, if_false] at hl ho
      exact absurd ho (hn i (by omega) hl)

/-- what a successful `startSlot` leaves on the bus for its producer -/
theorem startSlot_result (hn : NoLive s o) (id : Option Nat) (d : Bytes) (p : Nat) (r : Bool)
    (hok : (startSlot s o id d p r).2 = true) :
    liveOwned (startSlot s o id d p r).1 o = [s.bus.n] ∧
    ((startSlot s o id d p r).1.bus.task s.bus.n).period = p ∧
    ((startSlot s o id d p r).1.bus.task s.bus.n).live = true := by
  rcases startSlot_cases s o id d p r with he | ⟨v, _, _, he⟩
  · rw [he] at hok; cases hok
  · rw [he]
    exact ⟨liveOwned_send hn v d p r _, by simp [Bus.send_task], by simp [Bus.send_task]⟩

theorem startIfValid_result (hn : NoLive s o) (period id : Option Nat) (d : Bytes)
    (hok : (startIfValid s o period id d).2 = true) :
    ∃ v, period = some v ∧ liveOwned (startIfValid s o period id d).1 o = [s.bus.n] ∧
      ((startIfValid s o period id d).1.bus.task s.bus.n).period = v ∧
      ((startIfValid s o period id d).1.bus.task s.bus.n).live = true := by
  unfold startIfValid at hok ⊢
  split
  · rename_i hv; rw [hv] at hok; cases hok
  · rename_i v hv
    rw [hv] at hok
    exact ⟨v, validPeriod_some hv, startSlot_result hn _ _ _ _ hok⟩

/-- After a call that (re)starts a producer and returns normally, the producer's running tasks are
    exactly one: the task created by this very call (creation index = number of tasks registered
    before), with the period the call asked for.  No earlier task keeps transmitting. -/
theorem restart_replaces (c : Cfg) (s0 : State) (h0 : Fresh s0) (ops : List Op) (op : Op) (o : Owner)
    (ho : starts op = some o) (hok : (step c (run c s0 ops) op).2 = true) :
    let s := run c s0 ops
    let s' := (step c s op).1
    liveOwned s' o = [s.bus.n] ∧ (s'.bus.task s.bus.n).live = true ∧
    (∀ p, asksPeriod op = some p → (s'.bus.task s.bus.n).period = p) := by
  intro s s'
  have hi : Inv c s := inv_run h0.inv ops
  have hw : op.wellAddressed c = true := by
    by_cases hw : op.wellAddressed c = true
    · exact hw
    · simp only [step, hw] at hok; cases hok
  have hs' : s' = (exec c s op).1 := by simp only [s', step, hw, if_true]
  have hok' : (exec c s op).2 = true := by simpa only [step, hw, if_true] using hok
  rw [hs']
  cases op with
  | syncStart p =>
    cases ho
    have n1 := noLive_stopKeep hi .sync
    simp only [exec, syncStart] at hok' ⊢
    cases p with
    | none =>
      obtain ⟨v, _, r1, _, r3⟩ := startIfValid_result n1 _ _ _ hok'
      simp only [stopKeep_bus_n] at r1 r3
      exact ⟨r1, r3, fun p hp => by cases hp⟩
    | some v0 =>
      have n2 : NoLive { stopKeep s .sync with syncPeriod := some v0 } .sync := n1.congr rfl
      obtain ⟨v, hv, r1, r2, r3⟩ := startIfValid_result n2 _ _ _ hok'
      simp only [stopKeep_bus_n] at r1 r2 r3
      refine ⟨r1, r3, fun p hp => ?_⟩
      simp only [asksPeriod] at hp
      cases hp; cases hv; exact r2
  | pdoStart n k p =>
    cases ho
    have n1 := noLive_stopClear hi (.pdo n k)
    simp only [exec, pdoStart] at hok' ⊢
    cases p with
    | none =>
      obtain ⟨v, _, r1, _, r3⟩ := startIfValid_result n1 _ _ _ hok'
      simp only [stopClear_bus_n] at r1 r3
      exact ⟨r1, r3, fun p hp => by cases hp⟩
    | some v0 =>
      simp only [] at hok' ⊢
      generalize hs2 : setPdo (stopClear s (.pdo n k)) n k _ = s2 at hok' ⊢
      have n2 : NoLive s2 (.pdo n k) := by subst hs2; exact n1.congr rfl
      have hb2 : s2.bus.n = s.bus.n := by subst hs2; simp
      have hp2 : (s2.pdo n k).period = some v0 := by subst hs2; simp
      obtain ⟨v, hv, r1, r2, r3⟩ := startIfValid_result n2 _ _ _ hok'
      rw [hb2] at r1 r2 r3
      refine ⟨r1, r3, fun p hp => ?_⟩
      simp only [asksPeriod] at hp
      rw [hp2] at hv
      cases hp; cases hv; exact r2
  | hbStart n ms =>
    simp only [starts] at ho
    split at ho
    · rename_i hpos
      cases ho
      simp only [exec, hbStart, hbStop] at hok' ⊢
      generalize hs1 : setSlave s n _ = s1 at hok' ⊢
      have i1 : Inv c s1 := by subst hs1; exact hi.congr rfl rfl
      have hb1 : s1.bus.n = s.bus.n := by subst hs1; rfl
      have n2 := noLive_stopClear i1 (.hb n)
      simp only [hpos, if_true] at hok' ⊢
      have r := startSlot_result n2 _ _ _ _ hok'
      simp only [stopClear_bus_n, hb1] at r
      exact ⟨r.1, r.2.2, fun p hp => by simp only [asksPeriod] at hp; cases hp; exact r.2.1⟩
    · cases ho
  | guardStart n p =>
    cases ho
    simp only [exec, guardStart, guardStop] at hok' ⊢
    cases hs : s.slots (.guard n) with
    | none =>
      simp only [hs] at hok' ⊢
      have r := startSlot_result (hi.noLive_of_none hs) _ _ _ _ hok'
      exact ⟨r.1, r.2.2, fun p hp => by simp only [asksPeriod] at hp; cases hp; exact r.2.1⟩
    | some t =>
      simp only [hs] at hok' ⊢
      have r := startSlot_result (noLive_stopClear hi (.guard n)) _ _ _ _ hok'
      simp only [stopClear_bus_n] at r
      exact ⟨r.1, r.2.2, fun p hp => by simp only [asksPeriod] at hp; cases hp; exact r.2.1⟩
  | _ => cases ho

example : (step exCfg (run exCfg exState [.syncStart (some 100000)]) (.syncStart (some 200000))).2 = true ∧
    liveOwned (step exCfg (run exCfg exState [.syncStart (some 100000)]) (.syncStart (some 200000))).1 .sync
      = [1] := by decide

/-! ## T stopped_means_none -/

theorem noLive_of_invalid (hi : Inv c s) {o : Owner} (hv : c.valid o = false) : NoLive s o := by
  apply hi.noLive_of_none
  cases hs : s.slots o with
  | none => rfl
  | some t => have := hi.slotValid o t hs; rw [hv] at this; cases this

theorem stopAll_slot_of_none {o : Owner} (l : List (Nat × Nat)) (s : State) (h : s.slots o = none) :
    (stopAll s l).slots o = none := by
  induction l generalizing s with
  | nil => exact h
  | cons e r ih =>
    obtain ⟨n, k⟩ := e
    apply ih
    unfold pdoStop
    by_cases ho : o = .pdo n k
    · subst ho; exact stopClear_slot_none _ _
    · rw [stopClear_slot_ne _ ho]; exact h

theorem stopAll_slot_none {n k : Nat} (l : List (Nat × Nat)) (s : State) (h : (n, k) ∈ l) :
    (stopAll s l).slots (.pdo n k) = none := by
  induction l generalizing s with
  | nil => cases h
  | cons e r ih =>
    obtain ⟨n', k'⟩ := e
    rcases List.mem_cons.1 h with he | hm
    · cases he
      exact stopAll_slot_of_none r _ (stopClear_slot_none _ _)
    · exact ih _ hm

theorem stopAll_bus_n (l : List (Nat × Nat)) (s : State) : (stopAll s l).bus.n = s.bus.n := by
  induction l generalizing s with
  | nil => rfl
  | cons e r ih => obtain ⟨n, k⟩ := e; simp [stopAll, pdoStop, ih]

theorem stopAll_slot_other {o : Owner} (ho : ∀ n k, o ≠ .pdo n k) (l : List (Nat × Nat)) (s : State) :
    (stopAll s l).slots o = s.slots o := by
  induction l generalizing s with
  | nil => rfl
  | cons e r ih =>
    obtain ⟨n, k⟩ := e
    simp only [stopAll, pdoStop]
    rw [ih]; exact stopClear_slot_ne _ (ho n k)

/-- After `stop()` of any producer, in any state any history can reach, none of its tasks is running
    (`PdoBase.stop` of a node: none of that node's maps). -/
theorem stopped_means_none (c : Cfg) (s0 : State) (h0 : Fresh s0) (ops : List Op) :
    let s := run c s0 ops
    liveOwned (step c s .syncStop).1 .sync = [] ∧
    (∀ n k, liveOwned (step c s (.pdoStop n k)).1 (.pdo n k) = []) ∧
    (∀ n, liveOwned (step c s (.hbStop n)).1 (.hb n) = []) ∧
    (∀ n, liveOwned (step c s (.guardStop n)).1 (.guard n) = []) ∧
    (∀ n k, (c.locals.contains n || c.remotes.contains n) = true →
      liveOwned (step c s (.pdoStopNode n)).1 (.pdo n k) = []) := by
  intro s
  have hi : Inv c s := inv_run h0.inv ops
  have key : ∀ (op : Op) (o : Owner), op.target = some o → op.wellAddressed c = c.valid o →
      (exec c s op).1 = stopClear s o → liveOwned (step c s op).1 o = [] := by
    intro op o _ hwa hex
    rw [liveOwned_nil_iff]
    unfold step
    by_cases hw : op.wellAddressed c = true
    · simp only [hw, if_true, hex]; exact noLive_stopClear hi o
    · simp only [hw]
      exact noLive_of_invalid hi (by rw [← hwa]; simpa using hw)
  refine ⟨?_, fun n k => key _ _ rfl rfl rfl, fun n => key _ _ rfl rfl rfl,
    fun n => key _ _ rfl rfl rfl, ?_⟩
  · rw [liveOwned_nil_iff]; exact noLive_stopKeep hi .sync
  · intro n k hn
    rw [liveOwned_nil_iff]
    have hw : (Op.pdoStopNode n).wellAddressed c = true := hn
    simp only [step, hw, if_true, exec, pdoStopNode]
    have hi' := inv_stopAll hi (c.pdos.filter fun e => e.1 == n)
    apply hi'.noLive_of_none
    by_cases hm : (n, k) ∈ c.pdos
    · exact stopAll_slot_none _ _ (List.mem_filter.2 ⟨hm, by simp⟩)
    · apply stopAll_slot_of_none
      cases hs : s.slots (.pdo n k) with
      | none => rfl
      | some t =>
        have := hi.slotValid _ t hs
        simp only [Cfg.valid, List.contains_iff_mem] at this
        exact absurd this hm

example : liveOwned (run exCfg exState [.pdoStart 7 1 (some 1000)]) (.pdo 7 1) = [0] ∧
    liveOwned (step exCfg (run exCfg exState [.pdoStart 7 1 (some 1000)]) (.pdoStop 7 1)).1 (.pdo 7 1) = [] := by
  decide

/-! ## T heartbeat_zero_stops -/

/-- Setting the heartbeat time to 0 — by `start_heartbeat(0)` (or any non-positive time), by a write
    of 0 to object 0x1017 through `set_data` (locally or by SDO), by `on_write(0x1017, 00 00 …)`, or
    by booting (INITIALISING → PRE-OPERATIONAL via `send_command`) with 0 stored in 0x1017 — leaves
    no heartbeat task running. -/
theorem heartbeat_zero_stops (c : Cfg) (s0 : State) (h0 : Fresh s0) (ops : List Op) (n : Nat) :
    let s := run c s0 ops
    (∀ ms : Int, ms ≤ 0 → liveOwned (step c s (.hbStart n ms)).1 (.hb n) = []) ∧
    liveOwned (step c s (.hbWrite n 0)).1 (.hb n) = [] ∧
    liveOwned (step c s (.hbSdoWrite n 0)).1 (.hb n) = [] ∧
    (∀ rest, liveOwned (step c s (.onWrite n 0x1017 (0 :: 0 :: rest))).1 (.hb n) = []) ∧
    (∀ code, (s.slave n).st = 0 → cmdToState code = some 127 → (s.slave n).od1017 = some 0 →
      s.connected = true → liveOwned (step c s (.sendCommand n code)).1 (.hb n) = []) := by
  intro s
  have hi : Inv c s := inv_run h0.inv ops
  have inval : c.valid (.hb n) ≠ true → NoLive s (.hb n) := fun hw =>
    noLive_of_invalid hi (by simpa using hw)
  have hstart : ∀ (s1 : State), Inv c s1 → ∀ ms : Int, ms ≤ 0 → NoLive (hbStart s1 n ms).1 (.hb n) := by
    intro s1 i1 ms hms
    unfold hbStart hbStop
    simp only []
    have : ¬ ms > 0 := by omega
    simp only [this, if_false]
    exact noLive_stopClear (s := setSlave s1 n _) (i1.congr rfl rfl) _
  have hwrite : NoLive (onWrite s n 0x1017 (leBytes 2 0)).1 (.hb n) := by
    simp only [onWrite, leBytes, if_true]
    exact noLive_stopClear hi _
  refine ⟨?_, ?_, ?_, ?_, ?_⟩
  · intro ms hms
    rw [liveOwned_nil_iff]; unfold step
    by_cases hw : (Op.hbStart n ms).wellAddressed c = true
    · simp only [hw, if_true, exec]; exact hstart s hi ms hms
    · simp only [hw]; exact inval hw
  · rw [liveOwned_nil_iff]; unfold step
    by_cases hw : (Op.hbWrite n 0).wellAddressed c = true
    · simp only [hw, if_true, exec, writeHbTime]
      have h2 : (onWrite s n 0x1017 (leBytes 2 0)).2 = true := by simp [onWrite, leBytes]
      simp only [h2, if_true]
      exact hwrite.congr rfl
    · simp only [hw]; exact inval hw
  · rw [liveOwned_nil_iff]; unfold step
    by_cases hw : (Op.hbSdoWrite n 0).wellAddressed c = true
    · simp only [hw, if_true, exec, sdoWriteHbTime, writeHbTime]
      have h2 : (onWrite s n 0x1017 (leBytes 2 0)).2 = true := by simp [onWrite, leBytes]
      simp only [h2, if_true]
      exact hwrite.congr rfl
    · simp only [hw]; exact inval hw
  · intro rest
    rw [liveOwned_nil_iff]; unfold step
    by_cases hw : (Op.onWrite n 0x1017 (0 :: 0 :: rest)).wellAddressed c = true
    · simp only [hw, if_true, exec, onWrite]
      exact noLive_stopClear hi _
    · simp only [hw]; exact inval hw
  · intro code hst hcode hod hconn
    rw [liveOwned_nil_iff]; unfold step
    by_cases hw : (Op.sendCommand n code).wellAddressed c = true
    · simp only [hw, if_true, exec, sendCommand, applyCmd, hcode]
      simp only [setSlave_same, sendCommandTail, hst, hod]
      rw [if_neg (by simp), if_pos ⟨trivial, trivial⟩]
      refine hstart (setSlave s n _) (hi.congr rfl rfl) _ ?_
      omega
    · simp only [hw]; exact inval hw

example : liveOwned (run exCfg exState [.sendCommand 5 128]) (.hb 5) = [0] ∧
    liveOwned (step exCfg (run exCfg exState [.sendCommand 5 128]) (.hbWrite 5 0)).1 (.hb 5) = [] := by
  decide

/-! ## T disconnect_stops_pdo -/

/-- `Network.disconnect()` leaves no PDO task of any map of any node running, creates no task, and
    does not touch what the other producers have running. -/
theorem disconnect_stops_pdo (c : Cfg) (s0 : State) (h0 : Fresh s0) (ops : List Op) :
    let s := run c s0 ops
    let s' := (step c s .disconnect).1
    (∀ n k, liveOwned s' (.pdo n k) = []) ∧ s'.bus.n = s.bus.n ∧ s'.connected = false ∧
    (∀ o, (∀ n k, o ≠ .pdo n k) → s'.slots o = s.slots o) := by
  intro s s'
  have hi : Inv c s := inv_run h0.inv ops
  have hs' : s' = disconnect c s := rfl
  have hi' := inv_stopAll hi c.pdos
  refine ⟨?_, ?_, rfl, ?_⟩
  · intro n k
    rw [liveOwned_nil_iff, hs']
    unfold disconnect
    refine NoLive.congr ?_ rfl
    apply hi'.noLive_of_none
    by_cases hm : (n, k) ∈ c.pdos
    · exact stopAll_slot_none _ _ hm
    · apply stopAll_slot_of_none
      cases hs : s.slots (.pdo n k) with
      | none => rfl
      | some t =>
        have := hi.slotValid _ t hs
        simp only [Cfg.valid, List.contains_iff_mem] at this
        exact absurd this hm
  · rw [hs']; unfold disconnect
    exact stopAll_bus_n _ _
  · intro o ho
    rw [hs']; unfold disconnect
    exact stopAll_slot_other ho _ _

example : liveTasks (run exCfg exState [.pdoStart 7 1 (some 1000), .syncStart (some 5000)]) = [0, 1] ∧
    liveTasks (step exCfg (run exCfg exState [.pdoStart 7 1 (some 1000), .syncStart (some 5000)])
      .disconnect).1 = [1] := by decide

/-! ## T exit_is_disconnect, disconnect_stops_all -/

/-- the calls by which a network gets disconnected: `disconnect()` and every way of leaving it as a
    context manager -/
def disconnects : Op → Bool
  | .disconnect => true
  | .exitWith _ => true
  | _ => false

/-- Leaving `with network:` — normally or through an exception — and `__exit__` called directly, with or
    without an exception triple, are `disconnect()`: same state, same (normal) return. -/
theorem exit_is_disconnect (c : Cfg) (s : State) (w : ExitWay) :
    exec c s (.exitWith w) = exec c s .disconnect ∧ step c s (.exitWith w) = step c s .disconnect :=
  ⟨rfl, rfl⟩

theorem step_of_disconnects (c : Cfg) (s : State) (op : Op) (h : disconnects op = true) :
    step c s op = (disconnect c s, true) := by
  cases op with
  | disconnect => rfl
  | exitWith w => rfl
  | _ => cases h

theorem disconnect_slot_none (hi : Inv c s) (n k : Nat) : (disconnect c s).slots (.pdo n k) = none := by
  unfold disconnect
  show (stopAll s c.pdos).slots (.pdo n k) = none
  by_cases hm : (n, k) ∈ c.pdos
  · exact stopAll_slot_none _ _ hm
  · apply stopAll_slot_of_none
    cases hs : s.slots (.pdo n k) with
    | none => rfl
    | some t =>
      have := hi.slotValid _ t hs
      simp only [Cfg.valid, List.contains_iff_mem] at this
      exact absurd this hm

/-- **Every way of disconnecting stops all PDO tasks.**  After any history, `disconnect()`, the end of a
    `with network:` block (normal or by exception) and a direct `__exit__` (with or without exception
    triple) each return normally and leave no PDO task of any map of any node running and every map's
    task handle cleared; no task is created, the network is disconnected, the handles of the other
    producers are as they were.  (Twice in a row: the second call is covered as well — `ops` is any
    history.) -/
theorem disconnect_stops_all (c : Cfg) (s0 : State) (h0 : Fresh s0) (ops : List Op) (op : Op)
    (hd : disconnects op = true) :
    let s := run c s0 ops
    let s' := (step c s op).1
    (step c s op).2 = true ∧
    (∀ n k, liveOwned s' (.pdo n k) = [] ∧ s'.slots (.pdo n k) = none) ∧
    s'.bus.n = s.bus.n ∧ s'.connected = false ∧
    (∀ o, (∀ n k, o ≠ .pdo n k) → s'.slots o = s.slots o) := by
  intro s s'
  have hi : Inv c s := inv_run h0.inv ops
  have hs' : s' = disconnect c s := by simp only [s', step_of_disconnects c s op hd]
  have hi' : Inv c (disconnect c s) := inv_disconnect hi
  rw [step_of_disconnects c s op hd, hs']
  refine ⟨rfl, fun n k => ?_, ?_, rfl, ?_⟩
  · have hn := disconnect_slot_none hi n k
    exact ⟨liveOwned_nil_iff.2 (hi'.noLive_of_none hn), hn⟩
  · unfold disconnect; exact stopAll_bus_n _ _
  · intro o ho; unfold disconnect; exact stopAll_slot_other ho _ _

/-- `connect()` gives the network a bus again and touches nothing else -/
theorem connect_connects (c : Cfg) (s : State) :
    (step c s .connect).2 = true ∧ (step c s .connect).1.connected = true ∧
    (step c s .connect).1.bus = s.bus ∧ (step c s .connect).1.slots = s.slots ∧
    (step c s .connect).1.pdo = s.pdo ∧ (step c s .connect).1.syncPeriod = s.syncPeriod :=
  ⟨rfl, rfl, rfl, rfl, rfl, rfl⟩

/-! ## T restart_without_period, start_without_period_refused -/

/-- `start()` without a period, for the producers whose `start` takes an optional one -/
def restartOp : Owner → Option Op
  | .sync => some (.syncStart none)
  | .pdo n k => some (.pdoStart n k none)
  | _ => none

/-- the CAN id and payload the API state of such a producer holds -/
def cobOf (c : Cfg) (s : State) : Owner → Option Nat
  | .sync => some c.syncCob
  | .pdo n k => (s.pdo n k).cob
  | _ => none

def dataOf (s : State) : Owner → Bytes
  | .pdo n k => (s.pdo n k).data
  | _ => []

/-- the calls that hand a producer a period: `start(v)` and the assignment `period = v` -/
def gives : Op → Option (Owner × Nat)
  | .syncStart (some v) => some (.sync, v)
  | .syncSetPeriod (some v) => some (.sync, v)
  | .pdoStart n k (some v) => some (.pdo n k, v)
  | .pdoSetPeriod n k (some v) => some (.pdo n k, v)
  | _ => none

theorem gives_sets_period (c : Cfg) (s : State) (g : Op) (o : Owner) (v : Nat) (hg : gives g = some (o, v))
    (hval : c.valid o = true) : periodOf (step c s g).1 o = some v := by
  cases g with
  | syncStart p =>
    cases p with
    | none => cases hg
    | some v' =>
      simp only [gives, Option.some.injEq, Prod.mk.injEq] at hg
      obtain ⟨rfl, rfl⟩ := hg
      have hw : (Op.syncStart (some v')).wellAddressed c = true := rfl
      simp only [step, hw, if_true, exec, periodOf]
      exact syncStart_some_period c s v'
  | syncSetPeriod p =>
    cases p with
    | none => cases hg
    | some v' =>
      simp only [gives, Option.some.injEq, Prod.mk.injEq] at hg
      obtain ⟨rfl, rfl⟩ := hg
      rfl
  | pdoStart n k p =>
    cases p with
    | none => cases hg
    | some v' =>
      simp only [gives, Option.some.injEq, Prod.mk.injEq] at hg
      obtain ⟨rfl, rfl⟩ := hg
      have hw : (Op.pdoStart n k (some v')).wellAddressed c = true := hval
      simp only [step, hw, if_true, exec, periodOf]
      exact pdoStart_some_period s n k v'
  | pdoSetPeriod n k p =>
    cases p with
    | none => cases hg
    | some v' =>
      simp only [gives, Option.some.injEq, Prod.mk.injEq] at hg
      obtain ⟨rfl, rfl⟩ := hg
      have hw : (Op.pdoSetPeriod n k (some v')).wellAddressed c = true := hval
      simp only [step, hw, if_true, exec, periodOf, pdoSetPeriod, setPdo_same]
  | _ => cases hg

theorem validPeriod_pos {v : Nat} (hv : 0 < v) : validPeriod (some v) = some v := by
  cases v with
  | zero => omega
  | succ n => rfl

/-- with a remembered period `v > 0`, a COB-ID and a connected network, the tail of `start()` registers
    exactly one task: `(id, d, v)` -/
theorem startIfValid_go {o : Owner} (hn : NoLive s o) (v id : Nat) (d : Bytes) (hv : 0 < v)
    (hc : s.connected = true) :
    (startIfValid s o (some v) (some id) d).2 = true ∧
    liveOwned (startIfValid s o (some v) (some id) d).1 o = [s.bus.n] ∧
    (startIfValid s o (some v) (some id) d).1.bus.task s.bus.n = ⟨id, d, false, v, o, true⟩ := by
  unfold startIfValid
  rw [validPeriod_pos hv]
  simp only []
  rw [startSlot_ok _ _ _ _ _ _ hc]
  exact ⟨rfl, liveOwned_send hn id d v false _, by simp [Bus.send_task]⟩

theorem startIfValid_refuse (s : State) (o : Owner) (p id : Option Nat) (d : Bytes)
    (hp : p = none ∨ p = some 0) : startIfValid s o p id d = (s, false) := by
  rcases hp with rfl | rfl <;> rfl

/-- one `start()` without argument in a state whose remembered period is `v > 0` -/
theorem restart_step (hi : Inv c s) (o : Owner) (rop : Op) (hr : restartOp o = some rop) (v id : Nat)
    (hp : periodOf s o = some v) (hv : 0 < v) (hc : s.connected = true) (hid : cobOf c s o = some id)
    (hval : c.valid o = true) :
    (step c s rop).2 = true ∧ liveOwned (step c s rop).1 o = [s.bus.n] ∧
    (step c s rop).1.bus.task s.bus.n = ⟨id, dataOf s o, false, v, o, true⟩ := by
  cases o with
  | sync =>
    cases hr
    simp only [cobOf, Option.some.injEq] at hid
    subst hid
    have hw : (Op.syncStart none).wellAddressed c = true := rfl
    have n1 := noLive_stopKeep hi .sync
    have hp' : (stopKeep s .sync).syncPeriod = some v := by simpa [periodOf] using hp
    have r := startIfValid_go n1 v c.syncCob [] hv (by simpa using hc)
    simp only [stopKeep_bus_n] at r
    simp only [step, hw, if_true, exec, syncStart, hp', dataOf]
    exact r
  | pdo n k =>
    cases hr
    have hw : (Op.pdoStart n k none).wellAddressed c = true := hval
    have n1 := noLive_stopClear hi (.pdo n k)
    have hp' : (s.pdo n k).period = some v := hp
    have hid' : (s.pdo n k).cob = some id := hid
    have r := startIfValid_go n1 v id (s.pdo n k).data hv (by simpa using hc)
    simp only [stopClear_bus_n] at r
    simp only [step, hw, if_true, exec, pdoStart, dataOf, stopClear_pdo, hp', hid']
    exact r
  | hb n => cases hr
  | guard n => cases hr

/-- one `start()` without argument in a state that remembers no period (`None`, or the falsy `0`):
    refused, and nothing of this producer is left running -/
theorem refused_step (hi : Inv c s) (o : Owner) (rop : Op) (hr : restartOp o = some rop)
    (hp : periodOf s o = none ∨ periodOf s o = some 0) :
    (step c s rop).2 = false ∧ liveOwned (step c s rop).1 o = [] := by
  rw [liveOwned_nil_iff]
  cases o with
  | sync =>
    cases hr
    have hw : (Op.syncStart none).wellAddressed c = true := rfl
    have hp' : (stopKeep s .sync).syncPeriod = none ∨ (stopKeep s .sync).syncPeriod = some 0 := by
      simpa [periodOf] using hp
    simp only [step, hw, if_true, exec, syncStart, startIfValid_refuse _ _ _ _ _ hp']
    exact ⟨trivial, noLive_stopKeep hi .sync⟩
  | pdo n k =>
    cases hr
    by_cases hw : (Op.pdoStart n k none).wellAddressed c = true
    · have hp' : ((stopClear s (.pdo n k)).pdo n k).period = none ∨
          ((stopClear s (.pdo n k)).pdo n k).period = some 0 := by simpa [periodOf] using hp
      simp only [step, hw, if_true, exec, pdoStart, startIfValid_refuse _ _ _ _ _ hp']
      exact ⟨trivial, noLive_stopClear hi (.pdo n k)⟩
    · have hw' : (Op.pdoStart n k none).wellAddressed c = false := by simpa using hw
      simp only [step, hw', Bool.false_eq_true, if_false]
      exact ⟨trivial, noLive_of_invalid hi hw'⟩
  | hb n => cases hr
  | guard n => cases hr

/-- **Restart without a period.**  In any history, once a producer has been handed a period `v > 0`
    (by `start(v)` — whether or not that call itself succeeded — or by assigning its `period`
    attribute) and no later call wrote that attribute (stops, updates, restarts without argument,
    calls on other producers, disconnect of *other* things … are all allowed in between), a `start()`
    without argument on a connected network returns normally and leaves exactly one task of this
    producer running — the one it created — carrying the producer's COB-ID, its current payload and the
    period `v`. -/
theorem restart_without_period (c : Cfg) (s0 : State) (h0 : Fresh s0) (pre mid : List Op) (g rop : Op)
    (o : Owner) (v id : Nat) (hr : restartOp o = some rop) (hg : gives g = some (o, v)) (hv : 0 < v)
    (hval : c.valid o = true) (hmid : ∀ op ∈ mid, touches o op = false) :
    let s := run c s0 (pre ++ g :: mid)
    s.connected = true → cobOf c s o = some id →
    (step c s rop).2 = true ∧ liveOwned (step c s rop).1 o = [s.bus.n] ∧
    (step c s rop).1.bus.task s.bus.n = ⟨id, dataOf s o, false, v, o, true⟩ := by
  intro s hc hid
  have hi : Inv c s := inv_run h0.inv _
  have hp : periodOf s o = some v := by
    simp only [s, run_append, run]
    rw [period_kept_run c _ mid o hmid]
    exact gives_sets_period c _ g o v hg hval
  exact restart_step hi o rop hr v id hp hv hc hid hval

/-- **A start without any period is refused.**  If the producer's `period` attribute is `None` (or
    the falsy 0) at some point of a history — in particular on a fresh producer — and no later call
    writes it, `start()` without argument raises and leaves none of its tasks running. -/
theorem start_without_period_refused (c : Cfg) (s0 : State) (h0 : Fresh s0) (pre mid : List Op) (rop : Op)
    (o : Owner) (hr : restartOp o = some rop)
    (hnone : periodOf (run c s0 pre) o = none ∨ periodOf (run c s0 pre) o = some 0)
    (hmid : ∀ op ∈ mid, touches o op = false) :
    let s := run c s0 (pre ++ mid)
    (step c s rop).2 = false ∧ liveOwned (step c s rop).1 o = [] := by
  intro s
  have hi : Inv c s := inv_run h0.inv _
  have hp : periodOf s o = periodOf (run c s0 pre) o := by
    simp only [s, run_append]
    exact period_kept_run c _ mid o hmid
  exact refused_step hi o rop hr (by rw [hp]; exact hnone)

/-- The `period` attribute of a producer is written only by a start with a period, by an assignment,
    and (PDO map) by a frame received while the map does not transmit; in particular `stop()`,
    `PdoBase.stop()` and `disconnect()` keep it. -/
theorem period_kept (c : Cfg) (s : State) (ops : List Op) (o : Owner)
    (h : ∀ op ∈ ops, touches o op = false) : periodOf (run c s ops) o = periodOf s o :=
  period_kept_run c s ops o h

/-- What a received frame does to a PDO map: while it transmits, nothing; otherwise payload and stamp
    are taken over and the period becomes the time since the previous accepted frame. -/
theorem received_frame_measures_period (c : Cfg) (s : State) (n k dt : Nat) (d : Bytes)
    (hval : c.valid (.pdo n k) = true) :
    let s' := (step c s (.pdoReceive n k dt d)).1
    (s.slots (.pdo n k) ≠ none → s'.pdo n k = s.pdo n k) ∧
    (s.slots (.pdo n k) = none → (s'.pdo n k).data = d ∧
      (∀ t0, (s.pdo n k).stamp = some t0 → (s'.pdo n k).period = some (s.now + dt - t0)) ∧
      ((s.pdo n k).stamp = none → (s'.pdo n k).period = (s.pdo n k).period)) ∧
    s'.slots = s.slots ∧ s'.bus.n = s.bus.n := by
  have hw : (Op.pdoReceive n k dt d).wellAddressed c = true := hval
  simp only [step, hw, if_true, exec, pdoReceive]
  cases hs : s.slots (.pdo n k) with
  | some t => simp
  | none =>
    simp only [setPdo_same, received]
    refine ⟨fun h => absurd rfl h, fun _ => ⟨trivial, ?_, ?_⟩, rfl, rfl⟩
    · intro t0 ht0; simp [ht0]
    · intro hn; simp [hn]

/-- non-vacuity: period given, data changed, stopped, restarted without period (both producers);
    and the refusals -/
example :
    let s := run exCfg exState [.pdoStart 7 1 (some 50000), .pdoSetByte 7 1 0 9, .pdoStop 7 1]
    (step exCfg s (.pdoStart 7 1 none)).2 = true ∧
    liveOwned (step exCfg s (.pdoStart 7 1 none)).1 (.pdo 7 1) = [2] ∧
    ((step exCfg s (.pdoStart 7 1 none)).1.bus.task 2).period = 50000 ∧
    ((step exCfg s (.pdoStart 7 1 none)).1.bus.task 2).data = [9, 0] := by decide

example :
    let s := run exCfg exState [.syncSetPeriod (some 7000), .syncStart none, .syncStop, .disconnect]
    liveOwned s .sync = [] ∧ periodOf s .sync = some 7000 ∧
    (step exCfg exState (.syncStart none)).2 = false ∧
    (step exCfg exState (.pdoStart 7 1 none)).2 = false ∧
    (step exCfg (run exCfg exState [.pdoReceive 7 1 100 [1, 2], .pdoReceive 7 1 250 [3, 4]])
      (.pdoStart 7 1 none)).2 = true ∧
    liveTasks (run exCfg exState [.pdoReceive 7 1 100 [1, 2], .pdoReceive 7 1 250 [3, 4],
      .pdoStart 7 1 none]) = [0] ∧
    ((run exCfg exState [.pdoReceive 7 1 100 [1, 2], .pdoReceive 7 1 250 [3, 4],
      .pdoStart 7 1 none]).bus.task 0).period = 250 := by decide

/-! ## T restart_after_reconnect -/

/-- **Starts after `connect()` again.**  A producer that was given a period `v > 0` at any time, then —
    after anything that does not write its period — lost its network by any way of disconnecting, is
    restarted by `start()` without argument once `connect()` has been called again: exactly one task of
    this producer runs, with its COB-ID, current payload and the period `v`. -/
theorem restart_after_reconnect (c : Cfg) (s0 : State) (h0 : Fresh s0) (pre mid : List Op) (g dop rop : Op)
    (o : Owner) (v id : Nat) (hr : restartOp o = some rop) (hg : gives g = some (o, v)) (hv : 0 < v)
    (hval : c.valid o = true) (hmid : ∀ op ∈ mid, touches o op = false) (hd : disconnects dop = true) :
    let s := run c s0 (pre ++ g :: (mid ++ [dop, .connect]))
    cobOf c s o = some id →
    (step c s rop).2 = true ∧ liveOwned (step c s rop).1 o = [s.bus.n] ∧
    (step c s rop).1.bus.task s.bus.n = ⟨id, dataOf s o, false, v, o, true⟩ := by
  intro s hid
  have hmid' : ∀ op ∈ mid ++ [dop, .connect], touches o op = false := by
    intro op hm
    rcases List.mem_append.1 hm with hm | hm
    · exact hmid op hm
    · simp only [List.mem_cons, List.mem_nil_iff, or_false] at hm
      rcases hm with rfl | rfl
      · cases op with
        | disconnect => rfl
        | exitWith w => rfl
        | _ => cases hd
      · rfl
  have hc : s.connected = true := by
    have : s = (step c (run c s0 (pre ++ g :: (mid ++ [dop]))) .connect).1 := by
      simp only [s, run_append, run]
    rw [this]; rfl
  exact restart_without_period c s0 h0 pre (mid ++ [dop, .connect]) g rop o v id hr hg hv hval hmid' hc hid

/-- non-vacuity: two maps' worth of producers running, the block left through an exception, a second
    disconnect, connect again, restart without period -/
example :
    let h := [Op.pdoStart 7 1 (some 1000), .syncStart (some 5000), .exitWith .withException]
    liveTasks (run exCfg exState [.pdoStart 7 1 (some 1000), .syncStart (some 5000)]) = [0, 1] ∧
    liveTasks (run exCfg exState h) = [1] ∧ (run exCfg exState h).slots (.pdo 7 1) = none ∧
    liveTasks (run exCfg exState (h ++ [.disconnect])) = [1] ∧
    (step exCfg (run exCfg exState (h ++ [.disconnect])) (.pdoStart 7 1 none)).2 = false ∧
    (step exCfg (run exCfg exState (h ++ [.disconnect, .connect])) (.pdoStart 7 1 none)).2 = true ∧
    liveTasks (run exCfg exState (h ++ [.disconnect, .connect, .pdoStart 7 1 none])) = [1, 2] := by decide

/-! ## small facts -/

/-- the heartbeat payload is one byte: every state of `COMMAND_TO_STATE` is < 256 -/
theorem heartbeat_payload_is_byte (code ns : Nat) (h : cmdToState code = some ns) : ns < 256 := by
  have hall : ∀ e ∈ Gen.PeriodicTables.COMMAND_TO_STATE, e.2 < 256 := by decide
  unfold cmdToState at h
  cases hf : Gen.PeriodicTables.COMMAND_TO_STATE.find? (fun e => e.1 == code) with
  | none => simp [hf] at h
  | some e =>
    simp only [hf, Option.map_some, Option.some.injEq] at h
    rw [← h]; exact hall e (List.mem_of_find?_eq_some hf)

/-! ## counterexamples -/

/-- F3 (repaired in /repo): with `SyncProducer.start` as it was, `start(0.1); start(0.2)` leaves two
    SYNC tasks running, and `stop()` then leaves the first one running for ever. -/
theorem unrepaired_sync_start_leaks :
    let s2 := (syncStartUnrepaired exCfg (syncStartUnrepaired exCfg exState (some 100000)).1 (some 200000)).1
    liveOwned s2 .sync = [0, 1] ∧ liveOwned (syncStop s2) .sync = [0] := by
  decide

/-- Why `live_is_current` asks for `CleanRun`: an `NmtSlave.send_command` that raises after it has
    changed the NMT state leaves the old state byte in a running heartbeat —
    (a) boot (`INITIALISING → PRE-OPERATIONAL`) on a node whose 0x1017 cannot be read,
    (b) reset on a disconnected network (the boot-up message raises). -/
theorem raising_state_change_breaks_current :
    (let c : Cfg := ⟨false, 0x80, [], [5], []⟩
     let s0 : State := ⟨⟨0, fun _ => ⟨0, [], false, 0, .sync, false⟩⟩, true, fun _ => none, none,
       fun _ _ => ⟨none, 0, [], none, none⟩, fun _ => ⟨0, 0, none⟩, 0⟩
     let s := run c s0 [.hbStart 5 100, .sendCommand 5 128]
     liveOwned s (.hb 5) = [0] ∧ (s.bus.task 0).data = [0] ∧ (s.slave 5).st = 127) ∧
    (let s := run exCfg exState [.hbStart 5 100, .sendCommand 5 1, .disconnect, .sendCommand 5 129]
     liveOwned s (.hb 5) = [1] ∧ (s.bus.task 1).data = [5] ∧ (s.slave 5).st = 0) := by
  decide

/-- Why `live_is_current` asks for `CleanRun` (second half): assigning the `period` attribute of a
    producer whose task is running does not reach the task — it keeps the old period while the
    attribute says the new one (PDO map and SYNC alike). -/
theorem period_assignment_while_running_breaks_current :
    (let s := run exCfg exState [.pdoStart 7 1 (some 1000), .pdoSetPeriod 7 1 (some 2000)]
     liveOwned s (.pdo 7 1) = [0] ∧ (s.bus.task 0).period = 1000 ∧ (s.pdo 7 1).period = some 2000) ∧
    (let s := run exCfg exState [.syncStart (some 1000), .syncSetPeriod (some 2000)]
     liveOwned s .sync = [0] ∧ (s.bus.task 0).period = 1000 ∧ s.syncPeriod = some 2000) := by
  decide

end Canopen.C17
