/-
C20 — the views through the documented *methods*: `Variable.read(fmt)`, `Variable.write(value, fmt)`
(keyword, positional or default `fmt`), and the bytes behind the variable through `.data` /
`get_data()` / `set_data()`.

`read` / `write` are modelled the way the library defines them (an `if fmt == …` chain that hands
over to the attribute of that name); the theorems say that the spelling of an access is irrelevant —
for one access and for whole histories mixing the spellings — so that the half-step, description
and bit-field theorems of `CanopenProofs/C20.lean` hold for the method API, and they restate the
main ones in terms of the methods, with the raw value observed through `read()` and `.data`.
-/
import CanopenModel.Views
import CanopenProofs.C20

namespace Canopen.C20
open Canopen Canopen.Codec Canopen.Views

/-! ## spelling of one access -/

theorem fmtView_viewFmt (v : ViewK) : fmtView (viewFmt v) = some v := by
  cases v <;> decide

theorem fmt_distinct : fmtPhys ≠ fmtRaw ∧ fmtDesc ≠ fmtRaw ∧ fmtDesc ≠ fmtPhys := by decide

theorem readFmt_eq {σ : Type} (od : OdVar) (st : Store σ) (s : σ) (fmt : Name) :
    readFmt od st s fmt = match fmtView fmt with
      | some v => getView od st s v
      | none => some .none := by
  obtain ⟨n1, n2, n3⟩ := fmt_distinct
  unfold readFmt fmtView
  by_cases h1 : fmt = fmtRaw
  · subst h1; simp only [if_true, getView]
  · by_cases h2 : fmt = fmtPhys
    · subst h2; simp only [n1, if_true, if_false, getView]
    · by_cases h3 : fmt = fmtDesc
      · subst h3; simp only [n2, n3, if_true, if_false, getView]
      · simp only [h1, h2, h3, if_false]

theorem writeFmt_eq {σ : Type} (od : OdVar) (st : Store σ) (s : σ) (x : PyVal) (fmt : Name) :
    writeFmt od st s x fmt = match fmtView fmt with
      | some v => setView od st s v x
      | none => some s := by
  obtain ⟨n1, n2, n3⟩ := fmt_distinct
  unfold writeFmt fmtView
  by_cases h1 : fmt = fmtRaw
  · subst h1; simp only [if_true, setView]
  · by_cases h2 : fmt = fmtPhys
    · subst h2; simp only [n1, if_true, if_false, setView]
    · by_cases h3 : fmt = fmtDesc
      · subst h3; simp only [n2, n3, if_true, if_false, setView]
      · simp only [h1, h2, h3, if_false]

/-- **T methods_agree.**  For every variable, store and state: `var.read(fmt)` returns what the
    attribute named by `fmt` returns and `var.write(x, fmt)` does what assigning `x` to that
    attribute does — for `"raw"`, `"phys"`, `"desc"` and for the default `fmt` (= `"raw"`), errors
    included; with the typed accessors: `read("raw")` is `var.raw`, `read("phys")` is `var.phys`,
    `read("desc")` is `var.desc`, `write(v, "raw")` is `var.raw = v`, `write(q, "phys")` is
    `var.phys = q` (an int `i` is the number `i`), `write(d, "desc")` is `var.desc = d`.  Any other
    `fmt` reads `None` and writes nothing. -/
theorem methods_agree {σ : Type} (od : OdVar) (st : Store σ) (s : σ) :
    (∀ v, readFmt od st s (viewFmt v) = getView od st s v) ∧
    (∀ v x, writeFmt od st s x (viewFmt v) = setView od st s v x) ∧
    readFmt od st s = getView od st s .raw ∧
    (∀ x, writeFmt od st s x = setView od st s .raw x) ∧
    readFmt od st s fmtRaw = (readRaw od.dtype st s).map .int ∧
    readFmt od st s fmtPhys = (getPhys od st s).map .num ∧
    readFmt od st s fmtDesc = (getDesc od st s).map .str ∧
    (∀ v : Int, writeFmt od st s (.int v) fmtRaw = writeRaw od.dtype st s v) ∧
    (∀ q : Rat, writeFmt od st s (.num q) fmtPhys = setPhys od st s q) ∧
    (∀ i : Int, writeFmt od st s (.int i) fmtPhys = setPhys od st s (i : Rat)) ∧
    (∀ d : Name, writeFmt od st s (.str d) fmtDesc = setDesc od st s d) ∧
    (∀ fmt, fmtView fmt = none → readFmt od st s fmt = some .none ∧
      ∀ x, writeFmt od st s x fmt = some s) := by
  refine ⟨?_, ?_, ?_, ?_, ?_, ?_, ?_, ?_, ?_, ?_, ?_, ?_⟩
  · intro v; rw [readFmt_eq, fmtView_viewFmt]
  · intro v x; rw [writeFmt_eq, fmtView_viewFmt]
  · rw [readFmt_eq]; rfl
  · intro x; rw [writeFmt_eq]; rfl
  · rw [readFmt_eq]; rfl
  · rw [readFmt_eq]; rfl
  · rw [readFmt_eq]; rfl
  · intro v; rw [writeFmt_eq]; rfl
  · intro q; rw [writeFmt_eq]; rfl
  · intro i; rw [writeFmt_eq]; rfl
  · intro d; rw [writeFmt_eq]; rfl
  · intro fmt h
    refine ⟨by rw [readFmt_eq, h], fun x => by rw [writeFmt_eq, h]⟩

/-- one access spelt with the method is the access spelt with the attribute -/
theorem accessStep_toProp {σ : Type} (od : OdVar) (st : Store σ) (s : σ) (a : Access) :
    accessStep od st s a.toProp = accessStep od st s a := by
  cases a with
  | getM fmt =>
    cases fmt with
    | none => simp only [Access.toProp, accessStep, readOpt, (methods_agree od st s).2.2.1]
    | some f =>
      simp only [Access.toProp]
      cases h : fmtView f with
      | none => rfl
      | some v => simp only [accessStep, readOpt, readFmt_eq, h]
  | setM x fmt =>
    cases fmt with
    | none => simp only [Access.toProp, accessStep, writeOpt, (methods_agree od st s).2.2.2.1 x]
    | some f =>
      simp only [Access.toProp]
      cases h : fmtView f with
      | none => rfl
      | some v => simp only [accessStep, writeOpt, writeFmt_eq, h]
  | _ => rfl

/-- **T spelling_irrelevant.**  A whole history of accesses on one variable — attribute reads and
    assignments, `read` / `write` with keyword, positional or default `fmt`, `.data`, bit fields, in
    any order — returns the same values, raises at the same places and leaves the same bytes
    behind as the history with every method call replaced by the attribute of that name. -/
theorem spelling_irrelevant {σ : Type} (od : OdVar) (st : Store σ) (s : σ) (as : List Access) :
    accessRun od st s (as.map Access.toProp) = accessRun od st s as := by
  induction as generalizing s with
  | nil => rfl
  | cons a r ih =>
    simp only [List.map_cons, accessRun, accessStep_toProp]
    rw [ih]

/-! ## the property's clauses through the methods -/

open Canopen.C04 in
/-- **T phys_through_methods.**  `var.write(v, fmt="phys")` stores the nearest integer of
    `v / factor` when it is in the type's range (and raises, storing nothing, when it is not);
    afterwards `var.read()` and `var.read(fmt="raw")` return that integer, `.data` / `get_data()`
    return its CiA 301 pattern, and `var.read(fmt="phys")` returns a value within half a scaling
    step of `v` — exactly as through `var.phys`. -/
theorem phys_through_methods {σ : Type} (st : Store σ) (ok : σ → Prop) (od : OdVar) :
    ∀ e ∈ intTypes, od.dtype = e.1 → Lawful st (e.2.1 / 8) ok → od.factor ≠ 0 →
    ∀ (s : σ) (v : Rat), ok s →
      writeFmt od st s (.num v) fmtPhys = setPhys od st s v ∧
      (inRange e.2.1 e.2.2 (roundHalfEven (v / od.factor)) = true →
        ∃ s' p, writeFmt od st s (.num v) fmtPhys = some s' ∧ ok s' ∧
          readFmt od st s' = some (.int (roundHalfEven (v / od.factor))) ∧
          readFmt od st s' fmtRaw = some (.int (roundHalfEven (v / od.factor))) ∧
          getData st s' = some (leBytes (e.2.1 / 8) (ofSigned e.2.1 (roundHalfEven (v / od.factor)))) ∧
          readFmt od st s' fmtPhys = some (.num p) ∧ getPhys od st s' = some p ∧
          (p - v).abs ≤ od.factor.abs / 2) ∧
      (inRange e.2.1 e.2.2 (roundHalfEven (v / od.factor)) = false →
        writeFmt od st s (.num v) fmtPhys = none) := by
  intro e he hdt hl hf s v hs
  have hw : writeFmt od st s (.num v) fmtPhys = setPhys od st s v :=
    (methods_agree od st s).2.2.2.2.2.2.2.2.1 v
  obtain ⟨hin, hout⟩ := phys_through_store st ok od e he hdt hl hf s v hs
  refine ⟨hw, ?_, ?_⟩
  · intro h
    obtain ⟨s', p, hset, hok, hrd, hgp, hhalf⟩ := hin h
    -- the bytes: `setPhys` is `writeRaw` of the rounded quotient
    obtain ⟨s'', hw'', _, _, hget''⟩ := (write_read st ok e he hl s _ hs).1 h
    have hsame : s'' = s' := by
      have : setPhys od st s v = some s'' := by
        simp only [setPhys, integer_types_table.1 e he, hdt, if_true, encodePhys, hf, if_false,
          Option.bind_some, hw'']
      rw [hset] at this
      exact (Option.some.inj this).symm
    subst hsame
    have hm := methods_agree od st s''
    refine ⟨s'', p, by rw [hw]; exact hset, hok, ?_, ?_, hget'', ?_, hgp, hhalf⟩
    · rw [hm.2.2.1]; simp only [getView, hrd, Option.map_some]
    · rw [hm.2.2.2.2.1, hrd]; rfl
    · rw [hm.2.2.2.2.2.1, hgp]; rfl
  · intro h
    rw [hw]; exact hout h

open Canopen.C04 in
/-- **T desc_through_methods.**  `var.write(d, fmt="desc")` for a description naming an in-range
    value stores exactly a value it names (the value, when descriptions are unique); afterwards
    `var.read()` returns that value, `.data` its pattern and `var.read(fmt="desc")` returns `d` —
    exactly as through `var.desc`. -/
theorem desc_through_methods {σ : Type} (st : Store σ) (ok : σ → Prop) (od : OdVar) :
    ∀ e ∈ intTypes, od.dtype = e.1 → Lawful st (e.2.1 / 8) ok → (od.descs.map (·.1)).Nodup →
    ∀ (s : σ) (d : Name) (v : Int), ok s → (v, d) ∈ od.descs →
      (∀ v', (v', d) ∈ od.descs → inRange e.2.1 e.2.2 v' = true) →
      writeFmt od st s (.str d) fmtDesc = setDesc od st s d ∧
      ∃ s' v', writeFmt od st s (.str d) fmtDesc = some s' ∧ ok s' ∧ (v', d) ∈ od.descs ∧
        ((od.descs.map (·.2)).Nodup → v' = v) ∧
        readFmt od st s' = some (.int v') ∧
        getData st s' = some (leBytes (e.2.1 / 8) (ofSigned e.2.1 v')) ∧
        readFmt od st s' fmtDesc = some (.str d) ∧ getDesc od st s' = some d := by
  intro e he hdt hl hk s d v hs hm hin
  have hw : writeFmt od st s (.str d) fmtDesc = setDesc od st s d :=
    (methods_agree od st s).2.2.2.2.2.2.2.2.2.2.1 d
  obtain ⟨s', v', hset, hok, hmem, huniq, hrd, hget, hgd⟩ :=
    desc_through_store st ok od e he hdt hl hk s d v hs hm hin
  have hm' := methods_agree od st s'
  refine ⟨hw, s', v', by rw [hw]; exact hset, hok, hmem, huniq, ?_, hget, ?_, hgd⟩
  · rw [hm'.2.2.1]; simp only [getView, hrd, Option.map_some]
  · rw [hm'.2.2.2.2.2.2.1, hgd]; rfl

open Canopen.C04 in
/-- **T bits_seen_by_methods.**  After `var.bits[key] = v` (hypotheses of `bits_through_store`) the
    raw value read with `var.read()` is the old value with exactly the field replaced and `.data`
    returns its pattern. -/
theorem bits_seen_by_methods {σ : Type} (st : Store σ) (ok : σ → Prop) (od : OdVar) :
    ∀ e ∈ intTypes, od.dtype = e.1 → Lawful st (e.2.1 / 8) ok →
    ∀ (s : σ) (raw : Int) (k : Key) (lo hi v : Nat), ok s →
      readFmt od st s = some (.int raw) → inRange e.2.1 e.2.2 raw = true →
      resolveKey od.bitdefs k = some (contig lo hi) → lo < hi → hi ≤ e.2.1 →
      v < 2 ^ (hi - lo) →
      ∃ s' new, setBits od st s k v = some s' ∧ ok s' ∧
        readFmt od st s' = some (.int new) ∧ inRange e.2.1 e.2.2 new = true ∧
        (∀ i, (ofSigned e.2.1 new).testBit i =
          if lo ≤ i ∧ i < hi then v.testBit (i - lo) else (ofSigned e.2.1 raw).testBit i) ∧
        getData st s' = some (leBytes (e.2.1 / 8) (ofSigned e.2.1 new)) ∧
        getBits od st s' k = some (v : Int) := by
  intro e he hdt hl s raw k lo hi v hs hraw hr hk hlt hhi hv
  have hraw' : readRaw od.dtype st s = some raw := by
    rw [(methods_agree od st s).2.2.1] at hraw
    simp only [getView] at hraw
    cases hq : readRaw od.dtype st s with
    | none => rw [hq] at hraw; cases hraw
    | some r =>
      rw [hq] at hraw
      simp only [Option.map_some, Option.some.injEq, PyVal.int.injEq] at hraw
      rw [hraw]
  obtain ⟨s', new, hset, hok, hrd, hin, hb, hget, hgb⟩ :=
    bits_through_store st ok od e he hdt hl s raw k lo hi v hs hraw' hr hk hlt hhi hv
  refine ⟨s', new, hset, hok, ?_, hin, hb, hget, hgb⟩
  rw [(methods_agree od st s').2.2.1]; simp only [getView, hrd, Option.map_some]

open Canopen.C04 in
/-- **T data_raw_agree.**  The bytes and the raw value are two readings of the same thing, through
    every spelling: `var.data = bs` / `set_data(bs)` with well-formed bytes of the type's length
    is accepted, `.data` returns `bs`, and `var.read()` then returns the in-range integer whose
    two's complement pattern is the little-endian value of `bs`; `var.write(v)` with an in-range
    `v` leaves the CiA 301 pattern of `v` in `.data` and `var.read()` returns `v`; an out-of-range
    `v` raises and stores nothing. -/
theorem data_raw_agree {σ : Type} (st : Store σ) (ok : σ → Prop) (od : OdVar) :
    ∀ e ∈ intTypes, od.dtype = e.1 → Lawful st (e.2.1 / 8) ok → ∀ (s : σ), ok s →
      (∀ bs : Bytes, AllBytes bs → bs.length = e.2.1 / 8 →
        ∃ s' raw, setData st s bs = some s' ∧ ok s' ∧ getData st s' = some bs ∧
          readFmt od st s' = some (.int raw) ∧ readFmt od st s' fmtRaw = some (.int raw) ∧
          inRange e.2.1 e.2.2 raw = true ∧ ofSigned e.2.1 raw = leVal bs) ∧
      (∀ v : Int, inRange e.2.1 e.2.2 v = true →
        ∃ s', writeFmt od st s (.int v) = some s' ∧ writeFmt od st s (.int v) fmtRaw = some s' ∧ ok s' ∧
          getData st s' = some (leBytes (e.2.1 / 8) (ofSigned e.2.1 v)) ∧
          readFmt od st s' = some (.int v)) ∧
      (∀ v : Int, inRange e.2.1 e.2.2 v = false →
        writeFmt od st s (.int v) = none ∧ writeFmt od st s (.int v) fmtRaw = none) := by
  intro e he hdt hl s hs
  refine ⟨?_, ?_, ?_⟩
  · intro bs hb hlen
    obtain ⟨s', hset, hget, hok⟩ := hl s bs hs hlen
    obtain ⟨raw, hdec, hin, hpat⟩ := stored_pattern e he bs hb hlen
    have hrd : readRaw od.dtype st s' = some raw := by
      simp only [readRaw, hget, Option.bind_some, hdt, hdec, valInt]
    have hm := methods_agree od st s'
    refine ⟨s', raw, hset, hok, hget, ?_, ?_, hin, hpat⟩
    · rw [hm.2.2.1]; simp only [getView, hrd, Option.map_some]
    · rw [hm.2.2.2.2.1, hrd]; rfl
  · intro v hv
    obtain ⟨s', hw, hok, hrd, hget⟩ := (write_read st ok e he hl s v hs).1 hv
    have hm := methods_agree od st s
    have hm' := methods_agree od st s'
    refine ⟨s', ?_, ?_, hok, hget, ?_⟩
    · rw [hm.2.2.2.1]; simp only [setView, setRawVal, hdt, hw]
    · rw [hm.2.2.2.2.2.2.2.1, hdt, hw]
    · rw [hm'.2.2.1]; simp only [getView, hdt, hrd, Option.map_some]
  · intro v hv
    have hw := (write_read st ok e he hl s v hs).2 hv
    have hm := methods_agree od st s
    refine ⟨?_, ?_⟩
    · rw [hm.2.2.2.1]; simp only [setView, setRawVal, hdt, hw]
    · rw [hm.2.2.2.2.2.2.2.1, hdt, hw]

open Canopen.C04 in
/-- **T methods_over_any_store.**  The methods are functions of `get_data` / `set_data` only: on
    any two lawful stores (an SDO variable, a record or array member, a PDO variable) whose
    variables hold the same bytes, `read(fmt)` returns the same for every `fmt`, and
    `write(x, fmt)` raises on both or succeeds on both and leaves the same bytes behind, for every
    `fmt` and every value (bytes handed to `write` having the type's length). -/
theorem methods_over_any_store {σ τ : Type} (st1 : Store σ) (ok1 : σ → Prop) (st2 : Store τ)
    (ok2 : τ → Prop) (od : OdVar) :
    ∀ e ∈ intTypes, od.dtype = e.1 → Lawful st1 (e.2.1 / 8) ok1 → Lawful st2 (e.2.1 / 8) ok2 →
    ∀ (s1 : σ) (s2 : τ), ok1 s1 → ok2 s2 → st1.get s1 = st2.get s2 →
      (∀ fmt, readFmt od st1 s1 fmt = readFmt od st2 s2 fmt) ∧
      getData st1 s1 = getData st2 s2 ∧
      (∀ fmt x, (∀ b, x = .bytes b → b.length = e.2.1 / 8) →
        SameOutcome st1 ok1 st2 ok2 (writeFmt od st1 s1 x fmt) (writeFmt od st2 s2 x fmt)) := by
  intro e he hdt h1 h2 s1 s2 hs1 hs2 hget
  obtain ⟨_, hgd, hgp, _, hsd, hsp⟩ :=
    views_over_any_store st1 ok1 st2 ok2 od e he hdt h1 h2 s1 s2 hs1 hs2 hget
  have hraw : readRaw od.dtype st1 s1 = readRaw od.dtype st2 s2 := by
    simp only [readRaw, hget]
  refine ⟨?_, hget, ?_⟩
  · intro fmt
    rw [readFmt_eq, readFmt_eq]
    cases fmtView fmt with
    | none => rfl
    | some v => cases v <;> simp only [getView, hraw, hgd, hgp]
  · intro fmt x hx
    rw [writeFmt_eq, writeFmt_eq]
    cases fmtView fmt with
    | none => exact ⟨hs1, hs2, hget⟩
    | some v =>
      cases v with
      | raw =>
        cases x with
        | int i =>
          simp only [setView, setRawVal, hdt]
          exact writeRaw_same st1 ok1 st2 ok2 e he h1 h2 s1 s2 (some i) hs1 hs2
        | num q =>
          simp only [setView, setRawVal, hdt]
          exact writeRaw_same st1 ok1 st2 ok2 e he h1 h2 s1 s2 (some (pyTrunc q)) hs1 hs2
        | bytes b =>
          have hlen := hx b rfl
          obtain ⟨a, ha, hga, hoa⟩ := h1 s1 b hs1 hlen
          obtain ⟨c, hc, hgc, hoc⟩ := h2 s2 b hs2 hlen
          simp only [setView, setRawVal, ha, hc, SameOutcome]
          exact ⟨hoa, hoc, by rw [hga, hgc]⟩
        | str _ => simp [setView, setRawVal, SameOutcome]
        | none => simp [setView, setRawVal, SameOutcome]
      | phys =>
        cases x with
        | int i => simp only [setView, setPhysVal]; exact hsp _
        | num q => simp only [setView, setPhysVal]; exact hsp _
        | bytes _ => simp [setView, setPhysVal, SameOutcome]
        | str _ => simp [setView, setPhysVal, SameOutcome]
        | none => simp [setView, setPhysVal, SameOutcome]
      | desc =>
        cases x with
        | str d => simp only [setView, setDescVal]; exact hsd _
        | int _ => simp [setView, setDescVal, SameOutcome]
        | num _ => simp [setView, setDescVal, SameOutcome]
        | bytes _ => simp [setView, setDescVal, SameOutcome]
        | none => simp [setView, setDescVal, SameOutcome]

/-! ## non-vacuity -/

/-- the INTEGER16 variable with factor 1/10 of the examples -/
def int16Tenth : OdVar := ⟨Gen.Datatypes.INTEGER16, 1 / 10, [(3, [79, 78]), (-2, [79, 70, 70])], []⟩

-- `write(0.3, fmt="phys")` with factor 0.1 stores 3 (not the truncated 2), −7.77 stores −78, and
-- every spelling of the reads sees it: `read()` = 3, `.data` = 03 00, `read("phys")` = 3/10,
-- `read("desc")` = "ON"
example :
    writeFmt int16Tenth cellStore [0, 0] (.num (3 / 10)) fmtPhys = some [3, 0] ∧
    writeFmt int16Tenth cellStore [0, 0] (.num (-777 / 100)) fmtPhys = some [0xB2, 0xFF] ∧
    readFmt int16Tenth cellStore [3, 0] = some (.int 3) ∧
    getData cellStore [3, 0] = some [3, 0] ∧
    readFmt int16Tenth cellStore [3, 0] fmtPhys = some (.num (3 / 10)) ∧
    readFmt int16Tenth cellStore [3, 0] fmtDesc = some (.str [79, 78]) ∧
    writeFmt int16Tenth cellStore [3, 0] (.str [79, 70, 70]) fmtDesc = some [0xFE, 0xFF] ∧
    readFmt int16Tenth cellStore [3, 0] [98, 105, 116, 115] = some .none ∧
    writeFmt int16Tenth cellStore [3, 0] (.int 9) [98, 105, 116, 115] = some [3, 0] ∧
    (3, 16, true) ∈ Canopen.C04.intTypes := by decide +kernel

-- a history mixing the spellings on a PDO window (INTEGER16 at byte 1 of a 4-byte frame):
-- `write(0.75, "phys")`, `read()`, `.phys`, `set_data(05 00)`, `read("phys")`, `bits[0] = 0`, `.data`
example :
    accessRun ⟨Gen.Datatypes.INTEGER16, 1 / 4, [], []⟩ (frameStore 1 2) [0xAA, 0, 0, 0xBB]
      [.setM (.num (3 / 4)) (some fmtPhys), .getM none, .getP .phys, .setData [5, 0],
       .getM (some fmtPhys), .setBits (.num 0) 0, .getData] =
      ([0xAA, 4, 0, 0xBB],
       [some .none, some (.int 3), some (.num (3 / 4)), some .none, some (.num (5 / 4)), some .none,
        some (.bytes [4, 0])]) := by decide +kernel

end Canopen.C20
