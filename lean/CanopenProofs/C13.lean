/-
C13 — SDO block upload returns exactly the server's data or fails visibly.

Theorems about `CanopenModel/Sdo/BlockUp.lean` (model of `BlockUploadStream` + the parts of
`SdoClient` it uses).  Two layers:
* statements about the client alone, against **every** peer and **every** channel (arbitrary loss,
  corruption, reordering of what reaches the response queue): `crc_guard`,
  `single_bit_flip_detected`;
* statements about the client composed with the conformant block-upload server of
  `CanopenModel/Spec/BlockServer.lean`: `undisturbed`, `loss_never_returns_different_data`,
  `single_loss_repaired`, `flipped_data_byte_errors`, `flipped_data_bit_errors`,
  `wrong_crc_or_end_frame_errors`, and the closed counterexamples `crc_collision_counterexample`,
  `crc_blind_counterexample`.
Helper lemmas: `CanopenProofs/Lemmas/BlockUp.lean`, `BlockUpFlow.lean`, `BlockUpLoss.lean`,
`CanopenProofs/Lemmas/Crc.lean`.
-/
import CanopenModel.Sdo.BlockUp
import CanopenProofs.Lemmas.BlockUp
import CanopenProofs.Lemmas.BlockUpFlow
import CanopenProofs.Lemmas.BlockUpLoss

namespace Canopen.C13
open Canopen Canopen.Crc Canopen.Gen.SdoBlock Canopen.Sdo.BlockUp
open Canopen.Spec.BlockUp (Cfg Srv Phase nseg)

/-- **CRC guard** — exactly what a 16-bit check gives, against any server behaviour and any
    loss / corruption pattern (`E` is arbitrary): if the upload returns normally with value `v`
    after having seen the last segment, and CRC was negotiated (the client asked for it and the
    initiate response said the server supports it), then the checksum the client read from the
    end response equals the CRC-16 of `v`.  (`done` can only be false on a normal return if the
    peer sent a non-final segment frame of a single byte; frames are 8 bytes on CAN.) -/
theorem crc_guard (E : Env) (fuel idx sub : Nat) (crcReq : Bool) (v : Bytes)
    (h : (blockUpload E fuel idx sub crcReq).2 = .ok v)
    (hsup : (blockUpload E fuel idx sub crcReq).1.cl.crcSupported = true)
    (hdone : (blockUpload E fuel idx sub crcReq).1.cl.done = true) :
    (blockUpload E fuel idx sub crcReq).1.cl.serverCrc = some (crcHqx v 0) := by
  unfold blockUpload blockUploadFrom at h hsup hdone ⊢
  rw [show ({ ({} : Sys) with cl := {} }) = ({} : Sys) from rfl] at h hsup hdone ⊢
  have hi := init_ci E idx sub crcReq
  generalize init E {} idx sub crcReq = x at hi h hsup hdone ⊢
  obtain ⟨s, b⟩ := x
  cases b with
  | false => simp at h
  | true =>
    have hci := (hi s rfl).1
    simp only at h hsup hdone ⊢
    have hr := readAll_spec E fuel s [] v
    generalize readAll E fuel s [] = y at hr h hsup hdone ⊢
    obtain ⟨s1, r⟩ := y
    simp only at h hsup hdone ⊢
    subst h
    have := (hr s1 hci rfl).1
    rw [close_cl] at hsup hdone ⊢
    rw [this.fin hdone hsup, this.run hsup]

/-- CRC support is only ever switched on by the client's own request (after the repair of the
    `crc_supported` assignment, see DESIGN §6). -/
theorem crc_only_if_requested (E : Env) (fuel idx sub : Nat) (v : Bytes)
    (h : (blockUpload E fuel idx sub false).2 = .ok v) :
    (blockUpload E fuel idx sub false).1.cl.crcSupported = false := by
  unfold blockUpload blockUploadFrom at h ⊢
  rw [show ({ ({} : Sys) with cl := {} }) = ({} : Sys) from rfl] at h ⊢
  have hi := init_sup E idx sub
  have hci := init_ci E idx sub false
  generalize init E {} idx sub false = x at hi hci h ⊢
  obtain ⟨s, b⟩ := x
  cases b with
  | false => simp at h
  | true =>
    simp only at h ⊢
    have hr := readAll_spec E fuel s [] v
    generalize readAll E fuel s [] = y at hr h ⊢
    obtain ⟨s1, r⟩ := y
    simp only at h ⊢
    subst h
    rw [close_cl, (hr s1 (hci s rfl).1 rfl).2]
    exact hi s rfl

/-- **A single flipped bit (indeed any error confined to one byte) is never returned.**  Against
    any server behaviour and any disturbance of the segments: if CRC was negotiated, the client saw
    the last segment and read the genuine checksum `crc16 data` from the end response, then a
    normal return never yields a value that differs from `data` in exactly one byte position. -/
theorem single_bit_flip_detected (E : Env) (fuel idx sub : Nat) (crcReq : Bool) (v data : Bytes)
    (h : (blockUpload E fuel idx sub crcReq).2 = .ok v)
    (hsup : (blockUpload E fuel idx sub crcReq).1.cl.crcSupported = true)
    (hdone : (blockUpload E fuel idx sub crcReq).1.cl.done = true)
    (hgenuine : (blockUpload E fuel idx sub crcReq).1.cl.serverCrc = some (crcHqx data 0)) :
    ¬ ∃ pre post b c, b ≠ c ∧ b < 256 ∧ c < 256 ∧ AllBytes post ∧ data = pre ++ b :: post ∧ v = pre ++ c :: post := by
  rintro ⟨pre, post, b, c, hne, hb, hc, hpost, rfl, rfl⟩
  have := crc_guard E fuel idx sub crcReq _ h hsup hdone
  rw [hgenuine] at this
  exact crc_detects_one_byte pre post b c hpost hb hc hne 0 (by decide) (Option.some.inj this)

/-- **Undisturbed block upload** against the conformant server: for every value (1 ≤ length < 2^32),
    CRC requested / supported in any combination, size indicated or not, every multiplexer: the
    value is returned exactly; the strict server saw nothing illegal and received the end
    confirmation (the transfer was closed); `fp.size` is the announced size; and the client's
    frames are exactly initiate (block size 127), start, one acknowledge per sub-block carrying the
    number of segments in it (ackseq) and block size 127, end.  The last segment is trimmed by the
    announced number of unused bytes (`assemble_true`). -/
theorem undisturbed (cfg : Cfg) (hx : cfg.crcXor = 0) (he : cfg.endB0 = none) (h1 : 1 ≤ cfg.data.length)
    (h2 : cfg.data.length < 2 ^ 32) (crcReq : Bool) (idx sub fuel : Nat) (hf : nseg cfg + 1 ≤ fuel) :
    (blockUpload { cfg := cfg, chan := idChan } fuel idx sub crcReq).2 = .ok cfg.data ∧
    (blockUpload { cfg := cfg, chan := idChan } fuel idx sub crcReq).1.srv.confirmed = true ∧
    (blockUpload { cfg := cfg, chan := idChan } fuel idx sub crcReq).1.srv.illegal = none ∧
    (blockUpload { cfg := cfg, chan := idChan } fuel idx sub crcReq).1.cl.size = (if cfg.sizeInd then some cfg.data.length else none) ∧
    (reqFrames (blockUpload { cfg := cfg, chan := idChan } fuel idx sub crcReq).1).reverse =
      [[0xA0 ||| 0 ||| (if crcReq then 4 else 0), idx % 256, idx / 256, sub, 127, 0, 0, 0], startFrame]
        ++ idealAcks (nseg cfg) (nseg cfg) ++ [endConfirm] := by
  have hc := chanOK_id cfg crcReq idx sub
  have hasm : midData (idPar cfg crcReq idx sub) 0 ++ lastData (idPar cfg crcReq idx sub) = cfg.data :=
    assemble_true _ rfl he h1
  have hn := (nseg_bounds cfg h1).1
  have hb := endn_bits ⟨7 * nseg cfg - cfg.data.length, by have := nseg_bounds cfg h1; omega⟩
  have hacc : Accept (idPar cfg crcReq idx sub)
      (midData (idPar cfg crcReq idx sub) 0 ++ lastData (idPar cfg crcReq idx sub)) := by
    refine ⟨?_, ?_, ?_⟩
    · rw [idPar_cfg, endB0_none cfg he]; exact hb.1
    · rw [idPar_cfg, endB0_none cfg he]; exact hb.2.1
    · rintro ⟨hs, hne⟩
      apply hne
      rw [announced_plain _ hx, hasm, hs]; rfl
  have := upload_flow _ hc (trueG_length cfg) hn h2 fuel hf
  rw [if_pos hacc, hasm] at this
  exact this

/-- **A wrong checksum or a wrong end frame ends in an error.**  Otherwise undisturbed transfer:
    (i) CRC negotiated and the server announces a checksum that differs (in its 16 bits) from the
    CRC of its value; (ii) the first byte of the end response is not an end-of-block-upload
    response (scs = 6, ss = 1), whatever the CRC settings. -/
theorem wrong_crc_or_end_frame_errors (cfg : Cfg) (h1 : 1 ≤ cfg.data.length) (h2 : cfg.data.length < 2 ^ 32)
    (crcReq : Bool) (idx sub fuel : Nat) (hf : nseg cfg + 1 ≤ fuel)
    (hwrong : (cfg.endB0 = none ∧ crcReq = true ∧ cfg.crcCapable = true ∧ cfg.crcXor % 65536 ≠ 0) ∨
      (∃ b, cfg.endB0 = some b ∧ ¬ (b &&& 0xE0 = 0xC0 ∧ b &&& 3 = 1))) :
    (blockUpload { cfg := cfg, chan := idChan } fuel idx sub crcReq).2 = .err := by
  have hc := chanOK_id cfg crcReq idx sub
  have hn := (nseg_bounds cfg h1).1
  have hnacc : ¬ Accept (idPar cfg crcReq idx sub)
      (midData (idPar cfg crcReq idx sub) 0 ++ lastData (idPar cfg crcReq idx sub)) := by
    rintro ⟨a1, a2, a3⟩
    rcases hwrong with ⟨he, hr, hcap, hx⟩ | ⟨b, he, hb⟩
    · apply a3
      have hs : (idPar cfg crcReq idx sub).sup = true := by simp [Par.sup, idPar, hr, hcap]
      refine ⟨hs, ?_⟩
      rw [assemble_true _ rfl he h1]
      simp only [announced, hs, if_true, idPar_cfg]
      have hlt := crcHqx_lt cfg.data 0 (by decide)
      have : (crcHqx cfg.data 0 ^^^ cfg.crcXor) % 2 ^ 16 = crcHqx cfg.data 0 % 2 ^ 16 ^^^ cfg.crcXor % 2 ^ 16 :=
        Nat.xor_mod_two_pow
      rw [show (65536 : Nat) = 2 ^ 16 from rfl, this, Nat.mod_eq_of_lt (by simpa using hlt)]
      intro heq
      apply hx
      have h0 : cfg.crcXor % 2 ^ 16 ^^^ crcHqx cfg.data 0 = 0 ^^^ crcHqx cfg.data 0 := by
        rw [Nat.xor_comm, heq]; simp
      exact xor_cancel _ _ _ h0
    · apply hb
      rw [idPar_cfg, endB0_some cfg b he] at a1 a2
      exact ⟨a1, a2⟩
  have := upload_flow _ hc (trueG_length cfg) hn h2 fuel hf
  rw [if_neg hnacc] at this
  exact this


/-- **Every corrupted byte (in particular every flipped bit) inside the value ends in an error**
    when CRC is negotiated: conformant server, otherwise undisturbed transfer, byte `k` of the data
    of segment `i0` (frame `i0+1`, frame byte `k+1`) arrives as `x ≠` the byte sent. -/
theorem flipped_data_byte_errors (cfg : Cfg) (hx : cfg.crcXor = 0) (he : cfg.endB0 = none)
    (h1 : 1 ≤ cfg.data.length) (h2 : cfg.data.length < 2 ^ 32) (hcap : cfg.crcCapable = true)
    (hbytes : AllBytes cfg.data) (idx sub fuel : Nat) (hf : nseg cfg + 1 ≤ fuel) (i0 k x : Nat) (hk : k < 7)
    (hpos : 7 * i0 + k < cfg.data.length) (hx256 : x < 256) (hne : x ≠ cfg.data.getD (7 * i0 + k) 0) :
    (blockUpload { cfg := cfg, chan := (fun n f => if n = i0 + 1 then some (f.set (k + 1) x) else some f) } fuel idx sub true).2
      = .err := by
  obtain ⟨n1, n2, n3⟩ := nseg_bounds cfg h1
  have hi : i0 < nseg cfg := by omega
  have hc := chanOK_flip cfg i0 k x true idx sub hi
  have hasm := assemble_flip cfg i0 k x true idx sub he h1 hk hpos
  have hs : (flipPar cfg i0 k x true idx sub).sup = true := by simp [Par.sup, flipPar, hcap]
  have hnacc : ¬ Accept (flipPar cfg i0 k x true idx sub)
      (midData (flipPar cfg i0 k x true idx sub) 0 ++ lastData (flipPar cfg i0 k x true idx sub)) := by
    rintro ⟨-, -, a3⟩
    apply a3
    refine ⟨hs, ?_⟩
    rw [announced_plain _ hx, hs, hasm]
    simp only [if_true, flipPar_cfg]
    -- the two values differ in exactly one byte
    have hd : cfg.data = cfg.data.take (7 * i0 + k) ++ cfg.data.getD (7 * i0 + k) 0 :: cfg.data.drop (7 * i0 + k + 1) := by
      have : cfg.data.getD (7 * i0 + k) 0 = cfg.data[7 * i0 + k] := by simp [List.getD_eq_getElem?_getD, hpos]
      rw [this]; simp
    have hv : cfg.data.set (7 * i0 + k) x =
        cfg.data.take (7 * i0 + k) ++ x :: cfg.data.drop (7 * i0 + k + 1) := by
      rw [List.set_eq_take_append_cons_drop, if_pos hpos]
    have hb : cfg.data.getD (7 * i0 + k) 0 < 256 := by
      have : cfg.data.getD (7 * i0 + k) 0 = cfg.data[7 * i0 + k] := by simp [List.getD_eq_getElem?_getD, hpos]
      rw [this]; exact hbytes _ (List.getElem_mem _)
    have hpost : AllBytes (cfg.data.drop (7 * i0 + k + 1)) := fun y hy => hbytes y (List.mem_of_mem_drop hy)
    rw [hv]
    conv => lhs; rw [hd]
    exact fun h => crc_detects_one_byte _ _ _ _ hpost hb hx256 (Ne.symm hne) 0 (by decide) h
  have := upload_flow _ hc (flipG_length cfg i0 k x) n1 h2 fuel hf
  rw [if_neg hnacc] at this
  exact this


/-- the single-bit instance: bit `j` of that byte flipped -/
theorem flipped_data_bit_errors (cfg : Cfg) (hx : cfg.crcXor = 0) (he : cfg.endB0 = none)
    (h1 : 1 ≤ cfg.data.length) (h2 : cfg.data.length < 2 ^ 32) (hcap : cfg.crcCapable = true)
    (hbytes : AllBytes cfg.data) (idx sub fuel : Nat) (hf : nseg cfg + 1 ≤ fuel) (i0 k j : Nat) (hk : k < 7)
    (hpos : 7 * i0 + k < cfg.data.length) (hj : j < 8) :
    (blockUpload { cfg := cfg, chan := (fun n f => if n = i0 + 1 then
        some (f.set (k + 1) (cfg.data.getD (7 * i0 + k) 0 ^^^ (1 <<< j))) else some f) } fuel idx sub true).2
      = .err := by
  have hb : cfg.data.getD (7 * i0 + k) 0 < 256 := by
    have : cfg.data.getD (7 * i0 + k) 0 = cfg.data[7 * i0 + k] := by simp [List.getD_eq_getElem?_getD, hpos]
    rw [this]; exact hbytes _ (List.getElem_mem _)
  have hm : 1 <<< j < 2 ^ 8 := by
    rw [Nat.shiftLeft_eq, Nat.one_mul]; exact Nat.pow_lt_pow_right (by decide) hj
  have hm0 : 1 <<< j ≠ 0 := by rw [Nat.shiftLeft_eq, Nat.one_mul]; exact Nat.ne_of_gt (Nat.pow_pos (by decide))
  refine flipped_data_byte_errors cfg hx he h1 h2 hcap hbytes idx sub fuel hf i0 k _ hk hpos
    (Nat.xor_lt_two_pow (n := 8) hb hm) ?_
  intro h
  apply hm0
  have : cfg.data.getD (7 * i0 + k) 0 ^^^ 1 <<< j = cfg.data.getD (7 * i0 + k) 0 ^^^ 0 := by simpa using h
  have h3 := xor_cancel (1 <<< j) 0 (cfg.data.getD (7 * i0 + k) 0) (by rw [Nat.xor_comm, this, Nat.xor_comm])
  exact h3

/-! ## loss (repaired code: after every retransmission request the client counts from 1 again,
like the server) -/

/-- **Whatever is lost, the data returned is the server's** — CRC negotiated or not.  Conformant
    server, any value (1 ≤ length < 2^32), a channel that loses any set of the server's frames
    (initiate response, segments of first transmissions and of repetitions, end response) and alters
    none: if the upload returns normally, it returns exactly the server's value.  (After a lost
    segment the client acknowledges the last segment it received in sequence; the server repeats
    from the next one, numbering from 1; the client drops what is still queued of the old
    sub-block and resumes with number 1.) -/
theorem loss_never_returns_different_data (cfg : Cfg) (hx : cfg.crcXor = 0) (he : cfg.endB0 = none)
    (h1 : 1 ≤ cfg.data.length) (h2 : cfg.data.length < 2 ^ 32) (chan : Nat → Bytes → Option Bytes)
    (hloss : ∀ n f, chan n f = none ∨ chan n f = some f) (crcReq : Bool) (idx sub fuel : Nat) (v : Bytes)
    (h : (blockUpload { cfg := cfg, chan := chan } fuel idx sub crcReq).2 = .ok v) : v = cfg.data :=
  upload_loss_safe _ { cfg := cfg, chan := chan, g := trueG cfg, crcReq := crcReq, idx := idx, sub := sub }
    (deliv_env _) hloss hx he h1 h2 fuel [] v h

/-- **A single lost segment is repaired** (the analogue of C12 `single_loss_repaired`): conformant
    server, any value, CRC requested / supported in any combination; the server's response number
    `g` with 1 ≤ g ≤ number of segments — any one segment frame, first, middle or last of its
    sub-block or of the value — is lost, everything else arrives: the upload completes and returns
    exactly the server's value, with the same fuel as the undisturbed transfer. -/
theorem single_loss_repaired (cfg : Cfg) (hx : cfg.crcXor = 0) (he : cfg.endB0 = none)
    (h1 : 1 ≤ cfg.data.length) (h2 : cfg.data.length < 2 ^ 32) (g : Nat) (hg1 : 1 ≤ g) (hg : g ≤ nseg cfg)
    (crcReq : Bool) (idx sub fuel : Nat) (hf : nseg cfg + 1 ≤ fuel) :
    (blockUpload { cfg := cfg, chan := (fun n f => if n = g then none else some f) } fuel idx sub crcReq).2
      = .ok cfg.data :=
  upload_single_loss _ (lossPar cfg g crcReq idx sub) (deliv_env _) (lossOnly_lossPar cfg g crcReq idx sub)
    hx he h1 h2 g hg1 hg (fun n f hn => lossPar_chan cfg g crcReq idx sub n f hn) fuel hf []

/-! ## the clause that is false: corruption

FULL STATEMENT (property text: "With CRC negotiated, any loss or corruption of segments … the call
never returns data that differs from the server's value"):

    theorem never_returns_different_data (cfg) (chan : any loss / corruption of the server's frames)
        (h : (blockUpload { cfg := cfg, chan := chan } fuel idx sub true).2 = .ok v) (hcap : cfg.crcCapable = true) :
        v = cfg.data

For LOSS it is now a theorem, with or without CRC (`loss_never_returns_different_data`).  For
CORRUPTION it is false and no client can make it true: the only guard is a 16-bit checksum.
`crc_collision_counterexample` alters three bytes of one segment by the CRC polynomial — the
checksum is unchanged and the altered value is returned.  What holds for corruption, and is proved
for every peer and every channel, is the `_partial` version: the returned value has the CRC-16 the
server announced — hence never differs from the server's value in a single byte
(`single_bit_flip_detected`, `flipped_data_byte_errors`).  One weakness remains on the client's
side (`crc_blind_counterexample`): it never compares the number of bytes received with the size the
server announced, so for a value whose CRC register stays 0 (all zero bytes) a corrupted
byte-count field in the end response shortens the value unnoticed. -/

theorem never_returns_different_data_partial (E : Env) (fuel idx sub : Nat) (crcReq : Bool) (v data : Bytes)
    (h : (blockUpload E fuel idx sub crcReq).2 = .ok v)
    (hsup : (blockUpload E fuel idx sub crcReq).1.cl.crcSupported = true)
    (hdone : (blockUpload E fuel idx sub crcReq).1.cl.done = true)
    (hgenuine : (blockUpload E fuel idx sub crcReq).1.cl.serverCrc = some (crcHqx data 0)) :
    crcHqx v 0 = crcHqx data 0 := by
  have := crc_guard E fuel idx sub crcReq v h hsup hdone
  rw [hgenuine] at this
  exact (Option.some.inj this).symm

/-- conformant server holding the 30 bytes 1 … 30, CRC negotiated; bytes 1–3 of the second segment
    frame arrive XORed with 01 10 21 (the CRC-16 polynomial x^16+x^12+x^5+1) -/
def collEnv : Env :=
  { cfg := { data := List.range' 1 30, crcCapable := true, sizeInd := true },
    chan := (fun n f => if n = 2 then
      some (f.take 1 ++ [f.getD 1 0 ^^^ 0x01, f.getD 2 0 ^^^ 0x10, f.getD 3 0 ^^^ 0x21] ++ f.drop 4) else some f) }

/-- **Closed counterexample** to the full statement (inherent in a 16-bit check): the upload returns
    normally, CRC negotiated, the genuine checksum was read — and three bytes of the value returned
    differ from the server's. -/
theorem crc_collision_counterexample :
    (blockUpload collEnv 100 0x2000 1 true).2 = .ok (List.range' 1 7 ++ [9, 25, 43] ++ List.range' 11 20) ∧
    (blockUpload collEnv 100 0x2000 1 true).1.cl.crcSupported = true ∧
    (blockUpload collEnv 100 0x2000 1 true).1.cl.done = true ∧
    (blockUpload collEnv 100 0x2000 1 true).1.cl.serverCrc = some (crcHqx collEnv.cfg.data 0) ∧
    List.range' 1 7 ++ [9, 25, 43] ++ List.range' 11 20 ≠ collEnv.cfg.data := by
  decide +kernel

/-- conformant server holding 29 zero bytes (5 segments), CRC negotiated, size indicated; nothing is
    lost; in the end response (server frame 6) one bit of the "unused bytes" field flips (6 → 7) -/
def cexEnv : Env :=
  { cfg := { data := List.replicate 29 0, crcCapable := true, sizeInd := true },
    chan := (fun n f => if n = 6 then some (f.set 0 (f.getD 0 0 ^^^ 4)) else some f) }

/-- **Closed counterexample**, the part a client could avoid: the upload returns normally, CRC
    negotiated, the genuine checksum was read, the server announced 29 bytes — and the value
    returned is 28 bytes long. -/
theorem crc_blind_counterexample :
    (blockUpload cexEnv 100 0x2000 1 true).2 = .ok (List.replicate 28 0) ∧
    (blockUpload cexEnv 100 0x2000 1 true).1.cl.crcSupported = true ∧
    (blockUpload cexEnv 100 0x2000 1 true).1.cl.done = true ∧
    (blockUpload cexEnv 100 0x2000 1 true).1.cl.serverCrc = some (crcHqx cexEnv.cfg.data 0) ∧
    (blockUpload cexEnv 100 0x2000 1 true).1.cl.size = some 29 ∧
    List.replicate 28 0 ≠ cexEnv.cfg.data := by
  decide +kernel

/-! ## non-vacuity -/

/-- 30 bytes, CRC negotiated: the hypotheses of `undisturbed` are satisfiable and the run is not
    degenerate (5 segments, one acknowledge, end) -/
example : (blockUpload { cfg := { data := List.range' 1 30, crcCapable := true, sizeInd := true }, chan := idChan }
    50 0x2000 1 true).2 = .ok (List.range' 1 30) := by decide +kernel

/-- a lost first segment of a sub-block is repaired (ackseq 0, the server resends everything) -/
example : (blockUpload { cfg := { data := List.range' 1 30, crcCapable := true, sizeInd := true }, chan := (fun n f => if n = 1 then none else some f) } 50 0x2000 1 true).2 = .ok (List.range' 1 30) := by decide +kernel

/-- a lost later segment is repaired as well, without CRC too (`single_loss_repaired` in a run) -/
example : (blockUpload { cfg := { data := List.range' 1 30, crcCapable := true, sizeInd := true }, chan := (fun n f => if n = 2 then none else some f) } 50 0x2000 1 true).2 = .ok (List.range' 1 30) ∧
    (blockUpload { cfg := { data := List.range' 1 30, crcCapable := false, sizeInd := false }, chan := (fun n f => if n = 5 then none else some f) } 50 0x2000 1 false).2 = .ok (List.range' 1 30) := by decide +kernel

/-- several losses, among them a repeated segment: the upload still returns the value, or fails —
    here the first frame of the repetition is lost too and the client gives up
    (`loss_never_returns_different_data` is not vacuous on either side) -/
example : (blockUpload { cfg := { data := List.range' 1 30, crcCapable := false, sizeInd := true }, chan := (fun n f => if n = 2 ∨ n = 4 ∨ n = 7 then none else some f) } 50 0x2000 1 false).2 = .ok (List.range' 1 30) ∧
    (blockUpload { cfg := { data := List.range' 1 30, crcCapable := false, sizeInd := true }, chan := (fun n f => if n = 2 ∨ n = 6 then none else some f) } 50 0x2000 1 false).2 = .err := by decide +kernel

/-- hypotheses of `crc_guard` / `single_bit_flip_detected` hold in a real run with a flipped bit -/
example : (blockUpload { cfg := { data := List.range' 1 30, crcCapable := true, sizeInd := true }, chan := (fun n f => if n = 2 then some (f.set 2 (f.getD 2 0 ^^^ 2)) else some f) } 50 0x2000 1 true).2 = .err := by
  decide +kernel

/-- wrong checksum / wrong end frame -/
example : (blockUpload { cfg := { data := List.range' 1 30, crcCapable := true, sizeInd := false, crcXor := 1 }, chan := idChan }
    50 0x2000 1 true).2 = .err ∧
    (blockUpload { cfg := { data := List.range' 1 30, crcCapable := true, sizeInd := false, endB0 := some 0xC0 }, chan := idChan }
    50 0x2000 1 false).2 = .err := by decide +kernel

end Canopen.C13
