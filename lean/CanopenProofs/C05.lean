/-
C05 — PDO variables occupy exactly their mapped bits.

Theorems about `CanopenModel/Pdo/Bits.lean` (model of `PdoMap.add_variable`,
`PdoVariable.get_data/set_data` and the typed `raw` accessors).  "Bit i of the frame" is
`(leVal frame).testBit i`.  All statements hold for every frame content and length, every bit
offset and field length, every value; nothing is bounded.
-/
import CanopenModel.Pdo.Bits
import CanopenProofs.Lemmas.Bits
import CanopenProofs.C04

namespace Canopen.C05
open Canopen Canopen.Codec Canopen.Pdo Canopen.Gen.Datatypes Canopen.C04

/-! ## layout: offsets are disjoint prefix sums -/

theorem offsets_length (lens : List Nat) : (offsets lens).length = lens.length := by
  induction lens with
  | nil => rfl
  | cons l ls ih => simp [offsets, ih]

theorem offsets_getElem (lens : List Nat) (i : Nat) (h : i < lens.length) :
    (offsets lens)[i]'(by rw [offsets_length]; exact h) = (lens.take i).sum := by
  induction lens generalizing i with
  | nil => simp at h
  | cons l ls ih =>
    cases i with
    | zero => simp [offsets]
    | succ i =>
      have hi : i < ls.length := by simpa using h
      simp [offsets, ih i hi, Nat.add_comm]

theorem sum_take_le (lens : List Nat) (i j : Nat) (hij : i ≤ j) :
    (lens.take i).sum ≤ (lens.take j).sum := by
  induction lens generalizing i j with
  | nil => simp
  | cons l ls ih =>
    cases i with
    | zero => simp
    | succ i =>
      cases j with
      | zero => omega
      | succ j => simp only [List.take_succ_cons, List.sum_cons]; have := ih i j (by omega); omega

theorem sum_take_succ (lens : List Nat) (i : Nat) (h : i < lens.length) :
    (lens.take (i + 1)).sum = (lens.take i).sum + lens[i] := by
  induction lens generalizing i with
  | nil => simp at h
  | cons l ls ih =>
    cases i with
    | zero => simp
    | succ i =>
      have hi : i < ls.length := by simpa using h
      simp only [List.take_succ_cons, List.sum_cons, List.getElem_cons_succ, ih i hi]; omega

/-- Entry `i` occupies `[offset i, offset i + len i)`; these intervals follow each other without
    overlap (entry `j > i` starts at or after the end of entry `i`) and all lie inside
    `[0, total)`.  -/
theorem offsets_disjoint (lens : List Nat) (i j : Nat) (hij : i < j) (hj : j < lens.length) :
    (offsets lens)[i]'(by rw [offsets_length]; omega) + lens[i] ≤
      (offsets lens)[j]'(by rw [offsets_length]; exact hj) ∧
    (offsets lens)[j]'(by rw [offsets_length]; exact hj) + lens[j] ≤ lens.sum := by
  rw [offsets_getElem lens i (by omega), offsets_getElem lens j hj]
  constructor
  · rw [← sum_take_succ lens i (by omega)]
    exact sum_take_le lens (i + 1) j (by omega)
  · rw [← sum_take_succ lens j hj]
    have := sum_take_le lens (j + 1) lens.length (by omega)
    simpa using this

/-! ## reading -/

/-- what a typed read must see: the field, as a two's complement number of the *type's* width
    after sign extension from the *field's* width -/
def expectedPattern (signed : Bool) (W len f : Nat) : Nat :=
  if signed then ofSigned W (toSigned len f) else f

theorem toSigned_range (len : Nat) (hl : 0 < len) (f : Nat) (hf : f < 2 ^ len) (W : Nat)
    (hW : len ≤ W) : inRange W true (toSigned len f) = true :=
  inRange_mono_signed len W hl hW _ (toSigned_inRange len hl f hf)

theorem testBit_top (len : Nat) (hl : 0 < len) (f : Nat) (hf : f < 2 ^ len) :
    f.testBit (len - 1) = decide (2 ^ (len - 1) ≤ f) := by
  have h2 := two_pow_pred len hl
  by_cases h : 2 ^ (len - 1) ≤ f
  · simp only [h, decide_true]
    have : f = 2 ^ (len - 1) + (f - 2 ^ (len - 1)) := by omega
    rw [this, Nat.testBit_two_pow_add_eq]
    have : (f - 2 ^ (len - 1)).testBit (len - 1) = false :=
      Nat.testBit_lt_two_pow (by omega)
    simp [this]
  · simp only [h, decide_false]
    exact Nat.testBit_lt_two_pow (by omega)

/-- `get_data` returns exactly the bit field: `size` bytes whose value is the field, sign-extended
    to the type's width for signed types — on both code paths (bit path and byte-aligned slice). -/
theorem get_is_field (frame : Bytes) (hfr : AllBytes frame) (t : Option Nat) (off len : Nat)
    (hl : 0 < len) (hW : len ≤ bitLen t) (h8 : bitLen t % 8 = 0)
    (hal : off % 8 = 0 ∧ len % 8 = 0 → len = bitLen t)
    (hfit : off + len ≤ 8 * frame.length) :
    ∃ bs, getData frame t off len = some bs ∧ bs.length = bitLen t / 8 ∧ AllBytes bs ∧
      leVal bs = expectedPattern (isSigned t) (bitLen t) len (field (leVal frame) off len) := by
  have hf := field_lt (leVal frame) off len
  generalize hfv : field (leVal frame) off len = f at hf
  generalize hWv : bitLen t = W at *
  have hW8 : 8 * (W / 8) = W := by omega
  by_cases hp : off % 8 ≠ 0 ∨ len % 8 ≠ 0
  · -- bit path
    simp only [getData, hp, if_true, hWv, hfv, hW8]
    have hl0 : ¬ (isSigned t = true ∧ len = 0) := by omega
    simp only [hl0, if_false]
    cases hs : isSigned t
    · -- unsigned: the value itself
      have hr : inRange W false (f : Int) = true := by
        simp only [inRange, Bool.false_eq_true, if_false, Bool.and_eq_true, decide_eq_true_eq]
        have : 2 ^ len ≤ 2 ^ W := Nat.pow_le_pow_right (by decide) hW
        omega
      simp only [Bool.false_eq_true, false_and, if_false, hr, if_true]
      refine ⟨_, rfl, leBytes_length _ _, leBytes_allBytes _ _, ?_⟩
      have h1 : ofSigned W (f : Int) = f := by have := ofSigned_nonneg W _ hr; omega
      have hfW : f < 2 ^ W := Nat.lt_of_lt_of_le hf (Nat.pow_le_pow_right (by decide) hW)
      rw [leVal_leBytes, h1, pow256, hW8, Nat.mod_eq_of_lt hfW]
      simp [expectedPattern]
    · -- signed: sign extension
      have htop := testBit_top len hl f hf
      have hn : (if (true = true ∧ f.testBit (len - 1) = true) then (f : Int) - ((2 ^ len : Nat) : Int)
          else (f : Int)) = toSigned len f := by
        unfold toSigned
        rw [htop]
        by_cases hc : 2 ^ (len - 1) ≤ f
        · have : ¬ f < 2 ^ (len - 1) := by omega
          simp [hc, this]
        · have : f < 2 ^ (len - 1) := by omega
          simp [hc, this]
      rw [hn]
      have hr := toSigned_range len hl f hf W hW
      simp only [hr, if_true]
      refine ⟨_, rfl, leBytes_length _ _, leBytes_allBytes _ _, ?_⟩
      rw [leVal_leBytes, pow256, hW8, Nat.mod_eq_of_lt (ofSigned_lt _ _)]
      simp [expectedPattern]
  · -- byte-aligned slice: the field has the type's full width
    have hp' : off % 8 = 0 ∧ len % 8 = 0 := by omega
    have hlen : len = W := hal hp'
    subst hlen
    simp only [getData, hp, if_false, hWv]
    have hsl := leVal_slice frame hfr (off / 8) (len / 8)
    have ho : 8 * (off / 8) = off := by omega
    rw [ho, hW8, hfv] at hsl
    have hlenb : ((frame.drop (off / 8)).take (len / 8)).length = len / 8 := by
      rw [List.length_take, List.length_drop]; omega
    refine ⟨_, rfl, hlenb, allBytes_take (allBytes_drop hfr _) _, ?_⟩
    rw [hsl]
    cases hs : isSigned t
    · simp [expectedPattern]
    · simp only [expectedPattern, if_true]
      rw [ofSigned_toSigned len hl f hf]

/-- facts about the table the typed theorems need -/
theorem intTypes_bitLen : ∀ e ∈ intTypes, bitLen (some e.1) = e.2.1 ∧ isSigned (some e.1) = e.2.2 ∧
    e.2.1 % 8 = 0 := by decide

/-- Typed read (`var.raw`) of an integer object mapped with `len` bits at bit offset `off`:
    exactly the field's value, sign-extended for signed types. -/
theorem read_is_typed_field : ∀ e ∈ intTypes, ∀ (frame : Bytes) (off len : Nat), AllBytes frame →
    0 < len → len ≤ e.2.1 → (off % 8 = 0 ∧ len % 8 = 0 → len = e.2.1) →
    off + len ≤ 8 * frame.length →
    readRaw frame (some e.1) off len =
      some (.int (if e.2.2 then toSigned len (field (leVal frame) off len)
                  else (field (leVal frame) off len : Int))) := by
  intro e he frame off len hfr hl hW hal hfit
  obtain ⟨hbl, hsg, h8⟩ := intTypes_bitLen e he
  obtain ⟨hw0, hpow⟩ := intTypes_wf e he
  obtain ⟨bs, hget, hlen, hall, hval⟩ :=
    get_is_field frame hfr (some e.1) off len hl (by rw [hbl]; exact hW) (by rw [hbl]; exact h8)
      (by rw [hbl]; exact hal) hfit
  rw [hbl] at hlen hval
  rw [hsg] at hval
  have hf := field_lt (leVal frame) off len
  generalize field (leVal frame) off len = f at *
  rw [readRaw, hget, Option.bind_some, decode_int_shape e he bs hall, decSpec, if_pos hlen, hval]
  obtain ⟨t, w, sg⟩ := e
  dsimp only at *
  cases sg
  · simp [expectedPattern]
  · simp only [expectedPattern, if_true]
    rw [toSigned_ofSigned w hw0 _ (toSigned_range len hl f hf w hW)]

/-- BOOLEAN mapped as `len ≤ 8` bits (one bit in the property) reads as "field non-zero";
    REAL32/REAL64 mapped with their full length at any bit offset read as the field's IEEE pattern. -/
theorem read_bool_real (frame : Bytes) (hfr : AllBytes frame) (off len : Nat) (hl : 0 < len)
    (hfit : off + len ≤ 8 * frame.length) :
    (len ≤ 8 → (off % 8 = 0 ∧ len % 8 = 0 → len = 8) →
      readRaw frame (some BOOLEAN) off len = some (.bool (field (leVal frame) off len != 0))) ∧
    (len = 32 → readRaw frame (some REAL32) off len = some (.real (field (leVal frame) off len))) ∧
    (len = 64 → readRaw frame (some REAL64) off len = some (.real (field (leVal frame) off len))) := by
  have hbB : bitLen (some BOOLEAN) = 8 := by decide
  have hb32 : bitLen (some REAL32) = 32 := by decide
  have hb64 : bitLen (some REAL64) = 64 := by decide
  refine ⟨fun h8 hal => ?_, fun h32 => ?_, fun h64 => ?_⟩
  · obtain ⟨bs, hget, hlen, hall, hval⟩ :=
      get_is_field frame hfr (some BOOLEAN) off len hl (by rw [hbB]; exact h8) (by decide)
        (by rw [hbB]; exact hal) hfit
    rw [hbB] at hlen
    have hs : isSigned (some BOOLEAN) = false := by decide
    rw [hs] at hval
    simp only [expectedPattern, Bool.false_eq_true, if_false] at hval
    rcases bs with _ | ⟨x, _ | ⟨y, bs⟩⟩ <;> simp at hlen
    simp only [leVal, Nat.mul_zero, Nat.add_zero] at hval
    rw [readRaw, hget, Option.bind_some, (bool_codec).2.1 x, hval]
  · subst h32
    obtain ⟨bs, hget, hlen, hall, hval⟩ :=
      get_is_field frame hfr (some REAL32) off 32 hl (by decide) (by decide)
        (by intro _; exact hb32.symm) hfit
    rw [hb32] at hlen
    have hs : isSigned (some REAL32) = false := by decide
    rw [hs] at hval
    simp only [expectedPattern, Bool.false_eq_true, if_false] at hval
    have := ((real_bits (REAL32, 32) (by simp)).2 bs hall (by simpa using hlen)).1
    rw [readRaw, hget, Option.bind_some, this, hval]
  · subst h64
    obtain ⟨bs, hget, hlen, hall, hval⟩ :=
      get_is_field frame hfr (some REAL64) off 64 hl (by decide) (by decide)
        (by intro _; exact hb64.symm) hfit
    rw [hb64] at hlen
    have hs : isSigned (some REAL64) = false := by decide
    rw [hs] at hval
    simp only [expectedPattern, Bool.false_eq_true, if_false] at hval
    have := ((real_bits (REAL64, 64) (by simp)).2 bs hall (by simpa using hlen)).1
    rw [readRaw, hget, Option.bind_some, this, hval]

/-! ## writing -/

/-- `set_data` changes exactly the bits `[off, off+len)` to the low `len` bits of the data and
    leaves every other bit, and the frame length, unchanged — on both code paths. -/
theorem set_changes_exactly_field (frame data : Bytes) (hfr : AllBytes frame) (hd : AllBytes data)
    (off len : Nat) (hal : off % 8 = 0 ∧ len % 8 = 0 → 8 * data.length = len)
    (hfit : off + len ≤ 8 * frame.length) :
    ∃ new, setData frame off len data = some new ∧ new.length = frame.length ∧ AllBytes new ∧
      ∀ i, (leVal new).testBit i =
        if off ≤ i ∧ i < off + len then (leVal data).testBit (i - off) else (leVal frame).testBit i := by
  by_cases hp : off % 8 ≠ 0 ∨ len % 8 ≠ 0
  · simp only [setData, hp, if_true]
    have hlt := update_lt (leVal frame) (leVal data) off len (8 * frame.length) (leVal_lt' frame hfr) hfit
    rw [pow256]
    simp only [hlt, if_true]
    refine ⟨_, rfl, leBytes_length _ _, leBytes_allBytes _ _, ?_⟩
    intro i
    rw [leVal_leBytes, pow256, Nat.mod_eq_of_lt hlt, update_testBit]
  · have hp' : off % 8 = 0 ∧ len % 8 = 0 := by omega
    have hdl := hal hp'
    simp only [setData, hp, if_false]
    have hk : off / 8 + data.length ≤ frame.length := by omega
    refine ⟨_, rfl, ?_, ?_, ?_⟩
    · simp only [List.length_append, List.length_take, List.length_drop]; omega
    · exact allBytes_append (allBytes_append (allBytes_take hfr _) hd) (allBytes_drop hfr _)
    · intro i
      have htl : (frame.take (off / 8)).length = off / 8 := by
        rw [List.length_take]; omega
      rw [List.append_assoc, leVal_append_testBit _ _ (allBytes_take hfr _), htl,
        leVal_append_testBit _ _ hd, leVal_take_testBit _ hfr, leVal_drop_testBit _ hfr]
      by_cases h1 : i < 8 * (off / 8)
      · have : ¬ (off ≤ i ∧ i < off + len) := by omega
        rw [if_pos h1, if_neg this]
        simp [h1]
      · by_cases h2 : i - 8 * (off / 8) < 8 * data.length
        · have : off ≤ i ∧ i < off + len := by omega
          have e1 : i - 8 * (off / 8) = i - off := by omega
          rw [if_neg h1, if_pos h2, if_pos this, e1]
        · have : ¬ (off ≤ i ∧ i < off + len) := by omega
          have e1 : 8 * (off / 8 + data.length) + (i - 8 * (off / 8) - 8 * data.length) = i := by omega
          rw [if_neg h1, if_neg h2, if_neg this, e1]

/-- consequence in terms of fields: the written field holds the data's low bits -/
theorem field_after_set (new frame data : Bytes) (off len : Nat)
    (h : ∀ i, (leVal new).testBit i =
        if off ≤ i ∧ i < off + len then (leVal data).testBit (i - off) else (leVal frame).testBit i) :
    field (leVal new) off len = leVal data % 2 ^ len := by
  apply Nat.eq_of_testBit_eq
  intro j
  rw [field_testBit, h, Nat.testBit_mod_two_pow]
  by_cases hj : j < len
  · have : off ≤ off + j ∧ off + j < off + len := by omega
    simp [hj, this]
  · simp [hj]

/-- Typed write (`var.raw = v`) of an in-range integer: the frame changes exactly in the field,
    which then holds the low `len` bits of `v`'s two's complement pattern. -/
theorem write_sets_low_bits : ∀ e ∈ intTypes, ∀ (frame : Bytes) (off len : Nat) (v : Int),
    AllBytes frame → len ≤ e.2.1 → (off % 8 = 0 ∧ len % 8 = 0 → len = e.2.1) →
    off + len ≤ 8 * frame.length → inRange e.2.1 e.2.2 v = true →
    ∃ new, writeRaw frame (some e.1) off len (.int v) = some new ∧ new.length = frame.length ∧
      AllBytes new ∧ field (leVal new) off len = ofSigned len v ∧
      ∀ i, ¬ (off ≤ i ∧ i < off + len) → (leVal new).testBit i = (leVal frame).testBit i := by
  intro e he frame off len v hfr hW hal hfit hv
  obtain ⟨hw0, hpow⟩ := intTypes_wf e he
  obtain ⟨_, _, h8⟩ := intTypes_bitLen e he
  have henc := encode_is_twos_complement_le e he v hv
  have hdl : (leBytes (e.2.1 / 8) (ofSigned e.2.1 v)).length = e.2.1 / 8 := leBytes_length _ _
  obtain ⟨new, hset, hlen, hall, hbits⟩ :=
    set_changes_exactly_field frame (leBytes (e.2.1 / 8) (ofSigned e.2.1 v)) hfr
      (leBytes_allBytes _ _) off len (by intro h; rw [hdl, hal h]; omega) hfit
  refine ⟨new, ?_, hlen, hall, ?_, ?_⟩
  · rw [writeRaw, henc, Option.bind_some, hset]
  · rw [field_after_set new frame _ off len hbits, leVal_leBytes, hpow,
      Nat.mod_eq_of_lt (ofSigned_lt _ _), ofSigned_mod e.2.1 len hW]
  · intro i hi
    rw [hbits i, if_neg hi]

/-- A value written to a variable is read back unchanged (as the field-width two's complement
    reading of its low bits; the value itself when it fits the field). -/
theorem get_set : ∀ e ∈ intTypes, ∀ (frame : Bytes) (off len : Nat) (v : Int),
    AllBytes frame → 0 < len → len ≤ e.2.1 → (off % 8 = 0 ∧ len % 8 = 0 → len = e.2.1) →
    off + len ≤ 8 * frame.length → inRange e.2.1 e.2.2 v = true →
    ∃ new, writeRaw frame (some e.1) off len (.int v) = some new ∧
      readRaw new (some e.1) off len =
        some (.int (if e.2.2 then toSigned len (ofSigned len v) else (ofSigned len v : Int))) ∧
      (inRange len e.2.2 v = true → readRaw new (some e.1) off len = some (.int v)) := by
  intro e he frame off len v hfr hl hW hal hfit hv
  obtain ⟨new, hw, hlen, hall, hfield, _⟩ :=
    write_sets_low_bits e he frame off len v hfr hW hal hfit hv
  have hr := read_is_typed_field e he new off len hall hl hW hal (by rw [hlen]; exact hfit)
  rw [hfield] at hr
  refine ⟨new, hw, hr, ?_⟩
  intro hfv
  rw [hr]
  obtain ⟨t, w, sg⟩ := e
  dsimp only at *
  cases sg
  · simp only [Bool.false_eq_true, if_false]; rw [ofSigned_nonneg len v hfv]
  · simp only [if_true]; rw [toSigned_ofSigned len hl v hfv]

/-- A write never disturbs a neighbouring variable: any field disjoint from the written one reads
    the same before and after. -/
theorem neighbour_unchanged (frame data : Bytes) (hfr : AllBytes frame) (hd : AllBytes data)
    (off len : Nat) (hal : off % 8 = 0 ∧ len % 8 = 0 → 8 * data.length = len)
    (hfit : off + len ≤ 8 * frame.length) (off2 len2 : Nat)
    (hdis : off2 + len2 ≤ off ∨ off + len ≤ off2) :
    ∃ new, setData frame off len data = some new ∧
      field (leVal new) off2 len2 = field (leVal frame) off2 len2 := by
  obtain ⟨new, hset, _, _, hbits⟩ := set_changes_exactly_field frame data hfr hd off len hal hfit
  refine ⟨new, hset, ?_⟩
  apply Nat.eq_of_testBit_eq
  intro j
  rw [field_testBit, field_testBit, hbits]
  by_cases hj : j < len2
  · have : ¬ (off ≤ off2 + j ∧ off2 + j < off + len) := by omega
    simp [hj, this]
  · simp [hj]

/-! ## non-vacuity and the former defects as closed facts -/

-- BOOLEAN (1 bit) followed by UNSIGNED16 at bit offset 1: frame 00 00 01 holds 0x8000
example : readRaw [0x00, 0x00, 0x01] (some UNSIGNED16) 1 16 = some (.int 0x8000) := by decide
-- INTEGER8 mapped as 4 bits: 0b1000 is -8
example : readRaw [0x08] (some INTEGER8) 0 4 = some (.int (-8)) := by decide
-- writing -1 into the low nibble leaves the high nibble alone
example : writeRaw [0x50] (some INTEGER8) 0 4 (.int (-1)) = some [0x5F] := by decide
example : (INTEGER8, 8, true) ∈ intTypes ∧ AllBytes [0x50] ∧ inRange 8 true (-1) = true := by decide

end Canopen.C05
