/-
C07 — the library client against the library's *own* server under disturbance.

`CanopenProofs/C07.lean` speaks about a strict specification server behind the disturbing layer.
Here the server is the model of `canopen.sdo.server.SdoServer` on a `LocalNode` (the pair that the
property's last clause names: "the next transfer on the same client and the same server").

* `lib_server_wf_any_requests`: whatever frames reach the server (the requests of a disturbed
  transfer, the client's abort and closing frames, in any order) its state stays well-formed.
* `download_never_silently_wrong_lib`: any peer that hands the requests on to the library server
  and does ANYTHING to the responses: a download that returns normally has stored exactly the
  payload in the local node (`set_data` ran exactly as for an undisturbed download).
* `distPeer_lib_forwards`: the disturbing layer of the correspondence run is such a peer.
* `next_transfer_clean_lib`: from any well-formed server state (mid-upload, mid-download, stale
  buffer) and any stale content of the client's queue, the next download stores exactly its
  payload and the following upload returns exactly it.
-/
import CanopenProofs.C07
import CanopenProofs.C03

namespace Canopen.C07.Lib
open Canopen Canopen.Sdo Canopen.C07 Canopen.C03 Canopen.C02

/-- a peer that forwards every request to the library server and may answer anything at all -/
def ForwardsLib {σ} (P : Peer σ) (proj : σ → Srv × Node) : Prop :=
  ∀ (p : σ) (req : Bytes), proj (P p req).1 = (libPeer (proj p) req).1

theorem feed_forwards_lib {σ} (P : Peer σ) (proj : σ → Srv × Node) (hf : ForwardsLib P proj)
    (frames : List Bytes) :
    ∀ p : σ, proj (feedPeer P p frames) = feedPeer libPeer (proj p) frames := by
  induction frames with
  | nil => intro p; rfl
  | cons f fs ih =>
    intro p
    simp only [feedPeer, List.foldl_cons] at ih ⊢
    rw [ih, hf]

theorem libPeer_forwards : ForwardsLib libPeer id := fun _ _ => rfl

/-- the single-disturbance wrapper of the correspondence run forwards to the library server -/
theorem distPeer_lib_forwards (at_ : Nat) (k : Kind) :
    ForwardsLib (distPeer libPeer at_ k) (fun p => p.1) := by
  intro p req
  obtain ⟨⟨s, n⟩, d⟩ := p
  simp only [distPeer]
  split <;> (try cases k) <;> rfl

/-- **Whatever reaches the library server, its state stays well-formed** — the frames of a
    disturbed transfer, the client's own abort and closing frames, stale requests: any list. -/
theorem lib_server_wf_any_requests (frames : List Bytes) :
    ∀ (p : Srv × Node), SrvWF p.1 → SrvWF (feedPeer libPeer p frames).1 := by
  induction frames with
  | nil => intro p h; exact h
  | cons f fs ih =>
    intro p h
    simp only [feedPeer, List.foldl_cons] at ih ⊢
    exact ih _ (step_wf p.1 p.2 f h)

/-- … and so under the disturbing layer -/
theorem lib_server_wf_under_disturbance (at_ : Nat) (k : Kind) (frames : List Bytes)
    (p : (Srv × Node) × DState) (h : SrvWF p.1.1) :
    SrvWF (feedPeer (distPeer libPeer at_ k) p frames).1.1 := by
  have := feed_forwards_lib _ _ (distPeer_lib_forwards at_ k) frames p
  rw [this]
  exact lib_server_wf_any_requests frames p.1 h

/-- **A download to the library's own server never reports success with different data.**  Let
    the peer forward requests to the `LocalNode`'s SDO server and do *anything* to the responses.
    If the local node would accept the payload (`set_data` succeeds: the entry exists, is writable,
    numeric length right) and the `with`-block download returns normally, then the local node is
    exactly the node after `set_data(idx, sub, payload)`: payload stored, callbacks told once. -/
theorem download_never_silently_wrong_lib {σ} (P : Peer σ) (proj : σ → Srv × Node)
    (hfw : ForwardsLib P proj) (c c' : Chan σ) (idx sub : Nat) (payload : Bytes) (force : Bool)
    (offers : List Nat) (n' : Node) (hwf : SrvWF (proj c.peer).1) (hidx : idx < 65536) (hsub : sub < 256)
    (hset : setData (proj c.peer).2 (some idx) (some sub) payload true = .ok n')
    (h : downloadWith P c idx sub payload true force offers = (c', .ok ())) :
    (proj c'.peer).2 = n' ∧ SrvWF (proj c'.peer).1 := by
  have hadv := downloadWith_ok P c c' idx sub payload true force offers h
  let c0 : Chan (Srv × Node) := { peer := proj c.peer, queue := [], sent := [] }
  obtain ⟨cs, hdl, hn, hwf'⟩ := download_lib c0 idx sub payload force offers n' hwf hidx hsub hset
  have hadv0 := downloadWith_ok libPeer c0 cs idx sub payload true force offers
    (download_ok libPeer c0 cs idx sub payload true force offers hdl)
  have e1 := feed_forwards_lib P proj hfw (downloadFrames idx sub payload true force offers) c.peer
  rw [← hadv.1] at e1
  have : proj c'.peer = cs.peer := by rw [e1]; exact hadv0.1.symm
  rw [this]
  exact ⟨hn, hwf'⟩

/-- **The next transfer on the same client and the same server completes correctly**, whatever
    the disturbed one left behind: the server in any well-formed state (mid-upload with a stale
    buffer, mid-download, toggled), any stale frames in the client's queue.  Byte-string entries
    (OCTET_STRING, DOMAIN, unknown types) of any length; typed entries: `C03.typed_roundtrip`,
    which assumes no more about the state either. -/
theorem next_transfer_clean_lib (c : Chan (Srv × Node)) (idx sub t : Nat) (bs : Bytes)
    (hwf : SrvWF c.peer.1) (hidx : idx < 65536) (hsub : sub < 256)
    (hentry : RWEntry c.peer.2 idx sub (some t)) (hrow : Canopen.Codec.findRow t = none)
    (hvis : t ≠ Canopen.Gen.Datatypes.VISIBLE_STRING) (huni : t ≠ Canopen.Gen.Datatypes.UNICODE_STRING)
    (hlen : bs.length < 2 ^ 32) :
    ∃ c1, remoteSet c idx sub (some t) (.bytes bs) = (c1, .ok ()) ∧
      lookup (idx, sub) c1.peer.2.store = some bs ∧
      ∃ c2, remoteGet c1 idx sub (some t) (bs.length + 2) = (c2, .ok (.bytes bs)) ∧ c2.peer.2 = c1.peer.2 := by
  obtain ⟨c1, h1, h2, h3, _⟩ := bytes_roundtrip c idx sub t bs hwf hidx hsub hentry hrow hvis huni hlen
  exact ⟨c1, h1, h2, h3⟩

/-! ## non-vacuity: a server left in the middle of a segmented upload is well-formed, and the
    premises of the theorems above hold for it -/

example : SrvWF (feedPeer libPeer (srvInit, C03.exNode) [[0x40, 0x00, 0x20, 0, 0, 0, 0, 0]]).1 :=
  lib_server_wf_any_requests _ _ srvInit_wf

end Canopen.C07.Lib
