/-
C07 — the library client against the library's *own* server under disturbance.

`CanopenProofs/C07.lean` speaks about a strict specification server behind the disturbing layer.
Here the server is the model of `canopen.sdo.server.SdoServer` on a `LocalNode` (the pair that the
property's last clause names: "the next transfer on the same client and the same server").

* `lib_server_wf_any_requests`: whatever frames reach the server (the requests of a disturbed
  transfer, the client's abort and closing frames, in any order) its state stays well-formed.
* `download_never_silently_wrong_lib`: any peer that hands the requests on to the library server
  and does ANYTHING to the responses: a download that returns normally has stored exactly the
  payload in the local node (`set_data` ran exactly as for an undisturbed download).
* `distPeer_lib_forwards`: the disturbing layer of the correspondence run is such a peer.
* `upload_never_silently_wrong_lib`: any peer honest towards the library server (whatever it
  delivers first after an upload request is rejected by the client or is the server's true
  response): an upload that returns normally returns exactly `get_data`'s value;
  `schedPeer_lib_honest`: every schedule of losses, duplicates and abort frames is such a peer.
* `next_transfer_clean_lib`: from any well-formed server state (mid-upload, mid-download, stale
  buffer) and any stale content of the client's queue, the next download stores exactly its
  payload and the following upload returns exactly it.
-/
import CanopenProofs.C07
import CanopenProofs.C03

namespace Canopen.C07.Lib
open Canopen Canopen.Sdo Canopen.C07 Canopen.C03 Canopen.C02

/-- a peer that forwards every request to the library server and may answer anything at all -/
def ForwardsLib {σ} (P : Peer σ) (proj : σ → Srv × Node) : Prop :=
  ∀ (p : σ) (req : Bytes), proj (P p req).1 = (libPeer (proj p) req).1

theorem feed_forwards_lib {σ} (P : Peer σ) (proj : σ → Srv × Node) (hf : ForwardsLib P proj)
    (frames : List Bytes) :
    ∀ p : σ, proj (feedPeer P p frames) = feedPeer libPeer (proj p) frames := by
  induction frames with
  | nil => intro p; rfl
  | cons f fs ih =>
    intro p
    simp only [feedPeer, List.foldl_cons] at ih ⊢
    rw [ih, hf]

theorem libPeer_forwards : ForwardsLib libPeer id := fun _ _ => rfl

/-- the single-disturbance wrapper of the correspondence run forwards to the library server -/
theorem distPeer_lib_forwards (at_ : Nat) (k : Kind) :
    ForwardsLib (distPeer libPeer at_ k) (fun p => p.1) := by
  intro p req
  obtain ⟨⟨s, n⟩, d⟩ := p
  simp only [distPeer]
  split <;> (try cases k) <;> rfl

/-- **Whatever reaches the library server, its state stays well-formed** — the frames of a
    disturbed transfer, the client's own abort and closing frames, stale requests: any list. -/
theorem lib_server_wf_any_requests (frames : List Bytes) :
    ∀ (p : Srv × Node), SrvWF p.1 → SrvWF (feedPeer libPeer p frames).1 := by
  induction frames with
  | nil => intro p h; exact h
  | cons f fs ih =>
    intro p h
    simp only [feedPeer, List.foldl_cons] at ih ⊢
    exact ih _ (step_wf p.1 p.2 f h)

/-- … and so under the disturbing layer -/
theorem lib_server_wf_under_disturbance (at_ : Nat) (k : Kind) (frames : List Bytes)
    (p : (Srv × Node) × DState) (h : SrvWF p.1.1) :
    SrvWF (feedPeer (distPeer libPeer at_ k) p frames).1.1 := by
  have := feed_forwards_lib _ _ (distPeer_lib_forwards at_ k) frames p
  rw [this]
  exact lib_server_wf_any_requests frames p.1 h

/-- **A download to the library's own server never reports success with different data.**  Let
    the peer forward requests to the `LocalNode`'s SDO server and do *anything* to the responses.
    If the local node would accept the payload (`set_data` succeeds: the entry exists, is writable,
    numeric length right) and the `with`-block download returns normally, then the local node is
    exactly the node after `set_data(idx, sub, payload)`: payload stored, callbacks told once. -/
theorem download_never_silently_wrong_lib {σ} (P : Peer σ) (proj : σ → Srv × Node)
    (hfw : ForwardsLib P proj) (c c' : Chan σ) (idx sub : Nat) (payload : Bytes) (force : Bool)
    (offers : List Nat) (n' : Node) (hwf : SrvWF (proj c.peer).1) (hidx : idx < 65536) (hsub : sub < 256)
    (hset : setData (proj c.peer).2 (some idx) (some sub) payload true = .ok n')
    (h : downloadWith P c idx sub payload true force offers = (c', .ok ())) :
    (proj c'.peer).2 = n' ∧ SrvWF (proj c'.peer).1 := by
  have hadv := downloadWith_ok P c c' idx sub payload true force offers h
  let c0 : Chan (Srv × Node) := { peer := proj c.peer, queue := [], sent := [] }
  obtain ⟨cs, hdl, hn, hwf'⟩ := download_lib c0 idx sub payload force offers n' hwf hidx hsub hset
  have hadv0 := downloadWith_ok libPeer c0 cs idx sub payload true force offers
    (download_ok libPeer c0 cs idx sub payload true force offers hdl)
  have e1 := feed_forwards_lib P proj hfw (downloadFrames idx sub payload true force offers) c.peer
  rw [← hadv.1] at e1
  have : proj c'.peer = cs.peer := by rw [e1]; exact hadv0.1.symm
  rw [this]
  exact ⟨hn, hwf'⟩

/-- **The next transfer on the same client and the same server completes correctly**, whatever
    the disturbed one left behind: the server in any well-formed state (mid-upload with a stale
    buffer, mid-download, toggled), any stale frames in the client's queue.  Byte-string entries
    (OCTET_STRING, DOMAIN, unknown types) of any length; typed entries: `C03.typed_roundtrip`,
    which assumes no more about the state either. -/
theorem next_transfer_clean_lib (c : Chan (Srv × Node)) (idx sub t : Nat) (bs : Bytes)
    (hwf : SrvWF c.peer.1) (hidx : idx < 65536) (hsub : sub < 256)
    (hentry : RWEntry c.peer.2 idx sub (some t)) (hrow : Canopen.Codec.findRow t = none)
    (hvis : t ≠ Canopen.Gen.Datatypes.VISIBLE_STRING) (huni : t ≠ Canopen.Gen.Datatypes.UNICODE_STRING)
    (hlen : bs.length < 2 ^ 32) :
    ∃ c1, remoteSet c idx sub (some t) (.bytes bs) = (c1, .ok ()) ∧
      lookup (idx, sub) c1.peer.2.store = some bs ∧
      ∃ c2, remoteGet c1 idx sub (some t) (bs.length + 2) = (c2, .ok (.bytes bs)) ∧ c2.peer.2 = c1.peer.2 := by
  obtain ⟨c1, h1, h2, h3, _⟩ := bytes_roundtrip c idx sub t bs hwf hidx hsub hentry hrow hvis huni hlen
  exact ⟨c1, h1, h2, h3⟩

/-! ## non-vacuity: a server left in the middle of a segmented upload is well-formed, and the
    premises of the theorems above hold for it -/

example : SrvWF (feedPeer libPeer (srvInit, C03.exNode) [[0x40, 0x00, 0x20, 0, 0, 0, 0, 0]]).1 :=
  lib_server_wf_any_requests _ _ srvInit_wf

end Canopen.C07.Lib

namespace Canopen.C07.Lib
open Canopen Canopen.Sdo Canopen.C07 Canopen.C03 Canopen.C02 Canopen.Gen.SdoConst

/-! ## uploads from the library's own server under disturbance -/

/-- The peer forwards requests to the library server, and whatever it puts *first* into the
    client's queue after an upload request is either something the client rejects (wrong command
    specifier, toggle bit or multiplexer, an abort frame, malformed) or the server's true
    response — the analogue of `C07.Honest` with the `LocalNode`'s server in place of the
    specification server. -/
structure HonestLib {σ} (P : Peer σ) (proj : σ → Srv × Node) : Prop where
  fw : ForwardsLib P proj
  init : ∀ (p : σ) (idx sub : Nat) (r' : Bytes) (rest : List Bytes) (s : RS), SrvWF (proj p).1 →
    (P p (initReq idx sub)).2 = r' :: rest → rsInitDecode idx sub (decodeResponse r') = .ok s →
    (libPeer (proj p) (initReq idx sub)).2 = [r']
  seg : ∀ (p : σ) (st : RS) (r' : Bytes) (rest : List Bytes) (x : RS × Bytes), SrvWF (proj p).1 →
    (P p (segReq st.toggle)).2 = r' :: rest → rsReadDecode st (decodeResponse r') = .ok x →
    (libPeer (proj p) (segReq st.toggle)).2 = [r']

theorem rr_one {β} (B : Peer β) (c0 : Chan β) (req r : Bytes) (h : (B c0.peer req).2 = [r]) :
    requestResponse B c0 req =
      ({ peer := (B c0.peer req).1, queue := [], sent := c0.sent ++ [req] }, decodeResponse r) := by
  rcases rr_cases B c0 req with ⟨h0, _⟩ | ⟨r', rest, hq, hrr⟩
  · rw [h] at h0; simp at h0
  · rw [h] at hq
    simp only [List.cons.injEq] at hq
    obtain ⟨rfl, rfl⟩ := hq
    exact hrr

theorem libPeer_wf (p : Srv × Node) (req : Bytes) (h : SrvWF p.1) : SrvWF (libPeer p req).1.1 :=
  step_wf p.1 p.2 req h

theorem rsInit_sim_lib {σ} (P : Peer σ) (proj : σ → Srv × Node) (hh : HonestLib P proj) (c c' : Chan σ)
    (c0 : Chan (Srv × Node)) (hc0 : c0.peer = proj c.peer) (hwf : SrvWF c0.peer.1) (idx sub : Nat) (s : RS)
    (h : rsInit P c idx sub = (c', .ok s)) :
    ∃ c0', rsInit libPeer c0 idx sub = (c0', .ok s) ∧ c0'.peer = proj c'.peer ∧ SrvWF c0'.peer.1 := by
  unfold rsInit at h ⊢
  dsimp only at h ⊢
  rcases rr_cases P c (REQUEST_UPLOAD :: (muxB idx sub ++ [0, 0, 0, 0])) with ⟨_, he⟩ | ⟨r', rest, hq, hrr⟩
  · simp only [Prod.mk.injEq] at h
    rw [he] at h
    simp [rsInitDecode] at h
  · rw [hrr] at h
    simp only [Prod.mk.injEq] at h
    obtain ⟨hc', hdec⟩ := h
    have htrue := hh.init c.peer idx sub r' rest s (hc0 ▸ hwf) hq hdec
    rw [← hc0] at htrue
    have := rr_one libPeer c0 (initReq idx sub) r' htrue
    simp only [initReq] at this
    rw [this]
    refine ⟨_, by rw [hdec], ?_, ?_⟩
    · simp only [← hc']
      rw [hc0]
      exact (hh.fw c.peer _).symm
    · exact libPeer_wf c0.peer _ hwf

theorem rsRead_sim_lib {σ} (P : Peer σ) (proj : σ → Srv × Node) (hh : HonestLib P proj) (c c' : Chan σ)
    (c0 : Chan (Srv × Node)) (hc0 : c0.peer = proj c.peer) (hwf : SrvWF c0.peer.1) (st : RS) (x : RS × Bytes)
    (h : rsRead P c st = (c', .ok x)) :
    ∃ c0', rsRead libPeer c0 st = (c0', .ok x) ∧ c0'.peer = proj c'.peer ∧ SrvWF c0'.peer.1 := by
  unfold rsRead at h ⊢
  by_cases hd : st.done = true
  · simp only [hd, if_true, Prod.mk.injEq, Except.ok.injEq] at h ⊢
    obtain ⟨rfl, rfl⟩ := h
    exact ⟨c0, ⟨rfl, rfl⟩, hc0, hwf⟩
  · simp only [hd, Bool.false_eq_true, if_false] at h ⊢
    cases he : st.expData with
    | some d =>
      simp only [he, Prod.mk.injEq, Except.ok.injEq] at h ⊢
      obtain ⟨rfl, rfl⟩ := h
      exact ⟨c0, ⟨rfl, rfl⟩, hc0, hwf⟩
    | none =>
      simp only [he] at h ⊢
      rcases rr_cases P c ((REQUEST_SEGMENT_UPLOAD ||| st.toggle) :: List.replicate 7 0) with
        ⟨_, hee⟩ | ⟨r', rest, hq, hrr⟩
      · simp only [Prod.mk.injEq] at h
        rw [hee] at h
        simp [rsReadDecode] at h
      · rw [hrr] at h
        simp only [Prod.mk.injEq] at h
        obtain ⟨hc', hdec⟩ := h
        have htrue := hh.seg c.peer st r' rest x (hc0 ▸ hwf) hq hdec
        rw [← hc0] at htrue
        have := rr_one libPeer c0 (segReq st.toggle) r' htrue
        simp only [segReq] at this
        rw [this]
        refine ⟨_, by rw [hdec], ?_, ?_⟩
        · simp only [← hc']
          rw [hc0]
          exact (hh.fw c.peer _).symm
        · exact libPeer_wf c0.peer _ hwf

theorem rsReadAll_sim_lib {σ} (P : Peer σ) (proj : σ → Srv × Node) (hh : HonestLib P proj) :
    ∀ (fuel : Nat) (c c' : Chan σ) (c0 : Chan (Srv × Node)) (st : RS) (acc : Bytes) (y : RS × Bytes),
      c0.peer = proj c.peer → SrvWF c0.peer.1 → rsReadAll P fuel c st acc = (c', .ok y) →
      ∃ c0', rsReadAll libPeer fuel c0 st acc = (c0', .ok y) ∧ c0'.peer = proj c'.peer := by
  intro fuel
  induction fuel with
  | zero =>
    intro c c' c0 st acc y hc0 _ h
    simp only [rsReadAll, Prod.mk.injEq, Except.ok.injEq] at h ⊢
    obtain ⟨rfl, rfl⟩ := h
    exact ⟨c0, ⟨rfl, rfl⟩, hc0⟩
  | succ fuel ih =>
    intro c c' c0 st acc y hc0 hwf h
    unfold rsReadAll at h ⊢
    cases hr : rsRead P c st with
    | mk c1 r1 =>
      rw [hr] at h
      cases r1 with
      | error e => simp at h
      | ok x =>
        obtain ⟨c01, hr0, hc01, hwf1⟩ := rsRead_sim_lib P proj hh c c1 c0 hc0 hwf st x hr
        rw [hr0]
        simp only at h ⊢
        by_cases hem : x.2.isEmpty = true
        · simp only [hem, if_true, Prod.mk.injEq, Except.ok.injEq] at h ⊢
          obtain ⟨rfl, rfl⟩ := h
          exact ⟨c01, ⟨rfl, rfl⟩, hc01⟩
        · simp only [hem, Bool.false_eq_true, if_false] at h ⊢
          exact ih c1 c' c01 x.1 (acc ++ x.2) y hc01 hwf1 h

/-- **An upload from the library's own server never reports success with different data.**  Let
    the peer be honest towards the `LocalNode`'s server (lose responses, inject abort frames,
    deliver responses with the wrong toggle bit, command specifier or multiplexer, duplicate them,
    prepend stale frames that differ in any of these — any number of times).  If `SdoClient.upload`
    returns normally it returns exactly the value the node hands out (`get_data`), cut to the
    dictionary size for fixed-size numeric types. -/
theorem upload_never_silently_wrong_lib {σ} (P : Peer σ) (proj : σ → Srv × Node) (hh : HonestLib P proj)
    (c c' : Chan σ) (idx sub : Nat) (v d : Bytes) (odType : Option (Option Nat)) (fuel : Nat)
    (hwf : SrvWF (proj c.peer).1) (hidx : idx < 65536) (hsub : sub < 256)
    (hv : getData (proj c.peer).2 idx sub true = .ok v) (hlen : v.length < 2 ^ 32) (hfuel : v.length + 2 ≤ fuel)
    (h : upload P c idx sub odType fuel = (c', .ok d)) :
    d = truncate odType (some v.length) v := by
  let c0 : Chan (Srv × Node) := { peer := proj c.peer, queue := [], sent := [] }
  have hsim : ∃ c0', upload libPeer c0 idx sub odType fuel = (c0', .ok d) := by
    unfold upload at h ⊢
    cases hi : rsInit P c idx sub with
    | mk c1 r1 =>
      rw [hi] at h
      cases r1 with
      | error e => simp at h
      | ok s =>
        obtain ⟨c01, hi0, hc01, hwf1⟩ := rsInit_sim_lib P proj hh c c1 c0 rfl hwf idx sub s hi
        rw [hi0]
        simp only at h ⊢
        cases he : s.expData with
        | some dd =>
          simp only [he, Prod.mk.injEq, Except.ok.injEq] at h ⊢
          exact ⟨c01, rfl, h.2⟩
        | none =>
          simp only [he] at h ⊢
          cases hra : rsReadAll P fuel c1 s [] with
          | mk c2 r2 =>
            rw [hra] at h
            cases r2 with
            | error e => simp at h
            | ok y =>
              obtain ⟨c02, hra0, _⟩ := rsReadAll_sim_lib P proj hh fuel c1 c2 c01 s [] y hc01 hwf1 hra
              rw [hra0]
              simp only [Prod.mk.injEq, Except.ok.injEq] at h ⊢
              exact ⟨c02, rfl, h.2⟩
  obtain ⟨c0', h0⟩ := hsim
  obtain ⟨c0'', hup, _⟩ := upload_lib c0 idx sub v odType fuel hidx hsub hv hlen hfuel
  rw [hup] at h0
  simp only [Prod.mk.injEq, Except.ok.injEq] at h0
  exact h0.2.symm

/-- honest peers exist: any schedule of losses, duplicates and abort frames around the library
    server (one decision per request, any number of disturbances) -/
theorem schedPeer_lib_honest (sched : Nat → SKind) :
    HonestLib (schedPeer libPeer sched) (fun p => p.1) := by
  have one : ∀ (p : Srv × Node) (command : Nat) (rest : Bytes), SrvWF p.1 → command &&& 0xE0 ≠ 0x80 →
      ∃ x, (libPeer p (command :: rest)).2 = [x] := by
    intro p command rest hwf hc
    obtain ⟨_, _, r, _, hs, _⟩ := one_response p.1 p.2 command rest hwf hc
    exact ⟨r, by simpa [libPeer] using hs⟩
  have key : ∀ (p : (Srv × Node) × Nat) (command : Nat) (tail r' : Bytes) (rest : List Bytes),
      SrvWF p.1.1 → command &&& 0xE0 ≠ 0x80 →
      ((schedPeer libPeer sched) p (command :: tail)).2 = r' :: rest →
      (∃ e, decodeResponse r' = .error e) ∨ (libPeer p.1 (command :: tail)).2 = [r'] := by
    intro p command tail r' rest hwf hc h
    obtain ⟨q, i⟩ := p
    obtain ⟨x, hx⟩ := one q command tail hwf hc
    simp only [schedPeer] at h
    cases hk : sched i <;> simp [hk, hx] at h
    · right; obtain ⟨rfl, _⟩ := h; exact hx
    · right; obtain ⟨rfl, _⟩ := h; exact hx
    · left
      obtain ⟨rfl, _⟩ := h
      simp [decodeResponse, RESPONSE_ABORTED]
  refine ⟨?_, ?_, ?_⟩
  · intro p req
    obtain ⟨q, i⟩ := p
    simp [schedPeer]
  · intro p idx sub r' rest s hwf hq hdec
    rcases key p REQUEST_UPLOAD _ r' rest hwf (by decide) hq with ⟨e, he⟩ | h
    · rw [he] at hdec; simp [rsInitDecode] at hdec
    · exact h
  · intro p st r' rest x hwf hq hdec
    by_cases hcc : (REQUEST_SEGMENT_UPLOAD ||| st.toggle) &&& 0xE0 = 0x80
    · -- a toggle value that would turn the request into an abort frame (the client's toggle is 0
      -- or 0x10, so this never happens): the server answers nothing, so whatever was delivered
      -- is the schedule's own abort frame, which the client does not accept
      exfalso
      obtain ⟨q, i⟩ := p
      simp only [segReq] at hq
      have hnone' : ∀ cmd : Nat, cmd &&& 0xE0 = 0x80 → (libPeer q (cmd :: List.replicate 7 0)).2 = [] := by
        intro cmd hcmd
        simp only [libPeer, srvStep, dispatch, hcmd, REQUEST_UPLOAD, REQUEST_SEGMENT_UPLOAD, REQUEST_DOWNLOAD,
          REQUEST_SEGMENT_DOWNLOAD, REQUEST_BLOCK_UPLOAD, REQUEST_BLOCK_DOWNLOAD, REQUEST_ABORTED]
        simp [requestAborted, finish]
      have hnone := hnone' _ hcc
      simp only [schedPeer] at hq
      rw [hnone] at hq
      cases hk : sched i <;> simp [hk] at hq
      obtain ⟨rfl, _⟩ := hq
      simp [decodeResponse, RESPONSE_ABORTED, rsReadDecode] at hdec
    · rcases key p _ _ r' rest hwf hcc hq with ⟨e, he⟩ | h
      · rw [he] at hdec; simp [rsReadDecode] at hdec
      · exact h

end Canopen.C07.Lib
