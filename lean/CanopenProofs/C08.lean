/-
C08 — Importing an EDS/DCF yields exactly the described object dictionary.

Property theorems about `CanopenModel/Eds/Import.lean` (the model of `import_eds`,
`build_variable`, `_convert_variable`, `_signed_int_from_hex`, `_calc_bit_length`, the OD containers)
composed with the independent CiA 306 writer `CanopenModel/Spec/EdsWriter.lean`.  Everything is
stated over the **parsed document**; `configparser`'s text layer is differential-only.  The
generated tables (`Generated/EdsTables.lean`, `Generated/Datatypes.lean`) are used as they are:
`signed_limit` stops compiling if `_calc_bit_length` loses a width (F7), `tables_as_modelled` if
an object-type constant, the rate list or the attribute tuple of `ODArray.__getitem__` changes.
-/
import CanopenModel.Eds.Import
import CanopenModel.Spec.EdsWriter
import CanopenProofs.Lemmas.EdsHeader
import CanopenProofs.Lemmas.EdsLookup

namespace Canopen.C08
open Canopen.Eds Canopen.Spec Canopen.Spec.EdsWriter Canopen.Gen.Datatypes Canopen.Gen.EdsTables

/-! ## T parseInt_printInt -/

/-- Python's `int(text, 0)` reads back every integer in every spelling the writer may choose
    (decimal / hex / octal / binary, upper or lower case digits and prefix, any zero padding,
    explicit `+`), also after `_convert_variable`'s `replace(" ", "").upper()`. -/
theorem parseInt_printInt (sp : NumSp) (i : Int) :
    pyInt0 (spellInt sp i) = some i ∧ ∀ nid, convertInt nid (spellInt sp i) = some i :=
  ⟨pyInt0_spellInt sp i, fun nid => convertInt_spellInt nid sp i⟩

example : spellInt { base := .hex, upDigits := true, pad := 4 } (-0x1f) = c!"-0x001F" := by decide
example : spellInt { base := .bin, upPrefix := true, plus := true } 5 = c!"+0B101" := by decide
example : pyInt0 c!"08" = none ∧ pyInt0 c!"0x" = none ∧ pyInt0 c!"1__0" = none := by decide

/-! ## T signed_limit -/

/-- For every signed integer type of CiA 301 (8, 16, 24, 32, 40, 48, 56, 64 bit) and every value of
    its range, the `LowLimit`/`HighLimit` blocks of `build_variable` read the two's-complement
    pattern `v mod 2^w` (in any spelling) as `v`, and a signed spelling of `v` as `v`.
    Uses the *generated* `SIGNED_TYPES` and `CALC_BIT_LENGTH` (F7: fails to compile when
    `_calc_bit_length` lacks 24/40/48/56). -/
theorem signed_limit (t w : Nat) (ht : signedWidth t = some w) (v : Int)
    (hlo : -((2 ^ (w - 1) : Nat) : Int) ≤ v) (hhi : v < ((2 ^ (w - 1) : Nat) : Int)) (sp : NumSp) :
    limitOf (t : Int) (some (spellNat sp (v % ((2 ^ w : Nat) : Int)).toNat)) = some v ∧
    limitOf (t : Int) (some (spellInt sp v)) = some v := by
  have ht27 : t ≤ 0x1B := by
    unfold signedWidth cia301Lookup at ht
    by_cases h : t ≤ 0x1B
    · exact h
    · exfalso
      have : cia301Types.find? (fun x => decide (x.1 = t)) = none := by
        simp only [cia301Types, List.find?_cons, List.find?_nil]
        repeat (rw [show decide (_ = t) = false from by simp; omega])
      simp [this] at ht
  have h1 := limitOf_text t ht27 { v := v, sp := sp, twos := true } (by simp only [SLim.okFor, ht]; exact ⟨hlo, hhi⟩)
  have h2 := limitOf_text t ht27 { v := v, sp := sp, twos := false } (by simp only [SLim.okFor, ht]; exact ⟨hlo, hhi⟩)
  simp only [SLim.text, ht] at h1 h2
  exact ⟨by simpa using h1, by simpa using h2⟩

/-- the signed widths are exactly the eight of CiA 301 -/
theorem signed_widths :
    (List.range 28).filterMap (fun t => (signedWidth t).map fun w => (t, w)) =
      [(2, 8), (3, 16), (4, 32), (16, 24), (18, 40), (19, 48), (20, 56), (21, 64)] := by decide

example : limitOf 16 (some c!"0x800000") = some (-8388608) := by decide
example : limitOf 20 (some c!"0xFFFFFFFFFFFFFF") = some (-1) := by decide
example : limitOf 16 (some c!"0x7FFFFF") = some 8388607 := by decide

/-! ## T nodeid_arith -/

/-- `$NODEID+x` and `x+$NODEID` (with or without blanks, any spelling of `x`) are `x + node id`
    under a node id, no value without one, and mark the variable as relative. -/
theorem nodeid_arith (t : Nat) (ht : isIntLike t = true) (b : Int) (sp : NumSp) (nodeFirst blanks : Bool) :
    (∀ nid : Int, convertVariable (some nid) (t : Int) (SVal.text (.rel b sp nodeFirst blanks))
        = some (.int (b + nid))) ∧
    convertVariable none (t : Int) (SVal.text (.rel b sp nodeFirst blanks)) = none ∧
    containsNodeid (SVal.text (.rel b sp nodeFirst blanks)) = true := by
  refine ⟨fun nid => ?_, ?_, ?_⟩
  · simpa [SVal.denote] using convertVariable_text (some nid) t (.rel b sp nodeFirst blanks) ht
  · simpa [SVal.denote] using convertVariable_text none t (.rel b sp nodeFirst blanks) ht
  · cases nodeFirst
    · simp only [SVal.text, Bool.false_eq_true, if_false]
      have := containsNodeid_mid (spellInt sp b ++ plusText blanks) []
      simpa using this
    · simp only [SVal.text, if_true, List.append_assoc]
      exact containsNodeid_prefix _

example : SVal.text (.rel 0x600 { base := .hex } true false) = c!"$NODEID+0x600" := by decide
example : SVal.text (.rel 0x180 { base := .hex } false true) = c!"0x180 + $NODEID" := by decide
example : convertVariable (some 5) 7 c!"0x180 + $NODEID" = some (.int 0x185) := by decide

/-- a spelled number that does not mention `$NODEID` is not relative -/
theorem plain_not_relative (i : Int) (sp : NumSp) : containsNodeid (SVal.text (.num i sp)) = false :=
  containsNodeid_false _ (spellInt_noDollar sp i)

/-! ## T classification_total_disjoint -/

theorem isDummy_cases (n : Str) (h : isDummySection n = true) :
    n = c!"DummyUsage" ∨ n = c!"Dummyusage" ∨ n = c!"dummyUsage" ∨ n = c!"dummyusage" := by
  unfold isDummySection at h
  split at h
  · simp only [Bool.and_eq_true, Bool.or_eq_true, decide_eq_true_eq] at h
    obtain ⟨⟨⟨⟨⟨⟨⟨⟨⟨hd, rfl⟩, rfl⟩, rfl⟩, rfl⟩, hu⟩, rfl⟩, rfl⟩, rfl⟩, rfl⟩ := h
    rcases hd with rfl | rfl <;> rcases hu with rfl | rfl <;> simp
  · exact absurd h (by simp)

/-- Every section name matches at most one of the four regular expressions of `import_eds`
    (so the fall-through between its `if` blocks never fires twice), for **all** names. -/
theorem classification_disjoint (n : Str) :
    (isDummySection n = true → matchIndex n = none ∧ matchSub n = none ∧ matchName n = none) ∧
    (∀ i, matchIndex n = some i → matchSub n = none ∧ matchName n = none) ∧
    (∀ p, matchSub n = some p → matchName n = none) := by
  refine ⟨?_, ?_, ?_⟩
  · intro h
    rcases isDummy_cases n h with rfl | rfl | rfl | rfl <;> decide
  · intro i h
    unfold matchIndex at h
    split at h
    · rename_i hc
      have hl := hc.1
      match n, hl with
      | [a, b, c, d], _ => simp [matchSub, matchName, List.isPrefixOf]
    · exact absurd h (by simp)
  · intro p h
    unfold matchSub at h
    unfold matchName
    split at h
    · rename_i s u b rest heq
      dsimp only at h ⊢
      split at h
      · rename_i hc
        have hs : s = 'S' ∨ s = '|' ∨ s = 's' := hc.2.2.1
        rw [heq]
        have : (c!"Name").isPrefixOf (s :: u :: b :: rest) = false := by
          rcases hs with rfl | rfl | rfl <;> simp [List.isPrefixOf]
        simp [this]
      · exact absurd h (by simp)
    · exact absurd h (by simp)

/-- Every section name the writer makes falls into the class the writer meant, and the fixed
    header names into none. -/
theorem classification_total (up : Bool) (i : Nat) (hi : i < 65536) (m : SMember) (f : SDummy) :
    matchIndex (hex4 up i) = some i ∧
    matchSub (subSectionName up i m) = some (i, m.sub) ∧
    matchName (hex4 up i ++ c!"Name") = some i ∧
    isDummySection (dummySectionName f) = true ∧
    (∀ n ∈ reservedNames, isDummySection n = false ∧ matchIndex n = none ∧ matchSub n = none ∧
      matchName n = none) :=
  ⟨matchIndex_hex4 up i hi, matchSub_subSection up i hi m, matchName_nameSection up i hi,
   (dummySectionName_class f).1, reserved_class⟩

example : subSectionName false 0x1a00
    { sub := 0x1f, v := { name := [], dataType := 5 }, capital := true, upHex := false } = c!"1a00Sub1f" := by
  decide
example : matchSub c!"1000|ub1" = some (0x1000, 1) := by decide   -- the class `[S|s]` contains `|`
example : matchName c!"1000Namesake" = some 0x1000 := by decide   -- no `$` in that expression

/-! ## T variable_import -/

/-- `build_variable` on the section the writer makes for a described variable — all 27 data
    types, the six access types in any case, limits, default and parameter value of every kind,
    PDO mapping, storage location, factor, description, unit; whatever lines the kind of object
    puts first — yields exactly the variable the description denotes (`denoteVar`, field by
    field). -/
theorem variable_import (doc : Doc) (nm : Str) (pre : List (Str × Str))
    (hpre : ∀ k ∈ varKeys, dictGet k pre = none) (v : SVar) (hv : v.WF) (nid : Option Int)
    (index sub : Nat) :
    buildVariable doc ⟨nm, pre ++ varOpts v⟩ nid index sub = some (denoteVar v nid index sub) :=
  buildVariable_written doc nm pre hpre v hv nid index sub

/-- the order of the lines within a section does not matter to `build_variable` -/
theorem variable_import_any_order (doc : Doc) (s s' : Sec) (h : ∀ k, dictGet k s.opts = dictGet k s'.opts)
    (nid : Option Int) (index sub : Nat) :
    buildVariable doc s nid index sub = buildVariable doc s' nid index sub := by
  simp only [buildVariable, Sec.get, h]

/-! ## T import_write -/

/-- **Whole-dictionary statement.**  For every well-formed description `sod` (objects with index
    < 0x10000 and well-formed variables; extra sections the importer has no reason to look at) in
    every spelling, and for every node-id mode (`arg = some n` explicit; `none` → taken from
    `[DeviceComissioning]` or absent), importing the written document yields exactly the
    dictionary the description denotes: `build sod arg`, assembled with the library's own
    `add_object`/`add_member` from `denoteVar`, including comments, bit rate, node id, device
    information, allowed bit rates, file information and dummy entries. -/
theorem import_write (sod : SOD) (hwf : sod.WF) (arg : Option Int) :
    importEds (write sod) arg = some (build sod arg) := by
  unfold importEds
  have hcom : importComments (write sod)
      = some (match sod.header.comments with | some p => joinWith ['\n'] p.1 | none => []) := by
    cases hc : sod.header.comments with
    | none =>
      unfold importComments
      rw [sec_write_comments sod hwf, hc]; rfl
    | some p =>
      exact importComments_of_sec _ sComments p.1 p.2 (by rw [sec_write_comments sod hwf, hc]; rfl)
  have hdev : importDeviceInfo (write sod)
      = some ((match sod.header.devInfo with | some d => denoteBauds d | none => []),
              (match sod.header.devInfo with | some d => denoteDevInfo d | none => [])) := by
    cases hc : sod.header.devInfo with
    | none =>
      unfold importDeviceInfo
      rw [sec_write_devInfo sod hwf, hc]; rfl
    | some d =>
      exact importDeviceInfo_of_sec _ sDeviceInfo d (by rw [sec_write_devInfo sod hwf, hc]; rfl)
  have hcm : importCommissioning (write sod) arg
      = some ((match sod.header.commissioning with | some p => denoteBitrate p.1 | none => none),
              (match sod.header.commissioning with | some p => pickNodeId arg p.2 | none => none),
              nodeIdInForce sod.header arg) := by
    unfold nodeIdInForce
    cases hc : sod.header.commissioning with
    | none =>
      unfold importCommissioning
      rw [sec_write_commissioning sod hwf, hc]; rfl
    | some p =>
      exact importCommissioning_of_sec _ sDeviceComissioning p.1 p.2 arg
        (by rw [sec_write_commissioning sod hwf, hc]; rfl)
  rw [hcom, hdev, hcm]
  simp only [sec_write_fileInfo sod hwf, Option.map_map]
  rw [foldlM_write sod hwf]
  simp only [build, buildWith, buildHeaderWith, Function.comp_def, Option.map_id']
  rfl

/-- `Granularity` is read as the number the file gives (was read through `bool()`: `Granularity=8`
    became `True`; fixed in the code, kept here as a regression example) -/
example :
    (importEds (write { header := { devInfo := some { granularity := some (8, {}) } } }) none).map (·.devInfo)
      = some [(c!"granularity", .int 8)] := by decide

/-! ## T lookups_agree -/

theorem buildObj_index (nid : Option Int) (o : SObj) : (buildObj nid o).index = o.index := by
  cases o with
  | var i up v ot domain => rfl
  | coll isArray i up name storage otSp sn ms =>
    simp only [buildObj, Obj.index, SObj.index]
    rw [← List.foldl_map (f := fun m : SMember => denoteVar m.v nid i m.sub) (g := Coll.addMember)]
    exact foldl_addMember_index _ _
  | compact i up n nSp t otSp names =>
    cases names with
    | none => rfl
    | some ns => simp only [buildObj, Obj.index, SObj.index]; exact addNamed_index _ ns 1 _

theorem buildObj_name (nid : Option Int) (o : SObj) : (buildObj nid o).name = o.name := by
  cases o with
  | var i up v ot domain => rfl
  | coll isArray i up name storage otSp sn ms =>
    simp only [buildObj, Obj.name, SObj.name]
    rw [← List.foldl_map (f := fun m : SMember => denoteVar m.v nid i m.sub) (g := Coll.addMember)]
    exact foldl_addMember_name _ _
  | compact i up n nSp t otSp names =>
    cases names with
    | none => rfl
    | some ns => simp only [buildObj, Obj.name, SObj.name]; exact addNamed_name _ ns 1 _

/-- the dictionary before the described objects are added: header and dummy entries -/
def baseOD (dv : SDevInfo → List (Str × DevVal)) (sod : SOD) (arg : Option Int) : OD :=
  match sod.header.dummy with
  | some f => addDummies f (buildHeaderWith dv sod.header arg)
  | none => buildHeaderWith dv sod.header arg

theorem build_eq (dv : SDevInfo → List (Str × DevVal)) (sod : SOD) (arg : Option Int) :
    buildWith dv sod arg
      = (sod.objs.map (buildObj (nodeIdInForce sod.header arg))).foldl OD.addObject (baseOD dv sod arg) := by
  simp only [buildWith, baseOD, List.foldl_map]
  cases sod.header.dummy <;> rfl

/-- uniqueness conditions of a well-formed file: indexes and object names are unique -/
structure Distinct (sod : SOD) : Prop where
  idx : sod.objs.Pairwise (fun a b => a.index ≠ b.index)
  name : sod.objs.Pairwise (fun a b => a.name ≠ b.name)

/-- **Lookups, top level.**  Every described object is what `od[index]` returns and — unless it is
    a record/array without any member, which Python treats as falsy — what `od[name]` returns. -/
theorem lookups_agree (dv : SDevInfo → List (Str × DevVal)) (sod : SOD) (hd : Distinct sod)
    (arg : Option Int) (o : SObj) (ho : o ∈ sod.objs) :
    let od := buildWith dv sod arg
    let x := buildObj (nodeIdInForce sod.header arg) o
    od.getItem (.idx o.index) = some x ∧ (x.truthy = true → od.getItem (.name o.name) = some x) := by
  intro od x
  have hx : x ∈ sod.objs.map (buildObj (nodeIdInForce sod.header arg)) := List.mem_map.mpr ⟨o, ho, rfl⟩
  have hpi : (sod.objs.map (buildObj (nodeIdInForce sod.header arg))).Pairwise
      (fun a b => a.index ≠ b.index) := by
    rw [List.pairwise_map]
    exact hd.idx.imp (fun h => by simpa [buildObj_index] using h)
  have hpn : (sod.objs.map (buildObj (nodeIdInForce sod.header arg))).Pairwise
      (fun a b => a.name ≠ b.name) := by
    rw [List.pairwise_map]
    exact hd.name.imp (fun h => by simpa [buildObj_name] using h)
  have h1 := byIndex_foldl_mem _ (baseOD dv sod arg) hpi x hx
  have h2 := byName_foldl_mem _ (baseOD dv sod arg) hpn x hx
  rw [← build_eq dv] at h1 h2
  rw [buildObj_index] at h1
  rw [buildObj_name] at h2
  refine ⟨h1, fun ht => ?_⟩
  show OD.getItem (buildWith dv sod arg) (.name o.name) = some x
  simp only [OD.getItem, OD.byNameTruthy, h2, ht, if_true]

/-! ### members -/

theorem dummyKey_noDot : ∀ i ∈ [1, 2, 3, 4, 5, 6, 7], '.' ∉ dummyKey i := by decide

theorem baseOD_names_noDot (dv : SDevInfo → List (Str × DevVal)) (sod : SOD) (arg : Option Int) :
    ∀ n ∈ (baseOD dv sod arg).names.map (·.1), '.' ∉ n := by
  have step : ∀ (b : Bool) (i : Nat) (od : OD), '.' ∉ dummyKey i →
      (∀ n ∈ od.names.map (·.1), '.' ∉ n) → ∀ n ∈ (addDummyIf b i od).names.map (·.1), '.' ∉ n := by
    intro b i od hi h n hn
    cases b
    · exact h n hn
    · simp only [addDummyIf, if_true, OD.addObject] at hn
      rcases keys_dictSet _ _ _ n hn with rfl | h2
      · exact hi
      · exact h n h2
  unfold baseOD
  cases sod.header.dummy with
  | none => intro n hn; simp [buildHeaderWith] at hn
  | some f =>
    simp only [addDummies]
    have h0 : ∀ n ∈ (buildHeaderWith dv sod.header arg).names.map (·.1), '.' ∉ n := by
      intro n hn; simp [buildHeaderWith] at hn
    exact step _ 7 _ (by decide) (step _ 6 _ (by decide) (step _ 5 _ (by decide) (step _ 4 _ (by decide)
      (step _ 3 _ (by decide) (step _ 2 _ (by decide) (step _ 1 _ (by decide) h0))))))

/-- no object is filed under a dotted name when no described name contains a dot -/
theorem byName_dotted_none (dv : SDevInfo → List (Str × DevVal)) (sod : SOD)
    (hnd : ∀ o ∈ sod.objs, '.' ∉ o.name) (arg : Option Int) (p c : Str) :
    (buildWith dv sod arg).byName (p ++ '.' :: c) = none := by
  have hk : dictGet (p ++ '.' :: c) (buildWith dv sod arg).names = none := by
    cases h : dictGet (p ++ '.' :: c) (buildWith dv sod arg).names with
    | none => rfl
    | some id =>
      exfalso
      have hm := dictGet_some_mem_keys _ _ _ h
      rw [build_eq dv] at hm
      rcases names_foldl _ _ _ hm with h1 | h1
      · exact baseOD_names_noDot dv sod arg _ h1 (by simp)
      · simp only [List.map_map, List.mem_map, Function.comp] at h1
        obtain ⟨o, ho, hn⟩ := h1
        rw [buildObj_name] at hn
        exact hnd o ho (by rw [hn]; simp)
  simp [OD.byName, hk]

/-- **Lookups, members of a record or array written section by section.**  With unique
    sub-indices and member names, every described member is what `obj[sub]`, `obj[name]` and
    `od['Parent.Child']` return. -/
theorem lookups_members (dv : SDevInfo → List (Str × DevVal)) (sod : SOD) (hd : Distinct sod)
    (hnd : ∀ o ∈ sod.objs, '.' ∉ o.name) (arg : Option Int) (isArray : Bool) (i : Nat) (up : Bool) (name : Str) (storage : Option Str)
    (otSp : NumSp) (sn : Option NumSp) (ms : List SMember)
    (ho : SObj.coll isArray i up name storage otSp sn ms ∈ sod.objs)
    (hsub : ms.Pairwise (fun a b => a.sub ≠ b.sub)) (hname : ms.Pairwise (fun a b => a.v.name ≠ b.v.name))
    (m : SMember) (hm : m ∈ ms) :
    let nid := nodeIdInForce sod.header arg
    let v := denoteVar m.v nid i m.sub
    ∀ c, buildObj nid (.coll isArray i up name storage otSp sn ms) = .coll c →
      c.getItem (.idx m.sub) = some v ∧ c.getItem (.name m.v.name) = some v ∧
      (buildWith dv sod arg).getItem (.name (name ++ '.' :: m.v.name)) = some (.var v) := by
  intro nid v c hc
  have hc' : c = (ms.map fun m : SMember => denoteVar m.v nid i m.sub).foldl Coll.addMember
      { isArray := isArray, name := name, index := i, storage := storage } := by
    simp only [buildObj, Obj.coll.injEq] at hc
    rw [← hc, List.foldl_map]
  have hv : v ∈ ms.map fun m : SMember => denoteVar m.v nid i m.sub := List.mem_map.mpr ⟨m, hm, rfl⟩
  have hps : (ms.map fun m : SMember => denoteVar m.v nid i m.sub).Pairwise
      (fun a b => a.subindex ≠ b.subindex) := by
    rw [List.pairwise_map]; exact hsub.imp (fun h => by simpa [denoteVar] using h)
  have hpn : (ms.map fun m : SMember => denoteVar m.v nid i m.sub).Pairwise
      (fun a b => a.name ≠ b.name) := by
    rw [List.pairwise_map]; exact hname.imp (fun h => by simpa [denoteVar] using h)
  have g1 : dictGet m.sub c.subs = some v := by
    rw [hc', subs_foldl_addMember]
    exact dictGet_foldl_mem (·.subindex) _ _ hps v hv
  have g2 : dictGet m.v.name c.names = some v := by
    rw [hc', names_foldl_addMember]
    exact dictGet_foldl_mem (·.name) _ _ hpn v hv
  have hne : c.subs ≠ [] := by
    rw [hc', subs_foldl_addMember]
    exact foldl_dictSet_ne_nil (·.subindex) _ (by
      intro h; rw [h] at hv; simp at hv) _
  refine ⟨by simp [Coll.getItem, g1], by simp [Coll.getItem, g2], ?_⟩
  have hparent := (lookups_agree dv sod hd arg _ ho).2 (by
    show (buildObj nid (.coll isArray i up name storage otSp sn ms)).truthy = true
    rw [hc]; simp [Obj.truthy, hne])
  simp only [SObj.name] at hparent
  have hbt : (buildWith dv sod arg).byNameTruthy name = some (.coll c) := by
    simp only [OD.getItem] at hparent
    cases hb : (buildWith dv sod arg).byNameTruthy name with
    | some o' => rw [hb] at hparent; simp only [] at hparent; rw [← hc]; exact hparent
    | none =>
      exfalso
      have : splitDot name = none := splitDot_none name (hnd _ ho)
      rw [hb] at hparent
      simp [this] at hparent
  simp only [OD.getItem, OD.byNameTruthy, byName_dotted_none dv sod hnd arg name m.v.name,
    splitDot_append name m.v.name (hnd _ ho)]
  simp only [OD.byNameTruthy] at hbt
  simp [hbt, Obj.getItem, Coll.getItem, g2]

/-- the copies `copy_variable` makes of the template, sub-indices `k`, `k+1`, … -/
def namedCopies (tv : Var) : Nat → List Str → List Var
  | _, [] => []
  | k, n :: r => { tv with name := n, subindex := k } :: namedCopies tv (k + 1) r

theorem addNamed_eq_foldl (tv : Var) : ∀ (ns : List Str) (k : Nat) (c : Coll),
    addNamed tv k ns c = (namedCopies tv k ns).foldl Coll.addMember c := by
  intro ns
  induction ns with
  | nil => intro k c; rfl
  | cons n r ih => intro k c; simp only [addNamed, namedCopies, List.foldl_cons, ih]

theorem namedCopies_mem (tv : Var) : ∀ (ns : List Str) (k j : Nat) (h : j < ns.length),
    ({ tv with name := ns[j], subindex := k + j } : Var) ∈ namedCopies tv k ns := by
  intro ns
  induction ns with
  | nil => intro k j h; simp at h
  | cons n r ih =>
    intro k j h
    cases j with
    | zero => simp [namedCopies]
    | succ j =>
      have := ih (k + 1) j (by simpa using h)
      simp only [namedCopies, List.mem_cons]
      right
      rw [show k + (j + 1) = k + 1 + j by omega]
      simpa using this

theorem namedCopies_sub_ge (tv : Var) : ∀ (ns : List Str) (k : Nat), ∀ v ∈ namedCopies tv k ns, k ≤ v.subindex := by
  intro ns
  induction ns with
  | nil => intro k v hv; simp [namedCopies] at hv
  | cons n r ih =>
    intro k v hv
    simp only [namedCopies, List.mem_cons] at hv
    rcases hv with rfl | hv
    · exact Nat.le_refl _
    · have := ih (k + 1) v hv; omega

theorem namedCopies_pairwise_sub (tv : Var) : ∀ (ns : List Str) (k : Nat),
    (namedCopies tv k ns).Pairwise (fun a b => a.subindex ≠ b.subindex) := by
  intro ns
  induction ns with
  | nil => intro k; exact List.Pairwise.nil
  | cons n r ih =>
    intro k
    simp only [namedCopies, List.pairwise_cons]
    refine ⟨fun v hv => ?_, ih (k + 1)⟩
    have := namedCopies_sub_ge tv r (k + 1) v hv
    show k ≠ v.subindex
    omega

theorem namedCopies_names (tv : Var) : ∀ (ns : List Str) (k : Nat), (namedCopies tv k ns).map (·.name) = ns := by
  intro ns
  induction ns with
  | nil => intro k; rfl
  | cons n r ih => intro k; simp [namedCopies, ih]

theorem namedCopies_pairwise_name (tv : Var) (ns : List Str) (k : Nat) (h : ns.Nodup) :
    (namedCopies tv k ns).Pairwise (fun a b => a.name ≠ b.name) := by
  have := namedCopies_names tv ns k
  rw [← this] at h
  exact List.pairwise_map.mp h

/-- **Lookups, members of a compact array with a name list** (pairwise different names): the entry
    of sub-index `j+1` is the template under its listed name, reached by sub-index, by name and by
    `'Parent.Child'`. -/
theorem lookups_compact (dv : SDevInfo → List (Str × DevVal)) (sod : SOD) (hd : Distinct sod)
    (hnd : ∀ o ∈ sod.objs, '.' ∉ o.name) (arg : Option Int) (i : Nat) (up : Bool) (n : Nat) (nSp : NumSp)
    (t : SVar) (otSp : NumSp) (ns : List Str)
    (ho : SObj.compact i up n nSp t otSp (some ns) ∈ sod.objs) (hns : ns.Nodup)
    (j : Nat) (hj : j < ns.length) :
    let nid := nodeIdInForce sod.header arg
    let v : Var := { denoteVar t nid i 1 with name := ns[j], subindex := 1 + j }
    ∀ c, buildObj nid (.compact i up n nSp t otSp (some ns)) = .coll c →
      c.getItem (.idx (1 + j)) = some v ∧ c.getItem (.name ns[j]) = some v ∧
      (buildWith dv sod arg).getItem (.name (t.name ++ '.' :: ns[j])) = some (.var v) := by
  intro nid v c hc
  have hc' : c = (namedCopies (denoteVar t nid i 1) 1 ns).foldl Coll.addMember (compactBase nid i t) := by
    simp only [buildObj, Obj.coll.injEq] at hc
    rw [← hc, ← addNamed_eq_foldl]; rfl
  have hv : v ∈ namedCopies (denoteVar t nid i 1) 1 ns := namedCopies_mem _ ns 1 j hj
  have g1 : dictGet (1 + j) c.subs = some v := by
    rw [hc', subs_foldl_addMember]
    exact dictGet_foldl_mem (·.subindex) _ _ (namedCopies_pairwise_sub _ ns 1) v hv
  have g2 : dictGet ns[j] c.names = some v := by
    rw [hc', names_foldl_addMember]
    exact dictGet_foldl_mem (·.name) _ _ (namedCopies_pairwise_name _ ns 1 hns) v hv
  have hne : c.subs ≠ [] := by
    rw [hc', subs_foldl_addMember]
    exact foldl_dictSet_ne_nil (·.subindex) _ (by intro h; rw [h] at hv; simp at hv) _
  refine ⟨by simp [Coll.getItem, g1], by simp [Coll.getItem, g2], ?_⟩
  have hparent := (lookups_agree dv sod hd arg _ ho).2 (by
    show (buildObj nid (.compact i up n nSp t otSp (some ns))).truthy = true
    rw [hc]; simp [Obj.truthy, hne])
  simp only [SObj.name] at hparent
  have hbt : (buildWith dv sod arg).byNameTruthy t.name = some (.coll c) := by
    simp only [OD.getItem] at hparent
    cases hb : (buildWith dv sod arg).byNameTruthy t.name with
    | some o' => rw [hb] at hparent; simp only [] at hparent; rw [← hc]; exact hparent
    | none =>
      exfalso
      have : splitDot t.name = none := splitDot_none t.name (hnd _ ho)
      rw [hb] at hparent
      simp [this] at hparent
  simp only [OD.getItem, OD.byNameTruthy, byName_dotted_none dv sod hnd arg t.name ns[j],
    splitDot_append t.name ns[j] (hnd _ ho)]
  simp only [OD.byNameTruthy] at hbt
  simp [hbt, Obj.getItem, Coll.getItem, g2]

/-! ## T compact_expanded -/

/-- **Compact arrays.**  `CompactSubObj` without a name list: sub-index 0 is the UNSIGNED8 "Number
    of entries", sub-index 1 the described entry, and *every* further sub-index `1 < k < 256` yields
    a variable of the template's data type, access type, PDO-mappability, limits and default value, named
    `<ParameterName>_<k in hex>` (the count in the file is not used as a bound). -/
theorem compact_expanded (nid : Option Int) (i : Nat) (t : SVar) (k : Nat) (hk1 : 1 < k) (hk : k < 256) :
    let c := compactBase nid i t
    let tv := denoteVar t nid i 1
    c.getItem (.idx 0) = some (numberOfEntriesVar i) ∧ c.getItem (.idx 1) = some tv ∧
    ∃ v, c.getItem (.idx k) = some v ∧ v.index = i ∧ v.subindex = k ∧ v.dataType = tv.dataType ∧
      v.accessType = tv.accessType ∧ v.pdoMappable = tv.pdoMappable ∧ v.min = tv.min ∧ v.max = tv.max ∧
      v.default = tv.default ∧ v.name = t.name ++ '_' :: natStr 16 false k := by
  intro c tv
  have hsubs : c.subs = [(0, numberOfEntriesVar i), (1, tv)] := by
    simp [c, tv, compactBase, Coll.addMember, numberOfEntriesVar, denoteVar, dictSet]
  refine ⟨by simp [Coll.getItem, hsubs, dictGet], by simp [Coll.getItem, hsubs, dictGet], ?_⟩
  refine ⟨arrayTemplateVar c tv k, ?_, rfl, rfl, rfl, rfl, rfl, rfl, rfl, rfl, rfl⟩
  have h0 : ¬ (0 = k) := by omega
  have h1 : ¬ (1 = k) := by omega
  have hia : c.isArray = true := rfl
  simp [Coll.getItem, hsubs, dictGet, h0, h1, hia, hk]
  omega

/-! ## the hypotheses are satisfiable: a concrete description -/

/-- decidable forms of the well-formedness predicates, for concrete descriptions -/
def valOkB (t : Nat) : SVal → Bool
  | .num _ _ => isIntLike t
  | .rel _ _ _ _ => isIntLike t
  | .bytes bs _ _ => isBlobType t && bs.all (· < 256)
  | .str _ => isTextType t
  | .real txt => isRealType t && floatOk txt
  | .empty => true

theorem valOk_of_B (t : Nat) (v : SVal) (h : valOkB t v = true) : v.okFor t := by
  cases v <;> simp_all [valOkB, SVal.okFor]

def limOkB (t : Nat) (l : SLim) : Bool :=
  match signedWidth t with
  | some w => decide (-((2 ^ (w - 1) : Nat) : Int) ≤ l.v) && decide (l.v < ((2 ^ (w - 1) : Nat) : Int))
  | none => true

theorem limOk_of_B (t : Nat) (l : SLim) (h : limOkB t l = true) : l.okFor t := by
  unfold limOkB at h
  unfold SLim.okFor
  cases hs : signedWidth t with
  | none => trivial
  | some w => rw [hs] at h; simpa using h

def varWfB (v : SVar) : Bool :=
  decide (0 < v.dataType) && decide (v.dataType ≤ 0x1B) && v.default.all (valOkB v.dataType) &&
  v.value.all (valOkB v.dataType) && v.low.all (limOkB v.dataType) && v.high.all (limOkB v.dataType) &&
  v.factor.all floatOk

theorem varWf_of_B (v : SVar) (h : varWfB v = true) : v.WF := by
  simp only [varWfB, Bool.and_eq_true, decide_eq_true_eq] at h
  obtain ⟨⟨⟨⟨⟨⟨h1, h2⟩, h3⟩, h4⟩, h5⟩, h6⟩, h7⟩ := h
  exact { dataType_pos := h1, dataType_le := h2,
          default_ok := fun d hd => valOk_of_B _ d (by rw [hd] at h3; simpa using h3),
          value_ok := fun d hd => valOk_of_B _ d (by rw [hd] at h4; simpa using h4),
          low_ok := fun l hl => limOk_of_B _ l (by rw [hl] at h5; simpa using h5),
          high_ok := fun l hl => limOk_of_B _ l (by rw [hl] at h6; simpa using h6),
          factor_ok := fun f hf => by rw [hf] at h7; simpa using h7 }

def objWfB : SObj → Bool
  | .var i _ v _ _ => decide (i < 65536) && varWfB v
  | .coll _ i _ _ _ _ _ ms => decide (i < 65536) && ms.all fun m => varWfB m.v
  | .compact i _ _ _ t _ _ => decide (i < 65536) && varWfB t

theorem objWf_of_B (o : SObj) (h : objWfB o = true) : o.WF := by
  cases o with
  | var i up v ot dm =>
    simp only [objWfB, Bool.and_eq_true, decide_eq_true_eq] at h
    exact ⟨h.1, varWf_of_B v h.2⟩
  | coll a i up n st ot sn ms =>
    simp only [objWfB, Bool.and_eq_true, decide_eq_true_eq, List.all_eq_true] at h
    exact ⟨h.1, fun m hm => varWf_of_B m.v (h.2 m hm)⟩
  | compact i up n nsp t ot ns =>
    simp only [objWfB, Bool.and_eq_true, decide_eq_true_eq] at h
    exact ⟨h.1, varWf_of_B t h.2⟩

def exDeviceType : SVar :=
  { name := c!"Device type", dataType := 7, dtSp := { base := .hex, pad := 4 }, access := .ro,
    pdo := some (0, {}), default := some (.rel 0x600 { base := .hex } true false) }

def exSpeed : SVar :=
  { name := c!"Speed % of max", dataType := 0x10, access := .rw, accessCase := .upper,
    low := some { v := -8388608, sp := { base := .hex, upDigits := true }, twos := true },
    high := some { v := 8388607, sp := { base := .hex }, twos := true },
    default := some (.num (-5) {}), factor := some c!"0.1", unit := some c!"rpm" }

def exBlob : SVar :=
  { name := c!"Blob", dataType := 0xF, access := .rw, default := some (.bytes [1, 255] true true) }

def exCount : SVar := { name := c!"Highest sub-index", dataType := 5, access := .const, default := some (.num 1 {}) }

def exSod : SOD :=
  { header :=
      { comments := some ([c!"first line", c!"second = line"], {}),
        commissioning := some (some 500, some (16, { base := .hex })),
        dummy := some { d3 := true },
        devInfo := some { vendorName := some c!"ACME", vendorNumber := some (7, { base := .hex }),
                          baud125 := some (1, {}), lssSupported := some (0, {}) } },
    extra := [{ name := c!"MandatoryObjects", opts := [(c!"SupportedObjects", c!"1"), (c!"1", c!"0x1000")] }],
    objs := [.var 0x1000 true exDeviceType (some { base := .hex }) false,
             .coll false 0x1018 true c!"Identity" none {} (some {})
               [{ sub := 0, v := exCount }, { sub := 1, v := exSpeed, capital := true }],
             .var 0x2000 false exBlob none true,
             .compact 0x2100 true 3 {} { exSpeed with name := c!"Arr" } {} (some [c!"x", c!"y", c!"z"]),
             .compact 0x2101 true 3 {} { exSpeed with name := c!"Arr2" } {} none] }

theorem exSod_wf : exSod.WF where
  objs_ok := by
    intro o ho
    apply objWf_of_B
    revert o
    decide
  extra_ok := by
    intro s hs
    simp only [exSod, List.mem_singleton] at hs
    subst hs
    unfold ignoredSection
    decide

theorem exSod_distinct : Distinct exSod := ⟨by decide, by decide⟩

/-- the whole-dictionary theorem applies to the example, under the node id of the file (0x10) … -/
example : importEds (write exSod) none = some (build exSod none) := import_write exSod exSod_wf none

/-- … and what it yields is not trivial: relative default resolved, two's-complement limits
    negative, the record reachable by name and `Parent.Child`, the compact array expanded -/
example :
    ((build exSod none).getItem (.idx 0x1000)).map (fun o => match o with
        | .var v => (v.default, v.relative, v.accessType) | _ => (none, false, [])) =
      some (some (.int 0x610), true, c!"ro") ∧
    ((build exSod none).getItem (.name c!"Identity.Speed % of max")).map (fun o => match o with
        | .var v => (v.min, v.max, v.default, v.subindex) | _ => (none, none, none, 0)) =
      some (some (-8388608), some 8388607, some (.int (-5)), 1) ∧
    (build exSod none).nodeId = some 16 ∧ (build exSod none).bitrate = some 500000 ∧
    (build exSod none).comments = c!"first line\nsecond = line" ∧
    ((build exSod none).byIndex 3).map Obj.name = some c!"Dummy0003" ∧
    ((build exSod none).byIndex 0x2100).map (fun o => match o with
        | .coll c => c.subs.map fun p => (p.1, p.2.name) | _ => []) =
      some [(0, c!"Number of entries"), (1, c!"x"), (2, c!"y"), (3, c!"z")] := by
  decide +kernel

/-! ## T compact_members_complete -/

/-- what every entry of an array described in compact form shares with the template -/
def LikeTemplate (tv v : Var) : Prop :=
  v.index = tv.index ∧ v.dataType = tv.dataType ∧ v.accessType = tv.accessType ∧
  v.pdoMappable = tv.pdoMappable ∧ v.min = tv.min ∧ v.max = tv.max ∧ v.default = tv.default

/-- invariant of the sub-index table of an array assembled from a compact description -/
def CompactInv (tv : Var) (d : List (Nat × Var)) : Prop :=
  (∀ k v, dictGet k d = some v → v.subindex = k ∧ (k = 0 ∨ LikeTemplate tv v)) ∧
  ∃ v1, dictGet 1 d = some v1 ∧ LikeTemplate tv v1

theorem compactInv_set (tv : Var) (d : List (Nat × Var)) (h : CompactInv tv d) (v : Var)
    (hv : LikeTemplate tv v) : CompactInv tv (dictSet v.subindex v d) := by
  obtain ⟨h1, v1, hv1, hl1⟩ := h
  refine ⟨fun k x hx => ?_, ?_⟩
  · by_cases hk : v.subindex = k
    · subst hk
      rw [dictGet_dictSet_same] at hx
      cases hx
      exact ⟨rfl, Or.inr hv⟩
    · rw [dictGet_dictSet_ne _ _ _ _ hk] at hx
      exact h1 k x hx
  · by_cases hk : v.subindex = 1
    · exact ⟨v, by rw [← hk, dictGet_dictSet_same], hv⟩
    · exact ⟨v1, by rw [dictGet_dictSet_ne _ _ _ _ hk]; exact hv1, hl1⟩

theorem compactInv_foldl (tv : Var) : ∀ (vs : List Var) (d : List (Nat × Var)), CompactInv tv d →
    (∀ v ∈ vs, LikeTemplate tv v) →
    CompactInv tv (vs.foldl (fun d v => dictSet v.subindex v d) d) := by
  intro vs
  induction vs with
  | nil => intro d h _; exact h
  | cons v r ih =>
    intro d h hall
    exact ih _ (compactInv_set tv d h v (hall v (by simp)))
      (fun x hx => hall x (by simp [hx]))

theorem namedCopies_like (tv : Var) : ∀ (ns : List Str) (k : Nat),
    ∀ v ∈ namedCopies tv k ns, LikeTemplate tv v := by
  intro ns k v hv
  induction ns generalizing k with
  | nil => simp [namedCopies] at hv
  | cons n r ih =>
    simp only [namedCopies, List.mem_cons] at hv
    rcases hv with rfl | hv
    · exact ⟨rfl, rfl, rfl, rfl, rfl, rfl, rfl⟩
    · exact ih (k + 1) hv

theorem foldl_addMember_isArray (vs : List Var) : ∀ c : Coll, (vs.foldl Coll.addMember c).isArray = c.isArray := by
  induction vs with
  | nil => intro c; rfl
  | cons v r ih => intro c; simp only [List.foldl_cons]; rw [ih]; rfl

/-- **Compact arrays, every announced entry.**  For an array described in compact form — `n` entries,
    with no name list, or a name list for the first entries or for all of them — every sub-index
    `1 ≤ k ≤ 254` (so every `k ≤ n`, whatever `n ≤ 254` the file announces, the last one `n = 254`
    included) of the imported array is a variable with that sub-index and the template's index, data
    type, access type, PDO-mappability, limits and default value; sub-index 0 is the entry count. -/
theorem compact_members_complete (nid : Option Int) (i : Nat) (up : Bool) (n : Nat) (nSp : NumSp) (t : SVar)
    (otSp : NumSp) (names : Option (List Str)) (k : Nat) (hk1 : 1 ≤ k) (hk : k ≤ 254) :
    ∀ c, buildObj nid (.compact i up n nSp t otSp names) = .coll c →
      ∃ v, c.getItem (.idx k) = some v ∧ v.subindex = k ∧ LikeTemplate (denoteVar t nid i 1) v := by
  intro c hc
  -- the array is the base (entry count + template) with the named copies added
  have hc' : ∃ vs : List Var, (∀ v ∈ vs, LikeTemplate (denoteVar t nid i 1) v) ∧
      c = vs.foldl Coll.addMember (compactBase nid i t) := by
    cases names with
    | none =>
      refine ⟨[], by simp, ?_⟩
      simp only [buildObj, Obj.coll.injEq] at hc
      rw [← hc]; rfl
    | some ns =>
      refine ⟨namedCopies (denoteVar t nid i 1) 1 ns, namedCopies_like _ ns 1, ?_⟩
      simp only [buildObj, Obj.coll.injEq] at hc
      rw [← hc, ← addNamed_eq_foldl]; rfl
  obtain ⟨vs, hvs, rfl⟩ := hc'
  have hbase : CompactInv (denoteVar t nid i 1) (compactBase nid i t).subs := by
    have hsubs : (compactBase nid i t).subs = [(0, numberOfEntriesVar i), (1, denoteVar t nid i 1)] := by
      simp [compactBase, Coll.addMember, numberOfEntriesVar, denoteVar, dictSet]
    rw [hsubs]
    refine ⟨fun k v hv => ?_, denoteVar t nid i 1, by simp [dictGet], ⟨rfl, rfl, rfl, rfl, rfl, rfl, rfl⟩⟩
    simp only [dictGet] at hv
    split at hv
    · rename_i h0; cases hv; exact ⟨by rw [← h0]; rfl, Or.inl h0.symm⟩
    · split at hv
      · rename_i h1; cases hv; exact ⟨by rw [← h1]; rfl, Or.inr ⟨rfl, rfl, rfl, rfl, rfl, rfl, rfl⟩⟩
      · exact absurd hv (by simp)
  have hinv := compactInv_foldl _ vs _ hbase hvs
  rw [← subs_foldl_addMember] at hinv
  obtain ⟨h1, v1, hv1, hl1⟩ := hinv
  have hidx : (vs.foldl Coll.addMember (compactBase nid i t)).index = i := by
    rw [foldl_addMember_index]; rfl
  have harr : (vs.foldl Coll.addMember (compactBase nid i t)).isArray = true := by
    rw [foldl_addMember_isArray]; rfl
  cases hg : dictGet k (vs.foldl Coll.addMember (compactBase nid i t)).subs with
  | some v =>
    obtain ⟨hs, hl⟩ := h1 k v hg
    refine ⟨v, by simp [Coll.getItem, hg], hs, ?_⟩
    rcases hl with h0 | hl
    · omega
    · exact hl
  | none =>
    refine ⟨arrayTemplateVar (vs.foldl Coll.addMember (compactBase nid i t)) v1 k, ?_, rfl, ?_⟩
    · have : 0 < k ∧ k < 256 := ⟨by omega, by omega⟩
      simp [Coll.getItem, hg, hv1, harr, this]
    · obtain ⟨a1, a2, a3, a4, a5, a6, a7⟩ := hl1
      exact ⟨by show (vs.foldl Coll.addMember (compactBase nid i t)).index = _; rw [hidx]; rfl,
             a2, a3, a4, a5, a6, a7⟩

/-- … and end to end: importing the written file, looking the array up by its index and asking it for any
    of the `n ≤ 254` entries it announces (the last one included) gives such a variable. -/
theorem compact_imported_complete (sod : SOD) (hwf : sod.WF) (hd : Distinct sod) (arg : Option Int)
    (i : Nat) (up : Bool) (n : Nat) (nSp : NumSp) (t : SVar) (otSp : NumSp) (names : Option (List Str))
    (ho : SObj.compact i up n nSp t otSp names ∈ sod.objs) (k : Nat) (hk1 : 1 ≤ k) (hkn : k ≤ n) (hn : n ≤ 254) :
    ∃ od c v, importEds (write sod) arg = some od ∧ od.getItem (.idx i) = some (.coll c) ∧
      c.getItem (.idx k) = some v ∧ v.subindex = k ∧
      LikeTemplate (denoteVar t (nodeIdInForce sod.header arg) i 1) v := by
  obtain ⟨c, hc⟩ : ∃ c, buildObj (nodeIdInForce sod.header arg) (.compact i up n nSp t otSp names) = .coll c :=
    ⟨_, rfl⟩
  obtain ⟨v, hv, hs, hl⟩ := compact_members_complete (nodeIdInForce sod.header arg) i up n nSp t otSp names k hk1
    (by omega) c hc
  have hl' := (lookups_agree denoteDevInfo sod hd arg _ ho).1
  simp only [SObj.index] at hl'
  rw [hc] at hl'
  exact ⟨build sod arg, c, v, import_write sod hwf arg, hl', hv, hs, hl⟩

/-- the largest array: 254 entries, the first three with names of their own: entry 3 is the named copy,
    entries 4 and 254 are made from the template (PDO-mappable like it), 255 is beyond what the description announces -/
example :
    (match buildObj (some 5) (.compact 0x2100 true 254 {} { exSpeed with name := c!"Arr", pdo := some (1, {}) } {}
              (some [c!"x", c!"y", c!"z"])) with
     | .coll c => [3, 4, 253, 254].map fun k => (c.getItem (.idx k)).map fun v =>
         (v.name, v.subindex, v.dataType, v.min)
     | .var _ => []) =
      [some (c!"z", 3, 0x10, some (-8388608)), some (c!"x_4", 4, 0x10, some (-8388608)),
       some (c!"x_fd", 253, 0x10, some (-8388608)), some (c!"x_fe", 254, 0x10, some (-8388608))] := by
  decide +kernel

example :
    (match buildObj (some 5) (.compact 0x2100 true 254 {} { exSpeed with name := c!"Arr", pdo := some (1, {}) } {}
              (some [c!"x", c!"y", c!"z"])) with
     | .coll c => [0, 1, 3, 4, 254].map fun k => (c.getItem (.idx k)).map fun v => (v.subindex, v.pdoMappable)
     | .var _ => []) =
      [some (0, false), some (1, true), some (3, true), some (4, true), some (254, true)] := by
  decide +kernel

/-! ## T import_history -/

/-- **Histories.**  Whatever was written and imported before — on the same paths or on others, starting
    from any file system — every step that writes the text of a well-formed description to a path
    ending in `.eds`/`.dcf` and imports that path yields the dictionary described *in that step*:
    nothing of an earlier import survives. -/
theorem import_history (steps : List (Str × SOD × Option Int))
    (hok : ∀ s ∈ steps, s.2.1.WF ∧ (suffixOf s.1 = c!".eds" ∨ suffixOf s.1 = c!".dcf")) (fs : Files) :
    importHistory fs (steps.map fun s => { path := s.1, doc := write s.2.1, nodeId := s.2.2 })
      = steps.map fun s => some (build s.2.1 s.2.2) := by
  induction steps generalizing fs with
  | nil => rfl
  | cons s r ih =>
    obtain ⟨hwf, hsfx⟩ := hok s (by simp)
    simp only [List.map_cons, importHistory, List.cons.injEq]
    refine ⟨?_, ih (fun x hx => hok x (by simp [hx])) _⟩
    simp only [importPath, Files.write, dictGet_dictSet_same, importOd]
    rw [if_pos hsfx]
    exact import_write s.2.1 hwf s.2.2

/-- a file that is rewritten between two imports: the second import sees the second description only -/
example :
    importHistory [] [{ path := c!"dev.dcf", doc := write exSod, nodeId := none },
                      { path := c!"dev.dcf", doc := write { objs := [.var 0x2000 false exBlob none true] }, nodeId := some 3 }]
      = [some (build exSod none), some (build { objs := [.var 0x2000 false exBlob none true] } (some 3))] := by
  have h := import_history
    [(c!"dev.dcf", exSod, none), (c!"dev.dcf", { objs := [.var 0x2000 false exBlob none true] }, some 3)]
    (by
      intro s hs
      simp only [List.mem_cons, List.not_mem_nil, or_false] at hs
      rcases hs with rfl | rfl
      · exact ⟨exSod_wf, Or.inr (by decide)⟩
      · refine ⟨⟨?_, by intro s hs; simp at hs⟩, Or.inr (by decide)⟩
        intro o ho
        apply objWf_of_B
        revert o
        decide) []
  simpa using h

/-- a comment block of twelve lines, their number in hex: the lines come back in numeric order -/
example :
    (importEds (write { header := { comments := some ((List.range 12).map (fun k => natStr 10 false (k + 1)),
                                                      { base := .hex, upDigits := true }) } }) none).map (·.comments)
      = some c!"1\n2\n3\n4\n5\n6\n7\n8\n9\n10\n11\n12" := by decide +kernel

/-! ## T tables_as_modelled -/

/-- The generated constants are the ones the model and the writer assume: object types, the
    bit-rate list, the dummy range, the custom-type threshold, the attributes `ODArray.__getitem__`
    copies, the DeviceInfo table's keys and kinds. -/
theorem tables_as_modelled :
    OT_DOMAIN = 2 ∧ OT_VAR = 7 ∧ OT_ARR = 8 ∧ OT_RECORD = 9 ∧
    BAUD_RATES = [10, 20, 50, 125, 250, 500, 800, 1000] ∧ BAUD_UNIT = 1000 ∧
    DUMMY_LO = 1 ∧ DUMMY_HI = 8 ∧ CUSTOM_TYPE_ABOVE = 0x1B ∧
    ARRAY_TEMPLATE_ATTRS = [c!"data_type", c!"unit", c!"factor", c!"min", c!"max", c!"default",
      c!"access_type", c!"description", c!"value_descriptions", c!"bit_definitions",
      c!"storage_location", c!"pdo_mappable"] ∧
    DEVINFO_IMPORT.map (fun r => (r.2.1, r.1)) =
      [(c!"VendorName", 0), (c!"VendorNumber", 1), (c!"ProductName", 0), (c!"ProductNumber", 1),
       (c!"RevisionNumber", 1), (c!"OrderCode", 0), (c!"SimpleBootUpMaster", 2),
       (c!"SimpleBootUpSlave", 2), (c!"Granularity", 1), (c!"DynamicChannelsSupported", 2),
       (c!"GroupMessaging", 2), (c!"NrOfRXPDO", 1), (c!"NrOfTXPDO", 1), (c!"LSS_Supported", 2)] ∧
    (∀ t : Fin 28, signedRowOK t.val = true) := by
  refine ⟨rfl, rfl, rfl, rfl, rfl, rfl, rfl, rfl, rfl, by decide, by decide, signed_tables⟩

end Canopen.C08
