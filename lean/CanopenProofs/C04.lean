/-
C04 — Data type codec is the exact CiA 301 representation and never silently wraps.

Property theorems about `CanopenModel/Codec.lean` (the model of `ODVariable.encode_raw`,
`decode_raw`, `UnsignedN`, `IntegerN`) instantiated with the **generated** `STRUCT_TYPES`
table and compared with the independent CiA 301 table `Spec/Cia301Types.lean`.
All statements quantify over every value / byte pattern / length; the only finite
quantifier is the table of 19 data types, split by `rcases` on list membership.
-/
import CanopenModel.Codec
import CanopenModel.Spec.Cia301Types
import CanopenProofs.Lemmas.Bytes

namespace Canopen.C04
open Canopen Canopen.Codec Canopen.Gen.Datatypes Canopen.Spec

/-! ## helpers -/

theorem and_128 : ∀ c : Fin 256, (c.val &&& 0x80 > 0) = (128 ≤ c.val) := by decide +kernel

theorem and_128' (c : Nat) (h : c < 256) : (c &&& 0x80 > 0) = (128 ≤ c) := and_128 ⟨c, h⟩

theorem ofSigned_mod (W w : Nat) (h : w ≤ W) (i : Int) : ofSigned W i % 2 ^ w = ofSigned w i := by
  unfold ofSigned
  have hW : (0 : Int) < ((2 ^ W : Nat) : Int) := Int.natCast_pos.mpr (Nat.pow_pos (by decide))
  have hw : (0 : Int) < ((2 ^ w : Nat) : Int) := Int.natCast_pos.mpr (Nat.pow_pos (by decide))
  have h0 := Int.emod_nonneg i (Int.ne_of_gt hW)
  have h1 := Int.emod_nonneg i (Int.ne_of_gt hw)
  have hd : ((2 ^ w : Nat) : Int) ∣ ((2 ^ W : Nat) : Int) :=
    Int.natCast_dvd_natCast.mpr (Nat.pow_dvd_pow 2 h)
  have key : (i % ((2 ^ W : Nat) : Int)) % ((2 ^ w : Nat) : Int) = i % ((2 ^ w : Nat) : Int) :=
    Int.emod_emod_of_dvd i hd
  apply Int.ofNat.inj
  show (((i % ((2 ^ W : Nat) : Int)).toNat % 2 ^ w : Nat) : Int) = ((i % ((2 ^ w : Nat) : Int)).toNat : Int)
  rw [Int.natCast_emod, Int.toNat_of_nonneg h0, Int.toNat_of_nonneg h1, key]

/-- the integer types of CiA 301 with their width and signedness -/
def intTypes : List (Nat × Nat × Bool) :=
  cia301Types.filterMap fun (t, w, k) =>
    match k with
    | .signed => some (t, w, true)
    | .unsigned => some (t, w, false)
    | _ => none

/-! ## T table_matches_cia301 -/

def rowKind (r : StructRow) : Option NumKind :=
  match fmtKind r.fmt with
  | some (.sint _) => if r.cls = 0 ∨ r.cls = 2 then some .signed else none
  | some (.uint _) => if r.cls = 0 ∨ r.cls = 1 then some .unsigned else none
  | some .boolean => if r.cls = 0 then some .boolean else none
  | some (.float _) => if r.cls = 0 then some .real else none
  | none => none

/-- The code's table has exactly the CiA 301 fixed-size types, each with the CiA 301 width
    and kind, each once. -/
theorem table_matches_cia301 :
    (∀ e ∈ cia301Types, ∃ r, findRow e.1 = some r ∧ r.size * 8 = e.2.1 ∧ rowKind r = some e.2.2
        ∧ bitLen (some e.1) = e.2.1) ∧
    (∀ r ∈ STRUCT_TYPES, cia301Lookup r.dtype = some (r.size * 8, (rowKind r).getD .real)) ∧
    (STRUCT_TYPES.map (·.dtype)).Nodup := by
  decide

/-! ## integer types: shape of `encodeRaw` / `decodeRaw` per table row -/

/-- what the model computes for an integer type, stated with the CiA 301 width only -/
def encSpec (w : Nat) (signed : Bool) (v : Int) : Option Bytes :=
  if inRange w signed v then some (leBytes (w / 8) (ofSigned w v)) else none

def decSpec (w : Nat) (signed : Bool) (bs : Bytes) : Option Val :=
  if bs.length = w / 8 then
    some (.int (if signed then toSigned w (leVal bs) else (leVal bs : Int)))
  else none

theorem intTypes_eq : intTypes =
    [(2, 8, true), (3, 16, true), (4, 32, true), (5, 8, false), (6, 16, false), (7, 32, false),
     (16, 24, true), (18, 40, true), (19, 48, true), (20, 56, true), (21, 64, true),
     (22, 24, false), (24, 40, false), (25, 48, false), (26, 56, false), (27, 64, false)] := by
  decide

/-- slicing a wide two's-complement encoding gives the narrow one -/
theorem take_wide (n k W w : Nat) (hk : k ≤ n) (hw : w ≤ W) (hkw : 256 ^ k = 2 ^ w) (i : Int) :
    (leBytes n (ofSigned W i)).take k = leBytes k (ofSigned w i) := by
  rw [leBytes_take _ _ _ hk, ← leBytes_mod, hkw, ofSigned_mod W w hw]

theorem inRange_mono_signed (w W : Nat) (hw : 0 < w) (h : w ≤ W) (v : Int)
    (hv : inRange w true v = true) : inRange W true v = true := by
  simp only [inRange, if_true, Bool.and_eq_true, decide_eq_true_eq] at hv ⊢
  have : 2 ^ (w - 1) ≤ 2 ^ (W - 1) := Nat.pow_le_pow_right (by decide) (by omega)
  omega

theorem inRange_mono_unsigned (w W : Nat) (h : w ≤ W) (v : Int)
    (hv : inRange w false v = true) : inRange W false v = true := by
  simp only [inRange, Bool.false_eq_true, if_false, Bool.and_eq_true, decide_eq_true_eq] at hv ⊢
  have : 2 ^ w ≤ 2 ^ W := Nat.pow_le_pow_right (by decide) h
  omega

theorem encodeRaw_int (t : Nat) (v : Int)
    (h : t ≠ VISIBLE_STRING ∧ t ≠ UNICODE_STRING ∧ t ≠ DOMAIN ∧ t ≠ OCTET_STRING) :
    encodeRaw (some t) (.int v) = (findRow t).bind (rowPackInt · v) := by
  obtain ⟨h1, h2, h3, h4⟩ := h
  simp only [encodeRaw, Option.some.injEq, h1, h2, h3, h4, if_false, Bool.or_false, decide_false,
    Bool.false_eq_true, Option.bind_some]
  cases findRow t <;> rfl

theorem decodeRaw_row (t : Nat) (bs : Bytes) (h : t ≠ VISIBLE_STRING ∧ t ≠ UNICODE_STRING) :
    decodeRaw (some t) bs =
      match findRow t with | some r => rowUnpack r bs | none => some (.bytes bs) := by
  obtain ⟨h1, h2⟩ := h
  simp only [decodeRaw, Option.some.injEq, h1, h2, if_false, Option.bind_some]
  cases findRow t <;> rfl

/-- `IntegerN.pack` / `UnsignedN.pack`: range check on the declared width, wide pack, slice -/
theorem intN_pack (n k w : Nat) (s : Bool) (v : Int) (hk : k ≤ n) (hw : w ≤ 8 * n) (hw0 : 0 < w)
    (hkw : 256 ^ k = 2 ^ w) (hk8 : w / 8 = k) :
    (if inRange w s v = true then
        Option.map (fun x => List.take k x)
          (if inRange (8 * n) s v = true then some (leBytes n (ofSigned (8 * n) v)) else none)
      else none) = if inRange w s v = true then some (leBytes (w / 8) (ofSigned w v)) else none := by
  by_cases h : inRange w s v = true
  · have h' : inRange (8 * n) s v = true := by
      cases s
      · exact inRange_mono_unsigned w _ hw v h
      · exact inRange_mono_signed w _ hw0 hw v h
    simp only [h, h', if_true, Option.map_some, hk8]
    rw [take_wide n k (8 * n) w hk hw hkw]
  · simp [h]

/-- `encode_raw` on every integer type is: range check, then little-endian two's complement -/
theorem encode_int_shape : ∀ e ∈ intTypes, ∀ v : Int,
    encodeRaw (some e.1) (.int v) = encSpec e.2.1 e.2.2 v := by
  intro e he v
  rw [intTypes_eq] at he
  simp only [List.mem_cons, List.not_mem_nil, or_false] at he
  rcases he with rfl | rfl | rfl | rfl | rfl | rfl | rfl | rfl | rfl | rfl | rfl | rfl | rfl | rfl | rfl | rfl
  all_goals
    rw [encodeRaw_int _ _ (by decide)]
    simp only [findRow, STRUCT_TYPES, List.find?, Option.bind, rowPackInt, fmtKind, fmtChar,
      encSpec, packInt]
  all_goals first
    | (simp; done)
    | (simpa using intN_pack 4 3 24 true v (by decide) (by decide) (by decide) (by decide) (by decide))
    | (simpa using intN_pack 8 5 40 true v (by decide) (by decide) (by decide) (by decide) (by decide))
    | (simpa using intN_pack 8 6 48 true v (by decide) (by decide) (by decide) (by decide) (by decide))
    | (simpa using intN_pack 8 7 56 true v (by decide) (by decide) (by decide) (by decide) (by decide))
    | (simpa using intN_pack 4 3 24 false v (by decide) (by decide) (by decide) (by decide) (by decide))
    | (simpa using intN_pack 8 5 40 false v (by decide) (by decide) (by decide) (by decide) (by decide))
    | (simpa using intN_pack 8 6 48 false v (by decide) (by decide) (by decide) (by decide) (by decide))
    | (simpa using intN_pack 8 7 56 false v (by decide) (by decide) (by decide) (by decide) (by decide))

/-- `IntegerN.unpack` on a buffer of the wrong length: IndexError or struct.error, never a value -/
theorem intN_unpack_len (n k : Nat) (hk : k ≤ n) (hk0 : 0 < k) (bs : Bytes) (h : bs.length ≠ k) :
    intNUnpack n k bs
      = none := by
  unfold intNUnpack
  cases hq : bs[k - 1]? with
  | none => rfl
  | some top =>
    have : k - 1 < bs.length := by
      rcases List.getElem?_eq_some_iff.mp hq with ⟨hlt, _⟩
      exact hlt
    have hne : ¬ (bs.length + (n - k) = n) := by omega
    simp [unpackInt, hne]

/-- sign-extension in `IntegerN.unpack` reads the narrow two's complement value -/
theorem int24_unpack (bs : Bytes) (hb : AllBytes bs) (hl : bs.length = 3) :
    intNUnpack 4 3 bs
      = some (.int (toSigned 24 (leVal bs))) := by
  rcases bs with _ | ⟨a, _ | ⟨b, _ | ⟨c, _ | ⟨d, bs⟩⟩⟩⟩ <;> simp at hl
  have ha : a < 256 := hb a (by simp)
  have hb' : b < 256 := hb b (by simp)
  have hc : c < 256 := hb c (by simp)
  simp [intNUnpack, unpackInt, and_128' c hc, leVal, toSigned]
  by_cases h128 : 128 ≤ c <;> simp only [h128, if_true, if_false] <;> (repeat' split) <;> omega

theorem int40_unpack (bs : Bytes) (hb : AllBytes bs) (hl : bs.length = 5) :
    intNUnpack 8 5 bs
      = some (.int (toSigned 40 (leVal bs))) := by
  rcases bs with _ | ⟨a, _ | ⟨b, _ | ⟨c, _ | ⟨d, _ | ⟨e, _ | ⟨f, bs⟩⟩⟩⟩⟩⟩ <;> simp at hl
  have ha : a < 256 := hb a (by simp)
  have hb' : b < 256 := hb b (by simp)
  have hc : c < 256 := hb c (by simp)
  have hd : d < 256 := hb d (by simp)
  have he : e < 256 := hb e (by simp)
  simp [intNUnpack, unpackInt, and_128' e he, leVal, toSigned]
  by_cases h128 : 128 ≤ e <;> simp only [h128, if_true, if_false] <;> (repeat' split) <;> omega

theorem int48_unpack (bs : Bytes) (hb : AllBytes bs) (hl : bs.length = 6) :
    intNUnpack 8 6 bs
      = some (.int (toSigned 48 (leVal bs))) := by
  rcases bs with _ | ⟨a, _ | ⟨b, _ | ⟨c, _ | ⟨d, _ | ⟨e, _ | ⟨f, _ | ⟨g, bs⟩⟩⟩⟩⟩⟩⟩ <;> simp at hl
  have ha : a < 256 := hb a (by simp)
  have hb' : b < 256 := hb b (by simp)
  have hc : c < 256 := hb c (by simp)
  have hd : d < 256 := hb d (by simp)
  have he : e < 256 := hb e (by simp)
  have hf : f < 256 := hb f (by simp)
  simp [intNUnpack, unpackInt, and_128' f hf, leVal, toSigned]
  by_cases h128 : 128 ≤ f <;> simp only [h128, if_true, if_false] <;> (repeat' split) <;> omega

theorem int56_unpack (bs : Bytes) (hb : AllBytes bs) (hl : bs.length = 7) :
    intNUnpack 8 7 bs
      = some (.int (toSigned 56 (leVal bs))) := by
  rcases bs with _ | ⟨a, _ | ⟨b, _ | ⟨c, _ | ⟨d, _ | ⟨e, _ | ⟨f, _ | ⟨g, _ | ⟨x, bs⟩⟩⟩⟩⟩⟩⟩⟩ <;> simp at hl
  have ha : a < 256 := hb a (by simp)
  have hb' : b < 256 := hb b (by simp)
  have hc : c < 256 := hb c (by simp)
  have hd : d < 256 := hb d (by simp)
  have he : e < 256 := hb e (by simp)
  have hf : f < 256 := hb f (by simp)
  have hg : g < 256 := hb g (by simp)
  simp [intNUnpack, unpackInt, and_128' g hg, leVal, toSigned]
  by_cases h128 : 128 ≤ g <;> simp only [h128, if_true, if_false] <;> (repeat' split) <;> omega

/-- `UnsignedN.unpack`: zero padding does not change the value; wrong lengths are rejected -/
theorem uintN_unpack (n k : Nat) (hk : k ≤ n) (bs : Bytes) :
    Option.map Val.int (unpackInt n false (bs ++ List.replicate (n - k) 0)) =
      if bs.length = k then some (.int (leVal bs)) else none := by
  have hiff : (bs.length + (n - k) = n) ↔ bs.length = k := by omega
  by_cases h : bs.length = k
  · simp [unpackInt, h, hiff.mpr h, leVal_append, leVal_replicate_zero, hk]
  · have : ¬ (bs.length + (n - k) = n) := fun h' => h (hiff.mp h')
    simp [unpackInt, h, this]

theorem int24_dec (bs : Bytes) (hb : AllBytes bs) :
    intNUnpack 4 3 bs
      = if bs.length = 3 then some (.int (toSigned 24 (leVal bs))) else none := by
  by_cases hl : bs.length = 3
  · rw [int24_unpack bs hb hl, if_pos hl]
  · rw [intN_unpack_len 4 3 (by decide) (by decide) bs hl, if_neg hl]

theorem int40_dec (bs : Bytes) (hb : AllBytes bs) :
    intNUnpack 8 5 bs
      = if bs.length = 5 then some (.int (toSigned 40 (leVal bs))) else none := by
  by_cases hl : bs.length = 5
  · rw [int40_unpack bs hb hl, if_pos hl]
  · rw [intN_unpack_len 8 5 (by decide) (by decide) bs hl, if_neg hl]

theorem int48_dec (bs : Bytes) (hb : AllBytes bs) :
    intNUnpack 8 6 bs
      = if bs.length = 6 then some (.int (toSigned 48 (leVal bs))) else none := by
  by_cases hl : bs.length = 6
  · rw [int48_unpack bs hb hl, if_pos hl]
  · rw [intN_unpack_len 8 6 (by decide) (by decide) bs hl, if_neg hl]

theorem int56_dec (bs : Bytes) (hb : AllBytes bs) :
    intNUnpack 8 7 bs
      = if bs.length = 7 then some (.int (toSigned 56 (leVal bs))) else none := by
  by_cases hl : bs.length = 7
  · rw [int56_unpack bs hb hl, if_pos hl]
  · rw [intN_unpack_len 8 7 (by decide) (by decide) bs hl, if_neg hl]

/-- `decode_raw` on every integer type: length check, then little-endian two's complement -/
theorem decode_int_shape : ∀ e ∈ intTypes, ∀ bs : Bytes, AllBytes bs →
    decodeRaw (some e.1) bs = decSpec e.2.1 e.2.2 bs := by
  intro e he bs hb
  rw [intTypes_eq] at he
  simp only [List.mem_cons, List.not_mem_nil, or_false] at he
  rcases he with rfl | rfl | rfl | rfl | rfl | rfl | rfl | rfl | rfl | rfl | rfl | rfl | rfl | rfl | rfl | rfl
  all_goals
    rw [decodeRaw_row _ _ (by decide)]
    simp only [findRow, STRUCT_TYPES, List.find?, rowUnpack, fmtKind, fmtChar, decSpec]
  all_goals first
    | (simp [unpackInt]; done)
    | (simpa using uintN_unpack 4 3 (by decide) bs)
    | (simpa using uintN_unpack 8 5 (by decide) bs)
    | (simpa using uintN_unpack 8 6 (by decide) bs)
    | (simpa using uintN_unpack 8 7 (by decide) bs)
    | (simpa using int24_dec bs hb)
    | (simpa using int40_dec bs hb)
    | (simpa using int48_dec bs hb)
    | (simpa using int56_dec bs hb)

theorem intTypes_wf : ∀ e ∈ intTypes, 0 < e.2.1 ∧ 256 ^ (e.2.1 / 8) = 2 ^ e.2.1 := by
  decide

/-! ## The property theorems for integer types

`e ∈ intTypes` ranges over the sixteen CiA 301 integer types `(index, width, signed)`
(`intTypes` is computed from the independent spec table, `table_matches_cia301` ties it to the
code's table); `v` ranges over all of `Int`, `bs` over all byte strings. -/

/-- In-range values encode to exactly the little-endian two's complement pattern of CiA 301. -/
theorem encode_is_twos_complement_le : ∀ e ∈ intTypes, ∀ v : Int, inRange e.2.1 e.2.2 v = true →
    encodeRaw (some e.1) (.int v) = some (leBytes (e.2.1 / 8) (ofSigned e.2.1 v)) := by
  intro e he v hv
  rw [encode_int_shape e he v, encSpec, if_pos hv]

/-- Whatever is encoded has exactly width/8 bytes. -/
theorem encode_length : ∀ e ∈ intTypes, ∀ (v : Int) (bs : Bytes),
    encodeRaw (some e.1) (.int v) = some bs → bs.length = e.2.1 / 8 ∧ AllBytes bs := by
  intro e he v bs h
  rw [encode_int_shape e he v, encSpec] at h
  split at h
  · cases h; exact ⟨leBytes_length _ _, leBytes_allBytes _ _⟩
  · cases h

/-- A value outside the type's range is rejected, never truncated or wrapped. -/
theorem encode_rejects_out_of_range : ∀ e ∈ intTypes, ∀ v : Int, inRange e.2.1 e.2.2 v = false →
    encodeRaw (some e.1) (.int v) = none := by
  intro e he v hv
  rw [encode_int_shape e he v, encSpec, hv]; rfl

/-- Decoding the encoding of an in-range value returns the value. -/
theorem decode_encode : ∀ e ∈ intTypes, ∀ v : Int, inRange e.2.1 e.2.2 v = true →
    (encodeRaw (some e.1) (.int v)).bind (decodeRaw (some e.1)) = some (.int v) := by
  intro e he v hv
  obtain ⟨hw0, hpow⟩ := intTypes_wf e he
  rw [encode_is_twos_complement_le e he v hv, Option.bind_some,
    decode_int_shape e he _ (leBytes_allBytes _ _), decSpec, if_pos (leBytes_length _ _),
    leVal_leBytes, hpow, Nat.mod_eq_of_lt (ofSigned_lt _ _)]
  obtain ⟨t, w, sg⟩ := e
  cases sg
  · simp only [Bool.false_eq_true, if_false]; rw [ofSigned_nonneg w v hv]
  · simp only [if_true]; rw [toSigned_ofSigned w hw0 v hv]

/-- Every byte pattern of the right length decodes to a number whose encoding is the pattern. -/
theorem encode_decode : ∀ e ∈ intTypes, ∀ bs : Bytes, AllBytes bs → bs.length = e.2.1 / 8 →
    ∃ v : Int, decodeRaw (some e.1) bs = some (.int v) ∧ inRange e.2.1 e.2.2 v = true ∧
      encodeRaw (some e.1) (.int v) = some bs := by
  intro e he bs hb hl
  obtain ⟨hw0, hpow⟩ := intTypes_wf e he
  have hlt : leVal bs < 2 ^ e.2.1 := by rw [← hpow, ← hl]; exact leVal_lt bs hb
  rw [decode_int_shape e he bs hb, decSpec, if_pos hl]
  refine ⟨_, rfl, ?_⟩
  rw [encode_int_shape e he, encSpec]
  obtain ⟨t, w, sg⟩ := e
  dsimp only at hlt hl hw0 hpow ⊢
  cases sg
  · have hr : inRange w false (leVal bs : Int) = true := by
      simp only [inRange, Bool.false_eq_true, if_false, Bool.and_eq_true, decide_eq_true_eq]
      constructor <;> omega
    simp only [Bool.false_eq_true, if_false, hr, if_true, true_and]
    have : ofSigned w (leVal bs : Int) = leVal bs := by
      have := ofSigned_nonneg w _ hr; omega
    rw [this, ← hl, leBytes_leVal bs hb]
  · have hr := toSigned_inRange w hw0 _ hlt
    simp only [if_true, hr, true_and]
    rw [ofSigned_toSigned w hw0 _ hlt, ← hl, leBytes_leVal bs hb]

/-! ## wrong lengths, all fixed-size types (no assumption on the bytes) -/

/-- A byte string of the wrong length is never decoded into a number (nor a boolean or float). -/
theorem decode_rejects_wrong_length : ∀ e ∈ cia301Types, ∀ bs : Bytes, bs.length ≠ e.2.1 / 8 →
    decodeRaw (some e.1) bs = none := by
  intro e he bs hl
  simp only [cia301Types, List.mem_cons, List.not_mem_nil, or_false] at he
  rcases he with rfl | rfl | rfl | rfl | rfl | rfl | rfl | rfl | rfl | rfl | rfl | rfl | rfl | rfl | rfl | rfl | rfl | rfl | rfl
  all_goals
    rw [decodeRaw_row _ _ (by decide)]
    simp only [findRow, STRUCT_TYPES, List.find?, rowUnpack, fmtKind, fmtChar] at hl ⊢
  all_goals first
    | (simp at hl; simp [unpackInt, hl]; done)
    | (simp at hl; simpa [hl] using uintN_unpack 4 3 (by decide) bs)
    | (simp at hl; simpa [hl] using uintN_unpack 8 5 (by decide) bs)
    | (simp at hl; simpa [hl] using uintN_unpack 8 6 (by decide) bs)
    | (simp at hl; simpa [hl] using uintN_unpack 8 7 (by decide) bs)
    | (simp at hl; simpa using intN_unpack_len 4 3 (by decide) (by decide) bs hl)
    | (simp at hl; simpa using intN_unpack_len 8 5 (by decide) (by decide) bs hl)
    | (simp at hl; simpa using intN_unpack_len 8 6 (by decide) (by decide) bs hl)
    | (simp at hl; simpa using intN_unpack_len 8 7 (by decide) (by decide) bs hl)
    | (simp at hl
       rcases bs with _ | ⟨a, _ | ⟨b, bs⟩⟩ <;> simp at hl ⊢)

/-! ## BOOLEAN and REAL32/REAL64 -/

/-- BOOLEAN: `True`/`False` are one byte 01/00, and every single byte decodes as "non-zero". -/
theorem bool_codec :
    (∀ b : Bool, encodeRaw (some BOOLEAN) (.bool b) = some [if b then 1 else 0]) ∧
    (∀ x : Nat, decodeRaw (some BOOLEAN) [x] = some (.bool (x != 0))) ∧
    (∀ b : Bool, (encodeRaw (some BOOLEAN) (.bool b)).bind (decodeRaw (some BOOLEAN)) = some (.bool b)) := by
  refine ⟨?_, ?_, ?_⟩
  · intro b; cases b <;> decide
  · intro x
    rw [decodeRaw_row _ _ (by decide)]
    simp [findRow, STRUCT_TYPES, BOOLEAN, rowUnpack, fmtKind, fmtChar]
  · intro b; cases b <;> decide

/-- REAL32 / REAL64 travel as their IEEE 754 bit pattern, little-endian, in both directions. -/
theorem real_bits : ∀ e ∈ [(REAL32, 32), (REAL64, 64)],
    (∀ bits : Nat, bits < 2 ^ e.2 →
      encodeRaw (some e.1) (.real bits) = some (leBytes (e.2 / 8) bits) ∧
      decodeRaw (some e.1) (leBytes (e.2 / 8) bits) = some (.real bits)) ∧
    (∀ bs : Bytes, AllBytes bs → bs.length = e.2 / 8 →
      decodeRaw (some e.1) bs = some (.real (leVal bs)) ∧
      encodeRaw (some e.1) (.real (leVal bs)) = some bs) := by
  intro e he
  simp only [List.mem_cons, List.not_mem_nil, or_false] at he
  rcases he with rfl | rfl
  · refine ⟨fun bits hb => ⟨?_, ?_⟩, fun bs hb hl => ⟨?_, ?_⟩⟩
    · simp [encodeRaw, REAL32, VISIBLE_STRING, UNICODE_STRING, DOMAIN, OCTET_STRING, findRow,
        STRUCT_TYPES, fmtKind, fmtChar]; omega
    · rw [decodeRaw_row _ _ (by decide)]
      simp [findRow, STRUCT_TYPES, REAL32, rowUnpack, fmtKind, fmtChar, leVal_leBytes]
      simpa using hb
    · rw [decodeRaw_row _ _ (by decide)]
      simp at hl
      simp [findRow, STRUCT_TYPES, REAL32, rowUnpack, fmtKind, fmtChar, hl]
    · have hlt := leVal_lt bs hb
      simp at hl
      rw [hl] at hlt
      have := leBytes_leVal bs hb
      rw [hl] at this
      simp [encodeRaw, REAL32, VISIBLE_STRING, UNICODE_STRING, DOMAIN, OCTET_STRING, findRow,
        STRUCT_TYPES, fmtKind, fmtChar, this]; omega
  · refine ⟨fun bits hb => ⟨?_, ?_⟩, fun bs hb hl => ⟨?_, ?_⟩⟩
    · simp [encodeRaw, REAL64, VISIBLE_STRING, UNICODE_STRING, DOMAIN, OCTET_STRING, findRow,
        STRUCT_TYPES, fmtKind, fmtChar]; omega
    · rw [decodeRaw_row _ _ (by decide)]
      simp [findRow, STRUCT_TYPES, REAL64, rowUnpack, fmtKind, fmtChar, leVal_leBytes]
      simpa using hb
    · rw [decodeRaw_row _ _ (by decide)]
      simp at hl
      simp [findRow, STRUCT_TYPES, REAL64, rowUnpack, fmtKind, fmtChar, hl]
    · have hlt := leVal_lt bs hb
      simp at hl
      rw [hl] at hlt
      have := leBytes_leVal bs hb
      rw [hl] at this
      simp [encodeRaw, REAL64, VISIBLE_STRING, UNICODE_STRING, DOMAIN, OCTET_STRING, findRow,
        STRUCT_TYPES, fmtKind, fmtChar, this]; omega

/-! ## strings -/

theorem rstripNul_id (cps : List Nat) (h : cps.getLast? ≠ some 0) : rstripNul cps = cps := by
  unfold rstripNul
  have : cps.reverse.dropWhile (· = 0) = cps.reverse := by
    cases hr : cps.reverse with
    | nil => rfl
    | cons x xs =>
      have hx : cps.getLast? = some x := by
        rw [List.getLast?_eq_head?_reverse, hr]; rfl
      have : x ≠ 0 := by intro h0; apply h; rw [hx, h0]
      simp [List.dropWhile, this]
  rw [this, List.reverse_reverse]

/-- ASCII text without a trailing NUL survives VISIBLE_STRING encode → decode, and the encoding
    is one byte per character. -/
theorem visible_string_roundtrip (cps : List Nat) (hascii : ∀ c ∈ cps, c < 128)
    (hnul : cps.getLast? ≠ some 0) :
    encodeRaw (some VISIBLE_STRING) (.str cps) = some cps ∧
    decodeRaw (some VISIBLE_STRING) cps = some (.str cps) := by
  have hall : cps.all (· < 128) = true := by simpa using hascii
  have hf : cps.filter (· < 128) = cps := by
    apply List.filter_eq_self.mpr; intro c hc; simpa using hascii c hc
  constructor
  · simp [encodeRaw, encodeAscii, hall]
  · simp [decodeRaw, decodeAsciiIgnore, hf, rstripNul_id cps hnul]

/-- UTF-16-LE code units of BMP text -/
def utf16Units (cps : List Nat) : Bytes := cps.flatMap fun c => [c % 256, c / 256]

theorem encodeUtf16_bmp (cps : List Nat) (h : ∀ c ∈ cps, c < 0x10000 ∧ isSurrogate c = false) :
    encodeUtf16 cps = some (utf16Units cps) := by
  induction cps with
  | nil => rfl
  | cons c r ih =>
    have hc := h c (by simp)
    have ih' := ih (fun x hx => h x (by simp [hx]))
    have h1 : ¬ c > 0x10FFFF := by omega
    simp [encodeUtf16, hc.2, hc.1, h1, ih', utf16Units]

theorem decodeUtf16_bmp (cps : List Nat) (h : ∀ c ∈ cps, c < 0x10000 ∧ isSurrogate c = false) :
    decodeUtf16Ignore (utf16Units cps) = cps := by
  induction cps with
  | nil => simp [utf16Units, decodeUtf16Ignore]
  | cons c r ih =>
    have hc := h c (by simp)
    have ih' := ih (fun x hx => h x (by simp [hx]))
    have hs : ¬ (0xD800 ≤ c ∧ c ≤ 0xDFFF) := by
      have := hc.2; simp [isSurrogate] at this; omega
    have hcc : c % 256 + 256 * (c / 256) = c := by omega
    show decodeUtf16Ignore (c % 256 :: c / 256 :: utf16Units r) = c :: r
    rw [decodeUtf16Ignore.eq_def]
    simp only [hcc]
    have h1 : ¬ (0xD800 ≤ c ∧ c ≤ 0xDBFF) := by omega
    have h2 : ¬ (0xDC00 ≤ c ∧ c ≤ 0xDFFF) := by omega
    simp [h1, h2, ih']

/-- BMP text (no surrogates) without a trailing NUL survives UNICODE_STRING encode → decode, and
    the encoding is the UTF-16-LE code unit sequence. -/
theorem unicode_string_roundtrip (cps : List Nat)
    (hbmp : ∀ c ∈ cps, c < 0x10000 ∧ isSurrogate c = false) (hnul : cps.getLast? ≠ some 0) :
    encodeRaw (some UNICODE_STRING) (.str cps) = some (utf16Units cps) ∧
    decodeRaw (some UNICODE_STRING) (utf16Units cps) = some (.str cps) := by
  constructor
  · simp [encodeRaw, encodeUtf16_bmp cps hbmp, UNICODE_STRING, VISIBLE_STRING]
  · simp [decodeRaw, decodeUtf16_bmp cps hbmp, rstripNul_id cps hnul, UNICODE_STRING, VISIBLE_STRING]

/-! ## non-vacuity: the hypotheses are met by concrete non-trivial inputs -/

example : (INTEGER24, 24, true) ∈ intTypes ∧ inRange 24 true (-8388608) = true ∧
    encodeRaw (some INTEGER24) (.int (-8388608)) = some [0x00, 0x00, 0x80] := by decide
example : inRange 24 false 16777216 = false ∧ encodeRaw (some UNSIGNED24) (.int 16777216) = none := by
  decide
example : decodeRaw (some INTEGER40) [0xFF, 0xFF, 0xFF, 0xFF, 0xFF] = some (.int (-1)) := by decide
example : decodeRaw (some UNSIGNED16) [1, 2, 3] = none := by decide
example : (encodeRaw (some UNICODE_STRING) (.str [0x48, 0x20AC])) = some [0x48, 0, 0xAC, 0x20] := by
  decide

end Canopen.C04
