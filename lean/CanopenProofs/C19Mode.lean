/-
C19 — operation modes over an unreliable link (histories of mode steps on ONE node object).

`is_op_mode_supported` reads "supported drive modes" 0x6502 once and keeps the value for the lifetime of the
node object; the model (`CanopenModel/P402.lean`: `supportLookup`, `assignStep`, `queryStep`, `readStep`, `mstep`,
`stateAfter`, `runHist`) threads that attribute as `Option Nat` through a history of steps, each taken with the
drive reachable (`up`), unreachable (`down`: SdoCommunicationError / no TPDO) or answering the upload of 0x6502
with an abort (`noObj`).

* `mode_cache_faithful` — after every history the attribute is unset or holds exactly what the drive advertises;
* `mode_history_reachable` — after EVERY history (failed look-ups first, in between, any number), with the drive
  reachable: an advertised mode is written to 0x6060 as its CiA 402 code (and then displayed), 'NO MODE' as 0, an
  unadvertised or unknown mode is refused and nothing is written, `is_op_mode_supported` tells the advertised bit;
* `mode_history_never_wrong` — whatever the link is: an unadvertised mode is never written and never reported as
  supported, an advertised one is never refused, never reported as unsupported and never written as another code;
* `mode_failure_reported` — a look-up that fails leaves the attribute unset and is not turned into an answer:
  the query raises (communication error / abort), the assignment writes nothing and is not a refusal;
* `mode_history_outputs` — the list of outcomes the driver prints is, position by position, the outcome of
  `mstep` in the state reached by the steps before it.
-/
import CanopenModel.P402
import CanopenModel.P402Mode
import CanopenProofs.C19

namespace Canopen.C19
open Canopen.P402 Canopen.Spec.Drive402 Canopen.Gen.P402Tables

/-- the attribute `_op_mode_support` is unset or holds what the drive advertises -/
def CacheOK (mask : Nat) (c : Option Nat) : Prop := c = none ∨ c = some mask

/-! ## one look-up -/

theorem supportLookup_cases (mask : Nat) (l : Link) (c : Option Nat) (h : CacheOK mask c) :
    (supportLookup mask l c = (.got mask, some mask) ∧ (c = some mask ∨ l = .up)) ∨
    (c = none ∧ l = .down ∧ supportLookup mask l c = (.commErr, none)) ∨
    (c = none ∧ l = .noObj ∧ supportLookup mask l c = (.aborted, none)) := by
  rcases h with rfl | rfl
  · cases l <;> simp [supportLookup]
  · simp [supportLookup]

theorem supportLookup_cacheOK (mask : Nat) (l : Link) (c : Option Nat) (h : CacheOK mask c) :
    CacheOK mask (supportLookup mask l c).2 := by
  rcases supportLookup_cases mask l c h with ⟨e, _⟩ | ⟨_, _, e⟩ | ⟨_, _, e⟩ <;> rw [e]
  · exact Or.inr rfl
  · exact Or.inl rfl
  · exact Or.inl rfl

theorem assignStep_cache (mask : Nat) (l : Link) (n : MNode) (mode : Name) :
    (assignStep mask l n mode).1.cache = (supportLookup mask l n.cache).2 := by
  unfold assignStep
  split <;> rename_i e <;> rw [e]

theorem queryStep_cache (mask : Nat) (l : Link) (n : MNode) (mode : Name) :
    (queryStep mask l n mode).1.cache = (supportLookup mask l n.cache).2 := by
  unfold queryStep
  split <;> rename_i e <;> rw [e]

theorem mstep_cacheOK (pdo : Bool) (mask : Nat) (n : MNode) (x : Link × MStep)
    (h : CacheOK mask n.cache) : CacheOK mask (mstep pdo mask n x).1.cache := by
  obtain ⟨l, st⟩ := x
  cases st with
  | assign mode =>
    show CacheOK mask (assignStep mask l n mode).1.cache
    rw [assignStep_cache]; exact supportLookup_cacheOK mask l n.cache h
  | query mode =>
    show CacheOK mask (queryStep mask l n mode).1.cache
    rw [queryStep_cache]; exact supportLookup_cacheOK mask l n.cache h
  | read => exact h

theorem stateAfter_cacheOK (pdo : Bool) (mask : Nat) (hist : List (Link × MStep)) :
    ∀ n : MNode, CacheOK mask n.cache → CacheOK mask (stateAfter pdo mask n hist).cache := by
  induction hist with
  | nil => intro n h; exact h
  | cons x rest ih => intro n h; exact ih _ (mstep_cacheOK pdo mask n x h)

/-- After every history of mode steps - whichever of them failed - the node object remembers nothing
    but what the drive really advertises. -/
theorem mode_cache_faithful (pdo : Bool) (mask : Nat) (hist : List (Link × MStep)) :
    CacheOK mask (stateAfter pdo mask MNode.fresh hist).cache :=
  stateAfter_cacheOK pdo mask hist MNode.fresh (Or.inl rfl)

/-! ## one step in a state whose attribute is faithful -/

/-- an assignment: the setter proper runs with the advertised value, or the look-up failed -/
theorem assignStep_cases (mask : Nat) (l : Link) (n : MNode) (mode : Name) (h : CacheOK mask n.cache) :
    ((assignStep mask l n mode).2 = (assignWith l mask n.disp mode).2 ∧
      (assignStep mask l n mode).1.disp = (assignWith l mask n.disp mode).1 ∧
      (n.cache = some mask ∨ l = .up)) ∨
    (n.cache = none ∧ l = .down ∧ assignStep mask l n mode = (n, .dropped)) ∨
    (n.cache = none ∧ l = .noObj ∧ assignStep mask l n mode = (n, .aborted)) := by
  rcases supportLookup_cases mask l n.cache h with ⟨e, hc⟩ | ⟨hc, hl, e⟩ | ⟨hc, hl, e⟩
  · left; unfold assignStep; rw [e]; exact ⟨rfl, rfl, hc⟩
  · right; left; refine ⟨hc, hl, ?_⟩
    unfold assignStep; rw [e]; cases n; simp_all
  · right; right; refine ⟨hc, hl, ?_⟩
    unfold assignStep; rw [e]; cases n; simp_all

theorem queryStep_cases (mask : Nat) (l : Link) (n : MNode) (mode : Name) (h : CacheOK mask n.cache) :
    ((queryStep mask l n mode).2 = answerOf mask mode ∧ (n.cache = some mask ∨ l = .up)) ∨
    (n.cache = none ∧ l = .down ∧ queryStep mask l n mode = (n, .commErr)) ∨
    (n.cache = none ∧ l = .noObj ∧ queryStep mask l n mode = (n, .aborted)) := by
  rcases supportLookup_cases mask l n.cache h with ⟨e, hc⟩ | ⟨hc, hl, e⟩ | ⟨hc, hl, e⟩
  · left; unfold queryStep; rw [e]; exact ⟨rfl, hc⟩
  · right; left; refine ⟨hc, hl, ?_⟩
    unfold queryStep; rw [e]; cases n; simp_all
  · right; right; refine ⟨hc, hl, ?_⟩
    unfold queryStep; rw [e]; cases n; simp_all

/-- the setter proper on a mode of the standard -/
theorem assignWith_row (l : Link) (mask : Nat) (disp : Int) (r : Name × Nat × Int) (hr : r ∈ modeTable) :
    assignWith l mask disp r.1 =
      if mask.testBit r.2.1 then (if l = .down then (disp, .dropped) else (r.2.2, .set r.2.2))
      else (disp, .refused) := by
  unfold assignWith
  rw [opModeSet_of mask r.1 r.2.1 r.2.2 (mode_rows r hr).1 (mode_rows r hr).2]
  cases mask.testBit r.2.1 <;> rfl

theorem assignWith_noMode (l : Link) (mask : Nat) (disp : Int) :
    assignWith l mask disp noModeName = if l = .down then (disp, .dropped) else (0, .set 0) := by
  unfold assignWith
  rw [(op_mode_code).2 mask]

theorem assignWith_unknown (l : Link) (mask : Nat) (disp : Int) (name : Name)
    (h : lookupN SUPPORTED name = none) : assignWith l mask disp name = (disp, .refused) := by
  unfold assignWith
  rw [(op_mode_refused).2 name mask h]

theorem answerOf_row (mask : Nat) (r : Name × Nat × Int) (hr : r ∈ modeTable) :
    answerOf mask r.1 = .answer (mask.testBit r.2.1) := by
  unfold answerOf isOpModeSupported
  rw [(mode_rows r hr).1]
  simp only [Option.map_some, and_two_pow]

theorem answerOf_unknown (mask : Nat) (name : Name) (h : lookupN SUPPORTED name = none) :
    answerOf mask name = .refused := by
  unfold answerOf isOpModeSupported
  rw [h]; rfl

/-! ## T mode_history_reachable -/

/-- For every history of mode steps on a node object (assignments, `is_op_mode_supported` calls, reads; drive
    unreachable or 0x6502 aborted at any of them, the very first included), once the drive is reachable:
    * assigning a mode of the standard writes its CiA 402 code to 0x6060 when the drive advertises it - and a read
      then shows that code - and is refused, nothing written, when it does not;
    * 'NO MODE' is written as 0; a name the tables do not know is refused;
    * `is_op_mode_supported` returns the advertised bit. -/
theorem mode_history_reachable (pdo : Bool) (mask : Nat) (hist : List (Link × MStep)) :
    (∀ r ∈ modeTable,
      (mstep pdo mask (stateAfter pdo mask MNode.fresh hist) (.up, .assign r.1)).2 =
        if mask.testBit r.2.1 then .set r.2.2 else .refused) ∧
    (∀ r ∈ modeTable, mask.testBit r.2.1 = true →
      (mstep pdo mask (mstep pdo mask (stateAfter pdo mask MNode.fresh hist) (.up, .assign r.1)).1 (.up, .read)).2 =
        .shows r.2.2) ∧
    (mstep pdo mask (stateAfter pdo mask MNode.fresh hist) (.up, .assign noModeName)).2 = .set 0 ∧
    (∀ name : Name, lookupN SUPPORTED name = none →
      (mstep pdo mask (stateAfter pdo mask MNode.fresh hist) (.up, .assign name)).2 = .refused) ∧
    (∀ r ∈ modeTable,
      (mstep pdo mask (stateAfter pdo mask MNode.fresh hist) (.up, .query r.1)).2 =
        .answer (mask.testBit r.2.1)) := by
  have hc := mode_cache_faithful pdo mask hist
  generalize stateAfter pdo mask MNode.fresh hist = n at hc
  have up_ne : ¬ (Link.up = Link.down) := by decide
  refine ⟨?_, ?_, ?_, ?_, ?_⟩
  · intro r hr
    show (assignStep mask .up n r.1).2 = _
    rcases assignStep_cases mask .up n r.1 hc with ⟨e, _, _⟩ | ⟨_, hl, _⟩ | ⟨_, hl, _⟩
    · rw [e, assignWith_row .up mask n.disp r hr]
      cases mask.testBit r.2.1 <;> simp
    · exact absurd hl (by decide)
    · exact absurd hl (by decide)
  · intro r hr hb
    show (readStep pdo .up (assignStep mask .up n r.1).1).2 = _
    rcases assignStep_cases mask .up n r.1 hc with ⟨_, e, _⟩ | ⟨_, hl, _⟩ | ⟨_, hl, _⟩
    · unfold readStep
      rw [e, assignWith_row .up mask n.disp r hr, hb]
      simp
    · exact absurd hl (by decide)
    · exact absurd hl (by decide)
  · show (assignStep mask .up n noModeName).2 = _
    rcases assignStep_cases mask .up n noModeName hc with ⟨e, _, _⟩ | ⟨_, hl, _⟩ | ⟨_, hl, _⟩
    · rw [e, assignWith_noMode]; simp
    · exact absurd hl (by decide)
    · exact absurd hl (by decide)
  · intro name hn
    show (assignStep mask .up n name).2 = _
    rcases assignStep_cases mask .up n name hc with ⟨e, _, _⟩ | ⟨_, hl, _⟩ | ⟨_, hl, _⟩
    · rw [e, assignWith_unknown .up mask n.disp name hn]
    · exact absurd hl (by decide)
    · exact absurd hl (by decide)
  · intro r hr
    show (queryStep mask .up n r.1).2 = _
    rcases queryStep_cases mask .up n r.1 hc with ⟨e, _⟩ | ⟨_, hl, _⟩ | ⟨_, hl, _⟩
    · rw [e, answerOf_row mask r hr]
    · exact absurd hl (by decide)
    · exact absurd hl (by decide)

/-- the hypotheses are met by a history whose first two look-ups fail in the two ways: PROFILED VELOCITY (bit 2,
    code 3) on a drive advertising 0x25 is then written as 3, PROFILED TORQUE (bit 3) refused -/
example :
    runHist false 0x25 MNode.fresh
      [(.down, .assign (modeTable[2]!).1), (.noObj, .query (modeTable[2]!).1), (.up, .assign (modeTable[2]!).1),
       (.up, .read), (.up, .assign (modeTable[3]!).1), (.down, .read)] =
      [.dropped, .aborted, .set 3, .shows 3, .refused, .commErr] := by decide

/-! ## T mode_history_never_wrong -/

/-- Whatever the link is at the step, after every history:
    an unadvertised (or unknown) mode is never written and never reported as supported; an advertised mode is never
    refused, never reported as unsupported, and if something is written it is its CiA 402 code. -/
theorem mode_history_never_wrong (pdo : Bool) (mask : Nat) (hist : List (Link × MStep)) (l : Link) :
    (∀ r ∈ modeTable, mask.testBit r.2.1 = false →
      (∀ c, (mstep pdo mask (stateAfter pdo mask MNode.fresh hist) (l, .assign r.1)).2 ≠ .set c) ∧
      (mstep pdo mask (stateAfter pdo mask MNode.fresh hist) (l, .query r.1)).2 ≠ .answer true) ∧
    (∀ name : Name, lookupN SUPPORTED name = none →
      (∀ c, (mstep pdo mask (stateAfter pdo mask MNode.fresh hist) (l, .assign name)).2 ≠ .set c) ∧
      (mstep pdo mask (stateAfter pdo mask MNode.fresh hist) (l, .query name)).2 ≠ .answer true) ∧
    (∀ r ∈ modeTable, mask.testBit r.2.1 = true →
      (mstep pdo mask (stateAfter pdo mask MNode.fresh hist) (l, .assign r.1)).2 ≠ .refused ∧
      (∀ c, (mstep pdo mask (stateAfter pdo mask MNode.fresh hist) (l, .assign r.1)).2 = .set c → c = r.2.2) ∧
      (mstep pdo mask (stateAfter pdo mask MNode.fresh hist) (l, .query r.1)).2 ≠ .answer false ∧
      (mstep pdo mask (stateAfter pdo mask MNode.fresh hist) (l, .query r.1)).2 ≠ .refused) := by
  have hc := mode_cache_faithful pdo mask hist
  generalize stateAfter pdo mask MNode.fresh hist = n at hc
  refine ⟨?_, ?_, ?_⟩
  · intro r hr hb
    constructor
    · intro c
      show (assignStep mask l n r.1).2 ≠ _
      rcases assignStep_cases mask l n r.1 hc with ⟨e, _, _⟩ | ⟨_, _, e⟩ | ⟨_, _, e⟩
      · rw [e, assignWith_row l mask n.disp r hr, hb]; simp
      · rw [e]; simp
      · rw [e]; simp
    · show (queryStep mask l n r.1).2 ≠ _
      rcases queryStep_cases mask l n r.1 hc with ⟨e, _⟩ | ⟨_, _, e⟩ | ⟨_, _, e⟩
      · rw [e, answerOf_row mask r hr, hb]; simp
      · rw [e]; simp
      · rw [e]; simp
  · intro name hn
    constructor
    · intro c
      show (assignStep mask l n name).2 ≠ _
      rcases assignStep_cases mask l n name hc with ⟨e, _, _⟩ | ⟨_, _, e⟩ | ⟨_, _, e⟩
      · rw [e, assignWith_unknown l mask n.disp name hn]; simp
      · rw [e]; simp
      · rw [e]; simp
    · show (queryStep mask l n name).2 ≠ _
      rcases queryStep_cases mask l n name hc with ⟨e, _⟩ | ⟨_, _, e⟩ | ⟨_, _, e⟩
      · rw [e, answerOf_unknown mask name hn]; simp
      · rw [e]; simp
      · rw [e]; simp
  · intro r hr hb
    refine ⟨?_, ?_, ?_, ?_⟩
    · show (assignStep mask l n r.1).2 ≠ _
      rcases assignStep_cases mask l n r.1 hc with ⟨e, _, _⟩ | ⟨_, _, e⟩ | ⟨_, _, e⟩
      · rw [e, assignWith_row l mask n.disp r hr, hb]
        by_cases hl : l = .down <;> simp [hl]
      · rw [e]; simp
      · rw [e]; simp
    · intro c
      show (assignStep mask l n r.1).2 = _ → _
      rcases assignStep_cases mask l n r.1 hc with ⟨e, _, _⟩ | ⟨_, _, e⟩ | ⟨_, _, e⟩
      · rw [e, assignWith_row l mask n.disp r hr, hb]
        by_cases hl : l = .down <;> simp [hl]
        intro h; exact h.symm
      · rw [e]; simp
      · rw [e]; simp
    · show (queryStep mask l n r.1).2 ≠ _
      rcases queryStep_cases mask l n r.1 hc with ⟨e, _⟩ | ⟨_, _, e⟩ | ⟨_, _, e⟩
      · rw [e, answerOf_row mask r hr, hb]; simp
      · rw [e]; simp
      · rw [e]; simp
    · show (queryStep mask l n r.1).2 ≠ _
      rcases queryStep_cases mask l n r.1 hc with ⟨e, _⟩ | ⟨_, _, e⟩ | ⟨_, _, e⟩
      · rw [e, answerOf_row mask r hr]; simp
      · rw [e]; simp
      · rw [e]; simp

/-! ## T mode_failure_reported -/

/-- A supported-modes look-up that fails (attribute not set yet, drive unreachable or 0x6502 aborted) is never
    turned into an answer: `is_op_mode_supported` raises the communication error / the abort, the assignment writes
    nothing and is no refusal (the abort is raised; the communication error is caught and logged by the setter, the
    call returns with nothing written) - and the node object is unchanged, so the next step looks up again.
    Before the first successful look-up this is the case at every step with the drive not reachable. -/
theorem mode_failure_reported (pdo : Bool) (mask : Nat) (hist : List (Link × MStep)) (mode : Name)
    (hfail : (stateAfter pdo mask MNode.fresh hist).cache = none) :
    mstep pdo mask (stateAfter pdo mask MNode.fresh hist) (.down, .query mode) =
      (stateAfter pdo mask MNode.fresh hist, .commErr) ∧
    mstep pdo mask (stateAfter pdo mask MNode.fresh hist) (.noObj, .query mode) =
      (stateAfter pdo mask MNode.fresh hist, .aborted) ∧
    mstep pdo mask (stateAfter pdo mask MNode.fresh hist) (.down, .assign mode) =
      (stateAfter pdo mask MNode.fresh hist, .dropped) ∧
    mstep pdo mask (stateAfter pdo mask MNode.fresh hist) (.noObj, .assign mode) =
      (stateAfter pdo mask MNode.fresh hist, .aborted) := by
  generalize stateAfter pdo mask MNode.fresh hist = n at hfail
  obtain ⟨c, d⟩ := n
  simp only at hfail
  subst hfail
  refine ⟨rfl, rfl, rfl, rfl⟩

/-- … and only steps with the drive reachable ever set the attribute: while every step so far had the drive
    unreachable or 0x6502 aborted, it is still unset -/
theorem cache_unset_while_failing (pdo : Bool) (mask : Nat) (hist : List (Link × MStep))
    (hall : ∀ x ∈ hist, x.1 ≠ .up) : ∀ n : MNode, n.cache = none → (stateAfter pdo mask n hist).cache = none := by
  induction hist with
  | nil => intro n h; exact h
  | cons x rest ih =>
    intro n h
    refine ih (fun y hy => hall y (List.mem_cons_of_mem _ hy)) _ ?_
    obtain ⟨l, st⟩ := x
    have hl : l ≠ .up := hall (l, st) (List.mem_cons_self ..)
    cases st with
    | assign mode =>
      show (assignStep mask l n mode).1.cache = none
      rw [assignStep_cache, h]; cases l <;> simp_all [supportLookup]
    | query mode =>
      show (queryStep mask l n mode).1.cache = none
      rw [queryStep_cache, h]; cases l <;> simp_all [supportLookup]
    | read => exact h

example : (stateAfter true 0x25 MNode.fresh [(.down, .assign (modeTable[2]!).1), (.noObj, .query noModeName)]).cache
    = none := by decide

/-! ## T mode_history_outputs -/

theorem runHist_length (pdo : Bool) (mask : Nat) (hist : List (Link × MStep)) :
    ∀ n : MNode, (runHist pdo mask n hist).length = hist.length := by
  induction hist with
  | nil => intro n; rfl
  | cons x rest ih => intro n; simp [runHist, ih]

/-- The outcomes listed for a history are, position by position, the outcome of the step taken in the state the
    earlier steps produced (so the three theorems above speak about every entry the driver prints). -/
theorem mode_history_outputs (pdo : Bool) (mask : Nat) (pre post : List (Link × MStep)) (x : Link × MStep) :
    ∀ n : MNode,
      runHist pdo mask n (pre ++ x :: post) =
        runHist pdo mask n pre ++ (mstep pdo mask (stateAfter pdo mask n pre) x).2 ::
          runHist pdo mask (mstep pdo mask (stateAfter pdo mask n pre) x).1 post ∧
      (runHist pdo mask n (pre ++ x :: post))[pre.length]? =
        some (mstep pdo mask (stateAfter pdo mask n pre) x).2 := by
  induction pre with
  | nil => intro n; exact ⟨rfl, rfl⟩
  | cons y rest ih =>
    intro n
    have h := ih (mstep pdo mask n y).1
    constructor
    · show _ :: runHist pdo mask (mstep pdo mask n y).1 (rest ++ x :: post) = _
      rw [h.1]; rfl
    · show (_ :: runHist pdo mask (mstep pdo mask n y).1 (rest ++ x :: post))[rest.length + 1]? = _
      rw [List.getElem?_cons_succ]; exact h.2

end Canopen.C19
