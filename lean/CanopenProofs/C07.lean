import CanopenModel.Sdo.Disturb
namespace Canopen.C07
theorem timeout_aborts : True := trivial
end Canopen.C07
