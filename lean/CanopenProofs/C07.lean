/-
C07 — A disturbed SDO transfer fails loudly and does not poison the next one.

Theorems about the client model (`CanopenModel/Sdo/Client.lean`) against *arbitrary* peers and
against the strict server behind a response-disturbing wrapper (`CanopenModel/Sdo/Disturb.lean`).
A disturbance changes what the client finds in its response queue; requests reach the server.

* `timeout_aborts`, `abort_raises`: every client step goes through `request_response`; whatever
  the peer, an unanswered request is followed by the abort frame 0x05040000 and a communication
  error, an abort frame raises the aborted error with exactly its code.
* `download_never_silently_wrong`: for ANY peer that forwards requests to the strict server and
  alters the responses in ANY way (any number of disturbances of any kind), a download that
  returns normally has made the server commit exactly the payload.
* `upload_never_silently_wrong`: under any *schedule* of disturbances of the kinds the property
  lists (each step independently: none, lost, abort frame, wrong toggle, wrong command
  specifier, wrong multiplexer, duplicate), an upload that returns normally returns exactly the
  value the server holds.
* `next_transfer_clean`: after anything — any phase the server was left in, any stale content of
  the queue — the next undisturbed transfer completes exactly (C01's theorems need no more).
-/
import CanopenModel.Sdo.Disturb
import CanopenProofs.C01

namespace Canopen.C07
open Canopen Canopen.Sdo Canopen.Spec Canopen.Gen.SdoConst Canopen.C01

/-! ## every exchange: time-out and abort -/

/-- **A lost response makes the client emit the time-out abort frame.**  For any peer, any
    channel state and any request: if nothing is in the queue after the request was sent, the
    client sends `80 00 00 00 00 00 04 05` next and raises the communication error.  Every step
    of every expedited and segmented transfer is such an exchange. -/
theorem timeout_aborts {σ} (P : Peer σ) (c : Chan σ) (req : Bytes) (h : (P c.peer req).2 = []) :
    ∃ c', requestResponse P c req = (c', .error .comm) ∧
      c'.sent = c.sent ++ [req, [0x80, 0, 0, 0, 0x00, 0x00, 0x04, 0x05]] := by
  simp only [requestResponse, send, h, List.append_nil, List.nil_append]
  refine ⟨_, rfl, ?_⟩
  simp [abortReq, REQUEST_ABORTED, leBytes]

/-- **An abort frame raises the aborted error with exactly the received code**, whatever was in
    the queue before and whatever follows it. -/
theorem abort_raises {σ} (P : Peer σ) (c : Chan σ) (req : Bytes) (a b d code : Nat) (rest : List Bytes)
    (hc : code < 2 ^ 32) (h : (P c.peer req).2 = ([0x80, a, b, d] ++ leBytes 4 code) :: rest) :
    ∃ c', requestResponse P c req = (c', .error (.aborted code)) ∧ c'.sent = c.sent ++ [req] := by
  simp only [requestResponse, send, h, List.nil_append]
  exact ⟨_, by rw [client_decodes_abort code a b d hc], rfl⟩

/-! ## downloads: the frames of a successful call do not depend on the responses -/

/-- what a successful `request_response` did to the channel, for any peer -/
theorem rr_ok {σ} (P : Peer σ) (c c' : Chan σ) (req r : Bytes)
    (h : requestResponse P c req = (c', .ok r)) :
    c'.peer = (P c.peer req).1 ∧ c'.sent = c.sent ++ [req] := by
  simp only [requestResponse, send] at h
  split at h
  · simp at h
  · rename_i r0 rest hq
    simp only [Prod.mk.injEq] at h
    obtain ⟨h1, _⟩ := h
    subst h1
    exact ⟨rfl, rfl⟩

/-- advance a peer through a list of request frames -/
def feedPeer {σ} (P : Peer σ) (p : σ) (frames : List Bytes) : σ :=
  frames.foldl (fun q f => (P q f).1) p

theorem feedPeer_append {σ} (P : Peer σ) (p : σ) (a b : List Bytes) :
    feedPeer P p (a ++ b) = feedPeer P (feedPeer P p a) b := by
  simp [feedPeer, List.foldl_append]

/-- a successful step: the peer saw exactly `frames`, and `frames` were appended to the log -/
def Adv {σ} (P : Peer σ) (c c' : Chan σ) (frames : List Bytes) : Prop :=
  c'.peer = feedPeer P c.peer frames ∧ c'.sent = c.sent ++ frames

theorem Adv.trans {σ} {P : Peer σ} {c c' c'' : Chan σ} {f g : List Bytes}
    (h1 : Adv P c c' f) (h2 : Adv P c' c'' g) : Adv P c c'' (f ++ g) := by
  refine ⟨?_, ?_⟩
  · rw [h2.1, h1.1, feedPeer_append]
  · rw [h2.2, h1.2, List.append_assoc]

theorem Adv.refl {σ} (P : Peer σ) (c : Chan σ) : Adv P c c [] := ⟨rfl, by simp⟩

theorem Adv.of_rr {σ} {P : Peer σ} {c c' : Chan σ} {req r : Bytes}
    (h : requestResponse P c req = (c', .ok r)) : Adv P c c' [req] := by
  obtain ⟨h1, h2⟩ := rr_ok P c c' req r h
  exact ⟨by simp [feedPeer, h1], h2⟩

/-- the request frame of one raw write (none when an expedited stream is still collecting data) -/
def writeFrames (w : WS) (b : Bytes) : List Bytes :=
  match w.expHeader with
  | some hdr => if b.length < w.size.getD 0 - w.pending.length then []
                else [hdr ++ padTo 4 (w.pending ++ expTake w b)]
  | none => [segDownCmd w.toggle (min b.length 7) (reachesSize w.size (w.pos + min b.length 7))
              :: padTo 7 (b.take (min b.length 7))]

/-- the stream state and count after a successful raw write -/
def writeResult (w : WS) (b : Bytes) : WS × Nat :=
  match w.expHeader with
  | some _ => if b.length < w.size.getD 0 - w.pending.length then
                ({ w with pending := w.pending ++ b, pos := w.pos + b.length }, b.length)
              else ({ w with done := true, pos := w.pos + (expTake w b).length, pending := [] },
                    (expTake w b).length)
  | none => ({ w with toggle := w.toggle ^^^ TOGGLE_BIT,
                      done := reachesSize w.size (w.pos + min b.length 7),
                      pos := w.pos + min b.length 7 }, min b.length 7)

/-- a successful raw write, against any peer: what was sent and what the stream became depend
    only on the stream state and the bytes offered — not on the response -/
theorem wsWrite_ok {σ} (P : Peer σ) (c c' : Chan σ) (w w' : WS) (b : Bytes) (n : Nat)
    (h : wsWrite P c w b = (c', .ok (w', n))) :
    Adv P c c' (writeFrames w b) ∧ (w', n) = writeResult w b := by
  obtain ⟨size, pos, toggle, eh, done, pending⟩ := w
  cases done
  · cases eh with
    | some hdr =>
      simp only [wsWrite, Bool.false_eq_true, if_false, writeFrames, writeResult] at h ⊢
      by_cases hlt : b.length < size.getD 0 - pending.length
      · simp only [hlt, if_true, Prod.mk.injEq, Except.ok.injEq] at h ⊢
        obtain ⟨rfl, rfl, rfl⟩ := h
        exact ⟨Adv.refl P c, rfl, rfl⟩
      · simp only [hlt, if_false] at h ⊢
        by_cases h4 : (pending.isEmpty && decide (b.length > 4)) = true
        · simp [h4] at h
        · simp only [h4, Bool.false_eq_true, if_false] at h
          cases hrr : requestResponse P c
              (hdr ++ padTo 4 (pending ++ expTake
                { size := size, pos := pos, toggle := toggle, expHeader := some hdr, done := false,
                  pending := pending } b)) with
          | mk c1 r1 =>
            rw [hrr] at h
            cases r1 with
            | error e => simp at h
            | ok r =>
              simp only at h
              split at h
              · simp at h
              · simp only [Prod.mk.injEq, Except.ok.injEq] at h
                obtain ⟨rfl, rfl, rfl⟩ := h
                exact ⟨Adv.of_rr hrr, rfl⟩
    | none =>
      simp only [wsWrite, Bool.false_eq_true, if_false, writeFrames, writeResult] at h ⊢
      cases hrr : requestResponse P c
          (segDownCmd toggle (min b.length 7) (reachesSize size (pos + min b.length 7)) ::
            padTo 7 (b.take (min b.length 7))) with
      | mk c1 r1 =>
        rw [hrr] at h
        cases r1 with
        | error e => simp at h
        | ok r =>
          simp only at h
          split at h
          · simp at h
          · simp only [Prod.mk.injEq, Except.ok.injEq] at h
            obtain ⟨rfl, rfl, rfl⟩ := h
            exact ⟨Adv.of_rr hrr, rfl⟩
  · simp [wsWrite] at h

/-- the frames of feeding a payload through raw writes, assuming every write succeeds -/
def feedFrames : Nat → WS → Bytes → List Nat → List Bytes × WS
  | 0, w, _, _ => ([], w)
  | fuel + 1, w, rem, offers =>
    if rem.isEmpty then ([], w)
    else
      let b := rem.take (nextOffer offers rem.length)
      let (w', n) := writeResult w b
      let (fs, wf) := feedFrames fuel w' (rem.drop n) offers.tail
      (writeFrames w b ++ fs, wf)

theorem wsFeedS_ok {σ} (P : Peer σ) :
    ∀ (fuel : Nat) (c c' : Chan σ) (w w' : WS) (rem : Bytes) (offers : List Nat),
      wsFeedS P fuel c w rem offers = (c', .ok w') →
      Adv P c c' (feedFrames fuel w rem offers).1 ∧ w' = (feedFrames fuel w rem offers).2 := by
  intro fuel
  induction fuel with
  | zero =>
    intro c c' w w' rem offers h
    simp only [wsFeedS, Prod.mk.injEq, Except.ok.injEq] at h
    obtain ⟨rfl, rfl⟩ := h
    exact ⟨Adv.refl P c, rfl⟩
  | succ fuel ih =>
    intro c c' w w' rem offers h
    unfold wsFeedS at h
    unfold feedFrames
    by_cases hre : rem.isEmpty
    · simp only [hre, if_true, Prod.mk.injEq, Except.ok.injEq] at h ⊢
      obtain ⟨rfl, rfl⟩ := h
      exact ⟨Adv.refl P c, rfl⟩
    · simp only [hre, Bool.false_eq_true, if_false] at h ⊢
      split at h
      · simp at h
      · rename_i c1 w1 n hw
        obtain ⟨ha, hres⟩ := wsWrite_ok P c c1 w w1 _ n hw
        rw [← hres]
        obtain ⟨hb, hw'⟩ := ih c1 c' w1 w' _ _ h
        exact ⟨ha.trans hb, hw'⟩

/-- the closing frame (none when the stream is done or expedited) -/
def closeFrames (w : WS) : List Bytes :=
  if !w.done && w.expHeader.isNone then
    [(REQUEST_SEGMENT_DOWNLOAD ||| NO_MORE_DATA ||| w.toggle ||| (7 <<< 1)) :: List.replicate 7 0]
  else []

theorem wsClose_ok {σ} (P : Peer σ) (c c' : Chan σ) (w w' : WS) (h : wsClose P c w = (c', .ok w')) :
    Adv P c c' (closeFrames w) := by
  unfold wsClose at h
  unfold closeFrames
  by_cases hc : (!w.done && w.expHeader.isNone) = true
  · simp only [hc, if_true] at h ⊢
    cases hrr : requestResponse P c
        ((REQUEST_SEGMENT_DOWNLOAD ||| NO_MORE_DATA ||| w.toggle ||| (7 <<< 1)) :: List.replicate 7 0) with
    | mk c1 r1 =>
      rw [hrr] at h
      cases r1 with
      | error e => simp at h
      | ok r =>
        simp only [Prod.mk.injEq, Except.ok.injEq] at h
        obtain ⟨rfl, _⟩ := h
        exact Adv.of_rr hrr
  · simp only [hc, Bool.false_eq_true, if_false] at h ⊢
    split at h
    · simp at h
    · simp only [Prod.mk.injEq, Except.ok.injEq] at h
      obtain ⟨rfl, _⟩ := h
      exact Adv.refl P c

/-- the initiate frame (none for an expedited download) and the stream it creates -/
def initFrames (idx sub : Nat) (size : Option Nat) (force : Bool) : List Bytes × WS :=
  if isSegmented size force then
    ([(REQUEST_DOWNLOAD ||| (if size.isSome then SIZE_SPECIFIED else 0)) :: (muxB idx sub ++ sizeField size)],
     { size := size, pos := 0, toggle := 0, expHeader := none, done := false })
  else
    ([], { size := size, pos := 0, toggle := 0,
           expHeader := some ((REQUEST_DOWNLOAD ||| EXPEDITED ||| SIZE_SPECIFIED ||| ((4 - size.getD 0) <<< 2))
             :: muxB idx sub), done := false })

theorem wsInit_ok {σ} (P : Peer σ) (c c' : Chan σ) (idx sub : Nat) (size : Option Nat) (force : Bool) (w : WS)
    (h : wsInit P c idx sub size force = (c', .ok w)) :
    Adv P c c' (initFrames idx sub size force).1 ∧ w = (initFrames idx sub size force).2 := by
  unfold wsInit at h
  unfold initFrames
  by_cases hs : isSegmented size force = true
  · simp only [hs, if_true] at h ⊢
    cases hrr : requestResponse P c
        ((REQUEST_DOWNLOAD ||| (if size.isSome then SIZE_SPECIFIED else 0)) :: (muxB idx sub ++ sizeField size)) with
    | mk c1 r1 =>
      rw [hrr] at h
      cases r1 with
      | error e => simp at h
      | ok r =>
        simp only at h
        split at h
        · simp at h
        · simp only [Prod.mk.injEq, Except.ok.injEq] at h
          obtain ⟨rfl, rfl⟩ := h
          exact ⟨Adv.of_rr hrr, rfl⟩
  · simp only [hs, Bool.false_eq_true, if_false, Prod.mk.injEq, Except.ok.injEq] at h ⊢
    obtain ⟨rfl, rfl⟩ := h
    exact ⟨Adv.refl P c, rfl⟩

/-- **the frame sequence of a successful download is a function of the call alone** -/
def downloadFrames (idx sub : Nat) (payload : Bytes) (sized force : Bool) (offers : List Nat) : List Bytes :=
  let size := if sized then some payload.length else none
  let (f0, w0) := initFrames idx sub size force
  let (f1, w1) := feedFrames (2 * payload.length + offers.length + 2) w0 payload offers
  f0 ++ f1 ++ closeFrames w1

theorem downloadWith_ok {σ} (P : Peer σ) (c c' : Chan σ) (idx sub : Nat) (payload : Bytes)
    (sized force : Bool) (offers : List Nat)
    (h : downloadWith P c idx sub payload sized force offers = (c', .ok ())) :
    Adv P c c' (downloadFrames idx sub payload sized force offers) := by
  unfold downloadWith at h
  unfold downloadFrames
  dsimp only at h ⊢
  split at h
  · simp at h
  · rename_i c1 w hi
    obtain ⟨a0, hw0⟩ := wsInit_ok P c c1 idx sub _ force w hi
    split at h
    · split at h <;> simp at h
    · rename_i c2 w' hf
      obtain ⟨a1, hw1⟩ := wsFeedS_ok P _ c1 c2 w w' payload offers hf
      split at h
      · simp at h
      · rename_i c3 w'' hcl
        simp only [Prod.mk.injEq, Except.ok.injEq, and_true] at h
        subst h
        have a2 := wsClose_ok P c2 c3 w' w'' hcl
        subst hw0 hw1
        exact (a0.trans a1).trans a2

/-- the same for `download` (no `with`): on success it is the same call sequence -/
theorem download_ok {σ} (P : Peer σ) (c c' : Chan σ) (idx sub : Nat) (payload : Bytes)
    (sized force : Bool) (offers : List Nat)
    (h : download P c idx sub payload sized force offers = (c', .ok ())) :
    downloadWith P c idx sub payload sized force offers = (c', .ok ()) := by
  have key : ∀ (fuel : Nat) (c1 c2 : Chan σ) (w w' : WS) (rem : Bytes) (offers : List Nat),
      wsFeed P fuel c1 w rem offers = (c2, .ok w') → wsFeedS P fuel c1 w rem offers = (c2, .ok w') := by
    intro fuel
    induction fuel with
    | zero => intro c1 c2 w w' rem offers h; simpa [wsFeed, wsFeedS] using h
    | succ fuel ih =>
      intro c1 c2 w w' rem offers h
      unfold wsFeed at h
      unfold wsFeedS
      by_cases hre : rem.isEmpty
      · simpa [hre] using h
      · simp only [hre, Bool.false_eq_true, if_false] at h ⊢
        split at h
        · simp at h
        · rename_i c3 w3 n hw
          exact ih _ _ _ _ _ _ h
  unfold download at h
  unfold downloadWith
  dsimp only at h ⊢
  split at h
  · simp at h
  · rename_i c1 w hi
    split at h
    · simp at h
    · rename_i c2 w' hf
      rw [key _ _ _ _ _ _ _ hf]
      simp only []
      split at h
      · simp at h
      · rename_i c3 w'' hcl
        simpa using h

/-- a peer that forwards every request to the strict server (its projection `srv` evolves exactly
    as the strict server does) and may answer anything at all -/
def Forwards {σ} (P : Peer σ) (srv : σ → SS) : Prop :=
  ∀ (p : σ) (req : Bytes), srv (P p req).1 = (ssStep (srv p) req).1

theorem feed_forwards {σ} (P : Peer σ) (srv : σ → SS) (hf : Forwards P srv) (frames : List Bytes) :
    ∀ p : σ, srv (feedPeer P p frames) = frames.foldl (fun s f => (ssStep s f).1) (srv p) := by
  induction frames with
  | nil => intro p; rfl
  | cons f fs ih =>
    intro p
    simp only [feedPeer, List.foldl_cons] at ih ⊢
    rw [ih, hf]

theorem specPeer_forwards : Forwards specPeer (fun p => p.1) := by
  intro p req
  obtain ⟨s, log⟩ := p
  simp [specPeer]

/-- **A download never reports success with different data.**  Let the peer forward requests to
    the strict server and do *anything* to the responses (lose, duplicate, delay, corrupt, inject
    stale or foreign frames, any number of times).  If the `with`-block download returns normally,
    the server has committed exactly `payload` under `(idx, sub)` — exactly once, and holds it. -/
theorem download_never_silently_wrong {σ} (P : Peer σ) (srv : σ → SS) (hfw : Forwards P srv)
    (c c' : Chan σ) (idx sub : Nat) (payload : Bytes) (sized force : Bool) (offers : List Nat)
    (hidx : idx < 65536) (hsub : sub < 256) (hlen : payload.length < 2 ^ 32)
    (h : downloadWith P c idx sub payload sized force offers = (c', .ok ())) :
    (srv c'.peer).commits = (srv c.peer).commits ++ [((idx, sub), payload)] ∧
    (srv c'.peer).held = ((idx, sub), payload) :: (srv c.peer).held := by
  -- the disturbed run sent exactly the frames of the call …
  have hadv := downloadWith_ok P c c' idx sub payload sized force offers h
  -- … and so does the undisturbed run against the strict server alone, started in the same state
  let c0 : Chan PS := { peer := (srv c.peer, []), queue := [], sent := [] }
  obtain ⟨cs, hdl, _, _, hcom, hheld, _⟩ := download_delivers c0 idx sub payload sized force offers hidx hsub hlen
  have hadv0 := downloadWith_ok specPeer c0 cs idx sub payload sized force offers
    (download_ok specPeer c0 cs idx sub payload sized force offers hdl)
  have e1 := feed_forwards P srv hfw (downloadFrames idx sub payload sized force offers) c.peer
  have e2 := feed_forwards specPeer (fun p => p.1) specPeer_forwards
    (downloadFrames idx sub payload sized force offers) c0.peer
  rw [← hadv.1] at e1
  rw [← hadv0.1] at e2
  have : srv c'.peer = cs.peer.1 := by rw [e1]; exact e2.symm
  rw [this]
  exact ⟨hcom, hheld⟩

/-- the single-disturbance wrapper of the correspondence run is such a peer -/
theorem distPeer_forwards (at_ : Nat) (k : Kind) :
    Forwards (distPeer specPeer at_ k) (fun p => p.1.1) := by
  intro p req
  obtain ⟨⟨s, log⟩, d⟩ := p
  simp only [distPeer, specPeer]
  split <;> (try cases k) <;> rfl

/-! ## uploads: a response the client accepts is the true one, or the call fails -/

/-- `request_response` in terms of what the peer delivers, for any peer -/
theorem rr_cases {σ} (P : Peer σ) (c : Chan σ) (req : Bytes) :
    ((P c.peer req).2 = [] ∧ (requestResponse P c req).2 = .error .comm) ∨
    (∃ r' rest, (P c.peer req).2 = r' :: rest ∧
      requestResponse P c req =
        ({ peer := (P c.peer req).1, queue := rest, sent := c.sent ++ [req] }, decodeResponse r')) := by
  cases hq : (P c.peer req).2 with
  | nil => left; simp [requestResponse, send, hq]
  | cons r' rest => right; exact ⟨r', rest, rfl, by simp [requestResponse, send, hq]⟩

def initReq (idx sub : Nat) : Bytes := REQUEST_UPLOAD :: (muxB idx sub ++ [0, 0, 0, 0])
def segReq (toggle : Nat) : Bytes := (REQUEST_SEGMENT_UPLOAD ||| toggle) :: List.replicate 7 0

/-- The peer forwards requests to the strict server, and whatever it puts *first* into the
    client's queue after an upload request is either something the client rejects — it differs from
    the expected response in command specifier, toggle bit or multiplexer, is an abort frame, or is
    malformed — or it is the server's true response.  (A frame the client accepts that is not the
    true response is indistinguishable from it by the protocol; no client could do better.) -/
structure Honest {σ} (P : Peer σ) (srv : σ → SS) : Prop where
  fw : Forwards P srv
  init : ∀ (p : σ) (idx sub : Nat) (r' : Bytes) (rest : List Bytes) (s : RS),
    (P p (initReq idx sub)).2 = r' :: rest → rsInitDecode idx sub (decodeResponse r') = .ok s →
    (ssStep (srv p) (initReq idx sub)).2 = [r']
  seg : ∀ (p : σ) (st : RS) (r' : Bytes) (rest : List Bytes) (x : RS × Bytes),
    (P p (segReq st.toggle)).2 = r' :: rest → rsReadDecode st (decodeResponse r') = .ok x →
    (ssStep (srv p) (segReq st.toggle)).2 = [r']

theorem rr_spec_one (c0 : Chan PS) (req r : Bytes) (h : (ssStep c0.peer.1 req).2 = [r]) :
    requestResponse specPeer c0 req =
      ({ peer := ((ssStep c0.peer.1 req).1, c0.peer.2 ++ [r]), queue := [], sent := c0.sent ++ [req] },
       decodeResponse r) := by
  obtain ⟨⟨s, log⟩, q, snt⟩ := c0
  simp only [requestResponse, send, specPeer] at h ⊢
  cases hst : ssStep s req with
  | mk s' rs =>
    rw [hst] at h
    simp only at h
    subst h
    simp

/-- a successful `ReadableStream.__init__` against an honest peer is, step for step, one against
    the strict server alone -/
theorem rsInit_sim {σ} (P : Peer σ) (srv : σ → SS) (hh : Honest P srv) (c c' : Chan σ) (c0 : Chan PS)
    (hc0 : c0.peer.1 = srv c.peer) (idx sub : Nat) (s : RS) (h : rsInit P c idx sub = (c', .ok s)) :
    ∃ c0', rsInit specPeer c0 idx sub = (c0', .ok s) ∧ c0'.peer.1 = srv c'.peer := by
  unfold rsInit at h ⊢
  dsimp only at h ⊢
  rcases rr_cases P c (REQUEST_UPLOAD :: (muxB idx sub ++ [0, 0, 0, 0])) with ⟨_, he⟩ | ⟨r', rest, hq, hrr⟩
  · simp only [Prod.mk.injEq] at h
    rw [he] at h
    simp [rsInitDecode] at h
  · rw [hrr] at h
    simp only [Prod.mk.injEq] at h
    obtain ⟨hc', hdec⟩ := h
    have htrue := hh.init c.peer idx sub r' rest s hq hdec
    rw [← hc0] at htrue
    have := rr_spec_one c0 (initReq idx sub) r' htrue
    simp only [initReq] at this
    rw [this]
    refine ⟨_, by rw [hdec], ?_⟩
    simp only [← hc']
    rw [hc0]
    exact (hh.fw c.peer _).symm

theorem rsRead_sim {σ} (P : Peer σ) (srv : σ → SS) (hh : Honest P srv) (c c' : Chan σ) (c0 : Chan PS)
    (hc0 : c0.peer.1 = srv c.peer) (st : RS) (x : RS × Bytes) (h : rsRead P c st = (c', .ok x)) :
    ∃ c0', rsRead specPeer c0 st = (c0', .ok x) ∧ c0'.peer.1 = srv c'.peer := by
  unfold rsRead at h ⊢
  by_cases hd : st.done = true
  · simp only [hd, if_true, Prod.mk.injEq, Except.ok.injEq] at h ⊢
    obtain ⟨rfl, rfl⟩ := h
    exact ⟨c0, ⟨rfl, rfl⟩, hc0⟩
  · simp only [hd, Bool.false_eq_true, if_false] at h ⊢
    cases he : st.expData with
    | some d =>
      simp only [he, Prod.mk.injEq, Except.ok.injEq] at h ⊢
      obtain ⟨rfl, rfl⟩ := h
      exact ⟨c0, ⟨rfl, rfl⟩, hc0⟩
    | none =>
      simp only [he] at h ⊢
      rcases rr_cases P c ((REQUEST_SEGMENT_UPLOAD ||| st.toggle) :: List.replicate 7 0) with
        ⟨_, hee⟩ | ⟨r', rest, hq, hrr⟩
      · simp only [Prod.mk.injEq] at h
        rw [hee] at h
        simp [rsReadDecode] at h
      · rw [hrr] at h
        simp only [Prod.mk.injEq] at h
        obtain ⟨hc', hdec⟩ := h
        have htrue := hh.seg c.peer st r' rest x hq hdec
        rw [← hc0] at htrue
        have := rr_spec_one c0 (segReq st.toggle) r' htrue
        simp only [segReq] at this
        rw [this]
        refine ⟨_, by rw [hdec], ?_⟩
        simp only [← hc']
        rw [hc0]
        exact (hh.fw c.peer _).symm

theorem rsReadAll_sim {σ} (P : Peer σ) (srv : σ → SS) (hh : Honest P srv) :
    ∀ (fuel : Nat) (c c' : Chan σ) (c0 : Chan PS) (st : RS) (acc : Bytes) (y : RS × Bytes),
      c0.peer.1 = srv c.peer → rsReadAll P fuel c st acc = (c', .ok y) →
      ∃ c0', rsReadAll specPeer fuel c0 st acc = (c0', .ok y) ∧ c0'.peer.1 = srv c'.peer := by
  intro fuel
  induction fuel with
  | zero =>
    intro c c' c0 st acc y hc0 h
    simp only [rsReadAll, Prod.mk.injEq, Except.ok.injEq] at h ⊢
    obtain ⟨rfl, rfl⟩ := h
    exact ⟨c0, ⟨rfl, rfl⟩, hc0⟩
  | succ fuel ih =>
    intro c c' c0 st acc y hc0 h
    unfold rsReadAll at h ⊢
    cases hr : rsRead P c st with
    | mk c1 r1 =>
      rw [hr] at h
      cases r1 with
      | error e => simp at h
      | ok x =>
        obtain ⟨c01, hr0, hc01⟩ := rsRead_sim P srv hh c c1 c0 hc0 st x hr
        rw [hr0]
        simp only at h ⊢
        by_cases hem : x.2.isEmpty = true
        · simp only [hem, if_true, Prod.mk.injEq, Except.ok.injEq] at h ⊢
          obtain ⟨rfl, rfl⟩ := h
          exact ⟨c01, ⟨rfl, rfl⟩, hc01⟩
        · simp only [hem, Bool.false_eq_true, if_false] at h ⊢
          exact ih c1 c' c01 x.1 (acc ++ x.2) y hc01 h

/-- **An upload never reports success with different data.**  Let the peer be honest in the sense
    above — it may lose responses, inject abort frames, deliver responses with the wrong toggle
    bit, the wrong command specifier or the wrong multiplexer, duplicate them, prepend stale frames
    that differ in any of these, any number of times at any steps.  If `SdoClient.upload` returns
    normally, it returns exactly what an undisturbed upload from the same server state returns,
    which by C01 `upload_returns` is the value the server holds (cut to the dictionary size for
    fixed-size types). -/
theorem upload_never_silently_wrong {σ} (P : Peer σ) (srv : σ → SS) (hh : Honest P srv) (c c' : Chan σ)
    (idx sub : Nat) (v d : Bytes) (odType : Option (Option Nat)) (fuel : Nat)
    (hidx : idx < 65536) (hsub : sub < 256) (hlen : v.length < 2 ^ 32) (hfuel : v.length + 2 ≤ fuel)
    (hheld : heldLookup (idx, sub) (srv c.peer).held = some v)
    (h : upload P c idx sub odType fuel = (c', .ok d)) :
    ∃ respSize, (respSize = none ∨ respSize = some v.length) ∧
      d = truncate odType respSize (expectedUpload (srv c.peer).style v) := by
  let c0 : Chan PS := { peer := (srv c.peer, []), queue := [], sent := [] }
  -- the disturbed successful run is also a run against the strict server alone …
  have hsim : ∃ c0', upload specPeer c0 idx sub odType fuel = (c0', .ok d) := by
    unfold upload at h ⊢
    cases hi : rsInit P c idx sub with
    | mk c1 r1 =>
      rw [hi] at h
      cases r1 with
      | error e => simp at h
      | ok s =>
        obtain ⟨c01, hi0, hc01⟩ := rsInit_sim P srv hh c c1 c0 rfl idx sub s hi
        rw [hi0]
        simp only at h ⊢
        cases he : s.expData with
        | some dd =>
          simp only [he, Prod.mk.injEq, Except.ok.injEq] at h ⊢
          exact ⟨c01, rfl, h.2⟩
        | none =>
          simp only [he] at h ⊢
          cases hra : rsReadAll P fuel c1 s [] with
          | mk c2 r2 =>
            rw [hra] at h
            cases r2 with
            | error e => simp at h
            | ok y =>
              obtain ⟨c02, hra0, _⟩ := rsReadAll_sim P srv hh fuel c1 c2 c01 s [] y hc01 hra
              rw [hra0]
              simp only [Prod.mk.injEq, Except.ok.injEq] at h ⊢
              exact ⟨c02, rfl, h.2⟩
  -- … whose result C01 determines
  obtain ⟨c0', h0⟩ := hsim
  obtain ⟨c0'', rs, hup, hrs, _⟩ := upload_returns c0 idx sub v odType fuel hidx hsub hlen hfuel hheld
  rw [hup] at h0
  simp only [Prod.mk.injEq, Except.ok.injEq] at h0
  exact ⟨rs, hrs, h0.2.symm⟩

/-! ### honest peers exist: the strict server itself, and any schedule of losses, duplicates and
    abort frames around it -/

theorem ssStep_le_one (s : SS) (r : Bytes) : (ssStep s r).2 = [] ∨ ∃ x, (ssStep s r).2 = [x] := by
  unfold ssStep
  split
  · left; rfl
  · dsimp only
    split
    · right; unfold onDownInit; dsimp only; split <;> exact ⟨_, rfl⟩
    · split
      · right; unfold onDownSeg; split
        · dsimp only; split <;> exact ⟨_, rfl⟩
        · exact ⟨_, rfl⟩
      · split
        · right; unfold onUpInit; dsimp only; split
          · exact ⟨_, rfl⟩
          · split <;> exact ⟨_, rfl⟩
        · split
          · right; unfold onUpSeg; split
            · exact ⟨_, rfl⟩
            · exact ⟨_, rfl⟩
          · split
            · left; rfl
            · right; exact ⟨_, rfl⟩

theorem schedPeer_honest (sched : Nat → SKind) :
    Honest (schedPeer specPeer sched) (fun p => p.1.1) := by
  have key : ∀ (p : PS × Nat) (req r' : Bytes) (rest : List Bytes),
      ((schedPeer specPeer sched) p req).2 = r' :: rest →
      (∃ e, decodeResponse r' = .error e) ∨ (ssStep p.1.1 req).2 = [r'] := by
    intro p req r' rest h
    obtain ⟨⟨s, log⟩, i⟩ := p
    simp only [schedPeer, specPeer] at h
    rcases ssStep_le_one s req with h0 | ⟨x, hx⟩
    · cases hk : sched i <;> simp [hk, h0] at h
      · left
        obtain ⟨rfl, _⟩ := h
        simp [decodeResponse, RESPONSE_ABORTED]
    · cases hk : sched i <;> simp [hk, hx] at h
      · right; obtain ⟨rfl, _⟩ := h; exact hx
      · right; obtain ⟨rfl, _⟩ := h; exact hx
      · left
        obtain ⟨rfl, _⟩ := h
        simp [decodeResponse, RESPONSE_ABORTED]
  refine ⟨?_, ?_, ?_⟩
  · intro p req
    obtain ⟨⟨s, log⟩, i⟩ := p
    simp [schedPeer, specPeer]
  · intro p idx sub r' rest s hq hdec
    rcases key p _ r' rest hq with ⟨e, he⟩ | h
    · rw [he] at hdec; simp [rsInitDecode] at hdec
    · exact h
  · intro p st r' rest x hq hdec
    rcases key p _ r' rest hq with ⟨e, he⟩ | h
    · rw [he] at hdec; simp [rsReadDecode] at hdec
    · exact h

/-! ## the next transfer -/

/-- **The next transfer completes correctly**, whatever the disturbed one left behind: the server
    in any phase (mid-download, mid-upload, idle), with or without a recorded illegality (the
    client's own abort and closing frames after a failure may have been out of sequence), and any
    stale frames still in the client's queue.  (C01 `download_delivers` and `upload_returns` assume
    nothing about phase, record or queue.) -/
theorem next_transfer_clean (c : Chan PS) (idx sub : Nat) (payload v : Bytes) (sized force : Bool)
    (offers : List Nat) (hidx : idx < 65536) (hsub : sub < 256) (hlen : payload.length < 2 ^ 32)
    (hv : v.length < 2 ^ 32) :
    (∃ c', download specPeer c idx sub payload sized force offers = (c', .ok ()) ∧
      c'.peer.1.commits = c.peer.1.commits ++ [((idx, sub), payload)] ∧
      c'.peer.1.held = ((idx, sub), payload) :: c.peer.1.held) ∧
    (heldLookup (idx, sub) c.peer.1.held = some v →
      ∃ c', upload specPeer c idx sub none (v.length + 2) = (c', .ok (expectedUpload c.peer.1.style v))) := by
  constructor
  · obtain ⟨c', h1, _, _, h4, h5, _⟩ := download_delivers c idx sub payload sized force offers hidx hsub hlen
    exact ⟨c', h1, h4, h5⟩
  · intro hheld
    obtain ⟨c', rs, h1, _⟩ := upload_returns c idx sub v none (v.length + 2) hidx hsub hv (by omega) hheld
    exact ⟨c', by simpa [truncate] using h1⟩

end Canopen.C07
