/-
C01 — reads through the buffered file interface: `readinto` re-cuts the raw segment stream.

`io.BufferedReader` reaches `ReadableStream` through `readinto(b)` with buffers of any size
(whatever room is left in its own buffer).  After the repair of F22 a segment that does not fit
is handed over in pieces.  The theorem: for every sequence of buffer sizes, the pieces handed
over, followed by what is still kept back, are exactly the bytes kept back before followed by
the segments the raw stream delivered — nothing lost, repeated or reordered, no piece larger
than its buffer — and the raw stream and the channel end exactly where `k` plain `read` calls
leave them.  With C01 `upload_returns` (the raw segment stream is the server's value) every way
of chunking reads through the file-like interface returns the value.
-/
import CanopenModel.Sdo.ReadInto

namespace Canopen.C01
open Canopen Canopen.Sdo

theorem readinto_rechunks {σ} (P : Peer σ) (ns : List Nat) :
    ∀ (c c' : Chan σ) (b b' : RB) (chunks : List Bytes),
      rbRun P c b ns = (c', .ok (b', chunks)) →
      ∃ (k : Nat) (segs : List Bytes),
        rawRun P k c b.st = (c', .ok (b'.st, segs)) ∧
        b.spare ++ segs.flatten = chunks.flatten ++ b'.spare ∧
        chunks.length = ns.length ∧
        ∀ i (h : i < chunks.length) (h' : i < ns.length), (chunks[i]).length ≤ ns[i] := by
  induction ns with
  | nil =>
    intro c c' b b' chunks h
    simp only [rbRun, Prod.mk.injEq, Except.ok.injEq] at h
    obtain ⟨rfl, rfl, rfl⟩ := h
    exact ⟨0, [], by simp [rawRun], by simp, rfl, by intro i h; simp at h⟩
  | cons n ns ih =>
    intro c c' b b' chunks h
    unfold rbRun at h
    cases hri : rbReadInto P c b n with
    | mk c1 r1 =>
      rw [hri] at h
      cases r1 with
      | error e => simp at h
      | ok x =>
        obtain ⟨b1, d⟩ := x
        simp only at h
        cases hrun : rbRun P c1 b1 ns with
        | mk c2 r2 =>
          rw [hrun] at h
          cases r2 with
          | error e => simp at h
          | ok y =>
            obtain ⟨b2, ds⟩ := y
            simp only [Prod.mk.injEq, Except.ok.injEq] at h
            obtain ⟨rfl, rfl, rfl⟩ := h
            obtain ⟨k, segs, hraw, hcat, hlen, hfit⟩ := ih c1 c2 b1 b2 ds hrun
            -- what the single `readinto` did
            unfold rbReadInto rbRead at hri
            by_cases hsp : b.spare.isEmpty = true
            · simp only [hsp, if_true] at hri
              cases hr : rsRead P c b.st with
              | mk cr rr =>
                rw [hr] at hri
                cases rr with
                | error e => simp at hri
                | ok z =>
                  obtain ⟨s1, seg⟩ := z
                  simp only [Prod.mk.injEq, Except.ok.injEq] at hri
                  obtain ⟨rfl, rfl, rfl⟩ := hri
                  refine ⟨k + 1, seg :: segs, ?_, ?_, by simp [hlen], ?_⟩
                  · simp only [rawRun, hr]
                    simp only at hraw
                    rw [hraw]
                  · have hb : b.spare = [] := by simpa using hsp
                    simp only at hcat
                    simp only [hb, List.nil_append, List.flatten_cons, List.append_assoc]
                    rw [← hcat, ← List.append_assoc, List.take_append_drop]
                  · intro i h1 h2
                    cases i with
                    | zero => simp [List.length_take]; omega
                    | succ j =>
                      simp only [List.getElem_cons_succ]
                      exact hfit j (by simpa using h1) (by simpa using h2)
            · simp only [hsp, Bool.false_eq_true, if_false, Prod.mk.injEq, Except.ok.injEq] at hri
              obtain ⟨rfl, rfl, rfl⟩ := hri
              refine ⟨k, segs, by simpa using hraw, ?_, by simp [hlen], ?_⟩
              · simp only at hcat
                simp only [List.flatten_cons, List.append_assoc]
                rw [← hcat, ← List.append_assoc, List.take_append_drop]
              · intro i h1 h2
                cases i with
                | zero => simp [List.length_take]; omega
                | succ j =>
                  simp only [List.getElem_cons_succ]
                  exact hfit j (by simpa using h1) (by simpa using h2)

/-- non-vacuity: two segments read through buffers of sizes 3, 9, 2, 9 -/
example :
    let P : Peer Nat := fun p req =>
      if req.head? = some 0x60 then (p + 1, [[0x00, 1, 2, 3, 4, 5, 6, 7]])
      else (p + 1, [[0x11 ||| (3 <<< 1), 8, 9, 10, 11, 0, 0, 0]])
    let c0 : Chan Nat := { peer := 0, queue := [], sent := [] }
    let s0 : RS := { toggle := 0, done := false, expData := none, pos := 0, size := none }
    (rbRun P c0 { st := s0, spare := [] } [3, 9, 2, 9]).2.toOption.map (·.2) =
      some [[1, 2, 3], [4, 5, 6, 7], [8, 9], [10, 11]] := by
  decide

end Canopen.C01
