/-
C01 — the text mode of the file-like interface (`open(…, "w"/"r", encoding=…)`).

The text layer `CanopenModel/Sdo/Text.lean` over the transfer model: strict codec for ascii,
latin-1 and utf-8, universal newlines on input, `write(str)` calls that encode before they hand
anything over.  Theorems, each for every input:

* `text_roundtrip` — decoding what was encoded gives the text back (so nothing is dropped,
  replaced or merged by the codec);
* `text_download_delivers` — a text download whose pieces can all be encoded commits exactly
  `encodeText enc (all pieces)` on the strict server, in legal frames, however the text is split
  into `write` calls and however the buffered writer cuts its raw writes;
* `text_download_unencodable` — when the text cannot be encoded nothing is reported as
  completed: the caller gets an error, whatever the server answered;
* `text_upload_returns` — a text upload returns `univNl (decodeText enc bytes)` of exactly the
  bytes the server holds, or raises when they are not text in that encoding;
* `text_download_then_upload` — the two composed: what was written is what is read (up to the
  newline translation `univNl`, the identity on text without carriage returns).
-/
import CanopenModel.Sdo.Text
import CanopenProofs.C01

namespace Canopen.C01
open Canopen Canopen.Sdo Canopen.Spec

/-! ## codec -/

theorem encodeText_cons (enc : Enc) (cp : Nat) (r : List Nat) (bs : Bytes)
    (h : encodeText enc (cp :: r) = some bs) :
    ∃ b bs', encodeCp enc cp = some b ∧ encodeText enc r = some bs' ∧ bs = b ++ bs' := by
  unfold encodeText at h
  cases h1 : encodeCp enc cp with
  | none => rw [h1] at h; simp at h
  | some b =>
    cases h2 : encodeText enc r with
    | none => rw [h1, h2] at h; simp at h
    | some bs' =>
      rw [h1, h2] at h
      simp only [Option.some.injEq] at h
      exact ⟨b, bs', rfl, rfl, h.symm⟩

theorem roundtrip_bytewise (enc : Enc) (lim : Nat)
    (henc : ∀ cp, encodeCp enc cp = if cp < lim then some [cp] else none) :
    ∀ (s : List Nat) (bs : Bytes), encodeText enc s = some bs → decodeBytewise lim bs = some s := by
  intro s
  induction s with
  | nil => intro bs h; simp only [encodeText, Option.some.injEq] at h; subst h; rfl
  | cons cp r ih =>
    intro bs h
    obtain ⟨b, bs', h1, h2, rfl⟩ := encodeText_cons enc cp r bs h
    rw [henc] at h1
    by_cases hlt : cp < lim
    · simp only [hlt, if_true, Option.some.injEq] at h1
      subst h1
      simp [decodeBytewise, hlt, ih bs' h2]
    · simp [hlt] at h1

/-- the decoder's first step undoes the encoder's last: for every encodable code point -/
theorem utf8Step_enc (cp : Nat) (b rest : Bytes) (h : encUtf8 cp = some b) :
    utf8Step (b ++ rest) = some (cp, rest) ∧ 1 ≤ b.length := by
  unfold encUtf8 at h
  by_cases h1 : cp < 0x80
  · simp only [h1, if_true, Option.some.injEq] at h
    subst h
    simp [utf8Step, h1]
  · by_cases h2 : cp < 0x800
    · simp only [h1, h2, if_true, if_false, Option.some.injEq] at h
      subst h
      have a1 : ¬ (0xC0 + cp / 64 < 0x80) := by omega
      have a2 : ¬ (0xC0 + cp / 64 < 0xC2) := by omega
      have a3 : 0xC0 + cp / 64 < 0xE0 := by omega
      have a4 : isCont (0x80 + cp % 64) = true := by simp [isCont]; omega
      have a5 : (0xC0 + cp / 64 - 0xC0) * 64 + (0x80 + cp % 64 - 0x80) = cp := by omega
      simp [utf8Step, a1, a2, a3, a4]
      omega
    · by_cases h3 : cp < 0x10000
      · by_cases hs : 0xD800 ≤ cp ∧ cp ≤ 0xDFFF
        · simp [h1, h2, h3, hs] at h
        · simp only [h1, h2, h3, hs, if_true, if_false, Option.some.injEq] at h
          subst h
          have a1 : ¬ (0xE0 + cp / 4096 < 0x80) := by omega
          have a2 : ¬ (0xE0 + cp / 4096 < 0xC2) := by omega
          have a3 : ¬ (0xE0 + cp / 4096 < 0xE0) := by omega
          have a4 : 0xE0 + cp / 4096 < 0xF0 := by omega
          have a5 : isCont (0x80 + cp / 64 % 64) = true := by simp [isCont]; omega
          have a6 : isCont (0x80 + cp % 64) = true := by simp [isCont]; omega
          have a7 : cp3 (0xE0 + cp / 4096) (0x80 + cp / 64 % 64) (0x80 + cp % 64) = cp := by
            unfold cp3; omega
          have a8 : 0x800 ≤ cp := by omega
          have a9 : ¬ (0xD800 ≤ cp ∧ cp ≤ 0xDFFF) := hs
          have a10 : (decide (0xD800 ≤ cp) && decide (cp ≤ 0xDFFF)) = false := by
            simp only [Bool.and_eq_false_iff, decide_eq_false_iff_not]; omega
          refine ⟨?_, by simp⟩
          simp only [List.cons_append, List.nil_append, utf8Step, a1, a2, a3, a4, if_true, if_false, a5, a6, a7,
            Bool.and_self, decide_eq_true a8, a10, Bool.not_false]
      · by_cases h4 : cp ≤ 0x10FFFF
        · simp only [h1, h2, h3, h4, if_true, if_false, Option.some.injEq] at h
          subst h
          have a1 : ¬ (0xF0 + cp / 262144 < 0x80) := by omega
          have a2 : ¬ (0xF0 + cp / 262144 < 0xC2) := by omega
          have a3 : ¬ (0xF0 + cp / 262144 < 0xE0) := by omega
          have a4 : ¬ (0xF0 + cp / 262144 < 0xF0) := by omega
          have a4' : 0xF0 + cp / 262144 < 0xF5 := by omega
          have a5 : isCont (0x80 + cp / 4096 % 64) = true := by simp [isCont]; omega
          have a6 : isCont (0x80 + cp / 64 % 64) = true := by simp [isCont]; omega
          have a6' : isCont (0x80 + cp % 64) = true := by simp [isCont]; omega
          have a7 : cp4 (0xF0 + cp / 262144) (0x80 + cp / 4096 % 64) (0x80 + cp / 64 % 64) (0x80 + cp % 64) = cp := by
            unfold cp4; omega
          have a8 : 0x10000 ≤ cp := by omega
          refine ⟨?_, by simp⟩
          simp only [List.cons_append, List.nil_append, utf8Step, a1, a2, a3, a4, a4', if_true, if_false, a5, a6, a6',
            a7, Bool.and_self, decide_eq_true a8, decide_eq_true h4]
        · simp [h1, h2, h3, h4] at h

theorem roundtrip_utf8 :
    ∀ (s : List Nat) (bs : Bytes), encodeText .utf8 s = some bs →
      ∀ f, bs.length ≤ f → decodeUtf8 f bs = some s := by
  intro s
  induction s with
  | nil =>
    intro bs h f _
    simp only [encodeText, Option.some.injEq] at h
    subst h
    cases f <;> simp [decodeUtf8]
  | cons cp r ih =>
    intro bs h f hf
    obtain ⟨b, bs', h1, h2, rfl⟩ := encodeText_cons .utf8 cp r bs h
    simp only [encodeCp] at h1
    obtain ⟨hstep, hlen⟩ := utf8Step_enc cp b bs' h1
    have hne : (b ++ bs').isEmpty = false := by
      cases b with
      | nil => simp at hlen
      | cons x xs => rfl
    cases f with
    | zero => simp only [List.length_append] at hf; omega
    | succ f =>
      have := ih bs' h2 f (by simp only [List.length_append] at hf; omega)
      simp [decodeUtf8, hne, hstep, this]

/-- **Decoding what was encoded gives the text back** — for every encoding of the model and every
    text that can be encoded: no character is dropped, replaced, merged or reordered. -/
theorem text_roundtrip (enc : Enc) (s : List Nat) (bs : Bytes) (h : encodeText enc s = some bs) :
    decodeText enc bs = some s := by
  cases enc with
  | ascii => exact roundtrip_bytewise .ascii 128 (fun _ => rfl) s bs h
  | latin1 => exact roundtrip_bytewise .latin1 256 (fun _ => rfl) s bs h
  | utf8 => exact roundtrip_utf8 s bs h bs.length (Nat.le_refl _)

/-- the decoder's first step only accepts what the encoder produces -/
theorem utf8Step_sound (bs : Bytes) (cp : Nat) (rest : Bytes) (h : utf8Step bs = some (cp, rest)) :
    ∃ b, encUtf8 cp = some b ∧ bs = b ++ rest := by
  cases bs with
  | nil => simp [utf8Step] at h
  | cons b0 r =>
    simp only [utf8Step] at h
    by_cases c1 : b0 < 0x80
    · simp only [c1, if_true, Option.some.injEq, Prod.mk.injEq] at h
      obtain ⟨rfl, rfl⟩ := h
      exact ⟨[b0], by simp [encUtf8, c1], rfl⟩
    · by_cases c2 : b0 < 0xC2
      · simp [c1, c2] at h
      · by_cases c3 : b0 < 0xE0
        · simp only [c1, c2, c3, if_true, if_false] at h
          cases r with
          | nil => simp at h
          | cons b1 r1 =>
            simp only at h
            by_cases k1 : isCont b1 = true
            · simp only [k1, if_true, Option.some.injEq, Prod.mk.injEq] at h
              obtain ⟨rfl, rfl⟩ := h
              simp only [isCont, Bool.and_eq_true, decide_eq_true_eq] at k1
              refine ⟨[b0, b1], ?_, rfl⟩
              have e1 : ¬ ((b0 - 0xC0) * 64 + (b1 - 0x80) < 0x80) := by omega
              have e2 : (b0 - 0xC0) * 64 + (b1 - 0x80) < 0x800 := by omega
              simp only [encUtf8, e1, e2, if_true, if_false, Option.some.injEq, List.cons.injEq, and_true]
              constructor <;> omega
            · simp [k1] at h
        · by_cases c4 : b0 < 0xF0
          · simp only [c1, c2, c3, c4, if_true, if_false] at h
            match r, h with
            | [], h => simp at h
            | [_], h => simp at h
            | b1 :: b2 :: r2, h =>
              simp only at h
              split at h
              · rename_i hc
                simp only [Option.some.injEq, Prod.mk.injEq] at h
                obtain ⟨rfl, rfl⟩ := h
                simp only [isCont, Bool.and_eq_true, decide_eq_true_eq, Bool.not_eq_true', Bool.and_eq_false_iff,
                  decide_eq_false_iff_not] at hc
                obtain ⟨⟨⟨⟨k1a, k1b⟩, ⟨k2a, k2b⟩⟩, k3⟩, k4⟩ := hc
                refine ⟨[b0, b1, b2], ?_, rfl⟩
                unfold cp3 at k3 k4 ⊢
                have e1 : ¬ ((b0 - 0xE0) * 4096 + (b1 - 0x80) * 64 + (b2 - 0x80) < 0x80) := by omega
                have e2 : ¬ ((b0 - 0xE0) * 4096 + (b1 - 0x80) * 64 + (b2 - 0x80) < 0x800) := by omega
                have e3 : (b0 - 0xE0) * 4096 + (b1 - 0x80) * 64 + (b2 - 0x80) < 0x10000 := by omega
                have e4 : ¬ (0xD800 ≤ (b0 - 0xE0) * 4096 + (b1 - 0x80) * 64 + (b2 - 0x80) ∧
                    (b0 - 0xE0) * 4096 + (b1 - 0x80) * 64 + (b2 - 0x80) ≤ 0xDFFF) := by omega
                simp only [encUtf8, e1, e2, e3, e4, if_true, if_false, Option.some.injEq, List.cons.injEq, and_true]
                refine ⟨?_, ?_, ?_⟩ <;> omega
              · simp at h
          · by_cases c5 : b0 < 0xF5
            · simp only [c1, c2, c3, c4, c5, if_true, if_false] at h
              match r, h with
              | [], h => simp at h
              | [_], h => simp at h
              | [_, _], h => simp at h
              | b1 :: b2 :: b3 :: r3, h =>
                simp only at h
                split at h
                · rename_i hc
                  simp only [Option.some.injEq, Prod.mk.injEq] at h
                  obtain ⟨rfl, rfl⟩ := h
                  simp only [isCont, Bool.and_eq_true, decide_eq_true_eq] at hc
                  obtain ⟨⟨⟨⟨⟨k1a, k1b⟩, ⟨k2a, k2b⟩⟩, ⟨k3a, k3b⟩⟩, k4⟩, k5⟩ := hc
                  refine ⟨[b0, b1, b2, b3], ?_, rfl⟩
                  unfold cp4 at k4 k5 ⊢
                  have e1 : ¬ ((b0 - 0xF0) * 262144 + (b1 - 0x80) * 4096 + (b2 - 0x80) * 64 + (b3 - 0x80) < 0x80) := by omega
                  have e2 : ¬ ((b0 - 0xF0) * 262144 + (b1 - 0x80) * 4096 + (b2 - 0x80) * 64 + (b3 - 0x80) < 0x800) := by omega
                  have e3 : ¬ ((b0 - 0xF0) * 262144 + (b1 - 0x80) * 4096 + (b2 - 0x80) * 64 + (b3 - 0x80) < 0x10000) := by omega
                  simp only [encUtf8, e1, e2, e3, k5, if_true, if_false, Option.some.injEq, List.cons.injEq, and_true]
                  refine ⟨?_, ?_, ?_, ?_⟩ <;> omega
                · simp at h
            · simp [c1, c2, c3, c4, c5] at h

theorem decodeUtf8_sound : ∀ (f : Nat) (bs : Bytes) (s : List Nat),
    decodeUtf8 f bs = some s → encodeText .utf8 s = some bs := by
  intro f
  induction f with
  | zero =>
    intro bs s h
    cases bs with
    | nil => simp [decodeUtf8] at h; subst h; rfl
    | cons b r => simp [decodeUtf8] at h
  | succ f ih =>
    intro bs s h
    cases bs with
    | nil => simp [decodeUtf8] at h; subst h; rfl
    | cons b0 r =>
      simp only [decodeUtf8, List.isEmpty_cons, Bool.false_eq_true, if_false] at h
      cases hs : utf8Step (b0 :: r) with
      | none => rw [hs] at h; simp at h
      | some x =>
        obtain ⟨cp, rest⟩ := x
        rw [hs] at h
        simp only at h
        cases hd : decodeUtf8 f rest with
        | none => rw [hd] at h; simp at h
        | some s' =>
          rw [hd] at h
          simp only [Option.some.injEq] at h
          subst h
          obtain ⟨b, hb, hbs⟩ := utf8Step_sound _ _ _ hs
          rw [hbs]
          simp [encodeText, encodeCp, hb, ih rest s' hd]

theorem decodeBytewise_sound (enc : Enc) (lim : Nat)
    (henc : ∀ cp, encodeCp enc cp = if cp < lim then some [cp] else none) :
    ∀ (bs : Bytes) (s : List Nat), decodeBytewise lim bs = some s → encodeText enc s = some bs := by
  intro bs
  induction bs with
  | nil => intro s h; simp [decodeBytewise] at h; subst h; rfl
  | cons b r ih =>
    intro s h
    simp only [decodeBytewise] at h
    by_cases hlt : b < lim
    · simp only [hlt, if_true] at h
      cases hd : decodeBytewise lim r with
      | none => rw [hd] at h; simp at h
      | some s' =>
        rw [hd] at h
        simp only [Option.some.injEq] at h
        subst h
        simp [encodeText, henc, hlt, ih s' hd]
    · simp [hlt] at h

/-- **Decoding is exact**: whatever text the decoder returns encodes back to exactly the bytes it
    was given — no byte is skipped, replaced or read twice; in particular decoding is injective. -/
theorem text_decode_exact (enc : Enc) (bs : Bytes) (s : List Nat) (h : decodeText enc bs = some s) :
    encodeText enc s = some bs := by
  cases enc with
  | ascii => exact decodeBytewise_sound .ascii 128 (fun _ => rfl) bs s h
  | latin1 => exact decodeBytewise_sound .latin1 256 (fun _ => rfl) bs s h
  | utf8 => exact decodeUtf8_sound bs.length bs s h

/-- the encoding is strict where it has to be: ascii stops at 127, latin-1 at 255, utf-8 refuses
    surrogates and values above U+10FFFF; and says exactly which texts are encodable -/
theorem encodable_iff (enc : Enc) (s : List Nat) :
    (encodeText enc s).isSome = true ↔ ∀ cp ∈ s, (encodeCp enc cp).isSome = true := by
  induction s with
  | nil => simp [encodeText]
  | cons cp r ih =>
    unfold encodeText
    cases h1 : encodeCp enc cp <;> cases h2 : encodeText enc r <;> simp_all

theorem encodeCp_isSome (enc : Enc) (cp : Nat) :
    (encodeCp enc cp).isSome = true ↔
      (match enc with
       | .ascii => cp < 128
       | .latin1 => cp < 256
       | .utf8 => cp < 0xD800 ∨ (0xDFFF < cp ∧ cp ≤ 0x10FFFF)) := by
  cases enc with
  | ascii => by_cases h : cp < 128 <;> simp [encodeCp, h]
  | latin1 => by_cases h : cp < 256 <;> simp [encodeCp, h]
  | utf8 =>
    simp only [encodeCp, encUtf8]
    by_cases h1 : cp < 0x80
    · simp [h1]; omega
    · by_cases h2 : cp < 0x800
      · simp [h1, h2]; omega
      · by_cases h3 : cp < 0x10000
        · by_cases hs : 0xD800 ≤ cp ∧ cp ≤ 0xDFFF
          · simp [h1, h2, h3, hs]; omega
          · simp [h1, h2, h3, hs]; omega
        · by_cases h4 : cp ≤ 0x10FFFF
          · simp [h1, h2, h3, h4]; omega
          · simp [h1, h2, h3, h4]; omega

/-! ## pieces -/

theorem encodeText_append (enc : Enc) : ∀ (a b : List Nat),
    encodeText enc (a ++ b) =
      (match encodeText enc a, encodeText enc b with
       | some x, some y => some (x ++ y)
       | _, _ => none) := by
  intro a
  induction a with
  | nil => intro b; cases h : encodeText enc b <;> simp [encodeText, h]
  | cons cp r ih =>
    intro b
    simp only [List.cons_append, encodeText, ih b]
    cases encodeCp enc cp <;> cases encodeText enc r <;> cases encodeText enc b <;> simp

/-- however the text is split into `write` calls: every piece goes through exactly when the
    whole text can be encoded, and then the bytes handed over are the encoding of the whole -/
theorem encodeChunks_all (enc : Enc) : ∀ (chunks : List (List Nat)),
    (∀ bs, encodeText enc chunks.flatten = some bs → encodeChunks enc chunks = (bs, true)) ∧
    (encodeText enc chunks.flatten = none → (encodeChunks enc chunks).2 = false) := by
  intro chunks
  induction chunks with
  | nil => simp [encodeText, encodeChunks]
  | cons ch r ih =>
    simp only [List.flatten_cons, encodeText_append, encodeChunks]
    cases h1 : encodeText enc ch with
    | none => simp
    | some b =>
      cases h2 : encodeText enc r.flatten with
      | none => simp [ih.2 h2]
      | some bs' => simp [ih.1 bs' h2]

/-! ## transfers -/

/-- **A text download that can be encoded delivers exactly the encoded text, in legal frames.**
    For every multiplexer, encoding, text, split of the text into `write(str)` calls, declared or
    undeclared size, forced segmentation, every way the buffered writer cuts its raw writes, any
    prior server state and stale queue content: the call returns normally, the strict server has
    committed exactly `encodeText enc (all pieces)` — once, under `(idx, sub)` —, found no illegal
    request frame, and is idle again. -/
theorem text_download_delivers (c : Chan PS) (idx sub : Nat) (enc : Enc) (chunks : List (List Nat)) (bs : Bytes)
    (sized force : Bool) (offers : List Nat) (hidx : idx < 65536) (hsub : sub < 256)
    (henc : encodeText enc chunks.flatten = some bs) (hlen : bs.length < 2 ^ 32) :
    ∃ c', textDownload specPeer c idx sub enc chunks sized force offers = (c', .ok ()) ∧
      c'.peer.1.illegal = c.peer.1.illegal ∧ c'.peer.1.phase = .idle ∧
      c'.peer.1.commits = c.peer.1.commits ++ [((idx, sub), bs)] ∧
      c'.peer.1.held = ((idx, sub), bs) :: c.peer.1.held ∧
      c'.peer.1.style = c.peer.1.style := by
  have hch := (encodeChunks_all enc chunks).1 bs henc
  obtain ⟨c', hd, h1, h2, h3, h4, h5⟩ := download_delivers c idx sub bs sized force offers hidx hsub hlen
  refine ⟨c', ?_, h1, h2, h3, h4, h5⟩
  simp [textDownload, hch, hd, textDownResult]

/-- **When the text cannot be encoded nothing is reported as completed**: whatever the peer (any
    server, any answers), the split into pieces, the buffering — the caller gets an error. -/
theorem text_download_unencodable {σ} (P : Peer σ) (c : Chan σ) (idx sub : Nat) (enc : Enc)
    (chunks : List (List Nat)) (sized force : Bool) (offers : List Nat)
    (henc : encodeText enc chunks.flatten = none) :
    ∃ e, (textDownload P c idx sub enc chunks sized force offers).2 = .error e := by
  have hch := (encodeChunks_all enc chunks).2 henc
  simp only [textDownload, hch]
  cases (download P c idx sub (encodeChunks enc chunks).1 sized force offers).2 with
  | error e => exact ⟨.sdo e, rfl⟩
  | ok u => exact ⟨.unicode, by simp [textDownResult]⟩

/-- what a text reader must obtain from bytes `d` -/
def expectedText (enc : Enc) (d : Bytes) : Except TErr (List Nat) :=
  match decodeText enc d with
  | none => .error .unicode
  | some s => .ok (univNl s)

/-- **A text upload returns the decoding of exactly the bytes the server holds**, newline
    translated, or raises when they are not text in the encoding — for every multiplexer, held
    value, encoding, answer style and cut list of the server, prior state and queue content, and
    every reader that reads to the end (`reads` large enough). -/
theorem text_upload_returns (c : Chan PS) (idx sub : Nat) (enc : Enc) (v : Bytes) (reads : Nat)
    (hidx : idx < 65536) (hsub : sub < 256) (hlen : v.length < 2 ^ 32) (hreads : v.length + 2 ≤ reads)
    (hheld : heldLookup (idx, sub) c.peer.1.held = some v) :
    ∃ c', textUpload specPeer c idx sub enc reads = (c', expectedText enc (expectedUpload c.peer.1.style v)) ∧
      c'.peer.1.illegal = c.peer.1.illegal ∧ c'.peer.1.phase = .idle ∧ c'.peer.1.held = c.peer.1.held ∧
      c'.peer.1.commits = c.peer.1.commits ∧ c'.peer.1.style = c.peer.1.style := by
  obtain ⟨c', rs, hu, _, h1, h2, h3, h4, h5⟩ := upload_returns c idx sub v none reads hidx hsub hlen hreads hheld
  refine ⟨c', ?_, h1, h2, h3, h4, h5⟩
  simp only [textUpload, hu, textUpResult, truncate, expectedText]
  cases decodeText enc (expectedUpload c.peer.1.style v) <;> rfl

/-! ## newlines -/

/-- universal newlines leave text without carriage returns alone -/
theorem univNl_id : ∀ s : List Nat, 13 ∉ s → univNl s = s := by
  intro s
  induction s using univNl.induct with
  | case1 => intro _; rfl
  | case2 c =>
    intro h
    have : c ≠ 13 := by intro e; apply h; simp [e]
    simp [univNl, this]
  | case3 r _ => intro h; exact absurd (by simp) h
  | case4 d r _ _ => intro h; exact absurd (by simp) h
  | case5 c d r hc ih =>
    intro h
    have : 13 ∉ d :: r := by
      intro hm; apply h; simp only [List.mem_cons] at hm ⊢; exact Or.inr hm
    simp [univNl, hc, ih this]

/-- … and never produce one -/
theorem univNl_no_cr : ∀ s : List Nat, 13 ∉ univNl s := by
  intro s
  induction s using univNl.induct with
  | case1 => simp [univNl]
  | case2 c => by_cases h : c = 13 <;> simp [univNl, h]; omega
  | case3 r ih => simp [univNl, ih]
  | case4 d r hd ih => simp [univNl, hd, ih]
  | case5 c d r hc ih => simp [univNl, hc, ih]; omega

/-- **What was written is what is read**: a text download followed by a text upload of the same
    object in the same encoding returns the text, newline-translated (so: the text itself when it
    holds no carriage return) — through any split into pieces, declared size or not, any
    buffering on either side, any answer style that reports the length of the data. -/
theorem text_download_then_upload (c : Chan PS) (idx sub : Nat) (enc : Enc) (chunks : List (List Nat)) (bs : Bytes)
    (sized force : Bool) (offers : List Nat) (reads : Nat) (hidx : idx < 65536) (hsub : sub < 256)
    (henc : encodeText enc chunks.flatten = some bs) (hlen : bs.length < 2 ^ 32) (hreads : bs.length + 2 ≤ reads)
    (hstyle : expectedUpload c.peer.1.style bs = bs) :
    ∃ c' c'', textDownload specPeer c idx sub enc chunks sized force offers = (c', .ok ()) ∧
      textUpload specPeer c' idx sub enc reads = (c'', .ok (univNl chunks.flatten)) ∧
      c''.peer.1.illegal = c.peer.1.illegal := by
  obtain ⟨c', hd, h1, _, _, h4, h5⟩ :=
    text_download_delivers c idx sub enc chunks bs sized force offers hidx hsub henc hlen
  have hheld : heldLookup (idx, sub) c'.peer.1.held = some bs := by rw [h4]; simp [heldLookup]
  obtain ⟨c'', hu, g1, _⟩ := text_upload_returns c' idx sub enc bs reads hidx hsub hlen hreads hheld
  refine ⟨c', c'', hd, ?_, by rw [g1, h1]⟩
  rw [hu, h5, hstyle]
  simp [expectedText, text_roundtrip enc _ bs henc]

/-! ## non-vacuity: the codec is strict, the hypotheses are satisfiable -/

-- 'Grüße' is not ascii, is latin-1 (one byte each) and utf-8 (two bytes for ü and ß)
example : encodeText .ascii [0x47, 0x72, 0xFC, 0xDF, 0x65] = none := by decide
example : encodeText .latin1 [0x47, 0x72, 0xFC, 0xDF, 0x65] = some [0x47, 0x72, 0xFC, 0xDF, 0x65] := by decide
example : encodeText .utf8 [0x47, 0x72, 0xFC, 0xDF, 0x65] = some [0x47, 0x72, 0xC3, 0xBC, 0xC3, 0x9F, 0x65] := by
  decide
-- '€' and U+1F600 in utf-8; a lone surrogate has no encoding
example : encodeText .utf8 [0x20AC, 0x1F600] = some [0xE2, 0x82, 0xAC, 0xF0, 0x9F, 0x98, 0x80] := by decide
example : encodeText .utf8 [0x41, 0xD800] = none := by decide
-- malformed input is refused, not skipped: byte ≥ 0x80 in ascii, overlong forms, a surrogate, a value above
-- U+10FFFF, a stray continuation byte, a truncated sequence
example : decodeText .ascii [0x47, 0x72, 0xFC] = none := by decide
example : decodeText .utf8 [0xC0, 0x80] = none := by decide
example : decodeText .utf8 [0xE0, 0x80, 0x80] = none := by decide
example : decodeText .utf8 [0xED, 0xA0, 0x80] = none := by decide
example : decodeText .utf8 [0xF4, 0x90, 0x80, 0x80] = none := by decide
example : decodeText .utf8 [0x41, 0x80] = none := by decide
example : decodeText .utf8 [0x41, 0xE2, 0x82] = none := by decide
example : decodeText .utf8 [0xE2, 0x82, 0xAC, 0xF0, 0x9F, 0x98, 0x80] = some [0x20AC, 0x1F600] := by decide
-- universal newlines
example : univNl [0x61, 13, 10, 0x62, 13, 0x63, 10, 13] = [0x61, 10, 0x62, 10, 0x63, 10, 10] := by decide
-- a piece that cannot be encoded stops the writing: only the pieces before it reach the stream
example : encodeChunks .ascii [[0x61, 0x62], [0xE9, 0x78], [0x7A]] = ([0x61, 0x62], false) := by decide

-- the download theorem applied: 'Grüße' in utf-8, written as "Gr" + "üße", size declared, against a channel
-- with stale junk in its queue
example : ∃ c', textDownload specPeer ⟨(st0, []), [[1, 2, 3]], []⟩ 0x2000 0 .utf8 [[0x47, 0x72], [0xFC, 0xDF, 0x65]]
      true false [2, 9] = (c', .ok ()) ∧
    c'.peer.1.commits = [((0x2000, 0), [0x47, 0x72, 0xC3, 0xBC, 0xC3, 0x9F, 0x65])] := by
  obtain ⟨c', h, _, _, hc, _⟩ := text_download_delivers ⟨(st0, []), [[1, 2, 3]], []⟩ 0x2000 0 .utf8
    [[0x47, 0x72], [0xFC, 0xDF, 0x65]] [0x47, 0x72, 0xC3, 0xBC, 0xC3, 0x9F, 0x65] true false [2, 9]
    (by decide) (by decide) (by decide) (by decide)
  exact ⟨c', h, hc⟩

-- the same text in ascii is refused, and the refusal is what the caller sees
example : ∃ e, (textDownload specPeer ⟨(st0, []), [], []⟩ 0x2000 0 .ascii [[0x47, 0x72], [0xFC, 0xDF, 0x65]]
    false false []).2 = .error e :=
  text_download_unencodable specPeer _ 0x2000 0 .ascii _ false false [] (by decide)

-- the upload theorem applied: the server holds 'Grü' in utf-8 followed by CR LF; a utf-8 reader gets the text with
-- the line end translated, an ascii reader gets the error
def stText : SS := ssInit [((0x2000, 0), [0x47, 0x72, 0xC3, 0xBC, 13, 10])] ⟨true, true, true, [3]⟩

example : ∃ c', textUpload specPeer ⟨(stText, []), [[9]], []⟩ 0x2000 0 .utf8 100 = (c', .ok [0x47, 0x72, 0xFC, 10]) := by
  obtain ⟨c', h, _⟩ := text_upload_returns ⟨(stText, []), [[9]], []⟩ 0x2000 0 .utf8
    [0x47, 0x72, 0xC3, 0xBC, 13, 10] 100 (by decide) (by decide) (by decide) (by decide) (by decide)
  exact ⟨c', h⟩

example : ∃ c', textUpload specPeer ⟨(stText, []), [], []⟩ 0x2000 0 .ascii 100 = (c', .error .unicode) := by
  obtain ⟨c', h, _⟩ := text_upload_returns ⟨(stText, []), [], []⟩ 0x2000 0 .ascii
    [0x47, 0x72, 0xC3, 0xBC, 13, 10] 100 (by decide) (by decide) (by decide) (by decide) (by decide)
  exact ⟨c', h⟩

end Canopen.C01
