/-
C17 helper lemmas, second layer: every API call of `CanopenModel/Periodic.lean` preserves the
bus/handle invariant `Inv`.
-/
import CanopenProofs.Lemmas.Periodic

namespace Canopen.Periodic

variable {c : Cfg} {s : State}

theorem inv_stopAll (h : Inv c s) (l : List (Nat × Nat)) : Inv c (stopAll s l) := by
  induction l generalizing s with
  | nil => exact h
  | cons e r ih => obtain ⟨n, k⟩ := e; exact ih (inv_stopClear h _)

theorem inv_syncStart (h : Inv c s) (p : Option Nat) : Inv c (syncStart c s p).1 := by
  have h1 := inv_stopKeep_sync h
  have n1 := noLive_stopKeep h .sync
  unfold syncStart
  cases p with
  | none => exact inv_startIfValid h1 n1 rfl _ _ _
  | some v0 =>
    simp only []
    have h2 : Inv c { stopKeep s .sync with syncPeriod := some v0 } := h1.congr rfl rfl
    have n2 : NoLive { stopKeep s .sync with syncPeriod := some v0 } .sync := n1.congr rfl
    exact inv_startIfValid h2 n2 rfl _ _ _

theorem inv_pdoStart (h : Inv c s) (n k : Nat) (p : Option Nat) (hv : c.valid (.pdo n k) = true) :
    Inv c (pdoStart s n k p).1 := by
  have h1 := inv_stopClear h (.pdo n k)
  have n1 := noLive_stopClear h (.pdo n k)
  unfold pdoStart
  cases p with
  | none => exact inv_startIfValid h1 n1 hv _ _ _
  | some v0 =>
    simp only []
    generalize hs2 : setPdo (stopClear s (.pdo n k)) n k _ = s2
    have h2 : Inv c s2 := by subst hs2; exact h1.congr rfl rfl
    have n2 : NoLive s2 (.pdo n k) := by subst hs2; exact n1.congr rfl
    exact inv_startIfValid h2 n2 hv _ _ _

theorem inv_pdoUpdate (h : Inv c s) (n k : Nat) (d : Bytes) : Inv c (pdoUpdate c s n k d) := by
  unfold pdoUpdate
  simp only []
  exact inv_updateSlot (s := setPdo s n k _) (h.congr rfl rfl) _ _

theorem inv_pdoSetByte (h : Inv c s) (n k i v : Nat) : Inv c (pdoSetByte c s n k i v).1 := by
  unfold pdoSetByte
  split
  · exact inv_pdoUpdate h _ _ _
  · exact h

theorem inv_pdoReceive (h : Inv c s) (n k dt : Nat) (d : Bytes) : Inv c (pdoReceive s n k dt d) := by
  unfold pdoReceive
  simp only []
  split
  · exact h.congr rfl rfl
  · exact h.congr rfl rfl

theorem inv_hbStop (h : Inv c s) (n : Nat) : Inv c (hbStop s n) := inv_stopClear h _

theorem inv_hbStart (h : Inv c s) (n : Nat) (ms : Int) (hv : c.valid (.hb n) = true) :
    Inv c (hbStart s n ms).1 := by
  unfold hbStart hbStop
  simp only []
  generalize hs1 : setSlave s n _ = s1
  have h1 : Inv c s1 := by subst hs1; exact h.congr rfl rfl
  have h2 := inv_stopClear h1 (.hb n)
  have n2 := noLive_stopClear h1 (.hb n)
  split
  · exact inv_startSlot h2 n2 hv _ _ _ _
  · exact h2

theorem inv_hbUpdate (h : Inv c s) (n : Nat) : Inv c (hbUpdate c s n) := inv_updateSlot h _ _

theorem inv_onWrite (h : Inv c s) (n idx : Nat) (d : Bytes) (hv : c.valid (.hb n) = true) :
    Inv c (onWrite s n idx d).1 := by
  unfold onWrite
  split
  · split
    · simp only []
      split
      · exact inv_hbStop h n
      · exact inv_hbStart h n _ hv
    · exact h
  · exact h

theorem inv_writeHbTime (h : Inv c s) (n v : Nat) (hv : c.valid (.hb n) = true) :
    Inv c (writeHbTime s n v).1 := by
  unfold writeHbTime
  have h1 := inv_onWrite h n 0x1017 (leBytes 2 v) hv
  split
  · simp only []
    split
    · exact h1.congr rfl rfl
    · exact h1
  · exact h

theorem inv_applyCmd (h : Inv c s) (n code : Nat) : Inv c (applyCmd s n code) := by
  unfold applyCmd
  split
  · exact h.congr rfl rfl
  · exact h

theorem inv_sendCommandTail (h : Inv c s) (n old : Nat) (hv : c.valid (.hb n) = true) :
    Inv c (sendCommandTail c s n old).1 := by
  unfold sendCommandTail
  split
  · split
    · exact h
    · exact inv_hbStart h n _ hv
  · exact inv_hbUpdate h n

theorem inv_sendCommand (h : Inv c s) (n code : Nat) (hv : c.valid (.hb n) = true) :
    Inv c (sendCommand c s n code).1 := by
  unfold sendCommand
  simp only []
  have h1 := inv_applyCmd h n code
  split
  · exact h1
  · exact inv_sendCommandTail h1 n _ hv

theorem inv_setState (h : Inv c s) (n : Nat) (name : String) (hv : c.valid (.hb n) = true) :
    Inv c (setState c s n name).1 := by
  unfold setState
  split
  · exact inv_sendCommand h n _ hv
  · exact h

theorem inv_onCommand (h : Inv c s) (cmd nid n : Nat) : Inv c (onCommand c s cmd nid n) := by
  unfold onCommand
  simp only []
  apply inv_hbUpdate
  split
  · exact inv_applyCmd h n cmd
  · exact h

theorem inv_onCommandAll (h : Inv c s) (cmd nid : Nat) (l : List Nat) :
    Inv c (onCommandAll c s cmd nid l) := by
  induction l generalizing s with
  | nil => exact h
  | cons n r ih => exact ih (inv_onCommand h cmd nid n)

theorem inv_nmtFrame (h : Inv c s) (d : Bytes) : Inv c (nmtFrame c s d).1 := by
  unfold nmtFrame
  split
  · exact inv_onCommandAll h _ _ _
  · exact h

theorem inv_guardStart (h : Inv c s) (n p : Nat) (hv : c.valid (.guard n) = true) :
    Inv c (guardStart s n p).1 := by
  unfold guardStart guardStop
  simp only []
  cases hs : s.slots (.guard n) with
  | none => exact inv_startSlot h (h.noLive_of_none hs) hv _ _ _ _
  | some t => exact inv_startSlot (inv_stopClear h _) (noLive_stopClear h _) hv _ _ _ _

theorem inv_disconnect (h : Inv c s) : Inv c (disconnect c s) := by
  unfold disconnect
  exact (inv_stopAll h c.pdos).congr rfl rfl

theorem inv_exec (h : Inv c s) (op : Op) (hw : op.wellAddressed c = true) : Inv c (exec c s op).1 := by
  cases op with
  | syncStart p => exact inv_syncStart h p
  | syncStop => exact inv_stopKeep_sync h
  | syncSetPeriod p => exact h.congr rfl rfl
  | pdoSetPeriod n k p => exact h.congr rfl rfl
  | pdoReceive n k dt d => exact inv_pdoReceive h n k dt d
  | pdoStart n k p => exact inv_pdoStart h n k p hw
  | pdoStop n k => exact inv_stopClear h _
  | pdoUpdate n k d => exact inv_pdoUpdate h n k d
  | pdoSetByte n k i v => exact inv_pdoSetByte h n k i v
  | pdoStopNode n => exact inv_stopAll h _
  | hbStart n ms => exact inv_hbStart h n ms hw
  | hbStop n => exact inv_hbStop h n
  | hbUpdate n => exact inv_hbUpdate h n
  | hbWrite n v => exact inv_writeHbTime h n v hw
  | hbSdoWrite n v => exact inv_writeHbTime h n v hw
  | onWrite n idx d => exact inv_onWrite h n idx d hw
  | sendCommand n code => exact inv_sendCommand h n code hw
  | setState n name => exact inv_setState h n name hw
  | nmtFrame d => exact inv_nmtFrame h d
  | guardStart n p => exact inv_guardStart h n p hw
  | guardStop n => exact inv_stopClear h _
  | disconnect => exact inv_disconnect h
  | exitWith w => exact inv_disconnect h
  | connect => exact h.congr rfl rfl

theorem inv_step (h : Inv c s) (op : Op) : Inv c (step c s op).1 := by
  unfold step
  split
  · rename_i hw; exact inv_exec h op hw
  · exact h

theorem inv_run (h : Inv c s) (ops : List Op) : Inv c (run c s ops) := by
  induction ops generalizing s with
  | nil => exact h
  | cons op r ih => exact ih (inv_step h op)

end Canopen.Periodic
