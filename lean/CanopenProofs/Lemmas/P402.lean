/-
Helper lemmas for C19: the low-seven-bits reduction of statusword decoding, and finite reachability of
the setter machine of `CanopenModel/P402.lean` - configurations encoded as numbers, the visited set
as a bit mask computed inside the kernel, a checker `checkClosed` and its soundness lemma
(`closed_sound`: whatever the list `vis` is, if the check succeeds then every configuration reachable
from an initial one, under every choice list of any length, is in `vis` and is `good`), and the ranking
argument (`ranked_sound`) used for progress.
-/
import CanopenModel.P402

namespace Canopen.P402
open Canopen.Spec.Drive402 Canopen.Gen.P402Tables

/-! ## statusword decoding depends on the low seven bits only -/

theorem and_low (sw m : Nat) (hm : m < 128) : sw &&& m = (sw % 128) &&& m := by
  apply Nat.eq_of_testBit_eq; intro i
  have e : (128 : Nat) = 2 ^ 7 := by decide
  rw [e] at hm ⊢
  simp only [Nat.testBit_and, Nat.testBit_mod_two_pow]
  by_cases hi : i < 7
  · simp [hi]
  · have : m.testBit i = false :=
      Nat.testBit_lt_two_pow (Nat.lt_of_lt_of_le hm (Nat.pow_le_pow_right (by decide) (by omega)))
    simp [this]

theorem find?_congr' {α : Type} (p q : α → Bool) :
    ∀ (l : List α), (∀ x ∈ l, p x = q x) → l.find? p = l.find? q
  | [], _ => rfl
  | a :: l, h => by
    have ha : p a = q a := h a (List.mem_cons_self ..)
    have ih := find?_congr' p q l (fun x hx => h x (List.mem_cons_of_mem _ hx))
    simp only [List.find?_cons, ha, ih]

theorem getStateFrom_low (rows : List (Name × Nat × Nat)) (h : ∀ r ∈ rows, r.2.1 < 128) (sw : Nat) :
    getStateFrom rows sw = getStateFrom rows (sw % 128) := by
  unfold getStateFrom
  have : rows.find? (rowMatches sw) = rows.find? (rowMatches (sw % 128)) := by
    apply find?_congr'
    intro r hr
    unfold rowMatches
    rw [and_low sw _ (h r hr)]
  rw [this]

/-! ## configurations as numbers -/

def Pc.toNat : Pc → Nat
  | .init => 0 | .aLoop => 1 | .loop => 2 | .aWrite => 3 | .write => 4 | .setS => 5 | .aWait => 6
  | .wait => 7 | .chkS => 8 | .aPollW => 9 | .pollW => 10 | .chkF => 11 | .aPollL => 12
  | .pollL => 13 | .done => 14 | .refused => 15 | .illegal => 16 | .timeout => 17
  | .aWrite0 => 18 | .write0 => 19

theorem Pc.toNat_lt (p : Pc) : p.toNat < 20 := by cases p <;> decide

theorem Pc.toNat_inj (p q : Pc) (h : p.toNat = q.toNat) : p = q := by
  cases p <;> cases q <;> first | rfl | (exact absurd h (by decide))

theorem PState.num_lt (s : PState) : s.num < 8 := by cases s <;> decide

theorem PState.num_inj (p q : PState) (h : p.num = q.num) : p = q := by
  cases p <;> cases q <;> first | rfl | (exact absurd h (by decide))

/-- `nxt` is a function of `frm` and `target` (both are set together, by `decide1`), so the code of a
    configuration leaves it out - this keeps the bit masks small enough for fast kernel arithmetic -/
def nxtFor (T : Tables) (c : Cfg) : Nat := if c.frm = 9 then 9 else nextOf T c.frm c.target

def encCfg (c : Cfg) : Nat :=
  c.pc.toNat + 20 * (c.st.num + 8 * (c.rst.toNat + 2 * (c.cache.num + 8 * c.frm)))

/-- well-formed for a closure over fixed `pdo`, `auto12`, `target` -/
def wfB (T : Tables) (pdo auto12 : Bool) (target : Nat) (c : Cfg) : Bool :=
  c.pdo == pdo && c.auto12 == auto12 && c.target == target && decide (c.frm < 10) &&
  c.nxt == nxtFor T c

theorem enc_inj {T : Tables} {pdo auto12 : Bool} {target : Nat} {c d : Cfg}
    (hc : wfB T pdo auto12 target c = true) (hd : wfB T pdo auto12 target d = true)
    (h : encCfg c = encCfg d) : c = d := by
  obtain ⟨cp, ca, ct, cs, cr, cc, cpc, cf, cn⟩ := c
  obtain ⟨dp, da, dt, ds, dr, dc, dpc, df, dn⟩ := d
  simp only [wfB, nxtFor, Bool.and_eq_true, beq_iff_eq, decide_eq_true_eq] at hc hd
  simp only [encCfg] at h
  have h1 := Pc.toNat_lt cpc; have h2 := Pc.toNat_lt dpc
  have h3 := PState.num_lt cs; have h4 := PState.num_lt ds
  have h5 := PState.num_lt cc; have h6 := PState.num_lt dc
  have h7 : cr.toNat < 2 := by cases cr <;> decide
  have h8 : dr.toNat < 2 := by cases dr <;> decide
  have e1 : cpc.toNat = dpc.toNat := by omega
  have e2 : cs.num = ds.num := by omega
  have e3 : cr.toNat = dr.toNat := by omega
  have e4 : cc.num = dc.num := by omega
  have e5 : cf = df := by omega
  have e3' : cr = dr := by cases cr <;> cases dr <;> first | rfl | (exact absurd e3 (by decide))
  obtain ⟨⟨⟨⟨hp, ha⟩, ht⟩, _⟩, hn⟩ := hc
  obtain ⟨⟨⟨⟨hp', ha'⟩, ht'⟩, _⟩, hn'⟩ := hd
  have e6 : cn = dn := by rw [hn, hn', e5, ht, ht']
  rw [Pc.toNat_inj _ _ e1, PState.num_inj _ _ e2, PState.num_inj _ _ e4, e3', e5, e6]
  rw [hp, ha, ht, hp', ha', ht']

/-! ## the visited set as a bit mask -/

/-- `k n`, written so that the kernel evaluates `n` to a literal *once* before `k` uses it
    (the kernel substitutes arguments unevaluated; matching on the number forces it) -/
def forceNat {α : Type} (n : Nat) (k : Nat → α) : α :=
  match n with
  | 0 => k 0
  | m + 1 => k (m + 1)

@[simp] theorem forceNat_eq {α : Type} (n : Nat) (k : Nat → α) : forceNat n k = k n := by
  cases n <;> rfl

def setBit (m i : Nat) : Nat := m ||| (1 <<< i)

theorem testBit_setBit (m i j : Nat) : (setBit m i).testBit j = (m.testBit j || decide (i = j)) := by
  unfold setBit
  rw [Nat.testBit_or, Nat.one_shiftLeft, Nat.testBit_two_pow]

def maskFrom (m : Nat) (l : List Cfg) : Nat := l.foldl (fun m c => setBit m (encCfg c)) m

def maskOf (l : List Cfg) : Nat := maskFrom 0 l

theorem mem_of_testBit_maskFrom (i : Nat) : ∀ (l : List Cfg) (m : Nat),
    (maskFrom m l).testBit i = true → m.testBit i = true ∨ ∃ c ∈ l, encCfg c = i
  | [], m, h => Or.inl h
  | a :: l, m, h => by
    have := mem_of_testBit_maskFrom i l (setBit m (encCfg a)) h
    rcases this with h1 | ⟨c, hc, he⟩
    · rw [testBit_setBit] at h1
      simp only [Bool.or_eq_true, decide_eq_true_eq] at h1
      rcases h1 with h1 | h1
      · exact Or.inl h1
      · exact Or.inr ⟨a, List.mem_cons_self .., h1⟩
    · exact Or.inr ⟨c, List.mem_cons_of_mem _ hc, he⟩

theorem mem_of_testBit_maskOf (i : Nat) (l : List Cfg) (h : (maskOf l).testBit i = true) :
    ∃ c ∈ l, encCfg c = i := by
  rcases mem_of_testBit_maskFrom i l 0 h with h0 | h1
  · simp at h0
  · exact h1

/-! ## exploration (untrusted) and check (trusted) -/

def choices : List Choice := [⟨false, false⟩, ⟨true, false⟩, ⟨false, true⟩, ⟨true, true⟩]

theorem mem_choices (ch : Choice) : ch ∈ choices := by
  obtain ⟨f, e⟩ := ch
  cases f <;> cases e <;> simp [choices]

/-- the part of a choice the step at program point `pc` looks at -/
def projCh (pc : Pc) (ch : Choice) : Choice :=
  ⟨pc.isAdv && ch.fire, (pc == .chkS || pc == .chkF) && ch.expired⟩

/-- the distinct choices at a program point -/
def choicesAt (pc : Pc) : List Choice :=
  if pc.isAdv then [⟨false, false⟩, ⟨true, false⟩]
  else if pc == .chkS || pc == .chkF then [⟨false, false⟩, ⟨false, true⟩]
  else [⟨false, false⟩]

theorem projCh_mem (pc : Pc) (ch : Choice) : projCh pc ch ∈ choicesAt pc := by
  obtain ⟨f, e⟩ := ch
  cases pc <;> cases f <;> cases e <;> decide

theorem step_proj (T : Tables) (view : PState → Nat) (c : Cfg) (ch : Choice) :
    step T view c ch = step T view c (projCh c.pc ch) := by
  obtain ⟨f, e⟩ := ch
  unfold step projCh
  cases hp : c.pc <;> cases f <;> cases e <;> rfl

theorem entered_proj (T : Tables) (c : Cfg) (ch : Choice) :
    entered T c ch = entered T c (projCh c.pc ch) := by
  obtain ⟨f, e⟩ := ch
  unfold entered projCh
  cases hp : c.pc <;> cases f <;> cases e <;> rfl

theorem isStall_proj (view : PState → Nat) (c : Cfg) (ch : Choice) :
    isStall view c ch = isStall view c (projCh c.pc ch) := by
  obtain ⟨f, e⟩ := ch
  unfold isStall projCh
  cases hp : c.pc <;> cases f <;> cases e <;> rfl

theorem isFatal_proj (c : Cfg) (ch : Choice) : isFatal c ch = isFatal c (projCh c.pc ch) := by
  obtain ⟨f, e⟩ := ch
  unfold isFatal projCh
  cases hp : c.pc <;> cases f <;> cases e <;> rfl

/-! The kernel substitutes arguments unevaluated and a configuration produced by `step` refers to its
predecessor; the exploration therefore rebuilds every configuration it stores from fully evaluated
fields (`normCfg`), which keeps all later field accesses shallow. -/

def forceBool {α : Type} (b : Bool) (k : Bool → α) : α :=
  match b with
  | true => k true
  | false => k false

def forcePState {α : Type} (s : PState) (k : PState → α) : α :=
  match s with
  | .nrtso => k .nrtso | .sod => k .sod | .rtso => k .rtso | .so => k .so | .oe => k .oe
  | .fault => k .fault | .fra => k .fra | .qsa => k .qsa

def forcePc {α : Type} (p : Pc) (k : Pc → α) : α :=
  match p with
  | .init => k .init | .aLoop => k .aLoop | .loop => k .loop | .aWrite => k .aWrite
  | .aWrite0 => k .aWrite0 | .write0 => k .write0
  | .write => k .write | .setS => k .setS | .aWait => k .aWait | .wait => k .wait
  | .chkS => k .chkS | .aPollW => k .aPollW | .pollW => k .pollW | .chkF => k .chkF
  | .aPollL => k .aPollL | .pollL => k .pollL | .done => k .done | .refused => k .refused
  | .illegal => k .illegal | .timeout => k .timeout

def normCfg {α : Type} (c : Cfg) (k : Cfg → α) : α :=
  match c with
  | ⟨p, a, t, s, r, ca, pc, f, n⟩ =>
    forceBool p fun p => forceBool a fun a => forceNat t fun t =>
    forcePState s fun s => forceBool r fun r => forcePState ca fun ca =>
    forcePc pc fun pc => forceNat f fun f => forceNat n fun n =>
    k ⟨p, a, t, s, r, ca, pc, f, n⟩

@[simp] theorem forceBool_eq {α : Type} (b : Bool) (k : Bool → α) : forceBool b k = k b := by
  cases b <;> rfl

@[simp] theorem forcePState_eq {α : Type} (s : PState) (k : PState → α) : forcePState s k = k s := by
  cases s <;> rfl

@[simp] theorem forcePc_eq {α : Type} (p : Pc) (k : Pc → α) : forcePc p k = k p := by
  cases p <;> rfl

@[simp] theorem normCfg_eq {α : Type} (c : Cfg) (k : Cfg → α) : normCfg c k = k c := by
  obtain ⟨p, a, t, s, r, ca, pc, f, n⟩ := c
  simp only [normCfg, forceBool_eq, forceNat_eq, forcePState_eq, forcePc_eq]

/-- `k l` with every element of `l` rebuilt from evaluated fields, evaluated once -/
def forceCfgs {α : Type} : List Cfg → (List Cfg → α) → α
  | [], k => k []
  | c :: cs, k => normCfg c fun c' => forceCfgs cs fun cs' => k (c' :: cs')

@[simp] theorem forceCfgs_eq {α : Type} : ∀ (l : List Cfg) (k : List Cfg → α), forceCfgs l k = k l
  | [], _ => rfl
  | c :: cs, k => by
    simp only [forceCfgs, normCfg_eq]
    rw [forceCfgs_eq cs]

/-- work-list exploration (untrusted): `new` = successors still to be looked at, `todo` = visited
    configurations whose successors have not been generated yet; returns the visited configurations -/
def explore (T : Tables) (view : PState → Nat) :
    Nat → List Cfg → List Cfg → Nat → List Cfg → List Cfg
  | 0, _, _, _, vis => vis
  | fuel + 1, s :: new, todo, mask, vis =>
    normCfg s fun s =>
    forceNat (encCfg s) fun k =>
    if mask.testBit k then explore T view fuel new todo mask vis
    else forceNat (setBit mask k) fun m => explore T view fuel new (s :: todo) m (s :: vis)
  | fuel + 1, [], c :: todo, mask, vis => explore T view fuel ((choicesAt c.pc).map (step T view c)) todo mask vis
  | _ + 1, [], [], _, vis => vis

def exploreFrom (T : Tables) (view : PState → Nat) (inits : List Cfg) : List Cfg :=
  explore T view 1000000 inits [] 0 []

/-- `vis` contains the initial configurations, is closed under every step, and all its members
    are well-formed and satisfy `good` (a predicate on a configuration and on each of its steps) -/
def checkClosed (T : Tables) (view : PState → Nat) (pdo auto12 : Bool) (target : Nat)
    (inits : List Cfg) (good : Cfg → Bool) (vis : List Cfg) : Bool :=
  forceNat (maskOf vis) fun mask =>
  inits.all (fun c => wfB T pdo auto12 target c && mask.testBit (encCfg c)) &&
  vis.all (fun c => wfB T pdo auto12 target c && good c &&
    (choicesAt c.pc).all fun ch =>
      normCfg (step T view c ch) fun s =>
      wfB T pdo auto12 target s && mask.testBit (encCfg s))

theorem closed_sound {T : Tables} {view : PState → Nat} {pdo auto12 : Bool} {target : Nat}
    {inits : List Cfg} {good : Cfg → Bool} {vis : List Cfg}
    (h : checkClosed T view pdo auto12 target inits good vis = true) :
    ∀ c0 ∈ inits, ∀ chs : List Choice,
      run T view c0 chs ∈ vis ∧ good (run T view c0 chs) = true := by
  simp only [checkClosed, forceNat_eq, normCfg_eq, Bool.and_eq_true, List.all_eq_true] at h
  obtain ⟨hi, hv⟩ := h
  have memOf : ∀ s, wfB T pdo auto12 target s = true → (maskOf vis).testBit (encCfg s) = true → s ∈ vis := by
    intro s hw hb
    obtain ⟨c, hc, he⟩ := mem_of_testBit_maskOf _ _ hb
    have hcw := (hv c hc).1.1
    have : c = s := enc_inj hcw hw he
    exact this ▸ hc
  have key : ∀ chs : List Choice, ∀ c ∈ vis, run T view c chs ∈ vis := by
    intro chs
    induction chs with
    | nil => intro c hc; exact hc
    | cons ch rest ih =>
      intro c hc
      obtain ⟨w1, w2⟩ := (hv c hc).2 _ (projCh_mem c.pc ch)
      rw [run, step_proj]
      exact ih _ (memOf _ w1 w2)
  intro c0 h0 chs
  have hc0 := hi c0 h0
  have m0 : c0 ∈ vis := memOf _ hc0.1 hc0.2
  have m := key chs c0 m0
  exact ⟨m, (hv _ m).1.2⟩

/-- the three facts `checkClosed` certifies, separately -/
theorem closed_facts {T : Tables} {view : PState → Nat} {pdo auto12 : Bool} {target : Nat}
    {inits : List Cfg} {good : Cfg → Bool} {vis : List Cfg}
    (h : checkClosed T view pdo auto12 target inits good vis = true) :
    (∀ c ∈ inits, c ∈ vis) ∧ (∀ c ∈ vis, ∀ ch, step T view c ch ∈ vis) ∧ (∀ c ∈ vis, good c = true) ∧
    (∀ c ∈ vis, c.pdo = pdo ∧ c.target = target) := by
  have hs := closed_sound h
  simp only [checkClosed, forceNat_eq, normCfg_eq, Bool.and_eq_true, List.all_eq_true] at h
  obtain ⟨hi, hv⟩ := h
  have memOf : ∀ s, wfB T pdo auto12 target s = true → (maskOf vis).testBit (encCfg s) = true → s ∈ vis := by
    intro s hw hb
    obtain ⟨c, hc, he⟩ := mem_of_testBit_maskOf _ _ hb
    exact (enc_inj (hv c hc).1.1 hw he) ▸ hc
  refine ⟨fun c hc => (hs c hc []).1, ?_, fun c hc => (hv c hc).1.2, ?_⟩
  rotate_left
  · intro c hc
    have := (hv c hc).1.1
    simp only [wfB, Bool.and_eq_true, beq_iff_eq, decide_eq_true_eq] at this
    exact ⟨this.1.1.1.1, this.1.1.2⟩
  intro c hc ch
  obtain ⟨w1, w2⟩ := (hv c hc).2 _ (projCh_mem c.pc ch)
  rw [step_proj]
  exact memOf _ w1 w2

theorem run_mem {T : Tables} {view : PState → Nat} {vis : List Cfg}
    (hclosed : ∀ c ∈ vis, ∀ ch, step T view c ch ∈ vis) :
    ∀ (chs : List Choice) (c : Cfg), c ∈ vis → run T view c chs ∈ vis
  | [], _, h => h
  | ch :: rest, c, h => run_mem hclosed rest _ (hclosed c h ch)

/-- the overall time-out is the only way into `timeout` -/
def timeoutOnlyFatal (T : Tables) (view : PState → Nat) (c : Cfg) : Bool :=
  (choicesAt c.pc).all fun ch => (step T view c ch).pc != .timeout || c.pc == .timeout || isFatal c ch

theorem no_timeout {T : Tables} {view : PState → Nat} {vis : List Cfg}
    (hclosed : ∀ c ∈ vis, ∀ ch, step T view c ch ∈ vis)
    (hto : ∀ c ∈ vis, timeoutOnlyFatal T view c = true) :
    ∀ (chs : List Choice) (c : Cfg), c ∈ vis → c.pc ≠ .timeout → noFatal T view c chs = true →
      (run T view c chs).pc ≠ .timeout
  | [], _, _, h, _ => h
  | ch :: rest, c, hc, h, hf => by
    simp only [noFatal, Bool.and_eq_true, Bool.not_eq_true'] at hf
    have := hto c hc
    simp only [timeoutOnlyFatal, List.all_eq_true, Bool.or_eq_true, bne_iff_ne, ne_eq, beq_iff_eq] at this
    have h1 := this _ (projCh_mem c.pc ch)
    rw [← step_proj, ← isFatal_proj] at h1
    rw [run]
    apply no_timeout hclosed hto rest _ (hclosed c hc ch) _ hf.2
    rcases h1 with (h1 | h1) | h1
    · exact h1
    · exact absurd h1 h
    · rw [hf.1] at h1; exact absurd h1 (by decide)

/-! ## ranking: every non-stall, non-fatal step of a non-terminal configuration lowers an 8-bit rank

The ranks live in a number with one 8-bit slot per configuration code; `rankDfs` (untrusted) fills
it by a depth-first search of the non-stall sub-graph, `checkRanked` (trusted) checks the property. -/

def getSlot (m i : Nat) : Nat := (m >>> (8 * i)) % 256

def putSlot (m i v : Nat) : Nat := m ||| (v <<< (8 * i))

theorem getSlot_lt (m i : Nat) : getSlot m i < 256 := Nat.mod_lt _ (by decide)

def nsSuccs (T : Tables) (view : PState → Nat) (c : Cfg) : List Cfg :=
  ((choicesAt c.pc).filter fun ch => !isStall view c ch && !isFatal c ch).map fun ch =>
    normCfg (step T view c ch) id

def rankDfs (T : Tables) (view : PState → Nat) : Nat → List Cfg → Nat → Nat
  | 0, _, m => m
  | _ + 1, [], m => m
  | fuel + 1, c :: stk, m =>
    normCfg c fun c =>
    forceNat (encCfg c) fun k =>
    if getSlot m k != 0 then rankDfs T view fuel stk m
    else if c.pc.terminal then forceNat (putSlot m k 1) fun m' => rankDfs T view fuel stk m'
    else
      let ss := nsSuccs T view c
      let pending := ss.filter fun s => getSlot m (encCfg s) == 0
      if pending.isEmpty then
        forceNat (putSlot m k (1 + ss.foldl (fun a s => max a (getSlot m (encCfg s))) 0)) fun m' =>
          rankDfs T view fuel stk m'
      else rankDfs T view fuel (pending ++ c :: stk) m

def rankOf (memo : Nat) (c : Cfg) : Nat := getSlot memo (encCfg c)

def checkRanked (T : Tables) (view : PState → Nat) (vis : List Cfg) (memo : Nat) : Bool :=
  forceNat memo fun memo =>
  vis.all fun c => c.pc.terminal ||
    (decide (0 < rankOf memo c) &&
     (choicesAt c.pc).all fun ch => isStall view c ch || isFatal c ch ||
       normCfg (step T view c ch) fun s => decide (rankOf memo s < rankOf memo c))

theorem run_terminal (T : Tables) (view : PState → Nat) :
    ∀ (chs : List Choice) (c : Cfg), c.pc.terminal = true → run T view c chs = c
  | [], _, _ => rfl
  | ch :: rest, c, h => by
    have hs : step T view c ch = c := by
      unfold step
      cases hp : c.pc <;> simp_all [Pc.terminal]
    rw [run, hs]
    exact run_terminal T view rest c h

theorem ranked_sound {T : Tables} {view : PState → Nat} {vis : List Cfg} {memo : Nat}
    (hclosed : ∀ c ∈ vis, ∀ ch, step T view c ch ∈ vis)
    (h : checkRanked T view vis memo = true) :
    ∀ (chs : List Choice) (c : Cfg) (n : Nat), c ∈ vis →
      stallCount T view c chs ≤ n → noFatal T view c chs = true →
      256 * n + rankOf memo c ≤ chs.length →
      (run T view c chs).pc.terminal = true := by
  simp only [checkRanked, forceNat_eq, normCfg_eq, List.all_eq_true, Bool.or_eq_true, Bool.and_eq_true, decide_eq_true_eq] at h
  intro chs
  induction chs with
  | nil =>
    intro c n hc _ _ hl
    rcases h c hc with ht | ⟨hpos, _⟩
    · exact ht
    · simp only [List.length_nil] at hl; omega
  | cons ch rest ih =>
    intro c n hc hs hf hl
    rcases h c hc with ht | ⟨hpos, hstep⟩
    · rw [run_terminal T view _ c ht]; exact ht
    · have hc' := hclosed c hc ch
      simp only [stallCount] at hs
      simp only [noFatal, Bool.and_eq_true, Bool.not_eq_true'] at hf
      simp only [List.length_cons] at hl
      have hr' : rankOf memo (step T view c ch) < 256 := getSlot_lt _ _
      rw [run]
      have hstep' := hstep _ (projCh_mem c.pc ch)
      rw [← step_proj, ← isStall_proj, ← isFatal_proj] at hstep'
      rcases hstep' with (hst | hfa) | hlt
      · rw [hst] at hs
        simp only [if_true] at hs
        apply ih _ (n - 1) hc' (by omega) hf.2
        generalize rankOf memo (step T view c ch) = r' at *
        generalize rankOf memo c = r at *
        generalize rest.length = L at *
        omega
      · rw [hf.1] at hfa; exact absurd hfa (by decide)
      · apply ih _ n hc' (by omega) hf.2
        generalize rankOf memo (step T view c ch) = r' at *
        generalize rankOf memo c = r at *
        generalize rest.length = L at *
        omega

theorem noFatal_take (T : Tables) (view : PState → Nat) :
    ∀ (k : Nat) (chs : List Choice) (c : Cfg), noFatal T view c chs = true →
      noFatal T view c (chs.take k) = true
  | 0, _, _, _ => by simp [noFatal]
  | _ + 1, [], _, _ => by simp [noFatal]
  | k + 1, ch :: rest, c, h => by
    simp only [noFatal, Bool.and_eq_true] at h
    simp only [List.take_succ_cons, noFatal, Bool.and_eq_true]
    exact ⟨h.1, noFatal_take T view k rest _ h.2⟩

/-! ## ranking towards an arbitrary stop set

Same argument with "the setter has ended" replaced by any decidable set `stop` of configurations
(used for: the drive *is in* the target state - which, unlike a returned setter, need not last). -/

def rankDfsS (T : Tables) (view : PState → Nat) (stop : Cfg → Bool) : Nat → List Cfg → Nat → Nat
  | 0, _, m => m
  | _ + 1, [], m => m
  | fuel + 1, c :: stk, m =>
    normCfg c fun c =>
    forceNat (encCfg c) fun k =>
    if getSlot m k != 0 then rankDfsS T view stop fuel stk m
    else if stop c then forceNat (putSlot m k 1) fun m' => rankDfsS T view stop fuel stk m'
    else
      let ss := nsSuccs T view c
      let pending := ss.filter fun s => getSlot m (encCfg s) == 0
      if pending.isEmpty then
        forceNat (putSlot m k (1 + ss.foldl (fun a s => max a (getSlot m (encCfg s))) 0)) fun m' =>
          rankDfsS T view stop fuel stk m'
      else rankDfsS T view stop fuel (pending ++ c :: stk) m

def checkRankedS (T : Tables) (view : PState → Nat) (stop : Cfg → Bool) (vis : List Cfg) (memo : Nat) : Bool :=
  forceNat memo fun memo =>
  vis.all fun c => stop c ||
    (decide (0 < rankOf memo c) &&
     (choicesAt c.pc).all fun ch => isStall view c ch || isFatal c ch ||
       normCfg (step T view c ch) fun s => decide (rankOf memo s < rankOf memo c))

theorem ranked_sound_stop {T : Tables} {view : PState → Nat} {stop : Cfg → Bool} {vis : List Cfg}
    {memo : Nat}
    (hclosed : ∀ c ∈ vis, ∀ ch, step T view c ch ∈ vis)
    (h : checkRankedS T view stop vis memo = true) :
    ∀ (chs : List Choice) (c : Cfg) (n : Nat), c ∈ vis →
      stallCount T view c chs ≤ n → noFatal T view c chs = true →
      256 * n + rankOf memo c ≤ chs.length →
      ∃ k, k ≤ chs.length ∧ stop (run T view c (chs.take k)) = true := by
  simp only [checkRankedS, forceNat_eq, normCfg_eq, List.all_eq_true, Bool.or_eq_true, Bool.and_eq_true,
    decide_eq_true_eq] at h
  intro chs
  induction chs with
  | nil =>
    intro c n hc _ _ hl
    rcases h c hc with ht | ⟨hpos, _⟩
    · exact ⟨0, Nat.le_refl _, ht⟩
    · simp only [List.length_nil] at hl; omega
  | cons ch rest ih =>
    intro c n hc hs hf hl
    rcases h c hc with ht | ⟨hpos, hstep⟩
    · exact ⟨0, Nat.zero_le _, ht⟩
    · have hc' := hclosed c hc ch
      simp only [stallCount] at hs
      simp only [noFatal, Bool.and_eq_true, Bool.not_eq_true'] at hf
      simp only [List.length_cons] at hl
      have hr' : rankOf memo (step T view c ch) < 256 := getSlot_lt _ _
      have hstep' := hstep _ (projCh_mem c.pc ch)
      rw [← step_proj, ← isStall_proj, ← isFatal_proj] at hstep'
      have fin : (∃ k, k ≤ rest.length ∧ stop (run T view (step T view c ch) (rest.take k)) = true) →
          ∃ k, k ≤ (ch :: rest).length ∧ stop (run T view c ((ch :: rest).take k)) = true := by
        rintro ⟨k, hk, hst⟩
        exact ⟨k + 1, by simp only [List.length_cons]; omega, by simpa only [List.take_succ_cons, run] using hst⟩
      apply fin
      rcases hstep' with (hst | hfa) | hlt
      · rw [hst] at hs
        simp only [if_true] at hs
        apply ih _ (n - 1) hc' (by omega) hf.2
        generalize rankOf memo (step T view c ch) = r' at *
        generalize rankOf memo c = r at *
        generalize rest.length = L at *
        omega
      · rw [hf.1] at hfa; exact absurd hfa (by decide)
      · apply ih _ n hc' (by omega) hf.2
        generalize rankOf memo (step T view c ch) = r' at *
        generalize rankOf memo c = r at *
        generalize rest.length = L at *
        omega

end Canopen.P402
