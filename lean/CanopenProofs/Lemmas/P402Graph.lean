/-
C19 helper definitions: the code's look-up tables evaluated once (`litTables`; `CanopenProofs/C19.lean`
proves `codeTables = litTables`), the initial configurations, the per-configuration predicates and the
two kernel checks (`chkSafe`, `chkProg`) whose instances are decided in `P402Safe.lean`,
`P402ProgS.lean`, `P402ProgP.lean` (separate modules so that Lake checks them in parallel).
-/
import CanopenProofs.Lemmas.P402

namespace Canopen.P402
open Canopen.Spec.Drive402 Canopen.Gen.P402Tables

def litTables : Tables :=
  { next := [1, 2, 3, 4, 9, 1, 5, 1, 9],
    tt := [[none, some 0, none, none, none, none, none, none, none],
           [none, none, some 6, none, none, none, none, none, none],
           [none, some 0, none, some 7, none, none, none, none, none],
           [none, some 0, some 6, none, some 15, none, none, none, none],
           [none, some 0, some 6, some 7, none, none, none, some 2, none],
           [none, some 128, none, none, none, none, none, none, none],
           [none, none, none, none, none, some 0, none, none, none],
           [none, some 0, none, none, some 15, none, none, none, none],
           [none, none, none, none, none, none, none, none, none]],
    uncmd := [true, false, false, false, false, true, true, false],
    fault := 5,
    preCw := 0 }


/-- all 8 start states × both values of the controlword's reset bit -/
def inits (pdo auto12 : Bool) (target : Nat) : List Cfg :=
  PState.all.flatMap fun s => [initCfg pdo auto12 target s false, initCfg pdo auto12 target s true]


/-- no step of `c` makes the drive enter OPERATION ENABLED, unless the target allows it -/
def noEnable (c : Cfg) : Bool :=
  (choicesAt c.pc).all fun ch => !(entered litTables c ch).contains .oe ||
      c.target == PState.oe.num || c.target == PState.qsa.num

/-- what must hold in every reachable configuration `c` (and for each of its steps) -/
def goodSafe (c : Cfg) : Bool :=
  c.pc != .illegal && c.pc != .refused &&
  (c.pc != .done || (seen PState.num c == c.target && (c.pdo || c.st.num == c.target))) &&
  noEnable c

def visSafe (pdo auto12 : Bool) (t : Nat) : List Cfg := exploreFrom litTables PState.num (inits pdo auto12 t)

def chkSafe (pdo auto12 : Bool) (t : Nat) : Bool :=
  checkClosed litTables PState.num pdo auto12 t (inits pdo auto12 t) goodSafe (visSafe pdo auto12 t)


def goodProg (c : Cfg) : Bool :=
  c.pc != .illegal && c.pc != .refused && (c.pc != .done || seen PState.num c == c.target) &&
  timeoutOnlyFatal litTables PState.num c

def visProg (pdo auto12 : Bool) (t : Nat) : List Cfg :=
  exploreFrom litTables PState.num (inits pdo auto12 t)

def chkProg (pdo auto12 : Bool) (t : Nat) : Bool :=
  checkClosed litTables PState.num pdo auto12 t (inits pdo auto12 t) goodProg (visProg pdo auto12 t) &&
  checkRanked litTables PState.num (visProg pdo auto12 t)
    (rankDfs litTables PState.num 100000 (visProg pdo auto12 t) 0)

/-- "the setter has ended, or the drive is in the target state" -/
def stopEnter (c : Cfg) : Bool := c.pc.terminal || c.st.num == c.target

/-- progress towards `stopEnter`, for the drives that leave QUICK STOP ACTIVE by themselves -/
def chkEnter (pdo auto12 : Bool) (t : Nat) : Bool :=
  checkClosed litTables PState.num pdo auto12 t (inits pdo auto12 t) goodProg (visProg pdo auto12 t) &&
  checkRankedS litTables PState.num stopEnter (visProg pdo auto12 t)
    (rankDfsS litTables PState.num stopEnter 100000 (visProg pdo auto12 t) 0)

end Canopen.P402
