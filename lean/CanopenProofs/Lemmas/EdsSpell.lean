/-
Lemmas about the spellings the independent writer (Spec/EdsWriter.lean) may choose: every spelled
number is read back by `int(s, 0)`, also after the `replace(" ", "").upper()` of
`_convert_variable`; `$NODEID` forms; hex bytes.
-/
import CanopenModel.Spec.EdsWriter
import CanopenProofs.Lemmas.EdsText

namespace Canopen.Spec.EdsWriter
open Canopen.Eds

theorem radix_bounds (b : Base) : 2 ≤ b.radix ∧ b.radix ≤ 16 := by cases b <;> simp [Base.radix]

/-! ### unsigned -/

theorem unsignedBase0_spellNat (sp : NumSp) (n : Nat) : unsignedBase0 (spellNat sp n) = some n := by
  unfold spellNat
  cases hb : sp.base with
  | dec => simpa using unsignedBase0_dec n
  | hex =>
    simp only [zpad_natStr]
    cases sp.upPrefix <;>
      simp [unsignedBase0, Base.letter, Base.radix, dropUs_padded, parseBody_padded]
  | oct =>
    simp only [zpad_natStr]
    cases sp.upPrefix <;>
      simp [unsignedBase0, Base.letter, Base.radix, dropUs_padded, parseBody_padded]
  | bin =>
    simp only [zpad_natStr]
    cases sp.upPrefix <;>
      simp [unsignedBase0, Base.letter, Base.radix, dropUs_padded, parseBody_padded]

theorem paddedDigits_notSpace (b : Nat) (hb2 : 2 ≤ b) (hb : b ≤ 16) (up : Bool) (k n : Nat) :
    ∀ c ∈ paddedDigits b up k n, isSpace c = false := by
  intro c hc
  simp only [paddedDigits, List.mem_map, List.mem_append] at hc
  obtain ⟨d, hd, rfl⟩ := hc
  rcases hd with h | h
  · have := List.eq_of_mem_replicate h; subst this; exact digitChar_notSpace up 0 (by omega)
  · exact digitChar_notSpace up d (by have := natDigits_lt b hb2 n d h; omega)

/-- a predicate on characters that holds for everything a spelled number consists of -/
def NumCharOK (p : Char → Prop) : Prop :=
  (∀ up d, d < 16 → p (digitChar up d)) ∧ p '-' ∧ p '+' ∧ p 'x' ∧ p 'X' ∧ p 'o' ∧ p 'O' ∧ p 'b' ∧ p 'B'

theorem spellNat_chars (p : Char → Prop) (hp : NumCharOK p) (sp : NumSp) (n : Nat) :
    ∀ c ∈ spellNat sp n, p c := by
  obtain ⟨hd, _, _, hx, hX, ho, hO, hb, hB⟩ := hp
  have hpad : ∀ b up k, 2 ≤ b → b ≤ 16 → ∀ c ∈ paddedDigits b up k n, p c := by
    intro b up k h2 h16 c hc
    simp only [paddedDigits, List.mem_map, List.mem_append] at hc
    obtain ⟨d, hd', rfl⟩ := hc
    rcases hd' with h | h
    · have := List.eq_of_mem_replicate h; subst this; exact hd up 0 (by omega)
    · exact hd up d (by have := natDigits_lt b h2 n d h; omega)
  intro c hc
  unfold spellNat at hc
  cases hbase : sp.base with
  | dec =>
    rw [hbase] at hc
    simp only [natStr_eq_padded] at hc
    exact hpad 10 false 0 (by omega) (by omega) c hc
  | hex =>
    rw [hbase] at hc
    simp only [zpad_natStr, List.mem_cons, Base.letter, Base.radix] at hc
    rcases hc with rfl | rfl | hc
    · simpa [digitChar_zero] using hd false 0 (by omega)
    · cases sp.upPrefix <;> simp [hx, hX]
    · exact hpad 16 _ _ (by omega) (by omega) c hc
  | oct =>
    rw [hbase] at hc
    simp only [zpad_natStr, List.mem_cons, Base.letter, Base.radix] at hc
    rcases hc with rfl | rfl | hc
    · simpa [digitChar_zero] using hd false 0 (by omega)
    · cases sp.upPrefix <;> simp [ho, hO]
    · exact hpad 8 _ _ (by omega) (by omega) c hc
  | bin =>
    rw [hbase] at hc
    simp only [zpad_natStr, List.mem_cons, Base.letter, Base.radix] at hc
    rcases hc with rfl | rfl | hc
    · simpa [digitChar_zero] using hd false 0 (by omega)
    · cases sp.upPrefix <;> simp [hb, hB]
    · exact hpad 2 _ _ (by omega) (by omega) c hc

theorem spellInt_chars (p : Char → Prop) (hp : NumCharOK p) (sp : NumSp) (i : Int) :
    ∀ c ∈ spellInt sp i, p c := by
  intro c hc
  unfold spellInt at hc
  split at hc
  · rcases List.mem_cons.mp hc with rfl | h
    · exact hp.2.1
    · exact spellNat_chars p hp sp _ c h
  · rcases List.mem_append.mp hc with h | h
    · split at h
      · simp at h; subst h; exact hp.2.2.1
      · simp at h
    · exact spellNat_chars p hp sp _ c h

theorem numCharOK_notSpace : NumCharOK (fun c => isSpace c = false) :=
  ⟨fun up d h => digitChar_notSpace up d h, by decide, by decide, by decide, by decide, by decide,
   by decide, by decide, by decide⟩

theorem numCharOK_noDollar : NumCharOK (fun c => c ≠ '$') :=
  ⟨fun up d h => (digitChar_props16 ⟨d, h⟩ up).2.2.1, by decide, by decide, by decide, by decide,
   by decide, by decide, by decide, by decide⟩

theorem spellInt_notSpace (sp : NumSp) (i : Int) : ∀ c ∈ spellInt sp i, isSpace c = false :=
  spellInt_chars _ numCharOK_notSpace sp i

theorem spellNat_notSpace (sp : NumSp) (n : Nat) : ∀ c ∈ spellNat sp n, isSpace c = false :=
  spellNat_chars _ numCharOK_notSpace sp n

/-! ### signed -/

theorem spellNat_head (sp : NumSp) (n : Nat) :
    ∃ c r, spellNat sp n = c :: r ∧ c ≠ '-' ∧ c ≠ '+' := by
  unfold spellNat
  cases hbase : sp.base with
  | dec =>
    simp only [natStr]
    have hne := natDigits_ne_nil 10 n
    cases hds : natDigits 10 n with
    | nil => exact absurd hds hne
    | cons d r =>
      have hd : d < 10 := natDigits_lt 10 (by omega) n d (by simp [hds])
      refine ⟨digitChar false d, r.map (digitChar false), by simp, ?_, ?_⟩
      · exact (digitChar_props16 ⟨d, by omega⟩ false).2.2.2.2.1
      · exact (digitChar_props16 ⟨d, by omega⟩ false).2.2.2.1
  | hex => exact ⟨'0', _, rfl, by decide, by decide⟩
  | oct => exact ⟨'0', _, rfl, by decide, by decide⟩
  | bin => exact ⟨'0', _, rfl, by decide, by decide⟩

theorem splitSign_spellNat (sp : NumSp) (n : Nat) : splitSign (spellNat sp n) = (false, spellNat sp n) := by
  obtain ⟨c, r, h, h1, h2⟩ := spellNat_head sp n
  rw [h]; simp [splitSign, h1, h2]

/-- T `parseInt_printInt` (core): Python's `int(text, 0)` reads every spelling of every integer -/
theorem pyInt0_spellInt (sp : NumSp) (i : Int) : pyInt0 (spellInt sp i) = some i := by
  unfold pyInt0
  rw [strip_of_noSpace _ (spellInt_notSpace sp i)]
  unfold spellInt
  split
  · simp only [splitSign, if_true, unsignedBase0_spellNat, Option.map_some, applySign]
    congr 1; omega
  · split
    · have hs : splitSign ('+' :: spellNat sp i.toNat) = (false, spellNat sp i.toNat) := by
        simp [splitSign]
      simp only [List.singleton_append, hs, unsignedBase0_spellNat, Option.map_some, applySign]
      simp; omega
    · simp only [List.nil_append, splitSign_spellNat, unsignedBase0_spellNat, Option.map_some, applySign]
      simp; omega

theorem pyInt0_spellNat (sp : NumSp) (n : Nat) : pyInt0 (spellNat sp n) = some (n : Int) := by
  unfold pyInt0
  rw [strip_of_noSpace _ (spellNat_notSpace sp n), splitSign_spellNat]
  simp [unsignedBase0_spellNat, applySign]

/-- `int(text)` (base 10) of a decimal number -/
theorem pyInt10_natStr (n : Nat) : pyInt10 (natStr 10 false n) = some (n : Int) := by
  have h := pyInt0_spellNat {} n
  have hs : spellNat {} n = natStr 10 false n := rfl
  unfold pyInt10
  rw [strip_of_noSpace _ (natStr_notSpace 10 (by omega) (by omega) false n)]
  have hsp := splitSign_spellNat {} n
  rw [hs] at hsp
  rw [hsp]
  have hp := parseBody_padded 10 (by omega) (by omega) false 0 n
  rw [← natStr_eq_padded] at hp
  simp [hp, applySign]

/-! ### after `value.replace(" ", "").upper()` -/

def NumSp.toUp (sp : NumSp) : NumSp := { sp with upDigits := true, upPrefix := true }

theorem upper_paddedDigits (b : Nat) (hb2 : 2 ≤ b) (hb : b ≤ 16) (up : Bool) (k n : Nat) :
    upper (paddedDigits b up k n) = paddedDigits b true k n := by
  unfold upper paddedDigits
  rw [List.map_map]
  apply List.map_congr_left
  intro d hd
  have hd16 : d < 16 := by
    rcases List.mem_append.mp hd with h | h
    · have := List.eq_of_mem_replicate h; omega
    · have := natDigits_lt b hb2 n d h; omega
  exact digitChar_toUpper up d hd16

theorem paddedDigits_dec_up (up : Bool) (k n : Nat) : paddedDigits 10 up k n = paddedDigits 10 false k n := by
  unfold paddedDigits
  apply List.map_congr_left
  intro d hd
  have hd10 : d < 10 := by
    rcases List.mem_append.mp hd with h | h
    · have := List.eq_of_mem_replicate h; omega
    · exact natDigits_lt 10 (by omega) n d h
  exact digitChar_dec up d hd10

theorem paddedDigits_length (b : Nat) (up : Bool) (k n : Nat) :
    (paddedDigits b up k n).length = k + (natDigits b n).length := by
  simp [paddedDigits]

theorem upper_natStr (b : Nat) (hb2 : 2 ≤ b) (hb : b ≤ 16) (up : Bool) (n : Nat) :
    upper (natStr b up n) = natStr b true n := by
  rw [natStr_eq_padded, natStr_eq_padded]; exact upper_paddedDigits b hb2 hb up 0 n

theorem natStr_length (b : Nat) (up : Bool) (n : Nat) : (natStr b up n).length = (natDigits b n).length := by
  simp [natStr]

theorem upper_zpad_natStr (b : Nat) (hb2 : 2 ≤ b) (hb : b ≤ 16) (up : Bool) (w n : Nat) :
    List.map Char.toUpper (zpad w (natStr b up n)) = zpad w (natStr b true n) := by
  unfold zpad
  rw [natStr_length, natStr_length]
  simp only [List.map_append, List.map_replicate]
  rw [show List.map Char.toUpper (natStr b up n) = natStr b true n from upper_natStr b hb2 hb up n]
  rfl

theorem upper_spellNat (sp : NumSp) (n : Nat) : upper (spellNat sp n) = spellNat sp.toUp n := by
  unfold spellNat NumSp.toUp
  cases hb : sp.base with
  | dec =>
    simp only [natStr_eq_padded]
    rw [upper_paddedDigits 10 (by omega) (by omega), paddedDigits_dec_up]
  | hex =>
    simp only [upper, List.map_cons, Base.radix]
    rw [upper_zpad_natStr 16 (by omega) (by omega)]
    cases sp.upPrefix <;> simp [Base.letter] <;> decide
  | oct =>
    simp only [upper, List.map_cons, Base.radix]
    rw [upper_zpad_natStr 8 (by omega) (by omega)]
    cases sp.upPrefix <;> simp [Base.letter] <;> decide
  | bin =>
    simp only [upper, List.map_cons, Base.radix]
    rw [upper_zpad_natStr 2 (by omega) (by omega)]
    cases sp.upPrefix <;> simp [Base.letter] <;> decide

theorem upper_spellInt (sp : NumSp) (i : Int) : upper (spellInt sp i) = spellInt sp.toUp i := by
  unfold spellInt
  split
  · simp only [upper, List.map_cons]
    rw [show List.map Char.toUpper (spellNat sp (-i).toNat) = spellNat sp.toUp (-i).toNat from
      upper_spellNat sp _]
    rfl
  · simp only [upper, List.map_append]
    rw [show List.map Char.toUpper (spellNat sp i.toNat) = spellNat sp.toUp i.toNat from
      upper_spellNat sp _]
    cases hp : sp.plus <;> simp [NumSp.toUp, hp]

/-! ### `$NODEID` -/

theorem isPrefixOf_tok_cons (c : Char) (r : Str) (h : c ≠ '$') : nodeidTok.isPrefixOf (c :: r) = false := by
  simp only [nodeidTok, List.isPrefixOf]
  have : ('$' == c) = false := by simpa using fun h' => h h'.symm
  simp [this]

theorem containsNodeid_false (s : Str) (h : ∀ c ∈ s, c ≠ '$') : containsNodeid s = false := by
  unfold containsNodeid
  induction s with
  | nil => rfl
  | cons c r ih =>
    simp only [isInfix, isPrefixOf_tok_cons c r (h c (by simp)), Bool.false_or]
    exact ih (fun x hx => h x (by simp [hx]))

theorem isInfix_append_left (n a b : Str) (h : isInfix n b = true) : isInfix n (a ++ b) = true := by
  induction a with
  | nil => simpa using h
  | cons c r ih => simp [isInfix, ih]

theorem containsNodeid_prefix (t : Str) : containsNodeid (nodeidTok ++ t) = true := by
  simp [containsNodeid, nodeidTok, isInfix, List.isPrefixOf]

theorem containsNodeid_mid (a t : Str) : containsNodeid (a ++ nodeidTok ++ t) = true := by
  rw [List.append_assoc]
  exact isInfix_append_left _ _ _ (containsNodeid_prefix t)

theorem removeNodeidF_plain (s : Str) (h : ∀ c ∈ s, c ≠ '$') :
    ∀ fuel, s.length < fuel → removeNodeidF fuel s = s := by
  induction s with
  | nil => intro fuel hf; cases fuel <;> simp [removeNodeidF]
  | cons c r ih =>
    intro fuel hf
    cases fuel with
    | zero => simp at hf
    | succ fuel =>
      have hc : c ≠ '$' := h c (by simp)
      have h1 : nodeidTok.isPrefixOf r = false := by
        cases r with
        | nil => rfl
        | cons d r' => exact isPrefixOf_tok_cons d r' (h d (by simp))
      simp only [removeNodeidF, h1, isPrefixOf_tok_cons c r hc]
      simp only [Bool.false_eq_true, and_false, if_false]
      rw [ih (fun x hx => h x (by simp [hx])) fuel (by simp at hf; omega)]

theorem removeNodeid_prefix (t : Str) (h : ∀ c ∈ t, c ≠ '$') :
    removeNodeid (nodeidTok ++ '+' :: t) = t := by
  unfold removeNodeid
  simp only [nodeidTok, List.cons_append, List.nil_append, List.length_cons, removeNodeidF]
  simp [List.isPrefixOf, dropPlus]
  exact removeNodeidF_plain t h _ (by omega)

theorem removeNodeidF_suffix (t : Str) (h : ∀ c ∈ t, c ≠ '$') :
    ∀ fuel, t.length < fuel → removeNodeidF fuel (t ++ '+' :: nodeidTok) = t := by
  induction t with
  | nil =>
    intro fuel hf
    cases fuel with
    | zero => simp at hf
    | succ fuel => cases fuel <;> simp [removeNodeidF, nodeidTok, List.isPrefixOf, dropPlus]
  | cons c r ih =>
    intro fuel hf
    cases fuel with
    | zero => simp at hf
    | succ fuel =>
      have hc : c ≠ '$' := h c (by simp)
      have h1 : nodeidTok.isPrefixOf (r ++ '+' :: nodeidTok) = false := by
        cases r with
        | nil => rfl
        | cons d r' => exact isPrefixOf_tok_cons d _ (h d (by simp))
      simp only [List.cons_append, removeNodeidF, h1, isPrefixOf_tok_cons c _ hc]
      simp only [Bool.false_eq_true, and_false, if_false]
      rw [ih (fun x hx => h x (by simp [hx])) fuel (by simp at hf; omega)]

theorem removeNodeid_suffix (t : Str) (h : ∀ c ∈ t, c ≠ '$') :
    removeNodeid (t ++ '+' :: nodeidTok) = t := by
  unfold removeNodeid
  exact removeNodeidF_suffix t h _ (by simp [nodeidTok]; omega)

theorem spellInt_noDollar (sp : NumSp) (i : Int) : ∀ c ∈ spellInt sp i, c ≠ '$' :=
  spellInt_chars _ numCharOK_noDollar sp i

/-! ### a number followed by `+…` is not a number -/

theorem scanDigits_stop (b : Nat) (up : Bool) (c : Char) (rest : Str) (hc : digitVal c = none)
    (hcu : c ≠ '_') : ∀ (ds : List Nat) (acc : Nat), (∀ d ∈ ds, d < b ∧ d < 16) →
      scanDigits b acc false (ds.map (digitChar up) ++ c :: rest) = none := by
  intro ds
  induction ds with
  | nil => intro acc _; simp [scanDigits, hc, hcu]
  | cons d r ih =>
    intro acc h
    have hd := h d (by simp)
    simp only [List.map_cons, List.cons_append, scanDigits, digitChar_ne_us up d hd.2, if_false,
      digitVal_digitChar up d hd.2, hd.1, if_true]
    exact ih _ (fun x hx => h x (by simp [hx]))

theorem parseBody_padded_stop (b : Nat) (hb2 : 2 ≤ b) (hb : b ≤ 16) (up : Bool) (k n : Nat) (rest : Str) :
    parseBody b (paddedDigits b up k n ++ '+' :: rest) = none := by
  obtain ⟨c, r, hcr, hc⟩ := paddedDigits_cons b hb2 hb up k n
  have hscan := scanDigits_stop b up '+' rest (by decide) (by decide)
    (List.replicate k 0 ++ natDigits b n) 0 (by
      intro d hd
      rcases List.mem_append.mp hd with h | h
      · have := List.eq_of_mem_replicate h; omega
      · have := natDigits_lt b hb2 n d h; omega)
  have hp : paddedDigits b up k n = (List.replicate k 0 ++ natDigits b n).map (digitChar up) := rfl
  rw [← hp, hcr] at hscan
  rw [hcr]
  simp only [List.cons_append, parseBody, hc, if_false]
  simpa using hscan

theorem unsignedBase0_spellNat_stop (sp : NumSp) (n : Nat) (rest : Str) :
    unsignedBase0 (spellNat sp n ++ '+' :: rest) = none := by
  unfold spellNat
  cases hb : sp.base with
  | dec =>
    simp only
    have hp := parseBody_padded_stop 10 (by omega) (by omega) false 0 n rest
    rw [← natStr_eq_padded] at hp
    by_cases h0 : n = 0
    · subst h0
      have : natStr 10 false 0 = ['0'] := by decide
      rw [this] at hp ⊢
      simp only [List.cons_append, List.nil_append] at hp ⊢
      simp [unsignedBase0, hp, zeroOnly]
    · obtain ⟨d, r, hr, hd⟩ := natDigits_head 10 (by omega) n h0
      have hlt : d < 10 := natDigits_lt 10 (by omega) n d (by simp [hr])
      have hc : digitChar false d ≠ '0' := fun h => hd (digitChar_zero_iff16 ⟨d, by omega⟩ false h)
      have hs : natStr 10 false n = digitChar false d :: r.map (digitChar false) := by
        simp [natStr, hr]
      rw [hs] at hp ⊢
      cases hr2 : r.map (digitChar false) with
      | nil => rw [hr2] at hp; simpa [unsignedBase0, hc] using hp
      | cons c1 r1 => rw [hr2] at hp; simpa [unsignedBase0, hc] using hp
  | hex =>
    simp only [zpad_natStr, List.cons_append]
    obtain ⟨c, r, hcr, hc⟩ := paddedDigits_cons 16 (by omega) (by omega) sp.upDigits
      (sp.pad - (natStr 16 sp.upDigits n).length) n
    have hp := parseBody_padded_stop 16 (by omega) (by omega) sp.upDigits
      (sp.pad - (natStr 16 sp.upDigits n).length) n rest
    simp only [Base.radix]
    rw [hcr] at hp ⊢
    cases sp.upPrefix <;> simpa [unsignedBase0, Base.letter, dropUs, hc] using hp
  | oct =>
    simp only [zpad_natStr, List.cons_append]
    obtain ⟨c, r, hcr, hc⟩ := paddedDigits_cons 8 (by omega) (by omega) sp.upDigits
      (sp.pad - (natStr 8 sp.upDigits n).length) n
    have hp := parseBody_padded_stop 8 (by omega) (by omega) sp.upDigits
      (sp.pad - (natStr 8 sp.upDigits n).length) n rest
    simp only [Base.radix]
    rw [hcr] at hp ⊢
    cases sp.upPrefix <;> simpa [unsignedBase0, Base.letter, dropUs, hc] using hp
  | bin =>
    simp only [zpad_natStr, List.cons_append]
    obtain ⟨c, r, hcr, hc⟩ := paddedDigits_cons 2 (by omega) (by omega) sp.upDigits
      (sp.pad - (natStr 2 sp.upDigits n).length) n
    have hp := parseBody_padded_stop 2 (by omega) (by omega) sp.upDigits
      (sp.pad - (natStr 2 sp.upDigits n).length) n rest
    simp only [Base.radix]
    rw [hcr] at hp ⊢
    cases sp.upPrefix <;> simpa [unsignedBase0, Base.letter, dropUs, hc] using hp

theorem pyInt0_spellInt_stop (sp : NumSp) (i : Int) (rest : Str) (hr : ∀ c ∈ rest, isSpace c = false) :
    pyInt0 (spellInt sp i ++ '+' :: rest) = none := by
  unfold pyInt0
  rw [strip_of_noSpace _ (by
    intro c hc
    rcases List.mem_append.mp hc with h | h
    · exact spellInt_notSpace sp i c h
    · rcases List.mem_cons.mp h with rfl | h
      · decide
      · exact hr c h)]
  obtain ⟨c, r, h, h1, h2⟩ := spellNat_head sp i.toNat
  have hs : splitSign (spellNat sp i.toNat ++ '+' :: rest)
      = (false, spellNat sp i.toNat ++ '+' :: rest) := by
    rw [h]; simp [splitSign, h1, h2]
  unfold spellInt
  split
  · simp only [List.cons_append, splitSign, if_true, unsignedBase0_spellNat_stop, Option.map_none]
  · cases hp : sp.plus
    · simp only [Bool.false_eq_true, if_false, List.nil_append, hs, unsignedBase0_spellNat_stop,
        Option.map_none]
    · have hs2 : splitSign ('+' :: (spellNat sp i.toNat ++ '+' :: rest))
          = (false, spellNat sp i.toNat ++ '+' :: rest) := by simp [splitSign]
      simp only [if_true, List.singleton_append, List.cons_append, List.nil_append, hs2,
        unsignedBase0_spellNat_stop, Option.map_none]

theorem pyInt0_dollar (t : Str) (h : ∀ c ∈ t, isSpace c = false) : pyInt0 ('$' :: t) = none := by
  unfold pyInt0
  rw [strip_of_noSpace _ (by
    intro c hc
    rcases List.mem_cons.mp hc with rfl | hc
    · decide
    · exact h c hc)]
  cases t with
  | nil => decide
  | cons d r => simp [splitSign, unsignedBase0, parseBody, scanDigits, digitVal]

end Canopen.Spec.EdsWriter
