/-
Lemmas about looking objects up in a dictionary assembled with `add_object` / `add_member`
(the two tables `indices`/`names` of `ObjectDictionary`, `subindices`/`names` of records and arrays).
-/
import CanopenProofs.Lemmas.EdsSections

namespace Canopen.Eds

/-! ### dictionaries -/

theorem dictGet_dictSet_ne {κ β : Type} [DecidableEq κ] (k k' : κ) (v : β) (d : List (κ × β)) (h : k' ≠ k) :
    dictGet k (dictSet k' v d) = dictGet k d := by
  induction d with
  | nil => simp [dictSet, dictGet, h]
  | cons p r ih =>
    obtain ⟨k2, v2⟩ := p
    simp only [dictSet]
    split
    · rename_i h2; subst h2; simp [dictGet, h]
    · simp only [dictGet]; split <;> simp_all

theorem dictGet_dictSet_same {κ β : Type} [DecidableEq κ] (k : κ) (v : β) (d : List (κ × β)) :
    dictGet k (dictSet k v d) = some v := by
  induction d with
  | nil => simp [dictSet, dictGet]
  | cons p r ih =>
    obtain ⟨k', v'⟩ := p
    simp only [dictSet]
    split
    · simp [dictGet]
    · rename_i h; simp [dictGet, h, ih]

theorem dictSet_ne_nil {κ β : Type} [DecidableEq κ] (k : κ) (v : β) (d : List (κ × β)) :
    dictSet k v d ≠ [] := by
  cases d with
  | nil => simp [dictSet]
  | cons p r => obtain ⟨k', v'⟩ := p; simp only [dictSet]; split <;> simp

theorem dictGet_some_mem_keys {κ β : Type} [DecidableEq κ] (k : κ) (v : β) (d : List (κ × β))
    (h : dictGet k d = some v) : k ∈ d.map (·.1) := by
  induction d with
  | nil => simp [dictGet] at h
  | cons p r ih =>
    obtain ⟨k', v'⟩ := p
    simp only [dictGet] at h
    split at h
    · rename_i hk; simp [hk]
    · simp [ih h]

theorem keys_dictSet {κ β : Type} [DecidableEq κ] (k : κ) (v : β) (d : List (κ × β)) :
    ∀ x ∈ (dictSet k v d).map (·.1), x = k ∨ x ∈ d.map (·.1) := by
  induction d with
  | nil => intro x hx; simp [dictSet] at hx; exact Or.inl hx
  | cons p r ih =>
    obtain ⟨k', v'⟩ := p
    intro x hx
    simp only [dictSet] at hx
    split at hx
    · rename_i hk
      simp only [List.map_cons, List.mem_cons] at hx ⊢
      rcases hx with rfl | hx
      · exact Or.inl rfl
      · exact Or.inr (Or.inr hx)
    · simp only [List.map_cons, List.mem_cons] at hx ⊢
      rcases hx with rfl | hx
      · exact Or.inr (Or.inl rfl)
      · rcases ih x hx with h | h
        · exact Or.inl h
        · exact Or.inr (Or.inr h)

/-! ### top-level objects -/

theorem byIndex_addObject_self (od : OD) (o : Obj) : (od.addObject o).byIndex o.index = some o := by
  simp [OD.byIndex, OD.addObject, dictGet_dictSet_same, OD.deref]

theorem byName_addObject_self (od : OD) (o : Obj) : (od.addObject o).byName o.name = some o := by
  simp [OD.byName, OD.addObject, dictGet_dictSet_same, OD.deref]

theorem deref_addObject_lt (od : OD) (o : Obj) (id : Nat) (x : Obj) (h : od.deref id = some x) :
    (od.addObject o).deref id = some x := by
  simp only [OD.deref, OD.addObject] at h ⊢
  have hlt : id < od.heap.length := by
    by_cases hl : id < od.heap.length
    · exact hl
    · rw [List.getElem?_eq_none (by omega)] at h; exact absurd h (by simp)
  rw [List.getElem?_append_left hlt]; exact h

theorem byIndex_addObject_ne (od : OD) (o : Obj) (i : Nat) (x : Obj) (hne : o.index ≠ i)
    (h : od.byIndex i = some x) : (od.addObject o).byIndex i = some x := by
  simp only [OD.byIndex] at h ⊢
  have : dictGet i (od.addObject o).indices = dictGet i od.indices := by
    simp [OD.addObject, dictGet_dictSet_ne _ _ _ _ hne]
  rw [this]
  cases hd : dictGet i od.indices with
  | none => rw [hd] at h; exact absurd h (by simp)
  | some id =>
    rw [hd] at h
    simp only [Option.bind_some] at h ⊢
    exact deref_addObject_lt od o id x h

theorem byName_addObject_ne (od : OD) (o : Obj) (n : Str) (x : Obj) (hne : o.name ≠ n)
    (h : od.byName n = some x) : (od.addObject o).byName n = some x := by
  simp only [OD.byName] at h ⊢
  have : dictGet n (od.addObject o).names = dictGet n od.names := by
    simp [OD.addObject, dictGet_dictSet_ne _ _ _ _ hne]
  rw [this]
  cases hd : dictGet n od.names with
  | none => rw [hd] at h; exact absurd h (by simp)
  | some id =>
    rw [hd] at h
    simp only [Option.bind_some] at h ⊢
    exact deref_addObject_lt od o id x h

theorem byIndex_foldl_preserved (l : List Obj) : ∀ (od : OD) (i : Nat) (x : Obj),
    od.byIndex i = some x → (∀ o ∈ l, o.index ≠ i) → (l.foldl OD.addObject od).byIndex i = some x := by
  induction l with
  | nil => intro od i x h _; exact h
  | cons o r ih =>
    intro od i x h hne
    exact ih _ i x (byIndex_addObject_ne od o i x (hne o (by simp)) h) (fun y hy => hne y (by simp [hy]))

theorem byName_foldl_preserved (l : List Obj) : ∀ (od : OD) (n : Str) (x : Obj),
    od.byName n = some x → (∀ o ∈ l, o.name ≠ n) → (l.foldl OD.addObject od).byName n = some x := by
  induction l with
  | nil => intro od n x h _; exact h
  | cons o r ih =>
    intro od n x h hne
    exact ih _ n x (byName_addObject_ne od o n x (hne o (by simp)) h) (fun y hy => hne y (by simp [hy]))

theorem byIndex_foldl_mem (l : List Obj) : ∀ (od : OD), l.Pairwise (fun a b => a.index ≠ b.index) →
    ∀ o ∈ l, (l.foldl OD.addObject od).byIndex o.index = some o := by
  induction l with
  | nil => intro od _ o ho; simp at ho
  | cons x r ih =>
    intro od hp o ho
    rw [List.pairwise_cons] at hp
    rcases List.mem_cons.mp ho with rfl | ho
    · exact byIndex_foldl_preserved r _ _ _ (byIndex_addObject_self od o)
        (fun y hy => (hp.1 y hy).symm)
    · exact ih _ hp.2 o ho

theorem byName_foldl_mem (l : List Obj) : ∀ (od : OD), l.Pairwise (fun a b => a.name ≠ b.name) →
    ∀ o ∈ l, (l.foldl OD.addObject od).byName o.name = some o := by
  induction l with
  | nil => intro od _ o ho; simp at ho
  | cons x r ih =>
    intro od hp o ho
    rw [List.pairwise_cons] at hp
    rcases List.mem_cons.mp ho with rfl | ho
    · exact byName_foldl_preserved r _ _ _ (byName_addObject_self od o)
        (fun y hy => (hp.1 y hy).symm)
    · exact ih _ hp.2 o ho

/-- the keys of the `names` table are names of objects that were added -/
theorem names_foldl (l : List Obj) : ∀ (od : OD) (n : Str), n ∈ (l.foldl OD.addObject od).names.map (·.1) →
    n ∈ od.names.map (·.1) ∨ n ∈ l.map Obj.name := by
  induction l with
  | nil => intro od n h; exact Or.inl h
  | cons o r ih =>
    intro od n h
    rcases ih _ n h with h1 | h1
    · simp only [OD.addObject] at h1
      rcases keys_dictSet _ _ _ n h1 with h2 | h2
      · exact Or.inr (by simp [h2])
      · exact Or.inl h2
    · exact Or.inr (by simp [h1])

/-! ### members -/

theorem subs_foldl_addMember (vs : List Var) : ∀ c : Coll,
    (vs.foldl Coll.addMember c).subs = vs.foldl (fun d v => dictSet v.subindex v d) c.subs := by
  induction vs with
  | nil => intro c; rfl
  | cons v r ih => intro c; simp only [List.foldl_cons]; rw [ih]; rfl

theorem names_foldl_addMember (vs : List Var) : ∀ c : Coll,
    (vs.foldl Coll.addMember c).names = vs.foldl (fun d v => dictSet v.name v d) c.names := by
  induction vs with
  | nil => intro c; rfl
  | cons v r ih => intro c; simp only [List.foldl_cons]; rw [ih]; rfl

theorem dictGet_foldl_preserved {κ : Type} [DecidableEq κ] (key : Var → κ) (vs : List Var) :
    ∀ (d : List (κ × Var)) (k : κ) (x : Var), dictGet k d = some x → (∀ v ∈ vs, key v ≠ k) →
      dictGet k (vs.foldl (fun d v => dictSet (key v) v d) d) = some x := by
  induction vs with
  | nil => intro d k x h _; exact h
  | cons v r ih =>
    intro d k x h hne
    apply ih _ k x _ (fun y hy => hne y (by simp [hy]))
    rw [dictGet_dictSet_ne _ _ _ _ (hne v (by simp))]; exact h

theorem dictGet_foldl_mem {κ : Type} [DecidableEq κ] (key : Var → κ) (vs : List Var) :
    ∀ (d : List (κ × Var)), vs.Pairwise (fun a b => key a ≠ key b) → ∀ v ∈ vs,
      dictGet (key v) (vs.foldl (fun d v => dictSet (key v) v d) d) = some v := by
  induction vs with
  | nil => intro d _ v hv; simp at hv
  | cons x r ih =>
    intro d hp v hv
    rw [List.pairwise_cons] at hp
    rcases List.mem_cons.mp hv with rfl | hv
    · exact dictGet_foldl_preserved key r _ _ _ (dictGet_dictSet_same _ _ _) (fun y hy => (hp.1 y hy).symm)
    · exact ih _ hp.2 v hv

theorem foldl_addMember_index (vs : List Var) : ∀ c : Coll, (vs.foldl Coll.addMember c).index = c.index := by
  induction vs with
  | nil => intro c; rfl
  | cons v r ih => intro c; simp only [List.foldl_cons]; rw [ih]; rfl

theorem foldl_addMember_name (vs : List Var) : ∀ c : Coll, (vs.foldl Coll.addMember c).name = c.name := by
  induction vs with
  | nil => intro c; rfl
  | cons v r ih => intro c; simp only [List.foldl_cons]; rw [ih]; rfl

theorem foldl_dictSet_ne_nil {κ : Type} [DecidableEq κ] (key : Var → κ) (vs : List Var) (hne : vs ≠ []) :
    ∀ d : List (κ × Var), vs.foldl (fun d v => dictSet (key v) v d) d ≠ [] := by
  induction vs with
  | nil => exact absurd rfl hne
  | cons v r ih =>
    intro d
    simp only [List.foldl_cons]
    cases r with
    | nil => exact dictSet_ne_nil _ _ _
    | cons w r' => exact ih (by simp) _

/-! ### dotted names -/

theorem splitDot_append (p c : Str) (h : '.' ∉ p) : splitDot (p ++ '.' :: c) = some (p, c) := by
  induction p with
  | nil => simp [splitDot]
  | cons x r ih =>
    have hx : x ≠ '.' := fun he => h (by simp [he])
    simp only [List.cons_append, splitDot, hx, if_false]
    rw [ih (fun hr => h (by simp [hr]))]
    rfl

theorem splitDot_none (s : Str) (h : '.' ∉ s) : splitDot s = none := by
  induction s with
  | nil => rfl
  | cons x r ih =>
    have hx : x ≠ '.' := fun he => h (by simp [he])
    simp only [splitDot, hx, if_false]
    rw [ih (fun hr => h (by simp [hr]))]; rfl

end Canopen.Eds
