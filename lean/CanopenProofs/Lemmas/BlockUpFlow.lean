/-
Helper lemmas for C13, second part: the block upload of the client model against the reference
server over a channel that loses nothing and leaves sequence bytes, initiate and end responses
alone (the data bytes of the segments may arrive altered).  `upload_flow` computes the outcome of
the whole `with` block for every such run.  Property theorems live in CanopenProofs/C13.lean.
-/
import CanopenProofs.Lemmas.BlockUp

namespace Canopen.C13
open Canopen Canopen.Crc Canopen.Gen.SdoBlock Canopen.Sdo.BlockUp
open Canopen.Spec.BlockUp (Cfg Srv Phase nseg)

/-- the client's frames in the log, newest first -/
def reqFrames (s : Sys) : List Bytes := (s.log.filter fun e => e.kind == 0).map (·.frame)

/-- parameters of a run against the reference server: what the server holds and how, the
    channel, the seven data bytes `g i` that reach the client for segment `i` (0-based), the
    client's CRC request and the multiplexer -/
structure Par where
  cfg : Cfg
  chan : Nat → Bytes → Option Bytes
  g : Nat → Bytes
  crcReq : Bool
  idx : Nat
  sub : Nat

def Par.env (p : Par) : Env := { cfg := p.cfg, chan := p.chan }

/-- the channel loses nothing, leaves the initiate and end responses alone (frames 0 and > nseg)
    and delivers segment number `n` (1-based, frames 1 … nseg) with its sequence byte intact and the
    data bytes `g (n-1)` -/
structure ChanOK (p : Par) : Prop where
  first : ∀ f, p.chan 0 f = some f
  seg : ∀ n seq, 1 ≤ n → n ≤ nseg p.cfg →
    p.chan n (Spec.BlockUp.segment p.cfg (n - 1) seq) = some ((Spec.BlockUp.segment p.cfg (n - 1) seq).getD 0 0 :: p.g (n - 1))
  rest : ∀ n f, nseg p.cfg < n → p.chan n f = some f

/-- a segment as it sits in the client's queue: position `i` (0-based) of the sub-block starting at
    global segment `base` -/
def qseg (cfg : Cfg) (g : Nat → Bytes) (base i : Nat) : Bytes :=
  ((i + 1) ||| (if base + i + 1 = nseg cfg then 0x80 else 0)) :: g (base + i)

theorem deliver1_seg (p : Par) (hc : ChanOK p) (s : Sys) (seq : Nat) (h1 : 1 ≤ s.nresp) (h2 : s.nresp ≤ nseg p.cfg) :
    ∃ k, deliver1 p.env s (Spec.BlockUp.segment p.cfg (s.nresp - 1) seq) =
      { s with nresp := s.nresp + 1,
               queue := s.queue ++ [(Spec.BlockUp.segment p.cfg (s.nresp - 1) seq).getD 0 0 :: p.g (s.nresp - 1)],
               log := ⟨k, (Spec.BlockUp.segment p.cfg (s.nresp - 1) seq).getD 0 0 :: p.g (s.nresp - 1)⟩ :: s.log } ∧
      (k = 2 ∨ k = 4) := by
  simp only [deliver1, Par.env, hc.seg s.nresp seq h1 h2]
  refine ⟨_, rfl, ?_⟩
  split <;> simp

/-- without a C07 disturbance `send_request` is the C13 definition -/
theorem sendReq_plain (E : Env) (hd : E.dist = none) (s : Sys) (f : Bytes) :
    sendReq E s f = deliver E { s with srv := (Spec.BlockUp.step E.cfg s.srv f).1, log := ⟨0, f⟩ :: s.log }
      (Spec.BlockUp.step E.cfg s.srv f).2 := by
  simp [sendReq, hd]

theorem reqFrames_deliver (E : Env) (hd : E.dist = none) (rs : List Bytes) :
    ∀ s, reqFrames (deliver E s rs) = reqFrames s := by
  induction rs with
  | nil => intro s; rfl
  | cons r rs ih =>
    intro s
    simp only [deliver, ih]
    simp only [deliver1, hd]
    split
    · simp [reqFrames, List.filter_cons]
    · simp only [reqFrames, List.filter_cons]
      split <;> simp

theorem reqFrames_sendReq (E : Env) (hd : E.dist = none) (s : Sys) (f : Bytes) :
    reqFrames (sendReq E s f) = f :: reqFrames s := by
  rw [sendReq_plain E hd, reqFrames_deliver E hd]
  simp [reqFrames, List.filter_cons]

/-- delivering the segments of one sub-block -/
theorem deliver_block (p : Par) (hc : ChanOK p) (base : Nat) :
    ∀ (cnt : Nat) (s : Sys) (j : Nat), s.nresp = 1 + base + j → base + j + cnt ≤ nseg p.cfg →
    ∃ log, deliver p.env s ((List.range' j cnt).map fun i => Spec.BlockUp.segment p.cfg (base + i) (i + 1)) =
      { s with nresp := s.nresp + cnt, queue := s.queue ++ (List.range' j cnt).map (qseg p.cfg p.g base), log := log } ∧
      (log.filter fun e => e.kind == 0) = (s.log.filter fun e => e.kind == 0) := by
  intro cnt
  induction cnt with
  | zero => intro s j _ _; exact ⟨s.log, by simp [deliver], rfl⟩
  | succ cnt ih =>
    intro s j hn hle
    have hidx : s.nresp - 1 = base + j := by omega
    obtain ⟨k, hd, hk⟩ := deliver1_seg p hc s (j + 1) (by omega) (by omega)
    rw [hidx] at hd
    simp only [List.range'_succ, List.map_cons, deliver]
    rw [hd]
    obtain ⟨log, h1, h2⟩ := ih
      { s with
        nresp := s.nresp + 1,
        queue := s.queue ++ [(Spec.BlockUp.segment p.cfg (base + j) (j + 1)).getD 0 0 :: p.g (base + j)],
        log := ⟨k, (Spec.BlockUp.segment p.cfg (base + j) (j + 1)).getD 0 0 :: p.g (base + j)⟩ :: s.log } (j + 1)
      (by simp; omega) (by omega)
    refine ⟨log, ?_, ?_⟩
    · rw [h1]
      simp only [Spec.BlockUp.segment, List.getD_cons_zero, qseg, List.append_assoc, List.singleton_append]
      congr 1; omega
    · rw [h2]; rcases hk with rfl | rfl <;> simp [List.filter_cons]

theorem seqb : ∀ q : Fin 128, 1 ≤ q.val →
    q.val ||| 0 = q.val ∧ q.val &&& 0x7F = q.val ∧ q.val &&& 0x80 = 0 ∧ q.val ≠ 0x80 ∧
    (q.val ||| 128) &&& 0x7F = q.val ∧ (q.val ||| 128) &&& 0x80 ≠ 0 ∧ (q.val ||| 128) ≠ 0x80 := by
  decide

theorem seqb' (q : Nat) (h1 : 1 ≤ q) (h2 : q ≤ 127) :
    q ||| 0 = q ∧ q &&& 0x7F = q ∧ q &&& 0x80 = 0 ∧ q ≠ 0x80 ∧
    (q ||| 128) &&& 0x7F = q ∧ (q ||| 128) &&& 0x80 ≠ 0 ∧ (q ||| 128) ≠ 0x80 :=
  seqb ⟨q, by omega⟩ h1

/-- CRC negotiated: requested by the client and supported by the server -/
def Par.sup (p : Par) : Bool := p.crcReq && p.cfg.crcCapable

def initFrame (p : Par) : Bytes :=
  [0xA0 ||| 0 ||| (if p.crcReq then 4 else 0), p.idx % 256, p.idx / 256, p.sub, 127, 0, 0, 0]

def startFrame : Bytes := [0xA3, 0, 0, 0, 0, 0, 0, 0]

def ackFrame (n : Nat) : Bytes := [0xA2, n, 127, 0, 0, 0, 0, 0]

/-- between two `read` calls, `j` segments of sub-block `q` consumed, not the last one next -/
structure Mid (p : Par) (s : Sys) (q j : Nat) (acc : Bytes) : Prop where
  sphase : s.srv.phase = .ack
  sbase : s.srv.base = 127 * q
  ssent : s.srv.sent = min 127 (nseg p.cfg - 127 * q)
  sblk : s.srv.blk = 127
  scrc : s.srv.crc = p.sup
  sill : s.srv.illegal = none
  sconf : s.srv.confirmed = false
  jlt : j < min 127 (nseg p.cfg - 127 * q)
  queue : s.queue = (List.range' j (min 127 (nseg p.cfg - 127 * q) - j)).map (qseg p.cfg p.g (127 * q))
  nresp : s.nresp = 1 + 127 * q + min 127 (nseg p.cfg - 127 * q)
  ackseq : s.cl.ackseq = j
  done : s.cl.done = false
  err : s.cl.error = false
  sup : s.cl.crcSupported = p.sup
  crc : p.sup = true → s.cl.crc = crcHqx acc 0
  reqs : reqFrames s = List.replicate q (ackFrame 127) ++ [startFrame, initFrame p]
  size : s.cl.size = (if p.cfg.sizeInd then some p.cfg.data.length else none)

theorem range_eq_range' (n : Nat) : List.range n = List.range' 0 n := by
  simp [List.range_eq_range']

/-- the server's reaction to a full acknowledge that does not exhaust the value -/
theorem ack_more (p : Par) (s : Srv) (q : Nat) (hp : s.phase = .ack) (hb : s.base = 127 * q) (hs : s.sent = 127)
    (hmore : 127 * q + 127 < nseg p.cfg) :
    Spec.BlockUp.step p.cfg s (ackFrame 127) =
      ({ s with base := 127 * (q + 1), blk := 127, sent := min 127 (nseg p.cfg - 127 * (q + 1)), phase := .ack },
       (List.range (min 127 (nseg p.cfg - 127 * (q + 1)))).map
          fun i => Spec.BlockUp.segment p.cfg (127 * (q + 1) + i) (i + 1)) := by
  have h1 : ¬ (127 * (q + 1) = nseg p.cfg) := by omega
  have h2 : 127 * q + 127 = 127 * (q + 1) := by omega
  simp [Spec.BlockUp.step, ackFrame, hp, Spec.BlockUp.ackStep, Spec.BlockUp.flagIf, hs, hb, h1,
    Spec.BlockUp.sendBlock, h2]


/-- what is queued after position `j` of sub-block `q` -/
def restQ (p : Par) (q j : Nat) : List Bytes :=
  (List.range' j (min 127 (nseg p.cfg - 127 * q) - j)).map (qseg p.cfg p.g (127 * q))

theorem mid_queue {p : Par} {s : Sys} {q j : Nat} {acc : Bytes} (h : Mid p s q j acc) :
    s.queue = qseg p.cfg p.g (127 * q) j :: restQ p q (j + 1) := by
  have hj := h.jlt
  obtain ⟨m, hm⟩ : ∃ m, min 127 (nseg p.cfg - 127 * q) - j = m + 1 := ⟨_, (Nat.succ_pred_eq_of_pos (by omega)).symm⟩
  have hm' : min 127 (nseg p.cfg - 127 * q) - (j + 1) = m := by omega
  rw [h.queue, hm, List.range'_succ, List.map_cons, restQ, hm']

/-- `_ack_block`, with the frame spelled out -/
theorem ackBlock_eq (E : Env) (s : Sys) :
    ackBlock E s =
      { sendReq E s (ackFrame s.cl.ackseq) with cl := { (sendReq E s (ackFrame s.cl.ackseq)).cl with ackseq := 0 } } := by
  rfl

/-- a request answered by a run of segments starting at global segment `base` -/
theorem sendReq_block (p : Par) (hc : ChanOK p) (s : Sys) (f : Bytes) (srv' : Srv) (base cnt : Nat)
    (hstep : Spec.BlockUp.step p.cfg s.srv f =
      (srv', (List.range' 0 cnt).map fun i => Spec.BlockUp.segment p.cfg (base + i) (i + 1)))
    (hn : s.nresp = 1 + base) (hle : base + cnt ≤ nseg p.cfg) :
    ∃ log, sendReq p.env s f =
        { s with srv := srv', nresp := s.nresp + cnt,
                 queue := s.queue ++ (List.range' 0 cnt).map (qseg p.cfg p.g base), log := log } ∧
      reqFrames { s with log := log } = f :: reqFrames s := by
  obtain ⟨log, hd, hl⟩ := deliver_block p hc base cnt
    { s with srv := srv', log := ⟨0, f⟩ :: s.log } 0 (by simpa using hn) (by omega)
  refine ⟨log, ?_, ?_⟩
  · rw [sendReq_plain p.env rfl]
    show deliver p.env { s with srv := (Spec.BlockUp.step p.cfg s.srv f).1, log := _ }
      (Spec.BlockUp.step p.cfg s.srv f).2 = _
    rw [hstep]
    exact hd
  · simp only [reqFrames, hl]
    simp [List.filter_cons]

/-- `read` past the sequence check, for a segment that is not the last one -/
theorem afterSeq_nonlast (E : Env) (s : Sys) (r : Bytes) (hr : r.getD 0 0 &&& 128 = 0) :
    afterSeq E s r =
      ({ (if s.cl.ackseq ≥ 127 then ackBlock E s else s) with
          cl := { (if s.cl.ackseq ≥ 127 then ackBlock E s else s).cl with
            crc := if (if s.cl.ackseq ≥ 127 then ackBlock E s else s).cl.crcSupported
                   then crcHqx (r.drop 1) (if s.cl.ackseq ≥ 127 then ackBlock E s else s).cl.crc
                   else (if s.cl.ackseq ≥ 127 then ackBlock E s else s).cl.crc } },
       some (r.drop 1)) := by
  unfold afterSeq
  simp only [NO_MORE_BLOCKS, UPLOAD_BLKSIZE, hr, ne_eq, not_true_eq_false, or_false, if_false]

/-- one `read` in the middle of the transfer -/
theorem readStep_mid (p : Par) (hc : ChanOK p) (s : Sys) (q j : Nat) (acc : Bytes)
    (h : Mid p s q j acc) (hnl : 127 * q + j + 1 < nseg p.cfg) :
    ∃ s', readStep p.env s = (s', some (p.g (127 * q + j))) ∧
      Mid p s' (if j + 1 = 127 then q + 1 else q) (if j + 1 = 127 then 0 else j + 1) (acc ++ p.g (127 * q + j)) := by
  have hj := h.jlt
  have hq := mid_queue h
  obtain ⟨b1, b2, b3, b4, -, -, -⟩ := seqb' (j + 1) (by omega) (by omega)
  have hseg : qseg p.cfg p.g (127 * q) j = (j + 1) :: p.g (127 * q + j) := by
    simp [qseg, Nat.ne_of_lt hnl, b1]
  rw [hseg] at hq
  have hrr : readResponse s = ({ s with queue := restQ p q (j + 1) }, .resp ((j + 1) :: p.g (127 * q + j))) := by
    simp [readResponse, hq, classify, RESPONSE_ABORTED, b4]
  unfold readStep
  rw [hrr]
  simp only [andThen, seqCheck, List.getD_cons_zero, b2, h.ackseq, if_true]
  rw [afterSeq_nonlast _ _ _ (by simpa using b3)]
  simp only [List.drop_succ_cons, List.drop_zero]
  by_cases hfull : j + 1 = 127
  · -- the sub-block is complete: acknowledge, the server sends the next one
    have hcnt : min 127 (nseg p.cfg - 127 * q) = 127 := by omega
    have hmore : 127 * q + 127 < nseg p.cfg := by omega
    have hrest : restQ p q 127 = [] := by simp [restQ, hcnt]
    have hstep := ack_more p s.srv q h.sphase h.sbase (by rw [h.ssent, hcnt]) hmore
    rw [range_eq_range'] at hstep
    obtain ⟨log, hsend, hlog⟩ := sendReq_block p hc
      { s with queue := [], cl := { s.cl with ackseq := 127 } } (ackFrame 127) _ (127 * (q + 1))
      (min 127 (nseg p.cfg - 127 * (q + 1))) hstep (by simp [h.nresp, hcnt]; omega) (by omega)
    simp only [hfull, hrest, ge_iff_le, Nat.le_refl, if_true, ackBlock_eq, hsend]
    refine ⟨_, rfl, ?_⟩
    refine ⟨rfl, rfl, rfl, rfl, h.scrc, h.sill, h.sconf, by omega, ?_, ?_, rfl, h.done, h.err, h.sup, ?_, ?_, h.size⟩
    · simp
    · simp [h.nresp, hcnt]; omega
    · intro hs; simp [h.sup, hs, h.crc hs, crcHqx_append]
    · have hr := h.reqs
      simp only [reqFrames] at hlog hr ⊢
      rw [hlog, hr]; simp [List.replicate_succ]
  · have hlt : ¬ (j + 1 ≥ 127) := by omega
    simp only [hlt, if_false, hfull]
    refine ⟨_, rfl, ?_⟩
    refine ⟨h.sphase, h.sbase, h.ssent, h.sblk, h.scrc, h.sill, h.sconf, by omega, ?_, h.nresp, rfl, h.done,
      h.err, h.sup, ?_, ?_, h.size⟩
    · simp [restQ]
    · intro hs; simp [h.sup, hs, h.crc hs, crcHqx_append]
    · simpa [reqFrames] using h.reqs

/-- a request answered by one frame that the channel leaves alone -/
theorem sendReq_single (p : Par) (hc : ChanOK p) (s : Sys) (f e : Bytes) (srv' : Srv)
    (hstep : Spec.BlockUp.step p.cfg s.srv f = (srv', [e])) (hn : s.nresp = 0 ∨ nseg p.cfg < s.nresp) :
    ∃ log, sendReq p.env s f = { s with srv := srv', nresp := s.nresp + 1, queue := s.queue ++ [e], log := log } ∧
      reqFrames { s with log := log } = f :: reqFrames s := by
  have hch : p.chan s.nresp e = some e := by
    rcases hn with h | h
    · rw [h]; exact hc.first e
    · exact hc.rest _ e h
  have hstep' : Spec.BlockUp.step p.env.cfg s.srv f = (srv', [e]) := hstep
  rw [sendReq_plain p.env rfl, hstep']
  simp only [deliver, deliver1, Par.env, hch, if_true]
  exact ⟨_, rfl, by simp [reqFrames, List.filter_cons]⟩

/-- a request the server does not answer -/
theorem sendReq_silent (E : Env) (hd : E.dist = none) (s : Sys) (f : Bytes) (srv' : Srv)
    (hstep : Spec.BlockUp.step E.cfg s.srv f = (srv', [])) :
    sendReq E s f = { s with srv := srv', log := ⟨0, f⟩ :: s.log } := by
  rw [sendReq_plain E hd, hstep]; rfl

/-- the server's reaction to the acknowledge of the last sub-block -/
theorem ack_last (p : Par) (s : Srv) (q j : Nat) (hp : s.phase = .ack) (hb : s.base = 127 * q)
    (hs : s.sent = j + 1) (hj : j + 1 ≤ 127) (hlast : 127 * q + j + 1 = nseg p.cfg) :
    Spec.BlockUp.step p.cfg s (ackFrame (j + 1)) =
      ({ s with base := nseg p.cfg, blk := 127, phase := .fin },
       [Spec.BlockUp.endFrame p.cfg { s with base := nseg p.cfg, blk := 127 }]) := by
  have h2 : 127 * q + (j + 1) = nseg p.cfg := by omega
  have h3 : ¬ (j + 1 = 128) := by omega
  simp [Spec.BlockUp.step, ackFrame, hp, Spec.BlockUp.ackStep, Spec.BlockUp.flagIf, hs, hb, h2, h3, hj]


/-- first byte of the end response -/
def endB0 (cfg : Cfg) : Nat :=
  match cfg.endB0 with
  | some b => b
  | none => 0xC1 ||| ((7 * nseg cfg - cfg.data.length) <<< 2)

/-- the checksum the server announces (0 when CRC is not negotiated), with the harness' XOR knob -/
def announced (p : Par) : Nat := (if p.sup then crcHqx p.cfg.data 0 else 0) ^^^ p.cfg.crcXor

/-- what the client returns for the last segment -/
def lastData (p : Par) : Bytes := (p.g (nseg p.cfg - 1)).take (7 - ((endB0 p.cfg >>> 2) &&& 7))

/-- after the last `read` -/
structure FinSt (p : Par) (s : Sys) (q nack : Nat) : Prop where
  done : s.cl.done = true
  err : s.cl.error = false
  sphase : s.srv.phase = .fin
  sill : s.srv.illegal = none
  sconf : s.srv.confirmed = false
  sup : s.cl.crcSupported = p.sup
  scrc : s.cl.serverCrc = some (announced p % 65536)
  reqs : reqFrames s = ackFrame nack :: (List.replicate q (ackFrame 127) ++ [startFrame, initFrame p])
  size : s.cl.size = (if p.cfg.sizeInd then some p.cfg.data.length else none)

theorem endFrame_eq (p : Par) (s : Srv) (hc : s.crc = p.sup) :
    Spec.BlockUp.endFrame p.cfg s = [endB0 p.cfg, announced p % 256, announced p / 256 % 256, 0, 0, 0, 0, 0] := by
  cases h : p.cfg.endB0 <;> simp [Spec.BlockUp.endFrame, endB0, announced, hc, leBytes, h]

theorem byte_pair (a : Nat) : a % 256 + 256 * (a / 256 % 256) = a % 65536 := by omega


/-- `_end_upload` on a queued 8-byte frame -/
theorem endUpload_ok (E : Env) (s : Sys) (e0 c1 c2 : Nat) (rest : List Bytes)
    (hq : s.queue = [e0, c1, c2, 0, 0, 0, 0, 0] :: rest) (f1 : e0 &&& 0xE0 = 0xC0) (f2 : e0 &&& 3 = 1) :
    endUpload E s =
      ({ s with queue := rest, cl := { s.cl with serverCrc := some (c1 + 256 * c2) } }, some ((e0 >>> 2) &&& 7)) := by
  have hne : e0 ≠ 128 := by intro h0; rw [h0] at f1; simp at f1
  simp [endUpload, readResponse, hq, classify, RESPONSE_ABORTED, hne, RESPONSE_BLOCK_UPLOAD, f1, f2,
    END_BLOCK_TRANSFER]

theorem endUpload_bad (E : Env) (s : Sys) (e0 c1 c2 : Nat) (rest : List Bytes)
    (hq : s.queue = [e0, c1, c2, 0, 0, 0, 0, 0] :: rest) (hbad : ¬ (e0 &&& 0xE0 = 0xC0 ∧ e0 &&& 3 = 1)) :
    (endUpload E s).2 = none := by
  by_cases h128 : e0 = 128
  · simp [endUpload, readResponse, hq, classify, RESPONSE_ABORTED, h128]
  · by_cases f1 : e0 &&& 0xE0 = 0xC0
    · have f2 : ¬ e0 &&& 3 = 1 := fun h => hbad ⟨f1, h⟩
      simp [endUpload, readResponse, hq, classify, RESPONSE_ABORTED, h128, RESPONSE_BLOCK_UPLOAD, f1, f2,
        END_BLOCK_TRANSFER]
    · simp [endUpload, readResponse, hq, classify, RESPONSE_ABORTED, h128, RESPONSE_BLOCK_UPLOAD, f1]

/-- the `read` that consumes the last segment -/
theorem readStep_last (p : Par) (hc : ChanOK p) (s : Sys) (q j : Nat) (acc : Bytes)
    (h : Mid p s q j acc) (hl : 127 * q + j + 1 = nseg p.cfg) :
    if endB0 p.cfg &&& 0xE0 = 0xC0 ∧ endB0 p.cfg &&& 3 = 1 ∧
        ¬ (p.sup = true ∧ announced p % 65536 ≠ crcHqx (acc ++ lastData p) 0) then
      ∃ s', readStep p.env s = (s', some (lastData p)) ∧ FinSt p s' q (j + 1)
    else (readStep p.env s).2 = none := by
  have hj := h.jlt
  have hq := mid_queue h
  obtain ⟨-, -, -, -, b5, b6, b7⟩ := seqb' (j + 1) (by omega) (by omega)
  have hcnt : min 127 (nseg p.cfg - 127 * q) = j + 1 := by omega
  have hseg : qseg p.cfg p.g (127 * q) j = ((j + 1) ||| 128) :: p.g (nseg p.cfg - 1) := by
    have h1 : 127 * q + j = nseg p.cfg - 1 := by omega
    have h2 : nseg p.cfg - 1 + 1 = nseg p.cfg := by omega
    simp [qseg, h1, h2]
  have hrest : restQ p q (j + 1) = [] := by simp [restQ, hcnt]
  rw [hseg, hrest] at hq
  have hrr : readResponse s = ({ s with queue := [] }, .resp (((j + 1) ||| 128) :: p.g (nseg p.cfg - 1))) := by
    simp [readResponse, hq, classify, RESPONSE_ABORTED, b7]
  -- the acknowledge and the server's end response
  have hstep := ack_last p s.srv q j h.sphase h.sbase (by rw [h.ssent, hcnt]) (by omega) hl
  rw [endFrame_eq p _ (by simpa using h.scrc)] at hstep
  obtain ⟨log, hsend, hlog⟩ := sendReq_single p hc
    { s with queue := [], cl := { s.cl with ackseq := j + 1 } } (ackFrame (j + 1)) _ _ hstep
    (Or.inr (by simp [h.nresp, hcnt]; omega))
  -- the state in which `_end_upload` runs
  obtain ⟨s3, hs3, hq3, hcl3, hsrv3, hlog3⟩ : ∃ s3 : Sys,
      ackBlock p.env { s with queue := [], cl := { s.cl with ackseq := j + 1 } } = s3 ∧
      s3.queue = [[endB0 p.cfg, announced p % 256, announced p / 256 % 256, 0, 0, 0, 0, 0]] ∧
      (s3.cl.done = s.cl.done ∧ s3.cl.error = s.cl.error ∧ s3.cl.crcSupported = s.cl.crcSupported ∧
        s3.cl.crc = s.cl.crc ∧ s3.cl.size = s.cl.size) ∧
      (s3.srv.phase = .fin ∧ s3.srv.illegal = s.srv.illegal ∧ s3.srv.confirmed = s.srv.confirmed) ∧
      reqFrames s3 = ackFrame (j + 1) :: reqFrames s := by
    refine ⟨_, rfl, ?_⟩
    rw [ackBlock_eq, hsend]
    have hl' : reqFrames { s with log := log } = ackFrame (j + 1) :: reqFrames s := hlog
    exact ⟨rfl, ⟨rfl, rfl, rfl, rfl, rfl⟩, ⟨rfl, rfl, rfl⟩, hl'⟩
  unfold readStep
  rw [hrr]
  simp only [andThen, seqCheck, List.getD_cons_zero, b5, h.ackseq, if_true]
  unfold afterSeq
  simp only [List.getD_cons_zero, NO_MORE_BLOCKS, b6, ne_eq, not_false_eq_true, or_true, if_true, hs3,
    List.drop_succ_cons, List.drop_zero]
  by_cases hform : endB0 p.cfg &&& 0xE0 = 0xC0 ∧ endB0 p.cfg &&& 3 = 1
  · obtain ⟨f1, f2⟩ := hform
    rw [endUpload_ok p.env s3 _ _ _ [] hq3 f1 f2]
    simp only [finishLast, hcl3.2.2.1, h.sup, byte_pair]
    by_cases hs : p.sup = true
    · simp only [hs, if_true, hcl3.2.2.2.1, h.crc hs, ← crcHqx_append]
      by_cases hcrc : announced p % 65536 ≠ crcHqx (acc ++ lastData p) 0
      · rw [if_neg (by simp [f1, f2, hs, hcrc])]
        have : some (announced p % 65536) ≠ some (crcHqx (acc ++ lastData p) 0) := by simpa using hcrc
        simp only [lastData] at this
        simp [this]
      · rw [if_pos ⟨f1, f2, by simp [hs, hcrc]⟩]
        have : some (announced p % 65536) = some (crcHqx (acc ++ lastData p) 0) := by simpa using hcrc
        simp only [lastData] at this ⊢
        simp only [this, ne_eq, not_true_eq_false, if_false]
        exact ⟨_, rfl, ⟨rfl, by simpa using hcl3.2.1.trans h.err, hsrv3.1, hsrv3.2.1.trans h.sill,
          hsrv3.2.2.trans h.sconf, by simp [hcl3.2.2.1, h.sup, hs], by simp [this], by
            simpa [reqFrames] using hlog3.trans (by rw [h.reqs]), hcl3.2.2.2.2.trans h.size⟩⟩
    · have hs' : p.sup = false := by simpa using hs
      rw [if_pos ⟨f1, f2, by simp [hs']⟩]
      simp only [hs', Bool.false_eq_true, if_false, lastData]
      exact ⟨_, rfl, ⟨rfl, by simpa using hcl3.2.1.trans h.err, hsrv3.1, hsrv3.2.1.trans h.sill,
        hsrv3.2.2.trans h.sconf, by simp [hcl3.2.2.1, h.sup, hs'], rfl, by
          simpa [reqFrames] using hlog3.trans (by rw [h.reqs]), hcl3.2.2.2.2.trans h.size⟩⟩
  · rw [if_neg (by intro hc; exact hform ⟨hc.1, hc.2.1⟩)]
    have := endUpload_bad p.env s3 _ _ _ [] hq3 hform
    generalize endUpload p.env s3 = x at this ⊢
    obtain ⟨s4, o⟩ := x
    simp only at this
    subst this
    rfl


/-- the delivered data of the segments `a … nseg-2` (all but the last one) -/
def midData (p : Par) (a : Nat) : Bytes := ((List.range' a (nseg p.cfg - 1 - a)).map p.g).flatten

theorem midData_step (p : Par) (a : Nat) (h : a + 1 < nseg p.cfg) : midData p a = p.g a ++ midData p (a + 1) := by
  obtain ⟨m, hm⟩ : ∃ m, nseg p.cfg - 1 - a = m + 1 := ⟨nseg p.cfg - 1 - a - 1, by omega⟩
  have hm' : nseg p.cfg - 1 - (a + 1) = m := by omega
  simp [midData, hm, hm', List.range'_succ]

theorem midData_end (p : Par) (a : Nat) (h : a + 1 = nseg p.cfg) : midData p a = [] := by
  have : nseg p.cfg - 1 - a = 0 := by omega
  simp [midData, this]

/-- acceptance condition of the whole transfer, for the value `v` the client has assembled -/
def Accept (p : Par) (v : Bytes) : Prop :=
  endB0 p.cfg &&& 0xE0 = 0xC0 ∧ endB0 p.cfg &&& 3 = 1 ∧ ¬ (p.sup = true ∧ announced p % 65536 ≠ crcHqx v 0)

instance (p : Par) (v : Bytes) : Decidable (Accept p v) := by unfold Accept; infer_instance

/-- the read loop from the middle of a transfer to its end -/
theorem readAll_flow (p : Par) (hc : ChanOK p) (hg : ∀ i, (p.g i).length = 7) :
    ∀ (m : Nat) (s : Sys) (q j : Nat) (acc : Bytes) (fuel : Nat), Mid p s q j acc →
    127 * q + j + m + 1 = nseg p.cfg → m + 2 ≤ fuel →
    if Accept p (acc ++ midData p (127 * q + j) ++ lastData p) then
      ∃ s' q' nack, readAll p.env fuel s acc = (s', .ok (acc ++ midData p (127 * q + j) ++ lastData p)) ∧
        FinSt p s' q' nack ∧ 127 * q' + nack = nseg p.cfg ∧ 1 ≤ nack ∧ nack ≤ 127
    else (readAll p.env fuel s acc).2 = .err := by
  intro m
  induction m with
  | zero =>
    intro s q j acc fuel h hm hf
    obtain ⟨f, rfl⟩ : ∃ f, fuel = f + 2 := ⟨fuel - 2, by omega⟩
    have hlast := readStep_last p hc s q j acc h (by omega)
    rw [midData_end p _ (by omega), List.append_nil]
    simp only [readAll, h.done, Bool.false_eq_true, if_false]
    by_cases hacc : Accept p (acc ++ lastData p)
    · rw [if_pos hacc]
      rw [if_pos (show _ ∧ _ ∧ ¬ _ from hacc)] at hlast
      obtain ⟨s', he, hfin⟩ := hlast
      rw [he]
      refine ⟨s', q, j + 1, ?_, hfin, by omega, by omega, by have := h.jlt; omega⟩
      simp only
      split
      · rename_i hemp
        have : lastData p = [] := by simpa using hemp
        simp [this]
      · simp [hfin.done]
    · rw [if_neg hacc]
      rw [if_neg (show ¬ (_ ∧ _ ∧ ¬ _) from hacc)] at hlast
      generalize readStep p.env s = x at hlast ⊢
      obtain ⟨s1, o⟩ := x
      simp only at hlast
      subst hlast
      rfl
  | succ m ih =>
    intro s q j acc fuel h hm hf
    obtain ⟨f, rfl⟩ : ∃ f, fuel = f + 1 := ⟨fuel - 1, by omega⟩
    obtain ⟨s', he, hmid⟩ := readStep_mid p hc s q j acc h (by omega)
    have hne : (p.g (127 * q + j)).isEmpty = false := by
      have := hg (127 * q + j)
      cases hx : p.g (127 * q + j) with
      | nil => rw [hx] at this; simp at this
      | cons a l => rfl
    have hpos : 127 * (if j + 1 = 127 then q + 1 else q) + (if j + 1 = 127 then 0 else j + 1) = 127 * q + j + 1 := by
      split <;> omega
    have := ih s' _ _ (acc ++ p.g (127 * q + j)) f hmid (by rw [hpos]; omega) (by omega)
    rw [hpos] at this
    rw [midData_step p _ (by omega)]
    simp only [readAll, h.done, Bool.false_eq_true, if_false, he, hne]
    simpa [List.append_assoc] using this


/-- the start request: the first sub-block is queued -/
theorem mid_of_start (p : Par) (hc : ChanOK p) (hn : 1 ≤ nseg p.cfg) (S : Sys)
    (h1 : S.srv = { idx := p.idx, sub := p.sub, blk := 127, crc := p.sup, base := 0, phase := .start })
    (h2 : S.nresp = 1) (h3 : S.queue = [])
    (h4 : S.cl.ackseq = 0 ∧ S.cl.done = false ∧ S.cl.error = false ∧ S.cl.crcSupported = p.sup ∧ S.cl.crc = 0)
    (h5 : reqFrames S = [initFrame p])
    (h6 : S.cl.size = (if p.cfg.sizeInd then some p.cfg.data.length else none)) :
    Mid p (sendReq p.env S [REQUEST_BLOCK_UPLOAD ||| START_BLOCK_UPLOAD, 0, 0, 0, 0, 0, 0, 0]) 0 0 [] := by
  have hstep2 : Spec.BlockUp.step p.cfg S.srv startFrame =
      ({ idx := p.idx, sub := p.sub, blk := 127, crc := p.sup, base := 0, phase := .ack,
         sent := min 127 (nseg p.cfg - 0) },
       (List.range' 0 (min 127 (nseg p.cfg - 0))).map fun i => Spec.BlockUp.segment p.cfg (0 + i) (i + 1)) := by
    rw [h1]
    simp [Spec.BlockUp.step, startFrame, Spec.BlockUp.startStep, Spec.BlockUp.flagIf, Spec.BlockUp.sendBlock,
      range_eq_range']
  obtain ⟨log2, hs2, hl2⟩ := sendReq_block p hc S startFrame _ 0 (min 127 (nseg p.cfg - 0)) hstep2 (by omega) (by omega)
  rw [show [REQUEST_BLOCK_UPLOAD ||| START_BLOCK_UPLOAD, 0, 0, 0, 0, 0, 0, 0] = startFrame from rfl, hs2]
  obtain ⟨a1, a2, a3, a4, a5⟩ := h4
  refine ⟨rfl, rfl, by simp, rfl, rfl, rfl, rfl, by simp; omega, ?_, by simp [h2], a1, a2, a3, a4, ?_, ?_, h6⟩
  · simp [h3]
  · intro _; simp [a5, crcHqx]
  · simp only [reqFrames] at hl2 h5 ⊢
    simp [hl2, h5]

theorem init_bits : ∀ a b : Bool,
    ((192 ||| if a = true then 4 else 0) ||| if b = true then 2 else 0) ≠ 128 ∧
    ((192 ||| if a = true then 4 else 0) ||| if b = true then 2 else 0) &&& 224 = 192 ∧
    (((192 ||| if a = true then 4 else 0) ||| if b = true then 2 else 0) &&& 2 ≠ 0 ↔ b = true) ∧
    (((192 ||| if a = true then 4 else 0) ||| if b = true then 2 else 0) &&& 4 ≠ 0 ↔ a = true) := by decide

/-- the initiate exchange and the start request -/
theorem init_flow (p : Par) (hc : ChanOK p) (hn : 1 ≤ nseg p.cfg) (hlen : p.cfg.data.length < 2 ^ 32) :
    ∃ s, init p.env {} p.idx p.sub p.crcReq = (s, true) ∧ Mid p s 0 0 [] := by
  have hv : leVal (leBytes 4 p.cfg.data.length) = p.cfg.data.length := by
    rw [leVal_leBytes]; exact Nat.mod_eq_of_lt (by simpa using hlen)
  have hmux : p.idx % 256 + 256 * (p.idx / 256) = p.idx := by omega
  have hstep1 : Spec.BlockUp.step p.cfg {} (initFrame p) =
      ({ idx := p.idx, sub := p.sub, blk := 127, crc := p.sup, base := 0, phase := .start },
       [[0xC0 ||| (if p.cfg.crcCapable then 4 else 0) ||| (if p.cfg.sizeInd then 2 else 0),
         p.idx % 256, p.idx / 256, p.sub] ++ leBytes 4 (if p.cfg.sizeInd then p.cfg.data.length else 0)]) := by
    cases hc : p.crcReq <;>
      simp [Spec.BlockUp.step, initFrame, Spec.BlockUp.idleStep, Spec.BlockUp.flagIf, hc, hmux, Par.sup]
  obtain ⟨log1, hs1, hl1⟩ := sendReq_single p hc {} (initFrame p) _ _ hstep1 (Or.inl rfl)
  have hreq : [REQUEST_BLOCK_UPLOAD ||| INITIATE_BLOCK_TRANSFER ||| (if p.crcReq then CRC_SUPPORTED else 0),
      p.idx % 256, p.idx / 256, p.sub, UPLOAD_BLKSIZE, 0, 0, 0] = initFrame p := by
    unfold initFrame
    cases p.crcReq <;> simp [REQUEST_BLOCK_UPLOAD, INITIATE_BLOCK_TRANSFER, CRC_SUPPORTED, UPLOAD_BLKSIZE]
  obtain ⟨hb1, hb2, hb3, hb4⟩ := init_bits p.cfg.crcCapable p.cfg.sizeInd
  unfold init
  simp only [requestResponse, MAX_RETRIES, rrLoop, hreq]
  rw [show ({ ({} : Sys) with queue := [] }) = ({} : Sys) from rfl, hs1]
  simp only [readResponse, List.nil_append, classify, RESPONSE_ABORTED, List.cons_append, List.getD_cons_zero,
    hb1, if_false, RESPONSE_BLOCK_UPLOAD, hb2, ne_eq, not_true_eq_false, List.getD_cons_succ, hmux, or_self,
    BLOCK_SIZE_SPECIFIED, CRC_SUPPORTED]
  refine ⟨_, rfl, ?_⟩
  apply mid_of_start p hc hn
  · rfl
  · rfl
  · rfl
  · refine ⟨rfl, rfl, rfl, ?_, rfl⟩
    simp only [Par.sup]
    cases p.crcReq <;> cases hc : p.cfg.crcCapable <;> simp [hc] at hb4 ⊢ <;> simp [hb4]
  · simpa [reqFrames] using hl1
  · show (if _ then _ else _) = _
    cases hs : p.cfg.sizeInd <;> simp [hs] at hb3 ⊢
    · simp [hb3]
    · simp only [hb3, not_false_eq_true, if_true]
      have : (List.take 4 (leBytes 4 (List.length p.cfg.data))) = leBytes 4 (List.length p.cfg.data) := by
        simp [leBytes]
      simp [this, hv]


def endConfirm : Bytes := [0xA1, 0, 0, 0, 0, 0, 0, 0]

theorem close_flow (p : Par) (s : Sys) (q nack : Nat) (h : FinSt p s q nack) :
    (close p.env s).srv.confirmed = true ∧ (close p.env s).srv.illegal = none ∧
    reqFrames (close p.env s) = endConfirm :: reqFrames s ∧ (close p.env s).cl = s.cl := by
  have hstep : Spec.BlockUp.step p.env.cfg s.srv endConfirm = ({ s.srv with phase := .idle, confirmed := true }, []) := by
    simp [Spec.BlockUp.step, endConfirm, h.sphase, Spec.BlockUp.finStep, Spec.BlockUp.flagIf]
  unfold close
  rw [if_pos (by simp [h.done, h.err])]
  rw [show [REQUEST_BLOCK_UPLOAD ||| END_BLOCK_TRANSFER, 0, 0, 0, 0, 0, 0, 0] = endConfirm from rfl,
    sendReq_silent p.env rfl s endConfirm _ hstep]
  exact ⟨rfl, h.sill, by simp [reqFrames, List.filter_cons], rfl⟩

/-- the requests of a complete conformant block upload of `n` segments with block size 127:
    initiate, start, one acknowledge per sub-block carrying the number of segments in it, end -/
def idealAcks : Nat → Nat → List Bytes
  | 0, _ => []
  | fuel+1, n => if n ≤ 127 then [ackFrame n] else ackFrame 127 :: idealAcks fuel (n - 127)

theorem idealAcks_eq (q nack : Nat) (h1 : 1 ≤ nack) (h2 : nack ≤ 127) (fuel : Nat) (hf : q + 1 ≤ fuel) :
    idealAcks fuel (127 * q + nack) = List.replicate q (ackFrame 127) ++ [ackFrame nack] := by
  induction q generalizing fuel with
  | zero =>
    obtain ⟨f, rfl⟩ : ∃ f, fuel = f + 1 := ⟨fuel - 1, by omega⟩
    simp [idealAcks, h2]
  | succ q ih =>
    obtain ⟨f, rfl⟩ : ∃ f, fuel = f + 1 := ⟨fuel - 1, by omega⟩
    have : ¬ (127 * (q + 1) + nack ≤ 127) := by omega
    have e : 127 * (q + 1) + nack - 127 = 127 * q + nack := by omega
    simp [idealAcks, this, e, ih f (by omega), List.replicate_succ]

/-- **The whole transfer over a data-only channel.** -/
theorem upload_flow (p : Par) (hc : ChanOK p) (hg : ∀ i, (p.g i).length = 7) (hn : 1 ≤ nseg p.cfg)
    (hlen : p.cfg.data.length < 2 ^ 32) (fuel : Nat) (hf : nseg p.cfg + 1 ≤ fuel) :
    if Accept p (midData p 0 ++ lastData p) then
      (blockUpload p.env fuel p.idx p.sub p.crcReq).2 = .ok (midData p 0 ++ lastData p) ∧
      (blockUpload p.env fuel p.idx p.sub p.crcReq).1.srv.confirmed = true ∧
      (blockUpload p.env fuel p.idx p.sub p.crcReq).1.srv.illegal = none ∧
      (blockUpload p.env fuel p.idx p.sub p.crcReq).1.cl.size =
        (if p.cfg.sizeInd then some p.cfg.data.length else none) ∧
      (reqFrames (blockUpload p.env fuel p.idx p.sub p.crcReq).1).reverse =
        [initFrame p, startFrame] ++ idealAcks (nseg p.cfg) (nseg p.cfg) ++ [endConfirm]
    else (blockUpload p.env fuel p.idx p.sub p.crcReq).2 = .err := by
  obtain ⟨s0, hi, hmid⟩ := init_flow p hc hn hlen
  have hflow := readAll_flow p hc hg (nseg p.cfg - 1) s0 0 0 [] fuel hmid (by omega) (by omega)
  simp only [Nat.mul_zero, Nat.add_zero, List.nil_append] at hflow
  unfold blockUpload blockUploadFrom
  rw [show ({ ({} : Sys) with cl := {} }) = ({} : Sys) from rfl]
  rw [hi]
  simp only
  split
  · rename_i hacc
    rw [if_pos hacc] at hflow
    obtain ⟨s', q', nack, hr, hfin, hq, hn1, hn2⟩ := hflow
    rw [hr]
    obtain ⟨c1, c2, c3, c4⟩ := close_flow p s' q' nack hfin
    refine ⟨rfl, c1, c2, ?_, ?_⟩
    · simp only [c4]; exact hfin.size
    · simp only [c3, hfin.reqs, ← hq]
      rw [idealAcks_eq q' nack hn1 hn2 _ (by omega)]
      simp
  · rename_i hacc
    rw [if_neg hacc] at hflow
    generalize readAll p.env fuel s0 [] = x at hflow ⊢
    obtain ⟨s1, r⟩ := x
    exact hflow

/-! ### the undisturbed channel -/

/-- the seven data bytes of segment `i` as the server sends them -/
def trueG (cfg : Cfg) (i : Nat) : Bytes := padTo 7 ((cfg.data.drop (7 * i)).take 7)

theorem trueG_length (cfg : Cfg) (i : Nat) : (trueG cfg i).length = 7 := by
  simp [trueG, padTo]; omega

theorem nseg_bounds (cfg : Cfg) (h : 1 ≤ cfg.data.length) :
    1 ≤ nseg cfg ∧ 7 * (nseg cfg - 1) < cfg.data.length ∧ cfg.data.length ≤ 7 * nseg cfg := by
  unfold nseg; omega

theorem trueG_full (cfg : Cfg) (i : Nat) (h : 7 * (i + 1) ≤ cfg.data.length) :
    trueG cfg i = (cfg.data.drop (7 * i)).take 7 := by
  have : ((cfg.data.drop (7 * i)).take 7).length = 7 := by simp; omega
  simp [trueG, padTo, this]

theorem flatten_true (cfg : Cfg) : ∀ (k a : Nat), 7 * (a + k) ≤ cfg.data.length →
    ((List.range' a k).map (trueG cfg)).flatten = (cfg.data.drop (7 * a)).take (7 * k) := by
  intro k
  induction k with
  | zero => intro a _; simp
  | succ k ih =>
    intro a h
    rw [List.range'_succ, List.map_cons, List.flatten_cons, ih (a + 1) (by omega), trueG_full cfg a (by omega)]
    have e : 7 * (k + 1) = 7 + 7 * k := by omega
    rw [e, List.take_add, List.drop_drop]
    have e2 : 7 * a + 7 = 7 * (a + 1) := by omega
    rw [e2]

theorem endn_bits : ∀ n : Fin 7, (0xC1 ||| (n.val <<< 2)) &&& 0xE0 = 0xC0 ∧ (0xC1 ||| (n.val <<< 2)) &&& 3 = 1 ∧
    ((0xC1 ||| (n.val <<< 2)) >>> 2) &&& 7 = n.val := by decide

/-- with the data bytes untouched the client assembles exactly the server's value -/
theorem assemble_true (p : Par) (hg : p.g = trueG p.cfg) (he : p.cfg.endB0 = none) (h1 : 1 ≤ p.cfg.data.length) :
    midData p 0 ++ lastData p = p.cfg.data := by
  obtain ⟨n1, n2, n3⟩ := nseg_bounds p.cfg h1
  have hn : 7 * nseg p.cfg - p.cfg.data.length < 7 := by omega
  obtain ⟨-, -, b3⟩ := endn_bits ⟨7 * nseg p.cfg - p.cfg.data.length, hn⟩
  simp only at b3
  have hmid : midData p 0 = p.cfg.data.take (7 * (nseg p.cfg - 1)) := by
    simp only [midData, hg, Nat.sub_zero]
    rw [flatten_true p.cfg _ 0 (by omega)]; simp
  have hlast : lastData p = p.cfg.data.drop (7 * (nseg p.cfg - 1)) := by
    simp only [lastData, endB0, he, b3, hg, trueG]
    have hl : (p.cfg.data.drop (7 * (nseg p.cfg - 1))).length = 7 - (7 * nseg p.cfg - p.cfg.data.length) := by
      simp; omega
    have ht : (p.cfg.data.drop (7 * (nseg p.cfg - 1))).take 7 = p.cfg.data.drop (7 * (nseg p.cfg - 1)) :=
      List.take_of_length_le (by omega)
    rw [ht, padTo]
    exact List.take_left' hl
  rw [hmid, hlast, List.take_append_drop]

/-- the undisturbed channel -/
def idChan : Nat → Bytes → Option Bytes := fun _ f => some f

/-- parameters of an undisturbed run -/
def idPar (cfg : Cfg) (crcReq : Bool) (idx sub : Nat) : Par :=
  { cfg := cfg, chan := idChan, g := trueG cfg, crcReq := crcReq, idx := idx, sub := sub }

@[simp] theorem idPar_cfg (cfg : Cfg) (crcReq : Bool) (idx sub : Nat) : (idPar cfg crcReq idx sub).cfg = cfg := rfl

theorem chanOK_id (cfg : Cfg) (crcReq : Bool) (idx sub : Nat) : ChanOK (idPar cfg crcReq idx sub) :=
  ⟨fun _ => rfl, fun _ _ _ _ => rfl, fun _ _ _ => rfl⟩

theorem endB0_none (cfg : Cfg) (he : cfg.endB0 = none) :
    endB0 cfg = 0xC1 ||| ((7 * nseg cfg - cfg.data.length) <<< 2) := by
  simp [endB0, he]

theorem endB0_some (cfg : Cfg) (b : Nat) (he : cfg.endB0 = some b) : endB0 cfg = b := by
  simp [endB0, he]


theorem announced_plain (p : Par) (hx : p.cfg.crcXor = 0) :
    announced p % 65536 = if p.sup then crcHqx p.cfg.data 0 else 0 := by
  simp only [announced, hx, Nat.xor_zero]
  split
  · exact Nat.mod_eq_of_lt (crcHqx_lt _ 0 (by decide))
  · rfl


/-! ### one corrupted data byte -/

/-- data bytes with byte `k` of segment `i0` replaced by `x` -/
def flipG (cfg : Cfg) (i0 k x : Nat) (i : Nat) : Bytes := if i = i0 then (trueG cfg i0).set k x else trueG cfg i

theorem flipG_length (cfg : Cfg) (i0 k x i : Nat) : (flipG cfg i0 k x i).length = 7 := by
  unfold flipG; split <;> simp [trueG_length]

/-- flattening after replacing one byte of one of the 7-byte pieces -/
theorem flatten_flip (cfg : Cfg) (i0 k x : Nat) (hk : k < 7) : ∀ (m a : Nat),
    ((List.range' a m).map (flipG cfg i0 k x)).flatten =
      if a ≤ i0 ∧ i0 < a + m then (((List.range' a m).map (trueG cfg)).flatten).set (7 * (i0 - a) + k) x
      else ((List.range' a m).map (trueG cfg)).flatten := by
  intro m
  induction m with
  | zero => intro a; simp
  | succ m ih =>
    intro a
    simp only [List.range'_succ, List.map_cons, List.flatten_cons]
    rw [ih (a + 1)]
    by_cases h0 : a = i0
    · subst h0
      have h1 : ¬ (a + 1 ≤ a ∧ a < a + 1 + m) := by omega
      rw [if_neg h1, if_pos (by omega)]
      simp only [flipG, if_true, Nat.sub_self, Nat.mul_zero, Nat.zero_add]
      rw [List.set_append_left _ _ (by rw [trueG_length]; exact hk)]
    · have hf : flipG cfg i0 k x a = trueG cfg a := by simp [flipG, h0]
      rw [hf]
      by_cases h1 : a + 1 ≤ i0 ∧ i0 < a + 1 + m
      · rw [if_pos h1, if_pos (by omega)]
        rw [List.set_append_right _ _ (by rw [trueG_length]; omega), trueG_length]
        congr 2; omega
      · rw [if_neg h1, if_neg (by omega)]


/-- parameters of a run in which byte `k` of segment `i0` arrives as `x` -/
def flipPar (cfg : Cfg) (i0 k x : Nat) (crcReq : Bool) (idx sub : Nat) : Par :=
  { cfg := cfg, chan := fun n f => if n = i0 + 1 then some (f.set (k + 1) x) else some f,
    g := flipG cfg i0 k x, crcReq := crcReq, idx := idx, sub := sub }

@[simp] theorem flipPar_cfg (cfg : Cfg) (i0 k x : Nat) (crcReq : Bool) (idx sub : Nat) :
    (flipPar cfg i0 k x crcReq idx sub).cfg = cfg := rfl

theorem chanOK_flip (cfg : Cfg) (i0 k x : Nat) (crcReq : Bool) (idx sub : Nat) (hi : i0 < nseg cfg) :
    ChanOK (flipPar cfg i0 k x crcReq idx sub) := by
  refine ⟨fun f => ?_, fun n seq h1 h2 => ?_, fun n f h => ?_⟩
  · simp [flipPar]
  · simp only [flipPar, flipG]
    by_cases hn : n = i0 + 1
    · subst hn
      simp [Spec.BlockUp.segment, trueG]
    · have : ¬ (n - 1 = i0) := by omega
      simp [hn, this, Spec.BlockUp.segment, trueG]
  · have h' : nseg cfg < n := h
    have : ¬ (n = i0 + 1) := by omega
    simp [flipPar, this]

/-- what the client assembles when one byte inside the value arrives altered -/
theorem assemble_flip (cfg : Cfg) (i0 k x : Nat) (crcReq : Bool) (idx sub : Nat) (he : cfg.endB0 = none)
    (h1 : 1 ≤ cfg.data.length) (hk : k < 7) (hpos : 7 * i0 + k < cfg.data.length) :
    midData (flipPar cfg i0 k x crcReq idx sub) 0 ++ lastData (flipPar cfg i0 k x crcReq idx sub) =
      cfg.data.set (7 * i0 + k) x := by
  obtain ⟨n1, n2, n3⟩ := nseg_bounds cfg h1
  have hi : i0 < nseg cfg := by omega
  have htrue : midData (idPar cfg crcReq idx sub) 0 ++ lastData (idPar cfg crcReq idx sub) = cfg.data :=
    assemble_true (idPar cfg crcReq idx sub) rfl he h1
  have hmidT : midData (idPar cfg crcReq idx sub) 0 = cfg.data.take (7 * (nseg cfg - 1)) := by
    simp only [midData, idPar, Nat.sub_zero]
    rw [flatten_true cfg _ 0 (by omega)]; simp
  have hmlen : (midData (idPar cfg crcReq idx sub) 0).length = 7 * (nseg cfg - 1) := by
    rw [hmidT]; simp; omega
  have hmid : midData (flipPar cfg i0 k x crcReq idx sub) 0 =
      if i0 < nseg cfg - 1 then (midData (idPar cfg crcReq idx sub) 0).set (7 * i0 + k) x
      else midData (idPar cfg crcReq idx sub) 0 := by
    simp only [midData, flipPar, idPar, Nat.sub_zero]
    rw [flatten_flip cfg i0 k x hk]
    simp
  have hlast : lastData (flipPar cfg i0 k x crcReq idx sub) =
      if i0 = nseg cfg - 1 then (lastData (idPar cfg crcReq idx sub)).set k x
      else lastData (idPar cfg crcReq idx sub) := by
    simp only [lastData, flipPar, idPar, flipG]
    by_cases h : nseg cfg - 1 = i0
    · simp [h, List.take_set]
    · have : ¬ i0 = nseg cfg - 1 := fun h' => h h'.symm
      simp [h, this]
  rw [hmid, hlast, ← htrue]
  by_cases hlt : i0 < nseg cfg - 1
  · rw [if_pos hlt, if_neg (by omega), List.set_append_left _ _ (by rw [hmlen]; omega)]
  · have heq : i0 = nseg cfg - 1 := by omega
    rw [if_neg hlt, if_pos heq, List.set_append_right _ _ (by rw [hmlen]; omega), hmlen]
    congr 2; omega



end Canopen.C13
