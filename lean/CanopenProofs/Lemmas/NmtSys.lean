/-
Helper lemmas for C11 about the two-network system of `CanopenModel/Nmt.lean`: closed forms of the
individual steps, the invariants of reachable systems, the specification's reading of a history
(`specOp`, `specRun`, `specMasterOp`, `specHbView`, `lastHb`) and the step lemmas the theorems of
`CanopenProofs/C11.lean` are assembled from.
-/
import CanopenProofs.Lemmas.Nmt

namespace Canopen.C11
open Canopen Canopen.Nmt Canopen.Gen.Nmt
open Canopen.Spec.Nmt

/-! ## what the two networks do with the frames of the model -/

/-- the slave after a well-formed node-control frame -/
def slaveRecv (s : Slave) (cmd nid : Nat) : Slave :=
  ({ s with state := recvNum s.id s.state cmd nid }).updateHeartbeat

theorem toSlave_cmd (s : Slave) (cmd nid : Nat) (rest : Bytes) :
    toSlave s ⟨0, cmd :: nid :: rest⟩ = (slaveRecv s cmd nid, false) := by
  simp [toSlave, Slave.onCommand, baseOnCommand_eq, slaveRecv]

theorem toSlave_short (s : Slave) (data : Bytes) (h : data.length < 2) :
    toSlave s ⟨0, data⟩ = (s, true) := by
  simp [toSlave, Slave.onCommand, baseOnCommand_short _ _ _ h]

theorem toSlave_other (s : Slave) (f : Frame) (h : f.id ≠ 0) : toSlave s f = (s, false) := by
  simp [toSlave, h]

theorem toMaster_cmd (m : Master) (cmd nid : Nat) (rest : Bytes) :
    toMaster m ⟨0, cmd :: nid :: rest⟩ =
      ({ m with state := recvNum m.id m.state cmd nid }, [], false) := by
  simp [toMaster, Master.onCommand, baseOnCommand_eq]

theorem toMaster_short (m : Master) (data : Bytes) (h : data.length < 2) :
    toMaster m ⟨0, data⟩ = (m, [], true) := by
  simp [toMaster, Master.onCommand, baseOnCommand_short _ _ _ h]

theorem and_7f (b : Nat) : b &&& 0x7F = b % 128 := Nat.and_two_pow_sub_one_eq_mod b 7

theorem toMaster_hb (m : Master) (b : Nat) (rest : Bytes) :
    toMaster m ⟨0x700 + m.id, b :: rest⟩ =
      ({ m with state := hbState (b % 128), received := some (b % 128) }, [b % 128], false) := by
  simp [toMaster, Master.onHeartbeat, and_7f]

theorem toMaster_hb_empty (m : Master) : toMaster m ⟨0x700 + m.id, []⟩ = (m, [], true) := by
  simp [toMaster, Master.onHeartbeat]

theorem toMaster_other (m : Master) (f : Frame) (h0 : f.id ≠ 0) (h1 : f.id ≠ 0x700 + m.id) :
    toMaster m f = (m, [], false) := by
  simp [toMaster, h0, h1]

/-- master API call with a byte-sized code on a node with a byte-sized id -/
theorem sendCommand_ok (m : Master) (code : Nat) (hc : code < 256) (hid : m.id < 256) :
    m.sendCommand code = ({ m with state := applyNum m.state code }, .ok, [⟨0, [code, m.id]⟩]) := by
  simp [Master.sendCommand, baseSendCommand_eq, sendable, hc, hid]

theorem sendCommand_big (m : Master) (code : Nat) (hc : 256 ≤ code) :
    m.sendCommand code = (m, .err, []) := by
  have : ¬ code < 256 := by omega
  simp [Master.sendCommand, baseSendCommand_eq, sendable, this, applyNum_ge _ _ hc]

theorem step_api_ok (sys : Sys) (code : Nat) (hc : code < 256) (hid : sys.master.id < 256) :
    step sys (.api code) =
      ({ master := { sys.master with state := applyNum sys.master.state code }, bcast := sys.bcast,
         slave := slaveRecv sys.slave code sys.master.id },
       ⟨.ok, [(.M, ⟨0, [code, sys.master.id]⟩)], []⟩) := by
  simp [step, sendCommand_ok _ _ hc hid, fromMaster, toSlaveAll, toSlave_cmd, combine]

theorem step_api_big (sys : Sys) (code : Nat) (hc : 256 ≤ code) :
    step sys (.api code) = (sys, ⟨.err, [], []⟩) := by
  simp [step, sendCommand_big _ _ hc, fromMaster, toSlaveAll, combine]


theorem setState_valid (m : Master) (n : List Char) (cmd : Cmd) (h : cmdOfName n = some cmd) :
    m.setState n = m.sendCommand cmd.cs := by
  simp [Master.setState, names_spec, h]

theorem setState_invalid (m : Master) (n : List Char) (h : cmdOfName n = none) :
    m.setState n = (m, .err, []) := by
  simp [Master.setState, names_spec, h]

theorem step_bus_wf (sys : Sys) (cmd nid : Nat) (rest : Bytes) :
    step sys (.bus (cmd :: nid :: rest)) =
      ({ master := { sys.master with state := recvNum sys.master.id sys.master.state cmd nid },
         bcast := sys.bcast, slave := slaveRecv sys.slave cmd nid },
       ⟨.ok, [(.X, ⟨0, cmd :: nid :: rest⟩)], []⟩) := by
  simp [step, fromThird, toMasterAll, toSlaveAll, toMaster_cmd, toSlave_cmd, combine]

theorem step_bus_short (sys : Sys) (data : Bytes) (h : data.length < 2) :
    step sys (.bus data) = (sys, ⟨.errRx true true, [(.X, ⟨0, data⟩)], []⟩) := by
  simp [step, fromThird, toMasterAll, toSlaveAll, toMaster_short _ _ h, toSlave_short _ _ h, combine]

/-! ## invariants of reachable systems -/

/-- the slave half of `Inv` -/
def SInv (own : Nat) (s : Slave) : Prop :=
  s.id = own ∧ (∀ t, s.task = some t → t.payload = [s.state] ∧ t.canId = 0x700 + own) ∧
  (s.od1017 = none → s.task = none)

theorem sinv_update (own : Nat) (s : Slave) (st : Nat) (h : SInv own s) :
    SInv own ({ s with state := st }).updateHeartbeat := by
  obtain ⟨h1, h2, h3⟩ := h
  refine ⟨h1, ?_, ?_⟩
  · intro t ht
    cases hs : s.task with
    | none => simp [Slave.updateHeartbeat, hs] at ht
    | some t0 =>
      simp [Slave.updateHeartbeat, hs] at ht
      subst ht
      exact ⟨rfl, (h2 t0 hs).2⟩
  · intro ho
    simp [Slave.updateHeartbeat, h3 ho]

theorem sinv_start (own : Nat) (s : Slave) (ms : Nat) (h : s.id = own) (ho : s.od1017 ≠ none) :
    SInv own (s.startHeartbeat ms) := by
  refine ⟨h, ?_, ?_⟩
  · intro t ht
    by_cases hms : ms > 0
    · simp [Slave.startHeartbeat, hms] at ht
      subst ht
      simp [h, Slave.startHeartbeat]
    · simp [Slave.startHeartbeat, hms] at ht
  · intro h'
    exact absurd h' ho

theorem toSlave_sinv (own : Nat) (s : Slave) (f : Frame) (h : SInv own s) :
    SInv own (toSlave s f).1 := by
  unfold toSlave
  split
  · unfold Slave.onCommand
    cases baseOnCommand s.id s.state f.data with
    | none => exact h
    | some st => exact sinv_update own s st h
  · exact h

theorem toSlaveAll_sinv (own : Nat) (fs : List Frame) : ∀ (s : Slave), SInv own s →
    SInv own (toSlaveAll s fs).1 := by
  induction fs with
  | nil => intro s h; exact h
  | cons f r ih =>
    intro s h
    simp only [toSlaveAll]
    exact ih _ (toSlave_sinv own s f h)

theorem slave_sendCommand_sinv (own : Nat) (s : Slave) (c : Nat) (h : SInv own s) :
    SInv own (s.sendCommand c).1 := by
  unfold Slave.sendCommand
  rw [baseSendCommand_eq]
  dsimp only
  split
  · cases hod : s.od1017 with
    | none =>
      refine ⟨h.1, ?_, ?_⟩
      · intro t ht
        have := h.2.2 hod
        simp [this] at ht
      · intro _; exact h.2.2 hod
    | some ms => exact sinv_start own _ ms h.1 (by simp)
  · exact sinv_update own s _ h

theorem slave_setState_sinv (own : Nat) (s : Slave) (n : List Char) (h : SInv own s) :
    SInv own (s.setState n).1 := by
  unfold Slave.setState
  cases lookupName NMT_COMMANDS n with
  | none => exact h
  | some c => exact slave_sendCommand_sinv own s c h

theorem slave_writeHbTime_sinv (own : Nat) (s : Slave) (ms : Nat) (h : SInv own s) :
    SInv own (s.writeHbTime ms).1 := by
  unfold Slave.writeHbTime
  cases hod : s.od1017 with
  | none => exact h
  | some v =>
    dsimp only
    split
    · exact sinv_start own _ ms h.1 (by simp)
    · exact h


/-! ### the master keeps its id -/

theorem toMaster_id (m : Master) (f : Frame) : (toMaster m f).1.id = m.id := by
  unfold toMaster
  split
  · unfold Master.onCommand
    cases baseOnCommand m.id m.state f.data <;> rfl
  · split
    · unfold Master.onHeartbeat
      cases f.data <;> rfl
    · rfl

theorem toMasterAll_id (fs : List Frame) : ∀ m : Master, (toMasterAll m fs).1.id = m.id := by
  induction fs with
  | nil => intro m; rfl
  | cons f r ih =>
    intro m
    simp only [toMasterAll]
    rw [ih, toMaster_id]

theorem master_sendCommand_id (m : Master) (c : Nat) : (m.sendCommand c).1.id = m.id := by
  unfold Master.sendCommand
  rw [baseSendCommand_eq]
  dsimp only
  split <;> rfl

theorem master_setState_id (m : Master) (n : List Char) : (m.setState n).1.id = m.id := by
  unfold Master.setState
  cases lookupName NMT_COMMANDS n with
  | none => rfl
  | some c => exact master_sendCommand_id m c

/-! ### heartbeat frames do not concern the slave -/

theorem toSlaveAll_hb (own : Nat) (arr : List Bytes) : ∀ s : Slave,
    toSlaveAll s (hbFrames own arr) = (s, false) := by
  induction arr with
  | nil => intro s; rfl
  | cons a r ih =>
    intro s
    have : toSlave s ⟨0x700 + own, a⟩ = (s, false) := toSlave_other s _ (by simp)
    simp only [hbFrames, List.map_cons, toSlaveAll, this]
    have := ih s
    simp only [hbFrames] at this
    simp [this]

/-- components of `fromThird` -/
theorem fromThird_master (sys : Sys) (fs : List Frame) :
    (fromThird sys fs).1.master = (toMasterAll sys.master fs).1 := rfl
theorem fromThird_slave (sys : Sys) (fs : List Frame) :
    (fromThird sys fs).1.slave = (toSlaveAll sys.slave fs).1 := rfl
theorem fromThird_bcast (sys : Sys) (fs : List Frame) :
    (fromThird sys fs).1.bcast = sys.bcast := rfl

theorem fromMaster_master (sys : Sys) (m' : Master) (b' : Nat) (r : Res) (fs : List Frame) :
    (fromMaster sys m' b' r fs).1.master = m' := rfl
theorem fromMaster_slave (sys : Sys) (m' : Master) (b' : Nat) (r : Res) (fs : List Frame) :
    (fromMaster sys m' b' r fs).1.slave = (toSlaveAll sys.slave fs).1 := rfl
theorem fromSlave_master (sys : Sys) (s' : Slave) (r : Res) (fs : List Frame) :
    (fromSlave sys s' r fs).1.master = (toMasterAll sys.master fs).1 := rfl
theorem fromSlave_slave (sys : Sys) (s' : Slave) (r : Res) (fs : List Frame) :
    (fromSlave sys s' r fs).1.slave = s' := rfl

/-- both NMT objects belong to node `own`; a live heartbeat task carries the slave's current
    state on 0x700 + own -/
def Inv (own : Nat) (sys : Sys) : Prop := sys.master.id = own ∧ SInv own sys.slave

theorem inv_init (own : Nat) (od : Option Nat) : Inv own (Sys.init own od) := by
  refine ⟨rfl, rfl, ?_, ?_⟩
  · intro t h; simp [Sys.init] at h
  · intro _; rfl

theorem waitBootup_inv (own : Nat) (iters : List (Bool × List Bytes)) : ∀ sys : Sys,
    Inv own sys → Inv own (waitBootup sys iters).1 := by
  induction iters with
  | nil => intro sys h; exact h
  | cons it rest ih =>
    intro sys h
    have hd : Inv own (fromThird sys.forget (hbFrames sys.master.id it.2)).1 := by
      refine ⟨?_, ?_⟩
      · rw [fromThird_master, toMasterAll_id]; exact h.1
      · rw [fromThird_slave]; exact toSlaveAll_sinv own _ _ h.2
    simp only [waitBootup]
    split
    · exact hd
    · split
      · exact hd
      · exact ih _ hd

theorem inv_step (own : Nat) (sys : Sys) (op : Op) (h : Inv own sys) : Inv own (step sys op).1 := by
  obtain ⟨hm, hs⟩ := h
  cases op with
  | api code =>
    exact ⟨by simp only [step, fromMaster_master, master_sendCommand_id, hm],
           by simp only [step, fromMaster_slave]; exact toSlaveAll_sinv own _ _ hs⟩
  | setName name =>
    exact ⟨by simp only [step, fromMaster_master, master_setState_id, hm],
           by simp only [step, fromMaster_slave]; exact toSlaveAll_sinv own _ _ hs⟩
  | bcast code =>
    exact ⟨by simp only [step, fromMaster_master, hm],
           by simp only [step, fromMaster_slave]; exact toSlaveAll_sinv own _ _ hs⟩
  | bcastName name =>
    exact ⟨by simp only [step, fromMaster_master, hm],
           by simp only [step, fromMaster_slave]; exact toSlaveAll_sinv own _ _ hs⟩
  | bus data =>
    exact ⟨by simp only [step, fromThird_master, toMasterAll_id, hm],
           by simp only [step, fromThird_slave]; exact toSlaveAll_sinv own _ _ hs⟩
  | hb node data =>
    exact ⟨by simp only [step, fromThird_master, toMasterAll_id, hm],
           by simp only [step, fromThird_slave]; exact toSlaveAll_sinv own _ _ hs⟩
  | sapi code =>
    exact ⟨by simp only [step, fromSlave_master, toMasterAll_id, hm],
           by simp only [step, fromSlave_slave]; exact slave_sendCommand_sinv own _ _ hs⟩
  | sname name =>
    exact ⟨by simp only [step, fromSlave_master, toMasterAll_id, hm],
           by simp only [step, fromSlave_slave]; exact slave_setState_sinv own _ _ hs⟩
  | hbTime ms =>
    exact ⟨hm, by simp only [step]; exact slave_writeHbTime_sinv own _ _ hs⟩
  | tick =>
    simp only [step]
    split
    · exact ⟨hm, hs⟩
    · exact ⟨by rw [fromSlave_master, toMasterAll_id]; exact hm, hs⟩
  | waitHb arrivals =>
    exact ⟨by simp only [step, waitHeartbeat, fromThird_master, toMasterAll_id]; exact hm,
           by simp only [step, waitHeartbeat, fromThird_slave]; exact toSlaveAll_sinv own _ _ hs⟩
  | waitBoot iters => exact waitBootup_inv own iters sys ⟨hm, hs⟩

theorem inv_run (own : Nat) (ops : List Op) : ∀ sys : Sys, Inv own sys → Inv own (runFrom sys ops) := by
  induction ops with
  | nil => intro sys h; exact h
  | cons op rest ih =>
    intro sys h
    simp only [runFrom, List.foldl_cons]
    exact ih _ (inv_step own sys op h)


/-! ## the specification's reading of a history -/

/-- how the CiA 301 machine of node `own` moves on each operation: node-control frames that reach
    the node (from the master API, the broadcast master, a third party) and the local application's
    own transitions; heartbeats, waits and ticks do not move it -/
def specOp (own : Nat) (T : St) : Op → St
  | .api c => recv own T c own
  | .setName n => assign T n
  | .bcast c => recv own T c 0
  | .bcastName n => assign T n
  | .bus (cs :: tgt :: _) => recv own T cs tgt
  | .sapi c => apply T c
  | .sname n => assign T n
  | _ => T

def specRun (own : Nat) (T : St) (ops : List Op) : St := ops.foldl (specOp own) T

theorem recv_own (own : Nat) (T : St) (c : Nat) : recv own T c own = apply T c := by simp [recv]
theorem recv_zero (own : Nat) (T : St) (c : Nat) : recv own T c 0 = apply T c := by simp [recv]
theorem recvNum_own (own st c : Nat) : recvNum own st c own = applyNum st c := by simp [recvNum]
theorem recvNum_zero (own st c : Nat) : recvNum own st c 0 = applyNum st c := by simp [recvNum]

theorem assign_valid (T : St) (n : List Char) (cmd : Cmd) (h : cmdOfName n = some cmd) :
    assign T n = apply T cmd.cs := by
  simp [assign, h, apply_cs]

theorem assign_invalid (T : St) (n : List Char) (h : cmdOfName n = none) : assign T n = T := by
  simp [assign, h]

theorem slaveRecv_state (s : Slave) (cmd nid : Nat) :
    (slaveRecv s cmd nid).state = recvNum s.id s.state cmd nid := rfl

theorem step_bcast_ok (sys : Sys) (code : Nat) (hc : code < 256) :
    step sys (.bcast code) =
      ({ master := sys.master, bcast := applyNum sys.bcast code, slave := slaveRecv sys.slave code 0 },
       ⟨.ok, [(.M, ⟨0, [code, 0]⟩)], []⟩) := by
  have h := sendCommand_ok sys.bcastMaster code hc (by simp [Sys.bcastMaster])
  simp only [step, h]
  simp [fromMaster, toSlaveAll, toSlave_cmd, combine, Sys.bcastMaster]

theorem step_bcast_big (sys : Sys) (code : Nat) (hc : 256 ≤ code) :
    step sys (.bcast code) = (sys, ⟨.err, [], []⟩) := by
  simp [step, sendCommand_big _ _ hc, fromMaster, toSlaveAll, combine, Sys.bcastMaster]

theorem step_setName_valid (sys : Sys) (n : List Char) (cmd : Cmd) (h : cmdOfName n = some cmd) :
    step sys (.setName n) = step sys (.api cmd.cs) := by
  simp [step, setState_valid _ _ _ h]

theorem step_setName_invalid (sys : Sys) (n : List Char) (h : cmdOfName n = none) :
    step sys (.setName n) = (sys, ⟨.err, [], []⟩) := by
  simp [step, setState_invalid _ _ h, fromMaster, toSlaveAll, combine]

theorem step_bcastName_valid (sys : Sys) (n : List Char) (cmd : Cmd) (h : cmdOfName n = some cmd) :
    step sys (.bcastName n) = step sys (.bcast cmd.cs) := by
  simp [step, setState_valid _ _ _ h]

theorem step_bcastName_invalid (sys : Sys) (n : List Char) (h : cmdOfName n = none) :
    step sys (.bcastName n) = (sys, ⟨.err, [], []⟩) := by
  simp [step, setState_invalid _ _ h, fromMaster, toSlaveAll, combine, Sys.bcastMaster]

theorem slave_sendCommand_state (s : Slave) (c : Nat) :
    (s.sendCommand c).1.state = applyNum s.state c := by
  unfold Slave.sendCommand
  rw [baseSendCommand_eq]
  dsimp only
  split
  · cases s.od1017 <;> rfl
  · rfl

theorem slave_setState_valid (s : Slave) (n : List Char) (cmd : Cmd) (h : cmdOfName n = some cmd) :
    s.setState n = s.sendCommand cmd.cs := by
  simp [Slave.setState, names_spec, h]

theorem slave_setState_invalid (s : Slave) (n : List Char) (h : cmdOfName n = none) :
    s.setState n = (s, .err, []) := by
  simp [Slave.setState, names_spec, h]

theorem slave_writeHbTime_state (s : Slave) (ms : Nat) : (s.writeHbTime ms).1.state = s.state := by
  unfold Slave.writeHbTime
  cases s.od1017 with
  | none => rfl
  | some v => dsimp only; split <;> rfl

theorem waitBootup_slave (iters : List (Bool × List Bytes)) : ∀ sys : Sys,
    (waitBootup sys iters).1.slave = sys.slave ∧ (waitBootup sys iters).1.bcast = sys.bcast := by
  induction iters with
  | nil => intro sys; exact ⟨rfl, rfl⟩
  | cons it rest ih =>
    intro sys
    have hd : (fromThird sys.forget (hbFrames sys.master.id it.2)).1.slave = sys.slave := by
      rw [fromThird_slave, toSlaveAll_hb]; rfl
    simp only [waitBootup]
    split
    · exact ⟨hd, rfl⟩
    · split
      · exact ⟨hd, rfl⟩
      · have := ih (fromThird sys.forget (hbFrames sys.master.id it.2)).1
        exact ⟨this.1.trans hd, this.2⟩

theorem waitHeartbeat_slave (sys : Sys) (arr : List Bytes) :
    (waitHeartbeat sys arr).1.slave = sys.slave ∧ (waitHeartbeat sys arr).1.bcast = sys.bcast := by
  refine ⟨?_, rfl⟩
  simp only [waitHeartbeat, fromThird_slave, toSlaveAll_hb]; rfl

/-- one step of any kind moves the slave's `_state` exactly as the CiA 301 machine moves -/
theorem slave_step (own : Nat) (hown : own < 256) (sys : Sys) (T : St) (h : Inv own sys)
    (ht : sys.slave.state = T.code) (op : Op) :
    (step sys op).1.slave.state = (specOp own T op).code := by
  obtain ⟨hm, hs, -⟩ := h
  cases op with
  | api c =>
    by_cases hc : c < 256
    · rw [step_api_ok sys c hc (by omega)]
      simp only [slaveRecv_state, specOp, hm, hs, recvNum_own, recv_own, ht, applyNum_code]
    · rw [step_api_big sys c (by omega)]
      simp only [specOp, recv_own, apply_ge T c (by omega), ht]
  | setName n =>
    cases hn : cmdOfName n with
    | none => rw [step_setName_invalid sys n hn]; simp only [specOp, assign_invalid T n hn, ht]
    | some cmd =>
      rw [step_setName_valid sys n cmd hn, step_api_ok sys cmd.cs (cs_lt cmd) (by omega)]
      simp only [slaveRecv_state, specOp, hm, hs, recvNum_own, assign_valid T n cmd hn, ht, applyNum_code]
  | bcast c =>
    by_cases hc : c < 256
    · rw [step_bcast_ok sys c hc]
      simp only [slaveRecv_state, specOp, recvNum_zero, recv_zero, ht, applyNum_code]
    · rw [step_bcast_big sys c (by omega)]
      simp only [specOp, recv_zero, apply_ge T c (by omega), ht]
  | bcastName n =>
    cases hn : cmdOfName n with
    | none => rw [step_bcastName_invalid sys n hn]; simp only [specOp, assign_invalid T n hn, ht]
    | some cmd =>
      rw [step_bcastName_valid sys n cmd hn, step_bcast_ok sys cmd.cs (cs_lt cmd)]
      simp only [slaveRecv_state, specOp, recvNum_zero, assign_valid T n cmd hn, ht, applyNum_code]
  | bus data =>
    match data with
    | [] => rw [step_bus_short sys [] (by simp)]; simp only [specOp, ht]
    | [a] => rw [step_bus_short sys [a] (by simp)]; simp only [specOp, ht]
    | cs :: tgt :: rest =>
      rw [step_bus_wf]
      simp only [slaveRecv_state, specOp, hs, ht, recvNum_code]
  | hb node data =>
    simp only [step, fromThird_slave, toSlaveAll, toSlave_other _ ⟨0x700 + node, data⟩ (by simp), specOp, ht]
  | sapi c =>
    simp only [step, fromSlave_slave, slave_sendCommand_state, specOp, ht, applyNum_code]
  | sname n =>
    cases hn : cmdOfName n with
    | none =>
      simp only [step, fromSlave_slave, slave_setState_invalid _ n hn, specOp, assign_invalid T n hn, ht]
    | some cmd =>
      simp only [step, fromSlave_slave, slave_setState_valid _ n cmd hn, slave_sendCommand_state, specOp,
        assign_valid T n cmd hn, ht, applyNum_code]
  | hbTime ms => simp only [step, slave_writeHbTime_state, specOp, ht]
  | tick =>
    simp only [step]
    split
    · simp only [specOp, ht]
    · simp only [fromSlave_slave, specOp, ht]
  | waitHb arr => simp only [step, (waitHeartbeat_slave sys arr).1, specOp, ht]
  | waitBoot iters => simp only [step, (waitBootup_slave iters sys).1, specOp, ht]


theorem slave_run (own : Nat) (hown : own < 256) (ops : List Op) : ∀ (sys : Sys) (T : St),
    Inv own sys → sys.slave.state = T.code →
    (runFrom sys ops).slave.state = (specRun own T ops).code := by
  induction ops with
  | nil => intro sys T _ ht; exact ht
  | cons op rest ih =>
    intro sys T h ht
    simp only [runFrom, specRun, List.foldl_cons]
    exact ih _ _ (inv_step own sys op h) (slave_step own hown sys T h ht op)

/-! ## master and slave agree on command histories -/

/-- the operations the "views agree" clause ranges over: commands the master issues for its node
    (by code or by name, valid or not) and node-control frames of any content from anybody else -/
def isCommand : Op → Bool
  | .api _ | .setName _ | .bus _ => true
  | _ => false

def Agree (own : Nat) (sys : Sys) (T : St) : Prop :=
  Inv own sys ∧ sys.master.state = T.code ∧ sys.slave.state = T.code

theorem master_step (own : Nat) (hown : own < 256) (sys : Sys) (T : St) (h : Inv own sys)
    (ht : sys.master.state = T.code) (op : Op) (hop : isCommand op = true) :
    (step sys op).1.master.state = (specOp own T op).code := by
  obtain ⟨hm, hs, -⟩ := h
  cases op with
  | api c =>
    by_cases hc : c < 256
    · rw [step_api_ok sys c hc (by omega)]
      simp only [specOp, recv_own, ht, applyNum_code]
    · rw [step_api_big sys c (by omega)]
      simp only [specOp, recv_own, apply_ge T c (by omega), ht]
  | setName n =>
    cases hn : cmdOfName n with
    | none => rw [step_setName_invalid sys n hn]; simp only [specOp, assign_invalid T n hn, ht]
    | some cmd =>
      rw [step_setName_valid sys n cmd hn, step_api_ok sys cmd.cs (cs_lt cmd) (by omega)]
      simp only [specOp, assign_valid T n cmd hn, ht, applyNum_code]
  | bus data =>
    match data with
    | [] => rw [step_bus_short sys [] (by simp)]; simp only [specOp, ht]
    | [a] => rw [step_bus_short sys [a] (by simp)]; simp only [specOp, ht]
    | cs :: tgt :: rest =>
      rw [step_bus_wf]
      simp only [specOp, hm, ht, recvNum_code]
  | _ => simp [isCommand] at hop

theorem agree_step (own : Nat) (hown : own < 256) (sys : Sys) (T : St) (h : Agree own sys T)
    (op : Op) (hop : isCommand op = true) : Agree own (step sys op).1 (specOp own T op) :=
  ⟨inv_step own sys op h.1, master_step own hown sys T h.1 h.2.1 op hop,
   slave_step own hown sys T h.1 h.2.2 op⟩

theorem agree_run (own : Nat) (hown : own < 256) (ops : List Op) : ∀ (sys : Sys) (T : St),
    Agree own sys T → (∀ o ∈ ops, isCommand o = true) →
    Agree own (runFrom sys ops) (specRun own T ops) := by
  induction ops with
  | nil => intro sys T h _; exact h
  | cons op rest ih =>
    intro sys T h hc
    simp only [runFrom, specRun, List.foldl_cons]
    exact ih _ _ (agree_step own hown sys T h op (hc op (by simp)))
      (fun o ho => hc o (by simp [ho]))

theorem agree_init (own : Nat) (od : Option Nat) : Agree own (Sys.init own od) .initialising :=
  ⟨inv_init own od, rfl, rfl⟩


/-! ## heartbeats -/

/-- what CiA 301 makes of the seven state bits of an error-control byte -/
def specHbView (v : Nat) : View :=
  match ofHeartbeat v with
  | some T => .known T.name
  | none => .unknown v

theorem stateView_hbState_small : ∀ v : Fin 128, stateView (hbState v.val) = specHbView v.val := by
  decide +kernel

theorem stateView_hbState (b : Nat) : stateView (hbState (b % 128)) = specHbView (b % 128) :=
  stateView_hbState_small ⟨b % 128, Nat.mod_lt _ (by decide)⟩

/-- the heartbeat value of the last well-formed frame of a batch -/
def firstByte : Bytes → Option Nat
  | b :: _ => some (b % 128)
  | [] => none

def lastHb : List Bytes → Option Nat
  | [] => none
  | a :: r =>
    match lastHb r with
    | some v => some v
    | none => firstByte a

/-- the master after the heartbeat value `o` (if any) has been processed last -/
def hbApply (m : Master) : Option Nat → Master
  | some v => { m with state := hbState v, received := some v }
  | none => m

theorem toMasterAll_hbFrames (arr : List Bytes) : ∀ m : Master,
    (toMasterAll m (hbFrames m.id arr)).1 = hbApply m (lastHb arr) := by
  induction arr with
  | nil => intro m; rfl
  | cons a r ih =>
    intro m
    simp only [hbFrames, List.map_cons, toMasterAll]
    cases a with
    | nil =>
      rw [toMaster_hb_empty]
      have := ih m
      simp only [hbFrames] at this
      rw [this]
      simp only [lastHb, firstByte]
      cases lastHb r <;> rfl
    | cons b t =>
      rw [toMaster_hb]
      have := ih { m with state := hbState (b % 128), received := some (b % 128) }
      simp only [hbFrames] at this
      rw [this]
      simp only [lastHb, firstByte]
      cases lastHb r <;> rfl

theorem wait_master (sys : Sys) (arr : List Bytes) :
    (fromThird sys.forget (hbFrames sys.master.id arr)).1.master =
      hbApply sys.forget.master (lastHb arr) := by
  rw [fromThird_master]
  exact toMasterAll_hbFrames arr sys.forget.master

theorem hbApply_forget_received (sys : Sys) (o : Option Nat) :
    (hbApply sys.forget.master o).received = o := by
  cases o <;> rfl


theorem updateHeartbeat_fix (own : Nat) (s : Slave) (h : SInv own s) :
    ({ s with state := s.state }).updateHeartbeat = s := by
  obtain ⟨id, st, task, od⟩ := s
  cases task with
  | none => rfl
  | some t =>
    have := (h.2.1 t rfl).1
    obtain ⟨c, p, ms⟩ := t
    simp at this
    simp [Slave.updateHeartbeat, this]

theorem code_mod (T : St) : T.code % 128 = T.code := Nat.mod_eq_of_lt (code_lt T)

/-- the state a consumer reads from the node's own heartbeat: boot-up (sent while INITIALISING)
    reads as PRE-OPERATIONAL, every other state as itself -/
def heardAs : St → St
  | .initialising => .preOperational
  | T => T

theorem hbState_code : ∀ T : St, hbState T.code = (heardAs T).code := by
  intro T; cases T <;> decide

theorem lastHb_lt (arr : List Bytes) : ∀ v, lastHb arr = some v → v < 128 := by
  induction arr with
  | nil => intro v h; simp [lastHb] at h
  | cons a r ih =>
    intro v h
    simp only [lastHb] at h
    cases hr : lastHb r with
    | some w => rw [hr] at h; simp at h; subst h; exact ih w hr
    | none =>
      rw [hr] at h
      cases a with
      | nil => simp [firstByte] at h
      | cons b t => simp [firstByte] at h; omega

/-- no iteration before the deciding one is past the deadline or ends on a boot-up message -/
def Quiet (pre : List (Bool × List Bytes)) : Prop := ∀ it ∈ pre, it.1 = false ∧ lastHb it.2 ≠ some 0

theorem waitBootup_quiet (pre : List (Bool × List Bytes)) (hq : Quiet pre) :
    ∀ (sys : Sys) (tail : List (Bool × List Bytes)),
    ∃ sys', sys'.master.id = sys.master.id ∧
      (waitBootup sys (pre ++ tail)).1 = (waitBootup sys' tail).1 ∧
      (waitBootup sys (pre ++ tail)).2.res = (waitBootup sys' tail).2.res := by
  induction pre with
  | nil => intro sys tail; exact ⟨sys, rfl, rfl, rfl⟩
  | cons it r ih =>
    intro sys tail
    have h1 := (hq it (by simp)).1
    have h2 := (hq it (by simp)).2
    have hr : (fromThird sys.forget (hbFrames sys.master.id it.2)).1.master.received = lastHb it.2 := by
      rw [wait_master, hbApply_forget_received]
    have hid : (fromThird sys.forget (hbFrames sys.master.id it.2)).1.master.id = sys.master.id := by
      rw [fromThird_master, toMasterAll_id]; rfl
    obtain ⟨sys', e0, e1, e2⟩ := ih (fun x hx => hq x (by simp [hx]))
      (fromThird sys.forget (hbFrames sys.master.id it.2)).1 tail
    refine ⟨sys', e0.trans hid, ?_, ?_⟩
    · simp only [List.cons_append, waitBootup, h1, hr, Bool.false_eq_true, if_false]
      rw [if_neg h2]
      exact e1
    · simp only [List.cons_append, waitBootup, h1, hr, Bool.false_eq_true, if_false]
      rw [if_neg h2]
      exact e2

theorem waitBootup_no_false_return (iters : List (Bool × List Bytes))
    (h : ∀ it ∈ iters, lastHb it.2 ≠ some 0) : ∀ sys : Sys, (waitBootup sys iters).2.res ≠ .ok := by
  induction iters with
  | nil => intro sys; simp [waitBootup]
  | cons it r ih =>
    intro sys
    have hr : (fromThird sys.forget (hbFrames sys.master.id it.2)).1.master.received = lastHb it.2 := by
      rw [wait_master, hbApply_forget_received]
    simp only [waitBootup, hr]
    split
    · simp
    · rw [if_neg (h it (by simp))]
      exact ih (fun x hx => h x (by simp [hx])) _

/-- the view after a command specifier that addressed the node: the destination's name, or the
    previous view when the specifier is not defined -/
def specCmdView (V : View) (cs : Nat) : View :=
  match decodeCs cs with
  | some cmd => .known cmd.dest.name
  | none => V

def specNameView (V : View) (n : List Char) : View :=
  match cmdOfName n with
  | some cmd => .known cmd.dest.name
  | none => V

/-- operations seen by the master of node `own`: its own commands, third-party node-control frames
    and error-control frames -/
def isBusOp : Op → Bool
  | .api _ | .setName _ | .bus _ | .hb _ _ => true
  | _ => false

def specMasterOp (own : Nat) (V : View) : Op → View
  | .api c => specCmdView V c
  | .setName n => specNameView V n
  | .bus (cs :: tgt :: _) => if tgt = own ∨ tgt = 0 then specCmdView V cs else V
  | .hb node (b :: _) => if node = own then specHbView (b % 128) else V
  | _ => V

theorem stateView_applyNum (st c : Nat) : stateView (applyNum st c) = specCmdView (stateView st) c := by
  unfold applyNum specCmdView
  cases decodeCs c with
  | none => rfl
  | some cmd => exact stateView_code _

theorem specCmdView_ge (V : View) (c : Nat) (h : 256 ≤ c) : specCmdView V c = V := by
  unfold specCmdView; rw [decodeCs_none_of_ge c h]

end Canopen.C11
