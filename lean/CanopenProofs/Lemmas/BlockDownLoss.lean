/-
Helper lemmas for C12, second part: runs with exactly one lost frame (exact-branch step lemmas for
a segment the server does not accept, liveness once no further frame is lost, the phase before the
loss).  Property theorems live in CanopenProofs/C12.lean.
-/
import CanopenProofs.Lemmas.BlockDown

namespace Canopen.C12
open Canopen Canopen.Crc Canopen.Gen.SdoBlock Canopen.Sdo.BlockDown
open Canopen.Spec.BlockDown (Srv Phase)

/-- the continuation `_retransmit` pushes -/
def retxItems (block : List Bytes) : List Item := (block.map fun b => Item.write b true) ++ [Item.endRetx]

/-- frame accounting of a `send` whose segment the server did not take -/
structure KeepL (s s' : Sys) (b : Bytes) : Prop where
  nreq : s'.nreq = s.nreq + 1
  crcSup : s'.cl.crcSupported = s.cl.crcSupported
  crc : s'.cl.crc = if s.cl.crcSupported && !s.cl.retransmitting then crcHqx b s.cl.crc else s.cl.crc
  srvCrc : s'.srv.crc = s.srv.crc
  buf : s'.srv.buf = s.srv.buf

/-- a non-final segment that the server does not accept (it is lost, or an earlier segment of the
    sub-block is missing): inside the sub-block it just becomes pending; at the end of the sub-block
    the server acknowledges what it has (on reception or on its time-out) and the client pushes the
    retransmission of everything pending -/
theorem send_noacc_nonlast (E : Env) (hE : Plain E) (payload : Bytes) (s : Sys)
    (b : Bytes) (r : Bool) (t : List Item) (h : Inv payload s (.write b r :: t)) (hb : b.length = 7)
    (ht : itemsData t ≠ []) (hna : E.lost s.nreq = true ∨ s.srv.sseq < s.cl.seqno) :
    if s.cl.seqno + 1 < s.cl.blksize then
      ∃ s', send E s b false = (s', .cont []) ∧ Inv payload s' t ∧ KeepL s s' b ∧
        s'.srv.sseq = s.srv.sseq ∧ s'.cl.seqno = s.cl.seqno + 1 ∧ s'.cl.blksize = s.cl.blksize ∧
        s'.cl.currentBlock = s.cl.currentBlock ++ [b] ∧ s'.cl.retransmitting = s.cl.retransmitting
    else
      ∃ s', send E s b false = (s', .cont (retxItems ((s.cl.currentBlock ++ [b]).drop s.srv.sseq))) ∧
        Inv payload s' (retxItems ((s.cl.currentBlock ++ [b]).drop s.srv.sseq) ++ t) ∧ KeepL s s' b ∧
        s'.srv.sseq = 0 ∧ s'.cl.seqno = 0 ∧ s'.cl.currentBlock = [] ∧ s'.cl.retransmitting = true := by
  have hq1 : 1 ≤ s.cl.seqno + 1 := by omega
  have hq2 : s.cl.seqno + 1 ≤ 127 := by have := h.seqLt; have := h.blkLe; omega
  have hrecv := recv_seg E.blkOf s.srv (s.cl.seqno + 1) false b hq1 hq2 (by omega) h.phase
  have hnb := hE.blk s.srv.k
  have hQ := h.queue
  have hD := h.notDone
  have hP := h.phase
  have hB := h.blk
  have hsl := h.sseqLe
  have hslt := h.seqLt
  have hs' : E.lost s.nreq = false → ¬ (s.cl.seqno + 1 = s.srv.sseq + 1) := by
    intro hl'; rcases hna with h | h
    · rw [hl'] at h; simp at h
    · omega
  by_cases hlt : s.cl.seqno + 1 < s.cl.blksize
  · rw [if_pos hlt]
    unfold send
    by_cases hl : E.lost s.nreq = true
    · rw [sendReq_lost E s _ hl]
      simp only [afterSend, Bool.false_eq_true, if_false, Bool.or_false]
      rw [if_neg (by omega)]
      exact ⟨_, rfl, inv_advance h hb ht false (by simp) (by omega) (by simp [hP]) (by simp [hD]) rfl rfl rfl rfl
        (by simp) (by simp) (by simp [hb]) rfl rfl (by simp [hQ]), ⟨rfl, rfl, rfl, rfl, rfl⟩, rfl, rfl, rfl, rfl, rfl⟩
    · have hl' : E.lost s.nreq = false := by simpa using hl
      rw [sendReq_deliv E s _ hl' hE.dist]
      rw [if_neg (hs' hl'), if_neg (by simp; omega)] at hrecv
      rw [hrecv]
      simp only [afterSend, Bool.false_eq_true, if_false, Bool.or_false, hQ, List.nil_append]
      rw [if_neg (by simp; omega)]
      exact ⟨_, rfl, inv_advance h hb ht false (by simp) (by omega) (by simp [hP]) (by simp [hD]) rfl rfl rfl rfl
        (by simp) (by simp) (by simp [hb]) rfl rfl (by simp), ⟨rfl, rfl, rfl, rfl, rfl⟩, rfl, rfl, rfl, rfl, rfl⟩
  · rw [if_neg hlt]
    have hne : s.srv.sseq ≠ s.cl.blksize := by omega
    unfold send
    by_cases hl : E.lost s.nreq = true
    · rw [sendReq_lost E s _ hl]
      simp only [afterSend, Bool.false_eq_true, if_false, Bool.or_false]
      rw [if_pos (by omega), blockAck_timeout _ _ (by simp [hQ]) (by simp [hP]) (hE.tmo' hl), ackResponse_ack]
      simp only [ne_eq, hne, not_false_eq_true, if_true]
      exact ⟨_, rfl, inv_retx h hb ht (E.blkOf s.srv.k) hnb (by simp [hP]) (by simp [hD]) rfl rfl rfl rfl rfl rfl
        (by simp [hb]) rfl rfl rfl, ⟨rfl, rfl, rfl, rfl, rfl⟩, rfl, rfl, rfl, rfl⟩
    · have hl' : E.lost s.nreq = false := by simpa using hl
      rw [sendReq_deliv E s _ hl' hE.dist]
      rw [if_neg (hs' hl'), if_pos (Or.inr (by omega)), ack_eq] at hrecv
      rw [hrecv]
      simp only [afterSend, Bool.false_eq_true, if_false, Bool.or_false, hQ, List.nil_append]
      rw [if_pos (by simp; omega), blockAck_queued _ _ s.srv.sseq (E.blkOf s.srv.k) (by rfl), ackResponse_ack]
      simp only [ne_eq, hne, not_false_eq_true, if_true]
      exact ⟨_, rfl, inv_retx h hb ht (E.blkOf s.srv.k) hnb (by simp [hP]) (by simp [hD]) rfl rfl rfl rfl rfl rfl
        (by simp [hb]) rfl rfl rfl, ⟨rfl, rfl, rfl, rfl, rfl⟩, rfl, rfl, rfl, rfl⟩

def fresh (F : List Bytes) : List Item := F.map fun b => Item.write b false

def todoOf (retx : Bool) (R F : List Bytes) : List Item := (if retx then retxItems R else []) ++ fresh F

theorem itemsData_fresh (F : List Bytes) : itemsData (fresh F) = F.flatten := by
  induction F with
  | nil => rfl
  | cons c F ih => simp only [fresh, List.map_cons, itemsData, List.flatten_cons] at ih ⊢; rw [ih]

theorem todoOK_append_right (a b : List Item) (h : TodoOK (a ++ b)) : TodoOK b := by
  induction a with
  | nil => exact h
  | cons x a ih =>
    cases x with
    | endRetx => exact ih h
    | write c r => exact ih h.2.2.2
    | feed rem offs => exact absurd h (by simp [TodoOK])

theorem fresh_data_ne (F : List Bytes) (hF : F ≠ []) (h : TodoOK (fresh F)) : itemsData (fresh F) ≠ [] := by
  cases F with
  | nil => exact absurd rfl hF
  | cons c F =>
    have := h.1
    simp only [fresh, List.map_cons, itemsData]
    intro h0; have := congrArg List.length h0
    simp only [List.length_append, List.length_nil] at this; omega

/-- when client and server are in step, the server holds exactly what is not pending any more -/
theorem buf_of_sync {payload : Bytes} {s : Sys} {todo : List Item} (h : Inv payload s todo)
    (hs : s.srv.sseq = s.cl.seqno) : s.srv.buf ++ itemsData todo = payload := by
  have hd := h.data
  have h0 : List.drop s.srv.sseq s.cl.currentBlock = [] :=
    List.drop_eq_nil_of_le (by have := h.seqLen; omega)
  simpa [h0] using hd

/-- no frame is lost any more -/
structure NL (E : Env) (payload : Bytes) (s : Sys) (retx : Bool) (R F : List Bytes) : Prop where
  inv : Inv payload s (todoOf retx R F)
  noLoss : ∀ n, s.nreq ≤ n → E.lost n = false
  flag : s.cl.retransmitting = retx
  rnil : retx = false → R = []
  sync : retx = true → s.srv.sseq = s.cl.seqno
  fne : retx = true → F ≠ []
  room : s.srv.sseq < s.cl.seqno → s.cl.blksize - s.cl.seqno < F.length
  crc : s.cl.crcSupported = true →
    s.cl.crc = crcHqx (s.srv.buf ++ (s.cl.currentBlock.drop s.srv.sseq).flatten ++ R.flatten) 0

def Good (E : Env) (payload : Bytes) (s s' : Sys) : Prop :=
  DoneInv payload s' ∧ (s'.cl.crcSupported = true → s'.cl.crc = crcHqx payload 0) ∧
    s'.cl.crcSupported = s.cl.crcSupported ∧ s'.srv.crc = s.srv.crc ∧ (∀ n, s'.nreq ≤ n → E.lost n = false)

theorem good_trans {E : Env} {payload : Bytes} {s s1 s' : Sys} (h : Good E payload s1 s')
    (h1 : s1.cl.crcSupported = s.cl.crcSupported) (h2 : s1.srv.crc = s.srv.crc) : Good E payload s s' :=
  ⟨h.1, h.2.1, by rw [h.2.2.1, h1], by rw [h.2.2.2.1, h2], h.2.2.2.2⟩


theorem retxItems_cons (c : Bytes) (R : List Bytes) (X : List Item) :
    retxItems (c :: R) ++ X = Item.write c true :: (retxItems R ++ X) := rfl

theorem retxItems_length (R : List Bytes) : (retxItems R).length = R.length + 1 := by simp [retxItems]

theorem todoOf_false (F : List Bytes) : todoOf false [] F = fresh F := rfl

theorem todoOf_true (R F : List Bytes) : todoOf true R F = retxItems R ++ fresh F := rfl

theorem fresh_length (F : List Bytes) : (fresh F).length = F.length := by simp [fresh]

theorem fresh_cons (c : Bytes) (F : List Bytes) : fresh (c :: F) = Item.write c false :: fresh F := rfl

theorem run_nl (E : Env) (hE : Plain E) (payload : Bytes) :
    ∀ (fuel : Nat) (s : Sys) (retx : Bool) (R F : List Bytes), NL E payload s retx R F →
    (todoOf retx R F).length + (if s.srv.sseq < s.cl.seqno then 130 else 0) + 1 ≤ fuel →
    ∃ s', run E fuel s (todoOf retx R F) = (s', .ok) ∧ Good E payload s s' := by
  intro fuel
  induction fuel with
  | zero => intro s retx R F _ hf; omega
  | succ f ih =>
    intro s retx R F h hf
    have hinv := h.inv
    cases retx with
    | true =>
      have hsync := h.sync rfl
      have hFne := h.fne rfl
      cases R with
      | nil =>
        -- the marker: `_retransmitting = False`
        have hinv' := inv_endRetx (t := fresh F) (by simpa [todoOf, retxItems] using hinv)
        have hnl : NL E payload { s with cl := { s.cl with retransmitting := false } } false [] F :=
          ⟨by simpa [todoOf] using hinv', h.noLoss, rfl, fun _ => rfl, by simp, by simp,
            by intro hg; simp at hg; omega, by simpa using h.crc⟩
        obtain ⟨s', hr, hg⟩ := ih _ false [] F hnl (by
          have hnogap : ¬ s.srv.sseq < s.cl.seqno := by omega
          simp only [todoOf_true, todoOf_false, retxItems_length, fresh_length, List.length_append,
            List.length_nil, if_neg hnogap] at hf ⊢
          omega)
        refine ⟨s', ?_, good_trans hg rfl rfl⟩
        rw [todoOf_false] at hr
        simpa [todoOf, retxItems, run] using hr
      | cons c R' =>
        have htodo : todoOf true (c :: R') F = Item.write c true :: (retxItems R' ++ fresh F) := rfl
        rw [htodo] at hinv ⊢
        have htne : itemsData (retxItems R' ++ fresh F) ≠ [] := by
          rw [itemsData_append]
          have := fresh_data_ne F hFne (todoOK_append_right _ _ hinv.todoOK.2.2.2)
          intro h0; exact this (List.append_eq_nil_iff.mp h0).2
        have hb7 := hinv.todoOK.2.2.1 htne
        obtain ⟨s', he, hinv', hs', hk, hrt', -⟩ :=
          send_sync_nonlast E hE payload s c true _ hinv hb7 htne hsync (h.noLoss _ (Nat.le_refl _))
        have hbuf : s'.srv.buf = s.srv.buf ++ c := by
          have e1 := buf_of_sync hinv hsync
          have e2 := buf_of_sync hinv' hs'
          simp only [itemsData] at e1
          exact List.append_cancel_right (by rw [e2, List.append_assoc, e1])
        have hnl : NL E payload s' true R' F :=
          ⟨hinv', fun n hn => h.noLoss n (by rw [hk.nreq] at hn; omega), by rw [hrt']; exact h.flag,
            by simp, fun _ => hs', fun _ => hFne, by intro hg; omega, by
              intro hsup
              rw [hk.crcSup] at hsup
              have h0 : List.drop s.srv.sseq s.cl.currentBlock = [] :=
                List.drop_eq_nil_of_le (by have := hinv.seqLen; omega)
              have h0' : List.drop s'.srv.sseq s'.cl.currentBlock = [] :=
                List.drop_eq_nil_of_le (by have := hinv'.seqLen; omega)
              rw [hk.crc, h.crc hsup, h.flag, h0, h0', hbuf]; simp⟩
        obtain ⟨s'', hr, hg⟩ := ih s' true R' F hnl (by
          have hnogap : ¬ s'.srv.sseq < s'.cl.seqno := by omega
          have hnogap0 : ¬ s.srv.sseq < s.cl.seqno := by omega
          simp only [todoOf_true, retxItems_length, fresh_length, List.length_append, List.length_cons,
            if_neg hnogap0, if_neg hnogap] at hf ⊢
          omega)
        refine ⟨s'', ?_, good_trans hg hk.crcSup hk.srvCrc⟩
        simp only [run]
        rw [writeStep_eq E payload s c true _ hinv, if_neg htne, he]
        rw [todoOf_true] at hr
        simpa using hr
    | false =>
      have hR := h.rnil rfl
      subst hR
      have htodo : todoOf false [] F = fresh F := rfl
      rw [htodo] at hinv hf ⊢
      cases F with
      | nil => exact absurd rfl hinv.nonempty
      | cons c F' =>
        have hcons : fresh (c :: F') = Item.write c false :: fresh F' := rfl
        rw [hcons] at hinv hf ⊢
        by_cases hgap : s.srv.sseq < s.cl.seqno
        · -- a segment of this sub-block is missing at the server
          have hroom := h.room hgap
          have hslt := hinv.seqLt
          have hF' : F' ≠ [] := by intro h0; subst h0; simp at hroom; omega
          have htne := fresh_data_ne F' hF' hinv.todoOK.2.2.2
          have hb7 := hinv.todoOK.2.2.1 htne
          have hstep := send_noacc_nonlast E hE payload s c false _ hinv hb7 htne (Or.inr hgap)
          have hdrop : List.drop s.srv.sseq (s.cl.currentBlock ++ [c]) = List.drop s.srv.sseq s.cl.currentBlock ++ [c] :=
            List.drop_append_of_le_length (by have := hinv.seqLen; omega)
          simp only [run]
          rw [writeStep_eq E payload s c false _ hinv, if_neg htne]
          by_cases hlt : s.cl.seqno + 1 < s.cl.blksize
          · rw [if_pos hlt] at hstep
            obtain ⟨s', he, hinv', hk, e1, e2, e3, e4, e5⟩ := hstep
            have hnl : NL E payload s' false [] F' :=
              ⟨hinv', fun n hn => h.noLoss n (by rw [hk.nreq] at hn; omega), by rw [e5]; exact h.flag,
                fun _ => rfl, by simp, by simp, by
                  intro _; rw [e2, e3]; simp only [List.length_cons] at hroom; omega, by
                  intro hsup
                  rw [hk.crcSup] at hsup
                  rw [hk.crc, h.crc hsup, h.flag, hsup, e1, e4, hdrop, hk.buf]
                  simp [crcHqx_append]⟩
            obtain ⟨s'', hr, hg⟩ := ih s' false [] F' hnl (by
              have : s'.srv.sseq < s'.cl.seqno := by omega
              simp only [todoOf_false, fresh_length, List.length_cons, if_pos hgap, if_pos this] at hf ⊢
              omega)
            rw [he]
            rw [todoOf_false] at hr
            exact ⟨s'', by simpa using hr, good_trans hg hk.crcSup hk.srvCrc⟩
          · rw [if_neg hlt] at hstep
            obtain ⟨s', he, hinv', hk, e1, e2, e3, e4⟩ := hstep
            have hF'' : F' ≠ [] := hF'
            have hnl : NL E payload s' true ((s.cl.currentBlock ++ [c]).drop s.srv.sseq) F' :=
              ⟨hinv', fun n hn => h.noLoss n (by rw [hk.nreq] at hn; omega), e4, by simp,
                fun _ => by rw [e1, e2], fun _ => hF'', by intro hg; omega, by
                  intro hsup
                  rw [hk.crcSup] at hsup
                  rw [hk.crc, h.crc hsup, h.flag, hsup, e1, e3, hdrop, hk.buf]
                  simp [crcHqx_append]⟩
            obtain ⟨s'', hr, hg⟩ := ih s' true _ F' hnl (by
              have hnogap : ¬ s'.srv.sseq < s'.cl.seqno := by omega
              have hl1 : (List.drop s.srv.sseq (s.cl.currentBlock ++ [c])).length ≤ 127 := by
                have := hinv.seqLen; have := hinv.blkLe
                simp only [List.length_drop, List.length_append, List.length_cons, List.length_nil]; omega
              simp only [todoOf_true, List.length_append, retxItems_length, fresh_length,
                List.length_cons, if_pos hgap, if_neg hnogap] at hf hl1 ⊢
              omega)
            rw [he]
            exact ⟨s'', hr, good_trans hg hk.crcSup hk.srvCrc⟩
        · -- in step
          have hsync : s.srv.sseq = s.cl.seqno := by have := hinv.sseqLe; omega
          simp only [run]
          rw [writeStep_eq E payload s c false _ hinv]
          cases F' with
          | nil =>
            simp only [fresh, List.map_nil, itemsData, if_true]
            obtain ⟨s', he, hd, hk, -⟩ :=
              send_sync_last E hE payload s c false [] hinv rfl hsync (h.noLoss _ (Nat.le_refl _))
            rw [he]
            refine ⟨s', ?_, hd, ?_, hk.crcSup, hk.srvCrc, fun n hn => h.noLoss n (by rw [hk.nreq] at hn; omega)⟩
            · cases f with
              | zero => simp at hf
              | succ f => simp [run]
            · intro hsup
              rw [hk.crcSup] at hsup
              have h0 : List.drop s.srv.sseq s.cl.currentBlock = [] :=
                List.drop_eq_nil_of_le (by have := hinv.seqLen; omega)
              have e1 := buf_of_sync hinv hsync
              simp only [fresh, List.map_nil, itemsData, List.append_nil] at e1
              rw [hk.crc, h.crc hsup, hsup, h.flag, h0, ← e1]
              simp [crcHqx_append]
          | cons c' F'' =>
            have htne := fresh_data_ne (c' :: F'') (by simp) hinv.todoOK.2.2.2
            rw [if_neg htne]
            have hb7 := hinv.todoOK.2.2.1 htne
            obtain ⟨s', he, hinv', hs', hk, hrt', -⟩ :=
              send_sync_nonlast E hE payload s c false _ hinv hb7 htne hsync (h.noLoss _ (Nat.le_refl _))
            have hbuf : s'.srv.buf = s.srv.buf ++ c := by
              have e1 := buf_of_sync hinv hsync
              have e2 := buf_of_sync hinv' hs'
              simp only [itemsData] at e1
              exact List.append_cancel_right (by rw [e2, List.append_assoc, e1])
            have hnl : NL E payload s' false [] (c' :: F'') :=
              ⟨hinv', fun n hn => h.noLoss n (by rw [hk.nreq] at hn; omega), by rw [hrt']; exact h.flag,
                fun _ => rfl, by simp, by simp, by intro hg; omega, by
                  intro hsup
                  rw [hk.crcSup] at hsup
                  have h0 : List.drop s.srv.sseq s.cl.currentBlock = [] :=
                    List.drop_eq_nil_of_le (by have := hinv.seqLen; omega)
                  have h0' : List.drop s'.srv.sseq s'.cl.currentBlock = [] :=
                    List.drop_eq_nil_of_le (by have := hinv'.seqLen; omega)
                  rw [hk.crc, h.crc hsup, h.flag, hsup, h0, h0', hbuf]; simp [crcHqx_append]⟩
            obtain ⟨s'', hr, hg⟩ := ih s' false [] (c' :: F'') hnl (by
              have hnogap : ¬ s'.srv.sseq < s'.cl.seqno := by omega
              simp only [todoOf_false, fresh_length, List.length_cons, if_neg hgap, if_neg hnogap] at hf ⊢
              omega)
            rw [he]
            rw [todoOf_false] at hr
            exact ⟨s'', by simpa using hr, good_trans hg hk.crcSup hk.srvCrc⟩


/-- `notFinal blkOf d k rem L`: with `rem` segments left in the current sub-block, `k` the index of
    the next block size and `L` segments still to send, the segment after the next `d` ones lies in
    a sub-block that is not the final one of the transfer (that sub-block is completed by a
    segment other than the last) -/
def notFinal (blkOf : Nat → Nat) : Nat → Nat → Nat → Nat → Bool
  | 0, _, rem, L => decide (rem < L)
  | d+1, k, rem, L =>
    if rem = 1 then notFinal blkOf d (k + 1) (blkOf k) (L - 1) else notFinal blkOf d k (rem - 1) (L - 1)

theorem notFinal_len (blkOf : Nat → Nat) (hb : ∀ k, 1 ≤ blkOf k) :
    ∀ (d k rem L : Nat), 1 ≤ rem → notFinal blkOf d k rem L = true → d + 2 ≤ L := by
  intro d
  induction d with
  | zero => intro k rem L hr h; simp [notFinal] at h; omega
  | succ d ih =>
    intro k rem L hr h
    simp only [notFinal] at h
    split at h
    · have := ih _ _ _ (hb k) h; omega
    · have := ih _ _ _ (by omega) h; omega

/-- client and server in step, nothing lost so far, exactly one loss ahead, not in the final
    sub-block: the write phase completes -/
theorem run_pre (E : Env) (hE : Plain E) (payload : Bytes) :
    ∀ (d : Nat) (s : Sys) (F : List Bytes) (fuel : Nat), Inv payload s (fresh F) → s.srv.sseq = s.cl.seqno →
    s.cl.retransmitting = false → (s.cl.crcSupported = true → s.cl.crc = crcHqx s.srv.buf 0) →
    (∀ n, s.nreq ≤ n → E.lost n = decide (n = s.nreq + d)) →
    notFinal E.blkOf d s.srv.k (s.cl.blksize - s.cl.seqno) F.length = true → F.length + 132 ≤ fuel →
    ∃ s', run E fuel s (fresh F) = (s', .ok) ∧ Good E payload s s' := by
  intro d
  induction d with
  | zero =>
    intro s F fuel hinv hsync hrt hcrc hlost hnf hf
    obtain ⟨f, rfl⟩ : ∃ f, fuel = f + 1 := ⟨fuel - 1, by omega⟩
    have hl : E.lost s.nreq = true := by rw [hlost _ (Nat.le_refl _)]; simp
    simp only [notFinal, decide_eq_true_eq] at hnf
    have hslt := hinv.seqLt
    cases F with
    | nil => exact absurd rfl hinv.nonempty
    | cons c F' =>
      rw [fresh_cons] at hinv ⊢
      have hF' : F' ≠ [] := by intro h0; subst h0; simp at hnf; omega
      have htne := fresh_data_ne F' hF' hinv.todoOK.2.2.2
      have hb7 := hinv.todoOK.2.2.1 htne
      have hstep := send_noacc_nonlast E hE payload s c false _ hinv hb7 htne (Or.inl hl)
      have h0 : List.drop s.srv.sseq s.cl.currentBlock = [] :=
        List.drop_eq_nil_of_le (by have := hinv.seqLen; omega)
      have hdrop : List.drop s.srv.sseq (s.cl.currentBlock ++ [c]) = [c] := by
        rw [List.drop_append_of_le_length (by have := hinv.seqLen; omega), h0]; rfl
      simp only [run]
      rw [writeStep_eq E payload s c false _ hinv, if_neg htne]
      by_cases hlt : s.cl.seqno + 1 < s.cl.blksize
      · rw [if_pos hlt] at hstep
        obtain ⟨s', he, hinv', hk, e1, e2, e3, e4, e5⟩ := hstep
        have hnl : NL E payload s' false [] F' :=
          ⟨hinv', fun n hn => by rw [hlost n (by rw [hk.nreq] at hn; omega)]; rw [hk.nreq] at hn; simp; omega,
            by rw [e5]; exact hrt, fun _ => rfl, by simp, by simp, by
              intro _; rw [e2, e3]; simp only [List.length_cons] at hnf; omega, by
              intro hsup
              rw [hk.crcSup] at hsup
              rw [hk.crc, hcrc hsup, hrt, hsup, e1, e4, hdrop, hk.buf]
              simp [crcHqx_append]⟩
        obtain ⟨s'', hr, hg⟩ := run_nl E hE payload f s' false [] F' hnl (by
          simp only [todoOf_false, fresh_length, List.length_cons] at hf ⊢
          split <;> omega)
        rw [he]
        rw [todoOf_false] at hr
        exact ⟨s'', by simpa using hr, good_trans hg hk.crcSup hk.srvCrc⟩
      · rw [if_neg hlt] at hstep
        obtain ⟨s', he, hinv', hk, e1, e2, e3, e4⟩ := hstep
        rw [hdrop] at he hinv'
        have hnl : NL E payload s' true [c] F' :=
          ⟨hinv', fun n hn => by rw [hlost n (by rw [hk.nreq] at hn; omega)]; rw [hk.nreq] at hn; simp; omega,
            e4, by simp, fun _ => by rw [e1, e2], fun _ => hF', by intro hg; omega, by
              intro hsup
              rw [hk.crcSup] at hsup
              rw [hk.crc, hcrc hsup, hrt, hsup, e1, e3, hk.buf]
              simp [crcHqx_append]⟩
        obtain ⟨s'', hr, hg⟩ := run_nl E hE payload f s' true [c] F' hnl (by
          have hnogap : ¬ s'.srv.sseq < s'.cl.seqno := by omega
          simp only [todoOf_true, List.length_append, retxItems_length, fresh_length,
            List.length_cons, List.length_nil, if_neg hnogap] at hf ⊢
          omega)
        rw [he]
        exact ⟨s'', hr, good_trans hg hk.crcSup hk.srvCrc⟩
  | succ d ih =>
    intro s F fuel hinv hsync hrt hcrc hlost hnf hf
    obtain ⟨f, rfl⟩ : ∃ f, fuel = f + 1 := ⟨fuel - 1, by omega⟩
    have hl : E.lost s.nreq = false := by rw [hlost _ (Nat.le_refl _)]; simp
    have hslt := hinv.seqLt
    have hlen := notFinal_len E.blkOf (fun k => (hE.blk k).1) _ _ _ _ (by omega) hnf
    cases F with
    | nil => exact absurd rfl hinv.nonempty
    | cons c F' =>
      rw [fresh_cons] at hinv ⊢
      have hF' : F' ≠ [] := by intro h0; subst h0; simp at hlen
      have htne := fresh_data_ne F' hF' hinv.todoOK.2.2.2
      have hb7 := hinv.todoOK.2.2.1 htne
      obtain ⟨s', he, hinv', hs', hk, hrt', hnext⟩ :=
        send_sync_nonlast E hE payload s c false _ hinv hb7 htne hsync hl
      have hbuf : s'.srv.buf = s.srv.buf ++ c := by
        have e1 := buf_of_sync hinv hsync
        have e2 := buf_of_sync hinv' hs'
        simp only [itemsData] at e1
        exact List.append_cancel_right (by rw [e2, List.append_assoc, e1])
      have hnf' : notFinal E.blkOf d s'.srv.k (s'.cl.blksize - s'.cl.seqno) F'.length = true := by
        simp only [notFinal, List.length_cons, Nat.add_sub_cancel] at hnf
        by_cases hend : s.cl.seqno + 1 = s.cl.blksize
        · rw [if_pos hend] at hnext
          have ⟨e1, e23⟩ := Prod.mk.inj hnext
          have ⟨e2, e3⟩ := Prod.mk.inj e23
          rw [if_pos (by omega)] at hnf
          rw [e1, e2, e3]; simpa using hnf
        · rw [if_neg hend] at hnext
          have ⟨e1, e23⟩ := Prod.mk.inj hnext
          have ⟨e2, e3⟩ := Prod.mk.inj e23
          rw [if_neg (by omega)] at hnf
          rw [e1, e2, e3]
          have : s.cl.blksize - (s.cl.seqno + 1) = s.cl.blksize - s.cl.seqno - 1 := by omega
          rw [this]; exact hnf
      obtain ⟨s'', hr, hg⟩ := ih s' F' f hinv' hs' (by rw [hrt', hrt])
        (by intro hsup; rw [hk.crcSup] at hsup; rw [hk.crc, hcrc hsup, hsup, hrt, hbuf]; simp [crcHqx_append])
        (by intro n hn; rw [hk.nreq] at hn ⊢; rw [hlost n (by omega)]; congr 1; apply propext; omega)
        hnf' (by simp only [List.length_cons] at hf; omega)
      simp only [run]
      rw [writeStep_eq E payload s c false _ hinv, if_neg htne, he]
      exact ⟨s'', by simpa using hr, good_trans hg hk.crcSup hk.srvCrc⟩



end Canopen.C12
