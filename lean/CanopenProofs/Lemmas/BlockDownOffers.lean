/-
Helper lemmas for C12, the caller of `write`: `Item.feed` (raw `write` calls with arbitrary offers,
`_pending` keeping what does not fill a segment) against the chunk form the other lemma files
work with.
* `run_hand`: for every environment, the hand loop (`feed` that always offers the whole
  remainder) does exactly what the pending `write` calls with the 7-byte chunks do.
* `feed_sized` / `feed_unsized`: without loss, whatever the offers are, the write phase sends the
  7-byte chunks of the payload (`idealSegs`), the last one by `write` when the size is declared,
  by `close()` when it is not.
Property theorems live in CanopenProofs/C12.lean.
-/
import CanopenProofs.Lemmas.BlockDown

namespace Canopen.C12
open Canopen Canopen.Crc Canopen.Gen.SdoBlock Canopen.Sdo.BlockDown
open Canopen.Spec.BlockDown (Srv Phase)

/-! ### chunks -/

theorem chunks7_fuel : ∀ (f g : Nat) (bs : Bytes), bs.length ≤ f → bs.length ≤ g → chunks7 f bs = chunks7 g bs := by
  intro f
  induction f with
  | zero =>
    intro g bs h _
    have : bs = [] := List.length_eq_zero_iff.mp (by omega)
    subst this
    cases g <;> simp [chunks7]
  | succ f ih =>
    intro g bs hf hg
    cases bs with
    | nil => cases g <;> simp [chunks7]
    | cons x xs =>
      cases g with
      | zero => simp at hg
      | succ g =>
        simp only [chunks7, List.isEmpty_cons, Bool.false_eq_true, if_false]
        rw [ih g (List.drop 7 (x :: xs)) (by simp only [List.length_drop, List.length_cons] at hf ⊢; omega)
          (by simp only [List.length_drop, List.length_cons] at hg ⊢; omega)]

theorem chunks_nil : chunks [] = [] := rfl

theorem chunks_cons (bs : Bytes) (h : bs ≠ []) : chunks bs = bs.take 7 :: chunks (bs.drop 7) := by
  cases bs with
  | nil => exact absurd rfl h
  | cons x xs =>
    simp only [chunks, List.length_cons, chunks7, List.isEmpty_cons, Bool.false_eq_true, if_false]
    congr 1
    exact chunks7_fuel xs.length (List.drop 7 (x :: xs)).length _ (by simp) (Nat.le_refl _)

/-- the pending `write` calls of the hand loop -/
def chunkItems (bs : Bytes) : List Item := (chunks bs).map fun b => Item.write b false

theorem chunkItems_nil : chunkItems [] = [] := rfl

theorem chunkItems_cons (bs : Bytes) (h : bs ≠ []) :
    chunkItems bs = Item.write (bs.take 7) false :: chunkItems (bs.drop 7) := by
  simp [chunkItems, chunks_cons bs h]

theorem drop_take_len (bs : Bytes) : bs.drop (bs.take 7).length = bs.drop 7 := by
  by_cases h : 7 ≤ bs.length
  · rw [List.length_take, Nat.min_eq_left h]
  · have h1 : bs.drop 7 = [] := List.drop_eq_nil_of_le (by omega)
    have h2 : (bs.take 7).length = bs.length := by rw [List.length_take]; omega
    rw [h1, h2]; simp

/-! ### what `send` does to the client's bookkeeping, in every environment -/

theorem abort_cl (E : Env) (s : Sys) (c : Nat) : (abort E s c).cl = s.cl := sendReq_cl E s _

/-- the shape of a `send` that returns: `_pending` untouched, done iff it was or this was the last
    segment, and what `_retransmit` pushes comes from the current block -/
theorem send_shape (E : Env) (s : Sys) (b : Bytes) (last : Bool) (s1 : Sys) (items : List Item)
    (h : send E s b last = (s1, .cont items)) :
    s1.cl.pend = s.cl.pend ∧ s1.cl.size = s.cl.size ∧ s1.cl.done = (s.cl.done || last) ∧
    ((items = [] ∧ (s1.cl.currentBlock = [] ∨ s1.cl.currentBlock = s.cl.currentBlock ++ [b])) ∨
     (∃ n, items = (((s.cl.currentBlock ++ [b]).drop n).map fun c => Item.write c true) ++ [Item.endRetx] ∧
        s1.cl.currentBlock = [])) := by
  unfold send at h
  simp only at h
  have hcl0 := sendReq_cl E s (segFrame (s.cl.seqno + 1) last b)
  split at h
  · unfold blockAck at h
    have hr := readResponse_cl E { sendReq E s (segFrame (s.cl.seqno + 1) last b) with
      cl := afterSend (sendReq E s (segFrame (s.cl.seqno + 1) last b)).cl b last }
    generalize readResponse E _ = rr at h hr
    obtain ⟨s3, r⟩ := rr
    simp only at hr
    cases r with
    | resp f =>
      simp only at h
      unfold ackResponse at h
      split at h
      · simp at h
      · split at h
        · simp at h
        · split at h
          · obtain ⟨h1, h2⟩ := Prod.mk.inj h
            have h2' := WRes.cont.inj h2
            subst h1
            refine ⟨by simp [hr, afterSend, hcl0], by simp [hr, afterSend, hcl0], by simp [hr, afterSend, hcl0],
              Or.inr ⟨f.getD 1 0, ?_, rfl⟩⟩
            rw [← h2', hr]; simp [afterSend, hcl0]
          · obtain ⟨h1, h2⟩ := Prod.mk.inj h
            have h2' := WRes.cont.inj h2
            subst h1
            exact ⟨by simp [hr, afterSend, hcl0], by simp [hr, afterSend, hcl0], by simp [hr, afterSend, hcl0],
              Or.inl ⟨h2'.symm, Or.inl rfl⟩⟩
    | timeout => simp at h
    | aborted c => simp at h
  · obtain ⟨h1, h2⟩ := Prod.mk.inj h
    have h2' := WRes.cont.inj h2
    subst h1
    exact ⟨by simp [afterSend, hcl0], by simp [afterSend, hcl0], by simp [afterSend, hcl0],
      Or.inl ⟨h2'.symm, Or.inr (by simp [afterSend, hcl0])⟩⟩

/-! ### the hand loop is the chunk form -/

/-- nothing kept back, and — unless the stream is done, when every `write` raises — only full
    segments in the current block and in the retransmissions still to do; no caller item among them -/
def J (s : Sys) (pre : List Item) : Prop :=
  s.cl.pend = [] ∧
  (s.cl.done = true ∨ ((∀ c ∈ s.cl.currentBlock, c.length = 7) ∧ ∀ c r, Item.write c r ∈ pre → c.length = 7)) ∧
  ∀ rem offs, Item.feed rem offs ∉ pre

theorem J_send (E : Env) (s : Sys) (b : Bytes) (last : Bool) (s1 : Sys) (items pre : List Item)
    (hp : s.cl.pend = [])
    (hj : s.cl.done = true ∨ ((∀ c ∈ s.cl.currentBlock, c.length = 7) ∧ ∀ c r, Item.write c r ∈ pre → c.length = 7))
    (hf : ∀ rem offs, Item.feed rem offs ∉ pre) (hb : b.length = 7 ∨ last = true)
    (h : send E s b last = (s1, .cont items)) : J s1 (items ++ pre) := by
  obtain ⟨e1, -, e2, e3⟩ := send_shape E s b last s1 items h
  refine ⟨by rw [e1, hp], ?_, ?_⟩
  · rcases hj with hd | ⟨hc, hpre⟩
    · left; rw [e2, hd]; rfl
    · rcases hb with hb | hb
      · have hcb : ∀ c ∈ s.cl.currentBlock ++ [b], c.length = 7 := by
          intro c hc'
          rcases List.mem_append.mp hc' with h' | h'
          · exact hc c h'
          · simp at h'; rw [h']; exact hb
        right
        rcases e3 with ⟨hi, hcb1 | hcb1⟩ | ⟨n, hi, hcb1⟩
        · subst hi; exact ⟨by rw [hcb1]; simp, by simpa using hpre⟩
        · subst hi; exact ⟨by rw [hcb1]; exact hcb, by simpa using hpre⟩
        · refine ⟨by rw [hcb1]; simp, ?_⟩
          intro c r hm
          rcases List.mem_append.mp hm with h' | h'
          · rw [hi] at h'
            simp only [List.mem_append, List.mem_map, List.mem_singleton] at h'
            rcases h' with ⟨c', hc', he⟩ | h'
            · cases he; exact hcb c (List.mem_of_mem_drop hc')
            · cases h'
          · exact hpre c r h'
      · left; rw [e2, hb]; simp
  · intro rem offs hm
    rcases List.mem_append.mp hm with h' | h'
    · rcases e3 with ⟨hi, -⟩ | ⟨n, hi, -⟩
      · rw [hi] at h'; simp at h'
      · rw [hi] at h'
        rcases List.mem_append.mp h' with h'' | h''
        · simp at h''
          have := List.mem_of_mem_drop h''
          simp at this
        · simp at h''
    · exact hf rem offs h'

/-- **In every environment** the hand loop `pos += fp.write(data[pos:])` does, step for step, what
    the pending `write` calls with the 7-byte chunks of the data do. -/
theorem run_hand (E : Env) : ∀ (f : Nat) (s : Sys) (pre : List Item) (rem : Bytes) (t : List Item), J s pre →
    run E f s (pre ++ Item.feed rem [] :: t) = run E f s (pre ++ (chunkItems rem ++ Item.feed [] [] :: t)) := by
  intro f
  induction f with
  | zero => intro s pre rem t _; rfl
  | succ f ih =>
    intro s pre rem t hj
    obtain ⟨hp, hjd, hjf⟩ := hj
    cases pre with
    | nil =>
      simp only [List.nil_append]
      by_cases hr : rem = []
      · subst hr
        simp [run, chunkItems_nil]
      · have hne : rem.isEmpty = false := by cases rem <;> simp_all
        have hWeq : writeStep E s (rem.take rem.length) false = writeStep E s (rem.take 7) false := by
          rw [List.take_length, writeStep_nopend E s rem false hp, writeStep_nopend E s (rem.take 7) false hp]
          simp only [List.take_take, Nat.min_self]
        have htl : takenLen s (rem.take rem.length) = (rem.take 7).length := by
          simp [takenLen, hp]
        rw [chunkItems_cons rem hr]
        simp only [run, hne, Bool.false_eq_true, if_false, List.cons_append, hWeq, htl, drop_take_len, List.tail_nil]
        generalize hW : writeStep E s (rem.take 7) false = W
        obtain ⟨s1, w⟩ := W
        cases w with
        | err => rfl
        | cont items =>
          simp only
          rw [writeStep_nopend E s (rem.take 7) false hp] at hW
          simp only [List.take_take, Nat.min_self] at hW
          split at hW
          · simp at hW
          · rename_i hnd
            have hcb : ∀ c ∈ s.cl.currentBlock, c.length = 7 := by
              rcases hjd with hd | ⟨hc, -⟩
              · exact absurd hd hnd
              · exact hc
            split at hW
            · -- the declared size is reached: last segment
              have hJ := J_send E s _ true s1 items [] hp (Or.inr ⟨hcb, by simp⟩) (by simp) (Or.inr rfl) hW
              exact ih s1 items (rem.drop 7) t (by simpa using hJ)
            · split at hW
              · -- fewer than 7 bytes are left and kept back: both callers are through
                rename_i hshort
                have hd7 : rem.drop 7 = [] := List.drop_eq_nil_of_le (by
                  rw [List.length_take] at hshort; omega)
                obtain ⟨-, h2⟩ := Prod.mk.inj hW
                have h2' := WRes.cont.inj h2
                subst h2'
                simp [hd7, chunkItems_nil]
              · rename_i hfull
                have hb7 : (rem.take 7).length = 7 := by rw [List.length_take] at hfull ⊢; omega
                have hJ := J_send E s _ false s1 items [] hp (Or.inr ⟨hcb, by simp⟩) (by simp) (Or.inl hb7) hW
                exact ih s1 items (rem.drop 7) t (by simpa using hJ)
    | cons x pre =>
      cases x with
      | endRetx =>
        simp only [List.cons_append, run]
        exact ih _ pre rem t ⟨hp, by
          rcases hjd with hd | ⟨hc, hpre⟩
          · exact Or.inl hd
          · exact Or.inr ⟨hc, fun c r hm => hpre c r (by simp [hm])⟩, fun rem offs hm => hjf rem offs (by simp [hm])⟩
      | write b r =>
        simp only [List.cons_append, run]
        by_cases hd : s.cl.done = true
        · simp [writeStep, hd]
        · have hjd' : (∀ c ∈ s.cl.currentBlock, c.length = 7) ∧ ∀ c r', Item.write c r' ∈ Item.write b r :: pre → c.length = 7 := by
            rcases hjd with h | h
            · exact absurd h hd
            · exact h
          have hb7 : b.length = 7 := hjd'.2 b r (by simp)
          have htk : b.take 7 = b := List.take_of_length_le (by omega)
          have hpre' : ∀ c r', Item.write c r' ∈ pre → c.length = 7 := fun c r' hm => hjd'.2 c r' (by simp [hm])
          have hf' : ∀ rem offs, Item.feed rem offs ∉ pre := fun rem offs hm => hjf rem offs (by simp [hm])
          generalize hW : writeStep E s b r = W
          obtain ⟨s1, w⟩ := W
          cases w with
          | err => rfl
          | cont items =>
            simp only
            rw [writeStep_nopend E s b r hp] at hW
            simp only [hd, Bool.false_eq_true, if_false, htk, hb7, Nat.lt_irrefl] at hW
            have hJ : J s1 (items ++ pre) := by
              split at hW
              · exact J_send E s b true s1 items pre hp (Or.inr ⟨hjd'.1, hpre'⟩) hf' (Or.inr rfl) hW
              · exact J_send E s b false s1 items pre hp (Or.inr ⟨hjd'.1, hpre'⟩) hf' (Or.inl hb7) hW
            have := ih s1 (items ++ pre) rem t hJ
            simpa [List.append_assoc] using this
      | feed rem' offs => exact absurd (List.mem_cons_self) (hjf rem' offs)

/-- an exhausted caller at the bottom of the stack costs one step -/
theorem run_snoc_feed (E : Env) : ∀ (f : Nat) (s : Sys) (l : List Item), (run E f s l).2 ≠ .fuel →
    run E (f + 1) s (l ++ [Item.feed [] []]) = run E f s l := by
  intro f
  induction f with
  | zero => intro s l h; simp [run] at h
  | succ f ih =>
    intro s l h
    cases l with
    | nil => simp [run]
    | cons x l =>
      cases x with
      | endRetx =>
        simp only [List.cons_append, run] at h ⊢
        exact ih _ l h
      | write b r =>
        simp only [List.cons_append, run] at h ⊢
        generalize writeStep E s b r = x at h ⊢
        obtain ⟨s1, w⟩ := x
        cases w with
        | err => rfl
        | cont items =>
          simp only at h ⊢
          have := ih s1 (items ++ l) h
          simpa [List.append_assoc] using this
      | feed rem offs =>
        by_cases he : rem.isEmpty = true
        · simp only [List.cons_append, run, he, if_true] at h ⊢
          exact ih _ l h
        · simp only [List.cons_append, run, he, Bool.false_eq_true, if_false] at h ⊢
          generalize writeStep E s _ false = x at h ⊢
          obtain ⟨s1, w⟩ := x
          cases w with
          | err => rfl
          | cont items =>
            simp only at h ⊢
            have := ih s1 _ h
            simpa [List.append_assoc] using this

/-! ### the declared size is read by `write` only -/

def withSize (z : Option Nat) (s : Sys) : Sys := { s with cl := { s.cl with size := z } }

/-- nothing kept back -/
def clr (s : Sys) : Sys := { s with cl := { s.cl with pend := [] } }

/-- the state as the chunk lemmas see it: nothing kept back, the declared size that of the payload -/
def hat (L : Nat) (s : Sys) : Sys := { s with cl := { s.cl with pend := [], size := some L } }

theorem hat_eq (L : Nat) (s : Sys) : hat L s = withSize (some L) (clr s) := rfl

theorem sendReq_withSize (E : Env) (z : Option Nat) (s : Sys) (f : Bytes) :
    sendReq E (withSize z s) f = withSize z (sendReq E s f) := by
  unfold sendReq withSize
  simp only
  split
  · rfl
  · split <;> rfl

theorem readResponse_withSize (E : Env) (z : Option Nat) (s : Sys) :
    readResponse E (withSize z s) = (withSize z (readResponse E s).1, (readResponse E s).2) := by
  unfold readResponse withSize
  simp only
  split
  · rfl
  · split
    · split <;> rfl
    · rfl

theorem ackResponse_withSize (E : Env) (z : Option Nat) (s : Sys) (r : Bytes) :
    ackResponse E (withSize z s) r = (withSize z (ackResponse E s r).1, (ackResponse E s r).2) := by
  unfold ackResponse
  split
  · simp only [abort, sendReq_withSize]; rfl
  · split
    · simp only [abort, sendReq_withSize]; rfl
    · rw [show (withSize z s).cl.blksize = s.cl.blksize from rfl]
      split <;> rfl

theorem blockAck_withSize (E : Env) (z : Option Nat) (s : Sys) :
    blockAck E (withSize z s) = (withSize z (blockAck E s).1, (blockAck E s).2) := by
  unfold blockAck
  rw [readResponse_withSize]
  generalize readResponse E s = rr
  obtain ⟨s1, r⟩ := rr
  cases r with
  | resp f => exact ackResponse_withSize E z s1 f
  | timeout => simp only [abort, sendReq_withSize]; rfl
  | aborted c => rfl

theorem send_withSize (E : Env) (z : Option Nat) (s : Sys) (b : Bytes) (last : Bool) :
    send E (withSize z s) b last = (withSize z (send E s b last).1, (send E s b last).2) := by
  unfold send
  simp only
  rw [show (withSize z s).cl.seqno = s.cl.seqno from rfl, sendReq_withSize]
  generalize sendReq E s (segFrame (s.cl.seqno + 1) last b) = s1
  show (if (afterSend s1.cl b last).seqno ≥ (afterSend s1.cl b last).blksize then
        blockAck E (withSize z { s1 with cl := afterSend s1.cl b last })
      else (withSize z { s1 with cl := afterSend s1.cl b last }, WRes.cont [])) = _
  split
  · exact blockAck_withSize E z _
  · rfl

/-! ### the write phase without loss, any offers -/

theorem itemsData_chunkItems (bs : Bytes) : itemsData (chunkItems bs) = bs :=
  (chunks7_props bs.length bs (Nat.le_refl _)).1

theorem chunks_single (bs : Bytes) (h : bs ≠ []) (h7 : bs.length ≤ 7) : chunks bs = [bs] := by
  rw [chunks_cons bs h, List.take_of_length_le h7, List.drop_eq_nil_of_le h7, chunks_nil]

theorem chunks_ne_nil (bs : Bytes) (h : bs ≠ []) : chunks bs ≠ [] := by
  rw [chunks_cons bs h]; simp

theorem writeStep_feed (E : Env) (s : Sys) (b : Bytes) (r : Bool) (hnd : s.cl.done = false) :
    writeStep E s b r =
      if s.cl.size.isSome ∧ s.cl.pos + (s.cl.pend ++ b.take (7 - s.cl.pend.length)).length ≥ s.cl.size.getD 0 then
        send E (clr s) (s.cl.pend ++ b.take (7 - s.cl.pend.length)) true
      else if (s.cl.pend ++ b.take (7 - s.cl.pend.length)).length < 7 then
        ({ s with cl := { s.cl with pend := s.cl.pend ++ b.take (7 - s.cl.pend.length) } }, .cont [])
      else send E (clr s) (s.cl.pend ++ b.take (7 - s.cl.pend.length)) false := by
  simp [writeStep, hnd, clr]

theorem hat_of_clean (L : Nat) (s : Sys) (hp : s.cl.pend = []) : hat L s = withSize (some L) s := by
  rw [hat_eq, show clr s = s from clearPend_eq s hp]

theorem hat_of_sized (L : Nat) (s : Sys) (hp : s.cl.pend = []) (hz : s.cl.size = some L) : hat L s = s := by
  rw [hat_of_clean L s hp]
  cases s with
  | mk cl _ _ _ _ _ _ _ => cases cl; simp_all [withSize]

/-- a full segment that is not the last one goes out (the chunk lemmas applied to the state with the
    kept bytes taken out and the size filled in) -/
theorem feed_nonlast (E : Env) (hE : Plain E) (payload : Bytes) (s : Sys) (d : Bytes) (C : List Bytes) (hC : C ≠ [])
    (h : Inv payload (hat payload.length s) ((d :: C).map fun b => Item.write b false))
    (hs : s.srv.sseq = s.cl.seqno) (hl : E.lost s.nreq = false) :
    ∃ s1, send E (clr s) d false = (s1, .cont []) ∧ s1.cl.pend = [] ∧ s1.cl.size = s.cl.size ∧
      Inv payload (hat payload.length s1) (C.map fun b => Item.write b false) ∧ s1.srv.sseq = s1.cl.seqno ∧
      Keep (hat payload.length s) (hat payload.length s1) (segFrame (s.cl.seqno + 1) false d) d ∧
      s1.cl.retransmitting = s.cl.retransmitting ∧
      (s1.srv.k, s1.cl.seqno, s1.cl.blksize) =
        (if s.cl.seqno + 1 = s.cl.blksize then (s.srv.k + 1, 0, E.blkOf s.srv.k)
         else (s.srv.k, s.cl.seqno + 1, s.cl.blksize)) ∧
      s1.srv.buf = s.srv.buf ++ d := by
  have htne : itemsData (C.map fun b => Item.write b false) ≠ [] := by
    cases C with
    | nil => exact absurd rfl hC
    | cons c C' =>
      have := h.todoOK.2.2.2.1
      simp only [List.map_cons, itemsData]
      intro h0; have := congrArg List.length h0
      simp only [List.length_append, List.length_nil] at this; omega
  have hb7 := h.todoOK.2.2.1 htne
  obtain ⟨s', he, hinv', hs', hk, hrt', hnext⟩ :=
    send_sync_nonlast E hE payload (hat payload.length s) d false _ h hb7 htne hs hl
  rw [hat_eq, send_withSize] at he
  obtain ⟨he1, he2⟩ := Prod.mk.inj he
  have hr : send E (clr s) d false = ((send E (clr s) d false).1, .cont []) := by
    rw [← he2]
  obtain ⟨e1, e2, -, -⟩ := send_shape E (clr s) d false (send E (clr s) d false).1 [] hr
  have hp1 : (send E (clr s) d false).1.cl.pend = [] := by rw [e1]; rfl
  have hhat : hat payload.length (send E (clr s) d false).1 = s' := by
    rw [hat_of_clean _ _ hp1]; exact he1
  have hbuf : s'.srv.buf = s.srv.buf ++ d := by
    have hd' := hinv'.data
    have hdata := h.data
    have h0 : List.drop (hat payload.length s).srv.sseq (hat payload.length s).cl.currentBlock = [] :=
      List.drop_eq_nil_of_le (by have := h.seqLen; have : (hat payload.length s).srv.sseq = (hat payload.length s).cl.seqno := hs; omega)
    have h0' : List.drop s'.srv.sseq s'.cl.currentBlock = [] :=
      List.drop_eq_nil_of_le (by have := hinv'.seqLen; omega)
    simp only [List.map_cons, itemsData, h0, List.flatten_nil, List.append_nil] at hdata
    simp only [h0', List.flatten_nil, List.append_nil] at hd'
    have := hd'.trans hdata.symm
    have e : (hat payload.length s).srv.buf = s.srv.buf := rfl
    rw [e] at this
    exact List.append_cancel_right (by simpa using this)
  refine ⟨_, hr, hp1, by rw [e2]; rfl, by rw [hhat]; exact hinv', ?_, by rw [hhat]; exact hk, ?_, ?_, ?_⟩
  · have : (hat payload.length (send E (clr s) d false).1).srv.sseq = (hat payload.length (send E (clr s) d false).1).cl.seqno := by
      rw [hhat]; exact hs'
    exact this
  · have : (hat payload.length (send E (clr s) d false).1).cl.retransmitting = (hat payload.length s).cl.retransmitting := by
      rw [hhat]; exact hrt'
    exact this
  · have : ((hat payload.length (send E (clr s) d false).1).srv.k, (hat payload.length (send E (clr s) d false).1).cl.seqno,
        (hat payload.length (send E (clr s) d false).1).cl.blksize) =
        (if (hat payload.length s).cl.seqno + 1 = (hat payload.length s).cl.blksize then
          ((hat payload.length s).srv.k + 1, 0, E.blkOf (hat payload.length s).srv.k)
         else ((hat payload.length s).srv.k, (hat payload.length s).cl.seqno + 1, (hat payload.length s).cl.blksize)) := by
      rw [hhat]; exact hnext
    exact this
  · have : (hat payload.length (send E (clr s) d false).1).srv.buf = s.srv.buf ++ d := by rw [hhat]; exact hbuf
    exact this

/-- the last segment goes out -/
theorem feed_last (E : Env) (hE : Plain E) (payload : Bytes) (s : Sys) (d : Bytes)
    (h : Inv payload (hat payload.length s) [Item.write d false])
    (hs : s.srv.sseq = s.cl.seqno) (hl : E.lost s.nreq = false) :
    ∃ s1, send E (clr s) d true = (s1, .cont []) ∧ DoneInv payload s1 ∧
      Keep (hat payload.length s) (hat payload.length s1) (segFrame (s.cl.seqno + 1) true d) d ∧
      s1.cl.lastBytesSent = d.length ∧ s.srv.buf ++ d = payload := by
  obtain ⟨s', he, hd, hk, hlb⟩ := send_sync_last E hE payload (hat payload.length s) d false [] h rfl hs hl
  rw [hat_eq, send_withSize] at he
  obtain ⟨he1, he2⟩ := Prod.mk.inj he
  have hr : send E (clr s) d true = ((send E (clr s) d true).1, .cont []) := by rw [← he2]
  obtain ⟨e1, -, -, -⟩ := send_shape E (clr s) d true (send E (clr s) d true).1 [] hr
  have hp1 : (send E (clr s) d true).1.cl.pend = [] := by rw [e1]; rfl
  have hhat : hat payload.length (send E (clr s) d true).1 = s' := by
    rw [hat_of_clean _ _ hp1]; exact he1
  have hdata := h.data
  have h0 : List.drop (hat payload.length s).srv.sseq (hat payload.length s).cl.currentBlock = [] :=
    List.drop_eq_nil_of_le (by have := h.seqLen; have : (hat payload.length s).srv.sseq = (hat payload.length s).cl.seqno := hs; omega)
  simp only [itemsData, h0, List.flatten_nil, List.append_nil] at hdata
  have hd' : DoneInv payload (hat payload.length (send E (clr s) d true).1) := by rw [hhat]; exact hd
  refine ⟨_, hr, ⟨hd'.phase, hd'.buf, hd'.last, hd'.srvSize, hd'.queue, hd'.done⟩, by rw [hhat]; exact hk, ?_, hdata⟩
  have : (hat payload.length (send E (clr s) d true).1).cl.lastBytesSent = d.length := by rw [hhat]; exact hlb
  exact this

theorem take_prefix {α : Type} (l : List α) (m : Nat) : l.take m ++ l.drop (l.take m).length = l := by
  by_cases h : m ≤ l.length
  · rw [List.length_take, Nat.min_eq_left h, List.take_append_drop]
  · have h1 : l.take m = l := List.take_of_length_le (by omega)
    rw [h1]; simp

/-- between two raw `write` calls of an undisturbed transfer: the state with the kept bytes put back
    in front of what the caller still has satisfies the chunk invariant, client and server are in step -/
structure FeedInv (E : Env) (payload : Bytes) (s : Sys) (rem : Bytes) : Prop where
  inv : Inv payload (hat payload.length s) (chunkItems (s.cl.pend ++ rem))
  sync : s.srv.sseq = s.cl.seqno
  noloss : ∀ n, s.nreq ≤ n → E.lost n = false
  retx : s.cl.retransmitting = false
  crc : s.cl.crcSupported = true → s.cl.crc = crcHqx s.srv.buf 0
  plen : s.cl.pend.length < 7

/-- the write phase is complete: what `run_fresh` concludes, for the chunks `C` -/
def FeedDone (E : Env) (payload : Bytes) (s s' : Sys) (C : List Bytes) : Prop :=
  DoneInv payload s' ∧ (s'.cl.crcSupported = true → s'.cl.crc = crcHqx payload 0) ∧
  s'.cl.crcSupported = s.cl.crcSupported ∧ s'.srv.crc = s.srv.crc ∧ s'.srv.illegal = s.srv.illegal ∧
  reqFrames s' = (idealSegs E.blkOf C s.srv.k s.cl.seqno s.cl.blksize).reverse ++ reqFrames s ∧
  (∀ c, C.getLast? = some c → s'.cl.lastBytesSent = c.length)

/-- what one raw `write` call takes and makes of it -/
theorem offer_facts (s : Sys) (rem : Bytes) (k : Nat) (hk : 1 ≤ k) (hr : rem ≠ []) (hp : s.cl.pend.length < 7) :
    1 ≤ ((rem.take k).take (7 - s.cl.pend.length)).length ∧
    ((rem.take k).take (7 - s.cl.pend.length)).length ≤ 7 - s.cl.pend.length ∧
    ((rem.take k).take (7 - s.cl.pend.length)).length ≤ rem.length ∧
    (rem.take k).take (7 - s.cl.pend.length) ++ rem.drop ((rem.take k).take (7 - s.cl.pend.length)).length = rem := by
  have hl : 1 ≤ rem.length := by cases rem <;> simp_all
  rw [List.take_take]
  refine ⟨by rw [List.length_take]; omega, by rw [List.length_take]; omega, by rw [List.length_take]; omega,
    take_prefix rem _⟩

/-- the size of the next offer -/
def offerLen (rem : Bytes) (offs : List Nat) : Nat :=
  match offs with
  | [] => rem.length
  | o :: _ => max o 1

theorem offerLen_pos (rem : Bytes) (offs : List Nat) (hr : rem ≠ []) : 1 ≤ offerLen rem offs := by
  cases offs with
  | nil => cases rem <;> simp_all [offerLen]
  | cons o os => simp [offerLen]; omega

/-- one turn of the caller's loop -/
theorem run_feed (E : Env) (f : Nat) (s : Sys) (rem : Bytes) (offs : List Nat) (hr : rem ≠ []) :
    run E (f + 1) s [Item.feed rem offs] =
      match writeStep E s (rem.take (offerLen rem offs)) false with
      | (s1, .err) => (s1, .err)
      | (s1, .cont items) =>
        run E f s1 (items ++ [Item.feed (rem.drop (takenLen s (rem.take (offerLen rem offs)))) offs.tail]) := by
  have hne : rem.isEmpty = false := by cases rem <;> simp_all
  cases offs <;> simp only [run, hne, offerLen, Bool.false_eq_true, if_false, List.tail_nil, List.tail_cons] <;>
    (generalize writeStep E s _ false = x; obtain ⟨s1, w⟩ := x; cases w <;> rfl)

/-- **Declared size, no loss, any offers**: the write phase sends the 7-byte chunks of what is left
    (kept bytes first), the last one with `end=True` -/
theorem feed_sized (E : Env) (hE : Plain E) (payload : Bytes) :
    ∀ (n : Nat) (s : Sys) (rem : Bytes) (offs : List Nat) (fuel : Nat), rem.length ≤ n → rem ≠ [] →
    FeedInv E payload s rem → s.cl.size = some payload.length → rem.length + 2 ≤ fuel →
    ∃ s', run E fuel s [Item.feed rem offs] = (s', .ok) ∧ FeedDone E payload s s' (chunks (s.cl.pend ++ rem)) := by
  intro n
  induction n with
  | zero =>
    intro s rem offs fuel hn hr
    exact absurd (List.length_eq_zero_iff.mp (by omega)) hr
  | succ n ih =>
    intro s rem offs fuel hn hr hfi hsz hf
    obtain ⟨f, rfl⟩ : ∃ f, fuel = f + 1 := ⟨fuel - 1, by omega⟩
    have hnd : s.cl.done = false := hfi.inv.notDone
    have hk1 := offerLen_pos rem offs hr
    rw [run_feed E f s rem offs hr]
    generalize offerLen rem offs = k at hk1 ⊢
    obtain ⟨t1, t2, t3, t4⟩ := offer_facts s rem k hk1 hr hfi.plen
    have hpos : s.cl.pos + (s.cl.pend.length + rem.length) = payload.length := by
      have := hfi.inv.pos
      rw [itemsData_chunkItems, List.length_append] at this
      exact this
    have hq2 : s.cl.seqno + 1 ≤ 127 := by
      have h1 : (hat payload.length s).cl.seqno < (hat payload.length s).cl.blksize := hfi.inv.seqLt
      have h2 : (hat payload.length s).cl.blksize ≤ 127 := hfi.inv.blkLe
      have e1 : (hat payload.length s).cl.seqno = s.cl.seqno := rfl
      have e2 : (hat payload.length s).cl.blksize = s.cl.blksize := rfl
      omega
    rw [writeStep_feed E s _ false hnd]
    simp only [takenLen]
    generalize htk : (rem.take k).take (7 - s.cl.pend.length) = tk at t1 t2 t3 t4
    simp only [hsz, Option.isSome_some, Option.getD_some, true_and, List.length_append]
    have hrl : 1 ≤ rem.length := by cases rem <;> simp_all
    by_cases hall : tk.length = rem.length
    · -- everything is taken and the declared size is reached: the last segment
      have htk' : tk = rem := by
        have := t4
        rw [hall, List.drop_length, List.append_nil] at this
        exact this
      subst htk'
      rw [if_pos (by omega)]
      have hd7 : (s.cl.pend ++ tk).length ≤ 7 := by rw [List.length_append]; omega
      have hdne : s.cl.pend ++ tk ≠ [] := by
        intro h; have := congrArg List.length h
        simp only [List.length_append, List.length_nil] at this; omega
      have hinv : Inv payload (hat payload.length s) [Item.write (s.cl.pend ++ tk) false] := by
        have := hfi.inv
        rw [chunkItems, chunks_single _ hdne hd7] at this
        exact this
      obtain ⟨s1, he, hd, hk, hlb, hdata⟩ := feed_last E hE payload s _ hinv hfi.sync (hfi.noloss _ (Nat.le_refl _))
      rw [he]
      simp only [List.nil_append, List.drop_length]
      obtain ⟨f', rfl⟩ : ∃ f', f = f' + 2 := ⟨f - 2, by omega⟩
      have hc : s1.cl.crc = if s.cl.crcSupported && !s.cl.retransmitting then crcHqx (s.cl.pend ++ tk) s.cl.crc
          else s.cl.crc := hk.crc
      have hsup : s1.cl.crcSupported = s.cl.crcSupported := hk.crcSup
      have hrq : reqFrames s1 = segFrame (s.cl.seqno + 1) true (s.cl.pend ++ tk) :: reqFrames s := hk.reqs
      refine ⟨s1, by simp [run], hd, ?_, hsup, hk.srvCrc, hk.ill, ?_, ?_⟩
      · intro h1
        rw [hsup] at h1
        rw [hc, h1, hfi.retx, hfi.crc h1, ← hdata]
        simp [crcHqx_append]
      · rw [chunks_single _ hdne hd7]
        simp [idealSegs, hrq, segFrame_ideal _ hq2]
      · intro c hcl
        rw [chunks_single _ hdne hd7] at hcl
        simp at hcl
        rw [← hcl]; exact hlb
    · have hlt : tk.length < rem.length := by omega
      have hr' : rem.drop tk.length ≠ [] := by
        intro h; have := congrArg List.length h; simp at this; omega
      rw [if_neg (by omega)]
      by_cases hshort : s.cl.pend.length + tk.length < 7
      · -- kept back
        rw [if_pos hshort]
        simp only [List.nil_append]
        have hfi' : FeedInv E payload
            { s with cl := { s.cl with size := some payload.length, pend := s.cl.pend ++ tk } } (rem.drop tk.length) := by
          refine ⟨?_, hfi.sync, hfi.noloss, hfi.retx, hfi.crc, by simp; omega⟩
          have := hfi.inv
          have e : (s.cl.pend ++ tk) ++ rem.drop tk.length = s.cl.pend ++ rem := by
            rw [List.append_assoc, t4]
          show Inv payload (hat payload.length s) (chunkItems ((s.cl.pend ++ tk) ++ rem.drop tk.length))
          rw [e]; exact this
        obtain ⟨s', hrun, hdone⟩ := ih _ (rem.drop tk.length) offs.tail f (by simp; omega) hr' hfi' rfl (by simp; omega)
        refine ⟨s', hrun, ?_⟩
        have e : (s.cl.pend ++ tk) ++ rem.drop tk.length = s.cl.pend ++ rem := by
          rw [List.append_assoc, t4]
        simp only [e] at hdone
        exact hdone
      · -- a full segment, more to come
        rw [if_neg hshort]
        have hd7 : (s.cl.pend ++ tk).length = 7 := by rw [List.length_append]; omega
        have hsplit : s.cl.pend ++ rem = (s.cl.pend ++ tk) ++ rem.drop tk.length := by
          rw [List.append_assoc, t4]
        have hch : chunks (s.cl.pend ++ rem) = (s.cl.pend ++ tk) :: chunks (rem.drop tk.length) := by
          have hne' : s.cl.pend ++ rem ≠ [] := by
            intro h; have := congrArg List.length h
            simp only [List.length_append, List.length_nil] at this; omega
          rw [chunks_cons _ hne', hsplit, List.take_left' hd7, List.drop_left' hd7]
        have hcne := chunks_ne_nil _ hr'
        have hinv : Inv payload (hat payload.length s)
            (((s.cl.pend ++ tk) :: chunks (rem.drop tk.length)).map fun b => Item.write b false) := by
          have := hfi.inv
          rw [chunkItems, hch] at this
          exact this
        obtain ⟨s1, he, hp1, hz1, hinv1, hs1, hk, hrt1, hnext, hbuf⟩ :=
          feed_nonlast E hE payload s _ _ hcne hinv hfi.sync (hfi.noloss _ (Nat.le_refl _))
        rw [he]
        simp only [List.nil_append]
        have hnreq : s1.nreq = s.nreq + 1 := hk.nreq
        have hc : s1.cl.crc = if s.cl.crcSupported && !s.cl.retransmitting then crcHqx (s.cl.pend ++ tk) s.cl.crc
            else s.cl.crc := hk.crc
        have hsup : s1.cl.crcSupported = s.cl.crcSupported := hk.crcSup
        have hrq : reqFrames s1 = segFrame (s.cl.seqno + 1) false (s.cl.pend ++ tk) :: reqFrames s := hk.reqs
        have hfi1 : FeedInv E payload s1 (rem.drop tk.length) := by
          refine ⟨by rw [hp1, List.nil_append]; exact hinv1, hs1, fun m hm => hfi.noloss m (by omega), by rw [hrt1, hfi.retx],
            ?_, by rw [hp1]; simp⟩
          intro h1
          rw [hsup] at h1
          rw [hc, h1, hfi.retx, hfi.crc h1, hbuf]
          simp [crcHqx_append]
        obtain ⟨s', hrun, hd, hcrc, hsup', hsc, hill, hreq, hlast⟩ :=
          ih s1 (rem.drop tk.length) offs.tail f (by simp; omega) hr' hfi1 (by rw [hz1, hsz]) (by simp; omega)
        rw [hp1, List.nil_append] at hreq hlast
        refine ⟨s', hrun, hd, hcrc, by rw [hsup', hsup], by rw [hsc]; exact hk.srvCrc, by rw [hill]; exact hk.ill, ?_, ?_⟩
        · rw [hreq, hrq, hch]
          obtain ⟨c', cs, hcs⟩ : ∃ c' cs, chunks (rem.drop tk.length) = c' :: cs := by
            cases hx : chunks (rem.drop tk.length) with
            | nil => exact absurd hx hcne
            | cons c' cs => exact ⟨c', cs, rfl⟩
          have e1 : s1.srv.k = (if s.cl.seqno + 1 = s.cl.blksize then (s.srv.k + 1, 0, E.blkOf s.srv.k)
              else (s.srv.k, s.cl.seqno + 1, s.cl.blksize)).1 := by rw [← hnext]
          have e2 : s1.cl.seqno = (if s.cl.seqno + 1 = s.cl.blksize then (s.srv.k + 1, 0, E.blkOf s.srv.k)
              else (s.srv.k, s.cl.seqno + 1, s.cl.blksize)).2.1 := by rw [← hnext]
          have e3 : s1.cl.blksize = (if s.cl.seqno + 1 = s.cl.blksize then (s.srv.k + 1, 0, E.blkOf s.srv.k)
              else (s.srv.k, s.cl.seqno + 1, s.cl.blksize)).2.2 := by rw [← hnext]
          rw [e1, e2, e3, hcs]
          simp only [idealSegs, segFrame_ideal _ hq2, Bool.false_eq_true, if_false]
          split <;> simp
        · intro x hx
          rw [hch] at hx
          exact hlast x (by
            cases hxx : chunks (rem.drop tk.length) with
            | nil => exact absurd hxx hcne
            | cons c' cs => rw [hxx] at hx; simpa using hx)

/-- **Size not declared, no loss, any offers**: the write phase sends all full 7-byte chunks and
    keeps the rest (the length is not a multiple of 7) for `close()` -/
theorem feed_unsized (E : Env) (hE : Plain E) (payload : Bytes) :
    ∀ (n : Nat) (s : Sys) (rem : Bytes) (offs : List Nat) (fuel : Nat), rem.length ≤ n →
    FeedInv E payload s rem → s.cl.size = none → (s.cl.pend.length + rem.length) % 7 ≠ 0 → rem.length + 2 ≤ fuel →
    ∃ s', run E fuel s [Item.feed rem offs] = (s', .ok) ∧ FeedInv E payload s' [] ∧ s'.cl.size = none ∧
      s'.cl.pend ≠ [] ∧ s'.cl.crcSupported = s.cl.crcSupported ∧ s'.srv.crc = s.srv.crc ∧
      s'.srv.illegal = s.srv.illegal := by
  intro n
  induction n with
  | zero =>
    intro s rem offs fuel hn hfi hz hm hf
    have hr : rem = [] := List.length_eq_zero_iff.mp (by omega)
    subst hr
    obtain ⟨f, rfl⟩ : ∃ f, fuel = f + 2 := ⟨fuel - 2, by omega⟩
    refine ⟨s, by simp [run], hfi, hz, ?_, rfl, rfl, rfl⟩
    intro h; rw [h] at hm; simp at hm
  | succ n ih =>
    intro s rem offs fuel hn hfi hz hm hf
    by_cases hr : rem = []
    · subst hr
      obtain ⟨f, rfl⟩ : ∃ f, fuel = f + 2 := ⟨fuel - 2, by omega⟩
      refine ⟨s, by simp [run], hfi, hz, ?_, rfl, rfl, rfl⟩
      intro h; rw [h] at hm; simp at hm
    · obtain ⟨f, rfl⟩ : ∃ f, fuel = f + 1 := ⟨fuel - 1, by omega⟩
      have hnd : s.cl.done = false := hfi.inv.notDone
      have hk1 := offerLen_pos rem offs hr
      rw [run_feed E f s rem offs hr]
      generalize offerLen rem offs = k at hk1 ⊢
      obtain ⟨t1, t2, t3, t4⟩ := offer_facts s rem k hk1 hr hfi.plen
      rw [writeStep_feed E s _ false hnd]
      simp only [takenLen]
      generalize htk : (rem.take k).take (7 - s.cl.pend.length) = tk at t1 t2 t3 t4
      simp only [hz, Option.isSome_none, Bool.false_eq_true, false_and, if_false, List.length_append]
      have hsplit : s.cl.pend ++ rem = (s.cl.pend ++ tk) ++ rem.drop tk.length := by
        rw [List.append_assoc, t4]
      have hlen : rem.length = tk.length + (rem.drop tk.length).length := by
        have := congrArg List.length t4
        simp only [List.length_append] at this
        omega
      by_cases hshort : s.cl.pend.length + tk.length < 7
      · rw [if_pos hshort]
        simp only [List.nil_append]
        have hfi' : FeedInv E payload
            { s with cl := { s.cl with size := none, pend := s.cl.pend ++ tk } } (rem.drop tk.length) := by
          refine ⟨?_, hfi.sync, hfi.noloss, hfi.retx, hfi.crc, by simp; omega⟩
          have := hfi.inv
          show Inv payload (hat payload.length s) (chunkItems ((s.cl.pend ++ tk) ++ rem.drop tk.length))
          rw [← hsplit]; exact this
        obtain ⟨s', hrun, h1, h2, h3, h4, h5, h6⟩ := ih _ (rem.drop tk.length) offs.tail f (by omega) hfi' rfl
          (by simp only [List.length_append]; omega) (by omega)
        exact ⟨s', hrun, h1, h2, h3, h4, h5, h6⟩
      · rw [if_neg hshort]
        have hd7 : (s.cl.pend ++ tk).length = 7 := by rw [List.length_append]; omega
        have hr' : rem.drop tk.length ≠ [] := by
          intro h
          rw [h] at hlen
          simp only [List.length_nil, Nat.add_zero] at hlen
          rw [hlen] at hm
          have : s.cl.pend.length + tk.length = 7 := by omega
          rw [this] at hm; simp at hm
        have hch : chunks (s.cl.pend ++ rem) = (s.cl.pend ++ tk) :: chunks (rem.drop tk.length) := by
          have hne' : s.cl.pend ++ rem ≠ [] := by
            intro h; have := congrArg List.length h
            simp only [List.length_append, List.length_nil] at this; omega
          rw [chunks_cons _ hne', hsplit, List.take_left' hd7, List.drop_left' hd7]
        have hcne := chunks_ne_nil _ hr'
        have hinv : Inv payload (hat payload.length s)
            (((s.cl.pend ++ tk) :: chunks (rem.drop tk.length)).map fun b => Item.write b false) := by
          have := hfi.inv
          rw [chunkItems, hch] at this
          exact this
        obtain ⟨s1, he, hp1, hz1, hinv1, hs1, hk, hrt1, -, hbuf⟩ :=
          feed_nonlast E hE payload s _ _ hcne hinv hfi.sync (hfi.noloss _ (Nat.le_refl _))
        rw [he]
        simp only [List.nil_append]
        have hnreq : s1.nreq = s.nreq + 1 := hk.nreq
        have hc : s1.cl.crc = if s.cl.crcSupported && !s.cl.retransmitting then crcHqx (s.cl.pend ++ tk) s.cl.crc
            else s.cl.crc := hk.crc
        have hsup : s1.cl.crcSupported = s.cl.crcSupported := hk.crcSup
        have hfi1 : FeedInv E payload s1 (rem.drop tk.length) := by
          refine ⟨by rw [hp1, List.nil_append]; exact hinv1, hs1, fun m hm => hfi.noloss m (by omega), by rw [hrt1, hfi.retx],
            ?_, by rw [hp1]; simp⟩
          intro h1
          rw [hsup] at h1
          rw [hc, h1, hfi.retx, hfi.crc h1, hbuf]
          simp [crcHqx_append]
        obtain ⟨s', hrun, h1, h2, h3, h4, h5, h6⟩ :=
          ih s1 (rem.drop tk.length) offs.tail f (by omega) hfi1 (by rw [hz1, hz])
            (by rw [hp1]; simp only [List.length_nil, Nat.zero_add]; omega) (by omega)
        exact ⟨s', hrun, h1, h2, h3, by rw [h4, hsup], by rw [h5]; exact hk.srvCrc, by rw [h6]; exact hk.ill⟩

/-- `close()` with the last partial segment still kept back (size not declared), no loss: the
    segment goes out with `end=True`, the end request follows, the server commits the payload -/
theorem close_unsized (E : Env) (hE : Plain E) (payload : Bytes) (s : Sys) (hfi : FeedInv E payload s [])
    (hp : s.cl.pend ≠ []) (hcrc : s.srv.crc = true → s.cl.crcSupported = true) :
    (close E s).2 = .ok ∧ (close E s).1.srv.committed = some payload ∧ (close E s).1.srv.illegal = s.srv.illegal := by
  have hnd : s.cl.done = false := hfi.inv.notDone
  have hdne : s.cl.pend ≠ [] := hp
  have hd7 : s.cl.pend.length ≤ 7 := by have := hfi.plen; omega
  have hinv : Inv payload (hat payload.length s) [Item.write s.cl.pend false] := by
    have := hfi.inv
    rw [List.append_nil, chunkItems, chunks_single _ hdne hd7] at this
    exact this
  obtain ⟨s1, he, hd, hk, hlb, hdata⟩ := feed_last E hE payload s _ hinv hfi.sync (hfi.noloss _ (Nat.le_refl _))
  have hc : s1.cl.crc = if s.cl.crcSupported && !s.cl.retransmitting then crcHqx s.cl.pend s.cl.crc
      else s.cl.crc := hk.crc
  have hsup : s1.cl.crcSupported = s.cl.crcSupported := hk.crcSup
  have hsc : s1.srv.crc = s.srv.crc := hk.srvCrc
  have hill : s1.srv.illegal = s.srv.illegal := hk.ill
  have hnreq : s1.nreq = s.nreq + 1 := hk.nreq
  have hcl := close_ok E hE payload s1 hd (hfi.noloss _ (by omega)) (by rw [hsc, hsup]; exact hcrc) (by
    intro h1
    rw [hsup] at h1
    rw [hc, h1, hfi.retx, hfi.crc h1, ← hdata]
    simp [crcHqx_append])
  rw [close_done E s1 hd.done] at hcl
  have hclose : close E s = closeEnd E s1 := by
    unfold close
    rw [if_pos ⟨hnd, hp⟩]
    show (match send E (clr s) s.cl.pend true with
      | (s1, .err) => (s1, Res.err)
      | (s1, .cont items) =>
        match run E (items.length + 1) s1 items with
        | (s2, .ok) => closeEnd E s2
        | (s2, r) => (s2, r)) = _
    rw [he]
    simp [run]
  rw [hclose]
  exact ⟨hcl.1, hcl.2.1, by rw [hcl.2.2.1, hill]⟩

/-! ### `__init__` -/

theorem fail_cl (s : Sys) (e : Canopen.Sdo.CErr) : (fail s e).cl = s.cl := rfl

theorem requestResponse_cl (E : Env) (s : Sys) (req : Bytes) : (requestResponse E s req).1.cl = s.cl := by
  simp only [requestResponse, MAX_RETRIES, rrLoop]
  have h1 := readResponse_cl E (sendReq E { s with queue := [] } req)
  rw [sendReq_cl] at h1
  generalize readResponse E (sendReq E { s with queue := [] } req) = x at h1 ⊢
  obtain ⟨s1, r⟩ := x
  cases r with
  | resp f => exact h1
  | timeout => simp only [if_true, fail_cl, abort_cl]; exact h1
  | aborted c => exact h1

/-- a stream that `__init__` has set up keeps nothing back and has an empty current block -/
theorem init_clean (E : Env) (s0 s : Sys) (idx sub : Nat) (size : Option Nat) (crcReq : Bool)
    (h : init E s0 idx sub size crcReq = (s, true)) : J s [] := by
  unfold init at h
  simp only at h
  have hc := requestResponse_cl E { s0 with cl := { size := size } }
    ([REQUEST_BLOCK_DOWNLOAD ||| INITIATE_BLOCK_TRANSFER ||| (if crcReq then CRC_SUPPORTED else 0)
      ||| (if size.isSome then BLOCK_SIZE_SPECIFIED else 0), idx % 256, idx / 256, sub] ++ leBytes 4 (size.getD 0))
  generalize requestResponse E _ _ = x at h hc
  obtain ⟨s1, r⟩ := x
  simp only at hc
  cases r with
  | resp f =>
    simp only at h
    split at h
    · simp at h
    · split at h
      · simp at h
      · have := (Prod.mk.inj h).1
        subst this
        exact ⟨by simp [hc], Or.inr ⟨by simp [hc], by simp⟩, by simp⟩
  | timeout => simp at h
  | aborted c => simp at h

theorem init_deliv_none (E : Env) (hE : Plain E) (cap crcReq : Bool) (idx sub : Nat) (hl : E.lost 0 = false) :
    ∃ log, init E (sys0 cap) idx sub none crcReq =
      ({ cl := { size := none, blksize := E.blkOf 0, crcSupported := cap },
         srv := { crcCapable := cap, k := 1, phase := .recv, illegal := none, idx := idx, sub := sub,
                  size := none, crc := crcReq && cap, blk := E.blkOf 0, sseq := 0, buf := [] },
         queue := [], nreq := 1, log := log }, true) := by
  have hmux : idx % 256 + 256 * (idx / 256) = idx := by omega
  cases crcReq <;> cases cap <;>
    simp [init, requestResponse, rrLoop, MAX_RETRIES, sendReq, hl, hE.dist, sys0, readResponse, classify,
      Spec.BlockDown.step, Spec.BlockDown.idleStep, REQUEST_BLOCK_DOWNLOAD, INITIATE_BLOCK_TRANSFER,
      CRC_SUPPORTED, BLOCK_SIZE_SPECIFIED, RESPONSE_ABORTED, RESPONSE_BLOCK_DOWNLOAD, hmux,
      Spec.BlockDown.flagIf, leBytes]

end Canopen.C12
