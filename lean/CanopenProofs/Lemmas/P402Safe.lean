/- C19: the safety closures (`never_illegal`), one per transport × automatic-transition-12 × target - each line is one closure computed and checked inside the kernel. -/
import CanopenProofs.Lemmas.P402Graph

namespace Canopen.P402

theorem safe_ff1 : chkSafe false false 1 = true := by decide +kernel
theorem safe_ft1 : chkSafe false true 1 = true := by decide +kernel
theorem safe_tf1 : chkSafe true false 1 = true := by decide +kernel
theorem safe_tt1 : chkSafe true true 1 = true := by decide +kernel
theorem safe_ff2 : chkSafe false false 2 = true := by decide +kernel
theorem safe_ft2 : chkSafe false true 2 = true := by decide +kernel
theorem safe_tf2 : chkSafe true false 2 = true := by decide +kernel
theorem safe_tt2 : chkSafe true true 2 = true := by decide +kernel
theorem safe_ff3 : chkSafe false false 3 = true := by decide +kernel
theorem safe_ft3 : chkSafe false true 3 = true := by decide +kernel
theorem safe_tf3 : chkSafe true false 3 = true := by decide +kernel
theorem safe_tt3 : chkSafe true true 3 = true := by decide +kernel
theorem safe_ff4 : chkSafe false false 4 = true := by decide +kernel
theorem safe_ft4 : chkSafe false true 4 = true := by decide +kernel
theorem safe_tf4 : chkSafe true false 4 = true := by decide +kernel
theorem safe_tt4 : chkSafe true true 4 = true := by decide +kernel
theorem safe_ff7 : chkSafe false false 7 = true := by decide +kernel
theorem safe_ft7 : chkSafe false true 7 = true := by decide +kernel
theorem safe_tf7 : chkSafe true false 7 = true := by decide +kernel
theorem safe_tt7 : chkSafe true true 7 = true := by decide +kernel


end Canopen.P402
