/-
Helper lemmas about the text primitives of the EDS models (CanopenModel/Eds/Text.lean): digits,
`int(s, 0)` on spelled numbers, stripping, case mapping, `$NODEID` removal, `bytes.fromhex`.
Property theorems live in CanopenProofs/C08.lean and C14.lean, never here.
-/
import CanopenModel.Eds.Text

namespace Canopen.Eds

/-! ### digit characters -/

theorem digitVal_digitChar16 : ∀ d : Fin 16, ∀ up : Bool, digitVal (digitChar up d.val) = some d.val := by
  decide

theorem digitVal_digitChar (up : Bool) (d : Nat) (h : d < 16) : digitVal (digitChar up d) = some d :=
  digitVal_digitChar16 ⟨d, h⟩ up

theorem digitChar_props16 : ∀ d : Fin 16, ∀ up : Bool,
    digitChar up d.val ≠ '_' ∧ isSpace (digitChar up d.val) = false ∧ digitChar up d.val ≠ '$' ∧
    digitChar up d.val ≠ '+' ∧ digitChar up d.val ≠ '-' ∧ isHexDigit (digitChar up d.val) = true ∧
    Char.toUpper (digitChar up d.val) = digitChar true d.val ∧ digitChar up d.val ≠ 'u' ∧
    digitChar up d.val ≠ 'N' ∧ digitChar up d.val ≠ 's' ∧ digitChar up d.val ≠ 'S' ∧
    digitChar up d.val ≠ '|' ∧ digitChar up d.val ≠ ' ' := by
  decide

theorem digitChar_ne_us (up : Bool) (d : Nat) (h : d < 16) : digitChar up d ≠ '_' :=
  (digitChar_props16 ⟨d, h⟩ up).1

theorem digitChar_notSpace (up : Bool) (d : Nat) (h : d < 16) : isSpace (digitChar up d) = false :=
  (digitChar_props16 ⟨d, h⟩ up).2.1

theorem digitChar_isHex (up : Bool) (d : Nat) (h : d < 16) : isHexDigit (digitChar up d) = true :=
  (digitChar_props16 ⟨d, h⟩ up).2.2.2.2.2.1

theorem digitChar_toUpper (up : Bool) (d : Nat) (h : d < 16) :
    Char.toUpper (digitChar up d) = digitChar true d :=
  (digitChar_props16 ⟨d, h⟩ up).2.2.2.2.2.2.1

theorem digitChar_dec16 : ∀ d : Fin 10, ∀ up : Bool, digitChar up d.val = digitChar false d.val := by
  decide

theorem digitChar_dec (up : Bool) (d : Nat) (h : d < 10) : digitChar up d = digitChar false d :=
  digitChar_dec16 ⟨d, h⟩ up

theorem digitChar_zero_iff16 : ∀ d : Fin 16, ∀ up : Bool, digitChar up d.val = '0' → d.val = 0 := by
  decide

theorem digitChar_zero (up : Bool) : digitChar up 0 = '0' := by cases up <;> rfl

/-! ### digits of a number -/

def digitsVal (b : Nat) (acc : Nat) (ds : List Nat) : Nat := ds.foldl (fun a d => a * b + d) acc

theorem digitsVal_append (b acc : Nat) (xs ys : List Nat) :
    digitsVal b acc (xs ++ ys) = digitsVal b (digitsVal b acc xs) ys := by
  simp [digitsVal, List.foldl_append]

theorem natDigitsF_lt (b : Nat) (hb : 2 ≤ b) : ∀ fuel n, n < fuel → ∀ d ∈ natDigitsF b fuel n, d < b := by
  intro fuel
  induction fuel with
  | zero => intro n h; omega
  | succ fuel ih =>
    intro n h d hd
    simp only [natDigitsF] at hd
    split at hd
    · simp at hd; omega
    · rcases List.mem_append.mp hd with h1 | h1
      · have : n / b < fuel := by
          have : n / b < n := Nat.div_lt_self (by omega) (by omega)
          omega
        exact ih _ this d h1
      · simp at h1; subst h1; exact Nat.mod_lt _ (by omega)

theorem digitsVal_natDigitsF (b : Nat) (hb : 2 ≤ b) :
    ∀ fuel n, n < fuel → digitsVal b 0 (natDigitsF b fuel n) = n := by
  intro fuel
  induction fuel with
  | zero => intro n h; omega
  | succ fuel ih =>
    intro n h
    simp only [natDigitsF]
    split
    · simp [digitsVal]
    · have hlt : n / b < fuel := by
        have : n / b < n := Nat.div_lt_self (by omega) (by omega)
        omega
      rw [digitsVal_append, ih _ hlt]
      simp only [digitsVal, List.foldl_cons, List.foldl_nil]
      exact Nat.div_add_mod' n b

theorem natDigitsF_head (b : Nat) (hb : 2 ≤ b) :
    ∀ fuel n, n < fuel → n ≠ 0 → ∃ d r, natDigitsF b fuel n = d :: r ∧ d ≠ 0 := by
  intro fuel
  induction fuel with
  | zero => intro n h; omega
  | succ fuel ih =>
    intro n h h0
    simp only [natDigitsF]
    split
    · exact ⟨n, [], rfl, h0⟩
    · have hlt : n / b < fuel := by
        have : n / b < n := Nat.div_lt_self (by omega) (by omega)
        omega
      have hne : n / b ≠ 0 := by
        have : b ≤ n := by omega
        exact Nat.ne_of_gt (Nat.div_pos this (by omega))
      obtain ⟨d, r, hr, hd⟩ := ih _ hlt hne
      exact ⟨d, r ++ [n % b], by rw [hr]; rfl, hd⟩

theorem natDigitsF_ne_nil (b fuel n : Nat) (h : n < fuel) : natDigitsF b fuel n ≠ [] := by
  cases fuel with
  | zero => omega
  | succ fuel =>
    simp only [natDigitsF]
    split <;> simp

theorem natDigits_lt (b : Nat) (hb : 2 ≤ b) (n : Nat) : ∀ d ∈ natDigits b n, d < b :=
  natDigitsF_lt b hb _ _ (Nat.lt_succ_self n)

theorem digitsVal_natDigits (b : Nat) (hb : 2 ≤ b) (n : Nat) : digitsVal b 0 (natDigits b n) = n :=
  digitsVal_natDigitsF b hb _ _ (Nat.lt_succ_self n)

theorem natDigits_ne_nil (b n : Nat) : natDigits b n ≠ [] := natDigitsF_ne_nil b _ _ (Nat.lt_succ_self n)

theorem natDigits_head (b : Nat) (hb : 2 ≤ b) (n : Nat) (h : n ≠ 0) :
    ∃ d r, natDigits b n = d :: r ∧ d ≠ 0 := natDigitsF_head b hb _ _ (Nat.lt_succ_self n) h

theorem natDigits_zero (b : Nat) (hb : 2 ≤ b) : natDigits b 0 = [0] := by
  simp [natDigits, natDigitsF]

theorem digitsVal_zeros (b k : Nat) : digitsVal b 0 (List.replicate k 0) = 0 := by
  induction k with
  | zero => rfl
  | succ k ih => simp [digitsVal, List.replicate_succ] at ih ⊢; exact ih

/-! ### scanning digit strings -/

theorem scanDigits_digits (b : Nat) (hb : b ≤ 16) (up : Bool) :
    ∀ (ds : List Nat) (acc : Nat), (∀ d ∈ ds, d < b) →
      scanDigits b acc false (ds.map (digitChar up)) = some (digitsVal b acc ds) := by
  intro ds
  induction ds with
  | nil => intro acc _; simp [scanDigits, digitsVal]
  | cons d r ih =>
    intro acc h
    have hd : d < b := h d (by simp)
    have hd16 : d < 16 := by omega
    simp only [List.map_cons, scanDigits, digitChar_ne_us up d hd16, if_false,
      digitVal_digitChar up d hd16, hd, if_true]
    rw [ih _ (fun x hx => h x (by simp [hx]))]
    simp [digitsVal]

theorem parseBody_digits (b : Nat) (hb : b ≤ 16) (up : Bool) (ds : List Nat) (hne : ds ≠ [])
    (h : ∀ d ∈ ds, d < b) : parseBody b (ds.map (digitChar up)) = some (digitsVal b 0 ds) := by
  cases ds with
  | nil => exact absurd rfl hne
  | cons d r =>
    have hd16 : d < 16 := by have := h d (by simp); omega
    simp only [List.map_cons, parseBody, digitChar_ne_us up d hd16, if_false]
    exact scanDigits_digits b hb up (d :: r) 0 h

/-- a (possibly zero-padded) number in base `b`, as digit characters -/
def paddedDigits (b : Nat) (up : Bool) (k n : Nat) : Str :=
  (List.replicate k 0 ++ natDigits b n).map (digitChar up)

theorem zpad_natStr (b : Nat) (up : Bool) (w n : Nat) :
    zpad w (natStr b up n) = paddedDigits b up (w - (natStr b up n).length) n := by
  simp [zpad, natStr, paddedDigits, List.map_append, List.map_replicate, digitChar_zero]

theorem parseBody_padded (b : Nat) (hb2 : 2 ≤ b) (hb : b ≤ 16) (up : Bool) (k n : Nat) :
    parseBody b (paddedDigits b up k n) = some n := by
  unfold paddedDigits
  rw [parseBody_digits b hb up _ (by simp [natDigits_ne_nil])]
  · rw [digitsVal_append, digitsVal_zeros, digitsVal_natDigits b hb2]
  · intro d hd
    rcases List.mem_append.mp hd with h | h
    · have := List.eq_of_mem_replicate h; omega
    · exact natDigits_lt b hb2 n d h

theorem paddedDigits_cons (b : Nat) (hb2 : 2 ≤ b) (hb : b ≤ 16) (up : Bool) (k n : Nat) :
    ∃ c r, paddedDigits b up k n = c :: r ∧ c ≠ '_' := by
  unfold paddedDigits
  cases k with
  | zero =>
    have hne := natDigits_ne_nil b n
    have hlt := natDigits_lt b hb2 n
    cases hds : natDigits b n with
    | nil => exact absurd hds hne
    | cons d r =>
      refine ⟨digitChar up d, r.map (digitChar up), by simp, ?_⟩
      have : d < b := hlt d (by simp [hds])
      exact digitChar_ne_us up d (by omega)
  | succ k =>
    exact ⟨digitChar up 0, (List.replicate k 0 ++ natDigits b n).map (digitChar up),
      by simp [List.replicate_succ], digitChar_ne_us up 0 (by omega)⟩

theorem dropUs_padded (b : Nat) (hb2 : 2 ≤ b) (hb : b ≤ 16) (up : Bool) (k n : Nat) :
    dropUs (paddedDigits b up k n) = paddedDigits b up k n := by
  obtain ⟨c, r, h, hc⟩ := paddedDigits_cons b hb2 hb up k n
  rw [h]; simp [dropUs, hc]

/-! ### `int(s, 0)` / `int(s)` of a decimal number -/

theorem natStr_eq_padded (b : Nat) (up : Bool) (n : Nat) : natStr b up n = paddedDigits b up 0 n := by
  simp [natStr, paddedDigits]

theorem unsignedBase0_dec (n : Nat) : unsignedBase0 (natStr 10 false n) = some n := by
  have hp := parseBody_padded 10 (by omega) (by omega) false 0 n
  rw [← natStr_eq_padded] at hp
  by_cases h0 : n = 0
  · subst h0; decide
  · obtain ⟨d, r, hr, hd⟩ := natDigits_head 10 (by omega) n h0
    have hlt : d < 10 := natDigits_lt 10 (by omega) n d (by simp [hr])
    have hc : digitChar false d ≠ '0' := fun h => hd (digitChar_zero_iff16 ⟨d, by omega⟩ false h)
    have hs : natStr 10 false n = digitChar false d :: r.map (digitChar false) := by
      simp [natStr, hr]
    rw [hs] at hp ⊢
    cases hr2 : r.map (digitChar false) with
    | nil => rw [hr2] at hp; simpa [unsignedBase0] using hp
    | cons c1 r1 => rw [hr2] at hp; simpa [unsignedBase0, hc] using hp

theorem natStr_notSpace (b : Nat) (hb2 : 2 ≤ b) (hb : b ≤ 16) (up : Bool) (n : Nat) :
    ∀ c ∈ natStr b up n, isSpace c = false := by
  intro c hc
  simp only [natStr, List.mem_map] at hc
  obtain ⟨d, hd, rfl⟩ := hc
  exact digitChar_notSpace up d (by have := natDigits_lt b hb2 n d hd; omega)

/-! ### stripping -/

theorem dropWhile_of_all_false {α : Type} (p : α → Bool) (l : List α) (h : ∀ x ∈ l, p x = false) :
    l.dropWhile p = l := by
  cases l with
  | nil => rfl
  | cons a r => simp [List.dropWhile, h a (by simp)]

theorem strip_of_noSpace (s : Str) (h : ∀ c ∈ s, isSpace c = false) : strip s = s := by
  unfold strip lstrip rstrip
  rw [dropWhile_of_all_false _ _ h, dropWhile_of_all_false _ _ (by simpa using h)]
  simp

theorem removeBlanks_of_noSpace (s : Str) (h : ∀ c ∈ s, isSpace c = false) : removeBlanks s = s := by
  unfold removeBlanks
  apply List.filter_eq_self.mpr
  intro c hc
  have := h c hc
  simp only [decide_eq_true_eq]
  intro hcs; subst hcs; simp [isSpace] at this

end Canopen.Eds
