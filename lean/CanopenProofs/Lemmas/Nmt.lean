/-
Helper lemmas for C11: the generated NMT tables against the independent CiA 301 machine
(`Spec/NmtMachine.lean`), closed forms of `NmtBase.send_command` / `on_command`, and what the two
networks do with the frames that occur in the model.
-/
import CanopenModel.Nmt
import CanopenModel.Spec.NmtMachine

namespace Canopen.Nmt
open Canopen Canopen.Gen.Nmt
open Canopen.Spec.Nmt

/-! ### association lists -/

theorem lookupNat_none {α : Type} (t : List (Nat × α)) (k : Nat) (h : ∀ p ∈ t, p.1 ≠ k) :
    lookupNat t k = none := by
  induction t with
  | nil => rfl
  | cons p r ih =>
    obtain ⟨a, b⟩ := p
    have h1 : a ≠ k := h (a, b) (by simp)
    have h2 : ∀ p ∈ r, p.1 ≠ k := fun p hp => h p (by simp [hp])
    simp only [lookupNat]
    rw [if_neg (fun e => h1 e.symm)]
    exact ih h2

theorem lookupName_none {α : Type} (t : List (List Char × α)) (k : List Char)
    (h : ∀ p ∈ t, p.1 ≠ k) : lookupName t k = none := by
  induction t with
  | nil => rfl
  | cons p r ih =>
    obtain ⟨a, b⟩ := p
    have h1 : a ≠ k := h (a, b) (by simp)
    have h2 : ∀ p ∈ r, p.1 ≠ k := fun p hp => h p (by simp [hp])
    simp only [lookupName]
    rw [if_neg (fun e => h1 e.symm)]
    exact ih h2

/-! ### the generated tables say what CiA 301 says (finite facts by kernel evaluation, lifted to
every `Nat` / every string by the two lemmas above) -/

theorem cmdTable_small : ∀ c : Fin 256,
    lookupNat COMMAND_TO_STATE c.val = (decodeCs c.val).map (fun cmd => cmd.dest.code) := by
  decide +kernel

theorem cmdTable_keys : ∀ p ∈ COMMAND_TO_STATE, p.1 < 256 := by decide
theorem spec_cs_small : ∀ c ∈ allCmds, c.cs < 256 := by decide

theorem decodeCs_none_of_ge (c : Nat) (h : 256 ≤ c) : decodeCs c = none := by
  unfold decodeCs
  rw [List.find?_eq_none]
  intro x hx
  have := spec_cs_small x hx
  simp; omega

/-- `COMMAND_TO_STATE` is the CiA 301 destination table, for every natural number -/
theorem cmdTable_spec (c : Nat) :
    lookupNat COMMAND_TO_STATE c = (decodeCs c).map (fun cmd => cmd.dest.code) := by
  by_cases h : c < 256
  · exact cmdTable_small ⟨c, h⟩
  · rw [decodeCs_none_of_ge c (by omega), lookupNat_none]
    · rfl
    · intro p hp; have := cmdTable_keys p hp; omega

/-- `NMT_STATES` names every CiA 301 state by its heartbeat code -/
theorem states_spec : ∀ T : St, lookupNat NMT_STATES T.code = some T.name := by
  intro T; cases T <;> decide

theorem states_small : ∀ v : Fin 128,
    lookupNat NMT_STATES v.val = (allStates.find? (fun s => s.code = v.val)).map St.name := by
  decide +kernel

theorem states_keys : ∀ p ∈ NMT_STATES, p.1 < 128 := by decide
theorem spec_codes_small : ∀ s ∈ allStates, s.code < 128 := by decide

/-- … and nothing else -/
theorem states_only_spec (v : Nat) :
    lookupNat NMT_STATES v = (allStates.find? (fun s => s.code = v)).map St.name := by
  by_cases h : v < 128
  · exact states_small ⟨v, h⟩
  · rw [lookupNat_none, List.find?_eq_none.mpr]
    · rfl
    · intro s hs; have := spec_codes_small s hs; simp; omega
    · intro p hp; have := states_keys p hp; omega

theorem names_keys : ∀ k ∈ NMT_COMMANDS.map (·.1) ++ nameTable.map (·.1),
    lookupName NMT_COMMANDS k = (cmdOfName k).map Cmd.cs := by
  decide +kernel

/-- `NMT_COMMANDS` accepts exactly the eight names of the specification, with the CiA 301 command
    specifier of the service each requests — for every string -/
theorem names_spec (n : List Char) : lookupName NMT_COMMANDS n = (cmdOfName n).map Cmd.cs := by
  by_cases hk : n ∈ NMT_COMMANDS.map (·.1) ++ nameTable.map (·.1)
  · exact names_keys n hk
  · rw [List.mem_append, not_or] at hk
    rw [lookupName_none]
    · unfold cmdOfName
      rw [List.find?_eq_none.mpr]
      · rfl
      · intro p hp
        simp only [decide_eq_true_eq]
        intro e
        exact hk.2 (List.mem_map.mpr ⟨p, hp, e⟩)
    · intro p hp e
      exact hk.1 (List.mem_map.mpr ⟨p, hp, e⟩)

theorem decodeCs_cs : ∀ cmd : Cmd, decodeCs cmd.cs = some cmd := by
  intro cmd; cases cmd <;> decide

theorem cs_lt : ∀ cmd : Cmd, cmd.cs < 256 := by
  intro cmd; cases cmd <;> decide

theorem code_lt : ∀ T : St, T.code < 128 := by
  intro T; cases T <;> decide

theorem stateView_code (T : St) : stateView T.code = .known T.name := by
  unfold stateView; rw [states_spec]

/-! ### closed forms of `NmtBase` -/

/-- the numeric state after a command specifier that addresses the node -/
def applyNum (st c : Nat) : Nat :=
  match decodeCs c with
  | some cmd => cmd.dest.code
  | none => st

theorem applyNum_code (T : St) (c : Nat) : applyNum T.code c = (apply T c).code := by
  unfold applyNum apply; cases decodeCs c <;> rfl

theorem applyNum_ge (st c : Nat) (h : 256 ≤ c) : applyNum st c = st := by
  unfold applyNum; rw [decodeCs_none_of_ge c h]

theorem apply_ge (T : St) (c : Nat) (h : 256 ≤ c) : apply T c = T := by
  unfold apply; rw [decodeCs_none_of_ge c h]

theorem apply_cs (T : St) (cmd : Cmd) : apply T cmd.cs = cmd.dest := by
  unfold apply; rw [decodeCs_cs]

/-- `NmtBase.send_command` never raises (every destination has a name) -/
theorem baseSendCommand_eq (st c : Nat) : baseSendCommand st c = some (applyNum st c) := by
  unfold baseSendCommand applyNum
  rw [cmdTable_spec]
  cases decodeCs c with
  | none => rfl
  | some cmd => simp [states_spec]

theorem baseAddressed_eq (st c : Nat) : baseAddressed st c = some (applyNum st c) := by
  unfold baseAddressed applyNum
  rw [cmdTable_spec]
  cases decodeCs c with
  | none => rfl
  | some cmd => simp [states_spec]

/-- numeric state after a well-formed node-control frame -/
def recvNum (id st cmd nid : Nat) : Nat := if nid = id ∨ nid = 0 then applyNum st cmd else st

theorem recvNum_code (own : Nat) (T : St) (cmd nid : Nat) :
    recvNum own T.code cmd nid = (recv own T cmd nid).code := by
  unfold recvNum recv; split <;> simp [applyNum_code]

theorem baseOnCommand_eq (id st cmd nid : Nat) (rest : Bytes) :
    baseOnCommand id st (cmd :: nid :: rest) = some (recvNum id st cmd nid) := by
  simp only [baseOnCommand, recvNum, baseAddressed_eq]
  split <;> rfl

theorem baseOnCommand_short (id st : Nat) (data : Bytes) (h : data.length < 2) :
    baseOnCommand id st data = none := by
  match data, h with
  | [], _ => rfl
  | [_], _ => rfl

end Canopen.Nmt
