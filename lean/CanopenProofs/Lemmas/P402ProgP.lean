/- C19: the progress closures and rankings (`reaches_target_partial`), PDO transport - each line is one closure computed and checked inside the kernel. -/
import CanopenProofs.Lemmas.P402Graph

namespace Canopen.P402

theorem prog_tf1 : chkProg true false 1 = true := by decide +kernel
theorem prog_tt1 : chkProg true true 1 = true := by decide +kernel
theorem prog_tf2 : chkProg true false 2 = true := by decide +kernel
theorem prog_tt2 : chkProg true true 2 = true := by decide +kernel
theorem prog_tf3 : chkProg true false 3 = true := by decide +kernel
theorem prog_tt3 : chkProg true true 3 = true := by decide +kernel
theorem prog_tf4 : chkProg true false 4 = true := by decide +kernel
theorem prog_tt4 : chkProg true true 4 = true := by decide +kernel
theorem prog_tf7 : chkProg true false 7 = true := by decide +kernel
theorem enter_tt7 : chkEnter true true 7 = true := by decide +kernel

end Canopen.P402
