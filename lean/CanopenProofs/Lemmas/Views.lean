/-
Helper lemmas for C20: bit-level characterisation of the Python-int operations of
`CanopenModel/Views.lean` (`tbit` of `pyAnd`, `pyOr`, `pyNot`, `pyShl`, `pyShr`), the mask and
minimum of a bit list, `range`, and rounding half to even.  Core Lean only.
-/
import CanopenModel.Views
import CanopenProofs.Lemmas.Bytes

namespace Canopen.Views

/-! ### bits of Python ints -/

@[simp] theorem tbit_natCast (n i : Nat) : tbit (n : Int) i = n.testBit i := rfl

@[simp] theorem tbit_ofNat (n i : Nat) : tbit (Int.ofNat n) i = n.testBit i := rfl

@[simp] theorem tbit_negSucc (n i : Nat) : tbit (Int.negSucc n) i = !n.testBit i := rfl

theorem testBit_natAndNot (a b i : Nat) :
    (natAndNot a b).testBit i = (a.testBit i && !b.testBit i) := by
  simp only [natAndNot, Nat.testBit_xor, Nat.testBit_and]
  cases a.testBit i <;> cases b.testBit i <;> rfl

theorem tbit_pyAnd (x y : Int) (i : Nat) : tbit (pyAnd x y) i = (tbit x i && tbit y i) := by
  cases x <;> cases y <;>
    simp only [pyAnd, tbit, Nat.testBit_and, Nat.testBit_or, testBit_natAndNot]
  · rw [Bool.and_comm]
  · cases Nat.testBit _ i <;> cases Nat.testBit _ i <;> rfl

theorem tbit_pyOr (x y : Int) (i : Nat) : tbit (pyOr x y) i = (tbit x i || tbit y i) := by
  cases x <;> cases y <;>
    simp only [pyOr, tbit, Nat.testBit_and, Nat.testBit_or, testBit_natAndNot]
  · rename_i a b; cases a.testBit i <;> cases b.testBit i <;> rfl
  · rename_i a b; cases a.testBit i <;> cases b.testBit i <;> rfl
  · rename_i a b; cases a.testBit i <;> cases b.testBit i <;> rfl

theorem tbit_pyNot (x : Int) (i : Nat) : tbit (pyNot x) i = !tbit x i := by
  cases x <;> simp [pyNot, tbit]

theorem tbit_pyShr (x : Int) (k i : Nat) : tbit (pyShr x k) i = tbit x (k + i) := by
  cases x <;> simp only [pyShr, tbit, Nat.testBit_shiftRight]

theorem tbit_pyShl_nat (v k i : Nat) :
    tbit (pyShl (v : Int) k) i = (decide (k ≤ i) && v.testBit (i - k)) := by
  have : pyShl (v : Int) k = ((v <<< k : Nat) : Int) := by
    simp [pyShl, Nat.shiftLeft_eq]
  rw [this, tbit_natCast, Nat.testBit_shiftLeft]

/-- a Python int is determined by its bits -/
theorem tbit_ext (x y : Int) (h : ∀ i, tbit x i = tbit y i) : x = y := by
  have big : ∀ a b : Nat, a.testBit (a + b) = false ∧ b.testBit (a + b) = false := by
    intro a b
    constructor
    · exact Nat.testBit_lt_two_pow (Nat.lt_of_lt_of_le Nat.lt_two_pow_self
        (Nat.pow_le_pow_right (by decide) (Nat.le_add_right a b)))
    · exact Nat.testBit_lt_two_pow (Nat.lt_of_lt_of_le Nat.lt_two_pow_self
        (Nat.pow_le_pow_right (by decide) (Nat.le_add_left b a)))
  cases x with
  | ofNat a =>
    cases y with
    | ofNat b =>
      have : a = b := Nat.eq_of_testBit_eq (fun i => by simpa [tbit] using h i)
      rw [this]
    | negSucc b =>
      have := h (a + b)
      simp [tbit, (big a b).1, (big a b).2] at this
  | negSucc a =>
    cases y with
    | ofNat b =>
      have := h (a + b)
      simp [tbit, (big a b).1, (big a b).2] at this
    | negSucc b =>
      have : a = b := Nat.eq_of_testBit_eq (fun i => by simpa [tbit] using h i)
      rw [this]

end Canopen.Views

namespace Canopen.Views

/-! ### mask and minimum of a bit list -/

theorem maskOf_some (bits : List Int) (h : ∀ b ∈ bits, 0 ≤ b) :
    ∃ m, maskOf bits = some m ∧ ∀ i : Nat, m.testBit i = decide ((i : Int) ∈ bits) := by
  induction bits with
  | nil => exact ⟨0, rfl, fun i => by simp⟩
  | cons b r ih =>
    obtain ⟨m, hm, hbit⟩ := ih (fun x hx => h x (List.mem_cons_of_mem _ hx))
    have hb : 0 ≤ b := h b (List.mem_cons_self ..)
    refine ⟨m ||| 2 ^ b.toNat, ?_, ?_⟩
    · simp [maskOf, Int.not_lt.mpr hb, hm]
    · intro i
      rw [Nat.testBit_or, hbit i, Nat.testBit_two_pow]
      have : (b.toNat = i) ↔ ((i : Int) = b) := by omega
      by_cases hi : (i : Int) = b
      · simp [hi, this.mpr hi]
      · have h' : ¬ b.toNat = i := fun e => hi (this.mp e)
        simp [hi, h']

theorem maskOf_none (bits : List Int) (h : ∃ b ∈ bits, b < 0) : maskOf bits = none := by
  induction bits with
  | nil => obtain ⟨b, hb, _⟩ := h; cases hb
  | cons b r ih =>
    by_cases hb : b < 0
    · simp [maskOf, hb]
    · obtain ⟨x, hx, hx0⟩ := h
      have hxr : x ∈ r := by
        rcases List.mem_cons.mp hx with rfl | hxr
        · exact absurd hx0 hb
        · exact hxr
      simp [maskOf, hb, ih ⟨x, hxr, hx0⟩]

/-- the bit list `lo, lo+1, …, hi-1` (what `range(lo, hi)`, `[lo, …, hi-1]` and a definition
    with these bits denote) -/
def contig (lo hi : Nat) : List Int := (List.range (hi - lo)).map fun (k : Nat) => (lo : Int) + (k : Int)

theorem mem_contig (lo hi : Nat) (x : Int) : x ∈ contig lo hi ↔ (lo : Int) ≤ x ∧ x < (hi : Int) := by
  simp only [contig, List.mem_map, List.mem_range]
  constructor
  · rintro ⟨k, hk, rfl⟩; omega
  · rintro ⟨h1, h2⟩
    exact ⟨(x - lo).toNat, by omega, by omega⟩

theorem contig_nonneg (lo hi : Nat) : ∀ b ∈ contig lo hi, 0 ≤ b := by
  intro b hb; have := (mem_contig lo hi b).mp hb; omega

theorem contig_min (lo hi : Nat) (h : lo < hi) : (contig lo hi).min? = some (lo : Int) := by
  rw [List.min?_eq_some_iff]
  refine ⟨(mem_contig lo hi _).mpr ⟨by omega, by omega⟩, ?_⟩
  intro b hb; exact ((mem_contig lo hi b).mp hb).1

/-! ### `range` -/

theorem pyRange_step_one (lo hi : Nat) : pyRange (lo : Int) (hi : Int) 1 = some (contig lo hi) := by
  have hlen : pyRangeLen (lo : Int) (hi : Int) 1 = hi - lo := by
    unfold pyRangeLen
    simp only [Int.zero_lt_one, if_true]
    split <;> omega
  simp [pyRange, hlen, contig]

end Canopen.Views

namespace Canopen.Views

/-! ### rounding half to even -/

theorem roundHalfEven_cases (q : Rat) :
    (roundHalfEven q = q.floor ∧ q - (q.floor : Rat) ≤ 1 / 2) ∨
    (roundHalfEven q = q.floor + 1 ∧ 1 / 2 ≤ q - (q.floor : Rat)) := by
  unfold roundHalfEven
  simp only
  by_cases h1 : q - (q.floor : Rat) < 1 / 2
  · left; rw [if_pos h1]; exact ⟨rfl, by grind⟩
  · rw [if_neg h1]
    by_cases h2 : 1 / 2 < q - (q.floor : Rat)
    · right; rw [if_pos h2]; exact ⟨rfl, by grind⟩
    · rw [if_neg h2]
      have he : q - (q.floor : Rat) = 1 / 2 := by grind
      by_cases h3 : q.floor % 2 = 0
      · left; rw [if_pos h3]; exact ⟨rfl, by grind⟩
      · right; rw [if_neg h3]; exact ⟨rfl, by grind⟩

/-- `round` returns an integer within 1/2 of its argument, and no integer is nearer -/
theorem roundHalfEven_nearest (q : Rat) (n : Int) :
    (q - (roundHalfEven q : Rat)).abs ≤ 1 / 2 ∧
    (q - (roundHalfEven q : Rat)).abs ≤ (q - (n : Rat)).abs := by
  have h1 := Rat.floor_le q
  have h2 := Rat.lt_floor_add_one q
  have h3 : ((q.floor + 1 : Int) : Rat) = (q.floor : Rat) + 1 := by grind
  have hn : (n : Rat) ≤ (q.floor : Rat) ∨ (q.floor : Rat) + 1 ≤ (n : Rat) := by
    by_cases h : n ≤ q.floor
    · left; exact Rat.intCast_le_intCast.mpr h
    · right; rw [← h3]; exact Rat.intCast_le_intCast.mpr (by omega)
  rcases roundHalfEven_cases q with ⟨hr, hd⟩ | ⟨hr, hd⟩
  · rw [hr]
    rcases hn with hn | hn <;> constructor <;> grind [Rat.abs]
  · rw [hr, h3]
    rcases hn with hn | hn <;> constructor <;> grind [Rat.abs]

/-- an exact tie goes to the even neighbour -/
theorem roundHalfEven_tie (q : Rat) (h : q - (q.floor : Rat) = 1 / 2) : roundHalfEven q % 2 = 0 := by
  unfold roundHalfEven
  simp only
  have h1 : ¬ (q - (q.floor : Rat) < 1 / 2) := by rw [h]; exact Rat.lt_irrefl
  have h2 : ¬ (1 / 2 < q - (q.floor : Rat)) := by rw [h]; exact Rat.lt_irrefl
  rw [if_neg h1, if_neg h2]
  split <;> omega

/-! ### the range of an integer type, bit-wise -/

theorem nat_lt_two_pow_iff (n k : Nat) : n < 2 ^ k ↔ ∀ i, k ≤ i → n.testBit i = false := by
  constructor
  · intro h i hi
    exact Nat.testBit_lt_two_pow (Nat.lt_of_lt_of_le h (Nat.pow_le_pow_right (by decide) hi))
  · intro h; exact Nat.lt_pow_two_of_testBit n h

theorem big_bit_false (n : Nat) : n.testBit n = false :=
  Nat.testBit_lt_two_pow Nat.lt_two_pow_self

/-- an unsigned `w`-bit value is a Python int all of whose bits from `w` upward are 0 -/
theorem inRange_unsigned_iff (w : Nat) (x : Int) :
    inRange w false x = true ↔ ∀ i, w ≤ i → tbit x i = false := by
  simp only [inRange, Bool.false_eq_true, if_false, Bool.and_eq_true, decide_eq_true_eq]
  cases x with
  | ofNat n =>
    simp only [tbit]
    rw [← nat_lt_two_pow_iff]
    constructor
    · intro h; have := h.2; simp only [Int.ofNat_eq_natCast] at this; omega
    · intro h; simp only [Int.ofNat_eq_natCast]; omega
  | negSucc n =>
    constructor
    · intro h; have := h.1; omega
    · intro h
      have := h (w + n) (Nat.le_add_right w n)
      have hf : n.testBit (w + n) = false :=
        Nat.testBit_lt_two_pow (Nat.lt_of_lt_of_le Nat.lt_two_pow_self
          (Nat.pow_le_pow_right (by decide) (Nat.le_add_left n w)))
      simp [tbit, hf] at this

/-- a signed `w`-bit value is a Python int all of whose bits from `w-1` upward equal bit `w-1` -/
theorem inRange_signed_iff (w : Nat) (x : Int) :
    inRange w true x = true ↔ ∀ i, w - 1 ≤ i → tbit x i = tbit x (w - 1) := by
  simp only [inRange, if_true, Bool.and_eq_true, decide_eq_true_eq]
  have hbig : ∀ n : Nat, n.testBit (w - 1 + n) = false := fun n =>
    Nat.testBit_lt_two_pow (Nat.lt_of_lt_of_le Nat.lt_two_pow_self
      (Nat.pow_le_pow_right (by decide) (Nat.le_add_left n (w - 1))))
  cases x with
  | ofNat n =>
    simp only [tbit]
    have key : n < 2 ^ (w - 1) ↔ ∀ i, w - 1 ≤ i → n.testBit i = n.testBit (w - 1) := by
      rw [nat_lt_two_pow_iff]
      constructor
      · intro h i hi; rw [h i hi, h (w - 1) (Nat.le_refl _)]
      · intro h
        have h0 : n.testBit (w - 1) = false := by
          rw [← h (w - 1 + n) (Nat.le_add_right _ _)]; exact hbig n
        intro i hi; rw [h i hi, h0]
    rw [← key]
    simp only [Int.ofNat_eq_natCast]
    constructor
    · intro h; omega
    · intro h; omega
  | negSucc n =>
    simp only [tbit]
    have key : n < 2 ^ (w - 1) ↔ ∀ i, w - 1 ≤ i → (!n.testBit i) = (!n.testBit (w - 1)) := by
      rw [nat_lt_two_pow_iff]
      constructor
      · intro h i hi; rw [h i hi, h (w - 1) (Nat.le_refl _)]
      · intro h
        have h0 : n.testBit (w - 1) = false := by
          have := h (w - 1 + n) (Nat.le_add_right _ _)
          rw [hbig n] at this
          cases hq : n.testBit (w - 1) with
          | false => rfl
          | true => rw [hq] at this; cases this
        intro i hi
        have := h i hi
        rw [h0] at this
        cases hq : n.testBit i with
        | false => rfl
        | true => rw [hq] at this; cases this
    rw [← key]
    constructor
    · intro h; have := h.1; omega
    · intro h; omega

end Canopen.Views

namespace Canopen.Views
open Canopen

/-! ### two's complement patterns (repaired `encode_bits` on signed types) -/

/-- the `w`-bit two's complement pattern of any Python int: its low `w` bits -/
theorem testBit_ofSigned (w : Nat) (x : Int) (i : Nat) :
    (ofSigned w x).testBit i = (decide (i < w) && tbit x i) := by
  unfold ofSigned
  cases x with
  | ofNat n =>
    have : (Int.ofNat n % ((2 ^ w : Nat) : Int)).toNat = n % 2 ^ w := by
      rw [Int.ofNat_eq_natCast, ← Int.natCast_emod, Int.toNat_natCast]
    rw [this, Nat.testBit_mod_two_pow]; rfl
  | negSucc n =>
    have hpos : (0 : Int) < ((2 ^ w : Nat) : Int) := Int.natCast_pos.mpr (Nat.pow_pos (by decide))
    have hm : n % 2 ^ w < 2 ^ w := Nat.mod_lt _ (Nat.pow_pos (by decide))
    have : (Int.negSucc n % ((2 ^ w : Nat) : Int)).toNat = 2 ^ w - (n % 2 ^ w + 1) := by
      rw [Int.negSucc_emod n hpos, ← Int.natCast_emod]
      omega
    rw [this, Nat.testBit_two_pow_sub_succ hm, Nat.testBit_mod_two_pow]
    simp only [tbit]
    cases decide (i < w) <;> simp

theorem toPattern_some (n : Nat) (x : Int) : toPattern (some n) x = ((ofSigned n x : Nat) : Int) := by
  apply tbit_ext
  intro i
  simp only [toPattern, tbit_pyAnd, tbit_natCast, Nat.testBit_two_pow_sub_one, testBit_ofSigned]
  rw [Bool.and_comm]

theorem fromPattern_lt (n : Nat) (hn : 0 < n) (p : Nat) (hp : p < 2 ^ n) :
    fromPattern (some n) (p : Int) = toSigned n p := by
  have h2 : 2 ^ n = 2 * 2 ^ (n - 1) := two_pow_pred n hn
  have hpos : 0 < 2 ^ (n - 1) := Nat.pow_pos (by decide)
  simp only [fromPattern, toSigned]
  have hs : pyShr (p : Int) (n - 1) = ((p / 2 ^ (n - 1) : Nat) : Int) := by
    show Int.ofNat (p >>> (n - 1)) = _
    rw [Nat.shiftRight_eq_div_pow]; rfl
  rw [hs]
  by_cases hlt : p < 2 ^ (n - 1)
  · have : p / 2 ^ (n - 1) = 0 := Nat.div_eq_of_lt hlt
    simp [this, hlt]
  · have : p / 2 ^ (n - 1) = 1 := by
      rw [Nat.div_eq_iff hpos]; omega
    simp [this, hlt]

theorem fromPattern_ge (n : Nat) (hn : 0 < n) (p : Nat) (hp : 2 ^ n ≤ p) :
    fromPattern (some n) (p : Int) = (p : Int) := by
  have h2 : 2 ^ n = 2 * 2 ^ (n - 1) := two_pow_pred n hn
  have hpos : 0 < 2 ^ (n - 1) := Nat.pow_pos (by decide)
  simp only [fromPattern]
  have hs : pyShr (p : Int) (n - 1) = ((p / 2 ^ (n - 1) : Nat) : Int) := by
    show Int.ofNat (p >>> (n - 1)) = _
    rw [Nat.shiftRight_eq_div_pow]; rfl
  rw [hs]
  have : 2 ≤ p / 2 ^ (n - 1) := by
    rw [Nat.le_div_iff_mul_le hpos]; omega
  have hne : ¬ (((p / 2 ^ (n - 1) : Nat) : Int) = 1) := by omega
  rw [if_neg hne]

/-- a value in a signed range is negative exactly when bit `w-1` of it is set -/
theorem neg_iff_tbit (w : Nat) (x : Int) (h : inRange w true x = true) :
    x < 0 ↔ tbit x (w - 1) = true := by
  simp only [inRange, if_true, Bool.and_eq_true, decide_eq_true_eq] at h
  cases x with
  | ofNat n =>
    have : n < 2 ^ (w - 1) := by have := h.2; simp only [Int.ofNat_eq_natCast] at this; omega
    simp only [tbit, Nat.testBit_lt_two_pow this]
    constructor
    · intro h0; simp only [Int.ofNat_eq_natCast] at h0; omega
    · intro h0; cases h0
  | negSucc n =>
    have : n < 2 ^ (w - 1) := by have := h.1; omega
    simp only [tbit, Nat.testBit_lt_two_pow this]
    constructor
    · intro _; rfl
    · intro _; exact Int.negSucc_lt_zero n

end Canopen.Views
