/-
Helper lemmas for C10: the append-if-absent multimap spec (`Spec/Multimap.lean`), the abstraction
of the model's subscriber map onto it, and the primitive subscription calls each model operation
makes.  The property theorems are in `CanopenProofs/C10.lean`.
-/
import CanopenModel.Net.Network
import CanopenModel.Spec.Multimap
import CanopenModel.Spec.ConnectionSet

namespace Canopen.C10
open Canopen Canopen.Net Canopen.Gen.Network
open Canopen.Spec
open Canopen.Spec.Multimap (MM Prim Call activeStep Active)

/-! ## the multimap spec -/

section spec
variable {κ : Type} [DecidableEq κ]

def NodupAll (m : MM κ) : Prop := ∀ id, (m id).Nodup

theorem run_append (m : MM κ) (a b : List (Prim κ)) :
    Multimap.run m (a ++ b) = Multimap.run (Multimap.run m a) b := by
  induction a generalizing m with
  | nil => rfl
  | cons p r ih => simp [Multimap.run, ih]

theorem nodupAll_step (m : MM κ) (h : NodupAll m) (p : Prim κ) : NodupAll (Multimap.step m p) := by
  intro j
  cases p with
  | sub id cb =>
    simp only [Multimap.step, Multimap.subscribe]
    by_cases hj : j = id
    · subst hj
      by_cases hc : cb ∈ m j
      · simp [hc, h j]
      · simp only [if_true, hc, if_false]
        rw [List.nodup_append]
        refine ⟨h j, by simp, ?_⟩
        intro a ha b hb
        simp at hb
        subst hb
        intro e
        subst e
        exact hc ha
    · simp [hj, h j]
  | unsub id cb =>
    simp only [Multimap.step, Multimap.unsubscribe]
    by_cases hj : j = id
    · subst hj
      simp only [if_true]
      exact (h j).erase cb
    · simp [hj, h j]
  | unsubAll id =>
    simp only [Multimap.step, Multimap.unsubscribeAll]
    by_cases hj : j = id
    · simp [hj]
    · simp [hj, h j]

theorem nodupAll_run (m : MM κ) (h : NodupAll m) (ps : List (Prim κ)) :
    NodupAll (Multimap.run m ps) := by
  induction ps generalizing m with
  | nil => exact h
  | cons p r ih => exact ih _ (nodupAll_step m h p)

omit [DecidableEq κ] in
theorem nodupAll_empty : NodupAll (Multimap.empty : MM κ) := by
  intro j
  simp [Multimap.empty]

/-- one step of the multimap, seen from one (id, callback) pair, is one step of its activity bit -/
theorem mem_step_iff (m : MM κ) (h : NodupAll m) (p : Prim κ) (id : Nat) (cb : κ) :
    cb ∈ Multimap.step m p id ↔ activeStep id cb (decide (cb ∈ m id)) p = true := by
  cases p with
  | sub i c =>
    simp only [Multimap.step, Multimap.subscribe, activeStep]
    by_cases hi : id = i
    · subst hi
      by_cases hc : c = cb
      · subst hc
        by_cases hm : c ∈ m id <;> simp [hm]
      · have hc' : ¬ (id = id ∧ c = cb) := fun h => hc h.2
        by_cases hm : c ∈ m id
        · simp [hm, hc]
        · simp [hm, hc]
          intro e
          exact absurd e.symm hc
    · have hi' : ¬ (i = id ∧ c = cb) := fun h => hi h.1.symm
      simp [hi, hi']
  | unsub i c =>
    simp only [Multimap.step, Multimap.unsubscribe, activeStep]
    by_cases hi : id = i
    · subst hi
      simp only [if_true]
      rw [(h id).mem_erase_iff]
      by_cases hc : c = cb
      · subst hc
        simp
      · have : cb ≠ c := fun e => hc e.symm
        simp [hc, this]
    · have hi' : ¬ (i = id ∧ c = cb) := fun h => hi h.1.symm
      simp [hi, hi']
  | unsubAll i =>
    simp only [Multimap.step, Multimap.unsubscribeAll, activeStep]
    by_cases hi : id = i
    · subst hi
      simp
    · have hi' : ¬ i = id := fun h => hi h.symm
      simp [hi, hi']

end spec

/-! ## abstraction of the model's subscriber map -/

/-- an absent key and a key with an empty list both mean "nobody subscribed" -/
def abs (s : Subs) : MM Cb := fun id => (s.get id).getD []

/-- the multimap operation a call `Network.unsubscribe(id, cb)` stands for -/
def unsubPrim (id : Nat) : Option Cb → Prim Cb
  | none => .unsubAll id
  | some c => .unsub id c

theorem abs_subscribe (s : Subs) (id : Nat) (cb : Cb) :
    abs (subscribe s id cb) = Multimap.subscribe (abs s) id cb := by
  funext j
  by_cases hj : j = id
  · subst hj
    by_cases hc : cb ∈ (s.get j).getD []
    · simp [abs, subscribe, Subs.set, Multimap.subscribe, hc]
    · simp [abs, subscribe, Subs.set, Multimap.subscribe, hc]
  · simp [abs, subscribe, Subs.set, Multimap.subscribe, hj]

/-- whether the call succeeds or raises, the abstract map afterwards is the spec's -/
theorem abs_unsubscribe (s : Subs) (id : Nat) (cb : Option Cb) :
    abs ((unsubscribe s id cb).getD s) = Multimap.step (abs s) (unsubPrim id cb) := by
  funext j
  cases cb with
  | none =>
    simp only [unsubscribe, unsubPrim, Multimap.step, Multimap.unsubscribeAll]
    cases hs : s.get id with
    | none =>
      by_cases hj : j = id
      · subst hj; simp [abs, hs]
      · simp [abs, hj]
    | some l =>
      by_cases hj : j = id
      · subst hj; simp [abs, Subs.set]
      · simp [abs, Subs.set, hj]
  | some c =>
    simp only [unsubscribe, unsubPrim, Multimap.step, Multimap.unsubscribe]
    cases hs : s.get id with
    | none =>
      by_cases hj : j = id
      · subst hj; simp [abs, hs]
      · simp [abs, hj]
    | some l =>
      by_cases hc : c ∈ l
      · by_cases hj : j = id
        · subst hj; simp [abs, Subs.set, hc, hs]
        · simp [abs, Subs.set, hc, hj]
      · by_cases hj : j = id
        · subst hj; simp [abs, hc, hs, List.erase_of_not_mem hc]
        · simp [abs, hc, hj]

def subPrims (l : List (Nat × Cb)) : List (Prim Cb) := l.map fun p => .sub p.1 p.2

/-- the `unsubscribe` calls `remove_network` actually makes: up to and including the first
    one that raises -/
def unsubPrims (s : Subs) : List (Nat × Cb) → List (Prim Cb)
  | [] => []
  | p :: r =>
    .unsub p.1 p.2 ::
      (match unsubscribe s p.1 (some p.2) with
       | none => []
       | some s' => unsubPrims s' r)

theorem abs_subscribeMany (s : Subs) (l : List (Nat × Cb)) :
    abs (subscribeMany s l) = Multimap.run (abs s) (subPrims l) := by
  induction l generalizing s with
  | nil => rfl
  | cons p r ih =>
    simp only [subscribeMany, subPrims, List.map_cons, Multimap.run, Multimap.step]
    rw [ih, abs_subscribe]
    rfl

theorem abs_unsubscribeMany (s : Subs) (l : List (Nat × Cb)) :
    abs (unsubscribeMany s l).1 = Multimap.run (abs s) (unsubPrims s l) := by
  induction l generalizing s with
  | nil => rfl
  | cons p r ih =>
    have key := abs_unsubscribe s p.1 (some p.2)
    simp only [unsubscribeMany, unsubPrims, Multimap.run]
    cases hu : unsubscribe s p.1 (some p.2) with
    | none =>
      simp only [hu, Option.getD_none] at key
      simp only [Multimap.run]
      exact key
    | some s' =>
      simp only [hu, Option.getD_some] at key
      simp only []
      rw [ih, key]
      rfl

/-- the operations that are not `MutableMapping` mix-in methods -/
def Basic : Op → Prop
  | .popNode _ _ => False
  | .popItem => False
  | .clear => False
  | .update _ => False
  | .setDefault _ => False
  | _ => True

/-- the primitive subscription calls a basic operation makes on a given state, in order -/
def primsB (E : Env) (n : Net) : Op → List (Prim Cb)
  | .subscribe id cb => [.sub id cb]
  | .unsubscribe id cb => [unsubPrim id cb]
  | .setNode o =>
    match n.nodes (E.nid o) with
    | some old =>
      unsubPrims n.subs (removeCalls E n.extra old) ++
        (if (detach E n old).2 then subPrims (assocCalls E n.extra o) else [])
    | none => subPrims (assocCalls E n.extra o)
  | .delNode nid =>
    match n.nodes nid with
    | none => []
    | some old => unsubPrims n.subs (removeCalls E n.extra old)
  | .addSdo o tx =>
    if E.isLocal o = false ∧ n.nodes (E.nid o) = some o then
      [.sub tx (.node o (.sdoResponse (chans E n.extra o).length))]
    else []
  | .notify _ => []
  | .receive _ => []
  | .scanReset => []
  | _ => []

theorem notify_subs (E : Env) (n : Net) (f : Frame) : (notify E n f).1.subs = n.subs := by
  unfold notify
  simp only []
  split <;> rfl

theorem receive_subs (E : Env) (n : Net) (m : BusMsg) : (receive E n m).1.subs = n.subs := by
  unfold receive
  split
  · rfl
  · exact notify_subs E n _

theorem step_abs_basic (E : Env) (n : Net) (op : Op) (hb : Basic op) :
    abs (step E n op).1.subs = Multimap.run (abs n.subs) (primsB E n op) := by
  cases op with
  | popNode nid d => simp only [Basic] at hb
  | popItem => simp only [Basic] at hb
  | clear => simp only [Basic] at hb
  | update os => simp only [Basic] at hb
  | setDefault o => simp only [Basic] at hb
  | subscribe id cb =>
    simp only [step, primsB, Multimap.run, Multimap.step]
    exact abs_subscribe _ _ _
  | unsubscribe id cb =>
    have key := abs_unsubscribe n.subs id cb
    simp only [step, primsB, Multimap.run]
    cases hu : unsubscribe n.subs id cb with
    | none => simp only [hu, Option.getD_none] at key; exact key
    | some s => simp only [hu, Option.getD_some] at key; exact key
  | setNode o =>
    simp only [step, setNode, primsB]
    cases hn : n.nodes (E.nid o) with
    | none =>
      simp only []
      exact abs_subscribeMany _ _
    | some old =>
      simp only []
      by_cases hd : (detach E n old).2 = true
      · simp only [hd, if_true]
        rw [run_append, abs_subscribeMany]
        congr 1
        exact abs_unsubscribeMany _ _
      · simp only [hd]
        simp only [Bool.false_eq_true, if_false, List.append_nil]
        exact abs_unsubscribeMany _ _
  | delNode nid =>
    simp only [step, delNode, primsB]
    cases hn : n.nodes nid with
    | none => rfl
    | some old =>
      simp only []
      by_cases hd : (detach E n old).2 = true
      · simp only [hd, if_true]
        exact abs_unsubscribeMany _ _
      · simp only [hd]
        exact abs_unsubscribeMany _ _
  | addSdo o tx =>
    simp only [step, addSdo, primsB]
    by_cases hl : E.isLocal o = true
    · simp [hl, Multimap.run]
    · have hl' : E.isLocal o = false := by simpa using hl
      by_cases hr : n.nodes (E.nid o) = some o
      · simp only [hl', hr, Bool.false_eq_true, if_false, if_true, and_self, Multimap.run,
          Multimap.step]
        exact abs_subscribe _ _ _
      · simp [hl', hr, Multimap.run]
  | notify f =>
    simp only [step, primsB, Multimap.run]
    rw [notify_subs]
  | receive m =>
    simp only [step, primsB, Multimap.run]
    rw [receive_subs]
  | scanReset => rfl


theorem run_app (E : Env) (n : Net) (a b : List Op) :
    run E n (a ++ b) = ((run E (run E n a).1 b).1, (run E n a).2 ++ (run E (run E n a).1 b).2) := by
  induction a generalizing n with
  | nil => simp [run]
  | cons op r ih => simp [run, ih]

/-! ## the mapping mix-ins as sequences of `__setitem__` / `__delitem__` calls -/

/-- all primitive calls of a history of basic operations -/
def traceB (E : Env) : Net → List Op → List (Prim Cb)
  | _, [] => []
  | n, op :: r => primsB E n op ++ traceB E (step E n op).1 r

theorem run_abs_basic (E : Env) (ops : List Op) (n : Net) (hb : ∀ op ∈ ops, Basic op) :
    abs (run E n ops).1.subs = Multimap.run (abs n.subs) (traceB E n ops) := by
  induction ops generalizing n with
  | nil => rfl
  | cons op r ih =>
    simp only [run, traceB]
    rw [ih _ (fun x hx => hb x (by simp [hx])), step_abs_basic E n op (hb op (by simp)), run_append]

/-- the `self[node.id] = node` calls `update` makes: up to and including the first that raises -/
def updateOps (E : Env) : Net → List Nat → List Op
  | _, [] => []
  | n, o :: r => .setNode o :: (if (setNode E n o).2 then updateOps E (setNode E n o).1 r else [])

/-- the `del self[key]` calls `clear` makes: the first key of the iteration, again and again,
    up to and including the first call that raises -/
def clearOps (E : Env) : Nat → Net → List Op
  | 0, _ => []
  | fuel + 1, n =>
    match n.keys with
    | [] => []
    | k :: _ => .delNode k :: (if (delNode E n k).2 then clearOps E fuel (delNode E n k).1 else [])

/-- the `__setitem__` / `__delitem__` calls an operation consists of (a basic operation: itself) -/
def itemOps (E : Env) (n : Net) : Op → List Op
  | .popNode nid _ => [.delNode nid]
  | .popItem => match n.keys with
    | [] => []
    | k :: _ => [.delNode k]
  | .clear => clearOps E (n.keys.length + 1) n
  | .update os => updateOps E n os
  | .setDefault o => match n.nodes (E.nid o) with
    | some _ => []
    | none => [.setNode o]
  | op => [op]

theorem popNode_fst (E : Env) (n : Net) (nid : Nat) (d : Bool) :
    (popNode E n nid d).1 = (delNode E n nid).1 := by
  unfold popNode
  cases hn : n.nodes nid with
  | none => simp [delNode, hn]
  | some o => rfl

theorem updateNodes_expand (E : Env) (os : List Nat) (n : Net) :
    (updateNodes E n os).1 = (run E n (updateOps E n os)).1 := by
  induction os generalizing n with
  | nil => rfl
  | cons o r ih =>
    simp only [updateNodes, updateOps, run, step]
    by_cases h : (setNode E n o).2 = true
    · simp only [h, if_true]
      exact ih _
    · simp [h, run]

theorem clearLoop_expand (E : Env) (fuel : Nat) (n : Net) :
    (clearLoop E fuel n).1 = (run E n (clearOps E fuel n)).1 := by
  induction fuel generalizing n with
  | zero => rfl
  | succ f ih =>
    cases hk : n.keys with
    | nil => simp [clearLoop, clearOps, popItem, hk, run]
    | cons k r =>
      by_cases h : (delNode E n k).2 = true
      · simp only [clearLoop, clearOps, popItem, hk, h, if_true, run, step]
        exact ih _
      · simp [clearLoop, clearOps, popItem, hk, h, run, step]

/-- every operation changes the state exactly as the `__setitem__` / `__delitem__` calls it is
    made of -/
theorem step_itemOps (E : Env) (n : Net) (op : Op) :
    (step E n op).1 = (run E n (itemOps E n op)).1 := by
  cases op with
  | popNode nid d => simp only [step, itemOps, run]; exact popNode_fst E n nid d
  | popItem =>
    simp only [step, itemOps, popItem]
    cases hk : n.keys with
    | nil => rfl
    | cons k r => simp [run, step]
  | clear => simp only [step, itemOps, clearNodes]; exact clearLoop_expand E _ n
  | update os => simp only [step, itemOps]; exact updateNodes_expand E os n
  | setDefault o =>
    simp only [step, itemOps, setDefault]
    cases hn : n.nodes (E.nid o) with
    | none => simp [run, step]
    | some old => rfl
  | subscribe id cb => simp [itemOps, run]
  | unsubscribe id cb => simp [itemOps, run]
  | setNode o => simp [itemOps, run]
  | delNode nid => simp [itemOps, run]
  | addSdo o tx => simp [itemOps, run]
  | notify f => simp [itemOps, run]
  | receive m => simp [itemOps, run]
  | scanReset => simp [itemOps, run]

/-- the operation may file node object `o` in the network -/
def Adds (o : Nat) : Op → Prop
  | .setNode o' => o' = o
  | .update os => o ∈ os
  | .setDefault o' => o' = o
  | _ => False

theorem updateOps_mem (E : Env) (os : List Nat) (n : Net) (x : Op) (hx : x ∈ updateOps E n os) :
    ∃ o ∈ os, x = .setNode o := by
  induction os generalizing n with
  | nil => simp [updateOps] at hx
  | cons o r ih =>
    simp only [updateOps, List.mem_cons] at hx
    rcases hx with rfl | hx
    · exact ⟨o, by simp, rfl⟩
    · split at hx
      · obtain ⟨o', ho', rfl⟩ := ih _ hx
        exact ⟨o', by simp [ho'], rfl⟩
      · simp at hx

theorem clearOps_mem (E : Env) (fuel : Nat) (n : Net) (x : Op) (hx : x ∈ clearOps E fuel n) :
    ∃ k, x = .delNode k := by
  induction fuel generalizing n with
  | zero => simp [clearOps] at hx
  | succ f ih =>
    simp only [clearOps] at hx
    split at hx
    · simp at hx
    · simp only [List.mem_cons] at hx
      rcases hx with rfl | hx
      · exact ⟨_, rfl⟩
      · split at hx
        · exact ih _ hx
        · simp at hx

/-- what an operation is made of: itself (a basic operation), `network[o.id] = o` for an object
    the operation names, or `del network[k]` -/
theorem itemOps_mem (E : Env) (n : Net) (op x : Op) (hx : x ∈ itemOps E n op) :
    (x = op ∧ Basic op) ∨ (∃ o, x = .setNode o ∧ Adds o op) ∨ (∃ k, x = .delNode k) := by
  cases op with
  | popNode nid d =>
    simp only [itemOps, List.mem_singleton] at hx
    exact Or.inr (Or.inr ⟨nid, hx⟩)
  | popItem =>
    simp only [itemOps] at hx
    split at hx
    · simp at hx
    · simp only [List.mem_singleton] at hx
      exact Or.inr (Or.inr ⟨_, hx⟩)
  | clear =>
    simp only [itemOps] at hx
    exact Or.inr (Or.inr (clearOps_mem E _ n x hx))
  | update os =>
    simp only [itemOps] at hx
    obtain ⟨o, ho, rfl⟩ := updateOps_mem E os n x hx
    exact Or.inr (Or.inl ⟨o, rfl, ho⟩)
  | setDefault o =>
    simp only [itemOps] at hx
    split at hx
    · simp at hx
    · simp only [List.mem_singleton] at hx
      exact Or.inr (Or.inl ⟨o, hx, rfl⟩)
  | subscribe id cb => simp only [itemOps, List.mem_singleton] at hx; exact Or.inl ⟨hx, trivial⟩
  | unsubscribe id cb => simp only [itemOps, List.mem_singleton] at hx; exact Or.inl ⟨hx, trivial⟩
  | setNode o => simp only [itemOps, List.mem_singleton] at hx; exact Or.inl ⟨hx, trivial⟩
  | delNode nid => simp only [itemOps, List.mem_singleton] at hx; exact Or.inl ⟨hx, trivial⟩
  | addSdo o tx => simp only [itemOps, List.mem_singleton] at hx; exact Or.inl ⟨hx, trivial⟩
  | notify f => simp only [itemOps, List.mem_singleton] at hx; exact Or.inl ⟨hx, trivial⟩
  | receive m => simp only [itemOps, List.mem_singleton] at hx; exact Or.inl ⟨hx, trivial⟩
  | scanReset => simp only [itemOps, List.mem_singleton] at hx; exact Or.inl ⟨hx, trivial⟩

theorem itemOps_basic (E : Env) (n : Net) (op x : Op) (hx : x ∈ itemOps E n op) : Basic x := by
  rcases itemOps_mem E n op x hx with ⟨rfl, h⟩ | ⟨o, rfl, _⟩ | ⟨k, rfl⟩
  · exact h
  · trivial
  · trivial

/-- a mix-in method consists of `__setitem__` / `__delitem__` calls only -/
theorem itemOps_composite (E : Env) (n : Net) (op x : Op) (hop : ¬ Basic op)
    (hx : x ∈ itemOps E n op) : (∃ o, x = .setNode o) ∨ (∃ k, x = .delNode k) := by
  rcases itemOps_mem E n op x hx with ⟨_, h⟩ | ⟨o, rfl, _⟩ | ⟨k, rfl⟩
  · exact absurd h hop
  · exact Or.inl ⟨o, rfl⟩
  · exact Or.inr ⟨k, rfl⟩

/-- a state property kept by every basic operation (under a side condition `C`) is kept by every
    operation whose `__setitem__` / `__delitem__` calls satisfy `C` -/
theorem run_lift (E : Env) (P : Net → Prop) (C : Op → Prop)
    (hb : ∀ n op, Basic op → C op → P n → P (step E n op).1)
    (ops : List Op) (n : Net) (hC : ∀ x ∈ ops, Basic x ∧ C x) (hP : P n) : P (run E n ops).1 := by
  induction ops generalizing n with
  | nil => exact hP
  | cons op r ih =>
    simp only [run]
    exact ih _ (fun x hx => hC x (by simp [hx]))
      (hb n op (hC op (by simp)).1 (hC op (by simp)).2 hP)

theorem step_lift (E : Env) (P : Net → Prop) (C : Op → Prop)
    (hb : ∀ n op, Basic op → C op → P n → P (step E n op).1)
    (n : Net) (op : Op) (hC : ∀ x ∈ itemOps E n op, C x) (hP : P n) : P (step E n op).1 := by
  rw [step_itemOps]
  exact run_lift E P C hb _ n (fun x hx => ⟨itemOps_basic E n op x hx, hC x hx⟩) hP

/-- the primitive subscription calls an operation makes on a given state, in order -/
def prims (E : Env) (n : Net) (op : Op) : List (Prim Cb) := traceB E n (itemOps E n op)

theorem step_abs (E : Env) (n : Net) (op : Op) :
    abs (step E n op).1.subs = Multimap.run (abs n.subs) (prims E n op) := by
  rw [step_itemOps]
  exact run_abs_basic E _ n (itemOps_basic E n op)

/-- all primitive calls of a history, in order -/
def trace (E : Env) : Net → List Op → List (Prim Cb)
  | _, [] => []
  | n, op :: r => prims E n op ++ trace E (step E n op).1 r

theorem run_abs (E : Env) (n : Net) (ops : List Op) :
    abs (run E n ops).1.subs = Multimap.run (abs n.subs) (trace E n ops) := by
  induction ops generalizing n with
  | nil => rfl
  | cons op r ih =>
    simp only [run, trace]
    rw [ih, step_abs, run_append]

/-- what `Network.__init__` has done, as multimap operations -/
def initPrims : List (Prim Cb) := initLssIds.map fun id => .sub id .lss

def specInit : MM Cb := Multimap.run Multimap.empty initPrims

theorem abs_init : abs init.subs = specInit := by
  funext j
  simp only [abs, init, specInit, initPrims, initLssIds, List.map, Multimap.run, Multimap.step,
    Multimap.subscribe, Multimap.empty]
  by_cases hj : j = 2020 <;> simp [hj]

theorem nodupAll_specInit : NodupAll specInit := nodupAll_run _ nodupAll_empty _

/-! ## membership after subscription calls -/

theorem mem_subscribe (m : MM Cb) (id : Nat) (cb : Cb) (j : Nat) (x : Cb) :
    x ∈ Multimap.subscribe m id cb j ↔ x ∈ m j ∨ (j = id ∧ x = cb) := by
  simp only [Multimap.subscribe]
  by_cases hj : j = id
  · subst hj
    by_cases hc : cb ∈ m j
    · simp only [if_true, hc, true_and]
      constructor
      · exact Or.inl
      · rintro (h | h)
        · exact h
        · exact h ▸ hc
    · simp [hc]
  · simp [hj]

theorem mem_unsub_step (m : MM Cb) (id : Nat) (cb : Option Cb) (j : Nat) (x : Cb)
    (h : x ∈ Multimap.step m (unsubPrim id cb) j) : x ∈ m j := by
  cases cb with
  | none =>
    simp only [unsubPrim, Multimap.step, Multimap.unsubscribeAll] at h
    by_cases hj : j = id
    · simp [hj] at h
    · simpa [hj] using h
  | some c =>
    simp only [unsubPrim, Multimap.step, Multimap.unsubscribe] at h
    by_cases hj : j = id
    · subst hj
      simp only [if_true] at h
      exact List.mem_of_mem_erase h
    · simpa [hj] using h

theorem mem_abs_subscribeMany (s : Subs) (l : List (Nat × Cb)) (j : Nat) (x : Cb) :
    x ∈ abs (subscribeMany s l) j ↔ x ∈ abs s j ∨ (j, x) ∈ l := by
  induction l generalizing s with
  | nil => simp [subscribeMany]
  | cons p r ih =>
    simp only [subscribeMany]
    rw [ih, abs_subscribe, mem_subscribe]
    obtain ⟨i, c⟩ := p
    simp only [List.mem_cons, Prod.mk.injEq]
    constructor
    · rintro ((h | h) | h)
      · exact Or.inl h
      · exact Or.inr (Or.inl h)
      · exact Or.inr (Or.inr h)
    · rintro (h | h | h)
      · exact Or.inl (Or.inl h)
      · exact Or.inl (Or.inr h)
      · exact Or.inr h

theorem nodup_subscribeMany (s : Subs) (l : List (Nat × Cb)) (h : NodupAll (abs s)) :
    NodupAll (abs (subscribeMany s l)) := by
  rw [abs_subscribeMany]
  exact nodupAll_run _ h _

theorem nodup_unsubscribeMany (s : Subs) (l : List (Nat × Cb)) (h : NodupAll (abs s)) :
    NodupAll (abs (unsubscribeMany s l).1) := by
  rw [abs_unsubscribeMany]
  exact nodupAll_run _ h _

theorem mem_abs_unsubscribeMany (s : Subs) (l : List (Nat × Cb)) (j : Nat) (x : Cb)
    (h : x ∈ abs (unsubscribeMany s l).1 j) : x ∈ abs s j := by
  induction l generalizing s with
  | nil => exact h
  | cons p r ih =>
    simp only [unsubscribeMany] at h
    cases hu : unsubscribe s p.1 (some p.2) with
    | none => simp only [hu] at h; exact h
    | some s' =>
      simp only [hu] at h
      have h1 := ih s' h
      have key := abs_unsubscribe s p.1 (some p.2)
      simp only [hu, Option.getD_some] at key
      rw [key] at h1
      exact mem_unsub_step _ _ _ _ _ h1

/-- a removal that did not raise has removed every callback it names -/
theorem unsubscribeMany_removes (s : Subs) (l : List (Nat × Cb)) (hn : NodupAll (abs s))
    (hok : (unsubscribeMany s l).2 = true) :
    ∀ p ∈ l, p.2 ∉ abs (unsubscribeMany s l).1 p.1 := by
  induction l generalizing s with
  | nil => intro p hp; simp at hp
  | cons q r ih =>
    simp only [unsubscribeMany] at hok ⊢
    cases hu : unsubscribe s q.1 (some q.2) with
    | none => simp [hu] at hok
    | some s' =>
      simp only [hu] at hok ⊢
      have key := abs_unsubscribe s q.1 (some q.2)
      simp only [hu, Option.getD_some] at key
      have hn' : NodupAll (abs s') := by
        rw [key]; exact nodupAll_step _ hn _
      intro p hp
      rcases List.mem_cons.mp hp with rfl | hp
      · intro hmem
        have h1 := mem_abs_unsubscribeMany s' r _ _ hmem
        rw [key] at h1
        simp only [unsubPrim, Multimap.step, Multimap.unsubscribe, if_true] at h1
        exact (hn p.1).not_mem_erase h1
      · exact ih s' hn' hok p hp
/-! ## the (de)registration call lists -/

/-- generated tables: `remove_network` names every call `associate_network` makes, and a remote
    node registers all its SDO channels -/
theorem tables_cover :
    (∀ r ∈ remoteAssociate, r ∈ remoteRemove) ∧ (∀ r ∈ localAssociate, r ∈ localRemove) ∧
    (1, 0, false, 0) ∈ remoteAssociate := by decide

theorem assoc_sub_remove (E : Env) (extra : List (Nat × Nat)) (o : Nat) :
    ∀ p ∈ assocCalls E extra o, p ∈ removeCalls E extra o := by
  intro p hp
  simp only [assocCalls, removeCalls, expand, List.mem_flatMap] at hp ⊢
  obtain ⟨row, hrow, hmem⟩ := hp
  refine ⟨row, ?_, hmem⟩
  by_cases hl : E.isLocal o = true
  · simp only [hl, if_true] at hrow ⊢
    exact tables_cover.2.1 row hrow
  · simp only [hl] at hrow ⊢
    exact tables_cover.1 row hrow

theorem chanCalls_tag (o : Nat) (k : Nat) (l : List Nat) :
    ∀ p ∈ chanCalls o k l, ∃ h, p.2 = Cb.node o h := by
  induction l generalizing k with
  | nil => intro p hp; simp [chanCalls] at hp
  | cons tx r ih =>
    intro p hp
    simp only [chanCalls, List.mem_cons] at hp
    rcases hp with rfl | hp
    · exact ⟨_, rfl⟩
    · exact ih _ p hp

/-- every call of `associate_network` of object `o` registers a bound method of `o` itself -/
theorem assoc_tag (E : Env) (extra : List (Nat × Nat)) (o : Nat) :
    ∀ p ∈ assocCalls E extra o, ∃ h, p.2 = Cb.node o h := by
  intro p hp
  simp only [assocCalls, expand, List.mem_flatMap] at hp
  obtain ⟨row, _, hmem⟩ := hp
  simp only [expandRow] at hmem
  split at hmem
  · exact chanCalls_tag o 0 _ p hmem
  · simp only [List.mem_singleton] at hmem
    exact ⟨_, by rw [hmem]⟩

theorem chanCalls_append (o k : Nat) (a b : List Nat) :
    chanCalls o k (a ++ b) = chanCalls o k a ++ chanCalls o (k + a.length) b := by
  induction a generalizing k with
  | nil => simp [chanCalls]
  | cons x r ih =>
    simp only [List.cons_append, chanCalls, List.length_cons, ih]
    congr 3
    omega

theorem chans_append (E : Env) (extra : List (Nat × Nat)) (o o' tx : Nat) :
    chans E (extra ++ [(o', tx)]) o = chans E extra o ++ (if o' = o then [tx] else []) := by
  simp only [chans, List.filter_append, List.map_append, List.cons_append]
  congr 2
  by_cases h : o' = o <;> simp [List.filter, h]

/-- `add_sdo` only adds to what `associate_network` would register -/
theorem assoc_mono (E : Env) (extra : List (Nat × Nat)) (o o' tx : Nat) :
    ∀ p ∈ assocCalls E extra o, p ∈ assocCalls E (extra ++ [(o', tx)]) o := by
  intro p hp
  simp only [assocCalls, expand, List.mem_flatMap] at hp ⊢
  obtain ⟨row, hrow, hmem⟩ := hp
  refine ⟨row, hrow, ?_⟩
  simp only [expandRow] at hmem ⊢
  split
  · rename_i h1
    simp only [h1, if_true] at hmem
    rw [chans_append, chanCalls_append]
    exact List.mem_append_left _ hmem
  · rename_i h1
    simpa only [h1, if_false] using hmem

/-- the channel `add_sdo` creates is one `associate_network` registers from then on -/
theorem assoc_new_channel (E : Env) (extra : List (Nat × Nat)) (o tx : Nat)
    (hl : E.isLocal o = false) :
    (tx, Cb.node o (.sdoResponse (chans E extra o).length)) ∈
      assocCalls E (extra ++ [(o, tx)]) o := by
  simp only [assocCalls, expand, List.mem_flatMap, hl]
  refine ⟨(1, 0, false, 0), tables_cover.2.2, ?_⟩
  simp only [expandRow, if_true]
  rw [chans_append, chanCalls_append]
  apply List.mem_append_right
  simp [chanCalls]
/-! ## the ownership invariant -/

/-- In every state reachable without the *user* subscribing a node's bound method by hand:
    lists have no duplicates; a node object is filed under its own node id; and a bound method
    of node object `o` is subscribed only while `o` is in `Network.nodes`, and only where
    `o.associate_network` would put it. -/
structure Inv (E : Env) (n : Net) : Prop where
  nodup : NodupAll (abs n.subs)
  keyed : ∀ nid o, n.nodes nid = some o → E.nid o = nid
  owned : ∀ id o h, Cb.node o h ∈ abs n.subs id →
    n.nodes (E.nid o) = some o ∧ (id, Cb.node o h) ∈ assocCalls E n.extra o

/-- the operation is not the user subscribing a bound method of a node object by hand -/
def NoManualNodeSub : Op → Prop
  | .subscribe _ (.node _ _) => False
  | _ => True

theorem inv_init (E : Env) : Inv E init := by
  refine ⟨?_, ?_, ?_⟩
  · rw [abs_init]; exact nodupAll_specInit
  · intro nid o h; simp [init] at h
  · intro id o h hm
    rw [abs_init] at hm
    simp only [specInit, initPrims, initLssIds, List.map, Multimap.run, Multimap.step,
      Multimap.subscribe, Multimap.empty] at hm
    by_cases hj : id = 2020 <;> simp [hj] at hm

theorem notify_frame (E : Env) (n : Net) (f : Frame) :
    (notify E n f).1.subs = n.subs ∧ (notify E n f).1.nodes = n.nodes ∧
    (notify E n f).1.extra = n.extra := by
  unfold notify
  simp only []
  split <;> exact ⟨rfl, rfl, rfl⟩

theorem receive_frame (E : Env) (n : Net) (m : BusMsg) :
    (receive E n m).1.subs = n.subs ∧ (receive E n m).1.nodes = n.nodes ∧
    (receive E n m).1.extra = n.extra := by
  unfold receive
  split
  · exact ⟨rfl, rfl, rfl⟩
  · exact notify_frame E n _

/-- a successful removal of `old` leaves the invariant true for the state without `old` -/
theorem inv_detach (E : Env) (n : Net) (hI : Inv E n) (old : Nat) :
    -- whatever happens, the lists only shrink
    (∀ id x, x ∈ abs (detach E n old).1 id → x ∈ abs n.subs id) ∧
    NodupAll (abs (detach E n old).1) ∧
    -- and if it did not raise, nothing of `old` is left
    ((detach E n old).2 = true → ∀ id h, Cb.node old h ∉ abs (detach E n old).1 id) := by
  refine ⟨fun id x h => mem_abs_unsubscribeMany _ _ _ _ h, nodup_unsubscribeMany _ _ hI.nodup, ?_⟩
  intro hok id h hm
  have h0 := mem_abs_unsubscribeMany _ _ _ _ hm
  have h1 := (hI.owned id old h h0).2
  have h2 := assoc_sub_remove E n.extra old _ h1
  exact unsubscribeMany_removes n.subs _ hI.nodup hok _ h2 hm

theorem inv_attach (E : Env) (n : Net) (s1 : Subs) (o : Nat) (ks : List Nat)
    (hnd : NodupAll (abs s1))
    (hkeyed : ∀ nid o', n.nodes nid = some o' → E.nid o' = nid)
    (hown : ∀ id o' h, Cb.node o' h ∈ abs s1 id →
      E.nid o' ≠ E.nid o ∧ n.nodes (E.nid o') = some o' ∧
        (id, Cb.node o' h) ∈ assocCalls E n.extra o') :
    Inv E { n with subs := subscribeMany s1 (assocCalls E n.extra o)
                   nodes := setNodes n.nodes (E.nid o) (some o)
                   keys := ks } := by
  refine ⟨nodup_subscribeMany _ _ hnd, ?_, ?_⟩
  · intro nid o' h
    simp only [setNodes] at h
    by_cases hn : nid = E.nid o
    · simp only [hn, if_true, Option.some.injEq] at h
      rw [← h, hn]
    · simp only [hn, if_false] at h
      exact hkeyed nid o' h
  · intro id o' h hm
    simp only [] at hm ⊢
    rw [mem_abs_subscribeMany] at hm
    rcases hm with hm | hm
    · obtain ⟨hne, hreg, hmem⟩ := hown id o' h hm
      refine ⟨?_, hmem⟩
      simp only [setNodes, hne, if_false]
      exact hreg
    · obtain ⟨h', htag⟩ := assoc_tag E n.extra o _ hm
      simp only [Cb.node.injEq] at htag
      obtain ⟨rfl, _⟩ := htag
      refine ⟨?_, hm⟩
      simp [setNodes]

theorem inv_step_basic (E : Env) (n : Net) (op : Op) (hb : Basic op) (hI : Inv E n)
    (hop : NoManualNodeSub op) : Inv E (step E n op).1 := by
  cases op with
  | popNode nid d => simp only [Basic] at hb
  | popItem => simp only [Basic] at hb
  | clear => simp only [Basic] at hb
  | update os => simp only [Basic] at hb
  | setDefault o => simp only [Basic] at hb
  | subscribe id cb =>
    simp only [step]
    refine ⟨?_, hI.keyed, ?_⟩
    · simp only []
      rw [abs_subscribe]
      exact nodupAll_step _ hI.nodup (.sub id cb)
    · intro j o h hm
      simp only [] at hm ⊢
      rw [abs_subscribe, mem_subscribe] at hm
      rcases hm with hm | ⟨_, hm⟩
      · exact hI.owned j o h hm
      · rw [← hm] at hop
        exact absurd hop (by simp [NoManualNodeSub])
  | unsubscribe id cb =>
    have key := abs_unsubscribe n.subs id cb
    simp only [step]
    cases hu : unsubscribe n.subs id cb with
    | none => exact hI
    | some s =>
      simp only [hu, Option.getD_some] at key
      refine ⟨?_, hI.keyed, ?_⟩
      · simp only []; rw [key]; exact nodupAll_step _ hI.nodup _
      · intro j o h hm
        simp only [] at hm ⊢
        rw [key] at hm
        exact hI.owned j o h (mem_unsub_step _ _ _ _ _ hm)
  | setNode o =>
    simp only [step, setNode]
    cases hn : n.nodes (E.nid o) with
    | none =>
      simp only []
      apply inv_attach E n n.subs o _ hI.nodup hI.keyed
      intro id o' h hm
      obtain ⟨hreg, hmem⟩ := hI.owned id o' h hm
      refine ⟨?_, hreg, hmem⟩
      intro e
      rw [e, hn] at hreg
      exact absurd hreg (by simp)
    | some old =>
      simp only []
      obtain ⟨hsub, hnd, hgone⟩ := inv_detach E n hI old
      by_cases hd : (detach E n old).2 = true
      · simp only [hd, if_true]
        apply inv_attach E n (detach E n old).1 o _ hnd hI.keyed
        intro id o' h hm
        obtain ⟨hreg, hmem⟩ := hI.owned id o' h (hsub _ _ hm)
        refine ⟨?_, hreg, hmem⟩
        intro e
        rw [e, hn] at hreg
        simp only [Option.some.injEq] at hreg
        rw [← hreg] at hm
        exact hgone hd id h hm
      · simp only [hd]
        exact ⟨hnd, hI.keyed, fun id o' h hm => hI.owned id o' h (hsub _ _ hm)⟩
  | delNode nid =>
    simp only [step, delNode]
    cases hn : n.nodes nid with
    | none => exact hI
    | some old =>
      simp only []
      obtain ⟨hsub, hnd, hgone⟩ := inv_detach E n hI old
      by_cases hd : (detach E n old).2 = true
      · simp only [hd, if_true]
        refine ⟨hnd, ?_, ?_⟩
        · intro nid' o' h
          simp only [setNodes] at h
          by_cases hnn : nid' = nid
          · simp [hnn] at h
          · simp only [hnn, if_false] at h
            exact hI.keyed nid' o' h
        · intro id o' h hm
          simp only [] at hm ⊢
          obtain ⟨hreg, hmem⟩ := hI.owned id o' h (hsub _ _ hm)
          refine ⟨?_, hmem⟩
          by_cases hnn : E.nid o' = nid
          · rw [hnn, hn] at hreg
            simp only [Option.some.injEq] at hreg
            rw [← hreg] at hm
            exact absurd hm (hgone hd id h)
          · simp only [setNodes, hnn, if_false]
            exact hreg
      · simp only [hd]
        exact ⟨hnd, hI.keyed, fun id o' h hm => hI.owned id o' h (hsub _ _ hm)⟩
  | addSdo o tx =>
    simp only [step, addSdo]
    by_cases hl : E.isLocal o = true
    · simp only [hl, if_true]
      exact hI
    · have hl' : E.isLocal o = false := by simpa using hl
      simp only [hl', Bool.false_eq_true, if_false]
      by_cases hr : n.nodes (E.nid o) = some o
      · simp only [hr, if_true]
        refine ⟨?_, hI.keyed, ?_⟩
        · simp only []
          rw [abs_subscribe]
          exact nodupAll_step _ hI.nodup (.sub _ _)
        · intro j o' h hm
          simp only [] at hm ⊢
          rw [abs_subscribe, mem_subscribe] at hm
          rcases hm with hm | ⟨hj, hm⟩
          · obtain ⟨hreg, hmem⟩ := hI.owned j o' h hm
            exact ⟨hreg, assoc_mono E n.extra o' o tx _ hmem⟩
          · simp only [Cb.node.injEq] at hm
            obtain ⟨rfl, rfl⟩ := hm
            subst hj
            exact ⟨hr, assoc_new_channel E n.extra o' _ hl'⟩
      · simp only [hr, if_false]
        refine ⟨hI.nodup, hI.keyed, ?_⟩
        intro j o' h hm
        obtain ⟨hreg, hmem⟩ := hI.owned j o' h hm
        exact ⟨hreg, assoc_mono E n.extra o' o tx _ hmem⟩
  | notify f =>
    simp only [step]
    obtain ⟨h1, h2, h3⟩ := notify_frame E n f
    exact ⟨by rw [h1]; exact hI.nodup, by rw [h2]; exact hI.keyed,
      by rw [h1, h2, h3]; exact hI.owned⟩
  | receive m =>
    simp only [step]
    obtain ⟨h1, h2, h3⟩ := receive_frame E n m
    exact ⟨by rw [h1]; exact hI.nodup, by rw [h2]; exact hI.keyed,
      by rw [h1, h2, h3]; exact hI.owned⟩
  | scanReset => exact ⟨hI.nodup, hI.keyed, hI.owned⟩

/-- the invariant survives every operation, the mapping mix-ins included (they are made of
    `__setitem__` / `__delitem__` calls) -/
theorem inv_step (E : Env) (n : Net) (op : Op) (hI : Inv E n) (hop : NoManualNodeSub op) :
    Inv E (step E n op).1 := by
  apply step_lift E (Inv E) NoManualNodeSub
    (fun n op hb hc hP => inv_step_basic E n op hb hP hc) n op _ hI
  intro x hx
  rcases itemOps_mem E n op x hx with ⟨rfl, _⟩ | ⟨o, rfl, _⟩ | ⟨k, rfl⟩
  · exact hop
  · trivial
  · trivial

theorem inv_run (E : Env) (ops : List Op) (n : Net) (hI : Inv E n)
    (hops : ∀ op ∈ ops, NoManualNodeSub op) : Inv E (run E n ops).1 := by
  induction ops generalizing n with
  | nil => exact hI
  | cons op r ih =>
    simp only [run]
    exact ih _ (inv_step E n op hI (hops op (by simp))) (fun x hx => hops x (by simp [hx]))

/-! ## the node table: `Network.nodes` and its iteration order -/

theorem notify_keys (E : Env) (n : Net) (f : Frame) : (notify E n f).1.keys = n.keys := by
  unfold notify
  simp only []
  split <;> rfl

theorem receive_keys (E : Env) (n : Net) (m : BusMsg) : (receive E n m).1.keys = n.keys := by
  unfold receive
  split
  · rfl
  · exact notify_keys E n _

/-- only `__setitem__` / `__delitem__` touch the node table -/
theorem basic_other_table (E : Env) (n : Net) (op : Op) (hb : Basic op)
    (h1 : ∀ o, op ≠ .setNode o) (h2 : ∀ k, op ≠ .delNode k) :
    (step E n op).1.nodes = n.nodes ∧ (step E n op).1.keys = n.keys := by
  cases op with
  | popNode nid d => simp only [Basic] at hb
  | popItem => simp only [Basic] at hb
  | clear => simp only [Basic] at hb
  | update os => simp only [Basic] at hb
  | setDefault o => simp only [Basic] at hb
  | subscribe id cb => exact ⟨rfl, rfl⟩
  | unsubscribe id cb =>
    simp only [step]
    split <;> exact ⟨rfl, rfl⟩
  | setNode o => exact absurd rfl (h1 o)
  | delNode k => exact absurd rfl (h2 k)
  | addSdo o tx =>
    simp only [step, addSdo]
    split <;> exact ⟨rfl, rfl⟩
  | notify f => exact ⟨(notify_frame E n f).2.1, notify_keys E n f⟩
  | receive m => exact ⟨(receive_frame E n m).2.1, receive_keys E n m⟩
  | scanReset => exact ⟨rfl, rfl⟩

/-- `network[o.id] = o`: stored under its own id (a new key goes last) — or, when the removal of
    the old node raised, nothing stored -/
theorem setNode_table (E : Env) (n : Net) (o : Nat) :
    ((setNode E n o).2 = true →
      (setNode E n o).1.nodes = setNodes n.nodes (E.nid o) (some o) ∧
      (setNode E n o).1.keys = insertKey n.keys (E.nid o)) ∧
    ((setNode E n o).2 = false →
      (setNode E n o).1.nodes = n.nodes ∧ (setNode E n o).1.keys = n.keys) := by
  unfold setNode
  cases hn : n.nodes (E.nid o) with
  | none => simp
  | some old =>
    simp only []
    by_cases hd : (detach E n old).2 = true
    · simp [hd]
    · simp [hd]

/-- `del network[k]`: the key is gone — or, when the node id is free or the removal raised, nothing
    changed in the table -/
theorem delNode_table (E : Env) (n : Net) (k : Nat) :
    ((delNode E n k).2 = true →
      (delNode E n k).1.nodes = setNodes n.nodes k none ∧
      (delNode E n k).1.keys = n.keys.erase k ∧ n.nodes k ≠ none) ∧
    ((delNode E n k).2 = false →
      (delNode E n k).1.nodes = n.nodes ∧ (delNode E n k).1.keys = n.keys) := by
  unfold delNode
  cases hn : n.nodes k with
  | none => simp
  | some old =>
    simp only []
    by_cases hd : (detach E n old).2 = true
    · simp [hd]
    · simp [hd]

/-- `len`, `in` and iteration tell the same story as `network[id]`: the iteration lists every node
    id that holds a node, once -/
structure KeysInv (n : Net) : Prop where
  nodup : n.keys.Nodup
  mem : ∀ nid, nid ∈ n.keys ↔ n.nodes nid ≠ none

theorem keysInv_init : KeysInv init := ⟨by simp [init], by intro nid; simp [init]⟩

theorem keysInv_setNode (n : Net) (h : KeysInv n) (nid o : Nat) (m : Net)
    (h1 : m.nodes = setNodes n.nodes nid (some o)) (h2 : m.keys = insertKey n.keys nid) :
    KeysInv m := by
  refine ⟨?_, ?_⟩
  · rw [h2]
    unfold insertKey
    split
    · exact h.nodup
    · rename_i hk
      rw [List.nodup_append]
      refine ⟨h.nodup, by simp, ?_⟩
      intro a ha b hb
      simp only [List.mem_singleton] at hb
      subst hb
      intro e
      subst e
      exact hk ha
  · intro j
    rw [h1, h2]
    simp only [insertKey, setNodes]
    by_cases hj : j = nid
    · subst hj
      split <;> simp [*]
    · have := h.mem j
      split <;> simp [hj, this]

theorem keysInv_delNode (n : Net) (h : KeysInv n) (k : Nat) (m : Net)
    (h1 : m.nodes = setNodes n.nodes k none) (h2 : m.keys = n.keys.erase k) : KeysInv m := by
  refine ⟨by rw [h2]; exact h.nodup.erase k, ?_⟩
  intro j
  rw [h1, h2, h.nodup.mem_erase_iff]
  simp only [setNodes]
  by_cases hj : j = k
  · simp [hj]
  · simp [hj, h.mem j]

theorem keysInv_step_basic (E : Env) (n : Net) (op : Op) (hb : Basic op) (h : KeysInv n) :
    KeysInv (step E n op).1 := by
  by_cases h1 : ∃ o, op = .setNode o
  · obtain ⟨o, rfl⟩ := h1
    simp only [step]
    cases hok : (setNode E n o).2 with
    | true =>
      obtain ⟨a, b⟩ := (setNode_table E n o).1 hok
      exact keysInv_setNode n h _ o _ a b
    | false =>
      obtain ⟨a, b⟩ := (setNode_table E n o).2 hok
      exact ⟨by rw [b]; exact h.nodup, by intro j; rw [a, b]; exact h.mem j⟩
  · by_cases h2 : ∃ k, op = .delNode k
    · obtain ⟨k, rfl⟩ := h2
      simp only [step]
      cases hok : (delNode E n k).2 with
      | true =>
        obtain ⟨a, b, _⟩ := (delNode_table E n k).1 hok
        exact keysInv_delNode n h k _ a b
      | false =>
        obtain ⟨a, b⟩ := (delNode_table E n k).2 hok
        exact ⟨by rw [b]; exact h.nodup, by intro j; rw [a, b]; exact h.mem j⟩
    · obtain ⟨a, b⟩ := basic_other_table E n op hb (fun o e => h1 ⟨o, e⟩) (fun k e => h2 ⟨k, e⟩)
      exact ⟨by rw [b]; exact h.nodup, by intro j; rw [a, b]; exact h.mem j⟩

theorem keysInv_step (E : Env) (n : Net) (op : Op) (h : KeysInv n) : KeysInv (step E n op).1 :=
  step_lift E KeysInv (fun _ => True) (fun n op hb _ hP => keysInv_step_basic E n op hb hP) n op
    (fun _ _ => trivial) h

theorem keysInv_run (E : Env) (ops : List Op) (n : Net) (h : KeysInv n) :
    KeysInv (run E n ops).1 := by
  induction ops generalizing n with
  | nil => exact h
  | cons op r ih =>
    simp only [run]
    exact ih _ (keysInv_step E n op h)

/-! ## `update`: what the table holds afterwards -/

theorem setNode_nodes_other (E : Env) (n : Net) (o nid : Nat) (h : nid ≠ E.nid o) :
    (setNode E n o).1.nodes nid = n.nodes nid := by
  cases hok : (setNode E n o).2 with
  | true => rw [((setNode_table E n o).1 hok).1]; simp [setNodes, h]
  | false => rw [((setNode_table E n o).2 hok).1]

theorem updateNodes_nodes_other (E : Env) (os : List Nat) (n : Net) (nid : Nat)
    (h : ∀ o ∈ os, E.nid o ≠ nid) : (updateNodes E n os).1.nodes nid = n.nodes nid := by
  induction os generalizing n with
  | nil => rfl
  | cons o r ih =>
    have ho : nid ≠ E.nid o := fun e => h o (by simp) e.symm
    simp only [updateNodes]
    split
    · rw [ih _ (fun x hx => h x (by simp [hx]))]
      exact setNode_nodes_other E n o nid ho
    · exact setNode_nodes_other E n o nid ho

/-- after an `update` that returned normally, every node id it names holds one of the objects it
    was given -/
theorem updateNodes_nodes (E : Env) (os : List Nat) (n : Net) (nid : Nat)
    (hok : (updateNodes E n os).2 = true) (h : ∃ o ∈ os, E.nid o = nid) :
    ∃ o ∈ os, (updateNodes E n os).1.nodes nid = some o := by
  induction os generalizing n with
  | nil => simp at h
  | cons o r ih =>
    simp only [updateNodes] at hok ⊢
    by_cases hs : (setNode E n o).2 = true
    · simp only [hs, if_true] at hok ⊢
      by_cases hr : ∃ o' ∈ r, E.nid o' = nid
      · obtain ⟨o'', ho'', hn⟩ := ih _ hok hr
        exact ⟨o'', by simp [ho''], hn⟩
      · have ho : E.nid o = nid := by
          obtain ⟨x, hx, hxn⟩ := h
          rcases List.mem_cons.mp hx with rfl | hx
          · exact hxn
          · exact absurd ⟨x, hx, hxn⟩ hr
        refine ⟨o, by simp, ?_⟩
        rw [updateNodes_nodes_other E r _ nid (fun x hx e => hr ⟨x, hx, e⟩),
          ((setNode_table E n o).1 hs).1]
        simp [setNodes, ho]
    · simp [hs] at hok
end Canopen.C10
