/-
Helper lemmas about little-endian byte strings and two's complement (core Lean only).
Property theorems live in CanopenProofs/Cxx.lean, never here.
-/
import CanopenModel.Bytes

namespace Canopen

theorem pow256 (k : Nat) : 256 ^ k = 2 ^ (8 * k) := by
  rw [Nat.pow_mul]

@[simp] theorem leBytes_length (k n : Nat) : (leBytes k n).length = k := by
  induction k generalizing n with
  | zero => rfl
  | succ k ih => simp [leBytes, ih]

theorem leBytes_allBytes (k n : Nat) : AllBytes (leBytes k n) := by
  induction k generalizing n with
  | zero => intro b hb; simp [leBytes] at hb
  | succ k ih =>
    intro b hb
    simp only [leBytes, List.mem_cons] at hb
    rcases hb with rfl | hb
    · exact Nat.mod_lt _ (by decide)
    · exact ih _ b hb

theorem leVal_leBytes (k n : Nat) : leVal (leBytes k n) = n % 256 ^ k := by
  induction k generalizing n with
  | zero => simp [leBytes, leVal, Nat.mod_one]
  | succ k ih =>
    simp only [leBytes, leVal, ih, Nat.pow_succ]
    rw [Nat.mul_comm (256 ^ k) 256, Nat.mod_mul]

theorem leVal_lt (bs : Bytes) (h : AllBytes bs) : leVal bs < 256 ^ bs.length := by
  induction bs with
  | nil => simp [leVal]
  | cons b bs ih =>
    have hb : b < 256 := h b (by simp)
    have := ih (fun x hx => h x (by simp [hx]))
    simp only [leVal, List.length_cons, Nat.pow_succ]
    omega

theorem leBytes_leVal (bs : Bytes) (h : AllBytes bs) : leBytes bs.length (leVal bs) = bs := by
  induction bs with
  | nil => rfl
  | cons b bs ih =>
    have hb : b < 256 := h b (by simp)
    have := ih (fun x hx => h x (by simp [hx]))
    simp only [List.length_cons, leBytes, leVal]
    rw [Nat.add_mul_mod_self_left, Nat.mod_eq_of_lt hb]
    have : (b + 256 * leVal bs) / 256 = leVal bs := by omega
    rw [this]; simp [*]

theorem leBytes_mod (k n : Nat) : leBytes k (n % 256 ^ k) = leBytes k n := by
  induction k generalizing n with
  | zero => rfl
  | succ k ih =>
    simp only [leBytes, Nat.pow_succ]
    congr 1
    · rw [Nat.mul_comm, Nat.mod_mul_right_mod]
    · rw [← ih (n / 256), ← ih (n % (256 ^ k * 256) / 256)]
      congr 1
      rw [Nat.mul_comm (256 ^ k) 256, Nat.mod_mul_right_div_self]
      exact (Nat.mod_mod _ _).symm ▸ rfl

theorem leBytes_take (k j n : Nat) (h : j ≤ k) : (leBytes k n).take j = leBytes j n := by
  induction j generalizing k n with
  | zero => simp [leBytes]
  | succ j ih =>
    cases k with
    | zero => omega
    | succ k => simp [leBytes, ih k (n / 256) (by omega)]

theorem leBytes_inj (k a b : Nat) (ha : a < 256 ^ k) (hb : b < 256 ^ k)
    (h : leBytes k a = leBytes k b) : a = b := by
  have := congrArg leVal h
  rwa [leVal_leBytes, leVal_leBytes, Nat.mod_eq_of_lt ha, Nat.mod_eq_of_lt hb] at this

theorem leVal_append (a b : Bytes) : leVal (a ++ b) = leVal a + 256 ^ a.length * leVal b := by
  induction a with
  | nil => simp [leVal]
  | cons x a ih =>
    simp only [List.cons_append, leVal, ih, List.length_cons, Nat.pow_succ]
    rw [Nat.mul_add, Nat.mul_comm (256 ^ a.length) 256, Nat.mul_assoc, Nat.add_assoc]

theorem leVal_replicate_zero (m : Nat) : leVal (List.replicate m 0) = 0 := by
  induction m with
  | zero => rfl
  | succ m ih => simp [List.replicate_succ, leVal, ih]

theorem leVal_replicate_ff (m : Nat) : leVal (List.replicate m 255) + 1 = 256 ^ m := by
  induction m with
  | zero => rfl
  | succ m ih =>
    simp only [List.replicate_succ, leVal, Nat.pow_succ]
    omega

theorem allBytes_append {a b : Bytes} (ha : AllBytes a) (hb : AllBytes b) : AllBytes (a ++ b) := by
  intro x hx
  rcases List.mem_append.mp hx with h | h
  · exact ha x h
  · exact hb x h

/-! ### two's complement -/

theorem two_pow_pred (w : Nat) (hw : 0 < w) : 2 ^ w = 2 * 2 ^ (w - 1) := by
  cases w with
  | zero => omega
  | succ w => simp [Nat.pow_succ, Nat.mul_comm]

theorem ofSigned_lt (w : Nat) (i : Int) : ofSigned w i < 2 ^ w := by
  unfold ofSigned
  have hpos : (0 : Int) < ((2 ^ w : Nat) : Int) := by
    exact Int.natCast_pos.mpr (Nat.pow_pos (by decide))
  have h1 := Int.emod_lt_of_pos i hpos
  have h0 := Int.emod_nonneg i (Int.ne_of_gt hpos)
  omega

theorem toSigned_ofSigned (w : Nat) (hw : 0 < w) (i : Int) (h : inRange w true i = true) :
    toSigned w (ofSigned w i) = i := by
  have h2 := two_pow_pred w hw
  simp only [inRange, if_true, Bool.and_eq_true, decide_eq_true_eq] at h
  unfold toSigned ofSigned
  generalize hX : 2 ^ (w - 1) = X at *
  rw [h2]
  have hXpos : 0 < X := by rw [← hX]; exact Nat.pow_pos (by decide)
  by_cases hi : 0 ≤ i
  · have : i % ((2 * X : Nat) : Int) = i := Int.emod_eq_of_lt hi (by omega)
    rw [this]
    have : i.toNat < X := by omega
    simp [this]; omega
  · have : i % ((2 * X : Nat) : Int) = i + ((2 * X : Nat) : Int) := by
      rw [← Int.add_emod_right]
      exact Int.emod_eq_of_lt (by omega) (by omega)
    rw [this]
    have : ¬ (i + ((2 * X : Nat) : Int)).toNat < X := by omega
    simp [this]; omega

theorem ofSigned_toSigned (w : Nat) (hw : 0 < w) (n : Nat) (h : n < 2 ^ w) :
    ofSigned w (toSigned w n) = n := by
  have h2 := two_pow_pred w hw
  unfold toSigned ofSigned
  generalize hX : 2 ^ (w - 1) = X at *
  rw [h2] at h ⊢
  split
  · have : (n : Int) % ((2 * X : Nat) : Int) = n := Int.emod_eq_of_lt (by omega) (by omega)
    rw [this]; simp
  · have : ((n : Int) - ((2 * X : Nat) : Int)) % ((2 * X : Nat) : Int) = n := by
      rw [Int.sub_emod_right]
      exact Int.emod_eq_of_lt (by omega) (by omega)
    rw [this]; simp

theorem toSigned_inRange (w : Nat) (hw : 0 < w) (n : Nat) (h : n < 2 ^ w) :
    inRange w true (toSigned w n) = true := by
  have h2 := two_pow_pred w hw
  unfold toSigned inRange
  generalize hX : 2 ^ (w - 1) = X at *
  simp only [if_true, Bool.and_eq_true, decide_eq_true_eq]
  split <;> omega

theorem ofSigned_nonneg (w : Nat) (i : Int) (h : inRange w false i = true) :
    ((ofSigned w i : Nat) : Int) = i := by
  simp only [inRange, Bool.false_eq_true, if_false, Bool.and_eq_true, decide_eq_true_eq] at h
  unfold ofSigned
  rw [Int.emod_eq_of_lt h.1 h.2]
  omega

end Canopen
