/-
C17 helper lemmas, fourth layer: who writes the `period` attributes.  `periodOf s o` is the period a
`start()` without argument of producer `o` would use (`sync.period`, `PdoMap.period`); every API call
other than a start with a period, an assignment to the attribute and (for a PDO map that does not
transmit) a received frame leaves it alone (`period_kept`).
-/
import CanopenProofs.Lemmas.PeriodicCurrent

namespace Canopen.Periodic

variable {c : Cfg} {s : State}

/-- the remembered period of a producer whose `start()` takes an optional period -/
def periodOf (s : State) : Owner → Option Nat
  | .sync => s.syncPeriod
  | .pdo n k => (s.pdo n k).period
  | _ => none

/-- both period-bearing attributes are untouched -/
def Keeps (s' s : State) : Prop := s'.syncPeriod = s.syncPeriod ∧ s'.pdo = s.pdo

theorem Keeps.refl (s : State) : Keeps s s := ⟨rfl, rfl⟩

theorem Keeps.trans {s1 s2 s3 : State} (h12 : Keeps s1 s2) (h23 : Keeps s2 s3) : Keeps s1 s3 :=
  ⟨h12.1.trans h23.1, h12.2.trans h23.2⟩

theorem Keeps.periodOf {s' : State} (h : Keeps s' s) (o : Owner) : periodOf s' o = periodOf s o := by
  cases o <;> simp [Periodic.periodOf, h.1, h.2]

theorem keeps_startSlot (s : State) (o : Owner) (id : Option Nat) (d : Bytes) (p : Nat) (r : Bool) :
    Keeps (startSlot s o id d p r).1 s := by
  rcases startSlot_cases s o id d p r with he | ⟨v, _, _, he⟩
  · rw [he]; exact Keeps.refl s
  · rw [he]; exact ⟨rfl, rfl⟩

theorem keeps_startIfValid (s : State) (o : Owner) (period id : Option Nat) (d : Bytes) :
    Keeps (startIfValid s o period id d).1 s := by
  unfold startIfValid
  split
  · exact Keeps.refl s
  · exact keeps_startSlot _ _ _ _ _ _

theorem keeps_stopClear (s : State) (o : Owner) : Keeps (stopClear s o) s := ⟨by simp, by simp⟩
theorem keeps_stopKeep (s : State) (o : Owner) : Keeps (stopKeep s o) s := ⟨by simp, by simp⟩
theorem keeps_updateSlot (c : Cfg) (s : State) (o : Owner) (d : Bytes) : Keeps (updateSlot c s o d) s :=
  ⟨by simp, by simp⟩
theorem keeps_setSlave (s : State) (n : Nat) (v : SlaveF) : Keeps (setSlave s n v) s := ⟨rfl, rfl⟩

theorem keeps_stopAll (l : List (Nat × Nat)) (s : State) : Keeps (stopAll s l) s := by
  induction l generalizing s with
  | nil => exact Keeps.refl s
  | cons e r ih => obtain ⟨n, k⟩ := e; exact (ih _).trans (keeps_stopClear s _)

theorem keeps_hbStart (s : State) (n : Nat) (ms : Int) : Keeps (hbStart s n ms).1 s := by
  unfold hbStart hbStop
  simp only []
  have h2 : Keeps (stopClear (setSlave s n { s.slave n with hbTime := ms }) (.hb n)) s :=
    (keeps_stopClear _ _).trans (keeps_setSlave _ _ _)
  split
  · exact (keeps_startSlot _ _ _ _ _ _).trans h2
  · exact h2

theorem keeps_onWrite (s : State) (n idx : Nat) (d : Bytes) : Keeps (onWrite s n idx d).1 s := by
  unfold onWrite
  split
  · split
    · simp only []
      split
      · exact keeps_stopClear _ _
      · exact keeps_hbStart _ _ _
    · exact Keeps.refl s
  · exact Keeps.refl s

theorem keeps_writeHbTime (s : State) (n v : Nat) : Keeps (writeHbTime s n v).1 s := by
  unfold writeHbTime
  have h1 := keeps_onWrite s n 0x1017 (leBytes 2 v)
  split
  · simp only []
    split
    · exact (keeps_setSlave _ _ _).trans h1
    · exact h1
  · exact Keeps.refl s

theorem keeps_applyCmd (s : State) (n code : Nat) : Keeps (applyCmd s n code) s := by
  unfold applyCmd
  split
  · exact keeps_setSlave _ _ _
  · exact Keeps.refl s

theorem keeps_hbUpdate (c : Cfg) (s : State) (n : Nat) : Keeps (hbUpdate c s n) s := keeps_updateSlot _ _ _ _

theorem keeps_sendCommandTail (c : Cfg) (s : State) (n old : Nat) : Keeps (sendCommandTail c s n old).1 s := by
  unfold sendCommandTail
  split
  · split
    · exact Keeps.refl s
    · exact keeps_hbStart _ _ _
  · exact keeps_hbUpdate _ _ _

theorem keeps_sendCommand (c : Cfg) (s : State) (n code : Nat) : Keeps (sendCommand c s n code).1 s := by
  unfold sendCommand
  simp only []
  split
  · exact keeps_applyCmd _ _ _
  · exact (keeps_sendCommandTail _ _ _ _).trans (keeps_applyCmd _ _ _)

theorem keeps_setState (c : Cfg) (s : State) (n : Nat) (name : String) : Keeps (setState c s n name).1 s := by
  unfold setState
  split
  · exact keeps_sendCommand _ _ _ _
  · exact Keeps.refl s

theorem keeps_onCommand (c : Cfg) (s : State) (cmd nid n : Nat) : Keeps (onCommand c s cmd nid n) s := by
  unfold onCommand
  simp only []
  refine (keeps_hbUpdate _ _ _).trans ?_
  split
  · exact keeps_applyCmd _ _ _
  · exact Keeps.refl s

theorem keeps_onCommandAll (c : Cfg) (cmd nid : Nat) (l : List Nat) (s : State) :
    Keeps (onCommandAll c s cmd nid l) s := by
  induction l generalizing s with
  | nil => exact Keeps.refl s
  | cons n r ih => exact (ih _).trans (keeps_onCommand _ _ _ _ _)

theorem keeps_nmtFrame (c : Cfg) (s : State) (d : Bytes) : Keeps (nmtFrame c s d).1 s := by
  unfold nmtFrame
  split
  · exact keeps_onCommandAll _ _ _ _ _
  · exact Keeps.refl s

theorem keeps_guardStart (s : State) (n p : Nat) : Keeps (guardStart s n p).1 s := by
  unfold guardStart guardStop
  simp only []
  cases s.slots (.guard n) with
  | none => exact keeps_startSlot _ _ _ _ _ _
  | some t => exact (keeps_startSlot _ _ _ _ _ _).trans (keeps_stopClear _ _)

theorem keeps_disconnect (c : Cfg) (s : State) : Keeps (disconnect c s) s := by
  unfold disconnect
  exact ⟨(keeps_stopAll c.pdos s).1, (keeps_stopAll c.pdos s).2⟩

theorem keeps_syncStart_none (c : Cfg) (s : State) : Keeps (syncStart c s none).1 s := by
  unfold syncStart
  exact (keeps_startIfValid _ _ _ _ _).trans (keeps_stopKeep _ _)

theorem keeps_pdoStart_none (s : State) (n k : Nat) : Keeps (pdoStart s n k none).1 s := by
  unfold pdoStart
  exact (keeps_startIfValid _ _ _ _ _).trans (keeps_stopClear _ _)

/-! ### calls that write one of the attributes -/

theorem syncStart_pdo (c : Cfg) (s : State) (p : Option Nat) : (syncStart c s p).1.pdo = s.pdo := by
  unfold syncStart
  cases p with
  | none => exact ((keeps_startIfValid _ _ _ _ _).trans (keeps_stopKeep _ _)).2
  | some v =>
    simp only []
    rw [(keeps_startIfValid _ _ _ _ _).2]
    simp

theorem syncStart_some_period (c : Cfg) (s : State) (v : Nat) : (syncStart c s (some v)).1.syncPeriod = some v := by
  unfold syncStart
  simp only []
  rw [(keeps_startIfValid _ _ _ _ _).1]

theorem pdoStart_syncPeriod (s : State) (n k : Nat) (p : Option Nat) :
    (pdoStart s n k p).1.syncPeriod = s.syncPeriod := by
  unfold pdoStart
  cases p with
  | none => exact ((keeps_startIfValid _ _ _ _ _).trans (keeps_stopClear _ _)).1
  | some v =>
    simp only []
    rw [(keeps_startIfValid _ _ _ _ _).1]
    simp

theorem pdoStart_pdo_ne (s : State) {n k n' k' : Nat} (p : Option Nat) (h : ¬(n' = n ∧ k' = k)) :
    (pdoStart s n k p).1.pdo n' k' = s.pdo n' k' := by
  unfold pdoStart
  cases p with
  | none => rw [((keeps_startIfValid _ _ _ _ _).trans (keeps_stopClear _ _)).2]
  | some v =>
    simp only []
    rw [(keeps_startIfValid _ _ _ _ _).2, setPdo_ne _ _ h]
    simp

theorem pdoStart_some_period (s : State) (n k v : Nat) : ((pdoStart s n k (some v)).1.pdo n k).period = some v := by
  unfold pdoStart
  simp only []
  rw [(keeps_startIfValid _ _ _ _ _).2, setPdo_same]

theorem pdoUpdate_syncPeriod (c : Cfg) (s : State) (n k : Nat) (d : Bytes) :
    (pdoUpdate c s n k d).syncPeriod = s.syncPeriod := by
  unfold pdoUpdate; simp

theorem pdoUpdate_period (c : Cfg) (s : State) (n k n' k' : Nat) (d : Bytes) :
    ((pdoUpdate c s n k d).pdo n' k').period = (s.pdo n' k').period := by
  unfold pdoUpdate
  simp only [updateSlot_pdo]
  by_cases h : n' = n ∧ k' = k
  · obtain ⟨rfl, rfl⟩ := h; simp
  · rw [setPdo_ne _ _ h]

theorem pdoSetByte_syncPeriod (c : Cfg) (s : State) (n k i v : Nat) :
    (pdoSetByte c s n k i v).1.syncPeriod = s.syncPeriod := by
  unfold pdoSetByte
  split
  · exact pdoUpdate_syncPeriod _ _ _ _ _
  · rfl

theorem pdoSetByte_period (c : Cfg) (s : State) (n k i v n' k' : Nat) :
    ((pdoSetByte c s n k i v).1.pdo n' k').period = (s.pdo n' k').period := by
  unfold pdoSetByte
  split
  · exact pdoUpdate_period _ _ _ _ _ _ _
  · rfl

theorem pdoReceive_syncPeriod (s : State) (n k dt : Nat) (d : Bytes) :
    (pdoReceive s n k dt d).syncPeriod = s.syncPeriod := by
  unfold pdoReceive
  simp only []
  split <;> rfl

theorem pdoReceive_pdo_ne (s : State) {n k n' k' : Nat} (dt : Nat) (d : Bytes) (h : ¬(n' = n ∧ k' = k)) :
    (pdoReceive s n k dt d).pdo n' k' = s.pdo n' k' := by
  unfold pdoReceive
  simp only []
  split
  · rfl
  · rw [setPdo_ne _ _ h]

/-! ### the frame lemma -/

/-- the calls that can write the `period` attribute of producer `o` -/
def touches (o : Owner) : Op → Bool
  | .syncStart (some _) => decide (o = .sync)
  | .syncSetPeriod _ => decide (o = .sync)
  | .pdoStart n k (some _) => decide (o = .pdo n k)
  | .pdoSetPeriod n k _ => decide (o = .pdo n k)
  | .pdoReceive n k _ _ => decide (o = .pdo n k)
  | _ => false

theorem pdo_ne_of {n k n' k' : Nat} (h : ¬(Owner.pdo n' k' = Owner.pdo n k)) : ¬(n' = n ∧ k' = k) := by
  rintro ⟨rfl, rfl⟩; exact h rfl

theorem period_kept_exec (c : Cfg) (s : State) (op : Op) (o : Owner) (ht : touches o op = false) :
    periodOf (exec c s op).1 o = periodOf s o := by
  cases op with
  | syncStart p =>
    cases p with
    | none => exact (keeps_syncStart_none c s).periodOf o
    | some v =>
      cases o with
      | sync => simp [touches] at ht
      | pdo n k => simp only [periodOf, exec, syncStart_pdo]
      | _ => rfl
  | syncStop => exact (keeps_stopKeep s .sync).periodOf o
  | syncSetPeriod p =>
    cases o with
    | sync => simp [touches] at ht
    | _ => rfl
  | pdoSetPeriod n k p =>
    cases o with
    | pdo n' k' =>
      have h : ¬(Owner.pdo n' k' = Owner.pdo n k) := by simpa [touches] using ht
      simp only [periodOf, exec, pdoSetPeriod, setPdo_ne _ _ (pdo_ne_of h)]
    | _ => rfl
  | pdoReceive n k dt d =>
    cases o with
    | sync => exact pdoReceive_syncPeriod s n k dt d
    | pdo n' k' =>
      have h : ¬(Owner.pdo n' k' = Owner.pdo n k) := by simpa [touches] using ht
      simp only [periodOf, exec, pdoReceive_pdo_ne _ _ _ (pdo_ne_of h)]
    | _ => rfl
  | pdoStart n k p =>
    cases p with
    | none => exact (keeps_pdoStart_none s n k).periodOf o
    | some v =>
      cases o with
      | sync => exact pdoStart_syncPeriod s n k _
      | pdo n' k' =>
        have h : ¬(Owner.pdo n' k' = Owner.pdo n k) := by simpa [touches] using ht
        simp only [periodOf, exec, pdoStart_pdo_ne _ _ (pdo_ne_of h)]
      | _ => rfl
  | pdoStop n k => exact (keeps_stopClear s _).periodOf o
  | pdoUpdate n k d =>
    cases o with
    | sync => exact pdoUpdate_syncPeriod c s n k d
    | pdo n' k' => exact pdoUpdate_period c s n k n' k' d
    | _ => rfl
  | pdoSetByte n k i v =>
    cases o with
    | sync => exact pdoSetByte_syncPeriod c s n k i v
    | pdo n' k' => exact pdoSetByte_period c s n k i v n' k'
    | _ => rfl
  | pdoStopNode n => exact (keeps_stopAll _ s).periodOf o
  | hbStart n ms => exact (keeps_hbStart s n ms).periodOf o
  | hbStop n => exact (keeps_stopClear s _).periodOf o
  | hbUpdate n => exact (keeps_hbUpdate c s n).periodOf o
  | hbWrite n v => exact (keeps_writeHbTime s n v).periodOf o
  | hbSdoWrite n v => exact (keeps_writeHbTime s n v).periodOf o
  | onWrite n idx d => exact (keeps_onWrite s n idx d).periodOf o
  | sendCommand n code => exact (keeps_sendCommand c s n code).periodOf o
  | setState n name => exact (keeps_setState c s n name).periodOf o
  | nmtFrame d => exact (keeps_nmtFrame c s d).periodOf o
  | guardStart n p => exact (keeps_guardStart s n p).periodOf o
  | guardStop n => exact (keeps_stopClear s _).periodOf o
  | disconnect => exact (keeps_disconnect c s).periodOf o
  | exitWith w => exact (keeps_disconnect c s).periodOf o
  | connect => cases o <;> rfl

theorem period_kept_step (c : Cfg) (s : State) (op : Op) (o : Owner) (ht : touches o op = false) :
    periodOf (step c s op).1 o = periodOf s o := by
  unfold step
  split
  · exact period_kept_exec c s op o ht
  · rfl

theorem period_kept_run (c : Cfg) (s : State) (ops : List Op) (o : Owner)
    (ht : ∀ op ∈ ops, touches o op = false) : periodOf (run c s ops) o = periodOf s o := by
  induction ops generalizing s with
  | nil => rfl
  | cons op r ih =>
    simp only [run]
    rw [ih _ (fun op' hm => ht op' (List.mem_cons_of_mem _ hm))]
    exact period_kept_step c s op o (ht op (by simp))

theorem run_append (c : Cfg) (s : State) (a b : List Op) : run c s (a ++ b) = run c (run c s a) b := by
  induction a generalizing s with
  | nil => rfl
  | cons op r ih => simp only [List.cons_append, run]; exact ih _

end Canopen.Periodic
