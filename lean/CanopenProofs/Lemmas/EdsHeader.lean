/-
Lemmas about the header part of `import_eds` (FileInfo, Comments, DeviceInfo, DeviceComissioning,
DummyUsage) on documents made by the independent writer, and the assembly of the whole-document
statement.
-/
import CanopenProofs.Lemmas.EdsSections

namespace Canopen.Spec.EdsWriter
open Canopen.Eds Canopen.Gen.Datatypes Canopen.Gen.EdsTables

/-! ### `[DeviceInfo]` lookups -/

theorem dictGet_optRows_absent (k : Str) : ∀ rows : List (Str × Option Str), k ∉ rows.map (·.1) →
    dictGet k (optRows rows) = none := by
  intro rows
  induction rows with
  | nil => intro _; rfl
  | cons q qs ih =>
    intro hq
    obtain ⟨kq, oq⟩ := q
    simp only [List.map_cons, List.mem_cons, not_or] at hq
    cases oq with
    | none => simpa [optRows] using ih hq.2
    | some v =>
      simp only [optRows, List.filterMap_cons, Option.map_some, dictGet]
      rw [if_neg (fun h => hq.1 h.symm)]
      simpa [optRows] using ih hq.2

theorem dictGet_optRows (k : Str) : ∀ rows : List (Str × Option Str), (rows.map (·.1)).Nodup →
    dictGet k (optRows rows) = (dictGet k rows).join := by
  intro rows
  induction rows with
  | nil => intro _; rfl
  | cons r rs ih =>
    intro hnd
    obtain ⟨k', o⟩ := r
    simp only [List.map_cons, List.nodup_cons] at hnd
    cases o with
    | none =>
      simp only [optRows, List.filterMap_cons, Option.map_none, dictGet]
      split
      · rename_i h; subst h
        simpa [optRows] using dictGet_optRows_absent k' rs hnd.1
      · simpa [optRows] using ih hnd.2
    | some v =>
      simp only [optRows, List.filterMap_cons, Option.map_some, dictGet]
      split
      · rfl
      · simpa [optRows] using ih hnd.2

def devInfoKeys : List Str := [c!"VendorName", c!"VendorNumber", c!"ProductName", c!"ProductNumber", c!"RevisionNumber", c!"OrderCode", c!"BaudRate_10", c!"BaudRate_20", c!"BaudRate_50", c!"BaudRate_125", c!"BaudRate_250", c!"BaudRate_500", c!"BaudRate_800", c!"BaudRate_1000", c!"SimpleBootUpMaster", c!"SimpleBootUpSlave", c!"Granularity", c!"DynamicChannelsSupported", c!"GroupMessaging", c!"NrOfRXPDO", c!"NrOfTXPDO", c!"LSS_Supported"]

theorem devInfoKeys_nodup : devInfoKeys.Nodup := by decide

theorem devInfoRows_keys (d : SDevInfo) : (devInfoRows d).map (·.1) = devInfoKeys := rfl

theorem get_devInfo (d : SDevInfo) (k : Str) :
    dictGet k (devInfoOpts d) = (dictGet k (devInfoRows d)).join :=
  dictGet_optRows k _ (by rw [devInfoRows_keys]; exact devInfoKeys_nodup)

section
variable (d : SDevInfo)

theorem get_dev_vendorName : dictGet c!"VendorName" (devInfoOpts d) = d.vendorName := by
  rw [get_devInfo]; rfl

theorem get_dev_vendorNumber : dictGet c!"VendorNumber" (devInfoOpts d) = spelled d.vendorNumber := by
  rw [get_devInfo]; rfl

theorem get_dev_productName : dictGet c!"ProductName" (devInfoOpts d) = d.productName := by
  rw [get_devInfo]; rfl

theorem get_dev_productNumber : dictGet c!"ProductNumber" (devInfoOpts d) = spelled d.productNumber := by
  rw [get_devInfo]; rfl

theorem get_dev_revisionNumber : dictGet c!"RevisionNumber" (devInfoOpts d) = spelled d.revisionNumber := by
  rw [get_devInfo]; rfl

theorem get_dev_orderCode : dictGet c!"OrderCode" (devInfoOpts d) = d.orderCode := by
  rw [get_devInfo]; rfl

theorem get_dev_baud10 : dictGet c!"BaudRate_10" (devInfoOpts d) = spelled d.baud10 := by
  rw [get_devInfo]; rfl

theorem get_dev_baud20 : dictGet c!"BaudRate_20" (devInfoOpts d) = spelled d.baud20 := by
  rw [get_devInfo]; rfl

theorem get_dev_baud50 : dictGet c!"BaudRate_50" (devInfoOpts d) = spelled d.baud50 := by
  rw [get_devInfo]; rfl

theorem get_dev_baud125 : dictGet c!"BaudRate_125" (devInfoOpts d) = spelled d.baud125 := by
  rw [get_devInfo]; rfl

theorem get_dev_baud250 : dictGet c!"BaudRate_250" (devInfoOpts d) = spelled d.baud250 := by
  rw [get_devInfo]; rfl

theorem get_dev_baud500 : dictGet c!"BaudRate_500" (devInfoOpts d) = spelled d.baud500 := by
  rw [get_devInfo]; rfl

theorem get_dev_baud800 : dictGet c!"BaudRate_800" (devInfoOpts d) = spelled d.baud800 := by
  rw [get_devInfo]; rfl

theorem get_dev_baud1000 : dictGet c!"BaudRate_1000" (devInfoOpts d) = spelled d.baud1000 := by
  rw [get_devInfo]; rfl

theorem get_dev_simpleBootUpMaster : dictGet c!"SimpleBootUpMaster" (devInfoOpts d) = spelled d.simpleBootUpMaster := by
  rw [get_devInfo]; rfl

theorem get_dev_simpleBootUpSlave : dictGet c!"SimpleBootUpSlave" (devInfoOpts d) = spelled d.simpleBootUpSlave := by
  rw [get_devInfo]; rfl

theorem get_dev_granularity : dictGet c!"Granularity" (devInfoOpts d) = spelled d.granularity := by
  rw [get_devInfo]; rfl

theorem get_dev_dynamicChannelsSupported : dictGet c!"DynamicChannelsSupported" (devInfoOpts d) = spelled d.dynamicChannelsSupported := by
  rw [get_devInfo]; rfl

theorem get_dev_groupMessaging : dictGet c!"GroupMessaging" (devInfoOpts d) = spelled d.groupMessaging := by
  rw [get_devInfo]; rfl

theorem get_dev_nrOfRXPDO : dictGet c!"NrOfRXPDO" (devInfoOpts d) = spelled d.nrOfRXPDO := by
  rw [get_devInfo]; rfl

theorem get_dev_nrOfTXPDO : dictGet c!"NrOfTXPDO" (devInfoOpts d) = spelled d.nrOfTXPDO := by
  rw [get_devInfo]; rfl

theorem get_dev_lssSupported : dictGet c!"LSS_Supported" (devInfoOpts d) = spelled d.lssSupported := by
  rw [get_devInfo]; rfl

end

/-! ### `[DeviceInfo]` rows -/

theorem importDevProp_text (s : Sec) (key attr : Str) (o : Option Str) (h : s.get key = o) :
    importDevProp s (0, key, attr) = some (textProp attr o) := by
  unfold importDevProp
  simp only [h]
  cases o <;> rfl

theorem importDevProp_num (s : Sec) (key attr : Str) (o : Option (Int × NumSp)) (h : s.get key = spelled o) :
    importDevProp s (1, key, attr) = some (numProp attr o) := by
  unfold importDevProp
  simp only [h]
  cases o with
  | none => rfl
  | some p => simp [spelled, pyInt0_spellInt, numProp]

theorem importDevProp_flag (s : Sec) (key attr : Str) (o : Option (Int × NumSp)) (h : s.get key = spelled o) :
    importDevProp s (2, key, attr) = some (flagProp attr o) := by
  unfold importDevProp
  simp only [h]
  cases o with
  | none => rfl
  | some p => simp [spelled, pyInt0_spellInt, flagProp]

theorem importBaud_row (s : Sec) (rate : Nat) (o : Option (Int × NumSp))
    (h : s.get (c!"BaudRate_" ++ natStr 10 false rate) = spelled o) :
    importBaud s rate = some (baudOn rate o) := by
  unfold importBaud
  simp only [h]
  cases o with
  | none =>
    have h0 : pyInt0 c!"0" = some 0 := by decide
    simp [spelled, h0, baudOn]
  | some p =>
    obtain ⟨n, sp⟩ := p
    simp only [spelled, Option.map_some, Option.getD_some, pyInt0_spellInt, baudOn, BAUD_UNIT]

theorem importDeviceInfo_of_sec (doc : Doc) (nm : Str) (d : SDevInfo)
    (hsec : doc.sec sDeviceInfo = some ⟨nm, devInfoOpts d⟩) :
    importDeviceInfo doc = some (denoteBauds d, denoteDevInfo d) := by
  unfold importDeviceInfo
  rw [hsec]
  have b1 := importBaud_row ⟨nm, devInfoOpts d⟩ 10 d.baud10 (get_dev_baud10 d)
  have b2 := importBaud_row ⟨nm, devInfoOpts d⟩ 20 d.baud20 (get_dev_baud20 d)
  have b3 := importBaud_row ⟨nm, devInfoOpts d⟩ 50 d.baud50 (get_dev_baud50 d)
  have b4 := importBaud_row ⟨nm, devInfoOpts d⟩ 125 d.baud125 (get_dev_baud125 d)
  have b5 := importBaud_row ⟨nm, devInfoOpts d⟩ 250 d.baud250 (get_dev_baud250 d)
  have b6 := importBaud_row ⟨nm, devInfoOpts d⟩ 500 d.baud500 (get_dev_baud500 d)
  have b7 := importBaud_row ⟨nm, devInfoOpts d⟩ 800 d.baud800 (get_dev_baud800 d)
  have b8 := importBaud_row ⟨nm, devInfoOpts d⟩ 1000 d.baud1000 (get_dev_baud1000 d)
  have p1 := importDevProp_text ⟨nm, devInfoOpts d⟩ _ c!"vendor_name" _ (get_dev_vendorName d)
  have p2 := importDevProp_num ⟨nm, devInfoOpts d⟩ _ c!"vendor_number" _ (get_dev_vendorNumber d)
  have p3 := importDevProp_text ⟨nm, devInfoOpts d⟩ _ c!"product_name" _ (get_dev_productName d)
  have p4 := importDevProp_num ⟨nm, devInfoOpts d⟩ _ c!"product_number" _ (get_dev_productNumber d)
  have p5 := importDevProp_num ⟨nm, devInfoOpts d⟩ _ c!"revision_number" _ (get_dev_revisionNumber d)
  have p6 := importDevProp_text ⟨nm, devInfoOpts d⟩ _ c!"order_code" _ (get_dev_orderCode d)
  have p7 := importDevProp_flag ⟨nm, devInfoOpts d⟩ _ c!"simple_boot_up_master" _ (get_dev_simpleBootUpMaster d)
  have p8 := importDevProp_flag ⟨nm, devInfoOpts d⟩ _ c!"simple_boot_up_slave" _ (get_dev_simpleBootUpSlave d)
  have p9 := importDevProp_num ⟨nm, devInfoOpts d⟩ _ c!"granularity" _ (get_dev_granularity d)
  have p10 := importDevProp_flag ⟨nm, devInfoOpts d⟩ _ c!"dynamic_channels_supported" _
    (get_dev_dynamicChannelsSupported d)
  have p11 := importDevProp_flag ⟨nm, devInfoOpts d⟩ _ c!"group_messaging" _ (get_dev_groupMessaging d)
  have p12 := importDevProp_num ⟨nm, devInfoOpts d⟩ _ c!"nr_of_RXPDO" _ (get_dev_nrOfRXPDO d)
  have p13 := importDevProp_num ⟨nm, devInfoOpts d⟩ _ c!"nr_of_TXPDO" _ (get_dev_nrOfTXPDO d)
  have p14 := importDevProp_flag ⟨nm, devInfoOpts d⟩ _ c!"LSS_supported" _ (get_dev_lssSupported d)
  simp only [BAUD_RATES, DEVINFO_IMPORT, List.mapM_cons, List.mapM_nil, b1, b2, b3, b4, b5, b6, b7, b8,
    p1, p2, p3, p4, p5, p6, p7, p8, p9, p10, p11, p12, p13, p14, Option.pure_def, Option.bind_eq_bind,
    Option.bind_some]
  rfl

/-! ### `[Comments]` -/

theorem commentLines_eq (s : Sec) : ∀ (rest : List Str) (k : Nat),
    (∀ j (h : j < rest.length), s.get (c!"Line" ++ natStr 10 false (k + j)) = some rest[j]) →
    commentLines s rest.length k = some rest := by
  intro rest
  induction rest with
  | nil => intro k _; rfl
  | cons t r ih =>
    intro k h
    have h0 := h 0 (by simp)
    simp only [Nat.add_zero, List.getElem_cons_zero] at h0
    simp only [List.length_cons, commentLines, h0]
    rw [ih (k + 1) (by
      intro j hj
      have := h (j + 1) (by simpa using hj)
      rw [show k + 1 + j = k + (j + 1) by omega]
      simpa using this)]
    rfl

theorem get_commentLine (nm : Str) (ls : List Str) (sp : NumSp) (j : Nat) (h : j < ls.length) :
    Sec.get { name := nm, opts := commentOpts ls sp } (c!"Line" ++ natStr 10 false (1 + j)) = some ls[j] := by
  obtain ⟨d, r, hr, hd⟩ := natStr10_head (1 + j)
  have hs : digitChar false d ≠ 's' := (digitChar_props16 ⟨d, by omega⟩ false).2.2.2.2.2.2.2.2.2.1
  have hne : ¬ (kLines = c!"Line" ++ natStr 10 false (1 + j)) := by
    rw [hr, kLines]
    intro he
    simp only [List.cons_append, List.nil_append, List.cons.injEq] at he
    exact hs he.2.2.2.2.1.symm
  simp only [Sec.get, commentOpts, dictGet]
  rw [if_neg hne]
  exact dictGet_numbered c!"Line" ls 1 j h

theorem importComments_of_sec (doc : Doc) (nm : Str) (ls : List Str) (sp : NumSp)
    (hsec : doc.sec sComments = some ⟨nm, commentOpts ls sp⟩) :
    importComments doc = some (joinWith c!"\n" ls) := by
  unfold importComments
  rw [hsec]
  have hl : Sec.get ⟨nm, commentOpts ls sp⟩ kLines = some (spellNat sp ls.length) := by
    simp [Sec.get, commentOpts, dictGet]
  simp only [hl, Option.bind_some, pyInt0_spellNat, Int.toNat_natCast]
  rw [commentLines_eq _ ls 1 (fun j h => get_commentLine nm ls sp j h)]
  rfl

/-! ### `[DeviceComissioning]` -/

theorem spellInt_ne_nil (sp : NumSp) (i : Int) : (spellInt sp i).isEmpty = false := by
  unfold spellInt
  split
  · rfl
  · obtain ⟨c, r, h, _, _⟩ := spellNat_head sp i.toNat
    rw [h]; cases sp.plus <;> rfl

theorem dictGet_numLine (k k' : Str) (o : Option (Int × NumSp)) :
    dictGet k (numLine k' o) = if k' = k then spelled o else none := by
  simp [numLine, dictGet_optLine, spelled]

theorem get_commissioning_Baudrate (nm : Str) (br : Option Nat) (nid : Option (Int × NumSp)) :
    Sec.get ⟨nm, commissioningOpts br nid⟩ kBaudrate = br.map (natStr 10 false) := by
  have h1 : ¬ (kNodeID = kBaudrate) := by decide
  simp [Sec.get, commissioningOpts, dictGet_append, dictGet_numLine, dictGet_optLine, h1]

theorem get_commissioning_NodeID (nm : Str) (br : Option Nat) (nid : Option (Int × NumSp)) :
    Sec.get ⟨nm, commissioningOpts br nid⟩ kNodeID = spelled nid := by
  have h1 : ¬ (kBaudrate = kNodeID) := by decide
  simp only [Sec.get, commissioningOpts, dictGet_append, dictGet_numLine, dictGet_optLine, if_true, h1,
    if_false]
  cases spelled nid <;> rfl

theorem importCommissioning_of_sec (doc : Doc) (nm : Str) (br : Option Nat) (nid : Option (Int × NumSp))
    (arg : Option Int) (hsec : doc.sec sDeviceComissioning = some ⟨nm, commissioningOpts br nid⟩) :
    importCommissioning doc arg = some (denoteBitrate br, pickNodeId arg nid, pickNodeId arg nid) := by
  unfold importCommissioning
  rw [hsec]
  simp only [get_commissioning_Baudrate, get_commissioning_NodeID, denoteBitrate, pickNodeId]
  cases br with
  | none =>
    cases arg with
    | some n => rfl
    | none =>
      cases nid with
      | none => rfl
      | some p => simp [spelled, spellInt_ne_nil, pyInt0_spellInt]
  | some b =>
    cases arg with
    | some n => simp [pyInt10_natStr]
    | none =>
      cases nid with
      | none => simp [pyInt10_natStr, spelled]
      | some p => simp [spelled, spellInt_ne_nil, pyInt0_spellInt, pyInt10_natStr]

/-! ### `[DummyUsage]` -/

theorem addDummy_flag (s : Sec) (od : OD) (i : Nat) (b : Bool) (h : s.get (dummyKey i) = some (flagText b)) :
    addDummy s od i = some (addDummyIf b i od) := by
  unfold addDummy
  simp only [h, Option.bind_some]
  cases b
  · have : pyInt10 (flagText false) = some 0 := by decide
    simp [this, addDummyIf]
  · have : pyInt10 (flagText true) = some 1 := by decide
    simp [this, addDummyIf, dummyVar]

theorem processDummy_written (nm : Str) (f : SDummy) (od : OD) :
    processDummy ⟨nm, dummyOpts f⟩ od = some (addDummies f od) := by
  have g1 : Sec.get ⟨nm, dummyOpts f⟩ (dummyKey 1) = some (flagText f.d1) := rfl
  have g2 : Sec.get ⟨nm, dummyOpts f⟩ (dummyKey 2) = some (flagText f.d2) := rfl
  have g3 : Sec.get ⟨nm, dummyOpts f⟩ (dummyKey 3) = some (flagText f.d3) := rfl
  have g4 : Sec.get ⟨nm, dummyOpts f⟩ (dummyKey 4) = some (flagText f.d4) := rfl
  have g5 : Sec.get ⟨nm, dummyOpts f⟩ (dummyKey 5) = some (flagText f.d5) := rfl
  have g6 : Sec.get ⟨nm, dummyOpts f⟩ (dummyKey 6) = some (flagText f.d6) := rfl
  have g7 : Sec.get ⟨nm, dummyOpts f⟩ (dummyKey 7) = some (flagText f.d7) := rfl
  have hr : List.range (DUMMY_HI - DUMMY_LO) = [0, 1, 2, 3, 4, 5, 6] := by decide
  unfold processDummy
  rw [hr]
  simp only [List.foldlM_cons, List.foldlM_nil, DUMMY_LO, Nat.add_zero, Nat.reduceAdd,
    addDummy_flag _ _ _ _ g1, addDummy_flag _ _ _ _ g2, addDummy_flag _ _ _ _ g3,
    addDummy_flag _ _ _ _ g4, addDummy_flag _ _ _ _ g5, addDummy_flag _ _ _ _ g6,
    addDummy_flag _ _ _ _ g7, Option.bind_eq_bind, Option.bind_some, Option.pure_def]
  rfl

theorem dummySectionName_class (f : SDummy) :
    isDummySection (dummySectionName f) = true ∧ matchIndex (dummySectionName f) = none ∧
    matchSub (dummySectionName f) = none ∧ matchName (dummySectionName f) = none := by
  unfold dummySectionName
  cases f.capD <;> cases f.capU <;> decide

theorem processSection_dummy (doc : Doc) (nid : Option Int) (od : OD) (f : SDummy) :
    processSection doc nid od ⟨dummySectionName f, dummyOpts f⟩ = some (addDummies f od) := by
  obtain ⟨h1, h2, h3, h4⟩ := dummySectionName_class f
  simp [processSection, h1, h2, h3, h4, processDummy_written]

/-! ### finding the header sections in the written document -/

theorem sec_append (a b : Doc) (n : Str) :
    Doc.sec (a ++ b) n = match Doc.sec a n with | some s => some s | none => Doc.sec b n := by
  induction a with
  | nil => rfl
  | cons s r ih =>
    simp only [List.cons_append, Doc.sec]
    split <;> simp_all

theorem sec_none_of_ne (d : Doc) (n : Str) (h : ∀ s ∈ d, s.name ≠ n) : Doc.sec d n = none := by
  induction d with
  | nil => rfl
  | cons s r ih =>
    simp only [Doc.sec]
    rw [if_neg (h s (by simp))]
    exact ih (fun x hx => h x (by simp [hx]))

theorem sec_opt_skip {α : Type} (x : Option α) (g : α → Sec) (rest : Doc) (n : Str)
    (hne : ∀ v, (g v).name ≠ n) : Doc.sec ((x.map g).toList ++ rest) n = Doc.sec rest n := by
  cases x with
  | none => rfl
  | some v => simp [Doc.sec, hne v]

theorem sec_opt_hit {α : Type} (x : Option α) (g : α → Sec) (rest : Doc) (n : Str)
    (heq : ∀ v, (g v).name = n) :
    Doc.sec ((x.map g).toList ++ rest) n = match x with | some v => some (g v) | none => Doc.sec rest n := by
  cases x with
  | none => rfl
  | some v => simp [Doc.sec, heq v]

theorem hex4_append_ne (up : Bool) (i : Nat) (r n : Str) (h : (n.take 4).all isHexDigit = false) :
    hex4 up i ++ r ≠ n := by
  intro he
  have : ((hex4 up i ++ r).take 4).all isHexDigit = true := by
    simp [hex4, List.all, digitChar_isHex, Nat.mod_lt]
  rw [he, h] at this
  exact Bool.noConfusion this

theorem objSections_names (o : SObj) : ∀ s ∈ objSections o, ∃ up i r, s.name = hex4 up i ++ r := by
  intro s hs
  cases o with
  | var i up v ot domain =>
    simp only [objSections, List.mem_singleton] at hs
    exact ⟨up, i, [], by simp [hs]⟩
  | coll isArray i up name storage otSp subNumber members =>
    simp only [objSections, List.mem_cons, List.mem_map] at hs
    rcases hs with rfl | ⟨m, _, rfl⟩
    · exact ⟨up, i, [], by simp⟩
    · exact ⟨up, i, _, rfl⟩
  | compact i up n nSp t otSp names =>
    simp only [objSections, List.mem_cons] at hs
    rcases hs with rfl | hs
    · exact ⟨up, i, [], by simp⟩
    · cases names with
      | none => simp at hs
      | some ns =>
        simp only [List.mem_singleton] at hs
        exact ⟨up, i, c!"Name", by simp [hs]⟩

/-- the names `import_eds` asks for by name -/
def reservedNames : List Str := [sFileInfo, sComments, sDeviceInfo, sDeviceComissioning]

theorem reserved_notHex : ∀ n ∈ reservedNames, (n.take 4).all isHexDigit = false := by decide

theorem sec_tail_none (sod : SOD) (hwf : sod.WF) (n : Str) (hn : n ∈ reservedNames) :
    Doc.sec (sod.extra ++ sod.objs.flatMap objSections) n = none := by
  apply sec_none_of_ne
  intro s hs
  rcases List.mem_append.mp hs with h | h
  · obtain ⟨_, _, _, _, h1, h2, h3, h4⟩ := hwf.extra_ok s h
    simp only [reservedNames, List.mem_cons, List.not_mem_nil, or_false] at hn
    rcases hn with rfl | rfl | rfl | rfl <;> assumption
  · obtain ⟨o, _, hso⟩ := List.mem_flatMap.mp h
    obtain ⟨up, i, r, hr⟩ := objSections_names o s hso
    rw [hr]
    exact hex4_append_ne up i r n (reserved_notHex n hn)

theorem write_eq (sod : SOD) : write sod =
    (sod.header.fileInfo.map fun o => ({ name := sFileInfo, opts := o } : Sec)).toList ++
    ((sod.header.devInfo.map fun d => ({ name := sDeviceInfo, opts := devInfoOpts d } : Sec)).toList ++
    ((sod.header.commissioning.map fun p => (⟨sDeviceComissioning, commissioningOpts p.1 p.2⟩ : Sec)).toList ++
    ((sod.header.dummy.map fun f => ({ name := dummySectionName f, opts := dummyOpts f } : Sec)).toList ++
    ((sod.header.comments.map fun p => ({ name := sComments, opts := commentOpts p.1 p.2 } : Sec)).toList ++
    (sod.extra ++ sod.objs.flatMap objSections))))) := by
  simp [write, headerSections, List.append_assoc]

theorem dummyName_ne_reserved (f : SDummy) : ∀ n ∈ reservedNames, dummySectionName f ≠ n := by
  unfold dummySectionName
  cases f.capD <;> cases f.capU <;> decide

section
variable (sod : SOD) (hwf : sod.WF)
include hwf

theorem sec_write_fileInfo :
    Doc.sec (write sod) sFileInfo = sod.header.fileInfo.map fun o => ({ name := sFileInfo, opts := o } : Sec) := by
  rw [write_eq, sec_opt_hit _ _ _ sFileInfo (fun _ => rfl)]
  cases sod.header.fileInfo with
  | some o => rfl
  | none =>
    simp only [Option.map_none]
    rw [sec_opt_skip _ _ _ sFileInfo (fun _ => (by decide : sDeviceInfo ≠ sFileInfo)),
      sec_opt_skip _ _ _ sFileInfo (fun _ => (by decide : sDeviceComissioning ≠ sFileInfo)),
      sec_opt_skip _ _ _ sFileInfo (fun f => dummyName_ne_reserved f _ (by decide)),
      sec_opt_skip _ _ _ sFileInfo (fun _ => (by decide : sComments ≠ sFileInfo)),
      sec_tail_none sod hwf _ (by decide)]

theorem sec_write_devInfo :
    Doc.sec (write sod) sDeviceInfo
      = sod.header.devInfo.map fun d => ({ name := sDeviceInfo, opts := devInfoOpts d } : Sec) := by
  rw [write_eq, sec_opt_skip _ _ _ sDeviceInfo (fun _ => (by decide : sFileInfo ≠ sDeviceInfo)),
    sec_opt_hit _ _ _ sDeviceInfo (fun _ => rfl)]
  cases sod.header.devInfo with
  | some o => rfl
  | none =>
    simp only [Option.map_none]
    rw [sec_opt_skip _ _ _ sDeviceInfo (fun _ => (by decide : sDeviceComissioning ≠ sDeviceInfo)),
      sec_opt_skip _ _ _ sDeviceInfo (fun f => dummyName_ne_reserved f _ (by decide)),
      sec_opt_skip _ _ _ sDeviceInfo (fun _ => (by decide : sComments ≠ sDeviceInfo)),
      sec_tail_none sod hwf _ (by decide)]

theorem sec_write_commissioning :
    Doc.sec (write sod) sDeviceComissioning
      = sod.header.commissioning.map fun p => (⟨sDeviceComissioning, commissioningOpts p.1 p.2⟩ : Sec) := by
  rw [write_eq, sec_opt_skip _ _ _ sDeviceComissioning (fun _ => (by decide : sFileInfo ≠ sDeviceComissioning)),
    sec_opt_skip _ _ _ sDeviceComissioning (fun _ => (by decide : sDeviceInfo ≠ sDeviceComissioning)),
    sec_opt_hit _ _ _ sDeviceComissioning (fun _ => rfl)]
  cases sod.header.commissioning with
  | some o => rfl
  | none =>
    simp only [Option.map_none]
    rw [sec_opt_skip _ _ _ sDeviceComissioning (fun f => dummyName_ne_reserved f _ (by decide)),
      sec_opt_skip _ _ _ sDeviceComissioning (fun _ => (by decide : sComments ≠ sDeviceComissioning)),
      sec_tail_none sod hwf _ (by decide)]

theorem sec_write_comments :
    Doc.sec (write sod) sComments
      = sod.header.comments.map fun p => ({ name := sComments, opts := commentOpts p.1 p.2 } : Sec) := by
  rw [write_eq, sec_opt_skip _ _ _ sComments (fun _ => (by decide : sFileInfo ≠ sComments)),
    sec_opt_skip _ _ _ sComments (fun _ => (by decide : sDeviceInfo ≠ sComments)),
    sec_opt_skip _ _ _ sComments (fun _ => (by decide : sDeviceComissioning ≠ sComments)),
    sec_opt_skip _ _ _ sComments (fun f => dummyName_ne_reserved f _ (by decide)),
    sec_opt_hit _ _ _ sComments (fun _ => rfl)]
  cases sod.header.comments with
  | some o => rfl
  | none =>
    simp only [Option.map_none]
    rw [sec_tail_none sod hwf _ (by decide)]

end

/-! ### the loop over the header sections, the extra sections and the objects -/

theorem foldlM_opt {α : Type} (f : OD → Sec → Option OD) (x : Option α) (g : α → Sec) (rest : Doc) (od : OD) :
    ((x.map g).toList ++ rest).foldlM f od
      = match x with | some v => (f od (g v)).bind (rest.foldlM f) | none => rest.foldlM f od := by
  cases x <;> simp

theorem foldlM_opt_skip {α : Type} (f : OD → Sec → Option OD) (x : Option α) (g : α → Sec) (rest : Doc)
    (od : OD) (h : ∀ v, f od (g v) = some od) :
    ((x.map g).toList ++ rest).foldlM f od = rest.foldlM f od := by
  rw [foldlM_opt]
  cases x with
  | none => rfl
  | some v => simp [h v]

theorem foldlM_ignored (doc : Doc) (nid : Option Int) : ∀ (ss : List Sec) (od : OD),
    (∀ s ∈ ss, ignoredSection s) → ss.foldlM (processSection doc nid) od = some od := by
  intro ss
  induction ss with
  | nil => intro od _; rfl
  | cons s r ih =>
    intro od h
    obtain ⟨h1, h2, h3, h4, _⟩ := h s (by simp)
    simp only [List.foldlM_cons, processSection_ignored doc nid od s h1 h2 h3 h4, Option.bind_eq_bind,
      Option.bind_some]
    exact ih od (fun x hx => h x (by simp [hx]))

theorem foldlM_objects (doc : Doc) (nid : Option Int) : ∀ (objs : List SObj) (od : OD),
    (∀ o ∈ objs, o.WF) →
    (objs.flatMap objSections).foldlM (processSection doc nid) od
      = some (objs.foldl (fun od o => od.addObject (buildObj nid o)) od) := by
  intro objs
  induction objs with
  | nil => intro od _; rfl
  | cons o r ih =>
    intro od h
    simp only [List.flatMap_cons, List.foldlM_append, foldlM_objSections doc nid od o (h o (by simp)),
      Option.bind_eq_bind, Option.bind_some, List.foldl_cons]
    exact ih _ (fun x hx => h x (by simp [hx]))

theorem reserved_class : ∀ n ∈ reservedNames,
    isDummySection n = false ∧ matchIndex n = none ∧ matchSub n = none ∧ matchName n = none := by
  decide

theorem foldlM_write (sod : SOD) (hwf : sod.WF) (doc : Doc) (nid : Option Int) (od : OD) :
    (write sod).foldlM (processSection doc nid) od
      = some (sod.objs.foldl (fun od o => od.addObject (buildObj nid o))
          (match sod.header.dummy with | some f => addDummies f od | none => od)) := by
  have hres : ∀ (n : Str) (opts : List (Str × Str)) (od' : OD), n ∈ reservedNames →
      processSection doc nid od' ⟨n, opts⟩ = some od' := by
    intro n opts od' hn
    obtain ⟨h1, h2, h3, h4⟩ := reserved_class n hn
    exact processSection_ignored doc nid od' _ h1 h2 h3 h4
  rw [write_eq]
  rw [foldlM_opt_skip _ _ _ _ _ (fun _ => hres _ _ _ (by decide)),
    foldlM_opt_skip _ _ _ _ _ (fun _ => hres _ _ _ (by decide)),
    foldlM_opt_skip _ _ _ _ _ (fun _ => hres _ _ _ (by decide)), foldlM_opt]
  have tail : ∀ od' : OD,
      ((sod.header.comments.map fun p => ({ name := sComments, opts := commentOpts p.1 p.2 } : Sec)).toList ++
        (sod.extra ++ sod.objs.flatMap objSections)).foldlM (processSection doc nid) od'
        = some (sod.objs.foldl (fun od o => od.addObject (buildObj nid o)) od') := by
    intro od'
    rw [foldlM_opt_skip _ _ _ _ _ (fun _ => hres _ _ _ (by decide)), List.foldlM_append,
      foldlM_ignored doc nid _ _ hwf.extra_ok]
    simp only [Option.bind_eq_bind, Option.bind_some]
    exact foldlM_objects doc nid _ _ hwf.objs_ok
  cases sod.header.dummy with
  | none => exact tail od
  | some f =>
    simp only [processSection_dummy, Option.bind_some]
    exact tail _

end Canopen.Spec.EdsWriter
