/-
Helper lemmas for C13, third part: the block upload of the (repaired) client model against the
reference server over a channel that may LOSE any frames but alters none.  After every lost
segment the client acknowledges the last segment it got in sequence, the server repeats from there
numbering from 1, and the client discards what is still queued from the old sub-block.
`readAll_safe`: whatever is lost, a normal return yields exactly the server's value (CRC or not).
`readAll_live`: with a single lost segment the transfer completes.
Property theorems live in CanopenProofs/C13.lean.
-/
import CanopenProofs.Lemmas.BlockUpFlow

namespace Canopen.C13
open Canopen Canopen.Crc Canopen.Gen.SdoBlock Canopen.Sdo.BlockUp
open Canopen.Spec.BlockUp (Cfg Srv Phase nseg)
open Canopen.Sdo (Kind)
open Canopen.Sdo.BlockDown (distort)

/-- the channel loses frames but alters none -/
def LossOnly (p : Par) : Prop := ∀ n f, p.chan n f = none ∨ p.chan n f = some f

/-- number of segments in the sub-block that starts at global segment `B` -/
def cnt (cfg : Cfg) (B : Nat) : Nat := min 127 (nseg cfg - B)

/-- positions `i ∈ l` (0-based within the sub-block starting at `B`) whose frames get through,
    when the frame at position `i` is the server's response number `n0 + i` -/
def kept (p : Par) (n0 B : Nat) (l : List Nat) : List Nat :=
  l.filter fun i => (p.chan (n0 + i) (Spec.BlockUp.segment p.cfg (B + i) (i + 1))).isSome

theorem kept_sublist (p : Par) (n0 B : Nat) (l : List Nat) : (kept p n0 B l).Sublist l :=
  List.filter_sublist

theorem seg_eq_qseg (cfg : Cfg) (B i : Nat) :
    Spec.BlockUp.segment cfg (B + i) (i + 1) = qseg cfg (trueG cfg) B i := rfl

/-- the frames `rs`, numbered from `n`, as they come out of the channel `dl` -/
def dlist (dl : Nat → Bytes → Option Bytes) : Nat → List Bytes → List Bytes
  | _, [] => []
  | n, r :: rs => (match dl n r with | none => [] | some d => [d]) ++ dlist dl (n + 1) rs

/-- what the environment `E` does to the server's responses, spelled out as a channel: response
    number `n` reaches the client's queue as `dl n f` or not at all, at once.  (Holds for the C13
    channel `Par.env` and for the C07 disturbances that hit one frame on the spot; the bus log is
    left open.) -/
structure Deliv (E : Env) (cfg : Cfg) (dl : Nat → Bytes → Option Bytes) : Prop where
  send : ∀ (s : Sys) (f : Bytes), s.pending = [] → ∃ log, sendReq E s f =
      { s with srv := (Spec.BlockUp.step cfg s.srv f).1,
               nresp := s.nresp + (Spec.BlockUp.step cfg s.srv f).2.length,
               queue := s.queue ++ dlist dl s.nresp (Spec.BlockUp.step cfg s.srv f).2, log := log }

/-- the segments of one sub-block through a lossy channel -/
theorem dlist_block (p : Par) (hl : LossOnly p) (B n0 : Nat) : ∀ (c j : Nat),
    dlist p.chan (n0 + j) ((List.range' j c).map fun i => Spec.BlockUp.segment p.cfg (B + i) (i + 1)) =
      (kept p n0 B (List.range' j c)).map (qseg p.cfg (trueG p.cfg) B) := by
  intro c
  induction c with
  | zero => intro j; simp [dlist, kept]
  | succ c ih =>
    intro j
    simp only [List.range'_succ, List.map_cons, dlist]
    rw [show n0 + j + 1 = n0 + (j + 1) by omega, ih (j + 1)]
    rcases hl (n0 + j) (Spec.BlockUp.segment p.cfg (B + j) (j + 1)) with hch | hch
    · simp [kept, hch]
    · simp [kept, hch]
      rfl

/-- a request answered by a run of segments starting at global segment `B'` -/
theorem sendReq_kept (E : Env) (p : Par) (hD : Deliv E p.cfg p.chan) (hl : LossOnly p) (s : Sys) (f : Bytes)
    (srv' : Srv) (B' c : Nat)
    (hstep : Spec.BlockUp.step p.cfg s.srv f =
      (srv', (List.range' 0 c).map fun i => Spec.BlockUp.segment p.cfg (B' + i) (i + 1)))
    (hp : s.pending = []) :
    ∃ log, sendReq E s f =
        { s with srv := srv', nresp := s.nresp + c,
                 queue := s.queue ++ (kept p s.nresp B' (List.range' 0 c)).map (qseg p.cfg (trueG p.cfg) B'),
                 log := log } := by
  obtain ⟨log, h⟩ := hD.send s f hp
  refine ⟨log, ?_⟩
  have := dlist_block p hl B' s.nresp c 0
  simp only [Nat.add_zero] at this
  rw [h, hstep]
  simp only [this, List.length_map, List.length_range']

/-- the server's reaction to an acknowledge that leaves segments to send: it goes on (or repeats)
    from the segment after the acknowledged one, numbering from 1 -/
theorem ack_resend (cfg : Cfg) (s : Srv) (B k : Nat) (hp : s.phase = .ack) (hb : s.base = B) (hk : k ≤ s.sent)
    (hmore : B + k < nseg cfg) :
    Spec.BlockUp.step cfg s (ackFrame k) =
      ({ s with base := B + k, blk := 127, sent := cnt cfg (B + k), phase := .ack },
       (List.range' 0 (cnt cfg (B + k))).map fun i => Spec.BlockUp.segment cfg (B + k + i) (i + 1)) := by
  have h1 : ¬ (B + k = nseg cfg) := by omega
  have h2 : ¬ (s.sent < k) := by omega
  simp [Spec.BlockUp.step, ackFrame, hp, Spec.BlockUp.ackStep, Spec.BlockUp.flagIf, hb, h1, h2,
    Spec.BlockUp.sendBlock, cnt, range_eq_range']

/-- the server's reaction to the acknowledge of the last segment -/
theorem ack_fin (cfg : Cfg) (s : Srv) (B k : Nat) (hp : s.phase = .ack) (hb : s.base = B) (hk : k ≤ s.sent)
    (hlast : B + k = nseg cfg) :
    Spec.BlockUp.step cfg s (ackFrame k) =
      ({ s with base := nseg cfg, blk := 127, phase := .fin },
       [Spec.BlockUp.endFrame cfg { s with base := nseg cfg, blk := 127 }]) := by
  have h2 : ¬ (s.sent < k) := by omega
  simp [Spec.BlockUp.step, ackFrame, hp, Spec.BlockUp.ackStep, Spec.BlockUp.flagIf, hb, hlast, h2]

/-- the loop of `_retransmit` skips what is left of the old sub-block: positions ≥ 1 carry
    sequence numbers ≥ 2 -/
theorem scan_skip (cfg : Cfg) (g : Nat → Bytes) (B : Nat) (rest : List Bytes) :
    ∀ l : List Nat, (∀ i ∈ l, 1 ≤ i ∧ i < 127) → scan 0 (l.map (qseg cfg g B) ++ rest) = scan 0 rest := by
  intro l
  induction l with
  | nil => intro _; rfl
  | cons i l ih =>
    intro h
    obtain ⟨h1, h2⟩ := h i (by simp)
    obtain ⟨b1, b2, b3, b4, b5, b6, b7⟩ := seqb' (i + 1) (by omega) (by omega)
    have hne : ¬ (i + 1 = 0 + 1) := by omega
    simp only [List.map_cons, List.cons_append, scan, qseg, List.getD_cons_zero, RESPONSE_ABORTED]
    by_cases hf : B + i + 1 = nseg cfg
    · simp only [hf, if_true, b7, if_false, b5, hne]
      exact ih fun j hj => h j (by simp [hj])
    · simp only [hf, if_false, b1, b4, b2, hne]
      exact ih fun j hj => h j (by simp [hj])

theorem sublist_range'_cons {p0 : Nat} {tl : List Nat} : ∀ (n a : Nat), (p0 :: tl).Sublist (List.range' a n) →
    a ≤ p0 ∧ p0 < a + n ∧ tl.Sublist (List.range' (p0 + 1) (a + n - (p0 + 1))) := by
  intro n
  induction n with
  | zero => intro a h; simp at h
  | succ n ih =>
    intro a h
    rw [List.range'_succ] at h
    cases h with
    | cons _ h' =>
      obtain ⟨h1, h2, h3⟩ := ih (a + 1) h'
      refine ⟨by omega, by omega, ?_⟩
      have : a + 1 + n - (p0 + 1) = a + (n + 1) - (p0 + 1) := by omega
      rw [← this]; exact h3
    | cons_cons _ h' =>
      refine ⟨Nat.le_refl _, by omega, ?_⟩
      have : p0 + (n + 1) - (p0 + 1) = n := by omega
      rw [this]; exact h'

theorem take_step (cfg : Cfg) (n : Nat) (h : 7 * (n + 1) ≤ cfg.data.length) :
    cfg.data.take (7 * (n + 1)) = cfg.data.take (7 * n) ++ trueG cfg n := by
  rw [trueG_full cfg n h, show 7 * (n + 1) = 7 * n + 7 by omega, List.take_add]

theorem nseg_le (cfg : Cfg) (n : Nat) (h : n + 1 < nseg cfg) : 7 * (n + 1) ≤ cfg.data.length := by
  unfold nseg at h; omega

/-- client and server in the middle of sub-block `B`: the client's sequence counter is `k`, queued
    are the (unaltered) frames at positions `ps` of that sub-block -/
structure LSt (p : Par) (s : Sys) (B k : Nat) (ps : List Nat) : Prop where
  sphase : s.srv.phase = .ack
  sbase : s.srv.base = B
  ssent : s.srv.sent = cnt p.cfg B
  scrc : s.srv.crc = p.sup
  queue : s.queue = ps.map (qseg p.cfg (trueG p.cfg) B)
  ackseq : s.cl.ackseq = k
  done : s.cl.done = false
  err : s.cl.error = false
  sup : s.cl.crcSupported = p.sup
  pend : s.pending = []

/-- the running CRC covers the first `n` segments of the value -/
def CrcOK (p : Par) (s : Sys) (n : Nat) : Prop :=
  p.sup = true → s.cl.crc = crcHqx (p.cfg.data.take (7 * n)) 0

/-- `read` past the sequence check: an ordinary segment inside a sub-block -/
theorem accept_plain (E : Env) (p : Par) (s : Sys) (B a : Nat) (tl : List Nat) (h : LSt p s B (a + 1) tl)
    (hc : CrcOK p s (B + a)) (hnl : B + a + 1 < nseg p.cfg) (h127 : a + 1 < 127) :
    ∃ s', afterSeq E s (qseg p.cfg (trueG p.cfg) B a) = (s', some (trueG p.cfg (B + a))) ∧
      LSt p s' B (a + 1) tl ∧ CrcOK p s' (B + a + 1) ∧ s'.nresp = s.nresp := by
  obtain ⟨b1, b2, b3, b4, -, -, -⟩ := seqb' (a + 1) (by omega) (by omega)
  have hseg : qseg p.cfg (trueG p.cfg) B a = (a + 1) :: trueG p.cfg (B + a) := by
    simp [qseg, Nat.ne_of_lt hnl, b1]
  have hlt : ¬ (a + 1 ≥ 127) := by omega
  have hack : (if s.cl.ackseq ≥ 127 then ackBlock E s else s) = s := by
    rw [if_neg (by rw [h.ackseq]; exact hlt)]
  rw [hseg, afterSeq_nonlast _ _ _ (by simpa using b3), hack]
  simp only [List.drop_succ_cons, List.drop_zero]
  refine ⟨_, rfl, ⟨h.sphase, h.sbase, h.ssent, h.scrc, h.queue, h.ackseq, h.done, h.err, h.sup, h.pend⟩, ?_, rfl⟩
  intro hs
  simp only [h.sup, hs, if_true, hc hs]
  rw [← crcHqx_append, take_step p.cfg (B + a) (nseg_le p.cfg _ hnl)]

/-- `read` past the sequence check: the 127th segment of a sub-block that is not the last one;
    the acknowledge makes the server send the next sub-block -/
theorem accept_boundary (E : Env) (p : Par) (hD : Deliv E p.cfg p.chan) (hl : LossOnly p) (s : Sys) (B : Nat) (h : LSt p s B 127 [])
    (hc : CrcOK p s (B + 126)) (hnl : B + 127 < nseg p.cfg) :
    ∃ s', afterSeq E s (qseg p.cfg (trueG p.cfg) B 126) = (s', some (trueG p.cfg (B + 126))) ∧
      LSt p s' (B + 127) 0 (kept p s.nresp (B + 127) (List.range' 0 (cnt p.cfg (B + 127)))) ∧
      CrcOK p s' (B + 127) ∧ s'.nresp = s.nresp + cnt p.cfg (B + 127) := by
  have hseg : qseg p.cfg (trueG p.cfg) B 126 = 127 :: trueG p.cfg (B + 126) := by
    have : ¬ (B + 126 + 1 = nseg p.cfg) := by omega
    simp [qseg, this]
  have hsent : (127 : Nat) ≤ s.srv.sent := by rw [h.ssent]; unfold cnt; omega
  have hstep := ack_resend p.cfg s.srv B 127 h.sphase h.sbase hsent hnl
  obtain ⟨log, hsend⟩ := sendReq_kept E p hD hl s (ackFrame 127) _ (B + 127) (cnt p.cfg (B + 127)) hstep h.pend
  have hack : (if s.cl.ackseq ≥ 127 then ackBlock E s else s) =
      { s with srv := { s.srv with base := B + 127, blk := 127, sent := cnt p.cfg (B + 127), phase := .ack },
               nresp := s.nresp + cnt p.cfg (B + 127),
               queue := s.queue ++ (kept p s.nresp (B + 127) (List.range' 0 (cnt p.cfg (B + 127)))).map
                  (qseg p.cfg (trueG p.cfg) (B + 127)),
               log := log, cl := { s.cl with ackseq := 0 } } := by
    rw [if_pos (by rw [h.ackseq]; exact Nat.le_refl _), ackBlock_eq, h.ackseq, hsend]
  rw [hseg, afterSeq_nonlast _ _ _ (by simp), hack]
  simp only [List.drop_succ_cons, List.drop_zero]
  refine ⟨_, rfl, ⟨rfl, rfl, rfl, h.scrc, by simp [h.queue], rfl, h.done, h.err, h.sup, h.pend⟩, ?_, rfl⟩
  intro hs
  simp only [h.sup, hs, if_true, hc hs]
  rw [← crcHqx_append, show B + 127 = B + 126 + 1 by omega, take_step p.cfg (B + 126) (nseg_le p.cfg _ (by omega))]

/-- the end response of the conformant server -/
def endFrameB (p : Par) : Bytes := [endB0 p.cfg, announced p % 256, announced p / 256 % 256, 0, 0, 0, 0, 0]

theorem endUpload_empty (E : Env) (s : Sys) (hq : s.queue = []) : (endUpload E s).2 = none := by
  simp [endUpload, readResponse, hq]

/-- the last segment, trimmed by the announced number of unused bytes -/
theorem last_chunk (cfg : Cfg) (h1 : 1 ≤ cfg.data.length) :
    (trueG cfg (nseg cfg - 1)).take (7 - (7 * nseg cfg - cfg.data.length)) = cfg.data.drop (7 * (nseg cfg - 1)) := by
  obtain ⟨n1, n2, n3⟩ := nseg_bounds cfg h1
  simp only [trueG]
  have hl : (cfg.data.drop (7 * (nseg cfg - 1))).length = 7 - (7 * nseg cfg - cfg.data.length) := by
    simp; omega
  have ht : (cfg.data.drop (7 * (nseg cfg - 1))).take 7 = cfg.data.drop (7 * (nseg cfg - 1)) :=
    List.take_of_length_le (by omega)
  rw [ht, padTo]
  exact List.take_left' hl

/-- `read` past the sequence check: the last segment of the value.  The acknowledge makes the
    server send its end response; if that is lost the client runs into its time-out, otherwise
    the transfer is complete -/
theorem accept_last (E : Env) (p : Par) (hD : Deliv E p.cfg p.chan) (hx : p.cfg.crcXor = 0) (he : p.cfg.endB0 = none) (h1 : 1 ≤ p.cfg.data.length)
    (s : Sys) (B a : Nat) (h : LSt p s B (a + 1) []) (hc : CrcOK p s (B + a))
    (hlast : B + a + 1 = nseg p.cfg) (ha : a + 1 ≤ 127) :
    (p.chan s.nresp (endFrameB p) = none → (afterSeq E s (qseg p.cfg (trueG p.cfg) B a)).2 = none) ∧
    (p.chan s.nresp (endFrameB p) = some (endFrameB p) →
      ∃ s', afterSeq E s (qseg p.cfg (trueG p.cfg) B a) =
          (s', some (p.cfg.data.drop (7 * (nseg p.cfg - 1)))) ∧ s'.cl.done = true) := by
  obtain ⟨n1, n2, n3⟩ := nseg_bounds p.cfg h1
  obtain ⟨-, -, -, -, b5, b6, b7⟩ := seqb' (a + 1) (by omega) ha
  have hseg : qseg p.cfg (trueG p.cfg) B a = ((a + 1) ||| 128) :: trueG p.cfg (nseg p.cfg - 1) := by
    have e1 : B + a = nseg p.cfg - 1 := by omega
    have e2 : nseg p.cfg - 1 + 1 = nseg p.cfg := by omega
    simp [qseg, e1, e2]
  have hsent : a + 1 ≤ s.srv.sent := by rw [h.ssent]; unfold cnt; omega
  have hstep := ack_fin p.cfg s.srv B (a + 1) h.sphase h.sbase hsent (by omega)
  rw [endFrame_eq p _ (by simpa using h.scrc)] at hstep
  have hstep' : Spec.BlockUp.step p.cfg s.srv (ackFrame (a + 1)) =
      ({ s.srv with base := nseg p.cfg, blk := 127, phase := .fin }, [endFrameB p]) := hstep
  obtain ⟨log, hsend⟩ := hD.send s (ackFrame (a + 1)) h.pend
  rw [hstep'] at hsend
  have hn : 7 * nseg p.cfg - p.cfg.data.length < 7 := by omega
  obtain ⟨f1, f2, f3⟩ := endn_bits ⟨7 * nseg p.cfg - p.cfg.data.length, hn⟩
  simp only at f1 f2 f3
  rw [← endB0_none p.cfg he] at f1 f2 f3
  unfold afterSeq
  simp only [hseg, List.getD_cons_zero, NO_MORE_BLOCKS, b6, ne_eq, not_false_eq_true, or_true, if_true,
    List.drop_succ_cons, List.drop_zero]
  constructor
  · intro hch
    have hq3 : (ackBlock E s).queue = [] := by
      rw [ackBlock_eq, h.ackseq, hsend]
      simp [dlist, hch, h.queue]
    have := endUpload_empty E _ hq3
    generalize endUpload E (ackBlock E s) = x at this ⊢
    obtain ⟨s4, o⟩ := x
    simp only at this
    subst this
    rfl
  · intro hch
    obtain ⟨s3, hs3, hq3, hcl3⟩ : ∃ s3, ackBlock E s = s3 ∧ s3.queue = [endFrameB p] ∧
        (s3.cl.done = s.cl.done ∧ s3.cl.crcSupported = s.cl.crcSupported ∧ s3.cl.crc = s.cl.crc) := by
      refine ⟨_, rfl, ?_, ?_⟩
      · rw [ackBlock_eq, h.ackseq, hsend]
        simp [dlist, hch, h.queue]
      · exact ⟨(ackBlock_same _ _).done, (ackBlock_same _ _).sup, (ackBlock_same _ _).crc⟩
    rw [hs3, endUpload_ok E s3 _ _ _ [] hq3 f1 f2]
    simp only [f3, finishLast, hcl3.2.1, h.sup, byte_pair, last_chunk p.cfg h1]
    by_cases hs : p.sup = true
    · have hcrc : crcHqx (p.cfg.data.drop (7 * (nseg p.cfg - 1))) s3.cl.crc = crcHqx p.cfg.data 0 := by
        have e1 : B + a = nseg p.cfg - 1 := by omega
        rw [hcl3.2.2, hc hs, ← crcHqx_append, e1, List.take_append_drop]
      have hann := announced_plain p hx
      simp only [hs, if_true] at hann
      simp only [hs, if_true, hcrc, hann, ne_eq, not_true_eq_false, if_false]
      exact ⟨_, rfl, rfl⟩
    · have hs' : p.sup = false := by simpa using hs
      simp only [hs', Bool.false_eq_true, if_false]
      exact ⟨_, rfl, rfl⟩

theorem qseg0_seq (cfg : Cfg) (g : Nat → Bytes) (B : Nat) :
    (qseg cfg g B 0).getD 0 0 &&& 0x7F = 1 ∧ (qseg cfg g B 0).getD 0 0 ≠ 0x80 := by
  unfold qseg; split <;> simp

/-- `_retransmit` in the middle of sub-block `B` with `a` segments received in sequence: the
    acknowledge makes the server repeat from segment `B + a`, numbering from 1; what is still
    queued from the old sub-block (positions ≥ 1, i.e. sequence numbers ≥ 2) is discarded.  If
    the first repeated frame is lost as well the client gives up -/
theorem resync (E : Env) (p : Par) (hD : Deliv E p.cfg p.chan) (hl : LossOnly p) (s : Sys) (B a : Nat) (stale : List Nat) (h : LSt p s B a stale)
    (hst : ∀ i ∈ stale, 1 ≤ i ∧ i < 127) (ha : a < cnt p.cfg B) :
    (p.chan s.nresp (Spec.BlockUp.segment p.cfg (B + a) 1) = none → (retransmit E s).2 = none) ∧
    (p.chan s.nresp (Spec.BlockUp.segment p.cfg (B + a) 1) = some (Spec.BlockUp.segment p.cfg (B + a) 1) →
      ∃ s2, retransmit E s = (s2, some (qseg p.cfg (trueG p.cfg) (B + a) 0)) ∧
        LSt p s2 (B + a) 1 (kept p s.nresp (B + a) (List.range' 1 (cnt p.cfg (B + a) - 1))) ∧
        s2.cl.crc = s.cl.crc ∧ s2.nresp = s.nresp + cnt p.cfg (B + a)) := by
  have hmore : B + a < nseg p.cfg := by unfold cnt at ha; omega
  have hsent : a ≤ s.srv.sent := by rw [h.ssent]; omega
  have hstep := ack_resend p.cfg s.srv B a h.sphase h.sbase hsent hmore
  obtain ⟨log, hsend⟩ := sendReq_kept E p hD hl s (ackFrame a) _ (B + a) (cnt p.cfg (B + a)) hstep h.pend
  obtain ⟨c', hc'⟩ : ∃ c', cnt p.cfg (B + a) = c' + 1 := ⟨cnt p.cfg (B + a) - 1, by unfold cnt; omega⟩
  have hc127 : c' + 1 ≤ 127 := by rw [← hc']; unfold cnt; omega
  have hack : ackBlock E s =
      { s with srv := { s.srv with base := B + a, blk := 127, sent := cnt p.cfg (B + a), phase := .ack },
               nresp := s.nresp + cnt p.cfg (B + a),
               queue := s.queue ++ (kept p s.nresp (B + a) (List.range' 0 (cnt p.cfg (B + a)))).map
                  (qseg p.cfg (trueG p.cfg) (B + a)),
               log := log, cl := { s.cl with ackseq := 0 } } := by
    rw [ackBlock_eq, h.ackseq, hsend]
  have hrest : ∀ i ∈ kept p s.nresp (B + a) (List.range' 1 c'), 1 ≤ i ∧ i < 127 := by
    intro i hi
    have := (kept_sublist p s.nresp (B + a) _).subset hi
    rw [List.mem_range'_1] at this; omega
  have hcm : cnt p.cfg (B + a) - 1 = c' := by omega
  unfold retransmit
  simp only [hack, hcm]
  constructor
  · intro hch
    have hk : kept p s.nresp (B + a) (List.range' 0 (cnt p.cfg (B + a))) =
        kept p s.nresp (B + a) (List.range' 1 c') := by
      rw [hc', List.range'_succ]; simp [kept, hch]
    have hscan : scan 0 (s.queue ++ (kept p s.nresp (B + a) (List.range' 0 (cnt p.cfg (B + a)))).map
        (qseg p.cfg (trueG p.cfg) (B + a))) = .timeout := by
      rw [hk, h.queue, scan_skip _ _ _ _ stale hst]
      have := scan_skip p.cfg (trueG p.cfg) (B + a) [] _ hrest
      simpa [scan] using this
    simp only [hscan]
  · intro hch
    have hk : kept p s.nresp (B + a) (List.range' 0 (cnt p.cfg (B + a))) =
        0 :: kept p s.nresp (B + a) (List.range' 1 c') := by
      rw [hc', List.range'_succ]; simp [kept, hch]
    obtain ⟨q1, q2⟩ := qseg0_seq p.cfg (trueG p.cfg) (B + a)
    have hscan : scan 0 (s.queue ++ (kept p s.nresp (B + a) (List.range' 0 (cnt p.cfg (B + a)))).map
        (qseg p.cfg (trueG p.cfg) (B + a))) =
        .found (qseg p.cfg (trueG p.cfg) (B + a) 0)
          ((kept p s.nresp (B + a) (List.range' 1 c')).map (qseg p.cfg (trueG p.cfg) (B + a))) := by
      rw [hk, h.queue, scan_skip _ _ _ _ stale hst, List.map_cons]
      unfold scan
      rw [if_neg (by simpa [RESPONSE_ABORTED] using q2), if_pos (by simpa using q1)]
    simp only [hscan, q1]
    exact ⟨_, rfl, ⟨rfl, rfl, rfl, h.scrc, rfl, rfl, h.done, h.err, h.sup, h.pend⟩, rfl, rfl⟩

theorem qseg_seq (cfg : Cfg) (g : Nat → Bytes) (B i : Nat) (hi : i < 127) :
    (qseg cfg g B i).getD 0 0 &&& 0x7F = i + 1 ∧ (qseg cfg g B i).getD 0 0 ≠ 0x80 := by
  obtain ⟨b1, b2, b3, b4, b5, b6, b7⟩ := seqb' (i + 1) (by omega) (by omega)
  unfold qseg
  split
  · exact ⟨by simpa using b5, by simpa using b7⟩
  · exact ⟨by simpa using b2, by simpa using b4⟩

/-- between two `read` calls: `a` segments of the sub-block starting at `B` received in sequence
    (so `B + a` segments of the value), queued is a part of what the server sent of that sub-block
    from position `a` on, in order -/
structure LMid (p : Par) (s : Sys) (B a : Nat) (ps : List Nat) : Prop where
  st : LSt p s B a ps
  alt : a < cnt p.cfg B
  sub : ps.Sublist (List.range' a (cnt p.cfg B - a))
  crc : CrcOK p s (B + a)

/-- outcome of one `read` that started with `B + a` segments received and the server's response
    counter at `n0`: an exception (then one of the frames sent from now on was lost), the next
    segment, or the trimmed last segment with the transfer complete -/
def Out (p : Par) (n0 B a : Nat) (s' : Sys) (o : Option Bytes) : Prop :=
  (o = none ∧ ∃ n f, n0 ≤ n ∧ p.chan n f = none) ∨
  (o = some (trueG p.cfg (B + a)) ∧ B + a + 1 < nseg p.cfg ∧ n0 ≤ s'.nresp ∧
    ∃ B' a' ps', LMid p s' B' a' ps' ∧ B' + a' = B + a + 1) ∨
  (o = some (p.cfg.data.drop (7 * (nseg p.cfg - 1))) ∧ B + a + 1 = nseg p.cfg ∧ s'.cl.done = true)

theorem accept_any (E : Env) (p : Par) (hD : Deliv E p.cfg p.chan) (hl : LossOnly p) (hx : p.cfg.crcXor = 0) (he : p.cfg.endB0 = none)
    (h1 : 1 ≤ p.cfg.data.length) (s : Sys) (B a : Nat) (tl : List Nat) (h : LSt p s B (a + 1) tl)
    (ha : a < cnt p.cfg B) (hsub : tl.Sublist (List.range' (a + 1) (cnt p.cfg B - (a + 1))))
    (hc : CrcOK p s (B + a)) :
    ∃ s' o, afterSeq E s (qseg p.cfg (trueG p.cfg) B a) = (s', o) ∧ Out p s.nresp B a s' o := by
  have hcle : cnt p.cfg B ≤ 127 ∧ B + cnt p.cfg B ≤ nseg p.cfg ∧
      (B + 127 ≤ nseg p.cfg → cnt p.cfg B = 127) ∧ (nseg p.cfg ≤ B + 127 → B + cnt p.cfg B = nseg p.cfg) := by
    have := ha
    unfold cnt at this ⊢; omega
  by_cases hlast : B + a + 1 = nseg p.cfg
  · have htl : tl = [] := by
      have : cnt p.cfg B - (a + 1) = 0 := by omega
      rw [this] at hsub; simpa using hsub
    subst htl
    obtain ⟨l1, l2⟩ := accept_last E p hD hx he h1 s B a h hc hlast (by omega)
    rcases hl s.nresp (endFrameB p) with hch | hch
    · have := l1 hch
      generalize afterSeq E s _ = x at this ⊢
      obtain ⟨s', o⟩ := x
      simp only at this; subst this
      exact ⟨s', none, rfl, Or.inl ⟨rfl, _, _, Nat.le_refl _, hch⟩⟩
    · obtain ⟨s', e, hd⟩ := l2 hch
      exact ⟨s', _, e, Or.inr (Or.inr ⟨rfl, hlast, hd⟩)⟩
  · have hnl : B + a + 1 < nseg p.cfg := by omega
    by_cases h127 : a + 1 = 127
    · have ha126 : a = 126 := by omega
      subst ha126
      have htl : tl = [] := by
        have : cnt p.cfg B - (126 + 1) = 0 := by omega
        rw [this] at hsub; simpa using hsub
      subst htl
      obtain ⟨s', e, hst, hcrc, hn⟩ := accept_boundary E p hD hl s B h hc (by omega)
      have hpos : 0 < cnt p.cfg (B + 127) := by unfold cnt; omega
      exact ⟨s', _, e, Or.inr (Or.inl ⟨rfl, hnl, by omega, B + 127, 0, _,
        ⟨hst, hpos, by simpa using kept_sublist p s.nresp (B + 127) _, hcrc⟩, by omega⟩)⟩
    · obtain ⟨s', e, hst, hcrc, hn⟩ := accept_plain E p s B a tl h hc hnl (by omega)
      exact ⟨s', _, e, Or.inr (Or.inl ⟨rfl, hnl, by omega, B, a + 1, tl,
        ⟨hst, by unfold cnt; omega, hsub, hcrc⟩, by omega⟩)⟩

/-- **One `read` over a lossy channel.** -/
theorem step_loss (E : Env) (p : Par) (hD : Deliv E p.cfg p.chan) (hl : LossOnly p) (hx : p.cfg.crcXor = 0) (he : p.cfg.endB0 = none)
    (h1 : 1 ≤ p.cfg.data.length) (s : Sys) (B a : Nat) (ps : List Nat) (h : LMid p s B a ps) :
    ∃ s' o, readStep E s = (s', o) ∧ Out p s.nresp B a s' o := by
  have halt := h.alt
  have hcle : cnt p.cfg B ≤ 127 ∧ B + cnt p.cfg B ≤ nseg p.cfg := by
    have := halt
    unfold cnt at this ⊢; omega
  -- the common path: re-synchronisation with only frames of the old sub-block queued
  have resync_path : ∀ (s1 : Sys) (stale : List Nat), LSt p s1 B a stale → (∀ i ∈ stale, 1 ≤ i ∧ i < 127) →
      CrcOK p s1 (B + a) → s1.nresp = s.nresp →
      ∃ s' o, andThen E (retransmit E s1) afterSeq = (s', o) ∧ Out p s.nresp B a s' o := by
    intro s1 stale hs1 hst hc1 hn1
    obtain ⟨r1, r2⟩ := resync E p hD hl s1 B a stale hs1 hst h.alt
    rcases hl s1.nresp (Spec.BlockUp.segment p.cfg (B + a) 1) with hch | hch
    · have := r1 hch
      generalize retransmit E s1 = x at this ⊢
      obtain ⟨s', o⟩ := x
      simp only at this; subst this
      exact ⟨s', none, rfl, Or.inl ⟨rfl, _, _, by omega, hch⟩⟩
    · obtain ⟨s2, e, hst2, hcrc2, hn2⟩ := r2 hch
      rw [e]; simp only [andThen]
      have hc2 : CrcOK p s2 (B + a + 0) := by intro hs; rw [hcrc2]; exact hc1 hs
      have hpos : 0 < cnt p.cfg (B + a) := by unfold cnt at halt ⊢; omega
      obtain ⟨s', o, e', hout⟩ := accept_any E p hD hl hx he h1 s2 (B + a) 0 _ hst2 hpos
        (kept_sublist p s1.nresp (B + a) _) hc2
      refine ⟨s', o, e', ?_⟩
      rcases hout with ⟨ho, n, f, hn, hf⟩ | ⟨ho, hnl, hn, B', a', ps', hm, hb⟩ | ⟨ho, hl', hd⟩
      · exact Or.inl ⟨ho, n, f, by omega, hf⟩
      · exact Or.inr (Or.inl ⟨ho, by omega, by omega, B', a', ps', hm, by omega⟩)
      · exact Or.inr (Or.inr ⟨ho, by omega, hd⟩)
  cases ps with
  | nil =>
    have hq : s.queue = [] := by rw [h.st.queue]; rfl
    have hrr : readResponse s = (s, .timeout) := by simp [readResponse, hq]
    unfold readStep; rw [hrr]
    exact resync_path s [] h.st (by simp) h.crc rfl
  | cons p0 tl =>
    obtain ⟨g1, g2, g3⟩ := sublist_range'_cons _ _ h.sub
    have hp0 : p0 < 127 := by omega
    obtain ⟨q1, q2⟩ := qseg_seq p.cfg (trueG p.cfg) B p0 hp0
    have hq : s.queue = qseg p.cfg (trueG p.cfg) B p0 :: tl.map (qseg p.cfg (trueG p.cfg) B) := by
      rw [h.st.queue]; rfl
    have hrr : readResponse s = ({ s with queue := tl.map (qseg p.cfg (trueG p.cfg) B) },
        .resp (qseg p.cfg (trueG p.cfg) B p0)) := by
      unfold readResponse classify
      rw [hq]
      simp only
      rw [if_neg (by simpa [RESPONSE_ABORTED] using q2)]
    have htl : ∀ i ∈ tl, p0 + 1 ≤ i ∧ i < cnt p.cfg B := by
      intro i hi
      have := g3.subset hi
      rw [List.mem_range'_1] at this; omega
    unfold readStep; rw [hrr]
    simp only
    unfold seqCheck
    by_cases hp : p0 = a
    · subst hp
      rw [if_pos (by rw [q1]; simp [h.st.ackseq])]
      simp only [andThen, q1]
      have hsub : tl.Sublist (List.range' (p0 + 1) (cnt p.cfg B - (p0 + 1))) := by
        have : p0 + (cnt p.cfg B - p0) - (p0 + 1) = cnt p.cfg B - (p0 + 1) := by omega
        rw [← this]; exact g3
      exact accept_any E p hD hl hx he h1 _ B p0 tl
        ⟨h.st.sphase, h.st.sbase, h.st.ssent, h.st.scrc, rfl, rfl, h.st.done, h.st.err, h.st.sup, h.st.pend⟩ h.alt hsub h.crc
    · rw [if_neg (by rw [q1]; simp [h.st.ackseq]; omega)]
      exact resync_path _ tl
        ⟨h.st.sphase, h.st.sbase, h.st.ssent, h.st.scrc, rfl, h.st.ackseq, h.st.done, h.st.err, h.st.sup, h.st.pend⟩
        (fun i hi => by have := htl i hi; omega) h.crc rfl

theorem isEmpty_false_of_pos (l : Bytes) (h : 0 < l.length) : l.isEmpty = false := by
  cases l with
  | nil => simp at h
  | cons a l => rfl

/-- **Safety of the read loop under arbitrary loss**: a normal return yields the server's value -/
theorem readAll_safe (E : Env) (p : Par) (hD : Deliv E p.cfg p.chan) (hl : LossOnly p) (hx : p.cfg.crcXor = 0) (he : p.cfg.endB0 = none)
    (h1 : 1 ≤ p.cfg.data.length) :
    ∀ (fuel : Nat) (s : Sys) (B a : Nat) (ps : List Nat) (v : Bytes), LMid p s B a ps →
    (readAll E fuel s (p.cfg.data.take (7 * (B + a)))).2 = .ok v → v = p.cfg.data := by
  intro fuel
  induction fuel with
  | zero => intro s B a ps v _ h; simp [readAll] at h
  | succ f ih =>
    intro s B a ps v hm h
    obtain ⟨s', o, e, hout⟩ := step_loss E p hD hl hx he h1 s B a ps hm
    rcases hout with ⟨ho, -⟩ | ⟨ho, hnl, -, B', a', ps', hm', hb⟩ | ⟨ho, hlast, hd⟩
    · subst ho
      simp [readAll, hm.st.done, e] at h
    · subst ho
      have hne : (trueG p.cfg (B + a)).isEmpty = false :=
        isEmpty_false_of_pos _ (by rw [trueG_length]; omega)
      simp only [readAll, hm.st.done, Bool.false_eq_true, if_false, e, hne] at h
      rw [← take_step p.cfg (B + a) (nseg_le p.cfg _ hnl), ← hb] at h
      exact ih s' B' a' ps' v hm' h
    · subst ho
      obtain ⟨n1, n2, n3⟩ := nseg_bounds p.cfg h1
      have hne : (p.cfg.data.drop (7 * (nseg p.cfg - 1))).isEmpty = false :=
        isEmpty_false_of_pos _ (by simp; omega)
      have e1 : B + a = nseg p.cfg - 1 := by omega
      simp only [readAll, hm.st.done, Bool.false_eq_true, if_false, e, hne] at h
      rw [e1, List.take_append_drop] at h
      cases f with
      | zero => simp [readAll] at h
      | succ f =>
        simp only [readAll, hd, if_true] at h
        exact (Res.ok.inj h).symm

/-- a request answered by one frame that gets through -/
theorem sendReq_one (E : Env) (p : Par) (hD : Deliv E p.cfg p.chan) (s : Sys) (f e : Bytes) (srv' : Srv)
    (hstep : Spec.BlockUp.step p.cfg s.srv f = (srv', [e])) (hch : p.chan s.nresp e = some e)
    (hp : s.pending = []) :
    ∃ log, sendReq E s f = { s with srv := srv', nresp := s.nresp + 1, queue := s.queue ++ [e], log := log } := by
  obtain ⟨log, h⟩ := hD.send s f hp
  rw [hstep] at h
  exact ⟨log, by rw [h]; simp [dlist, hch]⟩

/-- a request whose single response frame is lost -/
theorem sendReq_one_lost (E : Env) (p : Par) (hD : Deliv E p.cfg p.chan) (s : Sys) (f e : Bytes) (srv' : Srv)
    (hstep : Spec.BlockUp.step p.cfg s.srv f = (srv', [e])) (hch : p.chan s.nresp e = none)
    (hp : s.pending = []) :
    ∃ log, sendReq E s f = { s with srv := srv', nresp := s.nresp + 1, log := log } := by
  obtain ⟨log, h⟩ := hD.send s f hp
  rw [hstep] at h
  exact ⟨log, by rw [h]; simp [dlist, hch]⟩

/-- a fresh client/server pair with `q` sitting in the client's response queue -/
def startQ (q : List Bytes) : Sys := { queue := q }

/-- the server's initiate response -/
def initResp (p : Par) : Bytes :=
  [0xC0 ||| (if p.cfg.crcCapable then 4 else 0) ||| (if p.cfg.sizeInd then 2 else 0),
    p.idx % 256, p.idx / 256, p.sub] ++ leBytes 4 (if p.cfg.sizeInd then p.cfg.data.length else 0)

/-- the start request over a lossy channel: what gets through of the first sub-block is queued -/
theorem mid_of_start_loss (E : Env) (p : Par) (hD : Deliv E p.cfg p.chan) (hl : LossOnly p) (hn : 1 ≤ nseg p.cfg) (S : Sys)
    (h1 : S.srv = { idx := p.idx, sub := p.sub, blk := 127, crc := p.sup, base := 0, phase := .start })
    (h2 : S.nresp = 1) (h3 : S.queue = [])
    (h4 : S.cl.ackseq = 0 ∧ S.cl.done = false ∧ S.cl.error = false ∧ S.cl.crcSupported = p.sup ∧ S.cl.crc = 0)
    (h5 : S.pending = []) :
    LMid p (sendReq E S [REQUEST_BLOCK_UPLOAD ||| START_BLOCK_UPLOAD, 0, 0, 0, 0, 0, 0, 0]) 0 0
        (kept p 1 0 (List.range' 0 (cnt p.cfg 0))) ∧
      (sendReq E S [REQUEST_BLOCK_UPLOAD ||| START_BLOCK_UPLOAD, 0, 0, 0, 0, 0, 0, 0]).nresp =
        1 + cnt p.cfg 0 := by
  have hstep2 : Spec.BlockUp.step p.cfg S.srv startFrame =
      ({ idx := p.idx, sub := p.sub, blk := 127, crc := p.sup, base := 0, phase := .ack,
         sent := cnt p.cfg 0 },
       (List.range' 0 (cnt p.cfg 0)).map fun i => Spec.BlockUp.segment p.cfg (0 + i) (i + 1)) := by
    rw [h1]
    simp [Spec.BlockUp.step, startFrame, Spec.BlockUp.startStep, Spec.BlockUp.flagIf, Spec.BlockUp.sendBlock,
      range_eq_range', cnt]
  obtain ⟨log2, hs2⟩ := sendReq_kept E p hD hl S startFrame _ 0 (cnt p.cfg 0) hstep2 h5
  rw [show [REQUEST_BLOCK_UPLOAD ||| START_BLOCK_UPLOAD, 0, 0, 0, 0, 0, 0, 0] = startFrame from rfl, hs2]
  obtain ⟨a1, a2, a3, a4, a5⟩ := h4
  have hpos : 0 < cnt p.cfg 0 := by unfold cnt; omega
  refine ⟨⟨⟨rfl, rfl, rfl, rfl, by simp [h3, h2], a1, a2, a3, a4, h5⟩, hpos,
    by simpa using kept_sublist p 1 0 _, ?_⟩, by simp [h2]⟩
  intro _
  simp [a5, crcHqx]

/-- the initiate exchange and the start request over a lossy channel -/
theorem init_loss (E : Env) (p : Par) (hD : Deliv E p.cfg p.chan) (hl : LossOnly p) (hn : 1 ≤ nseg p.cfg) (hlen : p.cfg.data.length < 2 ^ 32) :
    ∀ q : List Bytes,
    (p.chan 0 (initResp p) = none → (init E (startQ q) p.idx p.sub p.crcReq).2 = false) ∧
    (p.chan 0 (initResp p) = some (initResp p) →
      ∃ s, init E (startQ q) p.idx p.sub p.crcReq = (s, true) ∧
        LMid p s 0 0 (kept p 1 0 (List.range' 0 (cnt p.cfg 0))) ∧ s.nresp = 1 + cnt p.cfg 0) := by
  have hv : leVal (leBytes 4 p.cfg.data.length) = p.cfg.data.length := by
    rw [leVal_leBytes]; exact Nat.mod_eq_of_lt (by simpa using hlen)
  have hmux : p.idx % 256 + 256 * (p.idx / 256) = p.idx := by omega
  have hstep1 : Spec.BlockUp.step p.cfg {} (initFrame p) =
      ({ idx := p.idx, sub := p.sub, blk := 127, crc := p.sup, base := 0, phase := .start }, [initResp p]) := by
    cases hc : p.crcReq <;>
      simp [Spec.BlockUp.step, initFrame, Spec.BlockUp.idleStep, Spec.BlockUp.flagIf, hc, hmux, Par.sup, initResp]
  have hreq : [REQUEST_BLOCK_UPLOAD ||| INITIATE_BLOCK_TRANSFER ||| (if p.crcReq then CRC_SUPPORTED else 0),
      p.idx % 256, p.idx / 256, p.sub, UPLOAD_BLKSIZE, 0, 0, 0] = initFrame p := by
    unfold initFrame
    cases p.crcReq <;> simp [REQUEST_BLOCK_UPLOAD, INITIATE_BLOCK_TRANSFER, CRC_SUPPORTED, UPLOAD_BLKSIZE]
  obtain ⟨hb1, hb2, hb3, hb4⟩ := init_bits p.cfg.crcCapable p.cfg.sizeInd
  intro q
  constructor
  · intro hch
    obtain ⟨log1, hs1⟩ := sendReq_one_lost E p hD {} (initFrame p) _ _ hstep1 hch rfl
    unfold init
    simp only [requestResponse, MAX_RETRIES, rrLoop, hreq]
    rw [show ({ startQ q with queue := [] } : Sys) = ({} : Sys) from rfl, hs1]
    simp [readResponse]
  · intro hch
    obtain ⟨log1, hs1⟩ := sendReq_one E p hD {} (initFrame p) _ _ hstep1 hch rfl
    unfold init
    simp only [requestResponse, MAX_RETRIES, rrLoop, hreq]
    rw [show ({ startQ q with queue := [] } : Sys) = ({} : Sys) from rfl, hs1]
    simp only [readResponse, List.nil_append, classify, RESPONSE_ABORTED, initResp, List.cons_append,
      List.getD_cons_zero, hb1, if_false, RESPONSE_BLOCK_UPLOAD, hb2, ne_eq, not_true_eq_false,
      List.getD_cons_succ, hmux, or_self, BLOCK_SIZE_SPECIFIED, CRC_SUPPORTED]
    obtain ⟨hm, hnr⟩ := mid_of_start_loss E p hD hl hn
      { ({} : Sys) with
        srv := { idx := p.idx, sub := p.sub, blk := 127, crc := p.sup, base := 0, phase := .start },
        nresp := 1, log := log1,
        cl := { ({} : Cl) with
          size := if (192 ||| (if p.cfg.crcCapable then 4 else 0) ||| (if p.cfg.sizeInd then 2 else 0)) &&& 2 ≠ 0
            then some (leVal ((leBytes 4 (if p.cfg.sizeInd then p.cfg.data.length else 0)).take 4)) else none,
          crcSupported := p.crcReq && decide ((192 ||| (if p.cfg.crcCapable then 4 else 0) |||
            (if p.cfg.sizeInd then 2 else 0)) &&& 4 ≠ 0) } }
      rfl rfl rfl (by
        refine ⟨rfl, rfl, rfl, ?_, rfl⟩
        simp only [Par.sup]
        cases p.crcReq <;> cases hc : p.cfg.crcCapable <;> simp [hc] at hb4 ⊢ <;> simp [hb4]) rfl
    exact ⟨_, rfl, hm, hnr⟩

theorem blockUploadFrom_false (E : Env) (fuel : Nat) (s0 : Sys) (idx sub : Nat) (c : Bool)
    (h : (init E { s0 with cl := {} } idx sub c).2 = false) : (blockUploadFrom E fuel s0 idx sub c).2 = .err := by
  unfold blockUploadFrom
  generalize init E { s0 with cl := {} } idx sub c = x at h
  obtain ⟨s, b⟩ := x
  simp only at h; subst h
  rfl

theorem blockUploadFrom_true (E : Env) (fuel : Nat) (s0 s : Sys) (idx sub : Nat) (c : Bool)
    (h : init E { s0 with cl := {} } idx sub c = (s, true)) :
    (blockUploadFrom E fuel s0 idx sub c).2 = (readAll E fuel s []).2 := by
  unfold blockUploadFrom
  rw [h]

/-- **Any loss pattern: a normal return yields exactly the server's value** (whatever sits in
    the client's queue beforehand). -/
theorem upload_loss_safe (E : Env) (p : Par) (hD : Deliv E p.cfg p.chan) (hl : LossOnly p) (hx : p.cfg.crcXor = 0)
    (he : p.cfg.endB0 = none) (h1 : 1 ≤ p.cfg.data.length) (hlen : p.cfg.data.length < 2 ^ 32) (fuel : Nat)
    (q : List Bytes) (v : Bytes)
    (h : (blockUploadFrom E fuel (startQ q) p.idx p.sub p.crcReq).2 = .ok v) :
    v = p.cfg.data := by
  have hn := (nseg_bounds p.cfg h1).1
  obtain ⟨i1, i2⟩ := init_loss E p hD hl hn hlen q
  rcases hl 0 (initResp p) with hch | hch
  · have e' : (init E { startQ q with cl := {} } p.idx p.sub p.crcReq).2 = false := i1 hch
    rw [blockUploadFrom_false E fuel (startQ q) _ _ _ e'] at h
    cases h
  · obtain ⟨s, e, hm, -⟩ := i2 hch
    have e' : init E { startQ q with cl := {} } p.idx p.sub p.crcReq = (s, true) := e
    rw [blockUploadFrom_true E fuel (startQ q) s _ _ _ e'] at h
    exact readAll_safe E p hD hl hx he h1 fuel s 0 0 _ v hm h

/-! ### a single lost segment -/

theorem readAll_step (E : Env) (f : Nat) (s s' : Sys) (acc d : Bytes) (hd : s.cl.done = false)
    (e : readStep E s = (s', some d)) (hne : d.isEmpty = false) :
    readAll E (f + 1) s acc = readAll E f s' (acc ++ d) := by
  simp [readAll, hd, e, hne]

theorem readAll_done (E : Env) (f : Nat) (s : Sys) (acc : Bytes) (hd : s.cl.done = true) :
    readAll E (f + 1) s acc = (s, .ok acc) := by
  simp [readAll, hd]

/-- `read` when the head of the queue is the segment expected next -/
theorem readStep_inseq (E : Env) (p : Par) (s : Sys) (B a : Nat) (tl : List Nat) (h : LSt p s B a (a :: tl)) (ha : a < 127) :
    readStep E s = afterSeq E
      { s with queue := tl.map (qseg p.cfg (trueG p.cfg) B), cl := { s.cl with ackseq := a + 1 } }
      (qseg p.cfg (trueG p.cfg) B a) := by
  obtain ⟨q1, q2⟩ := qseg_seq p.cfg (trueG p.cfg) B a ha
  have hq : s.queue = qseg p.cfg (trueG p.cfg) B a :: tl.map (qseg p.cfg (trueG p.cfg) B) := by
    rw [h.queue]; rfl
  have hrr : readResponse s = ({ s with queue := tl.map (qseg p.cfg (trueG p.cfg) B) },
      .resp (qseg p.cfg (trueG p.cfg) B a)) := by
    unfold readResponse classify
    rw [hq]
    simp only
    rw [if_neg (by simpa [RESPONSE_ABORTED] using q2)]
  unfold readStep; rw [hrr]
  simp only
  unfold seqCheck
  rw [if_pos (by rw [q1]; simp [h.ackseq])]
  simp only [andThen, q1]

theorem kept_all (p : Par) (n0 B : Nat) (l : List Nat)
    (h : ∀ i ∈ l, (p.chan (n0 + i) (Spec.BlockUp.segment p.cfg (B + i) (i + 1))).isSome = true) :
    kept p n0 B l = l := by
  unfold kept
  exact List.filter_eq_self.mpr h

/-- parameters of a run in which the server's response number `g` is lost and nothing else happens -/
def lossPar (cfg : Cfg) (g : Nat) (crcReq : Bool) (idx sub : Nat) : Par :=
  { cfg := cfg, chan := fun n f => if n = g then none else some f, g := trueG cfg, crcReq := crcReq,
    idx := idx, sub := sub }

@[simp] theorem lossPar_cfg (cfg : Cfg) (g : Nat) (crcReq : Bool) (idx sub : Nat) :
    (lossPar cfg g crcReq idx sub).cfg = cfg := rfl

theorem lossOnly_lossPar (cfg : Cfg) (g : Nat) (crcReq : Bool) (idx sub : Nat) :
    LossOnly (lossPar cfg g crcReq idx sub) := by
  intro n f
  simp only [lossPar]
  split
  · exact Or.inl rfl
  · exact Or.inr rfl

theorem lossPar_chan (cfg : Cfg) (g : Nat) (crcReq : Bool) (idx sub n : Nat) (f : Bytes) (h : n ≠ g) :
    (lossPar cfg g crcReq idx sub).chan n f = some f := by
  simp [lossPar, h]

/-- the frame to be lost is still ahead (then everything the server sent of the current sub-block is
    queued) or behind -/
def Live (p : Par) (g : Nat) (s : Sys) (B a : Nat) (ps : List Nat) : Prop :=
  g < s.nresp ∨ (ps = List.range' a (cnt p.cfg B - a) ∧ s.nresp = 1 + B + cnt p.cfg B)

theorem live_of_kept (p : Par) (g : Nat) (hch : ∀ n f, n ≠ g → p.chan n f = some f) (n0 B nr : Nat)
    (hn0 : n0 = 1 + B) (hnr : nr = n0 + cnt p.cfg B) :
    g < nr ∨ (kept p n0 B (List.range' 0 (cnt p.cfg B)) = List.range' 0 (cnt p.cfg B - 0) ∧
      nr = 1 + B + cnt p.cfg B) := by
  by_cases hg : g < nr
  · exact Or.inl hg
  · refine Or.inr ⟨?_, by omega⟩
    rw [Nat.sub_zero]
    apply kept_all
    intro i hi
    rw [List.mem_range'_1] at hi
    rw [hch _ _ (by omega)]
    rfl

/-- **The read loop with one lost segment**: it runs to the end and returns the value -/
theorem readAll_live (E : Env) (p : Par) (hD : Deliv E p.cfg p.chan) (hl : LossOnly p) (hx : p.cfg.crcXor = 0) (he : p.cfg.endB0 = none)
    (h1 : 1 ≤ p.cfg.data.length) (g : Nat) (hg : g ≤ nseg p.cfg) (hch : ∀ n f, n ≠ g → p.chan n f = some f) :
    ∀ (m : Nat) (s : Sys) (B a : Nat) (ps : List Nat) (fuel : Nat), LMid p s B a ps → Live p g s B a ps →
      B + a + m + 1 = nseg p.cfg → m + 2 ≤ fuel →
      (readAll E fuel s (p.cfg.data.take (7 * (B + a)))).2 = .ok p.cfg.data := by
  obtain ⟨n1, n2, n3⟩ := nseg_bounds p.cfg h1
  intro m
  induction m with
  | zero =>
    intro s B a ps fuel hm hlive hpos hf
    obtain ⟨f, rfl⟩ : ∃ f, fuel = f + 2 := ⟨fuel - 2, by omega⟩
    have halt := hm.alt
    have hnr : g < s.nresp := by
      rcases hlive with h | ⟨-, h⟩
      · exact h
      · unfold cnt at halt h; omega
    obtain ⟨s', o, e, hout⟩ := step_loss E p hD hl hx he h1 s B a ps hm
    rcases hout with ⟨ho, n, fr, hn, hf'⟩ | ⟨ho, hnl, -⟩ | ⟨ho, hlast, hd⟩
    · exfalso
      have := hch n fr (by omega)
      rw [this] at hf'; cases hf'
    · omega
    · subst ho
      have hne : (p.cfg.data.drop (7 * (nseg p.cfg - 1))).isEmpty = false :=
        isEmpty_false_of_pos _ (by simp; omega)
      rw [readAll_step _ _ _ _ _ _ hm.st.done e hne, readAll_done _ _ _ _ hd]
      have e1 : B + a = nseg p.cfg - 1 := by omega
      simp [e1]
  | succ m ih =>
    intro s B a ps fuel hm hlive hpos hf
    obtain ⟨f, rfl⟩ : ∃ f, fuel = f + 1 := ⟨fuel - 1, by omega⟩
    have hnl : B + a + 1 < nseg p.cfg := by omega
    have halt := hm.alt
    have hne : (trueG p.cfg (B + a)).isEmpty = false :=
      isEmpty_false_of_pos _ (by rw [trueG_length]; omega)
    suffices hnext : ∃ s' B' a' ps', readStep E s = (s', some (trueG p.cfg (B + a))) ∧ LMid p s' B' a' ps' ∧
        Live p g s' B' a' ps' ∧ B' + a' = B + a + 1 by
      obtain ⟨s', B', a', ps', e, hm', hl', hb⟩ := hnext
      rw [readAll_step _ _ _ _ _ _ hm.st.done e hne, ← take_step p.cfg (B + a) (nseg_le p.cfg _ hnl), ← hb]
      exact ih s' B' a' ps' f hm' hl' (by omega) (by omega)
    rcases hlive with hleft | ⟨hps, hnr⟩
    · obtain ⟨s', o, e, hout⟩ := step_loss E p hD hl hx he h1 s B a ps hm
      rcases hout with ⟨ho, n, fr, hn, hf'⟩ | ⟨ho, -, hn, B', a', ps', hm', hb⟩ | ⟨ho, hlast, -⟩
      · exfalso
        have := hch n fr (by omega)
        rw [this] at hf'; cases hf'
      · subst ho
        exact ⟨s', B', a', ps', e, hm', Or.inl (by omega), hb⟩
      · omega
    · have hcnt : cnt p.cfg B - a = (cnt p.cfg B - (a + 1)) + 1 := by omega
      rw [hcnt, List.range'_succ] at hps
      subst hps
      have ha127 : a < 127 := by unfold cnt at halt; omega
      have e0 := readStep_inseq E p s B a _ hm.st ha127
      have hs2 : LSt p { s with queue := (List.range' (a + 1) (cnt p.cfg B - (a + 1))).map (qseg p.cfg (trueG p.cfg) B),
                                cl := { s.cl with ackseq := a + 1 } } B (a + 1)
          (List.range' (a + 1) (cnt p.cfg B - (a + 1))) :=
        ⟨hm.st.sphase, hm.st.sbase, hm.st.ssent, hm.st.scrc, rfl, rfl, hm.st.done, hm.st.err, hm.st.sup, hm.st.pend⟩
      by_cases h127 : a + 1 = 127
      · have ha126 : a = 126 := by omega
        subst ha126
        have hc127 : cnt p.cfg B = 127 := by unfold cnt at halt ⊢; omega
        have htl : List.range' (126 + 1) (cnt p.cfg B - (126 + 1)) = [] := by rw [hc127]; rfl
        rw [htl] at hs2 e0
        obtain ⟨s', e', hst, hcrc, hn'⟩ := accept_boundary E p hD hl _ B hs2 hm.crc (by omega)
        have hpos' : 0 < cnt p.cfg (B + 127) := by unfold cnt; omega
        simp only at hn'
        exact ⟨s', B + 127, 0, _, by rw [e0]; exact e',
          ⟨hst, hpos', by simpa using kept_sublist p s.nresp (B + 127) _, hcrc⟩,
          live_of_kept p g hch s.nresp (B + 127) s'.nresp (by omega) hn', by omega⟩
      · obtain ⟨s', e', hst, hcrc, hn'⟩ := accept_plain E p _ B a _ hs2 hm.crc hnl (by omega)
        simp only at hn'
        exact ⟨s', B, a + 1, _, by rw [e0]; exact e',
          ⟨hst, by unfold cnt at halt ⊢; omega, List.Sublist.refl _, hcrc⟩,
          Or.inr ⟨rfl, by rw [hn']; exact hnr⟩, by omega⟩

/-- **A single lost segment is repaired**: the server's response number `g` (1 … number of
    segments: any segment of the first transmission) is lost, everything else gets through -/
theorem upload_single_loss (E : Env) (p : Par) (hD : Deliv E p.cfg p.chan) (hl : LossOnly p) (hx : p.cfg.crcXor = 0)
    (he : p.cfg.endB0 = none) (h1 : 1 ≤ p.cfg.data.length) (hlen : p.cfg.data.length < 2 ^ 32) (g : Nat)
    (hg1 : 1 ≤ g) (hg : g ≤ nseg p.cfg) (hch : ∀ n f, n ≠ g → p.chan n f = some f) (fuel : Nat)
    (hf : nseg p.cfg + 1 ≤ fuel) (q : List Bytes) :
    (blockUploadFrom E fuel (startQ q) p.idx p.sub p.crcReq).2 = .ok p.cfg.data := by
  have hn := (nseg_bounds p.cfg h1).1
  obtain ⟨-, i2⟩ := init_loss E p hD hl hn hlen q
  obtain ⟨s, e, hm, hnr⟩ := i2 (hch 0 _ (by omega))
  have hlive : Live p g s 0 0 (kept p 1 0 (List.range' 0 (cnt p.cfg 0))) :=
    live_of_kept p g hch 1 0 s.nresp rfl hnr
  have := readAll_live E p hD hl hx he h1 g hg hch (nseg p.cfg - 1) s 0 0 _ fuel hm hlive (by omega) (by omega)
  have e' : init E { startQ q with cl := {} } p.idx p.sub p.crcReq = (s, true) := e
  rw [blockUploadFrom_true E fuel (startQ q) s _ _ _ e']
  exact this

/-! ### the two environments -/

theorem deliver_dlist (p : Par) : ∀ (rs : List Bytes) (s : Sys), ∃ log, deliver p.env s rs =
    { s with nresp := s.nresp + rs.length, queue := s.queue ++ dlist p.chan s.nresp rs, log := log } := by
  intro rs
  induction rs with
  | nil => intro s; exact ⟨s.log, by simp [deliver, dlist]⟩
  | cons r rs ih =>
    intro s
    simp only [deliver, dlist]
    cases hch : p.chan s.nresp r with
    | none =>
      have hd : deliver1 p.env s r = { s with nresp := s.nresp + 1, log := ⟨3, r⟩ :: s.log } := by
        simp [deliver1, Par.env, hch]
      obtain ⟨log, h⟩ := ih { s with nresp := s.nresp + 1, log := ⟨3, r⟩ :: s.log }
      exact ⟨log, by rw [hd, h]; simp [Nat.add_assoc, Nat.add_comm 1]⟩
    | some d =>
      have hd : deliver1 p.env s r = { s with nresp := s.nresp + 1, queue := s.queue ++ [d], log := ⟨if d = r then 2 else 4, d⟩ :: s.log } := by
        simp [deliver1, Par.env, hch]
      obtain ⟨log, h⟩ := ih { s with nresp := s.nresp + 1, queue := s.queue ++ [d], log := ⟨if d = r then 2 else 4, d⟩ :: s.log }
      exact ⟨log, by rw [hd, h]; simp [Nat.add_assoc, Nat.add_comm 1]⟩

/-- the C13 environment -/
theorem deliv_env (p : Par) : Deliv p.env p.cfg p.chan := by
  refine ⟨fun s f _ => ?_⟩
  obtain ⟨log, h⟩ := deliver_dlist p (Spec.BlockUp.step p.cfg s.srv f).2
    { s with srv := (Spec.BlockUp.step p.cfg s.srv f).1, log := ⟨0, f⟩ :: s.log }
  exact ⟨log, by rw [sendReq_plain p.env rfl]; exact h⟩

/-- the channel that a C07 disturbance hitting response `at_` on the spot amounts to -/
def distChan (at_ : Nat) (k : Kind) : Nat → Bytes → Option Bytes :=
  fun n f => if n = at_ then (distort k f).1.head? else some f

/-- disturbances that put at most one frame in place of the one hit, and nothing later -/
def Spot (k : Kind) : Prop := ∀ r, (distort k r).2 = [] ∧ (distort k r).1.length ≤ 1

theorem deliver_dist (E : Env) (at_ : Nat) (k : Kind) (hd : E.dist = some (at_, k)) (hk : Spot k) :
    ∀ (rs : List Bytes) (s : Sys), s.pending = [] → ∃ log, deliver E s rs =
      { s with nresp := s.nresp + rs.length, queue := s.queue ++ dlist (distChan at_ k) s.nresp rs, log := log } := by
  intro rs
  induction rs with
  | nil => intro s _; exact ⟨s.log, by simp [deliver, dlist]⟩
  | cons r rs ih =>
    intro s hp
    obtain ⟨k2, k1⟩ := hk r
    simp only [deliver, dlist]
    by_cases hn : s.nresp = at_
    · have hd1 : deliver1 E s r = { s with nresp := s.nresp + 1, queue := s.queue ++ (distort k r).1, log := ((distort k r).1.map (Ev.mk 5)).reverse ++ s.log } := by
        simp [deliver1, hd, hn, k2, hp]
      have hm : (match distChan at_ k s.nresp r with | none => [] | some d => [d]) = (distort k r).1 := by
        simp only [distChan, hn, if_true]
        cases hx : (distort k r).1 with
        | nil => rfl
        | cons a l =>
          cases l with
          | nil => rfl
          | cons b l => rw [hx] at k1; simp at k1
      obtain ⟨log, h⟩ := ih { s with nresp := s.nresp + 1, queue := s.queue ++ (distort k r).1, log := ((distort k r).1.map (Ev.mk 5)).reverse ++ s.log } hp
      exact ⟨log, by rw [hd1, h, hm]; simp [Nat.add_assoc, Nat.add_comm 1]⟩
    · have hd1 : deliver1 E s r = { s with nresp := s.nresp + 1, queue := s.queue ++ [r], log := ⟨5, r⟩ :: s.log } := by
        simp [deliver1, hd, hn]
      have hm : (match distChan at_ k s.nresp r with | none => [] | some d => [d]) = [r] := by
        simp [distChan, hn]
      obtain ⟨log, h⟩ := ih { s with nresp := s.nresp + 1, queue := s.queue ++ [r], log := ⟨5, r⟩ :: s.log } hp
      exact ⟨log, by rw [hd1, h, hm]; simp [Nat.add_assoc, Nat.add_comm 1]⟩

/-- the C07 environment with a disturbance that acts on the spot -/
theorem deliv_dist (E : Env) (at_ : Nat) (k : Kind) (hd : E.dist = some (at_, k)) (hk : Spot k) :
    Deliv E E.cfg (distChan at_ k) := by
  refine ⟨fun s f hp => ?_⟩
  obtain ⟨log, h⟩ := deliver_dist E at_ k hd hk (Spec.BlockUp.step E.cfg s.srv f).2
    { s with srv := (Spec.BlockUp.step E.cfg s.srv f).1, queue := s.queue ++ s.pending, pending := [],
             log := (s.pending.map (Ev.mk 5)).reverse ++ ⟨0, f⟩ :: s.log } rfl
  refine ⟨log, ?_⟩
  have : sendReq E s f = deliver E
      { s with srv := (Spec.BlockUp.step E.cfg s.srv f).1, queue := s.queue ++ s.pending, pending := [],
               log := (s.pending.map (Ev.mk 5)).reverse ++ ⟨0, f⟩ :: s.log }
      (Spec.BlockUp.step E.cfg s.srv f).2 := by
    simp [sendReq, hd]
  rw [this, h]
  simp [hp]

theorem spot_lost : Spot .lost := fun _ => ⟨rfl, by simp [distort]⟩

end Canopen.C13
