/-
Lemmas tying `build_variable` (model) to the independent writer's variable sections: values,
limits, option lookup, and finally `buildVariable (section written for v) = denoteVar v`.
-/
import CanopenProofs.Lemmas.EdsSpell

namespace Canopen.Spec.EdsWriter
open Canopen.Eds Canopen.Gen.Datatypes Canopen.Gen.EdsTables

/-! ### bytes -/

theorem fromHexF_spellBytes (up spaced : Bool) (bs : List Nat) (h : ∀ b ∈ bs, b < 256) :
    ∀ fuel, (spellBytes up spaced bs).length < fuel →
      fromHexF fuel (spellBytes up spaced bs) = some bs := by
  induction bs with
  | nil => intro fuel hf; cases fuel <;> simp_all [fromHexF, spellBytes]
  | cons b r ih =>
    intro fuel hf
    have hb : b < 256 := h b (by simp)
    have h1 : b / 16 < 16 := by omega
    have h2 : b % 16 < 16 := by omega
    have hbb : b / 16 * 16 + b % 16 = b := by omega
    cases fuel with
    | zero => omega
    | succ fuel =>
      cases r with
      | nil =>
        cases fuel with
        | zero => simp [spellBytes] at hf
        | succ fuel =>
          simp [spellBytes, fromHexF, digitChar_notSpace up _ h1, digitVal_digitChar up _ h1,
            digitVal_digitChar up _ h2, hbb]
      | cons c r' =>
        have ih' := ih (fun x hx => h x (by simp [hx]))
        simp only [spellBytes, List.length_cons, List.length_append] at hf
        simp only [spellBytes, fromHexF, digitChar_notSpace up _ h1, digitVal_digitChar up _ h1,
          digitVal_digitChar up _ h2, hbb]
        cases spaced
        · simp only [Bool.false_eq_true, if_false, List.nil_append, List.length_nil] at hf ⊢
          rw [ih' fuel (by omega)]; simp
        · cases fuel with
          | zero => simp at hf
          | succ fuel =>
            simp only [if_true, List.singleton_append, fromHexF, List.length_cons, List.length_nil] at hf ⊢
            have : isSpace ' ' = true := by decide
            simp only [this, if_true]
            rw [ih' fuel (by omega)]; simp

theorem fromHex_spellBytes (up spaced : Bool) (bs : List Nat) (h : ∀ b ∈ bs, b < 256) :
    fromHex (spellBytes up spaced bs) = some bs :=
  fromHexF_spellBytes up spaced bs h _ (Nat.lt_succ_self _)

/-! ### `_convert_variable` on spelled values -/

theorem removeBlanks_append (a b : Str) : removeBlanks (a ++ b) = removeBlanks a ++ removeBlanks b := by
  simp [removeBlanks, List.filter_append]

theorem upper_append (a b : Str) : upper (a ++ b) = upper a ++ upper b := by
  simp [upper, List.map_append]

theorem removeBlanks_plusText (bl : Bool) : removeBlanks (plusText bl) = ['+'] := by
  cases bl <;> decide

theorem convertInt_spellInt (nid : Option Int) (sp : NumSp) (i : Int) :
    convertInt nid (spellInt sp i) = some i := by
  unfold convertInt
  simp only [removeBlanks_of_noSpace _ (spellInt_notSpace sp i), upper_spellInt]
  have hnd : containsNodeid (spellInt sp.toUp i) = false :=
    containsNodeid_false _ (spellInt_noDollar sp.toUp i)
  cases nid <;> simp [hnd, pyInt0_spellInt]

theorem rel_text_normal (b : Int) (sp : NumSp) (nodeFirst blanks : Bool) :
    upper (removeBlanks (SVal.text (.rel b sp nodeFirst blanks))) =
      if nodeFirst then nodeidTok ++ '+' :: spellInt sp.toUp b
      else spellInt sp.toUp b ++ '+' :: nodeidTok := by
  have htok : removeBlanks nodeidTok = nodeidTok := by decide
  have hutok : upper nodeidTok = nodeidTok := by decide
  have hup : upper ['+'] = ['+'] := by decide
  cases nodeFirst
  · simp only [SVal.text, Bool.false_eq_true, if_false, removeBlanks_append, removeBlanks_plusText, htok,
      removeBlanks_of_noSpace _ (spellInt_notSpace sp b), upper_append, upper_spellInt, hutok, hup]
    simp
  · simp only [SVal.text, if_true, removeBlanks_append, removeBlanks_plusText, htok,
      removeBlanks_of_noSpace _ (spellInt_notSpace sp b), upper_append, upper_spellInt, hutok, hup]
    simp

theorem convertInt_rel (nid : Int) (b : Int) (sp : NumSp) (nodeFirst blanks : Bool) :
    convertInt (some nid) (SVal.text (.rel b sp nodeFirst blanks)) = some (b + nid) := by
  unfold convertInt
  simp only [rel_text_normal]
  cases nodeFirst
  · have hc : containsNodeid (spellInt sp.toUp b ++ '+' :: nodeidTok) = true := by
      have := containsNodeid_mid (spellInt sp.toUp b ++ ['+']) []
      simpa using this
    simp [hc, removeNodeid_suffix _ (spellInt_noDollar sp.toUp b), pyInt0_spellInt]
  · have hc : containsNodeid (nodeidTok ++ '+' :: spellInt sp.toUp b) = true := containsNodeid_prefix _
    simp [hc, removeNodeid_prefix _ (spellInt_noDollar sp.toUp b), pyInt0_spellInt]

theorem convertInt_rel_none (b : Int) (sp : NumSp) (nodeFirst blanks : Bool) :
    convertInt none (SVal.text (.rel b sp nodeFirst blanks)) = none := by
  unfold convertInt
  simp only [rel_text_normal]
  cases nodeFirst
  · simp only [Bool.false_eq_true, if_false]
    exact pyInt0_spellInt_stop _ _ _ (by decide)
  · simp only [if_true, nodeidTok, List.cons_append, List.nil_append]
    exact pyInt0_dollar _ (by
      intro c hc
      simp only [List.mem_cons] at hc
      rcases hc with rfl | rfl | rfl | rfl | rfl | rfl | rfl | hc
      all_goals first | decide | exact spellInt_notSpace _ _ c hc)

theorem intLike_classes (t : Nat) (h : isIntLike t = true) :
    ¬ (((t : Nat) : Int) = (OCTET_STRING : Int) ∨ ((t : Nat) : Int) = (DOMAIN : Int)) ∧
    ¬ (((t : Nat) : Int) = (VISIBLE_STRING : Int) ∨ ((t : Nat) : Int) = (UNICODE_STRING : Int)) ∧
    isFloatType (t : Int) = false := by
  simp only [isIntLike, isBlobType, isTextType, isRealType, Bool.and_eq_true, Bool.not_eq_true',
    Bool.or_eq_false_iff, decide_eq_false_iff_not] at h
  obtain ⟨⟨⟨h1, h2⟩, h3, h4⟩, h5, h6⟩ := h
  simp only [OCTET_STRING, DOMAIN, VISIBLE_STRING, UNICODE_STRING]
  refine ⟨by omega, by omega, ?_⟩
  simp [isFloatType, FLOAT_TYPES, h5, h6]

/-- `_convert_variable` reads every described value as what it denotes -/
theorem convertVariable_text (nid : Option Int) (t : Nat) (v : SVal) (hv : v.okFor t) :
    convertVariable nid (t : Int) v.text = v.denote t nid := by
  cases v with
  | num i sp =>
    obtain ⟨h1, h2, h3⟩ := intLike_classes t hv
    simp [convertVariable, h1, h2, h3, SVal.text, SVal.denote, convertInt_spellInt]
  | rel b sp nf bl =>
    obtain ⟨h1, h2, h3⟩ := intLike_classes t hv
    cases nid with
    | none => simp [convertVariable, h1, h2, h3, SVal.denote, convertInt_rel_none]
    | some n => simp [convertVariable, h1, h2, h3, SVal.denote, convertInt_rel]
  | bytes bs up spaced =>
    obtain ⟨ht, hb⟩ := hv
    have : ((t : Nat) : Int) = (OCTET_STRING : Int) ∨ ((t : Nat) : Int) = (DOMAIN : Int) := by
      simp only [isBlobType, Bool.or_eq_true, decide_eq_true_eq] at ht
      simp only [OCTET_STRING, DOMAIN]; omega
    simp [convertVariable, this, SVal.text, SVal.denote, fromHex_spellBytes up spaced bs hb]
  | str s =>
    have ht : isTextType t = true := hv
    have h1 : ¬ (((t : Nat) : Int) = (OCTET_STRING : Int) ∨ ((t : Nat) : Int) = (DOMAIN : Int)) := by
      simp only [isTextType, Bool.or_eq_true, decide_eq_true_eq] at ht
      simp only [OCTET_STRING, DOMAIN]; omega
    have h2 : ((t : Nat) : Int) = (VISIBLE_STRING : Int) ∨ ((t : Nat) : Int) = (UNICODE_STRING : Int) := by
      simp only [isTextType, Bool.or_eq_true, decide_eq_true_eq] at ht
      simp only [VISIBLE_STRING, UNICODE_STRING]; omega
    simp [convertVariable, h1, h2, SVal.text, SVal.denote]
  | real txt =>
    obtain ⟨ht, hf⟩ := hv
    simp only [isRealType, Bool.or_eq_true, decide_eq_true_eq] at ht
    have h1 : ¬ (((t : Nat) : Int) = (OCTET_STRING : Int) ∨ ((t : Nat) : Int) = (DOMAIN : Int)) := by
      simp only [OCTET_STRING, DOMAIN]; omega
    have h2 : ¬ (((t : Nat) : Int) = (VISIBLE_STRING : Int) ∨ ((t : Nat) : Int) = (UNICODE_STRING : Int)) := by
      simp only [VISIBLE_STRING, UNICODE_STRING]; omega
    have h3 : isFloatType (t : Int) = true := by
      rcases ht with rfl | rfl <;> decide
    simp [convertVariable, h1, h2, h3, SVal.text, SVal.denote, hf]
  | empty =>
    simp only [SVal.text, SVal.denote]
    by_cases hb : isBlobType t = true
    · have : ((t : Nat) : Int) = (OCTET_STRING : Int) ∨ ((t : Nat) : Int) = (DOMAIN : Int) := by
        simp only [isBlobType, Bool.or_eq_true, decide_eq_true_eq] at hb
        simp only [OCTET_STRING, DOMAIN]; omega
      simp only [convertVariable, this, if_true, hb]
      rfl
    · have hb' : isBlobType t = false := by simpa using hb
      have h1 : ¬ (((t : Nat) : Int) = (OCTET_STRING : Int) ∨ ((t : Nat) : Int) = (DOMAIN : Int)) := by
        simp only [isBlobType, Bool.or_eq_false_iff, decide_eq_false_iff_not] at hb'
        simp only [OCTET_STRING, DOMAIN]; omega
      by_cases ht : isTextType t = true
      · have h2 : ((t : Nat) : Int) = (VISIBLE_STRING : Int) ∨ ((t : Nat) : Int) = (UNICODE_STRING : Int) := by
          simp only [isTextType, Bool.or_eq_true, decide_eq_true_eq] at ht
          simp only [VISIBLE_STRING, UNICODE_STRING]; omega
        simp [convertVariable, h1, h2, hb', ht]
      · have ht' : isTextType t = false := by simpa using ht
        have h2 : ¬ (((t : Nat) : Int) = (VISIBLE_STRING : Int) ∨ ((t : Nat) : Int) = (UNICODE_STRING : Int)) := by
          simp only [isTextType, Bool.or_eq_false_iff, decide_eq_false_iff_not] at ht'
          simp only [VISIBLE_STRING, UNICODE_STRING]; omega
        simp only [convertVariable, h1, h2, if_false, hb', ht', Bool.false_eq_true]
        split
        · have : floatOk [] = false := by decide
          simp [this]
        · have : convertInt nid [] = none := by
            have h : pyInt0 [] = none := by decide
            cases nid <;> simp [convertInt, removeBlanks, upper, containsNodeid, isInfix, nodeidTok, h]
          simp [this]

/-! ### limits -/

/-- one row of the comparison below -/
def signedRowOK (t : Nat) : Bool :=
  match signedWidth t with
  | some w => isSignedType (t : Int) && (calcBitLength (t : Int) == some w) &&
      [8, 16, 24, 32, 40, 48, 56, 64].contains w
  | none => !isSignedType (t : Int)

/-- the code's `SIGNED_TYPES` tuple and `_calc_bit_length` chain agree with CiA 301 on every type
    up to 0x1B (this is where F7 showed: the chain lacked 24/40/48/56) -/
theorem signed_tables : ∀ t : Fin 28, signedRowOK t.val = true := by decide

theorem signedFromHex_twos (w : Nat) (hw : w ∈ [8, 16, 24, 32, 40, 48, 56, 64]) (v : Int) (sp : NumSp)
    (h1 : -((2 ^ (w - 1) : Nat) : Int) ≤ v) (h2 : v < ((2 ^ (w - 1) : Nat) : Int)) :
    signedFromHex (spellNat sp (v % ((2 ^ w : Nat) : Int)).toNat) w = some v := by
  unfold signedFromHex
  rw [pyInt0_spellNat]
  simp only [List.mem_cons, List.not_mem_nil, or_false] at hw
  rcases hw with rfl | rfl | rfl | rfl | rfl | rfl | rfl | rfl <;>
    (simp only [Option.map_some, Option.some.injEq]
     simp only [Nat.reducePow, Nat.reduceSub] at h1 h2 ⊢
     split <;> omega)

theorem signedFromHex_plain (w : Nat) (v : Int) (sp : NumSp)
    (h2 : v < ((2 ^ (w - 1) : Nat) : Int)) :
    signedFromHex (spellInt sp v) w = some v := by
  unfold signedFromHex
  rw [pyInt0_spellInt]
  simp only [Option.map_some, Option.some.injEq]
  have : ¬ v > ((2 ^ (w - 1) : Nat) : Int) - 1 := by omega
  rw [if_neg this]

/-- the `LowLimit`/`HighLimit` blocks read every described limit as its value -/
theorem limitOf_text (t : Nat) (ht : t ≤ 0x1B) (l : SLim) (hl : l.okFor t) :
    limitOf (t : Int) (some (l.text t)) = some l.v := by
  have key := signed_tables ⟨t, by omega⟩
  simp only [signedRowOK] at key
  unfold SLim.text limitOf
  unfold SLim.okFor at hl
  cases hsw : signedWidth t with
  | none =>
    rw [hsw] at key
    simp only [Bool.not_eq_true'] at key
    simp [key, pyInt0_spellInt]
  | some w =>
    rw [hsw] at key hl
    simp only [Bool.and_eq_true, beq_iff_eq, List.contains_eq_mem, decide_eq_true_eq] at key
    obtain ⟨⟨k1, k2⟩, k3⟩ := key
    simp only [k1, if_true, k2, Option.bind_some]
    cases l.twos
    · simp only [Bool.false_eq_true, if_false]
      exact signedFromHex_plain w l.v l.sp hl.2
    · simp only [if_true]
      exact signedFromHex_twos w k3 l.v l.sp hl.1 hl.2

/-! ### option lookup in written sections -/

theorem dictGet_append {β : Type} (k : Str) (a b : List (Str × β)) :
    dictGet k (a ++ b) = match dictGet k a with | some v => some v | none => dictGet k b := by
  induction a with
  | nil => rfl
  | cons p r ih =>
    obtain ⟨k', v⟩ := p
    simp only [List.cons_append, dictGet]
    split <;> simp_all

theorem dictGet_optLine (k k' : Str) (o : Option Str) :
    dictGet k (optLine k' o) = if k' = k then o else none := by
  cases o <;> simp [optLine, dictGet]

/-- the keys `build_variable` asks for -/
def varKeys : List Str :=
  [kParameterName, kStorageLocation, kDataType, kAccessType, kLowLimit, kHighLimit, kDefaultValue,
   kParameterValue, kPDOMapping, kFactor, kDescription, kUnit]

section
variable (v : SVar)

theorem get_varOpts_ParameterName : dictGet kParameterName (varOpts v) = some v.name := by
  simp [varOpts, dictGet, kParameterName]

theorem get_varOpts_StorageLocation : dictGet kStorageLocation (varOpts v) = v.storage := by
  simp [varOpts, dictGet_append, dictGet_optLine, dictGet, kParameterName, kStorageLocation,
    kDataType, kAccessType, kLowLimit, kHighLimit, kDefaultValue, kParameterValue, kPDOMapping,
    kFactor, kDescription, kUnit]
  cases v.storage <;> rfl

theorem get_varOpts_DataType : dictGet kDataType (varOpts v) = some (spellNat v.dtSp v.dataType) := by
  simp [varOpts, dictGet_append, dictGet_optLine, dictGet, kParameterName, kStorageLocation,
    kDataType, kAccessType]

theorem get_varOpts_AccessType :
    dictGet kAccessType (varOpts v) = some (v.accessCase.apply v.access.text) := by
  simp [varOpts, dictGet_append, dictGet_optLine, dictGet, kParameterName, kStorageLocation,
    kDataType, kAccessType]

theorem get_varOpts_LowLimit : dictGet kLowLimit (varOpts v) = v.low.map (·.text v.dataType) := by
  simp [varOpts, dictGet_append, dictGet_optLine, dictGet, kParameterName, kStorageLocation,
    kDataType, kAccessType, kLowLimit, kHighLimit, kDefaultValue, kParameterValue, kPDOMapping,
    kFactor, kDescription, kUnit]
  cases v.low <;> rfl

theorem get_varOpts_HighLimit : dictGet kHighLimit (varOpts v) = v.high.map (·.text v.dataType) := by
  simp [varOpts, dictGet_append, dictGet_optLine, dictGet, kParameterName, kStorageLocation,
    kDataType, kAccessType, kLowLimit, kHighLimit, kDefaultValue, kParameterValue, kPDOMapping,
    kFactor, kDescription, kUnit]
  cases v.high <;> rfl

theorem get_varOpts_DefaultValue : dictGet kDefaultValue (varOpts v) = v.default.map (·.text) := by
  simp [varOpts, dictGet_append, dictGet_optLine, dictGet, kParameterName, kStorageLocation,
    kDataType, kAccessType, kLowLimit, kHighLimit, kDefaultValue, kParameterValue, kPDOMapping,
    kFactor, kDescription, kUnit]
  cases v.default <;> rfl

theorem get_varOpts_ParameterValue : dictGet kParameterValue (varOpts v) = v.value.map (·.text) := by
  simp [varOpts, dictGet_append, dictGet_optLine, dictGet, kParameterName, kStorageLocation,
    kDataType, kAccessType, kLowLimit, kHighLimit, kDefaultValue, kParameterValue, kPDOMapping,
    kFactor, kDescription, kUnit]
  cases v.value <;> rfl

theorem get_varOpts_PDOMapping :
    dictGet kPDOMapping (varOpts v) = v.pdo.map fun p => spellNat p.2 p.1 := by
  simp [varOpts, dictGet_append, dictGet_optLine, dictGet, kParameterName, kStorageLocation,
    kDataType, kAccessType, kLowLimit, kHighLimit, kDefaultValue, kParameterValue, kPDOMapping,
    kFactor, kDescription, kUnit]
  cases v.pdo <;> rfl

theorem get_varOpts_Factor : dictGet kFactor (varOpts v) = v.factor := by
  simp [varOpts, dictGet_append, dictGet_optLine, dictGet, kParameterName, kStorageLocation,
    kDataType, kAccessType, kLowLimit, kHighLimit, kDefaultValue, kParameterValue, kPDOMapping,
    kFactor, kDescription, kUnit]
  cases v.factor <;> rfl

theorem get_varOpts_Description : dictGet kDescription (varOpts v) = v.description := by
  simp [varOpts, dictGet_append, dictGet_optLine, dictGet, kParameterName, kStorageLocation,
    kDataType, kAccessType, kLowLimit, kHighLimit, kDefaultValue, kParameterValue, kPDOMapping,
    kFactor, kDescription, kUnit]
  cases v.description <;> rfl

theorem get_varOpts_Unit : dictGet kUnit (varOpts v) = v.unit := by
  simp [varOpts, dictGet_append, dictGet_optLine, dictGet, kParameterName, kStorageLocation,
    kDataType, kAccessType, kLowLimit, kHighLimit, kDefaultValue, kParameterValue, kPDOMapping,
    kFactor, kDescription, kUnit]

theorem get_varOpts_ObjectType : dictGet kObjectType (varOpts v) = none := by
  simp [varOpts, dictGet_append, dictGet_optLine, dictGet, kParameterName, kStorageLocation,
    kDataType, kAccessType, kLowLimit, kHighLimit, kDefaultValue, kParameterValue, kPDOMapping,
    kFactor, kDescription, kUnit, kObjectType]

theorem get_varOpts_CompactSubObj : dictGet kCompactSubObj (varOpts v) = none := by
  simp [varOpts, dictGet_append, dictGet_optLine, dictGet, kParameterName, kStorageLocation,
    kDataType, kAccessType, kLowLimit, kHighLimit, kDefaultValue, kParameterValue, kPDOMapping,
    kFactor, kDescription, kUnit, kCompactSubObj]

end

theorem lower_access (a : AccessType) (c : Case) : lower (c.apply a.text) = a.text := by
  cases a <;> cases c <;> decide

theorem factorOf_ok (o : Option Str) (h : ∀ f, o = some f → floatOk f = true) : factorOf o = o := by
  cases o with
  | none => rfl
  | some f => simp [factorOf, h f rfl]

/-- `build_variable` on the section the writer makes for `v` (after whatever lines `pre` the kind of
    object puts first) yields exactly the described variable -/
theorem buildVariable_written (doc : Doc) (nm : Str) (pre : List (Str × Str))
    (hpre : ∀ k ∈ varKeys, dictGet k pre = none) (v : SVar) (hv : v.WF) (nid : Option Int)
    (index sub : Nat) :
    buildVariable doc ⟨nm, pre ++ varOpts v⟩ nid index sub = some (denoteVar v nid index sub) := by
  have g : ∀ k ∈ varKeys, Sec.get ⟨nm, pre ++ varOpts v⟩ k = dictGet k (varOpts v) := by
    intro k hk
    simp only [Sec.get, dictGet_append, hpre k hk]
  simp only [varKeys, List.mem_cons, List.not_mem_nil, or_false, forall_eq_or_imp, forall_eq] at g
  obtain ⟨g1, g2, g3, g4, g5, g6, g7, g8, g9, g10, g11, g12⟩ := g
  have hdt : resolveDataType doc (v.dataType : Int) = some (v.dataType : Int) := by
    have := hv.dataType_le
    unfold resolveDataType
    split
    · rename_i h; simp only [CUSTOM_TYPE_ABOVE] at h; omega
    · rfl
  have hpdo : pyInt0 ((v.pdo.map fun p => spellNat p.2 p.1).getD c!"0")
      = some (match v.pdo with | some (n, _) => (n : Int) | none => 0) := by
    cases v.pdo with
    | none => decide
    | some p => simp [pyInt0_spellNat]
  unfold buildVariable
  simp only [g1, g2, g3, g4, g5, g6, g7, g8, g9, g10, g11, g12, get_varOpts_ParameterName,
    get_varOpts_StorageLocation, get_varOpts_DataType, get_varOpts_AccessType, get_varOpts_LowLimit,
    get_varOpts_HighLimit, get_varOpts_DefaultValue, get_varOpts_ParameterValue,
    get_varOpts_PDOMapping, get_varOpts_Factor, get_varOpts_Description, get_varOpts_Unit,
    Option.bind_some, pyInt0_spellNat, hdt, hpdo, lower_access]
  simp only [denoteVar, Option.some.injEq]
  have hlow : limitOf (v.dataType : Int) (v.low.map (·.text v.dataType)) = v.low.map (·.v) := by
    cases h : v.low with
    | none => rfl
    | some l => exact limitOf_text v.dataType hv.dataType_le l (hv.low_ok l h)
  have hhigh : limitOf (v.dataType : Int) (v.high.map (·.text v.dataType)) = v.high.map (·.v) := by
    cases h : v.high with
    | none => rfl
    | some l => exact limitOf_text v.dataType hv.dataType_le l (hv.high_ok l h)
  have hdef : (v.default.map (·.text)).bind (convertVariable nid (v.dataType : Int))
      = v.default.bind (·.denote v.dataType nid) := by
    cases h : v.default with
    | none => rfl
    | some d => exact convertVariable_text nid v.dataType d (hv.default_ok d h)
  have hval : (v.value.map (·.text)).bind (convertVariable nid (v.dataType : Int))
      = v.value.bind (·.denote v.dataType nid) := by
    cases h : v.value with
    | none => rfl
    | some d => exact convertVariable_text nid v.dataType d (hv.value_ok d h)
  have hrel : (v.default.map (·.text)).any containsNodeid = (denoteVar v nid index sub).relative := by
    simp only [denoteVar]
    cases v.default <;> rfl
  have hpm : decide ((match v.pdo with | some (n, _) => (n : Int) | none => 0) ≠ 0)
      = (denoteVar v nid index sub).pdoMappable := by
    simp only [denoteVar]
    cases v.pdo with
    | none => rfl
    | some p => simp
  rw [hlow, hhigh, hdef, hval, hrel, hpm, factorOf_ok v.factor hv.factor_ok]
  rfl

end Canopen.Spec.EdsWriter
