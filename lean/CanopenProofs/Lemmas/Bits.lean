/-
Helper lemmas: bit-level view (`Nat.testBit`) of little-endian byte strings and of the
mask/shift update used by the PDO bit mapping.  Core Lean only.
-/
import CanopenModel.Pdo.Bits
import CanopenProofs.Lemmas.Bytes

namespace Canopen
open Canopen.Pdo

theorem field_testBit (x off len j : Nat) :
    (field x off len).testBit j = (decide (j < len) && x.testBit (off + j)) := by
  simp [field, Nat.testBit_mod_two_pow, Nat.testBit_shiftRight]

theorem field_lt (x off len : Nat) : field x off len < 2 ^ len :=
  Nat.mod_lt _ (Nat.pow_pos (by decide))

theorem leVal_lt' (bs : Bytes) (h : AllBytes bs) : leVal bs < 2 ^ (8 * bs.length) := by
  rw [← pow256]; exact leVal_lt bs h

/-- bits of a concatenation -/
theorem leVal_append_testBit (a b : Bytes) (ha : AllBytes a) (i : Nat) :
    (leVal (a ++ b)).testBit i =
      if i < 8 * a.length then (leVal a).testBit i else (leVal b).testBit (i - 8 * a.length) := by
  rw [leVal_append, pow256, Nat.add_comm]
  exact Nat.testBit_two_pow_mul_add (leVal b) (leVal_lt' a ha) i

theorem allBytes_take {bs : Bytes} (h : AllBytes bs) (k : Nat) : AllBytes (bs.take k) :=
  fun b hb => h b (List.mem_of_mem_take hb)

theorem allBytes_drop {bs : Bytes} (h : AllBytes bs) (k : Nat) : AllBytes (bs.drop k) :=
  fun b hb => h b (List.mem_of_mem_drop hb)

theorem leVal_take_testBit (bs : Bytes) (h : AllBytes bs) (k i : Nat) :
    (leVal (bs.take k)).testBit i = (decide (i < 8 * k) && (leVal bs).testBit i) := by
  by_cases hk : k ≤ bs.length
  · have := leVal_append_testBit (bs.take k) (bs.drop k) (allBytes_take h k) i
    rw [List.take_append_drop, List.length_take, Nat.min_eq_left hk] at this
    by_cases hi : i < 8 * k
    · simp [hi] at this ⊢; exact this.symm
    · have hlt : leVal (bs.take k) < 2 ^ (8 * (bs.take k).length) := leVal_lt' _ (allBytes_take h k)
      rw [List.length_take, Nat.min_eq_left hk] at hlt
      have : (leVal (bs.take k)).testBit i = false :=
        Nat.testBit_lt_two_pow (Nat.lt_of_lt_of_le hlt (Nat.pow_le_pow_right (by decide) (by omega)))
      simp [hi, this]
  · have ht : bs.take k = bs := List.take_of_length_le (by omega)
    rw [ht]
    by_cases hi : i < 8 * k
    · simp [hi]
    · have : (leVal bs).testBit i = false :=
        Nat.testBit_lt_two_pow (Nat.lt_of_lt_of_le (leVal_lt' bs h)
          (Nat.pow_le_pow_right (by decide) (by omega)))
      simp [hi, this]

theorem leVal_drop_testBit (bs : Bytes) (h : AllBytes bs) (k i : Nat) :
    (leVal (bs.drop k)).testBit i = (leVal bs).testBit (8 * k + i) := by
  by_cases hk : k ≤ bs.length
  · have := leVal_append_testBit (bs.take k) (bs.drop k) (allBytes_take h k) (8 * k + i)
    rw [List.take_append_drop, List.length_take, Nat.min_eq_left hk] at this
    have hn : ¬ (8 * k + i < 8 * k) := by omega
    simp only [hn, if_false] at this
    rw [this]; congr 1; omega
  · have hd : bs.drop k = [] := List.drop_of_length_le (by omega)
    rw [hd]
    have : (leVal bs).testBit (8 * k + i) = false :=
      Nat.testBit_lt_two_pow (Nat.lt_of_lt_of_le (leVal_lt' bs h)
        (Nat.pow_le_pow_right (by decide) (by omega)))
    simp [leVal, this]

/-- a byte-aligned slice of the frame is the corresponding bit field -/
theorem leVal_slice (bs : Bytes) (h : AllBytes bs) (k m : Nat) :
    leVal ((bs.drop k).take m) = field (leVal bs) (8 * k) (8 * m) := by
  apply Nat.eq_of_testBit_eq
  intro i
  rw [leVal_take_testBit _ (allBytes_drop h k), leVal_drop_testBit _ h, field_testBit]

/-- the mask/shift update of `set_data`, bit by bit -/
theorem update_testBit (fr d off len i : Nat) :
    ((fr ^^^ (fr &&& ((2 ^ len - 1) <<< off))) ||| ((d &&& (2 ^ len - 1)) <<< off)).testBit i =
      if off ≤ i ∧ i < off + len then d.testBit (i - off) else fr.testBit i := by
  simp only [Nat.testBit_or, Nat.testBit_xor, Nat.testBit_and, Nat.testBit_shiftLeft,
    Nat.testBit_two_pow_sub_one]
  by_cases h1 : off ≤ i
  · by_cases h2 : i < off + len
    · have : i - off < len := by omega
      simp [h1, h2, this]
    · have : ¬ (i - off < len) := by omega
      simp [h1, h2, this]
  · simp [h1]

theorem update_lt (fr d off len n : Nat) (hfr : fr < 2 ^ n) (hfit : off + len ≤ n) :
    (fr ^^^ (fr &&& ((2 ^ len - 1) <<< off))) ||| ((d &&& (2 ^ len - 1)) <<< off) < 2 ^ n := by
  apply Nat.lt_pow_two_of_testBit
  intro i hi
  rw [update_testBit]
  have : ¬ (off ≤ i ∧ i < off + len) := by omega
  simp only [this, if_false]
  exact Nat.testBit_lt_two_pow (Nat.lt_of_lt_of_le hfr (Nat.pow_le_pow_right (by decide) hi))

end Canopen
