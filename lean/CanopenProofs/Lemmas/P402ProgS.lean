/- C19: the progress closures and rankings (`reaches_target_partial`), SDO transport - each line is one closure computed and checked inside the kernel. -/
import CanopenProofs.Lemmas.P402Graph

namespace Canopen.P402

theorem prog_ff1 : chkProg false false 1 = true := by decide +kernel
theorem prog_ft1 : chkProg false true 1 = true := by decide +kernel
theorem prog_ff2 : chkProg false false 2 = true := by decide +kernel
theorem prog_ft2 : chkProg false true 2 = true := by decide +kernel
theorem prog_ff3 : chkProg false false 3 = true := by decide +kernel
theorem prog_ft3 : chkProg false true 3 = true := by decide +kernel
theorem prog_ff4 : chkProg false false 4 = true := by decide +kernel
theorem prog_ft4 : chkProg false true 4 = true := by decide +kernel
theorem prog_ff7 : chkProg false false 7 = true := by decide +kernel
theorem enter_ft7 : chkEnter false true 7 = true := by decide +kernel

end Canopen.P402
